(* C08 — operational model of qupulse/program/waveforms.py (+ the parts of transformation.py and
   pulses/interpolation.py it uses).  Definitions only (no proofs), executable, total; Python exceptions are explicit
   [Err kind] results.  Numbers are exact rationals (the harness restricts inputs to dyadic values on which numpy's
   float arithmetic is exact); NaN is [None].  The model follows the code as it is, including behaviour that violates
   the property (see notes/C08.md). *)
From Coq Require Import List ZArith QArith Qabs Bool.
Import ListNotations.
Open Scope Q_scope.

(* ------------------------------------------------------------------------------------------------------------------ *)
(* basics *)

Definition chan := N.
Inductive err := EValue | EKey | EAssert | EZeroDiv | EType.
Inductive res (A : Type) := OK (a : A) | Err (e : err).
Arguments OK {A} a.
Arguments Err {A} e.
Definition bind {A B} (r : res A) (f : A -> res B) : res B := match r with OK a => f a | Err e => Err e end.
Notation "'TRY' x <- r ;; k" := (bind r (fun x => k)) (at level 200, x name, r at level 100, k at level 200, right associativity).

Definition Qltb (a b : Q) : bool := negb (Qle_bool b a).
Definition Qsyn_eqb (a b : Q) : bool := (Qnum a =? Qnum b)%Z && Pos.eqb (Qden a) (Qden b).

Definition inb (c : chan) (s : list chan) : bool := existsb (N.eqb c) s.
Definition subsetb (a b : list chan) : bool := forallb (fun c => inb c b) a.
Definition set_eqb (a b : list chan) : bool := subsetb a b && subsetb b a.
Definition interb (a b : list chan) : list chan := filter (fun c => inb c b) a.
Definition diffb (a b : list chan) : list chan := filter (fun c => negb (inb c b)) a.
Fixpoint dedup (a : list chan) : list chan :=
  match a with [] => [] | c :: r => if inb c r then dedup r else c :: dedup r end.
Definition unionb (a b : list chan) : list chan := dedup (a ++ b).
Definition disjointb (a b : list chan) : bool := match interb a b with [] => true | _ => false end.

Fixpoint lookup {A} (c : chan) (l : list (chan * A)) : option A :=
  match l with [] => None | (k, v) :: r => if N.eqb c k then Some v else lookup c r end.
Definition keys {A} (l : list (chan * A)) : list chan := map fst l.

Definition omap2 (f : Q -> Q -> Q) (a b : option Q) : option Q :=
  match a, b with Some x, Some y => Some (f x y) | _, _ => None end.
Definition omap (f : Q -> Q) (a : option Q) : option Q := match a with Some x => Some (f x) | None => None end.

(* ------------------------------------------------------------------------------------------------------------------ *)
(* table entries, interpolation (pulses/interpolation.py) *)

Inductive interp := Hold | Linear | Jump.
Record entry := mkE { e_t : Q; e_v : Q; e_i : interp }.

Definition interp_eqb (a b : interp) : bool :=
  match a, b with Hold, Hold | Linear, Linear | Jump, Jump => true | _, _ => false end.

(* InterpolationStrategy.__call__(start, end, t) for one time (the out-of-bounds ValueError of hold/jump cannot occur on
   the slices the table sampler passes when the sample times are sorted; it is not modelled) *)
Definition interp_at (i : interp) (t0 v0 t1 v1 t : Q) : Q :=
  match i with
  | Hold => v0
  | Jump => v1
  | Linear => ((v1 - v0) / (t1 - t0)) * (t - t0) + v0
  end.
(* InterpolationStrategy.constant_value *)
Definition interp_cv (i : interp) (v0 v1 : Q) : option Q :=
  match i with
  | Hold => Some v0
  | Jump => Some v1
  | Linear => if Qeq_bool v0 v1 then Some v0 else None
  end.

(* ------------------------------------------------------------------------------------------------------------------ *)
(* transformations (program/transformation.py) *)

(* a transformation value: a number, or the expression a + b*t (time dependent; b <> 0 in generated cases) *)
Inductive tval := TC (q : Q) | TT (a b : Q).
Definition tval_at (v : tval) (t : Q) : Q := match v with TC q => q | TT a b => a + b * t end.
Definition tval_timedep (v : tval) : bool := match v with TC _ => false | TT _ _ => true end.

Inductive trafo :=
| TId
| TScale (f : list (chan * tval))
| TOffset (o : list (chan * tval))
| TLinear (ins outs : list chan) (m : list (list Q))       (* rows = outs, columns = ins *)
| TParallel (cs : list (chan * tval))
| TChain (l : list trafo).

Fixpoint t_const_inv (T : trafo) : bool :=
  match T with
  | TId | TLinear _ _ _ => true
  | TScale f | TOffset f | TParallel f => negb (existsb (fun kv => tval_timedep (snd kv)) f)
  | TChain l => (fix all (l : list trafo) := match l with [] => true | x :: r => t_const_inv x && all r end) l
  end.

(* get_output_channels; None = KeyError *)
Fixpoint t_out (T : trafo) (ins : list chan) : option (list chan) :=
  match T with
  | TId | TScale _ | TOffset _ => Some ins
  | TParallel cs => Some (unionb ins (keys cs))
  | TLinear i o _ => if subsetb i ins then Some (unionb (diffb ins i) o) else None
  | TChain l => (fix go (l : list trafo) (cur : list chan) := match l with
                   | [] => Some cur
                   | x :: r => match t_out x cur with Some n => go r n | None => None end end) l ins
  end.

(* get_input_channels; None = KeyError *)
Fixpoint t_in (T : trafo) (outs : list chan) : option (list chan) :=
  match T with
  | TId | TScale _ | TOffset _ => Some outs
  | TParallel cs => Some (diffb outs (keys cs))
  | TLinear i o _ =>
      let forwarded := diffb outs o in
      if negb (disjointb forwarded i) then None
      else if disjointb outs o then Some outs
      else Some (unionb forwarded i)
  | TChain l => (fix go (l : list trafo) (cur : list chan) := match l with
                   | [] => Some cur
                   | x :: r => match go r cur with Some n => t_in x n | None => None end end) l outs
  end.

Definition osum (l : list (option Q)) : option Q := fold_left (omap2 Qplus) l (Some 0).
Definition dot (row : list Q) (vals : list (option Q)) : option Q :=
  osum (map (fun rv => omap (Qmult (fst rv)) (snd rv)) (combine row vals)).

(* Transformation.__call__(time, data) for one time; data = channel -> value (NaN = None); None = KeyError *)
Definition data := list (chan * option Q).
Fixpoint t_point (T : trafo) (t : Q) (d : data) : option data :=
  match T with
  | TId => Some d
  | TScale f => Some (map (fun kv => match lookup (fst kv) f with
                                     | Some tv => (fst kv, omap (fun x => x * tval_at tv t) (snd kv))
                                     | None => kv end) d)
  | TOffset f => Some (map (fun kv => match lookup (fst kv) f with
                                      | Some tv => (fst kv, omap (fun x => x + tval_at tv t) (snd kv))
                                      | None => kv end) d)
  | TParallel cs => Some (map (fun kv => (fst kv, Some (tval_at (snd kv) t))) cs
                          ++ filter (fun kv => negb (inb (fst kv) (keys cs))) d)
  | TLinear i o m =>
      let fwd := filter (fun kv => negb (inb (fst kv) i)) d in
      if (length fwd =? length d)%nat then Some fwd
      else if subsetb i (keys d) then
        let vals := map (fun c => match lookup c d with Some v => v | None => None end) i in
        Some (map (fun orow => (fst orow, dot (snd orow) vals)) (combine o m)
              ++ filter (fun kv => negb (inb (fst kv) o)) fwd)   (* data_out[out_channel] = ... overrides a forwarded entry *)
      else None
  | TChain l => (fix go (l : list trafo) (cur : data) := match l with
                   | [] => Some cur
                   | x :: r => match t_point x t cur with Some n => go r n | None => None end end) l d
  end.

(* ------------------------------------------------------------------------------------------------------------------ *)
(* waveforms *)

Inductive functor := FNeg | FPos | FAbs.     (* np.negative, np.positive, np.abs *)
Definition functor_eqb (a b : functor) : bool :=
  match a, b with FNeg, FNeg | FPos, FPos | FAbs, FAbs => true | _, _ => false end.
Definition functor_at (f : functor) (x : Q) : Q := match f with FNeg => - x | FPos => x | FAbs => Qabs x end.
Inductive aop := OpAdd | OpSub.
Definition aop_eqb (a b : aop) : bool := match a, b with OpAdd, OpAdd | OpSub, OpSub => true | _, _ => false end.
Definition aop_at (o : aop) (x y : Q) : Q := match o with OpAdd => x + y | OpSub => x - y end.
Definition aop_rhs_only (o : aop) (y : Q) : Q := match o with OpAdd => y | OpSub => - y end.

Inductive wf :=
| WTable (c : chan) (tab : list entry)
| WConst (d : Q) (v : Q) (c : chan)
| WFunc (coef : list Q) (d : Q) (c : chan)          (* FunctionWaveform with a polynomial in t, coefficients low->high *)
| WSeq (l : list wf)
| WMulti (l : list wf)
| WRep (body : wf) (n : Z)
| WTrans (w : wf) (T : trafo)
| WSubset (w : wf) (cs : list chan)
| WArith (l : wf) (o : aop) (r : wf)
| WFunctor (w : wf) (f : list (chan * functor))
| WRev (w : wf).

Fixpoint last_t (tab : list entry) : Q :=
  match tab with [] => 0 | [e] => e_t e | _ :: r => last_t r end.
Fixpoint poly_at (coef : list Q) (t : Q) : Q := match coef with [] => 0 | a :: r => a + t * poly_at r t end.

Fixpoint duration (w : wf) : Q :=
  match w with
  | WTable _ tab => last_t tab
  | WConst d _ _ | WFunc _ d _ => d
  | WSeq l => (fix sum (l : list wf) := match l with [] => 0 | x :: r => duration x + sum r end) l
  | WMulti l => match l with [] => 0 | x :: _ => duration x end
  | WRep b n => duration b * inject_Z n
  | WTrans w _ | WSubset w _ | WFunctor w _ | WRev w => duration w
  | WArith l _ _ => duration l
  end.

Fixpoint channels (w : wf) : list chan :=
  match w with
  | WTable c _ | WConst _ _ c | WFunc _ _ c => [c]
  | WSeq l => match l with [] => [] | x :: _ => channels x end
  | WMulti l => (fix un (l : list wf) := match l with [] => [] | x :: r => unionb (channels x) (un r) end) l
  | WRep b _ => channels b
  | WTrans w T => match t_out T (channels w) with Some o => o | None => [] end
  | WSubset _ cs => cs
  | WArith l _ r => unionb (channels l) (channels r)
  | WFunctor w _ | WRev w => channels w
  end.

(* ---- constant_value(channel) per class (asked only for defined channels) ---- *)
Fixpoint cv (w : wf) (c : chan) : option Q :=
  match w with
  | WTable _ _ | WFunc _ _ _ | WRev _ => None
  | WConst _ v _ => Some v
  | WSeq l =>
      (fix go (l : list wf) (v : option Q) : option Q := match l with
         | [] => v
         | x :: r => match cv x c with
                     | None => None
                     | Some xv => match v with
                                  | None => go r (Some xv)
                                  | Some vv => if Qeq_bool xv vv then go r v else None
                                  end
                     end
         end) l None
  | WMulti l => (fix find (l : list wf) := match l with [] => None | x :: r => if inb c (channels x) then cv x c else find r end) l
  | WRep b _ => cv b c
  | WTrans w T =>
      if negb (t_const_inv T) then None else
      match t_in T [c] with
      | None => None
      | Some ins =>
          let vals := map (fun ic => (ic, cv w ic)) ins in
          if existsb (fun kv => match snd kv with None => true | Some _ => false end) vals then None
          else match t_point T 0 vals with
               | Some out => match lookup c out with Some v => v | None => None end
               | None => None
               end
      end
  | WSubset w _ => cv w c
  | WArith l o r =>
      if negb (inb c (channels r)) then cv l c else
      match cv r c with
      | None => None
      | Some rv => if inb c (channels l) then match cv l c with None => None | Some lv => Some (aop_at o lv rv) end
                   else Some (aop_rhs_only o rv)
      end
  | WFunctor w f => match cv w c with
                    | None => None
                    | Some v => match lookup c f with Some g => Some (functor_at g v) | None => None end
                    end
  end.

(* ---- constant_value_dict() per class ---- *)
Definition cvd_base (w : wf) : option (list (chan * Q)) :=
  (fix go (cs : list chan) := match cs with
     | [] => Some []
     | c :: r => match cv w c, go r with Some v, Some d => Some ((c, v) :: d) | _, _ => None end
     end) (channels w).
Fixpoint cvd (w : wf) : option (list (chan * Q)) :=
  match w with
  | WTable _ _ | WFunc _ _ _ | WSeq _ | WTrans _ _ | WArith _ _ _ | WFunctor _ _ => None
  | WConst _ v c => Some [(c, v)]
  | WMulti l => (fix go (l : list wf) := match l with
                   | [] => Some []
                   | x :: r => match cvd x, go r with Some a, Some b => Some (a ++ b) | _, _ => None end
                   end) l
  | WRep b _ => cvd b
  | WSubset w cs => match cvd w with
                    | None => None
                    | Some d => Some (map (fun c => (c, match lookup c d with Some v => v | None => 0 end)) cs)
                    end
  | WRev _ => None        (* base implementation over constant_value, which ReversedWaveform does not override *)
  end.

(* dict equality (keys as sets, values numerically) *)
Definition dict_eqb (a b : list (chan * Q)) : bool :=
  set_eqb (keys a) (keys b) &&
  forallb (fun kv => match lookup (fst kv) b with Some v => Qeq_bool (snd kv) v | None => false end) a.

(* ------------------------------------------------------------------------------------------------------------------ *)
(* constructors *)

(* MultiChannelWaveform sorts its parts by the sorted list of their channel keys *)
Fixpoint insert_sorted_N (x : N) (l : list N) : list N :=
  match l with [] => [x] | y :: r => if (x <=? y)%N then x :: l else y :: insert_sorted_N x r end.
Definition sort_N (l : list N) : list N := fold_right insert_sorted_N [] l.
Fixpoint lex_leb (a b : list N) : bool :=
  match a, b with
  | [], _ => true
  | _ :: _, [] => false
  | x :: a', y :: b' => if (x <? y)%N then true else if (y <? x)%N then false else lex_leb a' b'
  end.
Definition sort_key (w : wf) : list N := sort_N (channels w).
(* stable insertion: a new element goes after the elements with an equal key that are already there *)
Fixpoint insert_wf (x : wf) (l : list wf) : list wf :=
  match l with
  | [] => [x]
  | y :: r => if lex_leb (sort_key y) (sort_key x) then y :: insert_wf x r else x :: l
  end.
Definition sort_wfs (l : list wf) : list wf := fold_left (fun acc x => insert_wf x acc) l [].

Definition mk_const (d v : Q) (c : chan) : wf := WConst (Qred d) (Qred v) c.

(* frozenset / dict valued slots are kept in a canonical form (sorted by channel, no duplicates) so that the structural
   equality below coincides with Python's content equality *)
Definition canon_cs (cs : list chan) : list chan := sort_N (dedup cs).
Definition canon_kv {A} (f : list (chan * A)) : list (chan * A) :=
  flat_map (fun c => match lookup c f with Some v => [(c, v)] | None => [] end) (canon_cs (keys f)).
Definition mk_subset (w : wf) (cs : list chan) : wf := WSubset w (canon_cs cs).

(* ConstantWaveform.from_mapping *)
Definition from_mapping (d : Q) (cvs : list (chan * Q)) : res wf :=
  match cvs with
  | [] => Err EAssert
  | [(c, v)] => OK (mk_const d v c)
  | _ => OK (WMulti (sort_wfs (map (fun kv => mk_const d (snd kv) (fst kv)) cvs)))
  end.

(* the defect of waveforms.py:324 (constancy of a later pair is decided with the interpolation of the pair's FIRST
   entry, sampling uses the SECOND entry's): [true] = behaviour of the code as it is *)
Definition table_const_uses_prev_interp : bool := false.

(* TableWaveform._validate_input: inl (duration, value) = constant, inr table *)
Fixpoint validate_loop (rest : list entry) (prev_t prev_v : Q) (cur : entry) (const_v : option Q) (out : list entry)
  : res ((Q * Q) + list entry) :=
  match rest with
  | [] =>
      if Qeq_bool (e_t cur) 0 then Err EValue
      else match const_v with
           | Some v => OK (inl (e_t cur, v))
           | None => OK (inr (out ++ [cur]))
           end
  | nx :: rest' =>
      if Qltb (e_t nx) (e_t cur) then Err EValue else
      let const_v' :=
        match const_v with
        | None => None
        | Some v => match interp_cv (if table_const_uses_prev_interp then e_i cur else e_i nx) (e_v cur) (e_v nx) with
                    | Some v' => if Qeq_bool v' v then const_v else None
                    | None => None
                    end
        end in
      let keep := (negb (Qeq_bool prev_t (e_t cur)) || negb (Qeq_bool (e_t cur) (e_t nx)))
                  && (negb (Qeq_bool prev_v (e_v cur)) || negb (Qeq_bool (e_v cur) (e_v nx))) in
      if keep then validate_loop rest' (e_t cur) (e_v cur) nx const_v' (out ++ [cur])
      else validate_loop rest' prev_t prev_v nx const_v' out
  end.
Definition validate_input (tab : list entry) : res ((Q * Q) + list entry) :=
  match tab with
  | [] => Err EValue
  | e0 :: rest =>
      if negb (Qeq_bool (e_t e0) 0) then Err EValue else
      match rest with
      | [] => Err EValue
      | e1 :: rest' =>
          if Qltb (e_t e1) 0 then Err EValue else
          validate_loop rest' 0 (e_v e0) e1 (interp_cv (e_i e1) (e_v e0) (e_v e1)) [mkE 0 (e_v e0) (e_i e0)]
      end
  end.
Definition from_table (c : chan) (tab : list entry) : res wf :=
  TRY r <- validate_input tab;;
  match r with
  | inl (d, v) => OK (mk_const d v c)
  | inr t => OK (WTable c t)
  end.

Definition is_seq (w : wf) : option (list wf) := match w with WSeq l => Some l | _ => None end.
Definition is_multi (w : wf) : option (list wf) := match w with WMulti l => Some l | _ => None end.

Definition mk_seq (l : list wf) : res wf :=
  match l with
  | [] => Err EValue
  | x :: r => if forallb (fun y => set_eqb (channels y) (channels x)) r then OK (WSeq l) else Err EValue
  end.
Definition sum_dur (l : list wf) : Q := fold_right (fun x acc => duration x + acc) 0 l.
Definition from_sequence (l : list wf) : res wf :=
  match l with
  | [] => Err EAssert
  | [x] => OK x
  | x :: _ =>
      let flat := flat_map (fun w => match is_seq w with Some s => s | None => [w] end) l in
      let cvs := fold_left (fun acc w => match acc with
                                         | Some d => match cvd w with
                                                     | Some d' => if dict_eqb d d' then acc else None
                                                     | None => None
                                                     end
                                         | None => None
                                         end) l (cvd x) in
      match cvs with
      | None => mk_seq flat
      | Some d => from_mapping (sum_dur flat) d
      end
  end.

(* math.isclose(a, b, rel_tol=1e-9): generated durations are either equal or far apart *)
Definition Qmaxb (a b : Q) : Q := if Qle_bool a b then b else a.
Definition isclose (a b : Q) : bool := Qle_bool (Qabs (a - b) * 1000000000) (Qmaxb (Qabs a) (Qabs b)).

Fixpoint overlap_free (l : list wf) (seen : list chan) : bool :=
  match l with [] => true | x :: r => disjointb (channels x) seen && overlap_free r (unionb seen (channels x)) end.
Definition mk_multi (l : list wf) : res wf :=
  match sort_wfs l with
  | [] => Err EValue
  | (x :: r) as s =>
      if negb (overlap_free s []) then Err EValue
      else if forallb (fun y => isclose (duration y) (duration x)) r then OK (WMulti s) else Err EValue
  end.
Definition from_parallel (l : list wf) : res wf :=
  match l with
  | [] => Err EAssert
  | [x] => OK x
  | _ => mk_multi (flat_map (fun w => match is_multi w with Some s => s | None => [w] end) l)
  end.

Definition mk_rep (b : wf) (n : Z) : res wf := if (n <? 1)%Z then Err EValue else OK (WRep b n).
Definition from_repetition_count (b : wf) (n : Z) : res wf :=
  match cvd b with
  | None => mk_rep b n
  | Some d => from_mapping (duration b * inject_Z n) d
  end.

Definition mk_trans (w : wf) (T : trafo) : res wf :=
  match t_out T (channels w) with Some _ => OK (WTrans w T) | None => Err EKey end.
Definition from_transformation (w : wf) (T : trafo) : res wf :=
  match cvd w with
  | None => mk_trans w T
  | Some d =>
      if negb (t_const_inv T) then mk_trans w T else
      match t_point T 0 (map (fun kv => (fst kv, Some (snd kv))) d) with
      | None => Err EKey
      | Some out => from_mapping (duration w) (map (fun kv => (fst kv, match snd kv with Some v => v | None => 0 end)) out)
      end
  end.

Definition mk_arith (l : wf) (o : aop) (r : wf) : res wf :=
  if isclose (duration l) (duration r) then OK (WArith l o r) else Err EAssert.
Definition from_operator (l : wf) (o : aop) (r : wf) : res wf :=
  match cvd l, cvd r with
  | Some dl, Some dr =>
      let merged :=
        fold_left (fun acc kv =>
                     match lookup (fst kv) acc with
                     | Some lv => map (fun kv' => if N.eqb (fst kv') (fst kv) then (fst kv', aop_at o lv (snd kv)) else kv') acc
                     | None => acc ++ [(fst kv, aop_rhs_only o (snd kv))]
                     end) dr dl in
      if isclose (duration l) (duration r) then from_mapping (duration l) merged else Err EAssert
  | _, _ => mk_arith l o r
  end.

Definition mk_functor (w : wf) (f : list (chan * functor)) : res wf :=
  if set_eqb (keys f) (channels w) then OK (WFunctor w (canon_kv f)) else Err EAssert.
Definition from_functor (w : wf) (f : list (chan * functor)) : res wf :=
  match cvd w with
  | None => mk_functor w f
  | Some d =>
      if forallb (fun kv => inb (fst kv) (keys f)) d then
        from_mapping (duration w)
          (map (fun kv => (fst kv, match lookup (fst kv) f with Some g => functor_at g (snd kv) | None => 0 end)) d)
      else Err EKey
  end.
Definition neg (w : wf) : res wf := from_functor w (map (fun c => (c, FNeg)) (channels w)).

Definition from_to_reverse (w : wf) : wf := match cvd w with Some (_ :: _) => w | _ => WRev w end.
Definition reversed (w : wf) : wf := match w with WConst _ _ _ => w | WRev i => i | _ => WRev w end.

(* get_subset_for_channels around a given unsafe result *)
Definition get_wrap (w : wf) (cs : list chan) (unsafe : res wf) : res wf :=
  if negb (subsetb cs (channels w)) then Err EKey
  else if set_eqb cs (channels w) then OK w
  else unsafe.

Fixpoint subset_u (w : wf) (cs : list chan) : res wf :=
  match w with
  | WTable _ _ | WConst _ _ _ | WFunc _ _ _ => OK w
  | WSeq l =>
      TRY subs <- (fix go (l : list wf) : res (list wf) := match l with
                    | [] => OK []
                    | x :: r => if disjointb (channels x) cs then go r
                                else TRY a <- subset_u x (interb cs (channels x));; TRY b <- go r;; OK (a :: b)
                    end) l;;
      from_sequence subs
  | WMulti l =>
      let rel := filter (fun x => negb (disjointb (channels x) cs)) l in
      match rel with
      | [] => Err EKey
      | [_] => (fix go (l : list wf) : res wf := match l with
                  | [] => Err EKey
                  | x :: r => if disjointb (channels x) cs then go r else get_wrap x cs (subset_u x cs)
                  end) l
      | _ => TRY subs <- (fix go (l : list wf) : res (list wf) := match l with
                           | [] => OK []
                           | x :: r => if disjointb (channels x) cs then go r
                                       else let cs' := interb cs (channels x) in
                                            TRY a <- get_wrap x cs' (subset_u x cs');; TRY b <- go r;; OK (a :: b)
                           end) l;;
             from_parallel subs
      end
  | WRep b n => TRY b' <- subset_u b cs;; from_repetition_count b' n
  | WTrans _ _ | WArith _ _ _ => OK (mk_subset w cs)
  | WSubset i _ => get_wrap i cs (subset_u i cs)
  | WFunctor i f =>
      TRY i' <- subset_u i cs;;
      if subsetb cs (keys f)
      then from_functor i' (map (fun c => (c, match lookup c f with Some g => g | None => FPos end)) cs)
      else Err EKey
  | WRev i => TRY i' <- subset_u i cs;; OK (from_to_reverse i')
  end.
Definition get_subset (w : wf) (cs : list chan) : res wf := get_wrap w cs (subset_u w cs).

(* ------------------------------------------------------------------------------------------------------------------ *)
(* vectorised sampling: unsafe_sample *)

(* ndarray.searchsorted on a sorted array *)
Fixpoint ss_left (a : Q) (ts : list Q) : nat :=
  match ts with [] => O | t :: r => if Qltb t a then S (ss_left a r) else O end.
Fixpoint ss_right (a : Q) (ts : list Q) : nat :=
  match ts with [] => O | t :: r => if Qle_bool t a then S (ss_right a r) else O end.
Definition slice {A} (l : list A) (lo hi : nat) : list A := firstn (hi - lo) (skipn lo l).
(* out[lo:hi] = vals (vals has the length of the slice) *)
Definition write {A} (out : list A) (lo hi : nat) (vals : list A) : list A :=
  if (hi <=? lo)%nat then out else firstn lo out ++ vals ++ skipn hi out.
Definition nan_like (ts : list Q) : list (option Q) := map (fun _ => None) ts.

Fixpoint table_vec (es : list entry) (ts : list Q) (out : list (option Q)) : list (option Q) :=
  match es with
  | e1 :: ((e2 :: _) as r) =>
      let lo := ss_left (e_t e1) ts in
      let hi := ss_right (e_t e2) ts in
      table_vec r ts (write out lo hi
                        (map (fun t => Some (interp_at (e_i e2) (e_t e1) (e_v e1) (e_t e2) (e_v e2) t)) (slice ts lo hi)))
  | _ => out
  end.
(* the linear strategy divides by (t1 - t0) before it looks at the slice: a zero-length linear pair is an error *)
Fixpoint table_zdiv (es : list entry) : bool :=
  match es with
  | e1 :: ((e2 :: _) as r) =>
      (match e_i e2 with Linear => Qeq_bool (e_t e2 - e_t e1) 0 | _ => false end) || table_zdiv r
  | _ => false
  end.

(* per-time rows of a channel -> array mapping *)
Fixpoint rows (ts : list Q) (cols : list (chan * list (option Q))) : list data :=
  match ts with
  | [] => []
  | _ :: ts' => map (fun kc => (fst kc, hd None (snd kc))) cols :: rows ts' (map (fun kc => (fst kc, tl (snd kc))) cols)
  end.

Fixpoint sample_vec (w : wf) (c : chan) (ts : list Q) {struct w} : list (option Q) :=
  match w with
  | WTable _ tab => table_vec tab ts (nan_like ts)
  | WConst _ v _ => map (fun _ => Some v) ts
  | WFunc coef _ _ => map (fun t => Some (poly_at coef t)) ts
  | WSeq l =>
      (fix go (l : list wf) (time : Q) (out : list (option Q)) : list (option Q) := match l with
         | [] => out
         | s :: r =>
             let e := time + duration s in
             let lo := ss_left time ts in
             let hi := ss_left e ts in
             go r e (write out lo hi (sample_vec s c (map (fun t => t - time) (slice ts lo hi))))
         end) l 0 (nan_like ts)
  | WMulti l =>
      (fix find (l : list wf) : list (option Q) := match l with
         | [] => nan_like ts
         | s :: r => if inb c (channels s) then sample_vec s c ts else find r
         end) l
  | WRep b n =>
      let bd := duration b in
      (fix go (k : nat) (time : Q) (out : list (option Q)) : list (option Q) := match k with
         | O => out
         | S k' =>
             let e := time + bd in
             let lo := ss_left time ts in
             let hi := ss_left e ts in
             go k' e (write out lo hi (sample_vec b c (map (fun t => t - time) (slice ts lo hi))))
         end) (Z.to_nat n) 0 (nan_like ts)
  | WTrans i T =>
      match t_in T [c] with
      | None => nan_like ts
      | Some ins =>
          let cols := map (fun ic => (ic, sample_vec i ic ts)) ins in
          map (fun td => match t_point T (fst td) (snd td) with
                         | Some out => match lookup c out with Some v => v | None => None end
                         | None => None
                         end) (combine ts (rows ts cols))
      end
  | WSubset i _ => sample_vec i c ts
  | WArith l o r =>
      if inb c (channels l) then
        if inb c (channels r) then map (fun ab => omap2 (aop_at o) (fst ab) (snd ab)) (combine (sample_vec l c ts) (sample_vec r c ts))
        else sample_vec l c ts
      else map (omap (aop_rhs_only o)) (sample_vec r c ts)
  | WFunctor i f =>
      match lookup c f with
      | Some g => map (omap (functor_at g)) (sample_vec i c ts)
      | None => nan_like ts
      end
  | WRev i => rev (sample_vec i c (rev (map (fun t => duration i - t) ts)))
  end.

(* does sampling channel c raise ZeroDivisionError?  (static: every sub-waveform on the path of channel c is sampled
   whenever the parent is, also with an empty slice) *)
Fixpoint zdiv (w : wf) (c : chan) : bool :=
  match w with
  | WTable _ tab => table_zdiv tab
  | WConst _ _ _ | WFunc _ _ _ => false
  | WSeq l => (fix any (l : list wf) := match l with [] => false | x :: r => zdiv x c || any r end) l
  | WMulti l => (fix find (l : list wf) := match l with [] => false | x :: r => if inb c (channels x) then zdiv x c else find r end) l
  | WRep b _ => zdiv b c
  | WTrans i T => match t_in T [c] with Some ins => existsb (zdiv i) ins | None => false end
  | WSubset i _ | WFunctor i _ | WRev i => zdiv i c
  | WArith l _ r => (inb c (channels l) && zdiv l c) || (inb c (channels r) && zdiv r c)
  end.

(* does sampling channel c raise KeyError inside a transformation?  (static: whether Transformation.__call__ raises
   depends only on the channel keys of the data it is given: a LinearTransformation that finds only some of its input
   channels raises; also a requested channel missing from the transformed data) *)
Definition t_point_fails (T : trafo) (ins : list chan) (c : chan) : bool :=
  match t_point T 0 (map (fun ic => (ic, None)) ins) with
  | None => true
  | Some out => match lookup c out with Some _ => false | None => true end
  end.
Fixpoint kerr (w : wf) (c : chan) : bool :=
  match w with
  | WTable _ _ | WConst _ _ _ | WFunc _ _ _ => false
  | WSeq l => (fix any (l : list wf) := match l with [] => false | x :: r => kerr x c || any r end) l
  | WMulti l => (fix find (l : list wf) := match l with [] => false | x :: r => if inb c (channels x) then kerr x c else find r end) l
  | WRep b _ => kerr b c
  | WTrans i T => match t_in T [c] with
                  | Some ins => existsb (kerr i) ins || t_point_fails T ins c
                  | None => true
                  end
  | WSubset i _ | WFunctor i _ | WRev i => kerr i c
  | WArith l _ r => (inb c (channels l) && kerr l c) || (inb c (channels r) && kerr r c)
  end.

(* ------------------------------------------------------------------------------------------------------------------ *)
(* get_sampled (one call, no history): argument checks, constant short cut, unsafe_sample *)

Fixpoint monotonic (ts : list Q) : bool :=
  match ts with
  | a :: ((b :: _) as r) => Qle_bool a b && monotonic r
  | _ => true
  end.
Definition get_sampled (w : wf) (c : chan) (ts : list Q) : res (list (option Q)) :=
  match ts with
  | [] => OK []
  | t0 :: _ =>
      if negb (monotonic ts) then Err EValue
      else if Qltb t0 0 || Qltb (duration w) (last ts 0) then Err EValue
      else if negb (inb c (channels w)) then Err EKey
      else match cv w c with
           | Some v => OK (map (fun _ => Some v) ts)
           | None => if zdiv w c then Err EZeroDiv else if kerr w c then Err EKey else OK (sample_vec w c ts)
           end
  end.

(* ------------------------------------------------------------------------------------------------------------------ *)
(* structural equality (Waveform.__eq__ over __slots__); numbers are compared syntactically: the model keeps every
   number it creates reduced (mk_const) and the harness writes reduced literals, so this coincides with numeric
   equality on everything the correspondence generates *)

Definition entry_eqb (a b : entry) : bool :=
  Qsyn_eqb (e_t a) (e_t b) && Qsyn_eqb (e_v a) (e_v b) && interp_eqb (e_i a) (e_i b).
Fixpoint list_eqb' {A} (e : A -> A -> bool) (a b : list A) : bool :=
  match a, b with [], [] => true | x :: a', y :: b' => e x y && list_eqb' e a' b' | _, _ => false end.
Definition tval_eqb (a b : tval) : bool :=
  match a, b with
  | TC x, TC y => Qsyn_eqb x y
  | TT a1 b1, TT a2 b2 => Qsyn_eqb a1 a2 && Qsyn_eqb b1 b2
  | _, _ => false
  end.
Definition kv_eqb {A} (e : A -> A -> bool) (a b : chan * A) : bool := N.eqb (fst a) (fst b) && e (snd a) (snd b).
Fixpoint trafo_eqb (a b : trafo) : bool :=
  match a, b with
  | TId, TId => true
  | TScale f, TScale g | TOffset f, TOffset g | TParallel f, TParallel g => list_eqb' (kv_eqb tval_eqb) f g
  | TLinear i o m, TLinear i' o' m' => list_eqb' N.eqb i i' && list_eqb' N.eqb o o' && list_eqb' (list_eqb' Qsyn_eqb) m m'
  | TChain l, TChain l' =>
      (fix go (l l' : list trafo) := match l, l' with
         | [], [] => true
         | x :: r, y :: r' => trafo_eqb x y && go r r'
         | _, _ => false end) l l'
  | _, _ => false
  end.
Fixpoint wf_eqb (a b : wf) : bool :=
  match a, b with
  | WTable c t, WTable c' t' => N.eqb c c' && list_eqb' entry_eqb t t'
  | WConst d v c, WConst d' v' c' => Qsyn_eqb d d' && Qsyn_eqb v v' && N.eqb c c'
  | WFunc k d c, WFunc k' d' c' => list_eqb' Qsyn_eqb k k' && Qsyn_eqb d d' && N.eqb c c'
  | WSeq l, WSeq l' | WMulti l, WMulti l' =>
      (fix go (l l' : list wf) := match l, l' with
         | [], [] => true
         | x :: r, y :: r' => wf_eqb x y && go r r'
         | _, _ => false end) l l'
  | WRep x n, WRep y m => wf_eqb x y && (n =? m)%Z
  | WTrans x T, WTrans y U => wf_eqb x y && trafo_eqb T U
  | WSubset x cs, WSubset y ds => wf_eqb x y && list_eqb' N.eqb cs ds
  | WArith l o r, WArith l' o' r' => wf_eqb l l' && aop_eqb o o' && wf_eqb r r'
  | WFunctor x f, WFunctor y g => wf_eqb x y && list_eqb' (kv_eqb functor_eqb) f g
  | WRev x, WRev y => wf_eqb x y
  | _, _ => false
  end.

(* ------------------------------------------------------------------------------------------------------------------ *)
(* construction recipes: which constructor of the real code is called at every node *)

Inductive recipe :=
| RTable (validated : bool) (c : chan) (tab : list entry)      (* from_table / TableWaveform(c, tuple) *)
| RConst (d v : Q) (c : chan)
| RFunc (coef : list Q) (d : Q) (c : chan)
| RSeq (opt : bool) (l : list recipe)                          (* from_sequence / SequenceWaveform *)
| RMulti (opt : bool) (l : list recipe)                        (* from_parallel / MultiChannelWaveform *)
| RRep (opt : bool) (b : recipe) (n : Z)
| RTrans (opt : bool) (r : recipe) (T : trafo)
| RSubset (r : recipe) (cs : list chan)                        (* SubsetWaveform(inner, cs) *)
| RGetSubset (r : recipe) (cs : list chan)                     (* inner.get_subset_for_channels(cs) *)
| RArith (opt : bool) (l : recipe) (o : aop) (r : recipe)
| RFunctor (opt : bool) (r : recipe) (f : list (chan * functor))
| RNeg (r : recipe)                                            (* -inner *)
| RRev (r : recipe)                                            (* ReversedWaveform(inner) *)
| RFromToReverse (r : recipe)
| RReversed (r : recipe).                                      (* inner.reversed() *)

Fixpoint build (r : recipe) : res wf :=
  let build_list := fix bl (l : list recipe) : res (list wf) := match l with
                      | [] => OK []
                      | x :: r => TRY a <- build x;; TRY b <- bl r;; OK (a :: b)
                      end in
  match r with
  | RTable true c tab => from_table c tab
  | RTable false c tab => OK (WTable c tab)
  | RConst d v c => OK (WConst d v c)
  | RFunc k d c => OK (WFunc k d c)
  | RSeq opt l => TRY ws <- build_list l;; if opt then from_sequence ws else mk_seq ws
  | RMulti opt l => TRY ws <- build_list l;; if opt then from_parallel ws else mk_multi ws
  | RRep opt b n => TRY w <- build b;; if opt then from_repetition_count w n else mk_rep w n
  | RTrans opt r T => TRY w <- build r;; if opt then from_transformation w T else mk_trans w T
  | RSubset r cs => TRY w <- build r;; OK (mk_subset w cs)
  | RGetSubset r cs => TRY w <- build r;; get_subset w cs
  | RArith opt l o r => TRY a <- build l;; TRY b <- build r;; if opt then from_operator a o b else mk_arith a o b
  | RFunctor opt r f => TRY w <- build r;; if opt then from_functor w f else mk_functor w f
  | RNeg r => TRY w <- build r;; neg w
  | RRev r => TRY w <- build r;; OK (WRev w)
  | RFromToReverse r => TRY w <- build r;; OK (from_to_reverse w)
  | RReversed r => TRY w <- build r;; OK (reversed w)
  end.
