(* C08 — executable guards for transformations with LinearTransformation parts (definitions only).

   [t_wfb]     the shape LinearTransformation's constructor guarantees, plus "at least one input channel" (a linear
               transformation without input channels announces output channels that __call__ never produces);
   [noshadow]  no LinearTransformation of the chain has an output channel named like a channel that it forwards
               (known finding C08-trafo-cache-shadowed-byproduct: such a channel reaches the per-instance cache of
               TransformingWaveform as a by-product with the FORWARDED value);
   [lin_ok]    both + get_output_channels does not raise for the inner channels. *)
From Coq Require Import List ZArith QArith Qabs Bool.
Require Import QV.C08.Model QV.C08.Spec QV.C08.Hist.
Import ListNotations.
Open Scope Q_scope.

Fixpoint t_wfb (T : trafo) : bool :=
  match T with
  | TId | TScale _ | TOffset _ | TParallel _ => true
  | TLinear i o m => match i with [] => false | _ => true end && (length o =? length m)%nat
  | TChain l => (fix all (l : list trafo) := match l with [] => true | x :: r => t_wfb x && all r end) l
  end.

(* [ks] = the channels of the complete data the transformation is applied to; [out_keys x ks] = the channels of the
   result (Hist.out_keys: keys of [t_point x 0] on dummy data) *)
Fixpoint noshadow (T : trafo) (ks : list chan) : bool :=
  match T with
  | TId | TScale _ | TOffset _ | TParallel _ => true
  | TLinear i o _ => disjointb o (diffb ks i)
  | TChain l => (fix go (l : list trafo) (ks : list chan) := match l with
                   | [] => true
                   | x :: r => noshadow x ks && go r (out_keys x ks)
                   end) l ks
  end.

Definition lin_ok (T : trafo) (chans : list chan) : bool :=
  t_wfb T && noshadow T chans && match t_out T chans with Some _ => true | None => false end.

Fixpoint linfree (T : trafo) : bool :=
  match T with
  | TId | TScale _ | TOffset _ | TParallel _ => true
  | TLinear _ _ _ => false
  | TChain l => (fix all (l : list trafo) := match l with [] => true | x :: r => linfree x && all r end) l
  end.

(* every transformation in the waveform is linear-free or passes [lin_ok] for its inner waveform's channels *)
Fixpoint trans_ok_all (w : wf) : bool :=
  match w with
  | WTable _ _ | WConst _ _ _ | WFunc _ _ _ => true
  | WSeq l | WMulti l => (fix all (l : list wf) := match l with [] => true | x :: r => trans_ok_all x && all r end) l
  | WRep b _ => trans_ok_all b
  | WTrans i T => (linfree T || lin_ok T (channels i)) && trans_ok_all i
  | WSubset i _ | WFunctor i _ | WRev i => trans_ok_all i
  | WArith l _ r => trans_ok_all l && trans_ok_all r
  end.

(* every transformation in the waveform has the constructor-guaranteed shape *)
Fixpoint twf_all (w : wf) : bool :=
  match w with
  | WTable _ _ | WConst _ _ _ | WFunc _ _ _ => true
  | WSeq l | WMulti l => (fix all (l : list wf) := match l with [] => true | x :: r => twf_all x && all r end) l
  | WRep b _ => twf_all b
  | WTrans i T => t_wfb T && twf_all i
  | WSubset i _ | WFunctor i _ | WRev i => twf_all i
  | WArith l _ r => twf_all l && twf_all r
  end.

(* reversal only directly around tables / function waveforms (as ProofsDen.plainrev), transformations allowed *)
Fixpoint plainrevT (w : wf) : bool :=
  match w with
  | WTable _ _ | WConst _ _ _ | WFunc _ _ _ => true
  | WSeq l | WMulti l => (fix all (l : list wf) := match l with [] => true | x :: r => plainrevT x && all r end) l
  | WRep b _ => plainrevT b
  | WTrans i _ => plainrevT i
  | WSubset i _ | WFunctor i _ => plainrevT i
  | WArith l _ r => plainrevT l && plainrevT r
  | WRev i => match i with WTable _ _ | WFunc _ _ _ => true | _ => false end
  end.
