(* C08 — proof scripts, part 1: structural equality decides Leibniz equality; concrete refutations. *)
From Coq Require Import List ZArith QArith Qabs Bool Lia.
Require Import QV.C08.Model QV.C08.Spec QV.C08.Wf.
Import ListNotations.
Open Scope Q_scope.

Lemma Qsyn_eqb_eq a b : Qsyn_eqb a b = true -> a = b.
Proof.
  destruct a as [n d], b as [n' d']; unfold Qsyn_eqb; cbn. intros H.
  apply andb_prop in H as [H1 H2]. apply Z.eqb_eq in H1. apply Pos.eqb_eq in H2. subst; reflexivity.
Qed.

Lemma list_eqb'_eq {A} (e : A -> A -> bool) (a : list A) :
  Forall (fun x => forall y, e x y = true -> x = y) a -> forall b, list_eqb' e a b = true -> a = b.
Proof.
  induction 1 as [|x a Hx _ IH]; intros [|y b] H; cbn in H; try discriminate; auto.
  apply andb_prop in H as [H1 H2]. f_equal; auto.
Qed.
Lemma list_eqb'_eq_all {A} (e : A -> A -> bool) :
  (forall x y, e x y = true -> x = y) -> forall a b, list_eqb' e a b = true -> a = b.
Proof. intros He a. apply list_eqb'_eq. apply Forall_forall. intros x _. apply He. Qed.

Lemma N_eqb_eq' x y : N.eqb x y = true -> x = y. Proof. apply N.eqb_eq. Qed.
Lemma interp_eqb_eq a b : interp_eqb a b = true -> a = b. Proof. destruct a, b; cbn; congruence. Qed.
Lemma functor_eqb_eq a b : functor_eqb a b = true -> a = b. Proof. destruct a, b; cbn; congruence. Qed.
Lemma aop_eqb_eq a b : aop_eqb a b = true -> a = b. Proof. destruct a, b; cbn; congruence. Qed.
Lemma entry_eqb_eq a b : entry_eqb a b = true -> a = b.
Proof.
  destruct a, b; unfold entry_eqb; cbn. intros H.
  apply andb_prop in H as [H H3]. apply andb_prop in H as [H1 H2].
  apply Qsyn_eqb_eq in H1, H2. apply interp_eqb_eq in H3. subst; reflexivity.
Qed.
Lemma tval_eqb_eq a b : tval_eqb a b = true -> a = b.
Proof.
  destruct a, b; cbn; try discriminate; intros H.
  - apply Qsyn_eqb_eq in H; subst; reflexivity.
  - apply andb_prop in H as [H1 H2]. apply Qsyn_eqb_eq in H1, H2; subst; reflexivity.
Qed.
Lemma kv_eqb_eq {A} (e : A -> A -> bool) :
  (forall x y, e x y = true -> x = y) -> forall a b, kv_eqb e a b = true -> a = b.
Proof.
  intros He [k v] [k' v']; unfold kv_eqb; cbn. intros H. apply andb_prop in H as [H1 H2].
  apply N.eqb_eq in H1. apply He in H2. subst; reflexivity.
Qed.

Lemma trafo_eqb_eq : forall a b, trafo_eqb a b = true -> a = b.
Proof.
  induction a using trafo_ind'; intros b Hb; destruct b; cbn in Hb; try discriminate; auto.
  - f_equal. eapply list_eqb'_eq_all; [|exact Hb]. apply kv_eqb_eq, tval_eqb_eq.
  - f_equal. eapply list_eqb'_eq_all; [|exact Hb]. apply kv_eqb_eq, tval_eqb_eq.
  - apply andb_prop in Hb as [Hb H3]. apply andb_prop in Hb as [H1 H2].
    f_equal.
    + eapply list_eqb'_eq_all; [|exact H1]. apply N_eqb_eq'.
    + eapply list_eqb'_eq_all; [|exact H2]. apply N_eqb_eq'.
    + eapply list_eqb'_eq_all; [|exact H3]. apply list_eqb'_eq_all, Qsyn_eqb_eq.
  - f_equal. eapply list_eqb'_eq_all; [|exact Hb]. apply kv_eqb_eq, tval_eqb_eq.
  - f_equal. revert l0 Hb. induction H as [|x l Hx _ IH]; intros [|y l'] Hb; try discriminate; auto.
    apply andb_prop in Hb as [H1 H2]. f_equal; auto.
Qed.

Lemma wf_list_eqb_eq (l : list wf) :
  Forall (fun x => forall y, wf_eqb x y = true -> x = y) l ->
  forall l', (fix go (l l' : list wf) := match l, l' with
                | [], [] => true
                | x :: r, y :: r' => wf_eqb x y && go r r'
                | _, _ => false end) l l' = true -> l = l'.
Proof.
  induction 1 as [|x l Hx _ IH]; intros [|y l'] Hb; try discriminate; auto.
  apply andb_prop in Hb as [H1 H2]. f_equal; auto.
Qed.

(* Waveform.__eq__ (structural over the slots) decides equality of the modelled objects; hence equal waveforms have
   equal channels, durations, constant values, samples, and any function of the object (a hash) agrees *)
Theorem wf_eqb_eq : forall a b, wf_eqb a b = true -> a = b.
Proof.
  induction a using wf_ind'; intros b Hb; destruct b; cbn in Hb; try discriminate.
  - apply andb_prop in Hb as [H1 H2]. apply N.eqb_eq in H1. subst. f_equal.
    eapply list_eqb'_eq_all; [|exact H2]. apply entry_eqb_eq.
  - apply andb_prop in Hb as [Hb H3]. apply andb_prop in Hb as [H1 H2].
    apply Qsyn_eqb_eq in H1, H2. apply N.eqb_eq in H3. subst; reflexivity.
  - apply andb_prop in Hb as [Hb H3]. apply andb_prop in Hb as [H1 H2].
    apply Qsyn_eqb_eq in H2. apply N.eqb_eq in H3. subst. f_equal.
    eapply list_eqb'_eq_all; [|exact H1]. apply Qsyn_eqb_eq.
  - f_equal. eapply wf_list_eqb_eq; eauto.
  - f_equal. eapply wf_list_eqb_eq; eauto.
  - apply andb_prop in Hb as [H1 H2]. apply Z.eqb_eq in H2. f_equal; auto.
  - apply andb_prop in Hb as [H1 H2]. apply trafo_eqb_eq in H2. f_equal; auto.
  - apply andb_prop in Hb as [H1 H2]. f_equal; auto. eapply list_eqb'_eq_all; [|exact H2]. apply N_eqb_eq'.
  - apply andb_prop in Hb as [Hb H3]. apply andb_prop in Hb as [H1 H2]. apply aop_eqb_eq in H2. f_equal; auto.
  - apply andb_prop in Hb as [H1 H2]. f_equal; auto.
    eapply list_eqb'_eq_all; [|exact H2]. apply kv_eqb_eq, functor_eqb_eq.
  - f_equal; auto.
Qed.

Corollary eq_same_behaviour : forall a b, wf_eqb a b = true ->
  channels a = channels b /\ duration a = duration b /\
  (forall c, cv a c = cv b c) /\ (forall c t, sample a c t = sample b c t) /\
  (forall c ts, get_sampled a c ts = get_sampled b c ts) /\ (forall (H : Type) (hash : wf -> H), hash a = hash b).
Proof. intros a b E. apply wf_eqb_eq in E. subst. repeat split; reflexivity. Qed.

(* the relation is not trivial: it holds on equal objects *)
Lemma list_eqb'_refl {A} (e : A -> A -> bool) (a : list A) : Forall (fun x => e x x = true) a -> list_eqb' e a a = true.
Proof. induction 1; cbn; auto. rewrite H; auto. Qed.
Example eq_nontrivial :
  let w := WSeq [WTable 1%N [mkE 0 1 Hold; mkE (1#2) 2 Linear]; WRep (WConst (1#4) 3 1%N) 2] in
  wf_eqb w w = true /\ wf_eqb w (WSeq [WTable 1%N [mkE 0 1 Hold; mkE (1#2) 2 Jump]; WRep (WConst (1#4) 3 1%N) 2]) = false.
Proof. vm_compute. split; reflexivity. Qed.

(* ------------------------------------------------------------------------------------------------------------------ *)
(* concrete refutations of the totality clause on the unchanged code (known findings) *)

Definition tabA : wf := WTable 1%N [mkE 0 1 Hold; mkE (1#2) 2 Linear].
Definition tabB : wf := WTable 1%N [mkE 0 5 Hold; mkE (1#2) 7 Linear].

Lemma total_refuted_at_duration :
  exists w c t, okb w = true /\ inb c (channels w) = true /\ Qle_bool 0 t = true /\ Qle_bool t (duration w) = true
                /\ gs w c t = None /\ get_sampled w c [t] = OK [None].
Proof. exists (WSeq [tabA; tabB]), 1%N, 1. vm_compute. repeat split; reflexivity. Qed.

Lemma total_refuted_repetition :
  exists w c t, okb w = true /\ inb c (channels w) = true /\ Qle_bool 0 t = true /\ Qle_bool t (duration w) = true
                /\ gs w c t = None /\ get_sampled w c [t] = OK [None].
Proof. exists (WRep tabA 2), 1%N, 1. vm_compute. repeat split; reflexivity. Qed.

Lemma total_refuted_reversed_at_zero :
  exists w c t, okb w = true /\ inb c (channels w) = true /\ Qeq_bool t 0 = true /\ Qltb t (duration w) = true
                /\ gs w c t = None /\ get_sampled w c [t] = OK [None].
Proof. exists (WRev (WSeq [tabA; tabB])), 1%N, 0. vm_compute. repeat split; reflexivity. Qed.

(* the reversed composite answers an internal junction with the originally later piece; the denotation of DESIGN 4.4
   (pieces in reversed order, each mirrored) has the end value of the originally earlier piece there *)
Lemma reversed_junction_refuted :
  exists w c t, okb w = true /\ inb c (channels w) = true /\ Qltb 0 t = true /\ Qltb t (duration w) = true
                /\ oQeqb (gs (WRev w) c t) (Some 5) = true /\ oQeqb (den (WRev w) c t) (Some 2) = true
                /\ oQeqb (gs (WRev w) c t) (den (WRev w) c t) = false.
Proof. exists (WSeq [tabA; tabB]), 1%N, (1#2). vm_compute. repeat split; reflexivity. Qed.

(* a reported constant is NOT what unsafe_sample answers at t = duration of a plain sequence of equal constants
   (get_sampled hides it behind the constant short cut) *)
Lemma constant_vs_unsafe_at_duration :
  exists w c t v, okb w = true /\ cv w c = Some v /\ Qeq_bool t (duration w) = true /\ sample w c t = None /\ gs w c t = Some v.
Proof. exists (WSeq [WConst 1 5 1%N; WConst 1 5 1%N]), 1%N, 2, 5. vm_compute. repeat split; reflexivity. Qed.
