(* C08 — proof scripts (part 1: small facts) *)
From Coq Require Import List ZArith QArith Qabs Bool Lia.
Require Import QV.C08.Model QV.C08.Spec.
Import ListNotations.
Open Scope Q_scope.

Lemma Qsyn_eqb_eq a b : Qsyn_eqb a b = true -> a = b.
Proof.
  destruct a as [n d], b as [n' d']; unfold Qsyn_eqb; cbn. intros H.
  apply andb_prop in H as [H1 H2]. apply Z.eqb_eq in H1. apply Pos.eqb_eq in H2. subst; reflexivity.
Qed.
