(* C08 — totality of sampling under executable guards that exclude the refuted input classes
   (t = duration of a sequence / repetition; a reversal around them).  TransformingWaveform nodes are not covered. *)
From Coq Require Import List ZArith QArith Qabs Bool Lia Lqa.
Require Import QV.C08.Model QV.C08.Spec QV.C08.Wf QV.C08.ProofsVec QV.C08.ProofsConst.
Import ListNotations.
Open Scope Q_scope.

(* no sequence / repetition / transformation anywhere: defined on the closed interval [0, duration] *)
Fixpoint closedb (w : wf) : bool :=
  match w with
  | WTable _ _ | WConst _ _ _ | WFunc _ _ _ => true
  | WSeq _ | WRep _ _ | WTrans _ _ => false
  | WMulti l => (fix all (l : list wf) := match l with [] => true | x :: r => closedb x && all r end) l
  | WSubset i _ | WFunctor i _ | WRev i => closedb i
  | WArith l _ r => closedb l && closedb r
  end.
(* guard_C08_nan_at_duration / guard_C08_reversed_composite: sequences and repetitions allowed, reversal only around
   closed waveforms: defined on [0, duration) *)
Fixpoint rightopenb (w : wf) : bool :=
  match w with
  | WTable _ _ | WConst _ _ _ | WFunc _ _ _ => true
  | WTrans _ _ => false
  | WSeq l | WMulti l => (fix all (l : list wf) := match l with [] => true | x :: r => rightopenb x && all r end) l
  | WRep b _ => rightopenb b
  | WSubset i _ | WFunctor i _ => rightopenb i
  | WRev i => closedb i
  | WArith l _ r => rightopenb l && rightopenb r
  end.
Lemma closedb_all_Forall l :
  (fix all (l : list wf) := match l with [] => true | x :: r => closedb x && all r end) l = true ->
  Forall (fun x => closedb x = true) l.
Proof.
  induction l as [|x r IH]; intros H; constructor.
  - apply andb_prop in H as [H _]; exact H.
  - apply IH. apply andb_prop in H as [_ H]; exact H.
Qed.
Lemma rightopenb_all_Forall l :
  (fix all (l : list wf) := match l with [] => true | x :: r => rightopenb x && all r end) l = true ->
  Forall (fun x => rightopenb x = true) l.
Proof.
  induction l as [|x r IH]; intros H; constructor.
  - apply andb_prop in H as [H _]; exact H.
  - apply IH. apply andb_prop in H as [_ H]; exact H.
Qed.

(* ---- tables ---- *)
Lemma table_at_keeps_some t : forall es a, exists v, table_at es t (Some a) = Some v.
Proof.
  induction es as [|e1 r IH]; intros a; [cbn; eauto|].
  destruct r as [|e2 r']; [cbn; eauto|].
  rewrite table_at_cons2.
  destruct (negb (Qltb t (e_t e1)) && Qle_bool t (e_t e2)); apply IH.
Qed.

Lemma table_at_total t : forall r e1 e2 acc,
  table_valid_from (e_t e1) (e2 :: r) = true -> e_t e1 <= t -> t <= last_t (e1 :: e2 :: r) ->
  exists v, table_at (e1 :: e2 :: r) t acc = Some v.
Proof.
  induction r as [|e3 r IH]; intros e1 e2 acc Hv H0 H1; rewrite table_at_cons2.
  - cbn [last_t] in H1.
    assert (E1 : Qltb t (e_t e1) = false).
    { unfold Qltb. apply negb_false_iff. apply Qle_bool_iff. exact H0. }
    assert (E2 : Qle_bool t (e_t e2) = true) by (apply Qle_bool_iff; exact H1).
    rewrite E1, E2. cbn. eauto.
  - cbn [table_valid_from] in Hv. apply andb_prop in Hv as [H12 Hv].
    destruct (Qle_bool t (e_t e2)) eqn:E2.
    + assert (E1 : Qltb t (e_t e1) = false).
      { unfold Qltb. apply negb_false_iff. apply Qle_bool_iff. exact H0. }
      rewrite E1. cbn [negb andb]. apply table_at_keeps_some.
    + rewrite andb_false_r. apply IH; auto.
      * assert (~ t <= e_t e2) by (rewrite <- Qle_bool_iff; congruence). lra.
Qed.

Lemma table_total c tab t : table_valid tab = true -> 0 <= t -> t <= last_t tab ->
  exists v, sample (WTable c tab) c t = Some v.
Proof.
  unfold table_valid. destruct tab as [|e0 [|e1 r]]; try discriminate.
  intros H H0 H1. apply andb_prop in H as [H Hl]. apply andb_prop in H as [Hz Hv].
  apply Qeq_bool_iff in Hz. cbn [table_valid_from] in Hv. apply andb_prop in Hv as [_ Hv].
  cbn [sample]. apply table_at_total; auto. lra.
Qed.

(* ---- loops ---- *)
Definition defined_on (w : wf) (c : chan) (closed : bool) : Prop :=
  forall t, 0 <= t -> (if closed then t <= duration w else t < duration w) -> exists v, sample w c t = Some v.

Lemma seqp_total c t l : Forall (fun x => defined_on x c false) l -> forall time acc,
  ((exists a, acc = Some a) \/ (time <= t /\ t < time + sumd l)) ->
  exists v, seqp c t l time acc = Some v.
Proof.
  induction 1 as [|s r Hs _ IH]; intros time acc Hc; cbn [seqp sumd] in *.
  - destruct Hc as [[a ->]|[H1 H2]]; [eauto|lra].
  - cbv zeta. apply IH.
    destruct (negb (Qltb t time) && Qltb t (time + duration s)) eqn:E.
    + left. apply andb_prop in E as [E1 E2].
      unfold Qltb in E1, E2. rewrite negb_involutive in E1. apply Qle_bool_iff in E1.
      apply negb_true_iff in E2. assert (E3 : ~ time + duration s <= t) by (rewrite <- Qle_bool_iff; congruence).
      destruct (Hs (t - time)) as [v' Hv]; [lra|cbn; lra|]. eauto.
    + destruct Hc as [Ha|[H1 H2]]; [left; exact Ha|].
      right. apply andb_false_iff in E as [E|E].
      * unfold Qltb in E. rewrite negb_involutive in E.
        assert (~ time <= t) by (rewrite <- Qle_bool_iff; congruence). lra.
      * unfold Qltb in E. apply negb_false_iff in E. apply Qle_bool_iff in E. split; lra.
Qed.
Lemma repp_total c t b : defined_on b c false -> forall k time acc,
  ((exists a, acc = Some a) \/ (time <= t /\ t < time + kq (duration b) k)) ->
  exists v, repp c t b k time acc = Some v.
Proof.
  intros Hs. induction k as [|k IH]; intros time acc Hc; cbn [repp kq] in *.
  - destruct Hc as [[a ->]|[H1 H2]]; [eauto|lra].
  - cbv zeta. apply IH.
    destruct (negb (Qltb t time) && Qltb t (time + duration b)) eqn:E.
    + left. apply andb_prop in E as [E1 E2].
      unfold Qltb in E1, E2. rewrite negb_involutive in E1. apply Qle_bool_iff in E1.
      apply negb_true_iff in E2. assert (E3 : ~ time + duration b <= t) by (rewrite <- Qle_bool_iff; congruence).
      destruct (Hs (t - time)) as [v' Hv]; [lra|cbn; lra|]. eauto.
    + destruct Hc as [Ha|[H1 H2]]; [left; exact Ha|].
      right. apply andb_false_iff in E as [E|E].
      * unfold Qltb in E. rewrite negb_involutive in E.
        assert (~ time <= t) by (rewrite <- Qle_bool_iff; congruence). lra.
      * unfold Qltb in E. apply negb_false_iff in E. apply Qle_bool_iff in E. split; lra.
Qed.

(* ---- the two guarded theorems, proved together: [closed] selects the interval and the guard ---- *)
Definition guardb (closed : bool) (w : wf) : bool := if closed then closedb w else rightopenb w.

Lemma total_guarded : forall w closed, okb w = true -> guardb closed w = true -> forall c,
  inb c (channels w) = true -> defined_on w c closed.
Proof.
  intros w. induction w using wf_ind'; intros closed Hok Hg ch Hch t H0 H1; cbn [okb] in Hok.
  - (* table *)
    cbn [channels] in Hch. cbn in Hch. rewrite orb_false_r in Hch. apply N.eqb_eq in Hch. subst c.
    apply table_total; auto. cbn [duration] in H1. destruct closed; lra.
  - cbn. eauto.
  - cbn. eauto.
  - (* sequence: only in the right-open guard *)
    destruct closed; [discriminate|]. cbn [guardb rightopenb] in Hg.
    apply andb_prop in Hok as [Hchs Hoks]. apply okb_all_Forall in Hoks. apply rightopenb_all_Forall in Hg.
    rewrite sample_seq. rewrite duration_seq in H1.
    apply seqp_total; [|right; split; lra].
    assert (Hin := seq_children_have_chan l ch Hchs Hch).
    clear Hchs Hch H0 H1.
    induction H as [|s l' Hs _ IH]; [constructor|].
    apply Forall_cons_iff in Hoks as [Ho1 Ho2]. apply Forall_cons_iff in Hg as [Hg1 Hg2].
    apply Forall_cons_iff in Hin as [Hi1 Hi2]. constructor; [apply (Hs false); auto|auto].
  - (* multi-channel *)
    apply andb_prop in Hok as [Hok Hoks]. apply andb_prop in Hok as [Hdur Hov].
    apply okb_all_Forall in Hoks.
    assert (Hgs : Forall (fun x => guardb closed x = true) l).
    { destruct closed; cbn [guardb closedb rightopenb] in Hg;
        [apply closedb_all_Forall|apply rightopenb_all_Forall]; exact Hg. }
    assert (Hd : Forall (fun y => duration y == duration (WMulti l)) l).
    { destruct l as [|x r]; [discriminate|]. cbn [duration].
      constructor; [reflexivity|]. rewrite forallb_forall in Hdur. apply Forall_forall. intros y Hy.
      apply Qeq_bool_iff. auto. }
    clear Hdur Hov Hg. revert H1 Hd. generalize (duration (WMulti l)) as d0. intros d0 H1 Hd.
    cbn [sample channels] in *.
    induction H as [|s l' Hs _ IH]; [discriminate|].
    apply Forall_cons_iff in Hoks as [Ho1 Ho2]. apply Forall_cons_iff in Hgs as [Hg1 Hg2].
    apply Forall_cons_iff in Hd as [Hd1 Hd2].
    destruct (inb ch (channels s)) eqn:E.
    + apply (Hs closed); auto. destruct closed; lra.
    + apply IH; auto. rewrite inb_unionb, E in Hch. exact Hch.
  - (* repetition *)
    destruct closed; [discriminate|]. cbn [guardb rightopenb] in Hg.
    apply andb_prop in Hok as [Hn Hokb]. cbn [channels] in Hch.
    rewrite sample_rep. apply repp_total.
    + apply (IHw false); auto.
    + right. split; [lra|]. rewrite kq_mult. cbn [duration] in H1.
      rewrite Z2Nat.id; [lra|]. apply Z.leb_le in Hn. lia.
  - destruct closed; discriminate.
  - (* subset *)
    apply andb_prop in Hok as [Hok Hne]. apply andb_prop in Hok as [Hokb Hsub].
    cbn [channels sample duration] in *.
    assert (Hgi : guardb closed w = true) by (destruct closed; exact Hg).
    exact (IHw closed Hokb Hgi ch (subsetb_inb _ _ _ Hsub Hch) t H0 H1).
  - (* arithmetic *)
    apply andb_prop in Hok as [Hok Hdur]. apply andb_prop in Hok as [Hok1 Hok2]. apply Qeq_bool_iff in Hdur.
    assert (Hg12 : guardb closed w1 = true /\ guardb closed w2 = true).
    { destruct closed; cbn [guardb closedb rightopenb] in Hg; apply andb_prop in Hg; exact Hg. }
    destruct Hg12 as [Hg1 Hg2].
    cbn [channels sample duration] in *. rewrite inb_unionb in Hch.
    destruct (inb ch (channels w1)) eqn:E1, (inb ch (channels w2)) eqn:E2; try discriminate.
    + destruct (IHw1 closed Hok1 Hg1 ch E1 t H0 H1) as [a Ha].
      destruct (IHw2 closed Hok2 Hg2 ch E2 t H0) as [b Hb]; [destruct closed; lra|].
      rewrite Ha, Hb. cbn. eauto.
    + apply (IHw1 closed); auto.
    + destruct (IHw2 closed Hok2 Hg2 ch E2 t H0) as [b Hb]; [destruct closed; lra|].
      rewrite Hb. cbn. eauto.
  - (* functor *)
    apply andb_prop in Hok as [Hokb Hkeys]. cbn [channels sample duration] in *.
    assert (Hk : inb ch (keys f) = true) by (rewrite (set_eqb_inb _ _ ch Hkeys); exact Hch).
    destruct (lookup_in_keys ch f Hk) as [g Eg]. rewrite Eg.
    assert (Hgi : guardb closed w = true) by (destruct closed; exact Hg).
    destruct (IHw closed Hokb Hgi ch Hch t H0 H1) as [a Ha].
    rewrite Ha. cbn. eauto.
  - (* reversed: the inner waveform must be closed *)
    cbn [channels sample duration] in *.
    assert (Hc : closedb w = true) by (destruct closed; exact Hg).
    apply (IHw true Hok Hc ch Hch (duration w - t)); [destruct closed; lra|cbn; destruct closed; lra].
Qed.

Theorem total_closed : forall w, okb w = true -> closedb w = true -> forall c t,
  inb c (channels w) = true -> 0 <= t -> t <= duration w -> exists v, sample w c t = Some v.
Proof. intros w Hok Hg c t Hc H0 H1. exact (total_guarded w true Hok Hg c Hc t H0 H1). Qed.

Theorem total_rightopen : forall w, okb w = true -> rightopenb w = true -> forall c t,
  inb c (channels w) = true -> 0 <= t -> t < duration w -> exists v, sample w c t = Some v.
Proof. intros w Hok Hg c t Hc H0 H1. exact (total_guarded w false Hok Hg c Hc t H0 H1). Qed.

Corollary gs_total_rightopen : forall w, okb w = true -> rightopenb w = true -> forall c t,
  inb c (channels w) = true -> 0 <= t -> t < duration w -> exists v, gs w c t = Some v.
Proof.
  intros w Hok Hg c t Hc H0 H1. unfold gs. destruct (cv w c); eauto. apply total_rightopen; auto.
Qed.

(* non-vacuity *)
Example total_examples :
  let tabA := WTable 1%N [mkE 0 1 Hold; mkE (1#2) 2 Linear] in
  let w1 := WSeq [tabA; WRep (WRev tabA) 2; WFunctor (WConst (1#2) 3 1%N) [(1%N, FNeg)]] in
  let w2 := WArith (WRev tabA) OpAdd (WMulti [WConst (1#2) 3 1%N; WFunc [1; 1#2] (1#2) 2%N]) in
  okb w1 = true /\ rightopenb w1 = true /\ closedb w1 = false /\ okb w2 = true /\ closedb w2 = true.
Proof. vm_compute. repeat split; reflexivity. Qed.
