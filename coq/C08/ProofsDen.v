(* C08 — the pointwise meaning of the code IS the denotation of DESIGN 4.4 (Spec.den: first-match pieces, closed end,
   reversal pushed to the leaves) on [0, duration) for every well-formed waveform in which reversal is applied to
   tables / function waveforms only and no transformation occurs.  (Reversal around composites is where the code
   deviates: see the refutations; transformations: not proved.) *)
From Coq Require Import List ZArith QArith Qabs Bool Lia Lqa.
Require Import QV.C08.Model QV.C08.Spec QV.C08.Wf QV.C08.ProofsVec QV.C08.ProofsConst QV.C08.ProofsProper
               QV.C08.ProofsCtor QV.C08.ProofsFlat.
Import ListNotations.
Open Scope Q_scope.

Definition is_atom (w : wf) : bool := match w with WTable _ _ | WFunc _ _ _ => true | _ => false end.
(* reversal only directly around tables / function waveforms, no transformation *)
Fixpoint plainrev (w : wf) : bool :=
  match w with
  | WTable _ _ | WConst _ _ _ | WFunc _ _ _ => true
  | WSeq l | WMulti l => (fix all (l : list wf) := match l with [] => true | x :: r => plainrev x && all r end) l
  | WRep b _ => plainrev b
  | WTrans _ _ => false
  | WSubset i _ | WFunctor i _ => plainrev i
  | WArith l _ r => plainrev l && plainrev r
  | WRev i => is_atom i
  end.
Lemma plainrev_all_Forall l :
  (fix all (l : list wf) := match l with [] => true | x :: r => plainrev x && all r end) l = true ->
  Forall (fun x => plainrev x = true) l.
Proof.
  induction l as [|x r IH]; intros H; constructor.
  - apply andb_prop in H as [H _]; exact H.
  - apply IH. apply andb_prop in H as [_ H]; exact H.
Qed.

(* the normal form is the waveform itself *)
Lemma nf_plainrev : forall w, plainrev w = true -> nf false w = w.
Proof.
  induction w using wf_ind'; intros Hp; cbn [plainrev] in Hp; cbn [nf]; auto.
  - f_equal. apply plainrev_all_Forall in Hp. induction H as [|x r Hx _ IH]; [reflexivity|].
    apply Forall_cons_iff in Hp as [A B]. cbn [map]. rewrite (Hx A), (IH B). reflexivity.
  - f_equal. apply plainrev_all_Forall in Hp. induction H as [|x r Hx _ IH]; [reflexivity|].
    apply Forall_cons_iff in Hp as [A B]. cbn [map]. rewrite (Hx A), (IH B). reflexivity.
  - rewrite (IHw Hp). reflexivity.
  - discriminate.
  - rewrite (IHw Hp). reflexivity.
  - apply andb_prop in Hp as [A B]. rewrite (IHw1 A), (IHw2 B). reflexivity.
  - rewrite (IHw Hp). reflexivity.
  - destruct w; try discriminate; reflexivity.
Qed.

(* ---- first-match selection (sc) = last-overwrite selection (sample) when the pieces have positive lengths ---- *)
Section ScLoops.
  Variables (c : chan) (t : Q).
  Fixpoint scseq (l : list wf) (time : Q) : option Q :=
    match l with
    | [] => None
    | [s] => sc s c (t - time)
    | s :: r => let e := time + duration s in if Qltb t e then sc s c (t - time) else scseq r e
    end.
  Variable b : wf.
  Fixpoint screp (k : nat) (time : Q) : option Q :=
    match k with
    | O => None
    | S O => sc b c (t - time)
    | S k' => let e := time + duration b in if Qltb t e then sc b c (t - time) else screp k' e
    end.
End ScLoops.
Lemma sc_seq l c t : sc (WSeq l) c t = scseq c t l 0.
Proof. reflexivity. Qed.
Lemma sc_rep b n c t : sc (WRep b n) c t = screp c t b (Z.to_nat n) 0.
Proof. reflexivity. Qed.

Definition sc_ok (x : wf) (c : chan) : Prop := forall t', 0 <= t' -> t' < duration x -> sc x c t' = sample x c t'.

Lemma Qltb_true a b : a < b -> Qltb a b = true.
Proof. intros H. unfold Qltb. apply negb_true_iff. destruct (Qle_bool b a) eqn:E; auto. apply Qle_bool_iff in E. lra. Qed.
Lemma Qltb_false a b : b <= a -> Qltb a b = false.
Proof. intros H. unfold Qltb. apply negb_false_iff. apply Qle_bool_iff. exact H. Qed.

Lemma scseq_seqp c t l : Forall (fun x => sc_ok x c) l -> Forall (fun x => 0 < duration x) l ->
  forall time acc, time <= t -> t < time + sumd l -> scseq c t l time = seqp c t l time acc.
Proof.
  induction 1 as [|x r Hx _ IH]; intros Hpos time acc H0 H1; cbn [sumd] in H1; [lra|].
  apply Forall_cons_iff in Hpos as [Px Pr].
  assert (Hnn : Forall (fun y => 0 <= duration y) r) by (eapply Forall_impl; [|exact Pr]; intros y Hy; cbn in Hy; lra).
  cbn [seqp]. cbv zeta.
  destruct (Qlt_le_dec t (time + duration x)) as [Lt|Ge].
  - (* this piece *)
    rewrite (Qltb_false t time H0), (Qltb_true _ _ Lt). cbn [negb andb].
    rewrite (seqp_outside c t r Hnn); [|left; exact Lt].
    assert (E : sc x c (t - time) = sample x c (t - time)) by (apply Hx; lra).
    destruct r as [|y r']; cbn [scseq]; [exact E|]. cbv zeta. rewrite (Qltb_true _ _ Lt). exact E.
  - rewrite (Qltb_false _ _ Ge), andb_false_r.
    destruct r as [|y r'].
    + cbn [sumd] in H1. lra.
    + cbn [scseq]. cbv zeta. rewrite (Qltb_false _ _ Ge). apply IH; auto. lra.
Qed.

Lemma screp_repp c t b : sc_ok b c -> 0 < duration b ->
  forall k time acc, time <= t -> t < time + kq (duration b) k -> screp c t b k time = repp c t b k time acc.
Proof.
  intros Hb Pb. induction k as [|k IH]; intros time acc H0 H1; cbn [kq] in H1; [lra|].
  cbn [repp]. cbv zeta.
  assert (Hout : forall j tm a, t < tm -> repp c t b j tm a = a).
  { induction j as [|j IHj]; intros tm a Hlt; [reflexivity|]. cbn [repp]. cbv zeta.
    rewrite (Qltb_true _ _ Hlt). cbn [negb andb]. apply IHj. lra. }
  destruct (Qlt_le_dec t (time + duration b)) as [Lt|Ge].
  - rewrite (Qltb_false t time H0), (Qltb_true _ _ Lt). cbn [negb andb]. rewrite (Hout k _ _ Lt).
    assert (E : sc b c (t - time) = sample b c (t - time)) by (apply Hb; lra).
    destruct k as [|k']; cbn [screp]; [exact E|]. cbv zeta. rewrite (Qltb_true _ _ Lt). exact E.
  - rewrite (Qltb_false _ _ Ge), andb_false_r.
    destruct k as [|k'].
    + cbn [kq] in H1. lra.
    + cbn [screp]. cbv zeta. rewrite (Qltb_false _ _ Ge). apply IH; auto. lra.
Qed.

Theorem sc_is_sample : forall w, okb w = true -> plainrev w = true -> forall c,
  inb c (channels w) = true -> sc_ok w c.
Proof.
  induction w using wf_ind'; intros Hok Hp ch Hch t H0 H1; cbn [okb] in Hok; cbn [plainrev] in Hp.
  - reflexivity.
  - reflexivity.
  - reflexivity.
  - (* sequence *)
    apply andb_prop in Hok as [Hchs Hoks]. apply okb_all_Forall in Hoks. apply plainrev_all_Forall in Hp.
    rewrite sc_seq, sample_seq. rewrite duration_seq in H1.
    assert (Hin := seq_children_have_chan l ch Hchs Hch).
    apply scseq_seqp; [| |lra|lra].
    + clear Hchs Hch H0 H1. induction H as [|s l' Hs _ IH]; [constructor|].
      apply Forall_cons_iff in Hoks as [Ho1 Ho2]. apply Forall_cons_iff in Hp as [Hp1 Hp2].
      apply Forall_cons_iff in Hin as [Hi1 Hi2]. constructor; [exact (Hs Ho1 Hp1 ch Hi1)|auto].
    + eapply Forall_impl; [|exact Hoks]. intros y Hy. apply okb_pos; exact Hy.
  - (* multi-channel *)
    apply andb_prop in Hok as [Hok Hoks]. apply andb_prop in Hok as [Hdur Hov].
    apply okb_all_Forall in Hoks. apply plainrev_all_Forall in Hp.
    assert (Hd : Forall (fun y => duration y == duration (WMulti l)) l).
    { destruct l as [|x r]; [discriminate|]. cbn [duration].
      constructor; [reflexivity|]. rewrite forallb_forall in Hdur. apply Forall_forall. intros y Hy.
      apply Qeq_bool_iff. auto. }
    clear Hdur Hov. revert H1 Hd. generalize (duration (WMulti l)) as d0. intros d0 H1 Hd.
    cbn [sc sample channels] in *.
    induction H as [|s l' Hs _ IH]; [reflexivity|].
    apply Forall_cons_iff in Hoks as [Ho1 Ho2]. apply Forall_cons_iff in Hp as [Hp1 Hp2].
    apply Forall_cons_iff in Hd as [Hd1 Hd2].
    destruct (inb ch (channels s)) eqn:E.
    + apply (Hs Ho1 Hp1 ch E); lra.
    + apply IH; auto. rewrite inb_unionb, E in Hch. exact Hch.
  - (* repetition *)
    apply andb_prop in Hok as [Hn Hokb]. cbn [channels] in Hch.
    rewrite sc_rep, sample_rep. apply screp_repp; [exact (IHw Hokb Hp ch Hch)|apply okb_pos; exact Hokb|lra|].
    rewrite kq_mult. cbn [duration] in H1. rewrite Z2Nat.id; [lra|]. apply Z.leb_le in Hn. lia.
  - discriminate.
  - (* subset *)
    apply andb_prop in Hok as [Hok Hne]. apply andb_prop in Hok as [Hokb Hsub].
    cbn [sc sample channels duration] in *. exact (IHw Hokb Hp ch (subsetb_inb _ _ _ Hsub Hch) t H0 H1).
  - (* arithmetic *)
    apply andb_prop in Hok as [Hok Hdur]. apply andb_prop in Hok as [Hok1 Hok2]. apply Qeq_bool_iff in Hdur.
    apply andb_prop in Hp as [Hp1 Hp2].
    cbn [sc sample channels duration] in *. rewrite inb_unionb in Hch.
    destruct (inb ch (channels w1)) eqn:E1, (inb ch (channels w2)) eqn:E2; try discriminate.
    + rewrite (IHw1 Hok1 Hp1 ch E1 t H0 H1), (IHw2 Hok2 Hp2 ch E2 t H0); [reflexivity|lra].
    + exact (IHw1 Hok1 Hp1 ch E1 t H0 H1).
    + rewrite (IHw2 Hok2 Hp2 ch E2 t H0); [reflexivity|lra].
  - (* functor *)
    apply andb_prop in Hok as [Hokb Hkeys]. cbn [sc sample channels duration] in *.
    destruct (lookup ch f); [|reflexivity]. rewrite (IHw Hokb Hp ch Hch t H0 H1). reflexivity.
  - (* reversal of a table / function waveform *)
    destruct w; try discriminate; reflexivity.
Qed.

(* the code's answer is the denoted voltage *)
Theorem sample_is_den : forall w, okb w = true -> plainrev w = true -> forall c t,
  inb c (channels w) = true -> 0 <= t -> t < duration w -> den w c t = sample w c t.
Proof.
  intros w Hok Hp c t Hc H0 H1. unfold den. rewrite (nf_plainrev w Hp). exact (sc_is_sample w Hok Hp c Hc t H0 H1).
Qed.

Example den_example :
  let tabA := WTable 1%N [mkE 0 1 Hold; mkE (1#2) 2 Linear] in
  let w := WSeq [tabA; WRep (WRev tabA) 2; WArith (WConst (1#2) 3 1%N) OpSub tabA] in
  okb w = true /\ plainrev w = true /\ oQeqb (den w 1%N (3#4)) (sample w 1%N (3#4)) = true /\
  oQeqb (den w 1%N (3#4)) (Some (3#2)) = true.
Proof. vm_compute. repeat split; reflexivity. Qed.
