(* C08 — reversal clauses on the pointwise reading. *)
From Coq Require Import List ZArith QArith Qabs Bool.
Require Import QV.C08.Model QV.C08.Spec QV.C08.Wf.
Import ListNotations.
Open Scope Q_scope.

Definition is_rev (w : wf) : bool := match w with WRev _ => true | _ => false end.
Definition is_rev_rev (w : wf) : bool := match w with WRev (WRev _) => true | _ => false end.

(* ReversedWaveform(w) sampled at t is w sampled at duration - t (by the reversed-view trick, see ProofsVec for the
   vectorised side) *)
Lemma rev_plain_mirror : forall w c t, sample (WRev w) c t = sample w c (duration w - t).
Proof. reflexivity. Qed.

(* w.reversed(): constants are their own reverse, a ReversedWaveform gives its inner waveform back *)
Lemma reversed_mirror_partial : forall w c t, is_rev w = false ->
  sample (reversed w) c t = sample w c (duration w - t).
Proof. intros w c t H. destruct w; try reflexivity. discriminate. Qed.

Lemma reversed_of_rev : forall i c t, sample (reversed (WRev i)) c t = sample i c t.
Proof. reflexivity. Qed.

Lemma reversed_duration : forall w, duration (reversed w) = duration w.
Proof. destruct w; reflexivity. Qed.
Lemma reversed_channels : forall w, channels (reversed w) = channels w.
Proof. destruct w; reflexivity. Qed.

Lemma reversed_involution_partial : forall w c t, is_rev_rev w = false ->
  sample (reversed (reversed w)) c t = sample w c t.
Proof.
  intros w c t H. destruct w; try reflexivity.
  (* w = WRev i *)
  destruct w; try reflexivity. discriminate.
Qed.
(* structurally: reversing twice gives the same object back, except that ReversedWaveform(constant) collapses *)
Lemma reversed_involution_struct : forall w, is_rev_rev w = false ->
  reversed (reversed w) = w \/ exists d v c, w = WRev (WConst d v c) /\ reversed (reversed w) = WConst d v c.
Proof.
  intros w H. destruct w; try (left; reflexivity).
  destruct w; try (left; reflexivity).
  - right. eauto.
  - discriminate.
Qed.

Lemma from_to_reverse_cases : forall w,
  from_to_reverse w = WRev w \/ (from_to_reverse w = w /\ exists kv d, cvd w = Some (kv :: d)).
Proof.
  intros w. unfold from_to_reverse. destruct (cvd w) as [[|kv d]|]; auto. right. eauto.
Qed.

Example reversed_example :
  let w := WSeq [WTable 1%N [mkE 0 1 Hold; mkE (1#2) 2 Linear]; WConst (1#2) 3 1%N] in
  is_rev w = false /\ is_rev_rev (reversed w) = false /\
  oQeqb (sample (reversed w) 1%N (3#4)) (Some (3#2)) = true /\ reversed (reversed w) = w.
Proof. vm_compute. repeat split; reflexivity. Qed.
