(* C08 — the pointwise meaning respects equality of rationals in the time argument (needed wherever a time is only
   == to another one, e.g. d - (d - t)); consequences: the full reversal and involution laws. *)
From Coq Require Import List ZArith QArith Qabs Bool Lia Lqa Setoid Morphisms.
Require Import QV.C08.Model QV.C08.Spec QV.C08.Wf QV.C08.ProofsVec QV.C08.ProofsRev QV.C08.ProofsConst.
Import ListNotations.
Open Scope Q_scope.

(* ---- oQeq is an equivalence ---- *)
Lemma oQeq_refl a : oQeq a a.
Proof. destruct a; cbn; auto. reflexivity. Qed.
Lemma oQeq_sym a b : oQeq a b -> oQeq b a.
Proof. destruct a, b; cbn; auto. intros H; symmetry; exact H. Qed.
Lemma oQeq_trans a b c : oQeq a b -> oQeq b c -> oQeq a c.
Proof. destruct a, b, c; cbn; auto; try tauto. intros H1 H2; rewrite H1; exact H2. Qed.

Lemma Qle_bool_compat a a' b b' : a == a' -> b == b' -> Qle_bool a b = Qle_bool a' b'.
Proof.
  intros Ha Hb. destruct (Qle_bool a b) eqn:E, (Qle_bool a' b') eqn:E'; auto.
  - apply Qle_bool_iff in E. rewrite Ha, Hb in E. apply Qle_bool_iff in E. congruence.
  - apply Qle_bool_iff in E'. rewrite <- Ha, <- Hb in E'. apply Qle_bool_iff in E'. congruence.
Qed.
Lemma Qltb_compat a a' b b' : a == a' -> b == b' -> Qltb a b = Qltb a' b'.
Proof. intros. unfold Qltb. f_equal. apply Qle_bool_compat; assumption. Qed.

Lemma interp_at_compat i t0 v0 t1 v1 t t' : t == t' -> interp_at i t0 v0 t1 v1 t == interp_at i t0 v0 t1 v1 t'.
Proof. intros H. destruct i; cbn; try reflexivity. rewrite H. reflexivity. Qed.
Lemma poly_at_compat k t t' : t == t' -> poly_at k t == poly_at k t'.
Proof. intros H. induction k as [|a k IH]; cbn; [reflexivity|]. rewrite IH, H. reflexivity. Qed.
Lemma tval_at_compat v t t' : t == t' -> tval_at v t == tval_at v t'.
Proof. intros H. destruct v; cbn; [reflexivity|]. rewrite H. reflexivity. Qed.

Lemma omap2_compat f a a' b b' :
  (forall x x' y y', x == x' -> y == y' -> f x y == f x' y') -> oQeq a a' -> oQeq b b' -> oQeq (omap2 f a b) (omap2 f a' b').
Proof. intros Hf. destruct a, a', b, b'; cbn; auto; try tauto. Qed.
Lemma omap_compat f a a' : (forall x x', x == x' -> f x == f x') -> oQeq a a' -> oQeq (omap f a) (omap f a').
Proof. intros Hf. destruct a, a'; cbn; auto. Qed.

Lemma omap_compat2 f g a a' : (forall x x', x == x' -> f x == g x') -> oQeq a a' -> oQeq (omap f a) (omap g a').
Proof. intros Hf. destruct a, a'; cbn; auto. Qed.

(* ---- tables ---- *)
Lemma table_at_compat t t' (E : t == t') : forall es acc acc', oQeq acc acc' -> oQeq (table_at es t acc) (table_at es t' acc').
Proof.
  induction es as [|e1 r IH]; intros acc acc' Ha; [exact Ha|].
  destruct r as [|e2 r']; [exact Ha|].
  rewrite !table_at_cons2. apply IH.
  rewrite (Qltb_compat t t' (e_t e1) (e_t e1) E (Qeq_refl _)).
  rewrite (Qle_bool_compat t t' (e_t e2) (e_t e2) E (Qeq_refl _)).
  destruct (negb (Qltb t' (e_t e1)) && Qle_bool t' (e_t e2)); [|exact Ha].
  cbn. apply interp_at_compat; exact E.
Qed.

(* ---- transformations on related data ---- *)
Definition kv_rel (a b : chan * option Q) : Prop := fst a = fst b /\ oQeq (snd a) (snd b).
Definition deq (d d' : data) : Prop := Forall2 kv_rel d d'.
Definition odeq (a b : option data) : Prop :=
  match a, b with Some x, Some y => deq x y | None, None => True | _, _ => False end.

Lemma deq_refl d : deq d d.
Proof. induction d; constructor; auto. split; [reflexivity|apply oQeq_refl]. Qed.
Lemma deq_keys d d' : deq d d' -> keys d = keys d'.
Proof. induction 1 as [|a b l l' [H _] _ IH]; [reflexivity|]. unfold keys in *. cbn [map]. rewrite H, IH. reflexivity. Qed.
Lemma deq_length d d' : deq d d' -> length d = length d'.
Proof. induction 1; cbn; auto. Qed.
Lemma deq_filter (p : chan -> bool) d d' : deq d d' ->
  deq (filter (fun kv => p (fst kv)) d) (filter (fun kv => p (fst kv)) d').
Proof.
  induction 1 as [|a b l l' [Hk Hv] _ IH]; cbn; [constructor|].
  rewrite Hk. destruct (p (fst b)); [constructor; [split; assumption|exact IH]|exact IH].
Qed.
Lemma deq_app a a' b b' : deq a a' -> deq b b' -> deq (a ++ b) (a' ++ b').
Proof. apply Forall2_app. Qed.
Lemma deq_lookup c d d' : deq d d' ->
  match lookup c d, lookup c d' with
  | Some v, Some v' => oQeq v v'
  | None, None => True
  | _, _ => False
  end.
Proof.
  induction 1 as [|[k v] [k' v'] l l' [Hk Hv] _ IH]; cbn in *; [exact I|].
  subst k'. destruct (N.eqb c k); [exact Hv|exact IH].
Qed.
Lemma deq_lookup_flat c d d' : deq d d' ->
  oQeq (match lookup c d with Some v => v | None => None end) (match lookup c d' with Some v => v | None => None end).
Proof.
  intros H. pose proof (deq_lookup c d d' H) as L.
  destruct (lookup c d), (lookup c d'); tauto.
Qed.

Lemma osum_compat : forall l l', Forall2 oQeq l l' -> forall a a', oQeq a a' ->
  oQeq (fold_left (omap2 Qplus) l a) (fold_left (omap2 Qplus) l' a').
Proof.
  induction 1 as [|x y l l' Hxy _ IH]; intros a a' Ha; cbn; [exact Ha|].
  apply IH. apply omap2_compat; auto. intros p p' q q' Hp Hq; rewrite Hp, Hq; reflexivity.
Qed.
Lemma dot_compat row : forall vals vals', Forall2 oQeq vals vals' -> oQeq (dot row vals) (dot row vals').
Proof.
  intros vals vals' H. unfold dot, osum. apply osum_compat; [|apply oQeq_refl].
  revert row. induction H as [|x y l l' Hxy _ IH]; intros [|r row]; cbn; try constructor.
  - apply omap_compat; auto. intros a b E; rewrite E; reflexivity.
  - apply IH.
Qed.

Lemma t_point_compat : forall T t t' d d', t == t' -> deq d d' -> odeq (t_point T t d) (t_point T t' d').
Proof.
  induction T using trafo_ind'; intros t t' d d' E Hd.
  - exact Hd.
  - (* scale *) cbn [t_point odeq]. unfold deq.
    induction Hd as [|[k v] [k' v'] l l' [Hk Hv] _ IH]; cbn; [constructor|]. cbn in Hk. subst k'.
    constructor; [|exact IH]. destruct (lookup k f) as [tv|]; cbn; split; auto.
    apply omap_compat2; auto. intros a b Eab. rewrite Eab, (tval_at_compat tv t t' E). reflexivity.
  - (* offset *) cbn [t_point odeq]. unfold deq.
    induction Hd as [|[k v] [k' v'] l l' [Hk Hv] _ IH]; cbn; [constructor|]. cbn in Hk. subst k'.
    constructor; [|exact IH]. destruct (lookup k f) as [tv|]; cbn; split; auto.
    apply omap_compat2; auto. intros a b Eab. rewrite Eab, (tval_at_compat tv t t' E). reflexivity.
  - (* linear *) cbn [t_point].
    pose proof (deq_filter (fun c => negb (inb c i)) d d' Hd) as Hf.
    rewrite <- (deq_length _ _ Hf), <- (deq_length _ _ Hd), <- (deq_keys _ _ Hd).
    destruct (length (filter (fun kv => negb (inb (fst kv) i)) d) =? length d)%nat; [exact Hf|].
    destruct (subsetb i (keys d)); [|exact I].
    cbn [odeq]. apply deq_app; [|exact (deq_filter (fun c => negb (inb c o)) _ _ Hf)].
    assert (Hv : Forall2 oQeq (map (fun c => match lookup c d with Some v => v | None => None end) i)
                              (map (fun c => match lookup c d' with Some v => v | None => None end) i)).
    { clear -Hd. induction i as [|c i IH]; cbn; constructor; auto. apply deq_lookup_flat; exact Hd. }
    generalize (combine o m). intros rows. induction rows as [|[oc row] rows IH]; cbn; constructor; auto.
    split; [reflexivity|]. cbn. apply dot_compat; exact Hv.
  - (* parallel *) cbn [t_point odeq]. apply deq_app.
    + clear -E. induction f as [|[k tv] f IH]; cbn; constructor; auto.
      split; [reflexivity|]. cbn. apply tval_at_compat; exact E.
    + exact (deq_filter (fun c => negb (inb c (keys f))) d d' Hd).
  - (* chain *) cbn [t_point]. revert d d' Hd.
    induction H as [|x l Hx _ IH]; intros d d' Hd; [exact Hd|].
    specialize (Hx t t' d d' E Hd).
    destruct (t_point x t d) as [n|], (t_point x t' d') as [n'|]; cbn in Hx; try tauto.
    apply IH; exact Hx.
Qed.

(* ---- loops ---- *)
Lemma seqp_compat c t t' (E : t == t') l :
  Forall (fun s => forall c t t', t == t' -> oQeq (sample s c t) (sample s c t')) l ->
  forall time acc acc', oQeq acc acc' -> oQeq (seqp c t l time acc) (seqp c t' l time acc').
Proof.
  induction 1 as [|s r Hs _ IH]; intros time acc acc' Ha; [exact Ha|].
  cbn [seqp]. cbv zeta. apply IH.
  rewrite (Qltb_compat t t' time time E (Qeq_refl _)).
  rewrite (Qltb_compat t t' (time + duration s) (time + duration s) E (Qeq_refl _)).
  destruct (negb (Qltb t' time) && Qltb t' (time + duration s)); [|exact Ha].
  apply Hs. rewrite E. reflexivity.
Qed.
Lemma repp_compat c t t' (E : t == t') b :
  (forall c t t', t == t' -> oQeq (sample b c t) (sample b c t')) ->
  forall k time acc acc', oQeq acc acc' -> oQeq (repp c t b k time acc) (repp c t' b k time acc').
Proof.
  intros Hs. induction k as [|k IH]; intros time acc acc' Ha; [exact Ha|].
  cbn [repp]. cbv zeta. apply IH.
  rewrite (Qltb_compat t t' time time E (Qeq_refl _)).
  rewrite (Qltb_compat t t' (time + duration b) (time + duration b) E (Qeq_refl _)).
  destruct (negb (Qltb t' time) && Qltb t' (time + duration b)); [|exact Ha].
  apply Hs. rewrite E. reflexivity.
Qed.

(* ------------------------------------------------------------------------------------------------------------------ *)
Theorem sample_proper : forall w c t t', t == t' -> oQeq (sample w c t) (sample w c t').
Proof.
  induction w using wf_ind'; intros ch t t' E.
  - cbn [sample]. apply table_at_compat; [exact E|exact I].
  - cbn. reflexivity.
  - cbn. apply poly_at_compat; exact E.
  - rewrite !sample_seq. apply seqp_compat; [exact E| |exact I]. exact H.
  - cbn [sample]. induction H as [|s r Hs _ IH]; [exact I|].
    destruct (inb ch (channels s)); [apply Hs; exact E|exact IH].
  - rewrite !sample_rep. apply repp_compat; [exact E|exact IHw|exact I].
  - cbn [sample]. destruct (t_in T [ch]) as [ins|]; [|exact I].
    assert (Hd : deq (map (fun ic => (ic, sample w ic t)) ins) (map (fun ic => (ic, sample w ic t')) ins)).
    { induction ins as [|ic ins IH]; cbn; constructor; auto. split; [reflexivity|]. cbn. apply IHw; exact E. }
    pose proof (t_point_compat T t t' _ _ E Hd) as Hp.
    destruct (t_point T t _) as [o1|], (t_point T t' _) as [o2|]; cbn in Hp; try tauto.
    apply deq_lookup_flat; exact Hp.
  - cbn [sample]. apply IHw; exact E.
  - cbn [sample]. destruct (inb ch (channels w1)), (inb ch (channels w2)).
    + apply omap2_compat; auto. intros x x' y y' H1 H2; apply aop_at_compat; assumption.
    + apply IHw1; exact E.
    + apply omap_compat; auto. intros x x' H1; apply aop_rhs_compat; assumption.
    + apply omap_compat; auto. intros x x' H1; apply aop_rhs_compat; assumption.
  - cbn [sample]. destruct (lookup ch f) as [g|]; [|exact I].
    apply omap_compat; auto. intros x x' H1; apply functor_at_compat; assumption.
  - cbn [sample]. apply IHw. rewrite E. reflexivity.
Qed.

(* ------------------------------------------------------------------------------------------------------------------ *)
(* reversal: w.reversed() sampled at t is w at duration - t; reversing twice is the identity (on samples) *)

Theorem reversed_mirror : forall w c t, oQeq (sample (reversed w) c t) (sample w c (duration w - t)).
Proof.
  intros w c t. destruct w; try apply oQeq_refl.
  (* w = WRev i: reversed gives i back *)
  cbn [reversed sample duration]. apply sample_proper. lra.
Qed.

Theorem reversed_involution : forall w c t, oQeq (sample (reversed (reversed w)) c t) (sample w c t).
Proof.
  intros w c t. destruct w; try apply oQeq_refl.
  destruct w; try apply oQeq_refl.
  (* w = WRev (WRev j) *)
  cbn [reversed sample duration]. apply sample_proper. lra.
Qed.

Example reversed_laws_example :
  let j := WSeq [WTable 1%N [mkE 0 1 Hold; mkE (1#2) 2 Linear]; WConst (1#2) 3 1%N] in
  let w := WRev (WRev j) in
  oQeqb (sample (reversed (reversed w)) 1%N (1#4)) (sample w 1%N (1#4)) = true /\
  oQeqb (sample (reversed w) 1%N (1#4)) (sample w 1%N (duration w - (1#4))) = true /\
  oQeqb (sample w 1%N (1#4)) (Some (3#2)) = true.
Proof. vm_compute. repeat split; reflexivity. Qed.
