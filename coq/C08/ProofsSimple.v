(* C08 — transformations without a LinearTransformation (identity / scaling / offset / parallel-channel / chains of them)
   act channel by channel: the value of an output channel depends only on the value of the same input channel.
   Consequence: TransformingWaveform.from_transformation (which transforms the COMPLETE constant dict) samples like
   the plain TransformingWaveform (which transforms the channels get_input_channels selects). *)
From Coq Require Import List ZArith QArith Qabs Bool Lia Lqa.
Require Import QV.C08.Model QV.C08.Spec QV.C08.Wf QV.C08.ProofsVec QV.C08.ProofsConst QV.C08.ProofsProper
               QV.C08.ProofsTrafo QV.C08.ProofsCtor QV.C08.ProofsConstT.
Import ListNotations.
Open Scope Q_scope.

Fixpoint simple (T : trafo) : bool :=
  match T with
  | TId | TScale _ | TOffset _ | TParallel _ => true
  | TLinear _ _ _ => false
  | TChain l => (fix all (l : list trafo) := match l with [] => true | x :: r => simple x && all r end) l
  end.
Lemma simple_all_Forall l :
  (fix all (l : list trafo) := match l with [] => true | x :: r => simple x && all r end) l = true ->
  Forall (fun x => simple x = true) l.
Proof.
  induction l as [|x r IH]; intros H; constructor.
  - apply andb_prop in H as [H _]; exact H.
  - apply IH. apply andb_prop in H as [_ H]; exact H.
Qed.

(* what happens to (the binding of) channel k *)
Fixpoint hfun (T : trafo) (t : Q) (k : chan) (x : option (option Q)) : option (option Q) :=
  match T with
  | TId | TLinear _ _ _ => x
  | TScale f => match x with
                | Some v => Some (match lookup k f with Some tv => omap (fun y => y * tval_at tv t) v | None => v end)
                | None => None
                end
  | TOffset f => match x with
                 | Some v => Some (match lookup k f with Some tv => omap (fun y => y + tval_at tv t) v | None => v end)
                 | None => None
                 end
  | TParallel cs => match lookup k cs with Some tv => Some (Some (tval_at tv t)) | None => x end
  | TChain l => (fix go (l : list trafo) (x : option (option Q)) := match l with [] => x | T1 :: r => go r (hfun T1 t k x) end) l x
  end.

Lemma lookup_filter_key {A} (p : chan -> bool) k (d : list (chan * A)) :
  lookup k (filter (fun kv => p (fst kv)) d) = if p k then lookup k d else None.
Proof.
  induction d as [|[a v] r IH]; [destruct (p k); reflexivity|]. cbn [filter fst].
  destruct (p a) eqn:Ea; cbn [lookup]; destruct (N.eqb k a) eqn:E.
  - apply N.eqb_eq in E. subst. rewrite Ea. reflexivity.
  - exact IH.
  - apply N.eqb_eq in E. subst. rewrite Ea in *. exact IH.
  - exact IH.
Qed.

Lemma simple_lookup : forall T, simple T = true -> forall t d,
  exists out, t_point T t d = Some out /\ forall k, lookup k out = hfun T t k (lookup k d).
Proof.
  induction T using trafo_ind'; intros Hs t d; cbn [simple] in Hs; try discriminate.
  - exists d. split; [reflexivity|]. reflexivity.
  - eexists. split; [reflexivity|]. intros k. cbn [hfun].
    rewrite (map_ext _ (fun kv : chan * option Q =>
      (fst kv, match lookup (fst kv) f with Some tv => omap (fun y => y * tval_at tv t) (snd kv) | None => snd kv end))).
    + rewrite (lookup_map_val (fun c v => match lookup c f with Some tv => omap (fun y => y * tval_at tv t) v | None => v end)).
      destruct (lookup k d); reflexivity.
    + intros [a v]. cbn. destruct (lookup a f); reflexivity.
  - eexists. split; [reflexivity|]. intros k. cbn [hfun].
    rewrite (map_ext _ (fun kv : chan * option Q =>
      (fst kv, match lookup (fst kv) f with Some tv => omap (fun y => y + tval_at tv t) (snd kv) | None => snd kv end))).
    + rewrite (lookup_map_val (fun c v => match lookup c f with Some tv => omap (fun y => y + tval_at tv t) v | None => v end)).
      destruct (lookup k d); reflexivity.
    + intros [a v]. cbn. destruct (lookup a f); reflexivity.
  - eexists. split; [reflexivity|]. intros k. cbn [hfun]. rewrite lookup_app.
    rewrite (lookup_map_val (fun (_ : chan) tv => Some (tval_at tv t))).
    destruct (lookup k f) as [tv|] eqn:L; [reflexivity|].
    rewrite (lookup_filter_key (fun c => negb (inb c (keys f)))).
    destruct (inb k (keys f)) eqn:E; [|reflexivity].
    destruct (lookup_in_keys k f E) as [g Hg]. congruence.
  - apply simple_all_Forall in Hs. cbn [t_point hfun]. revert d.
    induction H as [|x r Hx _ IH]; intros d.
    + exists d. split; reflexivity.
    + apply Forall_cons_iff in Hs as [S1 S2].
      destruct (Hx S1 t d) as [o1 [E1 L1]]. rewrite E1.
      destruct (IH S2 o1) as [o2 [E2 L2]]. exists o2. split; [exact E2|].
      intros k. rewrite L2, L1. reflexivity.
Qed.

(* get_input_channels of one channel: the channel itself, or nothing when a parallel transformation overwrites it *)
Lemma simple_t_in : forall T, simple T = true -> forall c t,
  (t_in T [] = Some []) /\
  ((t_in T [c] = Some [c]) \/ (t_in T [c] = Some [] /\ forall x y, hfun T t c x = hfun T t c y)).
Proof.
  induction T using trafo_ind'; intros Hs c t; cbn [simple] in Hs; try discriminate;
    try (split; [reflexivity|left; reflexivity]).
  - (* parallel *)
    split; [reflexivity|]. cbn [t_in diffb filter]. destruct (inb c (keys f)) eqn:E; cbn [negb].
    + right. split; [reflexivity|]. intros x y. cbn [hfun].
      destruct (lookup_in_keys c f E) as [g Hg]. rewrite Hg. reflexivity.
    + left. reflexivity.
  - (* chain *)
    apply simple_all_Forall in Hs. cbn [t_in hfun].
    induction H as [|T1 r H1 _ IH]; [split; [reflexivity|left; reflexivity]|].
    apply Forall_cons_iff in Hs as [S1 S2]. destruct (IH S2) as [IHnil IHc]. destruct (H1 S1 c t) as [H1nil H1c].
    split; [rewrite IHnil; exact H1nil|].
    destruct IHc as [IHc|[IHc Hconst]].
    + rewrite IHc. destruct H1c as [H1c|[H1c Hc1]].
      * left. exact H1c.
      * right. split; [exact H1c|]. intros x y. rewrite (Hc1 x y). reflexivity.
    + rewrite IHc. right. split; [exact H1nil|]. intros x y. apply Hconst.
Qed.

(* transforming the complete data or only the selected input channels gives the same binding for channel c *)
Lemma simple_restricted : forall T, simple T = true -> forall t c (f : chan -> option Q) ins full,
  t_in T [c] = Some ins -> lookup c full = Some (f c) ->
  exists o1 o2, t_point T t (map (fun ic => (ic, f ic)) ins) = Some o1 /\ t_point T t full = Some o2 /\
                lookup c o1 = lookup c o2.
Proof.
  intros T Hs t c f ins full Hin Hfull.
  destruct (simple_lookup T Hs t (map (fun ic => (ic, f ic)) ins)) as [o1 [E1 L1]].
  destruct (simple_lookup T Hs t full) as [o2 [E2 L2]].
  exists o1, o2. split; [exact E1|]. split; [exact E2|]. rewrite L1, L2, Hfull.
  destruct (simple_t_in T Hs c t) as [_ [Hc|[Hc Hconst]]]; rewrite Hc in Hin; injection Hin as <-.
  - cbn [map lookup]. rewrite N.eqb_refl. reflexivity.
  - apply Hconst.
Qed.

(* ---- from_transformation ---- *)
Theorem from_transformation_const_sound : forall w T d w', okb (WTrans w T) = true -> simple T = true ->
  cvd w = Some d -> t_const_inv T = true -> from_transformation w T = OK w' -> forall c t,
  inb c (channels (WTrans w T)) = true -> 0 <= t -> t < duration w ->
  oQeq (sample w' c t) (sample (WTrans w T) c t).
Proof.
  intros w T d w' Hok Hs Hd Hci H c t Hc H0 H1.
  pose proof Hok as Hok'. cbn [okb] in Hok'. apply andb_prop in Hok' as [Hokw Hout].
  unfold from_transformation in H. rewrite Hd, Hci in H. cbn [negb] in H.
  destruct (t_out T (channels w)) as [co|] eqn:Eo; [|discriminate].
  cbn [channels] in Hc. rewrite Eo in Hc.
  destruct (t_in_channels T (channels w) co c Eo Hc) as [ins [Ein Hins]].
  set (full := map (fun kv : chan * Q => (fst kv, Some (snd kv))) d) in *.
  destruct (simple_lookup T Hs 0 full) as [o2 [E2 L2]]. rewrite E2 in H.
  (* the constant the plain waveform reports for c *)
  assert (Hcvins : forall ic, inb ic ins = true -> exists v, cv w ic = Some v /\ lookup ic d = Some v).
  { intros ic Hic. destruct (cvd_sound w d Hokw Hd ic) as [Hin _]. destruct (Hin (Hins ic Hic)) as [L Hne].
    destruct (cv w ic) as [v|]; [eauto|congruence]. }
  set (f := fun ic => cv w ic).
  destruct (simple_lookup T Hs 0 (map (fun ic => (ic, f ic)) ins)) as [o1 [E1 L1]].
  assert (Hsame : lookup c o1 = lookup c o2).
  { rewrite L1, L2.
    destruct (simple_t_in T Hs c 0) as [_ [Hcc|[Hcc Hconst]]]; rewrite Hcc in Ein; injection Ein as <-.
    - cbn [map lookup]. rewrite N.eqb_refl. unfold f, full.
      destruct (Hcvins c) as [v [Hv Lv]]; [rewrite inb_cons, N.eqb_refl; reflexivity|].
      rewrite Hv. rewrite (lookup_map_val (fun (_ : chan) (x : Q) => Some x)), Lv. reflexivity.
    - apply Hconst. }
  (* cv of the plain transforming waveform *)
  assert (Hcv : cv (WTrans w T) c = match lookup c o1 with Some v => v | None => None end).
  { cbn [cv]. rewrite Hci, Ein. cbn [negb].
    assert (Hex : existsb (fun kv : chan * option Q => match snd kv with None => true | Some _ => false end)
                    (map (fun ic => (ic, cv w ic)) ins) = false).
    { clear -Hcvins. induction ins as [|ic ins IH]; [reflexivity|]. cbn [map existsb snd].
      destruct (Hcvins ic) as [v [Hv _]]; [rewrite inb_cons, N.eqb_refl; reflexivity|]. rewrite Hv. cbn.
      apply IH. intros k Hk. apply Hcvins. rewrite inb_cons, Hk, orb_true_r. reflexivity. }
    rewrite Hex. unfold f in E1. rewrite E1. reflexivity. }
  (* c is bound in the transformed complete dict *)
  destruct (lookup c o2) as [[v|]|] eqn:Lo2.
  - assert (L' : lookup c (map (fun kv : chan * option Q => (fst kv, match snd kv with Some v => v | None => 0 end)) o2) = Some v).
    { rewrite (lookup_map_val (fun (_ : chan) (x : option Q) => match x with Some v => v | None => 0 end)), Lo2. reflexivity. }
    rewrite (from_mapping_sample _ _ _ H c v t L').
    rewrite Hsame in Hcv. cbn in Hcv.
    destruct (cv_sound (WTrans w T) Hok c v t) as [v' [Hs' Hq]]; auto.
    + cbn [channels]. rewrite Eo. exact Hc.
    + rewrite Hs'. cbn. rewrite Qred_correct. symmetry; exact Hq.
  - (* a NaN constant cannot come out of finite constants: all inputs are Some *)
    exfalso.
    assert (Hall : all_some full).
    { unfold full, all_some. clear. induction d; cbn; constructor; auto. cbn. discriminate. }
    pose proof (t_point_all_some T 0 full o2 Hall E2) as Ho2. apply lookup_In' in Lo2.
    unfold all_some in Ho2. rewrite Forall_forall in Ho2. specialize (Ho2 _ Lo2). cbn in Ho2. congruence.
  - (* c would not be a channel of the transformed dict: but it is an output channel *)
    exfalso.
    (* output channels of a simple transformation: the input channels plus the parallel ones; c in co *)
    rewrite L2 in Lo2.
    destruct (simple_t_in T Hs c 0) as [_ [Hcc|[Hcc Hconst]]]; rewrite Hcc in Ein; injection Ein as <-.
    + (* c is an inner channel: it is bound in the complete dict *)
      destruct (Hcvins c) as [v [Hv Lv]]; [rewrite inb_cons, N.eqb_refl; reflexivity|].
      unfold full in Lo2. rewrite (lookup_map_val (fun (_ : chan) (x : Q) => Some x)), Lv in Lo2.
      clear -Hs Lo2. revert Lo2. generalize (Some v). intros x.
      assert (G : forall T, simple T = true -> forall x, hfun T 0 c (Some x) <> None).
      { clear. induction T using trafo_ind'; intros Hs x; cbn [simple] in Hs; try discriminate; cbn [hfun]; try discriminate.
        - destruct (lookup c f); discriminate.
        - apply simple_all_Forall in Hs. revert x. induction H as [|T1 r H1 _ IH]; intros x; [discriminate|].
          apply Forall_cons_iff in Hs as [S1 S2]. destruct (hfun T1 0 c (Some x)) eqn:E; [apply IH; exact S2|].
          exfalso. exact (H1 S1 x E). }
      intros Lo2. exact (G T Hs x Lo2).
    + (* c is overwritten by a parallel transformation: constant, and that constant is a binding *)
      rewrite (Hconst _ (Some None)) in Lo2.
      assert (G : forall T, simple T = true -> forall x, hfun T 0 c (Some x) <> None).
      { clear. induction T using trafo_ind'; intros Hs x; cbn [simple] in Hs; try discriminate; cbn [hfun]; try discriminate.
        - destruct (lookup c f); discriminate.
        - apply simple_all_Forall in Hs. revert x. induction H as [|T1 r H1 _ IH]; intros x; [discriminate|].
          apply Forall_cons_iff in Hs as [S1 S2]. destruct (hfun T1 0 c (Some x)) eqn:E; [apply IH; exact S2|].
          exfalso. exact (H1 S1 x E). }
      exact (G T Hs None Lo2).
Qed.

Example from_transformation_example :
  let w := WMulti [WConst 1 3 1%N; WConst 1 4 2%N] in
  let T := TChain [TScale [(1%N, TC 2)]; TParallel [(3%N, TC (1#2)); (2%N, TC 7)]; TOffset [(3%N, TC 1)]] in
  match from_transformation w T with
  | OK w' => oQeqb (sample w' 1%N (1#4)) (Some 6) && oQeqb (sample w' 2%N (1#4)) (Some 7) && oQeqb (sample w' 3%N (1#4)) (Some (3#2))
             && oQeqb (sample (WTrans w T) 3%N (1#4)) (Some (3#2)) && simple T && okb (WTrans w T)
  | _ => false
  end = true.
Proof. vm_compute. reflexivity. Qed.

(* ---- by-products: a channel that appears in the transformed data although the input did not have it comes from a
   parallel-channel transformation, and its value does not depend on the input at all ---- *)
Lemma hfun_none_const : forall T, simple T = true -> forall t k,
  hfun T t k None <> None -> forall x y, hfun T t k x = hfun T t k y.
Proof.
  induction T using trafo_ind'; intros Hs t k Hn x y; cbn [simple] in Hs; try discriminate; cbn [hfun] in *;
    try (exfalso; apply Hn; reflexivity).
  - destruct (lookup k f); [reflexivity|exfalso; apply Hn; reflexivity].
  - apply simple_all_Forall in Hs. revert x y Hn.
    induction H as [|T1 r H1 _ IH]; intros x y Hn; [exfalso; apply Hn; reflexivity|].
    apply Forall_cons_iff in Hs as [S1 S2].
    destruct (hfun T1 t k None) as [z|] eqn:E1.
    + rewrite (H1 S1 t k (fun A => ltac:(rewrite E1 in A; discriminate)) x y). reflexivity.
    + (* the rest of the chain produces the binding *)
      assert (Hc : forall u v, (fix go (l : list trafo) (x : option (option Q)) := match l with [] => x | T1 :: r => go r (hfun T1 t k x) end) r u
                             = (fix go (l : list trafo) (x : option (option Q)) := match l with [] => x | T1 :: r => go r (hfun T1 t k x) end) r v)
        by (intros u v; apply IH; [exact S2|exact Hn]).
      apply Hc.
Qed.

(* the binding of k in the transformed data, computed from the inputs selected for c or from those selected for k *)
Lemma simple_byproduct : forall T, simple T = true -> forall t c k (f : chan -> option Q) insc insk o1,
  t_in T [c] = Some insc -> t_in T [k] = Some insk ->
  t_point T t (map (fun ic => (ic, f ic)) insc) = Some o1 -> lookup k o1 <> None ->
  exists o2, t_point T t (map (fun ic => (ic, f ic)) insk) = Some o2 /\ lookup k o2 = lookup k o1.
Proof.
  intros T Hs t c k f insc insk o1 Hc Hk E1 Hne.
  destruct (simple_lookup T Hs t (map (fun ic => (ic, f ic)) insc)) as [o1' [E1' L1]].
  rewrite E1 in E1'. injection E1' as <-.
  destruct (simple_lookup T Hs t (map (fun ic => (ic, f ic)) insk)) as [o2 [E2 L2]].
  exists o2. split; [exact E2|]. rewrite L1, L2. rewrite L1 in Hne.
  destruct (simple_t_in T Hs c t) as [_ [Hcc|[Hcc Hcconst]]]; rewrite Hcc in Hc; injection Hc as <-;
  destruct (simple_t_in T Hs k t) as [_ [Hkk|[Hkk Hkconst]]]; rewrite Hkk in Hk; injection Hk as <-.
  - (* both selected: data [c] vs data [k] *)
    cbn [map lookup] in *. rewrite N.eqb_refl. destruct (N.eqb k c) eqn:E.
    + apply N.eqb_eq in E. subst. reflexivity.
    + apply (hfun_none_const T Hs t k Hne).
  - apply Hkconst.
  - cbn [map lookup] in *. rewrite N.eqb_refl. apply (hfun_none_const T Hs t k Hne).
  - apply Hkconst.
Qed.
