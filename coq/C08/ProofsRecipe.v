(* C08 — the composed statement over construction recipes: for a recipe without transformations, reversal and
   get_subset_for_channels nodes, the waveform the real constructors build (optimising or plain at every node:
   from_table, from_sequence, from_parallel, from_repetition_count, from_operator, from_functor, -w, SubsetWaveform)
   is well formed and samples like the PLAIN composite the recipe describes on [0, duration), has its channels and
   its duration.  (With reversal the unguarded statement is refuted: ProofsR2.constructors_refuted_ex.) *)
From Coq Require Import List ZArith QArith Qabs Bool Lia Lqa Permutation.
Require Import QV.C08.Model QV.C08.Spec QV.C08.Wf QV.C08.ProofsVec QV.C08.ProofsConst QV.C08.ProofsProper
               QV.C08.ProofsTrafo QV.C08.ProofsCtor QV.C08.ProofsPar QV.C08.ProofsFlat QV.C08.ProofsDen QV.C08.ProofsOp
               QV.C08.ProofsTable QV.C08.ProofsDedup QV.C08.ProofsMirror QV.C08.ProofsOkb QV.C08.ProofsSubset.
Import ListNotations.
Open Scope Q_scope.

(* ---- from_table returns a well-formed waveform ---- *)
Lemma tvf_snoc : forall l a p c, table_valid_from a (l ++ [p]) = true -> e_t p <= e_t c ->
  table_valid_from a ((l ++ [p]) ++ [c]) = true.
Proof.
  induction l as [|x l IH]; intros a p c H Hpc; cbn [app table_valid_from] in *.
  - apply andb_prop in H as [H1 _]. rewrite H1. cbn. rewrite andb_true_r. apply Qle_bool_iff. exact Hpc.
  - apply andb_prop in H as [H1 H2]. rewrite H1. cbn [andb]. exact (IH _ _ _ H2 Hpc).
Qed.
Lemma last_t_snoc l c : last_t (l ++ [c]) = e_t c.
Proof. induction l as [|x l IH]; [reflexivity|]. destruct l; [reflexivity|exact IH]. Qed.

Lemma validate_loop_valid : forall rest out p cur cv t',
  validate_loop rest (e_t p) (e_v p) cur cv (out ++ [p]) = OK (inr t') ->
  table_valid_from 0 (out ++ [p]) = true -> e_t p <= e_t cur ->
  (exists tail, t' = (out ++ [p]) ++ tail /\ tail <> []) /\ table_valid_from 0 t' = true /\ Qeq_bool (last_t t') 0 = false.
Proof.
  induction rest as [|nx rest IH]; intros out p cur cv t' H Hs Hpc; cbn [validate_loop] in H.
  - destruct (Qeq_bool (e_t cur) 0) eqn:E0; [discriminate|]. destruct cv; [discriminate|]. injection H as <-.
    split; [exists [cur]; split; [reflexivity|discriminate]|]. split; [apply tvf_snoc; assumption|]. rewrite last_t_snoc. exact E0.
  - destruct (Qltb (e_t nx) (e_t cur)) eqn:Elt; [discriminate|].
    assert (Hcn : e_t cur <= e_t nx) by (unfold Qltb in Elt; apply negb_false_iff in Elt; apply Qle_bool_iff in Elt; exact Elt).
    match type of H with (if ?k then _ else _) = _ => destruct k end.
    + destruct (IH (out ++ [p]) cur nx _ t' H (tvf_snoc _ _ _ _ Hs Hpc) Hcn) as [[tail [E Hne]] [V L]].
      split; [|split; assumption]. exists (cur :: tail). split; [|discriminate]. rewrite E, <- app_assoc. reflexivity.
    + apply (IH out p nx _ t' H Hs). lra.
Qed.

Theorem from_table_good c tab w' : from_table c tab = OK w' -> good w'.
Proof.
  intros H. unfold from_table in H. destruct (validate_input tab) as [[[d v]|t']|] eqn:Ev; cbn [bind] in H; try discriminate.
  - injection H as <-. destruct (validate_const_sound tab d v Ev) as [Hv [Hd _]]. split; [|reflexivity].
    cbn. apply Qltb_true. rewrite Qred_correct, Hd. unfold table_valid in Hv. destruct tab as [|e0 [|e1 r]]; try discriminate.
    apply andb_prop in Hv as [_ Hv]. unfold Qltb in Hv. apply negb_true_iff in Hv.
    destruct (Qlt_le_dec 0 (last_t (e0 :: e1 :: r))) as [L|G]; [exact L|]. apply Qle_bool_iff in G. congruence.
  - injection H as <-. split; [|reflexivity]. cbn [okb].
    unfold validate_input in Ev. destruct tab as [|e0 [|e1 rest]]; try discriminate.
    + destruct (negb (Qeq_bool (e_t e0) 0)); discriminate.
    + destruct (Qeq_bool (e_t e0) 0); cbn [negb] in Ev; [|discriminate].
      destruct (Qltb (e_t e1) 0) eqn:E1; [discriminate|].
      unfold Qltb in E1. apply negb_false_iff in E1. apply Qle_bool_iff in E1.
      set (p := mkE 0 (e_v e0) (e_i e0)) in *.
      destruct (validate_loop_valid rest [] p e1 _ t' Ev) as [[tail [E Hne]] [V L]]; [reflexivity|exact E1|].
      cbn [app] in E. destruct tail as [|x tl]; [congruence|]. subst t'. unfold table_valid.
      change (e_t p) with 0. rewrite V. cbn [Qeq_bool andb]. unfold Qltb. apply negb_true_iff.
      destruct (Qle_bool (last_t (p :: x :: tl)) 0) eqn:Ele; auto. exfalso. apply Qle_bool_iff in Ele.
      (* the last time is >= 0 in a table sorted from 0 *)
      assert (Hge : forall l a, table_valid_from a l = true -> l <> [] -> a <= last_t l).
      { induction l as [|y l IHl]; intros a Hv Hl; [congruence|]. cbn [table_valid_from] in Hv. apply andb_prop in Hv as [A B].
        apply Qle_bool_iff in A. destruct l as [|z l']; [exact A|]. change (last_t (y :: z :: l')) with (last_t (z :: l')).
        specialize (IHl (e_t y) B ltac:(discriminate)). lra. }
      pose proof (Hge _ 0 V ltac:(discriminate)) as G.
      assert (Hz : last_t (p :: x :: tl) == 0) by lra. apply Qeq_bool_iff in Hz. congruence.
Qed.

(* ---- from_operator returns a well-formed waveform ---- *)
Lemma keys_op_step o acc kv : keys (op_step o acc kv) = match lookup (fst kv) acc with Some _ => keys acc | None => keys acc ++ [fst kv] end.
Proof.
  unfold op_step, keys. destruct (lookup (fst kv) acc).
  - rewrite map_map. apply map_ext. intros [a x]. cbn. destruct (N.eqb a (fst kv)); reflexivity.
  - rewrite map_app. reflexivity.
Qed.
Lemma op_fold_nodup o : forall dr acc, NoDup (keys acc) -> NoDup (keys (fold_left (op_step o) dr acc)).
Proof.
  induction dr as [|kv dr IH]; intros acc Hn; [exact Hn|]. cbn [fold_left]. apply IH. rewrite keys_op_step.
  destruct (lookup (fst kv) acc) eqn:L; [exact Hn|]. apply NoDup_app'; [exact Hn|constructor; [intros []|constructor]|].
  intros x Hx [<-|[]]. apply inb_In in Hx. destruct (lookup_in_keys _ _ Hx) as [g Hg]. congruence.
Qed.
Lemma op_fold_keys o c dr acc : NoDup (keys dr) -> inb c (keys (fold_left (op_step o) dr acc)) = inb c (keys acc) || inb c (keys dr).
Proof.
  intros Hn. rewrite !inb_keys_lookup', (lookup_op_fold o c dr acc Hn).
  destruct (lookup c dr), (lookup c acc); reflexivity.
Qed.

Lemma isclose_eq a b : a == b -> isclose a b = true.
Proof.
  intros E. unfold isclose. apply Qle_bool_iff. setoid_replace (a - b) with 0 by lra. cbn.
  unfold Qmaxb. destruct (Qle_bool (Qabs a) (Qabs b)); apply Qabs_nonneg.
Qed.

Theorem from_operator_good l o r w' : good l -> good r -> duration l == duration r -> from_operator l o r = OK w' ->
  good w' /\ (forall c, inb c (channels w') = inb c (channels (WArith l o r))) /\ duration w' == duration l.
Proof.
  intros [Hol Hcl] [Hor Hcr] Hd H. unfold from_operator in H.
  destruct (cvd l) as [dl|] eqn:El; [destruct (cvd r) as [dr|] eqn:Er|].
  - change (fold_left (fun acc kv => match lookup (fst kv) acc with
                                     | Some lv => map (fun kv' => if N.eqb (fst kv') (fst kv) then (fst kv', aop_at o lv (snd kv)) else kv') acc
                                     | None => acc ++ [(fst kv, aop_rhs_only o (snd kv))] end) dr dl)
      with (fold_left (op_step o) dr dl) in H.
    rewrite (isclose_eq _ _ Hd) in H.
    pose proof (cvd_nodup l dl Hol Hcl El) as Nl. pose proof (cvd_nodup r dr Hor Hcr Er) as Nr.
    destruct (from_mapping_okb _ _ w' H (op_fold_nodup o dr dl Nl) (okb_pos l Hol)) as [A [B [C D]]].
    split; [split; assumption|]. split; [|exact D].
    intros c. rewrite C, (op_fold_keys o c dr dl Nr), (cvd_keys l dl Hol El), (cvd_keys r dr Hor Er). cbn [channels].
    rewrite inb_unionb. reflexivity.
  - unfold mk_arith in H. rewrite (isclose_eq _ _ Hd) in H. injection H as <-.
    split; [split; cbn [okb canonb]; rewrite ?Hol, ?Hor, ?Hcl, ?Hcr; cbn [andb]; auto; apply Qeq_bool_iff; exact Hd|].
    split; [reflexivity|reflexivity].
  - unfold mk_arith in H. rewrite (isclose_eq _ _ Hd) in H. injection H as <-.
    split; [split; cbn [okb canonb]; rewrite ?Hol, ?Hor, ?Hcl, ?Hcr; cbn [andb]; auto; apply Qeq_bool_iff; exact Hd|].
    split; [reflexivity|reflexivity].
Qed.

(* ---- equivalence with the plain composite ---- *)
Definition Eqv (w wp : wf) : Prop :=
  (forall c, inb c (channels w) = inb c (channels wp)) /\ duration w == duration wp /\
  forall c t, inb c (channels wp) = true -> 0 <= t -> t < duration wp -> oQeq (sample w c t) (sample wp c t).
Definition Rel (w wp : wf) : Prop := good w /\ okb wp = true /\ Eqv w wp.

Lemma Eqv_refl w : Eqv w w.
Proof. split; [reflexivity|]. split; [reflexivity|intros; apply oQeq_refl]. Qed.
Lemma Eqv_trans a b c : Eqv a b -> Eqv b c -> Eqv a c.
Proof.
  intros [A1 [A2 A3]] [B1 [B2 B3]]. split; [intros k; rewrite A1; apply B1|]. split; [rewrite A2; exact B2|].
  intros k t Hk H0 H1. eapply oQeq_trans; [apply A3|apply B3]; auto; [rewrite B1; exact Hk|rewrite B2; exact H1].
Qed.

Lemma Forall2_flip {A B} (R : A -> B -> Prop) l l' : Forall2 R l l' -> Forall2 (fun b a => R a b) l' l.
Proof. induction 1; constructor; auto. Qed.

(* ---- sequence ---- *)
Lemma seq_congr ws wps : Forall2 Rel ws wps -> okb (WSeq wps) = true -> okb (WSeq ws) = true /\ Eqv (WSeq ws) (WSeq wps).
Proof.
  intros F Hokp. pose proof Hokp as Hokp'. cbn [okb] in Hokp'. apply andb_prop in Hokp' as [Hchs Hoks]. apply okb_all_Forall in Hoks.
  destruct F as [|x xp ws' wps' [Gx [Oxp Ex]] F']; [discriminate|].
  assert (Fall : Forall2 Rel (x :: ws') (xp :: wps')) by (constructor; [split; [exact Gx|split; assumption]|exact F']).
  assert (Hch1 : forall y, In y ws' -> forall c, inb c (channels y) = inb c (channels x)).
  { intros y Hy c. destruct (Forall2_In_l _ _ _ y F' Hy) as [yp [Hyp [_ [_ [Cy _]]]]]. rewrite Cy, (proj1 Ex c).
    rewrite forallb_forall in Hchs. apply set_eqb_inb. exact (Hchs yp Hyp). }
  assert (Hok : okb (WSeq (x :: ws')) = true).
  { cbn [okb]. apply andb_true_intro. split.
    - apply forallb_forall. intros y Hy. apply set_eqb_intro. apply Hch1; exact Hy.
    - refine (okb_Forall_all (x :: ws') _). apply Forall_forall. intros y Hy.
      destruct (Forall2_In_l _ _ _ y Fall Hy) as [yp [_ [[Oy _] _]]]. exact Oy. }
  split; [exact Hok|].
  assert (Hdur : Forall2 (fun xp x => duration x == duration xp) (xp :: wps') (x :: ws')).
  { apply Forall2_flip. clear -Fall. induction Fall as [|a b l l' [_ [_ [_ [D _]]]] _ IH]; constructor; auto. }
  split; [intros c; cbn [channels]; apply (proj1 Ex)|]. split; [rewrite !duration_seq; apply sumd_rel; exact Hdur|].
  intros c t Hc H0 H1. rewrite duration_seq in H1. rewrite !sample_seq.
  assert (Hnn : Forall (fun y => 0 <= duration y) (xp :: wps')).
  { eapply Forall_impl; [|exact Hoks]. intros y Hy. apply Qlt_le_weak, okb_pos; exact Hy. }
  assert (Hnn' : Forall (fun y => 0 <= duration y) (x :: ws')).
  { apply Forall_forall. intros y Hy. destruct (Forall2_In_l _ _ _ y Fall Hy) as [yp [_ [[Oy _] _]]]. apply Qlt_le_weak, okb_pos; exact Oy. }
  assert (Hin := seq_children_have_chan (xp :: wps') c Hchs Hc).
  destruct (At_exists _ Hnn 0 t) as [yp [u HA]]; [lra|lra|].
  assert (F3 : Forall2 (fun xp x => duration x == duration xp /\ Rel x xp) (xp :: wps') (x :: ws')).
  { apply Forall2_flip. clear -Fall. induction Fall as [|a b l l' R _ IH]; constructor; auto. split; [|exact R].
    destruct R as [_ [_ [_ [D _]]]]. exact D. }
  destruct (At_rel (fun xp x => Rel x xp) _ _ F3 0 0 t yp u (Qeq_refl 0) HA) as [y [u' [HA' [Hu Ry]]]].
  rewrite (seqp_At c _ 0 t y u' None Hnn' HA'), (seqp_At c _ 0 t yp u None Hnn HA).
  destruct (At_local _ _ _ _ _ HA) as [U0 U1].
  eapply oQeq_trans; [apply (sample_proper y c u' u Hu)|].
  destruct Ry as [_ [_ [_ [_ S]]]]. apply S; auto. rewrite Forall_forall in Hin. apply Hin. exact (At_In _ _ _ _ _ HA).
Qed.

(* ---- repetition ---- *)
Lemma rep_congr b bp n : Rel b bp -> (1 <= n)%Z -> Eqv (WRep b n) (WRep bp n).
Proof.
  intros [[Ob _] [Obp [C [D S]]]] Hn. split; [exact C|]. split; [cbn [duration]; rewrite D; reflexivity|].
  intros c t Hc H0 H1. cbn [channels] in Hc.
  set (k := Z.to_nat n).
  assert (HD : forall x, duration (WRep x n) == sumd (repeat x k)).
  { intros x. cbn [duration]. rewrite sumd_repeat, kq_mult. unfold k. rewrite Z2Nat.id by lia. reflexivity. }
  rewrite !sample_rep, !repp_seqp. fold k.
  assert (Hnn : Forall (fun y => 0 <= duration y) (repeat bp k)).
  { apply Forall_forall. intros y Hy. apply repeat_spec in Hy. subst y. apply Qlt_le_weak, okb_pos; exact Obp. }
  assert (Hnn' : Forall (fun y => 0 <= duration y) (repeat b k)).
  { apply Forall_forall. intros y Hy. apply repeat_spec in Hy. subst y. apply Qlt_le_weak, okb_pos; exact Ob. }
  destruct (At_exists _ Hnn 0 t) as [x [u HA]]; [lra|rewrite <- (HD bp); lra|].
  assert (F : Forall2 (fun x a => duration a == duration x /\ (x = bp /\ a = b)) (repeat bp k) (repeat b k))
    by (apply Forall2_repeat; auto).
  destruct (At_rel (fun x a => x = bp /\ a = b) _ _ F 0 0 t x u (Qeq_refl 0) HA) as [a [u' [HA' [Hu [-> ->]]]]].
  rewrite (seqp_At c _ 0 t b u' None Hnn' HA'), (seqp_At c _ 0 t bp u None Hnn HA).
  destruct (At_local _ _ _ _ _ HA) as [U0 U1].
  eapply oQeq_trans; [apply (sample_proper b c u' u Hu)|]. apply S; auto.
Qed.

(* ---- multi-channel ---- *)
Lemma mk_multi_sample L w' : mk_multi L = OK w' -> Forall good L -> (forall x y, In x L -> In y L -> duration x == duration y) ->
  forall c a t, In a L -> has c a = true -> sample w' c t = sample a c t.
Proof.
  intros H Hg Hd c a t Ha Hc. destruct (mk_multi_okb L w' H Hg Hd) as [_ [_ [_ [S [-> [HP Hov]]]]]].
  apply sample_multi_unique; auto; [exact (proj2 (overlap_free_unique c S [] Hov))|exact (Permutation_in _ (Permutation_sym HP) Ha)].
Qed.
Lemma flat_parts_good subs : Forall good subs -> (forall x y, In x subs -> In y subs -> duration x == duration y) ->
  Forall good (flat subs) /\ (forall x y, In x (flat subs) -> In y (flat subs) -> duration x == duration y) /\
  (forall y a, In a subs -> In y (flat [a]) -> duration y == duration a).
Proof.
  intros Hg Hd. rewrite Forall_forall in Hg.
  assert (P : forall y, In y (flat subs) -> good y /\ exists a, In a subs /\ duration y == duration a).
  { intros y Hy. unfold flat in Hy. apply in_flat_map in Hy as [a [Ha Hya]].
    destruct (is_multi a) as [s|] eqn:Em.
    - destruct a; try discriminate. cbn [is_multi] in Em. injection Em as ->.
      pose proof (good_multi_parts s (Hg _ Ha)) as Gp. rewrite Forall_forall in Gp. split; [apply Gp; exact Hya|].
      exists (WMulti s). split; [exact Ha|]. apply multi_part_duration; [exact (proj1 (Hg _ Ha))|exact Hya].
    - destruct Hya as [<-|[]]. split; [apply Hg; exact Ha|]. exists a. split; [exact Ha|reflexivity]. }
  split; [apply Forall_forall; intros y Hy; exact (proj1 (P y Hy))|]. split.
  - intros x y Hx Hy. destruct (P x Hx) as [_ [a [Ha Da]]]. destruct (P y Hy) as [_ [b [Hb Db]]]. rewrite Da, Db. apply Hd; assumption.
  - intros y a Ha Hy. unfold flat in Hy. cbn [flat_map] in Hy. rewrite app_nil_r in Hy.
    destruct (is_multi a) as [s|] eqn:Em.
    + destruct a; try discriminate. cbn [is_multi] in Em. injection Em as ->.
      apply multi_part_duration; [exact (proj1 (Hg _ Ha))|exact Hy].
    + destruct Hy as [<-|[]]. reflexivity.
Qed.
Lemma mk_multi_flat subs w' : Forall good subs -> (forall x y, In x subs -> In y subs -> duration x == duration y) ->
  mk_multi (flat subs) = OK w' ->
  good w' /\ (forall c, inb c (channels w') = existsb (has c) subs) /\ (forall a, In a subs -> duration w' == duration a) /\
  forall c a t, In a subs -> has c a = true -> sample w' c t = sample a c t.
Proof.
  intros Hg Hd H. destruct (flat_parts_good subs Hg Hd) as [Fg [Fd Fa]].
  destruct (mk_multi_okb (flat subs) w' H Fg Fd) as [Gw [Cw [Dw _]]].
  rewrite Forall_forall in Hg.
  split; [exact Gw|]. split; [intros c; rewrite Cw; apply existsb_has_flat|]. split.
  - intros a Ha. assert (Hex : exists y, In y (flat [a])).
    { unfold flat. cbn [flat_map]. rewrite app_nil_r. destruct (is_multi a) as [s|] eqn:Em; [|eexists; left; reflexivity].
      destruct a; try discriminate. cbn [is_multi] in Em. injection Em as ->.
      destruct s as [|z zr]; [destruct (Hg _ Ha) as [O _]; cbn in O; discriminate|]. exists z. left; reflexivity. }
    destruct Hex as [y Hy].
    assert (Hy' : In y (flat subs)).
    { unfold flat in *. apply in_flat_map. cbn [flat_map] in Hy. rewrite app_nil_r in Hy. exists a. split; assumption. }
    rewrite (Dw y Hy'). exact (Fa y a Ha Hy).
  - intros c a t Ha Hc. destruct (is_multi a) as [s|] eqn:Em.
    + destruct a; try discriminate. cbn [is_multi] in Em. injection Em as ->.
      rewrite has_multi in Hc. apply existsb_exists in Hc as [y [Hy Hcy]].
      assert (Hy' : In y (flat subs)) by (unfold flat; apply in_flat_map; exists (WMulti s); split; [exact Ha|exact Hy]).
      rewrite (mk_multi_sample _ w' H Fg Fd c y t Hy' Hcy). symmetry. apply sample_multi_unique; auto.
      exact (proj2 (overlap_free_unique c s [] (multi_overlap_free s (proj1 (Hg _ Ha))))).
    + apply (mk_multi_sample _ w' H Fg Fd c a t); [|exact Hc]. unfold flat. apply in_flat_map. exists a. split; [exact Ha|].
      rewrite Em. left; reflexivity.
Qed.

Lemma multi_rel ws wps w' : Forall2 Rel ws wps -> okb (WMulti wps) = true ->
  good w' -> (forall c, inb c (channels w') = existsb (has c) ws) -> (forall a, In a ws -> duration w' == duration a) ->
  (forall c a t, In a ws -> has c a = true -> sample w' c t = sample a c t) -> Rel w' (WMulti wps).
Proof.
  intros F Hokp Gw Cw Dw Sw. split; [exact Gw|]. split; [exact Hokp|].
  assert (Hex : forall c, existsb (has c) ws = existsb (has c) wps).
  { intros c. clear -F. induction F as [|a b l l' [_ [_ [C _]]] _ IH]; [reflexivity|]. cbn [existsb]. unfold has at 1 3. rewrite C, IH. reflexivity. }
  assert (Hne : wps <> []) by (intros ->; cbn in Hokp; discriminate).
  split; [intros c; rewrite Cw, Hex; change (inb c (channels (WMulti wps))) with (has c (WMulti wps)); rewrite has_multi; reflexivity|].
  split.
  - destruct wps as [|xp r]; [congruence|]. destruct (Forall2_In_r _ _ _ xp F (or_introl eq_refl)) as [x [Hx [_ [_ [_ [D _]]]]]].
    rewrite (Dw x Hx), D. reflexivity.
  - intros c t Hc H0 H1. change (has c (WMulti wps) = true) in Hc. rewrite has_multi in Hc. apply existsb_exists in Hc as [xp [Hxp Hcxp]].
    destruct (Forall2_In_r _ _ _ xp F Hxp) as [x [Hx [_ [_ [C [D S]]]]]].
    rewrite (Sw c x t Hx) by (unfold has; rewrite C; exact Hcxp).
    rewrite (sample_multi_unique wps c t xp (proj2 (overlap_free_unique c wps [] (multi_overlap_free wps Hokp))) Hxp Hcxp).
    apply S; auto. rewrite (multi_part_duration wps xp Hokp Hxp). exact H1.
Qed.

(* ---- arithmetic, functor, subset ---- *)
Lemma arith_congr a ap b bp o : Rel a ap -> Rel b bp -> duration ap == duration bp -> Eqv (WArith a o b) (WArith ap o bp).
Proof.
  intros [_ [_ [Ca [Da Sa]]]] [_ [_ [Cb [Db Sb]]]] Hd.
  split; [intros c; cbn [channels]; rewrite !inb_unionb, Ca, Cb; reflexivity|]. split; [exact Da|].
  intros c t Hc H0 H1. cbn [channels duration sample] in *. rewrite Ca, Cb. rewrite inb_unionb in Hc.
  destruct (inb c (channels ap)) eqn:E1, (inb c (channels bp)) eqn:E2; try discriminate.
  - apply omap2_compat; [intros x x' y y' X Y; apply aop_at_compat; assumption|apply Sa; auto|apply Sb; auto; lra].
  - apply Sa; auto.
  - apply omap_compat; [intros x x' X; apply aop_rhs_compat; exact X|apply Sb; auto; lra].
Qed.
Lemma functor_congr w wp f1 f : Rel w wp -> (forall c, lookup c f1 = lookup c f) -> Eqv (WFunctor w f1) (WFunctor wp f).
Proof.
  intros [_ [_ [C [D S]]]] Hl. split; [exact C|]. split; [exact D|].
  intros c t Hc H0 H1. cbn [channels duration sample] in *. rewrite Hl. destruct (lookup c f); [|exact I].
  apply omap_compat; [intros x x' X; apply functor_at_compat; exact X|apply S; auto].
Qed.
Lemma mk_functor_good w f w' : good w -> mk_functor w f = OK w' -> good w' /\ w' = WFunctor w (canon_kv f).
Proof.
  intros [Hok Hcan] H. unfold mk_functor in H. destruct (set_eqb (keys f) (channels w)) eqn:Hk; [|discriminate]. injection H as <-.
  split; [|reflexivity]. split; cbn [okb canonb]; auto. rewrite Hok. cbn [andb]. apply set_eqb_intro. intros c.
  rewrite keys_canon_kv. apply set_eqb_inb. exact Hk.
Qed.

Lemma mk_subset_good w cs : good w -> cs <> [] -> subsetb cs (channels w) = true -> good (mk_subset w cs).
Proof.
  intros [Hok Hcan] Hne Hsub. split.
  - unfold mk_subset. cbn [okb]. rewrite Hok. cbn [andb]. apply andb_true_intro. split.
    + apply subsetb_sub. intros c Hc. rewrite inb_canon_cs in Hc. exact (subsetb_inb _ _ _ Hsub Hc).
    + destruct (canon_cs cs) eqn:E; [|reflexivity]. destruct (nonempty_has cs Hne) as [e He].
      rewrite <- (inb_canon_cs e cs), E in He. discriminate.
  - apply mk_subset_canon. exact Hcan.
Qed.

(* ---- recipes ---- *)
Section RecipeInd.
  Variable P : recipe -> Prop.
  Hypothesis HTable : forall b c tab, P (RTable b c tab).
  Hypothesis HConst : forall d v c, P (RConst d v c).
  Hypothesis HFunc : forall k d c, P (RFunc k d c).
  Hypothesis HSeq : forall o l, Forall P l -> P (RSeq o l).
  Hypothesis HMulti : forall o l, Forall P l -> P (RMulti o l).
  Hypothesis HRep : forall o b n, P b -> P (RRep o b n).
  Hypothesis HTrans : forall o r T, P r -> P (RTrans o r T).
  Hypothesis HSubset : forall r cs, P r -> P (RSubset r cs).
  Hypothesis HGetSubset : forall r cs, P r -> P (RGetSubset r cs).
  Hypothesis HArith : forall o l op r, P l -> P r -> P (RArith o l op r).
  Hypothesis HFunctor : forall o r f, P r -> P (RFunctor o r f).
  Hypothesis HNeg : forall r, P r -> P (RNeg r).
  Hypothesis HRev : forall r, P r -> P (RRev r).
  Hypothesis HFrom : forall r, P r -> P (RFromToReverse r).
  Hypothesis HReversed : forall r, P r -> P (RReversed r).
  Fixpoint recipe_ind' (r : recipe) : P r :=
    match r with
    | RTable b c tab => HTable b c tab
    | RConst d v c => HConst d v c
    | RFunc k d c => HFunc k d c
    | RSeq o l => HSeq o l ((fix go (l : list recipe) : Forall P l :=
                               match l with [] => Forall_nil P | x :: r => Forall_cons x (recipe_ind' x) (go r) end) l)
    | RMulti o l => HMulti o l ((fix go (l : list recipe) : Forall P l :=
                                   match l with [] => Forall_nil P | x :: r => Forall_cons x (recipe_ind' x) (go r) end) l)
    | RRep o b n => HRep o b n (recipe_ind' b)
    | RTrans o r T => HTrans o r T (recipe_ind' r)
    | RSubset r cs => HSubset r cs (recipe_ind' r)
    | RGetSubset r cs => HGetSubset r cs (recipe_ind' r)
    | RArith o l op r => HArith o l op r (recipe_ind' l) (recipe_ind' r)
    | RFunctor o r f => HFunctor o r f (recipe_ind' r)
    | RNeg r => HNeg r (recipe_ind' r)
    | RRev r => HRev r (recipe_ind' r)
    | RFromToReverse r => HFrom r (recipe_ind' r)
    | RReversed r => HReversed r (recipe_ind' r)
    end.
End RecipeInd.

(* no transformation, no reversal, no get_subset_for_channels node *)
Fixpoint plainR (r : recipe) : bool :=
  match r with
  | RTable _ _ _ | RConst _ _ _ | RFunc _ _ _ => true
  | RSeq _ l | RMulti _ l => (fix all (l : list recipe) := match l with [] => true | x :: r => plainR x && all r end) l
  | RRep _ b _ | RSubset b _ | RFunctor _ b _ | RNeg b => plainR b
  | RArith _ l _ r => plainR l && plainR r
  | RTrans _ _ _ | RGetSubset _ _ | RRev _ | RFromToReverse _ | RReversed _ => false
  end.
Lemma plainR_all_Forall l :
  (fix all (l : list recipe) := match l with [] => true | x :: r => plainR x && all r end) l = true -> Forall (fun x => plainR x = true) l.
Proof.
  induction l as [|x r IH]; intros H; constructor.
  - apply andb_prop in H as [H _]; exact H.
  - apply IH. apply andb_prop in H as [_ H]; exact H.
Qed.

Fixpoint blist (l : list recipe) : res (list wf) :=
  match l with [] => OK [] | x :: r => TRY a <- build x;; TRY b <- blist r;; OK (a :: b) end.
Fixpoint bplist (l : list recipe) : res (list wf) :=
  match l with [] => OK [] | x :: r => TRY a <- build_plain x;; TRY b <- bplist r;; OK (a :: b) end.
Lemma build_seq o l : build (RSeq o l) = (TRY ws <- blist l;; if o then from_sequence ws else mk_seq ws).
Proof. reflexivity. Qed.
Lemma build_multi o l : build (RMulti o l) = (TRY ws <- blist l;; if o then from_parallel ws else mk_multi ws).
Proof. reflexivity. Qed.
Lemma build_plain_seq o l : build_plain (RSeq o l) =
  (TRY ws <- bplist l;; match ws with
                        | [] => Err EValue
                        | x :: rest => if forallb (fun y => set_eqb (channels y) (channels x)) rest then OK (WSeq ws) else Err EValue
                        end).
Proof. reflexivity. Qed.
Lemma build_plain_multi o l : build_plain (RMulti o l) =
  (TRY ws <- bplist l;; match ws with
                        | [] => Err EValue
                        | x :: rest => if overlap_free ws [] && forallb (fun y => Qeq_bool (duration y) (duration x)) rest
                                       then OK (WMulti ws) else Err EValue
                        end).
Proof. reflexivity. Qed.

Lemma lists_rel l : Forall (fun r => plainR r = true -> forall w wp, build r = OK w -> build_plain r = OK wp -> Rel w wp) l ->
  Forall (fun x => plainR x = true) l -> forall ws wps, blist l = OK ws -> bplist l = OK wps -> Forall2 Rel ws wps.
Proof.
  induction 1 as [|x r Hx _ IH]; intros Hp ws wps H1 H2; cbn [blist bplist] in *.
  - injection H1 as <-. injection H2 as <-. constructor.
  - apply Forall_cons_iff in Hp as [P1 P2].
    destruct (build x) as [a|] eqn:Ea; cbn [bind] in H1; [|discriminate].
    destruct (blist r) as [b|] eqn:Eb; cbn [bind] in H1; [|discriminate]. injection H1 as <-.
    destruct (build_plain x) as [ap|] eqn:Eap; cbn [bind] in H2; [|discriminate].
    destruct (bplist r) as [bp|] eqn:Ebp; cbn [bind] in H2; [|discriminate]. injection H2 as <-.
    constructor; [exact (Hx P1 a ap eq_refl eq_refl)|exact (IH P2 b bp eq_refl eq_refl)].
Qed.
Lemma Forall2_good ws wps : Forall2 Rel ws wps -> Forall good ws.
Proof. induction 1 as [|a b l l' [G _] _ IH]; constructor; auto. Qed.

Theorem build_rel : forall r, plainR r = true -> forall w wp, build r = OK w -> build_plain r = OK wp -> Rel w wp.
Proof.
  induction r using recipe_ind'; intros Hp w wp Hb Hbp; cbn [plainR] in Hp; try discriminate.
  - (* table *)
    cbn [build_plain] in Hbp. destruct (table_valid tab) eqn:Hv; [|discriminate]. injection Hbp as <-.
    destruct b; cbn [build] in Hb.
    + destruct (from_table_dedup_sound c tab w Hb) as [D [C S]].
      split; [exact (from_table_good c tab w Hb)|]. split; [exact Hv|]. split; [intros k; rewrite C; reflexivity|].
      split; [exact D|]. intros k t Hk H0 H1. apply inb_single in Hk. subst k. apply S; auto.
    + injection Hb as <-. split; [split; [exact Hv|reflexivity]|]. split; [exact Hv|apply Eqv_refl].
  - (* constant *)
    cbn in Hb, Hbp. destruct (Qltb 0 d) eqn:E; [|discriminate]. injection Hb as <-. injection Hbp as <-.
    split; [split; [exact E|reflexivity]|]. split; [exact E|apply Eqv_refl].
  - cbn in Hb, Hbp. destruct (Qltb 0 d) eqn:E; [|discriminate]. injection Hb as <-. injection Hbp as <-.
    split; [split; [exact E|reflexivity]|]. split; [exact E|apply Eqv_refl].
  - (* sequence *)
    apply plainR_all_Forall in Hp. rewrite build_seq in Hb. rewrite build_plain_seq in Hbp.
    destruct (blist l) as [ws|] eqn:Ews; cbn [bind] in Hb; [|discriminate].
    destruct (bplist l) as [wps|] eqn:Ewps; cbn [bind] in Hbp; [|discriminate].
    pose proof (lists_rel l H Hp ws wps Ews Ewps) as F.
    destruct wps as [|xp rest]; [discriminate|].
    destruct (forallb (fun y => set_eqb (channels y) (channels xp)) rest) eqn:Echk; [|discriminate]. injection Hbp as <-.
    assert (Hokp : okb (WSeq (xp :: rest)) = true).
    { cbn [okb]. rewrite Echk. cbn [andb]. refine (okb_Forall_all (xp :: rest) _). apply Forall_forall. intros y Hy.
      destruct (Forall2_In_r _ _ _ y F Hy) as [x [_ [_ [O _]]]]. exact O. }
    destruct (seq_congr ws _ F Hokp) as [Hok E].
    pose proof (Forall2_good _ _ F) as Gws.
    assert (Hcan : Forall (fun x => canonb x = true) ws) by (eapply Forall_impl; [|exact Gws]; intros y [_ Cy]; exact Cy).
    destruct o.
    + destruct (from_sequence_okb ws w Hok Hcan Hb) as [Gw [Cw Dw]].
      split; [exact Gw|]. split; [exact Hokp|]. apply (Eqv_trans _ (WSeq ws)); [|exact E].
      split; [exact Cw|]. split; [rewrite Dw, duration_seq; reflexivity|].
      intros c t Hc H0 H1. exact (from_sequence_sound ws w Hok Hb c t Hc H0 H1).
    + unfold mk_seq in Hb. destruct ws as [|x r]; [discriminate|].
      destruct (forallb (fun y => set_eqb (channels y) (channels x)) r); [|discriminate]. injection Hb as <-.
      split; [split; [exact Hok|exact (canonb_Forall_all (x :: r) Hcan)]|]. split; [exact Hokp|exact E].
  - (* multi-channel *)
    apply plainR_all_Forall in Hp. rewrite build_multi in Hb. rewrite build_plain_multi in Hbp.
    destruct (blist l) as [ws|] eqn:Ews; cbn [bind] in Hb; [|discriminate].
    destruct (bplist l) as [wps|] eqn:Ewps; cbn [bind] in Hbp; [|discriminate].
    pose proof (lists_rel l H Hp ws wps Ews Ewps) as F.
    destruct wps as [|xp rest]; [discriminate|].
    destruct (overlap_free (xp :: rest) [] && forallb (fun y => Qeq_bool (duration y) (duration xp)) rest) eqn:Echk; [|discriminate].
    injection Hbp as <-. apply andb_prop in Echk as [Hov Hdur].
    assert (Hokp : okb (WMulti (xp :: rest)) = true).
    { cbn [okb]. rewrite Hdur, Hov. cbn [andb]. refine (okb_Forall_all (xp :: rest) _). apply Forall_forall. intros y Hy.
      destruct (Forall2_In_r _ _ _ y F Hy) as [x [_ [_ [O _]]]]. exact O. }
    pose proof (Forall2_good _ _ F) as Gws.
    assert (Hd : forall x y, In x ws -> In y ws -> duration x == duration y).
    { intros x y Hx Hy. destruct (Forall2_In_l _ _ _ x F Hx) as [x' [Hx' [_ [_ [_ [Dx _]]]]]].
      destruct (Forall2_In_l _ _ _ y F Hy) as [y' [Hy' [_ [_ [_ [Dy _]]]]]].
      rewrite Dx, Dy, (multi_part_duration _ x' Hokp Hx'), (multi_part_duration _ y' Hokp Hy'). reflexivity. }
    destruct o.
    + unfold from_parallel in Hb. destruct ws as [|x [|y r]]; [discriminate| |].
      * injection Hb as <-. apply (multi_rel [x] _ x F Hokp).
        -- apply Forall_cons_iff in Gws as [G _]. exact G.
        -- intros c. cbn [existsb]. rewrite orb_false_r. reflexivity.
        -- intros a [<-|[]]. reflexivity.
        -- intros c a t [<-|[]] _. reflexivity.
      * change (flat_map (fun w => match is_multi w with Some s => s | None => [w] end) (x :: y :: r)) with (flat (x :: y :: r)) in Hb.
        destruct (mk_multi_flat _ w Gws Hd Hb) as [Gw [Cw [Dw Sw]]]. exact (multi_rel _ _ w F Hokp Gw Cw Dw Sw).
    + destruct (mk_multi_okb ws w Hb Gws Hd) as [Gw [Cw [Dw _]]].
      exact (multi_rel _ _ w F Hokp Gw Cw Dw (mk_multi_sample ws w Hb Gws Hd)).
  - (* repetition *)
    cbn [build build_plain] in Hb, Hbp.
    destruct (build r) as [b|] eqn:Eb; cbn [bind] in Hb; [|discriminate].
    destruct (build_plain r) as [bp|] eqn:Ebp; cbn [bind] in Hbp; [|discriminate].
    destruct (n <? 1)%Z eqn:En; [discriminate|]. injection Hbp as <-. apply Z.ltb_ge in En.
    pose proof (IHr Hp b bp eq_refl eq_refl) as R. pose proof R as [Gb [Obp _]].
    assert (Hokp : okb (WRep bp n) = true) by (cbn [okb]; rewrite Obp, andb_true_r; apply Z.leb_le; lia).
    pose proof (rep_congr b bp n R ltac:(lia)) as E.
    destruct o.
    + destruct (from_repetition_count_okb b n w Gb ltac:(lia) Hb) as [Gw [Cw Dw]].
      split; [exact Gw|]. split; [exact Hokp|]. apply (Eqv_trans _ (WRep b n)); [|exact E].
      split; [exact Cw|]. split; [exact Dw|].
      intros c t Hc H0 H1. exact (from_repetition_count_sound b n w (proj1 Gb) ltac:(lia) Hb c t Hc H0 H1).
    + unfold mk_rep in Hb. destruct (n <? 1)%Z; [discriminate|]. injection Hb as <-.
      split; [destruct Gb as [O C]; split; cbn [okb canonb]; auto; rewrite O, andb_true_r; apply Z.leb_le; lia|].
      split; [exact Hokp|exact E].
  - (* SubsetWaveform *)
    cbn [build build_plain] in Hb, Hbp.
    destruct (build r) as [b|] eqn:Eb; cbn [bind] in Hb; [|discriminate].
    destruct (build_plain r) as [bp|] eqn:Ebp; cbn [bind] in Hbp; [|discriminate]. injection Hb as <-.
    destruct cs as [|c0 cs']; [discriminate|]. destruct (subsetb (c0 :: cs') (channels bp)) eqn:Es; [|discriminate]. injection Hbp as <-.
    pose proof (IHr Hp b bp eq_refl eq_refl) as [Gb [Obp [C [D S]]]].
    assert (Hsb : subsetb (c0 :: cs') (channels b) = true).
    { apply subsetb_sub. intros c Hc. rewrite C. exact (subsetb_inb _ _ _ Es Hc). }
    pose proof (mk_subset_good b (c0 :: cs') Gb ltac:(discriminate) Hsb) as Gs.
    split; [exact Gs|]. split; [cbn [okb]; rewrite Obp, Es; reflexivity|].
    split; [intros c; unfold mk_subset; cbn [channels]; apply inb_canon_cs|]. split; [exact D|].
    intros c t Hc H0 H1. cbn [channels duration] in *. unfold mk_subset. cbn [sample]. apply S; auto.
    exact (subsetb_inb _ _ _ Es Hc).
  - (* arithmetic *)
    apply andb_prop in Hp as [P1 P2]. cbn [build build_plain] in Hb, Hbp.
    destruct (build r1) as [a|] eqn:Ea; cbn [bind] in Hb; [|discriminate].
    destruct (build r2) as [b|] eqn:Eb; cbn [bind] in Hb; [|discriminate].
    destruct (build_plain r1) as [ap|] eqn:Eap; cbn [bind] in Hbp; [|discriminate].
    destruct (build_plain r2) as [bp|] eqn:Ebp; cbn [bind] in Hbp; [|discriminate].
    destruct (Qeq_bool (duration ap) (duration bp)) eqn:Ed; [|discriminate]. injection Hbp as <-. apply Qeq_bool_iff in Ed.
    pose proof (IHr1 P1 a ap eq_refl eq_refl) as Ra. pose proof (IHr2 P2 b bp eq_refl eq_refl) as Rb.
    pose proof Ra as [Ga [Oap [_ [Da _]]]]. pose proof Rb as [Gb [Obp [_ [Db _]]]].
    assert (Hdab : duration a == duration b) by (rewrite Da, Db; exact Ed).
    assert (Hokp : okb (WArith ap op bp) = true) by (cbn [okb]; rewrite Oap, Obp; cbn [andb]; apply Qeq_bool_iff; exact Ed).
    pose proof (arith_congr a ap b bp op Ra Rb Ed) as E.
    assert (Gplain : good (WArith a op b)).
    { destruct Ga as [O1 C1], Gb as [O2 C2]. split; cbn [okb canonb]; rewrite ?O1, ?O2, ?C1, ?C2; cbn [andb]; auto. apply Qeq_bool_iff; exact Hdab. }
    destruct o.
    + destruct (from_operator_good a op b w Ga Gb Hdab Hb) as [Gw [Cw Dw]].
      split; [exact Gw|]. split; [exact Hokp|]. apply (Eqv_trans _ (WArith a op b)); [|exact E].
      split; [exact Cw|]. split; [exact Dw|]. intros c t Hc H0 H1. cbn [duration] in H1.
      destruct (cvd a) as [dl|] eqn:El; [destruct (cvd b) as [dr|] eqn:Er|].
      * exact (from_operator_const_sound a op b dl dr w (proj1 Ga) (proj1 Gb) Hdab El Er
                 (cvd_nodup b dr (proj1 Gb) (proj2 Gb) Er) Hb c t Hc H0 H1).
      * rewrite (from_operator_plain a op b (or_intror Er)) in Hb. unfold mk_arith in Hb.
        destruct (isclose (duration a) (duration b)); [|discriminate]. injection Hb as <-. apply oQeq_refl.
      * rewrite (from_operator_plain a op b (or_introl El)) in Hb. unfold mk_arith in Hb.
        destruct (isclose (duration a) (duration b)); [|discriminate]. injection Hb as <-. apply oQeq_refl.
    + unfold mk_arith in Hb. destruct (isclose (duration a) (duration b)); [|discriminate]. injection Hb as <-.
      split; [exact Gplain|]. split; [exact Hokp|exact E].
  - (* functor *)
    cbn [build build_plain] in Hb, Hbp.
    destruct (build r) as [b|] eqn:Eb; cbn [bind] in Hb; [|discriminate].
    destruct (build_plain r) as [bp|] eqn:Ebp; cbn [bind] in Hbp; [|discriminate].
    destruct (set_eqb (keys f) (channels bp)) eqn:Ek; [|discriminate]. injection Hbp as <-.
    pose proof (IHr Hp b bp eq_refl eq_refl) as R. pose proof R as [Gb [Obp [C _]]].
    assert (Hkb : set_eqb (keys f) (channels b) = true).
    { apply set_eqb_intro. intros c. rewrite C. apply set_eqb_inb. exact Ek. }
    assert (Hokp : okb (WFunctor bp f) = true) by (cbn [okb]; rewrite Obp, Ek; reflexivity).
    destruct o.
    + destruct (from_functor_okb b f w Gb Hkb Hb) as [Gw [Cw Dw]].
      split; [exact Gw|]. split; [exact Hokp|]. apply (Eqv_trans _ (WFunctor b f)); [|exact (functor_congr b bp f f R (fun _ => eq_refl))].
      split; [exact Cw|]. split; [exact Dw|]. intros c t Hc H0 H1.
      exact (from_functor_sound b f w (proj1 Gb) Hkb Hb c t Hc H0 H1).
    + destruct (mk_functor_good b f w Gb Hb) as [Gw ->].
      split; [exact Gw|]. split; [exact Hokp|]. apply functor_congr; [exact R|]. intros c. apply lookup_canon_kv.
  - (* negation *)
    cbn [build build_plain] in Hb, Hbp.
    destruct (build r) as [b|] eqn:Eb; cbn [bind] in Hb; [|discriminate].
    destruct (build_plain r) as [bp|] eqn:Ebp; cbn [bind] in Hbp; [|discriminate]. injection Hbp as <-.
    pose proof (IHr Hp b bp eq_refl eq_refl) as R. pose proof R as [Gb [Obp [C _]]]. unfold neg in Hb.
    set (fb := map (fun c => (c, FNeg)) (channels b)) in *. set (fp := map (fun c => (c, FNeg)) (channels bp)).
    assert (Hkb : set_eqb (keys fb) (channels b) = true) by (apply set_eqb_intro; intros c; unfold fb; rewrite keys_map_key'; reflexivity).
    assert (Hokp : okb (WFunctor bp fp) = true).
    { cbn [okb]. rewrite Obp. cbn [andb]. apply set_eqb_intro. intros c. unfold fp. rewrite keys_map_key'. reflexivity. }
    destruct (from_functor_okb b fb w Gb Hkb Hb) as [Gw [Cw Dw]].
    split; [exact Gw|]. split; [exact Hokp|]. apply (Eqv_trans _ (WFunctor b fb)).
    + split; [exact Cw|]. split; [exact Dw|]. intros c t Hc H0 H1.
      exact (from_functor_sound b fb w (proj1 Gb) Hkb Hb c t Hc H0 H1).
    + apply functor_congr; [exact R|]. intros c. unfold fb, fp. rewrite !(lookup_map_key (fun _ => FNeg)), C. reflexivity.
Qed.

(* the clause of the property for these recipes *)
Theorem constructors_plain_recipes : forall r w wp, plainR r = true -> build r = OK w -> build_plain r = OK wp ->
  okb w = true /\ (forall c, inb c (channels w) = inb c (channels wp)) /\ duration w == duration wp /\
  forall c t, inb c (channels wp) = true -> 0 <= t -> t < duration wp -> oQeq (sample w c t) (sample wp c t).
Proof.
  intros r w wp Hp Hb Hbp. destruct (build_rel r Hp w wp Hb Hbp) as [[O _] [_ [C [D S]]]]. repeat split; auto.
Qed.

Example constructors_example :
  let tab c v := RTable true c [mkE 0 v Hold; mkE (1#2) v Hold; mkE (1#2) v Jump; mkE 1 (v + 1) Linear] in
  let r := RArith true (RSeq true [RMulti true [RConst 1 2 1%N; RMulti true [tab 2%N 3; RConst 1 4 3%N]];
                                    RRep true (RMulti false [RConst (1#2) 2 1%N; RConst (1#2) 3 2%N; RConst (1#2) 4 3%N]) 2])
                 OpSub (RNeg (RSubset (RFunctor true (RMulti true [RConst 2 1 1%N; RConst 2 1 4%N]) [(1%N, FAbs); (4%N, FNeg)]) [1%N])) in
  plainR r = true /\
  match build r, build_plain r with
  | OK w, OK wp => negb (wf_eqb w wp) && oQeqb (sample w 2%N (3#4)) (sample wp 2%N (3#4)) && oQeqb (sample w 1%N (3#2)) (Some 3)
  | _, _ => false
  end = true.
Proof. vm_compute. split; reflexivity. Qed.
