(* C08 — optimising constructors: when they fold to constants, the result samples like the plain composite.
   Part 1: ConstantWaveform.from_mapping and constant_value_dict. *)
From Coq Require Import List ZArith QArith Qabs Bool Lia Lqa Sorting.Sorted.
Require Import QV.C08.Model QV.C08.Spec QV.C08.Wf QV.C08.ProofsVec QV.C08.ProofsConst QV.C08.ProofsProper.
Import ListNotations.
Open Scope Q_scope.

(* ---- a multi-channel waveform answers with its first part that has the channel ---- *)
Definition has (c : chan) (x : wf) : bool := inb c (channels x).
Lemma sample_multi_find l c t :
  sample (WMulti l) c t = match find (has c) l with Some x => sample x c t | None => None end.
Proof.
  cbn [sample]. induction l as [|x r IH]; [reflexivity|]. cbn [find]. unfold has at 1.
  destruct (inb c (channels x)); [reflexivity|exact IH].
Qed.

(* ---- sorting single-channel constants (from_mapping): stable, so the first binding of a channel stays first ---- *)
Definition is_c1 (x : wf) : Prop := exists d v k, x = WConst d v k.
Definition ch1 (x : wf) : N := match x with WConst _ _ k => k | _ => 0%N end.

Lemma lex_leb_c1 x y : is_c1 x -> is_c1 y -> lex_leb (sort_key x) (sort_key y) = (ch1 x <=? ch1 y)%N.
Proof.
  intros [d [v [k ->]]] [d' [v' [k' ->]]]. cbn.
  destruct (k <? k')%N eqn:E1.
  - apply N.ltb_lt in E1. symmetry. apply N.leb_le. lia.
  - destruct (k' <? k)%N eqn:E2.
    + apply N.ltb_lt in E2. symmetry. apply N.leb_gt. lia.
    + apply N.ltb_ge in E1. apply N.ltb_ge in E2. symmetry. apply N.leb_le. lia.
Qed.
Lemma has_c1 c x : is_c1 x -> has c x = N.eqb c (ch1 x).
Proof. intros [d [v [k ->]]]. unfold has. cbn. rewrite orb_false_r. reflexivity. Qed.

Definition csorted (l : list wf) : Prop := StronglySorted (fun x y => (ch1 x <= ch1 y)%N) l.

Lemma insert_wf_c1 x l : is_c1 x -> Forall is_c1 l -> Forall is_c1 (insert_wf x l).
Proof.
  intros Hx. induction 1 as [|y r Hy Hr IH]; cbn [insert_wf]; [constructor; [exact Hx|constructor]|].
  destruct (lex_leb (sort_key y) (sort_key x)).
  - constructor; [exact Hy|exact IH].
  - constructor; [exact Hx|]. constructor; [exact Hy|exact Hr].
Qed.
Lemma insert_wf_In x l z : In z (insert_wf x l) -> z = x \/ In z l.
Proof.
  induction l as [|y r IH]; cbn; [intros [<-|[]]; auto|].
  destruct (lex_leb (sort_key y) (sort_key x)); cbn.
  - intros [<-|H]; auto. destruct (IH H); auto.
  - intros [<-|[<-|H]]; auto.
Qed.
Lemma insert_wf_sorted x l : is_c1 x -> Forall is_c1 l -> csorted l -> csorted (insert_wf x l).
Proof.
  intros Hx Hl Hs. induction Hs as [|y r Hs IH Hall]; cbn; [constructor; constructor|].
  apply Forall_cons_iff in Hl as [Hy Hr].
  rewrite (lex_leb_c1 y x Hy Hx).
  destruct (ch1 y <=? ch1 x)%N eqn:E.
  - apply N.leb_le in E. constructor; [apply IH; exact Hr|].
    apply Forall_forall. intros z Hz. apply insert_wf_In in Hz as [->|Hz]; [exact E|].
    rewrite Forall_forall in Hall. apply Hall; exact Hz.
  - apply N.leb_gt in E. constructor; [constructor; assumption|].
    constructor; [lia|]. eapply Forall_impl; [|exact Hall]. intros z Hz. cbn in Hz. lia.
Qed.

Lemma find_insert_wf c x l : is_c1 x -> Forall is_c1 l -> csorted l ->
  find (has c) (insert_wf x l) = match find (has c) l with Some y => Some y | None => if has c x then Some x else None end.
Proof.
  intros Hx Hl Hs. induction Hs as [|y r Hs IH Hall]; [reflexivity|].
  apply Forall_cons_iff in Hl as [Hy Hr]. cbn [insert_wf].
  rewrite (lex_leb_c1 y x Hy Hx).
  destruct (ch1 y <=? ch1 x)%N eqn:E.
  - cbn [find]. destruct (has c y); [reflexivity|]. apply IH; exact Hr.
  - apply N.leb_gt in E. cbn [find].
    destruct (has c x) eqn:Ex; [|destruct (has c y); [reflexivity|]; destruct (find (has c) r); reflexivity].
    rewrite (has_c1 c x Hx) in Ex. apply N.eqb_eq in Ex.
    (* nothing at or after y can have channel c *)
    rewrite (has_c1 c y Hy). replace (N.eqb c (ch1 y)) with false by (symmetry; apply N.eqb_neq; lia).
    assert (Hn : find (has c) r = None).
    { clear IH Hs. induction r as [|z r IHr]; [reflexivity|].
      apply Forall_cons_iff in Hr as [Hz Hr]. apply Forall_cons_iff in Hall as [Hyz Hall].
      cbn [find]. rewrite (has_c1 c z Hz). replace (N.eqb c (ch1 z)) with false by (symmetry; apply N.eqb_neq; lia).
      apply IHr; assumption. }
    rewrite Hn. reflexivity.
Qed.

Lemma sort_wfs_consts_aux c l : Forall is_c1 l -> forall acc, Forall is_c1 acc -> csorted acc ->
  Forall is_c1 (fold_left (fun a x => insert_wf x a) l acc) /\ csorted (fold_left (fun a x => insert_wf x a) l acc) /\
  find (has c) (fold_left (fun a x => insert_wf x a) l acc)
  = match find (has c) acc with Some y => Some y | None => find (has c) l end.
Proof.
  induction 1 as [|x r Hx _ IH]; intros acc Ha Hs; cbn [fold_left].
  - repeat split; auto. destruct (find (has c) acc); reflexivity.
  - destruct (IH (insert_wf x acc)) as [H1 [H2 H3]]; auto using insert_wf_c1, insert_wf_sorted.
    repeat split; auto. rewrite H3, find_insert_wf; auto.
    cbn [find]. destruct (find (has c) acc); [reflexivity|]. destruct (has c x); reflexivity.
Qed.
Lemma find_sort_wfs_consts c l : Forall is_c1 l -> find (has c) (sort_wfs l) = find (has c) l.
Proof.
  intros H. unfold sort_wfs. destruct (sort_wfs_consts_aux c l H [] (Forall_nil _)) as [_ [_ E]]; [constructor|].
  exact E.
Qed.

(* ---- from_mapping ---- *)
Definition consts_of (dur : Q) (d : list (chan * Q)) : list wf := map (fun kv => mk_const dur (snd kv) (fst kv)) d.
Lemma consts_c1 dur d : Forall is_c1 (consts_of dur d).
Proof. induction d; cbn; constructor; auto. unfold is_c1, mk_const. eauto. Qed.
Lemma find_consts c dur d :
  find (has c) (consts_of dur d) = match lookup c d with Some v => Some (mk_const dur v c) | None => None end.
Proof.
  induction d as [|[k v] r IH]; [reflexivity|]. cbn [consts_of map find lookup fst snd].
  unfold has at 1. cbn. rewrite orb_false_r. destruct (N.eqb c k) eqn:E; [|exact IH].
  apply N.eqb_eq in E. subst. reflexivity.
Qed.

Theorem from_mapping_sample dur d w' : from_mapping dur d = OK w' -> forall c v t,
  lookup c d = Some v -> sample w' c t = Some (Qred v).
Proof.
  unfold from_mapping. destruct d as [|[k v0] [|kv2 r]]; [discriminate| |].
  - intros H; injection H as <-. intros c v t L. cbn in L. destruct (N.eqb c k); [|discriminate].
    injection L as <-. reflexivity.
  - intros H; injection H as <-. intros c v t L.
    change (mk_const dur v0 k :: mk_const dur (snd kv2) (fst kv2) :: map (fun kv => mk_const dur (snd kv) (fst kv)) r)
      with (consts_of dur ((k, v0) :: kv2 :: r)).
    rewrite sample_multi_find, find_sort_wfs_consts by apply consts_c1.
    rewrite find_consts, L. reflexivity.
Qed.

Lemma from_mapping_ok dur d : d <> [] -> exists w', from_mapping dur d = OK w'.
Proof. unfold from_mapping. destruct d as [|[k v0] [|kv2 r]]; [congruence|eauto|eauto]. Qed.

(* ------------------------------------------------------------------------------------------------------------------ *)
(* constant_value_dict agrees with constant_value on every defined channel and has no other keys *)

Lemma lookup_app {A} c (a b : list (chan * A)) :
  lookup c (a ++ b) = match lookup c a with Some v => Some v | None => lookup c b end.
Proof. induction a as [|[k v] a IH]; [reflexivity|]. cbn. destruct (N.eqb c k); auto. Qed.
Lemma lookup_map_key {A} (F : chan -> A) c cs :
  lookup c (map (fun k => (k, F k)) cs) = if inb c cs then Some (F c) else None.
Proof.
  induction cs as [|k cs IH]; [reflexivity|]. cbn [map lookup]. rewrite inb_cons.
  destruct (N.eqb c k) eqn:E; [apply N.eqb_eq in E; subst; reflexivity|exact IH].
Qed.

Definition cvd_spec (w : wf) : Prop := forall d, okb w = true -> cvd w = Some d -> forall c,
  (inb c (channels w) = true -> lookup c d = cv w c /\ cv w c <> None) /\
  (inb c (channels w) = false -> lookup c d = None).

Theorem cvd_sound : forall w, cvd_spec w.
Proof.
  induction w using wf_ind'; intros dd Hok Hd ch; try discriminate.
  - (* constant *)
    cbn in Hd. injection Hd as <-. cbn. rewrite orb_false_r. destruct (N.eqb ch c); split; intros; try discriminate; auto.
    split; [reflexivity|discriminate].
  - (* multi-channel *)
    cbn [okb] in Hok. apply andb_prop in Hok as [_ Hoks]. apply okb_all_Forall in Hoks.
    cbn [cvd channels cv] in *. revert dd Hd.
    induction H as [|x r Hx _ IH]; intros dd Hd.
    + injection Hd as <-. cbn. split; [discriminate|reflexivity].
    + apply Forall_cons_iff in Hoks as [Ho1 Ho2].
      destruct (cvd x) as [a|] eqn:Ea; [|discriminate].
      match type of Hd with match ?g with _ => _ end = _ => destruct g as [b|] eqn:Eb end; [|discriminate].
      injection Hd as <-. rewrite lookup_app, inb_unionb.
      destruct (Hx a Ho1 Ea ch) as [Hin Hout].
      destruct (inb ch (channels x)) eqn:E.
      * destruct (Hin eq_refl) as [H1 H2]. rewrite H1. split; [|discriminate]. intros _.
        destruct (cv x ch); [split; [reflexivity|discriminate]|congruence].
      * rewrite (Hout eq_refl). cbn [orb]. exact (IH Ho2 b eq_refl).
  - (* repetition *)
    cbn [okb] in Hok. apply andb_prop in Hok as [_ Hokb]. cbn [cvd channels cv] in *. exact (IHw dd Hokb Hd ch).
  - (* subset *)
    cbn [okb] in Hok. apply andb_prop in Hok as [Hok _]. apply andb_prop in Hok as [Hokb Hsub].
    cbn [cvd channels cv] in *. destruct (cvd w) as [di|] eqn:Ei; [|discriminate]. injection Hd as <-.
    rewrite (lookup_map_key (fun c => match lookup c di with Some v => v | None => 0 end)).
    destruct (inb ch cs) eqn:E; split; intros; try discriminate; auto.
    destruct (IHw di Hokb Ei ch) as [Hin _].
    destruct (Hin (subsetb_inb _ _ _ Hsub E)) as [H1 H2]. rewrite H1.
    destruct (cv w ch); [split; [reflexivity|discriminate]|congruence].
Qed.

(* a waveform that reports a complete constant dict consists of constant / multi / repetition / subset nodes only *)
Lemma cvd_some_no_trans : forall w d, cvd w = Some d -> no_trans w = true.
Proof.
  induction w using wf_ind'; intros dd Hd; try discriminate; cbn [cvd no_trans] in *; auto.
  - revert dd Hd. induction H as [|x r Hx _ IH]; intros dd Hd; [reflexivity|].
    destruct (cvd x) as [a|] eqn:Ea; [|discriminate].
    match type of Hd with match ?g with _ => _ end = _ => destruct g as [b|] eqn:Eb end; [|discriminate].
    rewrite (Hx a eq_refl). cbn. exact (IH b eq_refl).
  - eauto.
  - destruct (cvd w) eqn:E; [|discriminate]. eauto.
Qed.

(* ------------------------------------------------------------------------------------------------------------------ *)
(* the constant branch of the optimising constructors *)

Lemma const_dict_sample w d : okb w = true -> cvd w = Some d -> forall c t,
  inb c (channels w) = true -> 0 <= t -> t < duration w ->
  exists v v', lookup c d = Some v /\ cv w c = Some v /\ sample w c t = Some v' /\ v' == v.
Proof.
  intros Hok Hd c t Hc H0 H1.
  destruct (cvd_sound w d Hok Hd c) as [Hin _]. destruct (Hin Hc) as [L Hne].
  destruct (cv w c) as [v|] eqn:Ecv; [|congruence].
  destruct (cv_sound_no_trans w Hok (cvd_some_no_trans w d Hd) c v t Hc Ecv H0 H1) as [v' [Hs Hq]].
  exists v, v'. auto.
Qed.

(* RepetitionWaveform.from_repetition_count samples like RepetitionWaveform(body, n) *)
Theorem from_repetition_count_sound : forall b n w', okb b = true -> (1 <= n)%Z ->
  from_repetition_count b n = OK w' -> forall c t,
  inb c (channels b) = true -> 0 <= t -> t < duration (WRep b n) ->
  oQeq (sample w' c t) (sample (WRep b n) c t).
Proof.
  intros b n w' Hok Hn H c t Hc H0 H1. unfold from_repetition_count in H.
  destruct (cvd b) as [d|] eqn:Ed.
  - assert (Hokr : okb (WRep b n) = true).
    { cbn [okb]. rewrite Hok, andb_true_r. apply Z.leb_le. exact Hn. }
    destruct (const_dict_sample (WRep b n) d Hokr Ed c t Hc H0 H1) as [v [v' [L [_ [Hs Hq]]]]].
    rewrite (from_mapping_sample _ _ _ H c v t L), Hs. cbn. rewrite Qred_correct. symmetry; exact Hq.
  - unfold mk_rep in H. destruct (n <? 1)%Z; [discriminate|]. injection H as <-. apply oQeq_refl.
Qed.

(* FunctorWaveform.from_functor samples like FunctorWaveform(inner, functor) *)
Lemma lookup_map_val {A B} (F : chan -> A -> B) c (d : list (chan * A)) :
  lookup c (map (fun kv => (fst kv, F (fst kv) (snd kv))) d) = match lookup c d with Some v => Some (F c v) | None => None end.
Proof.
  induction d as [|[k v] d IH]; [reflexivity|]. cbn. destruct (N.eqb c k) eqn:E; [|exact IH].
  apply N.eqb_eq in E. subst. reflexivity.
Qed.
Lemma inb_insert_sorted c x l : inb c (insert_sorted_N x l) = N.eqb c x || inb c l.
Proof.
  induction l as [|y r IH]; [reflexivity|]. cbn [insert_sorted_N].
  destruct (x <=? y)%N; [reflexivity|]. rewrite !inb_cons, IH.
  destruct (N.eqb c x), (N.eqb c y); reflexivity.
Qed.
Lemma inb_sort_N c l : inb c (sort_N l) = inb c l.
Proof. induction l as [|x r IH]; [reflexivity|]. cbn [sort_N fold_right]. fold (sort_N r). rewrite inb_insert_sorted, IH. reflexivity. Qed.
Lemma inb_canon_cs c l : inb c (canon_cs l) = inb c l.
Proof. unfold canon_cs. rewrite inb_sort_N. apply inb_dedup. Qed.
Lemma lookup_not_in_keys {A} c (f : list (chan * A)) : inb c (keys f) = false -> lookup c f = None.
Proof.
  induction f as [|[k v] r IH]; [reflexivity|]. cbn. destruct (N.eqb c k); [discriminate|exact IH].
Qed.
Lemma lookup_canon_kv {A} c (f : list (chan * A)) : lookup c (canon_kv f) = lookup c f.
Proof.
  unfold canon_kv.
  assert (G : forall ks, lookup c (flat_map (fun k => match lookup k f with Some v => [(k, v)] | None => [] end) ks)
                         = if inb c ks then lookup c f else None).
  { induction ks as [|k ks IH]; [reflexivity|]. cbn [flat_map]. rewrite lookup_app, inb_cons.
    destruct (N.eqb c k) eqn:E.
    - apply N.eqb_eq in E. subst k. destruct (lookup c f) as [v|] eqn:L; cbn.
      + rewrite N.eqb_refl. reflexivity.
      + rewrite IH. destruct (inb c ks); reflexivity.
    - destruct (lookup k f); cbn; [rewrite E|]; exact IH. }
  rewrite G, inb_canon_cs. destruct (inb c (keys f)) eqn:E; [reflexivity|].
  symmetry. apply lookup_not_in_keys; exact E.
Qed.

Theorem from_functor_sound : forall i f w', okb i = true -> set_eqb (keys f) (channels i) = true ->
  from_functor i f = OK w' -> forall c t,
  inb c (channels i) = true -> 0 <= t -> t < duration i ->
  oQeq (sample w' c t) (sample (WFunctor i f) c t).
Proof.
  intros i f w' Hok Hk H c t Hc H0 H1. unfold from_functor in H.
  assert (Hkc : inb c (keys f) = true) by (rewrite (set_eqb_inb _ _ c Hk); exact Hc).
  destruct (lookup_in_keys c f Hkc) as [g Eg].
  destruct (cvd i) as [d|] eqn:Ed.
  - destruct (forallb (fun kv => inb (fst kv) (keys f)) d); [|discriminate].
    destruct (const_dict_sample i d Hok Ed c t Hc H0 H1) as [v [v' [L [_ [Hs Hq]]]]].
    assert (L' : lookup c (map (fun kv => (fst kv, match lookup (fst kv) f with Some g => functor_at g (snd kv) | None => 0 end)) d)
                 = Some (functor_at g v)).
    { rewrite (lookup_map_val (fun k x => match lookup k f with Some g => functor_at g x | None => 0 end)), L, Eg. reflexivity. }
    rewrite (from_mapping_sample _ _ _ H c _ t L'). cbn [sample]. rewrite Eg, Hs. cbn.
    rewrite Qred_correct. apply functor_at_compat. symmetry; exact Hq.
  - unfold mk_functor in H. rewrite Hk in H. injection H as <-. cbn [sample].
    (* the plain constructor stores the canonical (sorted, de-duplicated) functor dict *)
    assert (Ecan : lookup c (canon_kv f) = lookup c f) by apply lookup_canon_kv.
    rewrite Ecan. apply oQeq_refl.
Qed.

(* ReversedWaveform.from_to_reverse returns the waveform itself when it is constant on all channels *)
Theorem from_to_reverse_sound : forall w, okb w = true -> forall c t,
  inb c (channels w) = true -> 0 < t -> t < duration w ->
  oQeq (sample (from_to_reverse w) c t) (sample (WRev w) c t).
Proof.
  intros w Hok c t Hc H0 H1. unfold from_to_reverse.
  destruct (cvd w) as [[|kv d]|] eqn:Ed; try apply oQeq_refl.
  destruct (const_dict_sample w _ Hok Ed c t Hc) as [v [v1 [_ [_ [Hs1 Hq1]]]]]; [lra|lra|].
  destruct (const_dict_sample w _ Hok Ed c (duration w - t) Hc) as [v' [v2 [L2 [Hcv2 [Hs2 Hq2]]]]]; [lra|lra|].
  destruct (const_dict_sample w _ Hok Ed c t Hc) as [v'' [v3 [L3 [Hcv3 [Hs3 Hq3]]]]]; [lra|lra|].
  cbn [sample]. rewrite Hs2, Hs3. cbn. rewrite Hq2, Hq3.
  rewrite L3 in L2. injection L2 as ->. reflexivity.
Qed.

(* ---- SequenceWaveform.from_sequence ---- *)
Definition cvs_step (acc : option (list (chan * Q))) (w : wf) : option (list (chan * Q)) :=
  match acc with
  | Some d => match cvd w with
              | Some d' => if dict_eqb d d' then acc else None
              | None => None
              end
  | None => None
  end.
Lemma cvs_fold_none l : fold_left cvs_step l None = None.
Proof. induction l; cbn; auto. Qed.
Lemma cvs_fold_some l : forall d d0, fold_left cvs_step l (Some d) = Some d0 ->
  d0 = d /\ Forall (fun w => exists d', cvd w = Some d' /\ dict_eqb d d' = true) l.
Proof.
  induction l as [|w r IH]; intros d d0 H; cbn in H.
  - injection H as <-. auto.
  - destruct (cvd w) as [d'|] eqn:E; [|rewrite cvs_fold_none in H; discriminate].
    destruct (dict_eqb d d') eqn:Ed; [|rewrite cvs_fold_none in H; discriminate].
    apply IH in H as [-> Hall]. split; auto. constructor; eauto.
Qed.
Lemma lookup_In {A} c (d : list (chan * A)) v : lookup c d = Some v -> In (c, v) d.
Proof.
  induction d as [|[k x] r IH]; cbn; [discriminate|]. destruct (N.eqb c k) eqn:E.
  - apply N.eqb_eq in E. intros H; injection H as <-. subst; auto.
  - auto.
Qed.
Lemma dict_eqb_lookup d d' c v : dict_eqb d d' = true -> lookup c d = Some v ->
  exists v2, lookup c d' = Some v2 /\ v == v2.
Proof.
  unfold dict_eqb. intros H L. apply andb_prop in H as [_ H]. rewrite forallb_forall in H.
  specialize (H (c, v) (lookup_In _ _ _ L)). cbn in H.
  destruct (lookup c d') as [v2|]; [|discriminate]. exists v2. split; auto. apply Qeq_bool_iff; exact H.
Qed.

Theorem from_sequence_const_sound : forall l d w', okb (WSeq l) = true ->
  fold_left cvs_step l (match l with x :: _ => cvd x | [] => None end) = Some d ->
  from_sequence l = OK w' -> forall c t,
  inb c (channels (WSeq l)) = true -> 0 <= t -> t < duration (WSeq l) ->
  oQeq (sample w' c t) (sample (WSeq l) c t).
Proof.
  intros l d w' Hok Hf H c t Hc H0 H1.
  cbn [okb] in Hok. apply andb_prop in Hok as [Hchs Hoks]. apply okb_all_Forall in Hoks.
  pose proof (seq_children_have_chan l c Hchs Hc) as Hin.
  destruct l as [|x r]; [discriminate|].
  destruct (cvd x) as [dx|] eqn:Ex; [|rewrite cvs_fold_none in Hf; discriminate].
  apply cvs_fold_some in Hf as [-> Hall].
  (* the value of channel c *)
  apply Forall_cons_iff in Hoks as [Hox Hor]. apply Forall_cons_iff in Hin as [Hix Hir].
  destruct (cvd_sound x dx Hox Ex c) as [Hcin _]. destruct (Hcin Hix) as [Lx Hne].
  destruct (cv x c) as [v|] eqn:Ecv; [|congruence].
  (* every part answers v on its own half-open interval *)
  assert (Hs : Forall (fun w => sound_at w c v) (x :: r)).
  { apply Forall_forall. intros w Hw.
    assert (Hw1 : okb w = true) by (destruct Hw as [<-|Hw]; [exact Hox|rewrite Forall_forall in Hor; auto]).
    assert (Hw2 : inb c (channels w) = true) by (destruct Hw as [<-|Hw]; [exact Hix|rewrite Forall_forall in Hir; auto]).
    rewrite Forall_forall in Hall. destruct (Hall w Hw) as [d' [Ed' Eq']].
    destruct (dict_eqb_lookup dx d' c v Eq' Lx) as [v2 [L2 Hq2]].
    intros t' Ht0 Ht1.
    destruct (const_dict_sample w d' Hw1 Ed' c t' Hw2 Ht0 Ht1) as [v3 [v4 [L3 [_ [Hs4 Hq4]]]]].
    rewrite L2 in L3. injection L3 as <-. exists v4. split; auto. rewrite Hq4. symmetry; exact Hq2. }
  assert (Hplain : exists v', sample (WSeq (x :: r)) c t = Some v' /\ v' == v).
  { rewrite sample_seq. apply seqp_const; auto. right. rewrite duration_seq in H1. split; lra. }
  destruct Hplain as [v' [Hp Hq]]. rewrite Hp.
  (* the optimised result *)
  unfold from_sequence in H. destruct r as [|y r'].
  - injection H as <-. rewrite sample_seq in Hp. cbn [seqp] in Hp. cbv zeta in Hp.
    destruct (negb (Qltb t 0) && Qltb t (0 + duration x)); [|discriminate].
    eapply oQeq_trans; [apply (sample_proper x c t (t - 0)); lra|]. rewrite Hp. cbn. reflexivity.
  - change (fold_left (fun acc w => match acc with
                                    | Some d => match cvd w with
                                                | Some d' => if dict_eqb d d' then acc else None
                                                | None => None end
                                    | None => None end) (x :: y :: r') (cvd x))
      with (fold_left cvs_step (x :: y :: r') (cvd x)) in H.
    rewrite Ex in H.
    assert (Hfold : fold_left cvs_step (x :: y :: r') (Some dx) = Some dx).
    { clear -Hall. revert Hall. generalize (x :: y :: r'). intros l Hall.
      induction Hall as [|w l [d' [E1 E2]] _ IH]; [reflexivity|]. cbn. rewrite E1, E2. exact IH. }
    rewrite Hfold in H.
    rewrite (from_mapping_sample _ _ _ H c v t Lx). cbn. rewrite Qred_correct. symmetry; exact Hq.
Qed.

(* without nested sequences and without constant folding from_sequence is the plain constructor *)
Theorem from_sequence_plain : forall l, (2 <= length l)%nat ->
  Forall (fun w => is_seq w = None) l ->
  fold_left cvs_step l (match l with x :: _ => cvd x | [] => None end) = None ->
  from_sequence l = mk_seq l.
Proof.
  intros l Hlen Hns Hf. unfold from_sequence. destruct l as [|x [|y r]]; cbn in Hlen; try lia.
  change (fold_left (fun acc w => match acc with
                                  | Some d => match cvd w with
                                              | Some d' => if dict_eqb d d' then acc else None
                                              | None => None end
                                  | None => None end) (x :: y :: r) (cvd x))
    with (fold_left cvs_step (x :: y :: r) (cvd x)).
  rewrite Hf. f_equal.
  clear -Hns. induction Hns as [|w l Hw _ IH]; [reflexivity|]. cbn [flat_map]. rewrite Hw, IH. reflexivity.
Qed.

(* ---- channel subsets ---- *)
Lemma subset_plain : forall w cs c t,
  sample (WSubset w cs) c t = sample w c t /\ channels (WSubset w cs) = cs /\ duration (WSubset w cs) = duration w
  /\ cv (WSubset w cs) c = cv w c.
Proof. intros. repeat split; reflexivity. Qed.

Definition subset_simple (w : wf) : bool :=
  match w with WTable _ _ | WConst _ _ _ | WFunc _ _ _ | WTrans _ _ | WArith _ _ _ => true | _ => false end.

(* get_subset_for_channels: KeyError unless cs is a subset; the waveform itself when cs is everything; for leaves,
   transforming and arithmetic waveforms a SubsetWaveform (or the leaf): the remaining channels sample unchanged *)
Theorem get_subset_simple_sound : forall w cs w', subset_simple w = true -> get_subset w cs = OK w' ->
  subsetb cs (channels w) = true /\ (forall c t, sample w' c t = sample w c t) /\ duration w' = duration w /\
  (set_eqb cs (channels w) = true -> w' = w).
Proof.
  intros w cs w' Hs H. unfold get_subset, get_wrap in H.
  destruct (subsetb cs (channels w)) eqn:E; cbn [negb] in H; [|discriminate]. split; [reflexivity|].
  destruct (set_eqb cs (channels w)) eqn:E2.
  - injection H as <-. repeat split; auto.
  - destruct w; try discriminate; cbn [subset_u] in H; injection H as <-; repeat split; auto; discriminate.
Qed.
Theorem get_subset_requires_subset : forall w cs w', get_subset w cs = OK w' -> subsetb cs (channels w) = true.
Proof.
  intros w cs w' H. unfold get_subset, get_wrap in H. destruct (subsetb cs (channels w)); [reflexivity|discriminate].
Qed.
