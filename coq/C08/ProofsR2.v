(* C08 — round 2: witnesses (vm_compute) of the clauses that fail on the faithful model of the unchanged code. *)
From Coq Require Import List ZArith QArith Qabs Bool.
Require Import QV.C08.Model QV.C08.Spec QV.C08.Wf QV.C08.Hist QV.C08.Lin.
Import ListNotations.
Open Scope Q_scope.

Lemma from_transformation_empty_linear_refuted_ex : exists w T w' c t,
  from_transformation w T = OK w' /\ okb (WTrans w T) = true /\ inb c (channels (WTrans w T)) = true /\
  kerr (WTrans w T) c = false /\ t_wfb T = false /\
  oQeqb (sample w' c t) (Some 7) = true /\ oQeqb (sample (WTrans w T) c t) (Some 9) = true.
Proof.
  exists (WMulti [WConst 1 3 1%N; WConst 1 4 2%N]),
         (TChain [TParallel [(3%N, TC 9)]; TLinear [1%N; 2%N] [3%N] [[1; 1]]; TLinear [] [3%N] [[]]]).
  eexists. exists 3%N, (1#4). vm_compute. repeat split; reflexivity.
Qed.

Lemma history_shadow_refuted_ex : exists w calls c ts,
  okb w = true /\ twf_all w = true /\ kerr w c = false /\ In (c, 0%N, ts) calls /\
  (forall c' a' ts', In (c', a', ts') calls -> ts' = ts) /\
  match nth 1 (run_hist w calls []) (Err EType), get_sampled w c ts with
  | OK [Some a0; Some a1; Some a2], OK [Some f0; Some f1; Some f2] =>
      Qeq_bool a0 7 && Qeq_bool a1 7 && Qeq_bool a2 7 && Qeq_bool f0 2 && Qeq_bool f1 (9#4) && Qeq_bool f2 (5#2)
  | _, _ => false
  end = true.
Proof.
  exists (WTrans (WMulti [WConst 1 2 1%N; WTable 2%N [mkE 0 0 Hold; mkE 1 1 Linear]; WTable 3%N [mkE 0 0 Hold; mkE 1 3 Linear]])
                 (TChain [TParallel [(4%N, TC 7)]; TLinear [1%N; 2%N] [4%N] [[1; 1]]])),
         [(3%N, 0%N, [0; 1#4; 1#2]); (4%N, 0%N, [0; 1#4; 1#2])], 4%N, [0; 1#4; 1#2].
  split; [reflexivity|]. split; [reflexivity|]. split; [reflexivity|]. split; [right; left; reflexivity|].
  split; [|vm_compute; reflexivity].
  intros c' a' ts' [H|[H|[]]]; injection H as _ _ <-; reflexivity.
Qed.

(* get_subset_for_channels below a reversed sequence: the restricted parts fold to a constant (total), the original
   leaves t = 0 NaN (known finding C08-reversed-composite-junction) *)
Lemma subset_refuted_ex : exists w cs w' c t,
  okb w = true /\ get_subset w cs = OK w' /\ inb c cs = true /\ Qeq_bool t 0 = true /\ Qltb t (duration w) = true /\
  sample w' c t = Some 1 /\ sample w c t = None.
Proof.
  exists (WRev (WSeq [WMulti [WConst (1#2) 1 1%N; WTable 2%N [mkE 0 1 Hold; mkE (1#2) 2 Linear]];
                      WMulti [WConst (1#2) 1 1%N; WTable 2%N [mkE 0 1 Hold; mkE (1#2) 2 Linear]]])), [1%N].
  eexists. exists 1%N, 0. vm_compute. repeat split; reflexivity.
Qed.

(* the optimising constructors against the plain composite: the folded constant is total, the reversed plain sequence is
   NaN at t = 0 (same known finding) *)
Lemma constructors_refuted_ex : exists r w wp c t,
  build r = OK w /\ build_plain r = OK wp /\ inb c (channels wp) = true /\ Qeq_bool t 0 = true /\ Qltb t (duration wp) = true /\
  sample w c t = Some 1 /\ sample wp c t = None.
Proof.
  exists (RRev (RSeq true [RConst (1#2) 1 1%N; RConst (1#2) 1 1%N])). do 2 eexists. exists 1%N, 0.
  vm_compute. repeat split; reflexivity.
Qed.
