(* C08 — a reported constant value is the sampled value at every time of [0, duration)
   (waveforms without a TransformingWaveform node; see notes/C08.md). *)
From Coq Require Import List ZArith QArith Qabs Bool Lia Lqa.
Require Import QV.C08.Model QV.C08.Spec QV.C08.Wf QV.C08.ProofsVec.
Import ListNotations.
Open Scope Q_scope.

Fixpoint no_trans (w : wf) : bool :=
  match w with
  | WTable _ _ | WConst _ _ _ | WFunc _ _ _ => true
  | WSeq l | WMulti l => (fix all (l : list wf) := match l with [] => true | x :: r => no_trans x && all r end) l
  | WRep b _ => no_trans b
  | WTrans _ _ => false
  | WSubset i _ | WFunctor i _ | WRev i => no_trans i
  | WArith l _ r => no_trans l && no_trans r
  end.
Lemma no_trans_all_Forall l :
  (fix all (l : list wf) := match l with [] => true | x :: r => no_trans x && all r end) l = true ->
  Forall (fun x => no_trans x = true) l.
Proof.
  induction l as [|x r IH]; intros H; constructor.
  - apply andb_prop in H as [H _]; exact H.
  - apply IH. apply andb_prop in H as [_ H]; exact H.
Qed.

(* ---- channel sets ---- *)
Lemma inb_app c a b : inb c (a ++ b) = inb c a || inb c b.
Proof. unfold inb. apply existsb_app. Qed.
Lemma inb_cons c x r : inb c (x :: r) = N.eqb c x || inb c r.
Proof. reflexivity. Qed.
Lemma inb_dedup c l : inb c (dedup l) = inb c l.
Proof.
  induction l as [|x r IH]; [reflexivity|]. cbn [dedup].
  destruct (inb x r) eqn:E.
  - rewrite IH, inb_cons. destruct (N.eqb c x) eqn:Ec; [|reflexivity].
    apply N.eqb_eq in Ec; subst. rewrite E. reflexivity.
  - rewrite !inb_cons, IH. reflexivity.
Qed.
Lemma inb_unionb c a b : inb c (unionb a b) = inb c a || inb c b.
Proof. unfold unionb. rewrite inb_dedup. apply inb_app. Qed.
Lemma subsetb_inb a b c : subsetb a b = true -> inb c a = true -> inb c b = true.
Proof.
  unfold subsetb. rewrite forallb_forall. intros H Hc. unfold inb in Hc. apply existsb_exists in Hc as [x [Hx E]].
  apply N.eqb_eq in E; subst. apply H; assumption.
Qed.
Lemma set_eqb_inb a b c : set_eqb a b = true -> inb c a = inb c b.
Proof.
  unfold set_eqb. intros H. apply andb_prop in H as [H1 H2].
  destruct (inb c a) eqn:Ea, (inb c b) eqn:Eb; auto.
  - rewrite (subsetb_inb _ _ _ H1 Ea) in Eb; discriminate.
  - rewrite (subsetb_inb _ _ _ H2 Eb) in Ea; discriminate.
Qed.
Lemma lookup_in_keys {A} c (f : list (chan * A)) : inb c (keys f) = true -> exists g, lookup c f = Some g.
Proof.
  induction f as [|[k v] r IH]; cbn; [discriminate|]. destruct (N.eqb c k); eauto.
Qed.

(* ---- durations ---- *)
Fixpoint sumd (l : list wf) : Q := match l with [] => 0 | x :: r => duration x + sumd r end.
Lemma duration_seq l : duration (WSeq l) = sumd l.
Proof. reflexivity. Qed.

(* ---- compatibility of the pointwise operations with == ---- *)
Lemma aop_at_compat o a a' b b' : a == a' -> b == b' -> aop_at o a b == aop_at o a' b'.
Proof. intros H1 H2. destruct o; cbn; rewrite H1, H2; reflexivity. Qed.
Lemma aop_rhs_compat o b b' : b == b' -> aop_rhs_only o b == aop_rhs_only o b'.
Proof. intros H. destruct o; cbn; rewrite H; reflexivity. Qed.
Lemma functor_at_compat g a a' : a == a' -> functor_at g a == functor_at g a'.
Proof. intros H. destruct g; cbn; rewrite H; reflexivity. Qed.

(* ---- the constant fold of SequenceWaveform.constant_value ---- *)
Section SeqCv.
  Variable c : chan.
  Fixpoint cvgo (l : list wf) (v : option Q) : option Q :=
    match l with
    | [] => v
    | x :: r => match cv x c with
                | None => None
                | Some xv => match v with
                             | None => cvgo r (Some xv)
                             | Some vv => if Qeq_bool xv vv then cvgo r v else None
                             end
                end
    end.
End SeqCv.
Lemma cv_seq l c : cv (WSeq l) c = cvgo c l None.
Proof. reflexivity. Qed.

Lemma cvgo_some c l : forall va v, cvgo c l (Some va) = Some v ->
  v = va /\ Forall (fun x => exists xv, cv x c = Some xv /\ xv == va) l.
Proof.
  induction l as [|x r IH]; intros va v H; cbn in H.
  - injection H as <-. auto.
  - destruct (cv x c) as [xv|] eqn:Ex; [|discriminate].
    destruct (Qeq_bool xv va) eqn:E; [|discriminate].
    apply IH in H as [-> Hall]. split; auto. constructor; auto.
    exists xv. split; auto. apply Qeq_bool_iff; assumption.
Qed.
Lemma cvgo_none c l v : cvgo c l None = Some v ->
  Forall (fun x => exists xv, cv x c = Some xv /\ xv == v) l.
Proof.
  destruct l as [|x r]; cbn; [discriminate|].
  destruct (cv x c) as [xv|] eqn:Ex; [|discriminate].
  intros H. apply cvgo_some in H as [-> Hall]. constructor; auto. exists xv; split; auto. reflexivity.
Qed.

Lemma seq_children_have_chan l ch :
  match l with [] => false | x :: r => forallb (fun y => set_eqb (channels y) (channels x)) r end = true ->
  inb ch (channels (WSeq l)) = true -> Forall (fun y => inb ch (channels y) = true) l.
Proof.
  destruct l as [|x r]; [discriminate|]. intros Hchs Hch. cbn [channels] in Hch. constructor; auto.
  rewrite forallb_forall in Hchs. apply Forall_forall. intros y Hy.
  rewrite (set_eqb_inb _ _ ch (Hchs y Hy)). exact Hch.
Qed.

Definition sound_at (w : wf) (c : chan) (v : Q) : Prop :=
  forall t, 0 <= t -> t < duration w -> exists v', sample w c t = Some v' /\ v' == v.

Lemma seqp_const c t v l : Forall (fun x => sound_at x c v) l -> forall time acc,
  ((exists a, acc = Some a /\ a == v) \/ (time <= t /\ t < time + sumd l)) ->
  exists v', seqp c t l time acc = Some v' /\ v' == v.
Proof.
  induction 1 as [|s r Hs _ IH]; intros time acc Hc; cbn [seqp sumd] in *.
  - destruct Hc as [[a [-> Ha]]|[H1 H2]]; [eauto|lra].
  - cbv zeta. apply IH.
    destruct (negb (Qltb t time) && Qltb t (time + duration s)) eqn:E.
    + left. apply andb_prop in E as [E1 E2].
      unfold Qltb in E1, E2. rewrite negb_involutive in E1. apply Qle_bool_iff in E1.
      apply negb_true_iff in E2. assert (E3 : ~ time + duration s <= t) by (rewrite <- Qle_bool_iff; congruence).
      destruct (Hs (t - time)) as [v' [Hv Hq]]; [lra|lra|]. eauto.
    + destruct Hc as [Ha|[H1 H2]]; [left; exact Ha|].
      right. apply andb_false_iff in E as [E|E].
      * unfold Qltb in E. rewrite negb_involutive in E.
        assert (~ time <= t) by (rewrite <- Qle_bool_iff; congruence). lra.
      * unfold Qltb in E. apply negb_false_iff in E. apply Qle_bool_iff in E. split; lra.
Qed.

Fixpoint kq (bd : Q) (k : nat) : Q := match k with O => 0 | S k' => bd + kq bd k' end.
Lemma kq_mult bd k : kq bd k == bd * inject_Z (Z.of_nat k).
Proof.
  induction k as [|k IH]; [cbn [kq Z.of_nat]; change (inject_Z 0) with 0; ring|].
  cbn [kq]. rewrite IH, Nat2Z.inj_succ. unfold Z.succ. rewrite inject_Z_plus. change (inject_Z 1) with 1. ring.
Qed.
Lemma repp_const c t v b : sound_at b c v -> forall k time acc,
  ((exists a, acc = Some a /\ a == v) \/ (time <= t /\ t < time + kq (duration b) k)) ->
  exists v', repp c t b k time acc = Some v' /\ v' == v.
Proof.
  intros Hs. induction k as [|k IH]; intros time acc Hc; cbn [repp kq] in *.
  - destruct Hc as [[a [-> Ha]]|[H1 H2]]; [eauto|lra].
  - cbv zeta. apply IH.
    destruct (negb (Qltb t time) && Qltb t (time + duration b)) eqn:E.
    + left. apply andb_prop in E as [E1 E2].
      unfold Qltb in E1, E2. rewrite negb_involutive in E1. apply Qle_bool_iff in E1.
      apply negb_true_iff in E2. assert (E3 : ~ time + duration b <= t) by (rewrite <- Qle_bool_iff; congruence).
      destruct (Hs (t - time)) as [v' [Hv Hq]]; [lra|lra|]. eauto.
    + destruct Hc as [Ha|[H1 H2]]; [left; exact Ha|].
      right. apply andb_false_iff in E as [E|E].
      * unfold Qltb in E. rewrite negb_involutive in E.
        assert (~ time <= t) by (rewrite <- Qle_bool_iff; congruence). lra.
      * unfold Qltb in E. apply negb_false_iff in E. apply Qle_bool_iff in E. split; lra.
Qed.

Lemma sound_at_eq w c v v' : v == v' -> sound_at w c v -> sound_at w c v'.
Proof. intros E H t H0 H1. destruct (H t H0 H1) as [x [Hx Hq]]. exists x. split; auto. rewrite Hq; exact E. Qed.

(* ------------------------------------------------------------------------------------------------------------------ *)

Theorem cv_sound_no_trans : forall w, okb w = true -> no_trans w = true -> forall c v t,
  inb c (channels w) = true -> cv w c = Some v -> 0 <= t -> t < duration w ->
  exists v', sample w c t = Some v' /\ v' == v.
Proof.
  intros w. induction w using wf_ind'; intros Hok Hnt ch vv t Hch Hcv H0 H1; cbn [okb no_trans] in Hok, Hnt.
  - discriminate.
  - cbn in Hcv |- *. injection Hcv as <-. exists v; split; reflexivity.
  - discriminate.
  - (* sequence *)
    apply andb_prop in Hok as [Hchs Hoks]. apply okb_all_Forall in Hoks. apply no_trans_all_Forall in Hnt.
    rewrite cv_seq in Hcv. apply cvgo_none in Hcv.
    rewrite sample_seq. rewrite duration_seq in H1.
    apply seqp_const with (v := vv); [|right; split; lra].
    assert (Hin := seq_children_have_chan l ch Hchs Hch).
    clear Hchs Hch H0 H1.
    induction H as [|s l' Hs _ IH]; [constructor|].
    apply Forall_cons_iff in Hoks as [Ho1 Ho2]. apply Forall_cons_iff in Hnt as [Hn1 Hn2].
    apply Forall_cons_iff in Hcv as [[xv [Hxv Hq]] Hc2]. apply Forall_cons_iff in Hin as [Hi1 Hi2].
    constructor; auto.
    apply sound_at_eq with (v := xv); auto. intros t' Ht0 Ht1. eapply Hs; eauto.
  - (* multi-channel *)
    apply andb_prop in Hok as [Hok Hoks]. apply andb_prop in Hok as [Hdur Hov].
    apply okb_all_Forall in Hoks. apply no_trans_all_Forall in Hnt.
    assert (Hd : Forall (fun y => duration y == duration (WMulti l)) l).
    { destruct l as [|x r]; [discriminate|]. cbn [duration].
      constructor; [reflexivity|]. rewrite forallb_forall in Hdur. apply Forall_forall. intros y Hy.
      apply Qeq_bool_iff. auto. }
    clear Hdur Hov. revert H1 Hd. generalize (duration (WMulti l)) as d0. intros d0 H1 Hd.
    cbn [cv sample channels] in *.
    induction H as [|s l' Hs _ IH]; [discriminate|].
    apply Forall_cons_iff in Hoks as [Ho1 Ho2]. apply Forall_cons_iff in Hnt as [Hn1 Hn2].
    apply Forall_cons_iff in Hd as [Hd1 Hd2].
    destruct (inb ch (channels s)) eqn:E.
    + eapply Hs; eauto. lra.
    + apply IH; auto. rewrite inb_unionb, E in Hch. exact Hch.
  - (* repetition *)
    apply andb_prop in Hok as [Hn Hokb]. cbn [cv channels] in *.
    rewrite sample_rep. apply repp_const with (v := vv).
    + intros t' Ht0 Ht1. eapply IHw; eauto.
    + right. split; [lra|]. rewrite kq_mult. cbn [duration] in H1.
      rewrite Z2Nat.id; [lra|]. apply Z.leb_le in Hn. lia.
  - discriminate.
  - (* subset *)
    apply andb_prop in Hok as [Hok Hne]. apply andb_prop in Hok as [Hokb Hsub].
    cbn [cv channels sample duration] in *. eapply IHw; eauto. eapply subsetb_inb; eauto.
  - (* arithmetic *)
    apply andb_prop in Hok as [Hok Hdur]. apply andb_prop in Hok as [Hok1 Hok2].
    apply andb_prop in Hnt as [Hnt1 Hnt2]. apply Qeq_bool_iff in Hdur.
    cbn [cv channels sample duration] in *. rewrite inb_unionb in Hch.
    destruct (inb ch (channels w2)) eqn:E2; cbn [negb] in Hcv.
    + destruct (cv w2 ch) as [rv|] eqn:Er; [|discriminate].
      destruct (IHw2 Hok2 Hnt2 ch rv t E2 Er H0) as [rv' [Hr Hrq]]; [lra|].
      destruct (inb ch (channels w1)) eqn:E1.
      * destruct (cv w1 ch) as [lv|] eqn:El; [|discriminate]. injection Hcv as <-.
        destruct (IHw1 Hok1 Hnt1 ch lv t E1 El H0 H1) as [lv' [Hl Hlq]].
        rewrite Hl, Hr. cbn. eexists; split; [reflexivity|]. apply aop_at_compat; assumption.
      * injection Hcv as <-. rewrite Hr. cbn. eexists; split; [reflexivity|]. apply aop_rhs_compat; assumption.
    + rewrite orb_false_r in Hch. rewrite Hch. eapply IHw1; eauto.
  - (* functor *)
    apply andb_prop in Hok as [Hokb Hkeys]. cbn [cv channels sample duration] in *.
    destruct (cv w ch) as [iv|] eqn:Ei; [|discriminate].
    destruct (lookup ch f) as [g|] eqn:Eg; [|discriminate]. injection Hcv as <-.
    destruct (IHw Hokb Hnt ch iv t Hch Ei H0 H1) as [iv' [Hi Hiq]].
    rewrite Hi. cbn. eexists; split; [reflexivity|]. apply functor_at_compat; assumption.
  - discriminate.
Qed.

(* get_sampled's constant short cut therefore agrees with what sampling would have produced *)
Corollary gs_constant_is_sample : forall w, okb w = true -> no_trans w = true -> forall c v t,
  inb c (channels w) = true -> cv w c = Some v -> 0 <= t -> t < duration w ->
  oQeq (gs w c t) (sample w c t).
Proof.
  intros w Hok Hnt c v t Hc Hcv H0 H1. unfold gs. rewrite Hcv.
  destruct (cv_sound_no_trans w Hok Hnt c v t Hc Hcv H0 H1) as [v' [-> Hq]]. cbn. symmetry; exact Hq.
Qed.

(* non-vacuity *)
Example cv_sound_example :
  let w := WArith (WSeq [WConst (1#2) 1 1%N; WRep (WConst (1#4) 1 1%N) 2]) OpSub
                  (WSubset (WMulti [WConst 1 3 1%N; WConst 1 4 2%N]) [1%N]) in
  okb w = true /\ no_trans w = true /\ inb 1%N (channels w) = true /\ oQeqb (cv w 1%N) (Some (-2)) = true
  /\ oQeqb (sample w 1%N (3#4)) (Some (-2)) = true.
Proof. vm_compute. repeat split; reflexivity. Qed.
