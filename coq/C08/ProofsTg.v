(* C08 — toolkit for the time guard [ProofsSubset.tg] (no ReversedWaveform on the path of the channel is asked at its
   local time 0) on waveforms the constructors BUILD: the guard is insensitive to the representation of the time, can be
   established piece by piece, and survives the flattening of nested sequences, the sorting / flattening of multi-channel
   parts and constant folding. *)
From Coq Require Import List ZArith QArith Qabs Bool Lia Lqa Permutation.
Require Import QV.C08.Model QV.C08.Spec QV.C08.Wf QV.C08.ProofsVec QV.C08.ProofsConst QV.C08.ProofsProper
               QV.C08.ProofsTrafo QV.C08.ProofsCtor QV.C08.ProofsPar QV.C08.ProofsFlat QV.C08.ProofsDen
               QV.C08.ProofsMirror QV.C08.ProofsOkb QV.C08.ProofsSubset.
Import ListNotations.
Open Scope Q_scope.

(* ---- the guard does not depend on the representation of the time ---- *)
Lemma tg_list_proper t t' (E : t == t') : forall (ds : list (Q * (Q -> bool))),
  Forall (fun dg => forall u u', u == u' -> snd dg u = snd dg u') ds ->
  forall time time', time == time' -> tg_list t ds time = tg_list t' ds time'.
Proof.
  induction 1 as [|[d g] r Hg _ IH]; intros time time' Et; [reflexivity|]. cbn [tg_list]. cbv zeta. cbn [snd] in Hg.
  rewrite (Qltb_compat t t' time time' E Et), (Qltb_compat t t' (time + d) (time' + d) E ltac:(rewrite Et; reflexivity)).
  rewrite (Hg (t - time) (t' - time')) by (rewrite E, Et; reflexivity).
  rewrite (IH (time + d) (time' + d)) by (rewrite Et; reflexivity). reflexivity.
Qed.
Theorem tg_proper : forall w c t t', t == t' -> tg w c t = tg w c t'.
Proof.
  induction w using wf_ind'; intros ch t t' E; cbn [tg]; auto.
  - apply (tg_list_proper t t' E); [|reflexivity]. apply Forall_forall. intros dg Hdg.
    apply in_map_iff in Hdg as [s [<- Hs]]. cbn [snd]. intros u u' Eu. rewrite Forall_forall in H. apply H; auto.
  - f_equal. induction H as [|s r Hs _ IH]; [reflexivity|]. destruct (inb ch (channels s)); [apply Hs; exact E|exact IH].
  - apply (tg_list_proper t t' E); [|reflexivity]. apply Forall_forall. intros dg Hdg. apply repeat_spec in Hdg. subst dg.
    cbn [snd]. intros u u' Eu. apply IHw; exact Eu.
  - rewrite (IHw ch (duration w - t) (duration w - t')) by (rewrite E; reflexivity). f_equal. f_equal.
    destruct (Qeq_bool t 0) eqn:A, (Qeq_bool t' 0) eqn:B; auto.
    + apply Qeq_bool_iff in A. rewrite E in A. apply Qeq_bool_iff in A. congruence.
    + apply Qeq_bool_iff in B. rewrite <- E in B. apply Qeq_bool_iff in B. congruence.
Qed.

(* ---- establishing the guard of a list of parts piece by piece ---- *)
Lemma tg_list_intro t (g : wf -> Q -> bool) l : forall time,
  (forall x u, At l time t x u -> g x u = true) -> tg_list t (map (fun s => (duration s, g s)) l) time = true.
Proof.
  induction l as [|x r IH]; intros time H; [reflexivity|]. cbn [map tg_list]. cbv zeta. apply andb_true_intro. split.
  - destruct (negb (Qltb t time) && Qltb t (time + duration x)) eqn:C; [|reflexivity].
    apply andb_prop in C as [C1 C2]. apply negb_true_iff in C1. unfold Qltb in C1, C2.
    apply negb_false_iff in C1. apply Qle_bool_iff in C1. apply negb_true_iff in C2.
    apply H. constructor; [exact C1|]. destruct (Qlt_le_dec t (time + duration x)) as [L|G0]; [exact L|].
    apply Qle_bool_iff in G0. congruence.
  - apply IH. intros y u Hy. apply H. constructor. exact Hy.
Qed.

(* ---- the piece relation under shifts and concatenation ---- *)
Lemma At_shift l : forall time t x u time' t', t' - time' == t - time -> At l time t x u ->
  exists u', At l time' t' x u' /\ u' == u.
Proof.
  intros time t x u time' t' E H. revert time' t' E.
  induction H as [x r time t H0 H1|x r time t y u H IH]; intros time' t' E.
  - exists (t' - time'). split; [constructor; lra|exact E].
  - destruct (IH (time' + duration x) t') as [u' [HA Hu]]; [lra|]. exists u'. split; [constructor; exact HA|exact Hu].
Qed.
Lemma At_lt l time t x u : Forall (fun y => 0 <= duration y) l -> At l time t x u -> t < time + sumd l.
Proof.
  intros Hnn H. induction H as [x r time t H0 H1|x r time t y u H IH]; apply Forall_cons_iff in Hnn as [Hx Hr]; cbn [sumd].
  - assert (0 <= sumd r). { clear -Hr. induction Hr; cbn [sumd]; lra. } lra.
  - specialize (IH Hr). lra.
Qed.
Lemma At_app_inv A B : forall time t y u, At (A ++ B) time t y u ->
  At A time t y u \/ exists u', At B (time + sumd A) t y u' /\ u' == u.
Proof.
  induction A as [|a A IH]; intros time t y u H; cbn [app sumd] in *.
  - right. apply (At_shift B time t y u (time + 0) t); [lra|exact H].
  - inversion H as [? ? ? ? H0 H1|? ? ? ? ? ? H']; subst.
    + left. constructor; assumption.
    + destruct (IH _ _ _ _ H') as [L|[u' [R Hu]]].
      * left. constructor. exact L.
      * right. destruct (At_shift B (time + duration a + sumd A) t y u' (time + (duration a + sumd A)) t ltac:(lra) R) as [u'' [R' Hu']].
        exists u''. split; [exact R'|rewrite Hu'; exact Hu].
Qed.

(* a piece of the flattened list is a piece of the nested list, or a piece of one of its nested sequences *)
Lemma At_flatseq l : Forall (fun x => match is_seq x with Some s => Forall (fun y => 0 <= duration y) s | None => True end) l ->
  forall time t y u', At (flatseq l) time t y u' ->
  exists x u, At l time t x u /\
    ((is_seq x = None /\ y = x /\ u' == u) \/ (exists s u2, x = WSeq s /\ At s 0 u y u2 /\ u2 == u')).
Proof.
  induction 1 as [|x r Hx _ IH]; intros time t y u' H; [inversion H|].
  change (flatseq (x :: r)) with ((match is_seq x with Some s => s | None => [x] end) ++ flatseq r) in H.
  destruct (At_app_inv _ _ _ _ _ _ H) as [L|[u1 [R Hu1]]].
  - destruct (is_seq x) as [s|] eqn:Es.
    + destruct x; try discriminate. cbn [is_seq] in Es. injection Es as ->.
      pose proof (At_ge _ _ _ _ _ Hx L) as Hge. pose proof (At_lt _ _ _ _ _ Hx L) as Hlt.
      exists (WSeq s), (t - time). split; [constructor; [exact Hge|rewrite duration_seq; exact Hlt]|].
      right. assert (Esh : (t - time) - 0 == t - time) by lra.
      destruct (At_shift s time t y u' 0 (t - time) Esh L) as [u2 [L2 Hu2]].
      exists s, u2. split; [reflexivity|]. split; [exact L2|exact Hu2].
    + inversion L as [? ? ? ? H0 H1|? ? ? ? ? ? H']; subst; [|inversion H'].
      exists y, (t - time). split; [constructor; assumption|]. left. split; [exact Es|]. split; reflexivity.
  - assert (Esum : sumd (match is_seq x with Some s => s | None => [x] end) == duration x).
    { destruct (is_seq x) as [s|] eqn:Es; [destruct x; try discriminate; cbn [is_seq] in Es; injection Es as ->; reflexivity|cbn [sumd]; lra]. }
    assert (Esh : t - (time + duration x) == t - (time + sumd (match is_seq x with Some s => s | None => [x] end))) by (rewrite Esum; lra).
    destruct (At_shift _ _ t y u1 (time + duration x) t Esh R) as [u3 [R3 Hu3]].
    destruct (IH _ _ _ _ R3) as [x0 [u0 [HA Hcase]]].
    exists x0, u0. split; [constructor; exact HA|].
    destruct Hcase as [[E1 [E2 E3]]|[s [u2 [E1 [E2 E3]]]]].
    + left. split; [exact E1|]. split; [exact E2|]. rewrite <- E3, Hu3. symmetry. exact Hu1.
    + right. exists s, u2. split; [exact E1|]. split; [exact E2|]. rewrite E3, Hu3. exact Hu1.
Qed.

(* ---- multi-channel parts ---- *)
Lemma tg_multi_parts l c t : (forall x, In x l -> has c x = true -> tg x c t = true) -> tg (WMulti l) c t = true.
Proof.
  intros H. rewrite tg_multi_find. destruct (find (has c) l) as [x|] eqn:F; [|reflexivity].
  apply find_some in F as [Hx Hc]. auto.
Qed.
Lemma tg_multi_unique l c t x :
  (forall a b, In a l -> In b l -> has c a = true -> has c b = true -> a = b) ->
  In x l -> has c x = true -> tg (WMulti l) c t = tg x c t.
Proof. intros Hu Hx Hc. rewrite tg_multi_find, (find_has_unique l c x Hu Hx Hc). reflexivity. Qed.
Lemma tg_flat_parts subs c t : Forall good subs -> (forall x, In x subs -> has c x = true -> tg x c t = true) ->
  forall y, In y (flat subs) -> has c y = true -> tg y c t = true.
Proof.
  intros Hg H y Hy Hcy. rewrite Forall_forall in Hg.
  destruct (flat_part subs c y Hy Hcy) as [x [Hx [Hcx [->|[l2 [-> Hy2]]]]]]; [exact (H y Hx Hcx)|].
  pose proof (H _ Hx Hcx) as Kx.
  rewrite (tg_multi_unique l2 c t y (proj2 (overlap_free_unique c l2 [] (multi_overlap_free l2 (proj1 (Hg _ Hx))))) Hy2 Hcy) in Kx.
  exact Kx.
Qed.
Lemma tg_mk_multi L w' c t : mk_multi L = OK w' -> Forall good L -> (forall x y, In x L -> In y L -> duration x == duration y) ->
  (forall x, In x L -> has c x = true -> tg x c t = true) -> tg w' c t = true.
Proof.
  intros H Hg Hd HK. destruct (mk_multi_okb L w' H Hg Hd) as [_ [_ [_ [S [-> [HP _]]]]]].
  apply tg_multi_parts. intros x Hx Hcx. apply HK; [exact (Permutation_in _ HP Hx)|exact Hcx].
Qed.
Lemma tg_from_mapping dur d w' : from_mapping dur d = OK w' -> forall c t, tg w' c t = true.
Proof.
  intros H c t. unfold from_mapping in H. destruct d as [|[k v0] [|kv2 r]]; [discriminate| |].
  - injection H as <-. reflexivity.
  - injection H as <-. apply tg_multi_parts. intros x Hx _.
    apply (Permutation_in _ (sort_wfs_perm _)) in Hx.
    change (mk_const dur v0 k :: mk_const dur (snd kv2) (fst kv2) :: map (fun kv => mk_const dur (snd kv) (fst kv)) r)
      with (map (fun kv => mk_const dur (snd kv) (fst kv)) ((k, v0) :: kv2 :: r)) in Hx.
    apply in_map_iff in Hx as [kv [<- _]]. reflexivity.
Qed.

(* a waveform that reports a constant dict contains no ReversedWaveform on any path *)
Lemma tg_cvd : forall w d, cvd w = Some d -> forall c t, tg w c t = true.
Proof.
  induction w using wf_ind'; intros dd Hd ch t; cbn [cvd] in Hd; try discriminate; cbn [tg]; auto.
  - (* multi *) change (tg (WMulti l) ch t = true). apply tg_multi_parts. intros x Hx _.
    revert dd Hd. induction H as [|s r Hs _ IH]; intros dd Hd; [contradiction|].
    destruct (cvd s) as [a|] eqn:Ea; [|discriminate].
    match type of Hd with match ?g with Some _ => _ | None => _ end = _ => destruct g as [b|] eqn:Eb; [|discriminate] end.
    destruct Hx as [<-|Hx]; [exact (Hs a eq_refl ch t)|exact (IH Hx b eq_refl)].
  - (* repetition *) apply tg_list_all_true. apply Forall_forall. intros dg Hdg. apply repeat_spec in Hdg. subst dg.
    cbn [snd]. intros u. exact (IHw dd Hd ch u).
  - (* subset *) destruct (cvd w) as [d0|] eqn:E; [|discriminate]. exact (IHw d0 eq_refl ch t).
Qed.

(* ---- sequences ---- *)
Lemma tg_flatseq l c t : Forall (fun x => match is_seq x with Some s => Forall (fun y => 0 <= duration y) s | None => True end) l ->
  tg (WSeq l) c t = true -> tg (WSeq (flatseq l)) c t = true.
Proof.
  intros Hn H. cbn [tg] in *. apply tg_list_intro. intros y u' HA.
  destruct (At_flatseq l Hn 0 t y u' HA) as [x [u [HAx Hcase]]].
  pose proof (tg_list_At t (fun s => tg s c) l 0 x u H HAx) as Hx. cbn beta in Hx.
  destruct Hcase as [[_ [-> Eu]]|[s [u2 [-> [HAs Eu]]]]].
  - rewrite (tg_proper x c u' u Eu). exact Hx.
  - cbn [tg] in Hx. pose proof (tg_list_At u (fun s0 => tg s0 c) s 0 y u2 Hx HAs) as Hy. cbn beta in Hy.
    rewrite <- (tg_proper y c u2 u' Eu). exact Hy.
Qed.
Lemma nested_nonneg l : Forall (fun x => okb x = true) l ->
  Forall (fun x => match is_seq x with Some s => Forall (fun y => 0 <= duration y) s | None => True end) l.
Proof.
  intros H. eapply Forall_impl; [|exact H]. intros x Hx. destruct x; cbn [is_seq]; auto.
  cbn [okb] in Hx. apply andb_prop in Hx as [_ Hx]. apply okb_all_Forall in Hx.
  eapply Forall_impl; [|exact Hx]. intros y Hy. apply Qlt_le_weak, okb_pos; exact Hy.
Qed.
Lemma tg_from_sequence ws w' c t : Forall (fun x => okb x = true) ws -> from_sequence ws = OK w' ->
  0 <= t -> t < sumd ws -> tg (WSeq ws) c t = true -> tg w' c t = true.
Proof.
  intros Hok H H0 H1 Htg. unfold from_sequence in H. destruct ws as [|x [|y r]]; [discriminate| |].
  - injection H as <-. cbn [sumd] in H1. cbn [tg] in Htg.
    pose proof (tg_list_At t (fun s => tg s c) [x] 0 x (t - 0) Htg ltac:(constructor; lra)) as Hx. cbn beta in Hx.
    rewrite (tg_proper x c t (t - 0)) by lra. exact Hx.
  - match type of H with match ?cvs with Some _ => _ | None => _ end = _ => destruct cvs as [d|] end.
    + exact (tg_from_mapping _ _ _ H c t).
    + unfold mk_seq in H. match type of H with match ?fl with [] => _ | _ :: _ => _ end = _ => set (FL := fl) in * end.
      pose proof (tg_flatseq (x :: y :: r) c t (nested_nonneg _ Hok) Htg) as HF. change (flatseq (x :: y :: r)) with FL in HF.
      destruct FL as [|f0 fr]; [discriminate|].
      destruct (forallb (fun y0 => set_eqb (channels y0) (channels f0)) fr); [|discriminate]. injection H as <-. exact HF.
Qed.
Lemma tg_from_repetition_count b n w' c t : from_repetition_count b n = OK w' -> tg (WRep b n) c t = true -> tg w' c t = true.
Proof.
  intros H Htg. unfold from_repetition_count in H. destruct (cvd b) as [d|].
  - exact (tg_from_mapping _ _ _ H c t).
  - unfold mk_rep in H. destruct (n <? 1)%Z; [discriminate|]. injection H as <-. exact Htg.
Qed.
Lemma tg_from_to_reverse b c t : tg (WRev b) c t = true -> tg (from_to_reverse b) c t = true.
Proof.
  intros H. unfold from_to_reverse. destruct (cvd b) as [[|kv d]|] eqn:E; try exact H. exact (tg_cvd b _ E c t).
Qed.
