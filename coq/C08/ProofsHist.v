(* C08 — call histories: without TransformingWaveform nodes a waveform object has no state, so every call of a history
   answers exactly like a single call on a fresh object (whatever array objects are reused, whatever was asked before). *)
From Coq Require Import List ZArith QArith Qabs Bool Lia.
Require Import QV.C08.Model QV.C08.Spec QV.C08.Wf QV.C08.Hist QV.C08.ProofsVec QV.C08.ProofsConst.
Import ListNotations.
Open Scope Q_scope.

Section Loops.
  Variables (c : chan) (ts : list Q) (p : path).
  Fixpoint useq (l : list wf) (k : nat) (time : Q) (out : list (option Q)) (s : store) : list (option Q) * store :=
    match l with
    | [] => (out, s)
    | x :: r =>
        let e := time + duration x in
        let lo := ss_left time ts in
        let hi := ss_left e ts in
        let rs := usample x (p ++ [k]) c None (map (fun t => t - time) (slice ts lo hi)) s in
        useq r (S k) e (write out lo hi (fst rs)) (snd rs)
    end.
  Variable b : wf.
  Fixpoint urep (j : nat) (time : Q) (out : list (option Q)) (s : store) : list (option Q) * store :=
    match j with
    | O => (out, s)
    | S j' =>
        let e := time + duration b in
        let lo := ss_left time ts in
        let hi := ss_left e ts in
        let rs := usample b (p ++ [O]) c None (map (fun t => t - time) (slice ts lo hi)) s in
        urep j' e (write out lo hi (fst rs)) (snd rs)
    end.
End Loops.
Lemma usample_seq l p c aid ts s : usample (WSeq l) p c aid ts s = useq c ts p l O 0 (nan_like ts) s.
Proof. reflexivity. Qed.
Lemma usample_rep b n p c aid ts s : usample (WRep b n) p c aid ts s = urep c ts p b (Z.to_nat n) 0 (nan_like ts) s.
Proof. reflexivity. Qed.

Definition stateless (x : wf) : Prop := forall p c aid ts s, usample x p c aid ts s = (sample_vec x c ts, s).

Lemma useq_pure c ts p l : Forall stateless l -> forall k time out s,
  useq c ts p l k time out s = (seqv c ts l time out, s).
Proof.
  induction 1 as [|x r Hx _ IH]; intros k time out s; [reflexivity|].
  cbn [useq seqv]. cbv zeta. rewrite Hx. cbn [fst snd]. apply IH.
Qed.
Lemma urep_pure c ts p b : stateless b -> forall j time out s,
  urep c ts p b j time out s = (repv c ts b j time out, s).
Proof.
  intros Hb. induction j as [|j IH]; intros time out s; [reflexivity|].
  cbn [urep repv]. cbv zeta. rewrite Hb. cbn [fst snd]. apply IH.
Qed.

Theorem usample_stateless : forall w, no_trans w = true -> stateless w.
Proof.
  induction w using wf_ind'; intros Hnt p ch aid ts s; cbn [no_trans] in Hnt.
  - reflexivity.
  - reflexivity.
  - reflexivity.
  - apply no_trans_all_Forall in Hnt. rewrite usample_seq, sample_vec_seq. apply useq_pure.
    clear -H Hnt. induction H as [|x r Hx _ IH]; constructor.
    + apply Hx. apply Forall_cons_iff in Hnt as [Hn _]; exact Hn.
    + apply IH. apply Forall_cons_iff in Hnt as [_ Hn]; exact Hn.
  - apply no_trans_all_Forall in Hnt. cbn [usample sample_vec].
    generalize O as k. induction H as [|x r Hx _ IH]; intros k; [reflexivity|].
    apply Forall_cons_iff in Hnt as [Hn1 Hn2].
    destruct (inb ch (channels x)); [apply Hx; exact Hn1|apply IH; exact Hn2].
  - rewrite usample_rep, sample_vec_rep. apply urep_pure. exact (IHw Hnt).
  - discriminate.
  - cbn [usample sample_vec]. apply IHw; exact Hnt.
  - apply andb_prop in Hnt as [Hn1 Hn2]. cbn [usample sample_vec].
    destruct (inb ch (channels w1)), (inb ch (channels w2)).
    + rewrite (IHw1 Hn1). cbn [fst snd]. rewrite (IHw2 Hn2). reflexivity.
    + apply IHw1; exact Hn1.
    + rewrite (IHw2 Hn2). reflexivity.
    + rewrite (IHw2 Hn2). reflexivity.
  - cbn [usample sample_vec]. destruct (lookup ch f); [|reflexivity]. rewrite (IHw Hnt). reflexivity.
  - cbn [usample sample_vec]. rewrite (IHw Hnt). reflexivity.
Qed.

Lemma get_sampled_st_stateless w : no_trans w = true -> forall c aid ts s,
  get_sampled_st w c aid ts s = (get_sampled w c ts, s).
Proof.
  intros Hnt c aid ts s. unfold get_sampled_st, get_sampled.
  destruct ts as [|t0 r]; [reflexivity|].
  destruct (negb (monotonic (t0 :: r))); [reflexivity|].
  destruct (Qltb t0 0 || Qltb (duration w) (last (t0 :: r) 0)); [reflexivity|].
  destruct (negb (inb c (channels w))); [reflexivity|].
  destruct (cv w c); [reflexivity|].
  cbv zeta. rewrite (usample_stateless w Hnt). cbn [fst snd].
  destruct (zdiv w c); [reflexivity|]. destruct (kerr w c); reflexivity.
Qed.

(* every call of any history is answered like a single call on a fresh object *)
Theorem history_independent_no_trans : forall w, no_trans w = true -> forall calls s,
  run_hist w calls s = map (fun call => get_sampled w (fst (fst call)) (snd call)) calls.
Proof.
  intros w Hnt. induction calls as [|[[c a] ts] r IH]; intros s; [reflexivity|].
  cbn [run_hist map fst snd]. rewrite (get_sampled_st_stateless w Hnt). cbn [fst snd]. rewrite IH. reflexivity.
Qed.

(* the state machine is not vacuous: with a TransformingWaveform the same array object with changed content IS answered
   with the old content (known finding C08-trafo-cache-stale-after-inplace-times) *)
Example history_stale_refuted :
  let w := WTrans (WTable 1%N [mkE 0 1 Hold; mkE 1 2 Linear]) (TScale [(1%N, TC 2)]) in
  let calls := [(1%N, 0%N, [0; 1#2]); (1%N, 0%N, [1#4; 1])] in
  match run_hist w calls [], map (fun call => get_sampled w (fst (fst call)) (snd call)) calls with
  | [OK a1; OK a2], [OK b1; OK b2] => list_eqb' oQeqb a1 b1 && list_eqb' oQeqb a2 a1 && negb (list_eqb' oQeqb a2 b2)
  | _, _ => false
  end = true.
Proof. vm_compute. reflexivity. Qed.
(* ... while a different array object, or the same content, is answered correctly *)
Example history_fresh_array_ok :
  let w := WTrans (WTable 1%N [mkE 0 1 Hold; mkE 1 2 Linear]) (TScale [(1%N, TC 2)]) in
  let calls := [(1%N, 0%N, [0; 1#2]); (1%N, 1%N, [1#4; 1]); (1%N, 0%N, [0; 1#2])] in
  match run_hist w calls [], map (fun call => get_sampled w (fst (fst call)) (snd call)) calls with
  | [OK a1; OK a2; OK a3], [OK b1; OK b2; OK b3] => list_eqb' oQeqb a1 b1 && list_eqb' oQeqb a2 b2 && list_eqb' oQeqb a3 b3
  | _, _ => false
  end = true.
Proof. vm_compute. reflexivity. Qed.
