(* C08 — get_subset_for_channels in general (all waveform classes, any nesting): the result is well formed, has exactly
   the requested channels and the duration of the original, and samples like the original on the requested channels at
   every time of [0, duration) that the executable guard [tg] allows: a ReversedWaveform on the path of the channel must
   not be asked at ITS local time 0 (there the restricted waveform may fold to a total constant while the original
   reversed sequence answers NaN: C08_subset_refuted, known finding C08-reversed-composite-junction). *)
From Coq Require Import List ZArith QArith Qabs Bool Lia Lqa Permutation.
Require Import QV.C08.Model QV.C08.Spec QV.C08.Wf QV.C08.ProofsVec QV.C08.ProofsConst QV.C08.ProofsProper
               QV.C08.ProofsTrafo QV.C08.ProofsCtor QV.C08.ProofsPar QV.C08.ProofsFlat QV.C08.ProofsDen
               QV.C08.ProofsMirror QV.C08.ProofsOkb.
Import ListNotations.
Open Scope Q_scope.

(* ---- the guard ---- *)
Fixpoint tg_list (t : Q) (ds : list (Q * (Q -> bool))) (time : Q) : bool :=
  match ds with
  | [] => true
  | (d, g) :: r => let e := time + d in
                   (if negb (Qltb t time) && Qltb t e then g (t - time) else true) && tg_list t r e
  end.
Fixpoint tg (w : wf) (c : chan) (t : Q) {struct w} : bool :=
  match w with
  | WTable _ _ | WConst _ _ _ | WFunc _ _ _ | WTrans _ _ | WArith _ _ _ => true
  | WSeq l => tg_list t (map (fun s => (duration s, tg s c)) l) 0
  | WMulti l => match find (fun s => inb c (channels s)) l with Some s => true | None => true end &&
                (fix fd (l : list wf) := match l with
                   | [] => true
                   | s :: r => if inb c (channels s) then tg s c t else fd r end) l
  | WRep b n => tg_list t (repeat (duration b, tg b c) (Z.to_nat n)) 0
  | WSubset i _ | WFunctor i _ => tg i c t
  | WRev i => negb (Qeq_bool t 0) && tg i c (duration i - t)
  end.

Lemma tg_list_At t (g : wf -> Q -> bool) l : forall time x u,
  tg_list t (map (fun s => (duration s, g s)) l) time = true -> At l time t x u -> g x u = true.
Proof.
  intros time x u Hb H. revert Hb. induction H as [x r time t H0 H1|x r time t y u H IH]; cbn [map tg_list]; cbv zeta; intros Hb;
    apply andb_prop in Hb as [Hb1 Hb2].
  - rewrite (Qltb_false t time H0), (Qltb_true _ _ H1) in Hb1. exact Hb1.
  - exact (IH Hb2).
Qed.
Lemma tg_multi_find l c t : tg (WMulti l) c t = match find (has c) l with Some s => tg s c t | None => true end.
Proof.
  cbn [tg]. match goal with |- ?a && _ = _ => replace a with true by (destruct (find _ l); reflexivity) end. cbn [andb].
  induction l as [|s r IH]; [reflexivity|]. cbn [find]. unfold has at 1. destruct (inb c (channels s)); [reflexivity|exact IH].
Qed.

(* ---- related lists of parts ---- *)
Lemma At_rel (R : wf -> wf -> Prop) l l' : Forall2 (fun x a => duration a == duration x /\ R x a) l l' ->
  forall time time' t x u, time' == time -> At l time t x u ->
  exists a u', At l' time' t a u' /\ u' == u /\ R x a.
Proof.
  intros HF time time' t x u Ht H. revert l' time' Ht HF.
  induction H as [x r time t H0 H1|x r time t y u H IH]; intros l' time' Ht HF; inversion HF as [|? a ? r' [Hd HR] HF']; subst.
  - exists a, (t - time'). split; [constructor; rewrite ?Hd; lra|]. split; [lra|exact HR].
  - destruct (IH r' (time' + duration a)) as [b [u' [HA [Hu HRb]]]]; [rewrite Hd, Ht; reflexivity|exact HF'|].
    exists b, u'. split; [constructor; exact HA|]. split; assumption.
Qed.
Lemma sumd_rel l l' : Forall2 (fun x a => duration a == duration x) l l' -> sumd l' == sumd l.
Proof. induction 1 as [|x a l l' H _ IH]; [reflexivity|]. cbn [sumd]. rewrite H, IH. reflexivity. Qed.

(* ---- what a restricted waveform must satisfy ---- *)
Definition SubOK (w : wf) (cs : list chan) (w' : wf) : Prop :=
  good w' /\ (forall c, inb c (channels w') = inb c cs) /\ duration w' == duration w /\
  (forall c t, inb c cs = true -> 0 <= t -> t < duration w -> tg w c t = true -> oQeq (sample w' c t) (sample w c t)).

Definition sub_ok (w : wf) : Prop := forall cs w', cs <> [] -> subsetb cs (channels w) = true -> subset_u w cs = OK w' -> SubOK w cs w'.

Lemma get_wrap_ok x cs w' : good x -> sub_ok x -> cs <> [] -> get_wrap x cs (subset_u x cs) = OK w' -> SubOK x cs w'.
Proof.
  intros Hg Hs Hne H. unfold get_wrap in H. destruct (subsetb cs (channels x)) eqn:Es; cbn [negb] in H; [|discriminate].
  destruct (set_eqb cs (channels x)) eqn:Ee.
  - injection H as <-. split; [exact Hg|]. split; [intros c; symmetry; apply set_eqb_inb; exact Ee|].
    split; [reflexivity|intros; apply oQeq_refl].
  - exact (Hs cs w' Hne Es H).
Qed.

Lemma nonempty_has (cs : list chan) : cs <> [] -> exists e, inb e cs = true.
Proof. destruct cs as [|e r]; [congruence|]. intros _. exists e. rewrite inb_cons, N.eqb_refl. reflexivity. Qed.
Lemma not_disjoint a b e : inb e a = true -> inb e b = true -> disjointb a b = false.
Proof.
  intros Ha Hb. destruct (disjointb a b) eqn:E; auto. rewrite (proj1 (disjointb_spec a b) E e Ha) in Hb. discriminate.
Qed.

(* ---- the loops of unsafe_get_subset_for_channels as top-level functions ---- *)
Section SubLoops.
  Variable cs : list chan.
  Fixpoint seq_go (l : list wf) : res (list wf) :=
    match l with
    | [] => OK []
    | x :: r => if disjointb (channels x) cs then seq_go r
                else TRY a <- subset_u x (interb cs (channels x));; TRY b <- seq_go r;; OK (a :: b)
    end.
  Fixpoint multi_one (l : list wf) : res wf :=
    match l with
    | [] => Err EKey
    | x :: r => if disjointb (channels x) cs then multi_one r else get_wrap x cs (subset_u x cs)
    end.
  Fixpoint multi_go (l : list wf) : res (list wf) :=
    match l with
    | [] => OK []
    | x :: r => if disjointb (channels x) cs then multi_go r
                else let cs' := interb cs (channels x) in
                     TRY a <- get_wrap x cs' (subset_u x cs');; TRY b <- multi_go r;; OK (a :: b)
    end.
End SubLoops.
Lemma subset_u_seq l cs : subset_u (WSeq l) cs = (TRY subs <- seq_go cs l;; from_sequence subs).
Proof. reflexivity. Qed.
Lemma subset_u_multi l cs : subset_u (WMulti l) cs =
  match filter (fun x => negb (disjointb (channels x) cs)) l with
  | [] => Err EKey
  | [_] => multi_one cs l
  | _ => TRY subs <- multi_go cs l;; from_parallel subs
  end.
Proof. reflexivity. Qed.

Lemma SubOK_ext w cs cs' w' : (forall c, inb c cs' = inb c cs) -> SubOK w cs' w' -> SubOK w cs w'.
Proof.
  intros He [A [B [C D]]]. split; [exact A|]. split; [intros c; rewrite B; apply He|]. split; [exact C|].
  intros c t Hc. apply D. rewrite He. exact Hc.
Qed.
Lemma inb_single c k : inb k [c] = true -> k = c.
Proof. rewrite inb_cons. cbn. rewrite orb_false_r. apply N.eqb_eq. Qed.
Lemma sub_singleton cs c0 : cs <> [] -> subsetb cs [c0] = true -> forall c, inb c [c0] = inb c cs.
Proof.
  intros Hne Hs c. destruct (nonempty_has cs Hne) as [e He].
  pose proof (subsetb_inb _ _ _ Hs He) as He0. apply inb_single in He0. subst e.
  destruct (inb c cs) eqn:E; [exact (subsetb_inb _ _ _ Hs E)|].
  rewrite inb_cons. cbn. rewrite orb_false_r. destruct (N.eqb c c0) eqn:E2; [|reflexivity]. apply N.eqb_eq in E2. subst. congruence.
Qed.

Lemma seq_go_F2 cs l : (forall x, In x l -> disjointb (channels x) cs = false) -> forall subs, seq_go cs l = OK subs ->
  Forall2 (fun x a => subset_u x (interb cs (channels x)) = OK a) l subs.
Proof.
  induction l as [|x r IH]; intros Hd subs H; cbn [seq_go] in H.
  - injection H as <-. constructor.
  - rewrite (Hd x (or_introl eq_refl)) in H.
    destruct (subset_u x (interb cs (channels x))) as [a|] eqn:Ea; cbn [bind] in H; [|discriminate].
    destruct (seq_go cs r) as [b|] eqn:Eb; cbn [bind] in H; [|discriminate]. injection H as <-.
    constructor; [exact Ea|]. apply IH; auto. intros y Hy. apply Hd. right; exact Hy.
Qed.

Lemma interb_all cs chs : (forall c, inb c cs = true -> inb c chs = true) -> forall c, inb c (interb cs chs) = inb c cs.
Proof. intros H c. rewrite inb_interb. destruct (inb c cs) eqn:E; [rewrite (H c E); reflexivity|reflexivity]. Qed.
Lemma interb_nonempty cs chs e : inb e cs = true -> inb e chs = true -> interb cs chs <> [].
Proof.
  intros H1 H2 E. assert (Hi : inb e (interb cs chs) = true) by (rewrite inb_interb, H1, H2; reflexivity).
  rewrite E in Hi. discriminate.
Qed.
Lemma interb_subset cs chs : subsetb (interb cs chs) chs = true.
Proof. apply subsetb_sub. intros c Hc. rewrite inb_interb in Hc. apply andb_prop in Hc as [_ H]. exact H. Qed.

Lemma good_seq_parts l : good (WSeq l) -> Forall good l.
Proof.
  intros [Hok Hcan]. cbn [okb canonb] in *. apply andb_prop in Hok as [_ Hoks]. apply okb_all_Forall in Hoks.
  apply canonb_all_Forall in Hcan. apply Forall_forall. intros x Hx. rewrite Forall_forall in Hoks, Hcan. split; auto.
Qed.

Lemma sub_ok_seq l : good (WSeq l) -> Forall sub_ok l -> sub_ok (WSeq l).
Proof.
  intros Hg HI cs w' Hne Hsub H. rewrite subset_u_seq in H.
  destruct (seq_go cs l) as [subs|] eqn:Eg; cbn [bind] in H; [|discriminate].
  pose proof (good_seq_parts l Hg) as Hparts. destruct Hg as [Hok Hcan].
  pose proof Hok as Hok'. cbn [okb] in Hok'. apply andb_prop in Hok' as [Hchs Hoks]. apply okb_all_Forall in Hoks.
  destruct l as [|x0 r0]; [discriminate|].
  destruct (nonempty_has cs Hne) as [e He].
  assert (Hcsx : forall x, In x (x0 :: r0) -> forall c, inb c cs = true -> inb c (channels x) = true).
  { intros x Hx c Hc. pose proof (subsetb_inb _ _ _ Hsub Hc) as H0. cbn [channels] in H0.
    destruct Hx as [<-|Hx]; [exact H0|]. rewrite forallb_forall in Hchs. rewrite (set_eqb_inb _ _ c (Hchs x Hx)). exact H0. }
  assert (Hnd : forall x, In x (x0 :: r0) -> disjointb (channels x) cs = false).
  { intros x Hx. apply (not_disjoint _ _ e); [apply (Hcsx x Hx e He)|exact He]. }
  pose proof (seq_go_F2 cs _ Hnd subs Eg) as F2.
  assert (F : Forall2 (fun x a => duration a == duration x /\ SubOK x cs a) (x0 :: r0) subs).
  { clear Eg H. revert F2. rewrite Forall_forall in HI, Hparts.
    assert (G : forall l subs, (forall x, In x l -> In x (x0 :: r0)) ->
              Forall2 (fun x a => subset_u x (interb cs (channels x)) = OK a) l subs ->
              Forall2 (fun x a => duration a == duration x /\ SubOK x cs a) l subs).
    { induction 2 as [|x a l0 s0 Hxa _ IH]; constructor.
      - assert (Hx : In x (x0 :: r0)) by (apply H; left; reflexivity).
        assert (S : SubOK x (interb cs (channels x)) a).
        { apply (HI x Hx); auto.
          - apply (interb_nonempty cs (channels x) e He). apply (Hcsx x Hx e He).
          - apply interb_subset. }
        apply (SubOK_ext x cs) in S; [|apply interb_all; apply Hcsx; exact Hx].
        split; [exact (proj1 (proj2 (proj2 S)))|exact S].
      - apply IH. intros y Hy. apply H. right; exact Hy. }
    intros F2. exact (G _ _ (fun x Hx => Hx) F2). }
  (* the sequence of the restricted parts is well formed *)
  assert (Hsubs_ne : subs <> []) by (inversion F; discriminate).
  assert (Hsubs : forall a, In a subs -> good a /\ forall c, inb c (channels a) = inb c cs).
  { intros a Ha. clear -F Ha. induction F as [|x b l0 s0 [_ S] _ IH]; [contradiction|].
    destruct Ha as [<-|Ha]; [destruct S as [A [B _]]; auto|auto]. }
  assert (HokS : okb (WSeq subs) = true).
  { cbn [okb]. destruct subs as [|a0 sr]; [congruence|]. apply andb_true_intro. split.
    - apply forallb_forall. intros y Hy. apply set_eqb_intro. intros c.
      rewrite (proj2 (Hsubs y (or_intror Hy)) c), (proj2 (Hsubs a0 (or_introl eq_refl)) c). reflexivity.
    - refine (okb_Forall_all (a0 :: sr) _). apply Forall_forall. intros y Hy. exact (proj1 (proj1 (Hsubs y Hy))). }
  assert (HcanS : Forall (fun x => canonb x = true) subs).
  { apply Forall_forall. intros y Hy. exact (proj2 (proj1 (Hsubs y Hy))). }
  destruct (from_sequence_okb subs w' HokS HcanS H) as [Gw [Cw Dw]].
  assert (Hsum : sumd subs == sumd (x0 :: r0)).
  { apply sumd_rel. clear -F. induction F as [|x a l0 s0 [Hd _] _ IH]; constructor; auto. }
  assert (HchS : forall c, inb c (channels (WSeq subs)) = inb c cs).
  { intros c. destruct subs as [|a0 sr]; [congruence|]. cbn [channels]. apply (proj2 (Hsubs a0 (or_introl eq_refl))). }
  split; [exact Gw|]. split; [intros c; rewrite Cw; apply HchS|]. split; [rewrite Dw, duration_seq; exact Hsum|].
  intros c t Hc H0 H1 Htg. rewrite duration_seq in H1.
  eapply oQeq_trans.
  { apply (from_sequence_sound subs w' HokS H c t); [rewrite HchS; exact Hc|exact H0|rewrite duration_seq, Hsum; exact H1]. }
  rewrite !sample_seq.
  assert (Hnn : Forall (fun y => 0 <= duration y) (x0 :: r0)).
  { eapply Forall_impl; [|exact Hoks]. intros y Hy. apply Qlt_le_weak, okb_pos; exact Hy. }
  assert (HnnS : Forall (fun y => 0 <= duration y) subs).
  { apply Forall_forall. intros y Hy. apply Qlt_le_weak, okb_pos. exact (proj1 (proj1 (Hsubs y Hy))). }
  destruct (At_exists _ Hnn 0 t) as [x [u HA]]; [lra|lra|].
  destruct (At_rel (fun x a => SubOK x cs a) _ _ F 0 0 t x u (Qeq_refl 0) HA) as [a [u' [HA' [Hu S]]]].
  rewrite (seqp_At c _ 0 t a u' None HnnS HA'), (seqp_At c _ 0 t x u None Hnn HA).
  destruct (At_local _ _ _ _ _ HA) as [U0 U1].
  eapply oQeq_trans; [apply (sample_proper a c u' u Hu)|].
  destruct S as [_ [_ [_ S]]]. apply S; auto.
  cbn [tg] in Htg. exact (tg_list_At t (fun s => tg s c) _ 0 x u Htg HA).
Qed.

Lemma Forall2_repeat {A B} (R : A -> B -> Prop) x y k : R x y -> Forall2 R (repeat x k) (repeat y k).
Proof. intros H. induction k; cbn; constructor; auto. Qed.

Lemma sub_ok_rep b n : good (WRep b n) -> sub_ok b -> sub_ok (WRep b n).
Proof.
  intros [Hok Hcan] HI cs w' Hne Hsub H. cbn [subset_u] in H.
  destruct (subset_u b cs) as [b'|] eqn:Eb; cbn [bind] in H; [|discriminate].
  cbn [okb canonb channels] in *. apply andb_prop in Hok as [Hn Hokb]. apply Z.leb_le in Hn.
  destruct (HI cs b' Hne Hsub Eb) as [Gb [Cb [Db Sb]]].
  destruct (from_repetition_count_okb b' n w' Gb Hn H) as [Gw [Cw Dw]].
  split; [exact Gw|]. split; [intros c; rewrite Cw; apply Cb|]. split; [rewrite Dw; cbn [duration]; rewrite Db; reflexivity|].
  intros c t Hc H0 H1 Htg.
  set (k := Z.to_nat n).
  assert (HD : forall x, duration (WRep x n) == sumd (repeat x k)).
  { intros x. cbn [duration]. rewrite sumd_repeat, kq_mult. unfold k. rewrite Z2Nat.id by lia. reflexivity. }
  eapply oQeq_trans.
  { apply (from_repetition_count_sound b' n w' (proj1 Gb) Hn H c t); [rewrite Cb; exact Hc|exact H0|].
    cbn [duration] in *. rewrite Db. exact H1. }
  rewrite !sample_rep, !repp_seqp. fold k.
  assert (Hnn : Forall (fun y => 0 <= duration y) (repeat b k)).
  { apply Forall_forall. intros y Hy. apply repeat_spec in Hy. subst y. apply Qlt_le_weak, okb_pos; exact Hokb. }
  assert (Hnn' : Forall (fun y => 0 <= duration y) (repeat b' k)).
  { apply Forall_forall. intros y Hy. apply repeat_spec in Hy. subst y. apply Qlt_le_weak, okb_pos. exact (proj1 Gb). }
  destruct (At_exists _ Hnn 0 t) as [x [u HA]]; [lra|rewrite <- (HD b); lra|].
  assert (F : Forall2 (fun x a => duration a == duration x /\ (x = b /\ a = b')) (repeat b k) (repeat b' k))
    by (apply Forall2_repeat; auto).
  destruct (At_rel (fun x a => x = b /\ a = b') _ _ F 0 0 t x u (Qeq_refl 0) HA) as [a [u' [HA' [Hu [-> ->]]]]].
  rewrite (seqp_At c _ 0 t b' u' None Hnn' HA'), (seqp_At c _ 0 t b u None Hnn HA).
  destruct (At_local _ _ _ _ _ HA) as [U0 U1].
  eapply oQeq_trans; [apply (sample_proper b' c u' u Hu)|]. apply Sb; auto.
  cbn [tg] in Htg. fold k in Htg. rewrite <- (map_repeat' (fun s => (duration s, tg s c))) in Htg.
  exact (tg_list_At t (fun s => tg s c) _ 0 b u Htg HA).
Qed.

(* ---- multi-channel ---- *)
Lemma find_has_unique l c x :
  (forall a b, In a l -> In b l -> has c a = true -> has c b = true -> a = b) ->
  In x l -> has c x = true -> find (has c) l = Some x.
Proof.
  intros Hu Hx Hc. induction l as [|h r IH]; [contradiction|]. cbn [find].
  destruct (has c h) eqn:Eh.
  - f_equal. apply Hu; cbn; auto.
  - destruct Hx as [->|Hx]; [congruence|]. apply IH; auto. intros a b Ha Hb. apply Hu; cbn; auto.
Qed.
Lemma disjoint_false_ex a b : disjointb a b = false -> exists e, inb e a = true /\ inb e b = true.
Proof.
  unfold disjointb. destruct (interb a b) as [|e r] eqn:E; [discriminate|]. intros _. exists e.
  assert (Hi : inb e (interb a b) = true) by (rewrite E, inb_cons, N.eqb_refl; reflexivity).
  rewrite inb_interb in Hi. apply andb_prop in Hi. exact Hi.
Qed.
Lemma multi_one_spec cs l w' : multi_one cs l = OK w' ->
  exists x, In x l /\ disjointb (channels x) cs = false /\ get_wrap x cs (subset_u x cs) = OK w'.
Proof.
  induction l as [|x r IH]; cbn [multi_one]; [discriminate|]. destruct (disjointb (channels x) cs) eqn:E.
  - intros H. destruct (IH H) as [y [Hy [Hd Hg]]]. exists y. split; [right; exact Hy|auto].
  - intros H. exists x. split; [left; reflexivity|auto].
Qed.
Lemma multi_go_F2 cs l : forall subs, multi_go cs l = OK subs ->
  Forall2 (fun x a => get_wrap x (interb cs (channels x)) (subset_u x (interb cs (channels x))) = OK a)
          (filter (fun x => negb (disjointb (channels x) cs)) l) subs.
Proof.
  induction l as [|x r IH]; intros subs H; cbn [multi_go filter] in *.
  - injection H as <-. constructor.
  - destruct (disjointb (channels x) cs) eqn:E; cbn [negb]; [apply IH; exact H|]. cbv zeta in H.
    destruct (get_wrap x (interb cs (channels x)) (subset_u x (interb cs (channels x)))) as [a|] eqn:Ea; cbn [bind] in H; [|discriminate].
    destruct (multi_go cs r) as [b|] eqn:Eb; cbn [bind] in H; [|discriminate]. injection H as <-.
    constructor; [exact Ea|]. apply IH. reflexivity.
Qed.
Lemma Forall2_len {A B} (R : A -> B -> Prop) l l' : Forall2 R l l' -> length l = length l'.
Proof. induction 1; cbn; auto. Qed.
Lemma Forall2_In_l {A B} (R : A -> B -> Prop) l l' x : Forall2 R l l' -> In x l -> exists a, In a l' /\ R x a.
Proof.
  induction 1 as [|y b l0 s0 Hyb _ IH]; intros Hx; [contradiction|]. destruct Hx as [<-|Hx].
  - exists b. split; [left; reflexivity|exact Hyb].
  - destruct (IH Hx) as [a [Ha HR]]. exists a. split; [right; exact Ha|exact HR].
Qed.
Lemma Forall2_In_r {A B} (R : A -> B -> Prop) l l' a : Forall2 R l l' -> In a l' -> exists x, In x l /\ R x a.
Proof.
  induction 1 as [|y b l0 s0 Hyb _ IH]; intros Ha; [contradiction|]. destruct Ha as [<-|Ha].
  - exists y. split; [left; reflexivity|exact Hyb].
  - destruct (IH Ha) as [x [Hx HR]]. exists x. split; [right; exact Hx|exact HR].
Qed.
Lemma good_multi_parts l : good (WMulti l) -> Forall good l.
Proof.
  intros [Hok Hcan]. cbn [okb canonb] in *. apply andb_prop in Hok as [_ Hoks]. apply okb_all_Forall in Hoks.
  apply canonb_all_Forall in Hcan. apply Forall_forall. intros x Hx. rewrite Forall_forall in Hoks, Hcan. split; auto.
Qed.
Lemma multi_part_duration l y : okb (WMulti l) = true -> In y l -> duration y == duration (WMulti l).
Proof.
  intros Hok Hy. cbn [okb] in Hok. apply andb_prop in Hok as [Hok _]. apply andb_prop in Hok as [Hd _].
  destruct l as [|x r]; [contradiction|]. cbn [duration]. destruct Hy as [<-|Hy]; [reflexivity|].
  rewrite forallb_forall in Hd. apply Qeq_bool_iff. auto.
Qed.
Lemma multi_overlap_free l : okb (WMulti l) = true -> overlap_free l [] = true.
Proof. intros Hok. cbn [okb] in Hok. apply andb_prop in Hok as [Hok _]. apply andb_prop in Hok as [_ H]. exact H. Qed.
Lemma existsb_has_flat c l : existsb (has c) (flat l) = existsb (has c) l.
Proof.
  induction l as [|x r IH]; [reflexivity|]. unfold flat in *. cbn [flat_map existsb]. rewrite existsb_app, IH. f_equal.
  destruct x; cbn [is_multi existsb]; try apply orb_false_r. symmetry. apply has_multi.
Qed.

Lemma sub_ok_multi l : good (WMulti l) -> Forall sub_ok l -> sub_ok (WMulti l).
Proof.
  intros Hg HI cs w' Hne Hsub H. rewrite subset_u_multi in H.
  pose proof (good_multi_parts l Hg) as Hparts. destruct Hg as [Hok Hcan].
  pose proof (multi_overlap_free l Hok) as Hov.
  assert (U : forall c a b, In a l -> In b l -> has c a = true -> has c b = true -> a = b).
  { intros c. exact (proj2 (overlap_free_unique c l [] Hov)). }
  set (d0 := duration (WMulti l)).
  assert (Hd0 : forall x, In x l -> duration x == d0) by (intros x Hx; apply multi_part_duration; assumption).
  assert (Hex : forall c, inb c cs = true -> exists x, In x l /\ has c x = true).
  { intros c Hc. pose proof (subsetb_inb _ _ _ Hsub Hc) as H0. change (has c (WMulti l) = true) in H0.
    rewrite has_multi in H0. apply existsb_exists in H0. exact H0. }
  remember (filter (fun x => negb (disjointb (channels x) cs)) l) as rel eqn:Erel0.
  assert (Hrel : forall x c, In x l -> has c x = true -> inb c cs = true -> In x rel).
  { intros x c Hx Hcx Hc. rewrite Erel0. apply filter_In. split; [exact Hx|]. rewrite (not_disjoint _ _ c Hcx Hc). reflexivity. }
  rewrite Forall_forall in HI, Hparts.
  (* what the original answers for a requested channel *)
  assert (Horig : forall c x t, In x l -> has c x = true ->
            sample (WMulti l) c t = sample x c t /\ tg (WMulti l) c t = tg x c t).
  { intros c x t Hx Hcx. split; [apply sample_multi_unique; auto; apply U|].
    rewrite tg_multi_find, (find_has_unique l c x (U c) Hx Hcx). reflexivity. }
  destruct rel as [|x0 [|x1 rr]]; [discriminate| |].
  - (* one relevant part *)
    destruct (multi_one_spec cs l w' H) as [x [Hx [Hdx Hgw]]].
    assert (Hxr : In x [x0]) by (rewrite Erel0; apply filter_In; split; [exact Hx|rewrite Hdx; reflexivity]).
    destruct Hxr as [<-|[]].
    assert (Hall : forall c, inb c cs = true -> has c x0 = true).
    { intros c Hc. destruct (Hex c Hc) as [y [Hy Hcy]]. pose proof (Hrel y c Hy Hcy Hc) as Hyr.
      destruct Hyr as [<-|[]]. exact Hcy. }
    destruct (get_wrap_ok x0 cs w' (Hparts x0 Hx) (HI x0 Hx) Hne Hgw) as [A [B [C D]]].
    split; [exact A|]. split; [exact B|]. split; [rewrite C; apply Hd0; exact Hx|].
    intros c t Hc H0 H1 Htg. destruct (Horig c x0 t Hx (Hall c Hc)) as [Es Et]. rewrite Es. apply D; auto.
    + fold d0 in H1. rewrite (Hd0 x0 Hx). exact H1.
    + rewrite <- Et. exact Htg.
  - (* several relevant parts *)
    destruct (multi_go cs l) as [subs|] eqn:Eg; cbn [bind] in H; [|discriminate].
    pose proof (multi_go_F2 cs l subs Eg) as F2. rewrite <- Erel0 in F2.
    set (rel := x0 :: x1 :: rr) in *.
    assert (F : Forall2 (fun x a => In x l /\ SubOK x (interb cs (channels x)) a) rel subs).
    { assert (G : forall r s, (forall x, In x r -> In x rel) ->
                Forall2 (fun x a => get_wrap x (interb cs (channels x)) (subset_u x (interb cs (channels x))) = OK a) r s ->
                Forall2 (fun x a => In x l /\ SubOK x (interb cs (channels x)) a) r s).
      { induction 2 as [|x a r0 s0 Hxa _ IH]; constructor.
        - assert (Hx : In x rel) by (apply H0; left; reflexivity). subst rel. rewrite Erel0 in Hx. apply filter_In in Hx as [Hx Hnd].
          apply negb_true_iff in Hnd. destruct (disjoint_false_ex _ _ Hnd) as [e [He1 He2]].
          split; [exact Hx|]. apply (get_wrap_ok x _ a (Hparts x Hx) (HI x Hx)); [|exact Hxa].
          exact (interb_nonempty cs (channels x) e He2 He1).
        - apply IH. intros y Hy. apply H0. right; exact Hy. }
      exact (G _ _ (fun x Hx => Hx) F2). }
    assert (Hlen : (2 <= length subs)%nat).
    { rewrite <- (Forall2_len _ _ _ F). cbn. lia. }
    assert (Hfp : from_parallel subs = mk_multi (flat subs)).
    { unfold from_parallel, flat. destruct subs as [|a [|b r]]; cbn in Hlen; try lia. reflexivity. }
    rewrite Hfp in H.
    (* parts of the flattened list *)
    assert (Hflat : forall y, In y (flat subs) -> good y /\ duration y == d0 /\
              exists x a, In x l /\ In a subs /\ SubOK x (interb cs (channels x)) a /\ (forall c, has c y = true -> has c a = true)).
    { intros y Hy. unfold flat in Hy. apply in_flat_map in Hy as [a [Ha Hya]].
      destruct (Forall2_In_r _ _ _ a F Ha) as [x [Hxr [Hx S]]].
      pose proof S as [Ga [Ca [Da _]]].
      destruct (is_multi a) as [s|] eqn:Em.
      - destruct a; try discriminate. cbn [is_multi] in Em. injection Em as ->.
        pose proof (good_multi_parts s Ga) as Gp. rewrite Forall_forall in Gp. split; [apply Gp; exact Hya|]. split.
        + rewrite (multi_part_duration s y (proj1 Ga) Hya), Da. apply Hd0; exact Hx.
        + exists x, (WMulti s). split; [exact Hx|]. split; [exact Ha|]. split; [exact S|].
          intros c Hc. rewrite has_multi. apply existsb_exists. eauto.
      - destruct Hya as [<-|[]]. split; [exact Ga|]. split; [rewrite Da; apply Hd0; exact Hx|].
        exists x, a. split; [exact Hx|]. split; [exact Ha|]. split; [exact S|]. auto. }
    destruct (mk_multi_okb (flat subs) w' H) as [Gw [Cw [Dw [S [-> [HP HovS]]]]]].
    { apply Forall_forall. intros y Hy. exact (proj1 (Hflat y Hy)). }
    { intros y z Hy Hz. rewrite (proj1 (proj2 (Hflat y Hy))), (proj1 (proj2 (Hflat z Hz))). reflexivity. }
    assert (Hsubs_ne : exists y, In y (flat subs)).
    { destruct subs as [|a r]; [cbn in Hlen; lia|]. destruct (Forall2_In_r _ _ _ a F (or_introl eq_refl)) as [x [_ [_ S0]]].
      destruct S0 as [Ga _]. unfold flat. cbn [flat_map]. destruct (is_multi a) as [s|] eqn:Em.
      - destruct a; try discriminate. cbn [is_multi] in Em. injection Em as ->.
        destruct s as [|z zr]; [destruct Ga as [Ga _]; cbn in Ga; discriminate|]. exists z. left; reflexivity.
      - exists a. left; reflexivity. }
    (* the partner of the part that has a requested channel *)
    assert (Hpartner : forall c, inb c cs = true -> exists x a y, In x l /\ has c x = true /\ In a subs /\
              SubOK x (interb cs (channels x)) a /\ In y (flat subs) /\ has c y = true /\ forall t, sample y c t = sample a c t).
    { intros c Hc. destruct (Hex c Hc) as [x [Hx Hcx]]. pose proof (Hrel x c Hx Hcx Hc) as Hxr.
      destruct (Forall2_In_l _ _ _ x F Hxr) as [a [Ha [_ Sa]]]. pose proof Sa as [Ga [Ca _]].
      assert (Hca : has c a = true) by (unfold has; rewrite Ca, inb_interb, Hc; exact Hcx).
      destruct (is_multi a) as [s|] eqn:Em.
      - destruct a; try discriminate. cbn [is_multi] in Em. injection Em as ->.
        rewrite has_multi in Hca. apply existsb_exists in Hca as [y [Hy Hcy]].
        exists x, (WMulti s), y. split; [exact Hx|]. split; [exact Hcx|]. split; [exact Ha|]. split; [exact Sa|].
        split; [|split; [exact Hcy|]].
        + unfold flat. apply in_flat_map. exists (WMulti s). split; [exact Ha|exact Hy].
        + intros t. symmetry. apply sample_multi_unique; auto.
          exact (proj2 (overlap_free_unique c s [] (multi_overlap_free s (proj1 Ga)))).
      - exists x, a, a. split; [exact Hx|]. split; [exact Hcx|]. split; [exact Ha|]. split; [exact Sa|].
        split; [|split; [exact Hca|reflexivity]].
        unfold flat. apply in_flat_map. exists a. split; [exact Ha|]. rewrite Em. left; reflexivity. }
    split; [exact Gw|]. split; [|split].
    + intros c. rewrite Cw, existsb_has_flat. destruct (inb c cs) eqn:Ec.
      * destruct (Hpartner c Ec) as [x [a [y [_ [_ [Ha [Sa [_ [_ _]]]]]]]]].
        destruct (Hex c Ec) as [x' [Hx' Hcx']]. pose proof (Hrel x' c Hx' Hcx' Ec) as Hxr.
        destruct (Forall2_In_l _ _ _ x' F Hxr) as [a' [Ha' [_ [_ [Ca' _]]]]].
        apply existsb_exists. exists a'. split; [exact Ha'|]. unfold has. rewrite Ca', inb_interb, Ec. exact Hcx'.
      * destruct (existsb (has c) subs) eqn:Ex; [|reflexivity]. apply existsb_exists in Ex as [a [Ha Hca]].
        destruct (Forall2_In_r _ _ _ a F Ha) as [x [_ [_ [_ [Ca _]]]]]. unfold has in Hca. rewrite Ca, inb_interb, Ec in Hca. discriminate.
    + destruct Hsubs_ne as [y Hy]. rewrite (Dw y Hy). exact (proj1 (proj2 (Hflat y Hy))).
    + intros c t Hc H0 H1 Htg.
      destruct (Hpartner c Hc) as [x [a [y [Hx [Hcx [Ha [Sa [Hy [Hcy Hya]]]]]]]]].
      destruct (Horig c x t Hx Hcx) as [Es Et]. rewrite Es.
      rewrite (sample_multi_unique S c t y (proj2 (overlap_free_unique c S [] HovS))
                 (Permutation_in _ (Permutation_sym HP) Hy) Hcy), Hya.
      destruct Sa as [_ [Ca [_ Da]]]. apply Da; auto.
      * rewrite inb_interb, Hc. exact Hcx.
      * fold d0 in H1. rewrite (Hd0 x Hx). exact H1.
      * rewrite <- Et. exact Htg.
Qed.

(* ---- all classes ---- *)
Lemma keys_map_key' {A} (g : chan -> A) l : keys (map (fun ic => (ic, g ic)) l) = l.
Proof. unfold keys. rewrite map_map. cbn. apply map_id. Qed.
Lemma mk_subset_SubOK w cs : good w -> cs <> [] -> subsetb cs (channels w) = true ->
  (forall c t, tg w c t = true) -> SubOK w cs (mk_subset w cs).
Proof.
  intros [Hok Hcan] Hne Hsub _. split; [split|].
  - unfold mk_subset. cbn [okb]. rewrite Hok. cbn [andb]. apply andb_true_intro. split.
    + apply subsetb_sub. intros c Hc. rewrite inb_canon_cs in Hc. exact (subsetb_inb _ _ _ Hsub Hc).
    + destruct (canon_cs cs) eqn:E; [|reflexivity]. destruct (nonempty_has cs Hne) as [e He].
      rewrite <- (inb_canon_cs e cs), E in He. discriminate.
  - apply mk_subset_canon. exact Hcan.
  - split; [intros c; unfold mk_subset; cbn [channels]; apply inb_canon_cs|]. split; [reflexivity|intros; apply oQeq_refl].
Qed.

Theorem subset_u_sound : forall w, good w -> sub_ok w.
Proof.
  induction w using wf_ind'; intros Hg.
  - (* table *) intros cs w' Hne Hsub H. cbn in H. injection H as <-. split; [exact Hg|]. split; [apply sub_singleton; assumption|].
    split; [reflexivity|intros; apply oQeq_refl].
  - intros cs w' Hne Hsub H. cbn in H. injection H as <-. split; [exact Hg|]. split; [apply sub_singleton; assumption|].
    split; [reflexivity|intros; apply oQeq_refl].
  - intros cs w' Hne Hsub H. cbn in H. injection H as <-. split; [exact Hg|]. split; [apply sub_singleton; assumption|].
    split; [reflexivity|intros; apply oQeq_refl].
  - (* sequence *)
    apply sub_ok_seq; [exact Hg|]. pose proof (good_seq_parts l Hg) as Hp. rewrite Forall_forall in *. auto.
  - (* multi *)
    apply sub_ok_multi; [exact Hg|]. pose proof (good_multi_parts l Hg) as Hp. rewrite Forall_forall in *. auto.
  - (* repetition *)
    apply sub_ok_rep; [exact Hg|]. apply IHw. destruct Hg as [Hok Hcan]. cbn [okb canonb] in *.
    apply andb_prop in Hok as [_ Hok]. split; assumption.
  - (* transforming *)
    intros cs w' Hne Hsub H. cbn [subset_u] in H. injection H as <-. apply mk_subset_SubOK; auto.
  - (* subset *)
    intros cs' w' Hne Hsub H. cbn [subset_u] in H.
    destruct Hg as [Hok Hcan]. cbn [okb canonb channels] in *.
    apply andb_prop in Hok as [Hok _]. apply andb_prop in Hok as [Hokw Hs]. apply andb_prop in Hcan as [_ Hcw].
    destruct (get_wrap_ok w cs' w' (conj Hokw Hcw) (IHw (conj Hokw Hcw)) Hne H) as [A [B [C D]]].
    split; [exact A|]. split; [exact B|]. split; [exact C|]. intros c t Hc H0 H1 Htg. cbn [sample]. apply D; auto.
  - (* arithmetic *)
    intros cs w' Hne Hsub H. cbn [subset_u] in H. injection H as <-. apply mk_subset_SubOK; auto.
  - (* functor *)
    intros cs w' Hne Hsub H. cbn [subset_u] in H.
    destruct Hg as [Hok Hcan]. cbn [okb canonb channels] in *. apply andb_prop in Hok as [Hokw Hkeys].
    destruct (subset_u w cs) as [i'|] eqn:Ei; cbn [bind] in H; [|discriminate].
    destruct (subsetb cs (keys f)) eqn:Ek; [|discriminate].
    destruct (IHw (conj Hokw Hcan) cs i' Hne Hsub Ei) as [Gi [Ci [Di Si]]].
    set (f' := map (fun c => (c, match lookup c f with Some g => g | None => FPos end)) cs) in *.
    assert (Hkf : set_eqb (keys f') (channels i') = true).
    { apply set_eqb_intro. intros c. unfold f'. rewrite keys_map_key', Ci. reflexivity. }
    destruct (from_functor_okb i' f' w' Gi Hkf H) as [Gw [Cw Dw]].
    split; [exact Gw|]. split; [intros c; rewrite Cw; apply Ci|]. split; [rewrite Dw; exact Di|].
    intros c t Hc H0 H1 Htg. cbn [duration tg] in *.
    eapply oQeq_trans.
    { apply (from_functor_sound i' f' w' (proj1 Gi) Hkf H c t); [rewrite Ci; exact Hc|exact H0|rewrite Di; exact H1]. }
    cbn [sample]. unfold f'. rewrite (lookup_map_key (fun c => match lookup c f with Some g => g | None => FPos end)), Hc.
    destruct (lookup_in_keys c f (subsetb_inb _ _ _ Ek Hc)) as [g Lg]. rewrite Lg.
    apply omap_compat; [intros x x' X; apply functor_at_compat; exact X|]. apply Si; auto.
  - (* reversed *)
    intros cs w' Hne Hsub H. cbn [subset_u] in H.
    destruct Hg as [Hok Hcan]. cbn [okb canonb channels] in *.
    destruct (subset_u w cs) as [i'|] eqn:Ei; cbn [bind] in H; [|discriminate]. injection H as <-.
    destruct (IHw (conj Hok Hcan) cs i' Hne Hsub Ei) as [Gi [Ci [Di Si]]].
    destruct (from_to_reverse_okb i' Gi) as [Gw [Cw Dw]].
    split; [exact Gw|]. split; [intros c; rewrite Cw; apply Ci|]. split; [rewrite Dw; exact Di|].
    intros c t Hc H0 H1 Htg. cbn [duration tg sample] in *. apply andb_prop in Htg as [Ht0 Htg].
    assert (Hpos : 0 < t).
    { apply negb_true_iff in Ht0. assert (~ t == 0) by (intros E; apply Qeq_bool_iff in E; congruence). lra. }
    eapply oQeq_trans.
    { apply (from_to_reverse_sound i' (proj1 Gi) c t); [rewrite Ci; exact Hc|exact Hpos|rewrite Di; exact H1]. }
    cbn [sample]. eapply oQeq_trans; [apply (sample_proper i' c _ (duration w - t)); rewrite Di; reflexivity|].
    apply Si; auto; lra.
Qed.

(* get_subset_for_channels *)
Theorem get_subset_sound : forall w cs w', okb w = true -> canonb w = true -> cs <> [] -> get_subset w cs = OK w' ->
  okb w' = true /\ (forall c, inb c (channels w') = inb c cs) /\ duration w' == duration w /\
  forall c t, inb c cs = true -> 0 <= t -> t < duration w -> tg w c t = true -> oQeq (sample w' c t) (sample w c t).
Proof.
  intros w cs w' Hok Hcan Hne H. unfold get_subset in H.
  destruct (get_wrap_ok w cs w' (conj Hok Hcan) (subset_u_sound w (conj Hok Hcan)) Hne H) as [[A _] [B [C D]]].
  repeat split; auto.
Qed.

(* without reversal the guard is vacuous *)
Fixpoint norev (w : wf) : bool :=
  match w with
  | WTable _ _ | WConst _ _ _ | WFunc _ _ _ => true
  | WSeq l | WMulti l => (fix all (l : list wf) := match l with [] => true | x :: r => norev x && all r end) l
  | WRep b _ | WTrans b _ | WSubset b _ | WFunctor b _ => norev b
  | WArith l _ r => norev l && norev r
  | WRev _ => false
  end.

Example get_subset_example :
  let tab c := WTable c [mkE 0 1 Hold; mkE (1#2) 2 Linear] in
  let m := WMulti [WConst (1#2) 1 1%N; tab 2%N; WMulti [tab 3%N; WConst (1#2) 4 4%N]] in
  let w := WFunctor (WSeq [m; WRep (WRev m) 1; m]) [(1%N, FNeg); (2%N, FAbs); (3%N, FNeg); (4%N, FPos)] in
  okb w = true /\ canonb w = true /\
  match get_subset w [1%N; 4%N; 3%N] with
  | OK w' => tg w 3%N (3#4) && oQeqb (sample w' 3%N (3#4)) (sample w 3%N (3#4)) && oQeqb (sample w' 3%N (3#4)) (Some (-(3#2)))
             && negb (tg w 3%N (1#2))
  | Err _ => false
  end = true.
Proof. vm_compute. repeat split; reflexivity. Qed.

Lemma tg_list_all_true t (ds : list (Q * (Q -> bool))) : Forall (fun dg => forall u, snd dg u = true) ds ->
  forall time, tg_list t ds time = true.
Proof.
  induction 1 as [|[d g] r Hg _ IH]; intros time; [reflexivity|]. cbn [tg_list]. cbv zeta. rewrite IH, andb_true_r.
  destruct (negb (Qltb t time) && Qltb t (time + d)); [apply Hg|reflexivity].
Qed.
Lemma norev_all_Forall l :
  (fix all (l : list wf) := match l with [] => true | x :: r => norev x && all r end) l = true -> Forall (fun x => norev x = true) l.
Proof.
  induction l as [|x r IH]; intros H; constructor.
  - apply andb_prop in H as [H _]; exact H.
  - apply IH. apply andb_prop in H as [_ H]; exact H.
Qed.
Lemma tg_norev : forall w, norev w = true -> forall c t, tg w c t = true.
Proof.
  induction w using wf_ind'; intros Hn ch t; cbn [norev] in Hn; cbn [tg]; auto.
  - apply norev_all_Forall in Hn. apply tg_list_all_true. apply Forall_forall. intros dg Hdg.
    apply in_map_iff in Hdg as [s [<- Hs]]. cbn [snd]. intros u. rewrite Forall_forall in H, Hn. apply H; auto.
  - apply norev_all_Forall in Hn. match goal with |- ?a && _ = _ => replace a with true by (destruct (find _ l); reflexivity) end.
    cbn [andb]. induction H as [|s r Hs _ IH]; [reflexivity|]. apply Forall_cons_iff in Hn as [N1 N2].
    destruct (inb ch (channels s)); [apply Hs; exact N1|apply IH; exact N2].
  - apply tg_list_all_true. apply Forall_forall. intros dg Hdg. apply repeat_spec in Hdg. subst dg. cbn [snd]. intros u. apply IHw; exact Hn.
  - discriminate.
Qed.

(* the clause of the property in full for waveforms without ReversedWaveform nodes *)
Theorem get_subset_sound_norev : forall w cs w', okb w = true -> canonb w = true -> norev w = true -> cs <> [] ->
  get_subset w cs = OK w' -> forall c t, inb c cs = true -> 0 <= t -> t < duration w -> oQeq (sample w' c t) (sample w c t).
Proof.
  intros w cs w' Hok Hcan Hn Hne H c t Hc H0 H1.
  destruct (get_subset_sound w cs w' Hok Hcan Hne H) as [_ [_ [_ D]]]. apply D; auto. apply tg_norev; exact Hn.
Qed.
