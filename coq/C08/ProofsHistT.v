(* C08 — call histories with TransformingWaveform nodes: if no array object changes its content during the history and
   every transformation is free of LinearTransformation parts, the per-instance cache (Hist.v) is coherent and every
   call is answered like a single call on a fresh object. *)
From Coq Require Import List ZArith QArith Qabs Bool Lia Lqa.
Require Import QV.C08.Model QV.C08.Spec QV.C08.Wf QV.C08.Hist QV.C08.ProofsVec QV.C08.ProofsConst QV.C08.ProofsTrafo
               QV.C08.ProofsCtor QV.C08.ProofsTotalT QV.C08.ProofsSimple QV.C08.ProofsHist.
Import ListNotations.
Open Scope Q_scope.

(* ---- paths ---- *)
Definition child (w : wf) (k : nat) : option wf :=
  match w with
  | WSeq l | WMulti l => nth_error l k
  | WRep b _ | WTrans b _ | WSubset b _ | WFunctor b _ | WRev b => match k with O => Some b | _ => None end
  | WArith l _ r => match k with O => Some l | S O => Some r | _ => None end
  | _ => None
  end.
Fixpoint subterm (w : wf) (p : path) : option wf :=
  match p with
  | [] => Some w
  | k :: q => match child w k with Some x => subterm x q | None => None end
  end.
Lemma subterm_snoc : forall p root w k x, subterm root p = Some w -> child w k = Some x -> subterm root (p ++ [k]) = Some x.
Proof.
  induction p as [|j p IH]; intros root w k x Hs Hc; cbn in *.
  - injection Hs as <-. rewrite Hc. reflexivity.
  - destruct (child root j) as [y|]; [|discriminate]. eapply IH; eauto.
Qed.
Lemma path_eqb_eq a : forall b, path_eqb a b = true <-> a = b.
Proof.
  induction a as [|x a IH]; intros [|y b]; cbn; split; intros H; try discriminate; auto.
  - apply andb_prop in H as [H1 H2]. apply Nat.eqb_eq in H1. apply IH in H2. subst; reflexivity.
  - injection H as -> ->. rewrite Nat.eqb_refl. apply IH. reflexivity.
Qed.

Section MultiLoops.
  Variables (c : chan) (ts : list Q) (p : path) (aid : option N) (s : store).
  Fixpoint ufind (l : list wf) (k : nat) : list (option Q) * store :=
    match l with
    | [] => (nan_like ts, s)
    | x :: r => if inb c (channels x) then usample x (p ++ [k]) c aid ts s else ufind r (S k)
    end.
  Fixpoint mfind (l : list wf) : list (option Q) :=
    match l with
    | [] => nan_like ts
    | x :: r => if inb c (channels x) then sample_vec x c ts else mfind r
    end.
End MultiLoops.
Section ColsLoop.
  Variables (i : wf) (p : path) (aid : option N) (ts : list Q).
  Fixpoint ucols (ins : list chan) (s : store) : list (chan * list (option Q)) * store :=
    match ins with
    | [] => ([], s)
    | ic :: r => let r1 := usample i (p ++ [O]) ic aid ts s in
                 let r2 := ucols r (snd r1) in
                 ((ic, fst r1) :: fst r2, snd r2)
    end.
End ColsLoop.
Lemma usample_trans i T p c aid ts s : usample (WTrans i T) p c aid ts s =
  let d0 := match st_get s p with
            | Some (a', d) => if aid_eqb aid a' then d else []
            | None => []
            end in
  match lookup c d0 with
  | Some vals => (vals, st_set s p (aid, d0))
  | None =>
      match t_in T [c] with
      | None => (nan_like ts, st_set s p (aid, d0))
      | Some ins =>
          let rc := ucols i p aid ts ins (st_set s p (aid, d0)) in
          let newd := map (fun k => (k, tw_col T k ts (fst rc))) (out_keys T ins) in
          (tw_col T c ts (fst rc), st_set (snd rc) p (aid, newd ++ d0))
      end
  end.
Proof. reflexivity. Qed.

Lemma usample_multi l p c aid ts s : usample (WMulti l) p c aid ts s = ufind c ts p aid s l O.
Proof. reflexivity. Qed.
Lemma sample_vec_multi l c ts : sample_vec (WMulti l) c ts = mfind c ts l.
Proof. reflexivity. Qed.

(* ---- the invariant: a cache entry stored for array object a holds the samples for the content of a ---- *)
Section Inv.
  Variable content : N -> list Q.
  Variable root : wf.

  Definition entry_ok (w : wf) (e : option N * tcache) : Prop :=
    match w, e with
    | WTrans i T, (Some a, d) => forall k vals, lookup k d = Some vals -> vals = sample_vec (WTrans i T) k (content a)
    | _, _ => True
    end.
  Definition Inv (s : store) : Prop :=
    forall q w e, subterm root q = Some w -> st_get s q = Some e -> entry_ok w e.

  Lemma Inv_set s p w v : Inv s -> subterm root p = Some w -> entry_ok w v -> Inv (st_set s p v).
  Proof.
    intros HI Hs Hv q w' e Hq Hg. unfold st_set in Hg. cbn [st_get] in Hg.
    destruct (path_eqb q p) eqn:E.
    - apply path_eqb_eq in E. subst q. rewrite Hs in Hq. injection Hq as <-. injection Hg as <-. exact Hv.
    - exact (HI q w' e Hq Hg).
  Qed.

  Fixpoint simple_all (w : wf) : bool :=
    match w with
    | WTable _ _ | WConst _ _ _ | WFunc _ _ _ => true
    | WSeq l | WMulti l => (fix all (l : list wf) := match l with [] => true | x :: r => simple_all x && all r end) l
    | WRep b _ => simple_all b
    | WTrans i T => simple T && simple_all i
    | WSubset i _ | WFunctor i _ | WRev i => simple_all i
    | WArith l _ r => simple_all l && simple_all r
    end.
  Lemma simple_all_Forall l :
    (fix all (l : list wf) := match l with [] => true | x :: r => simple_all x && all r end) l = true ->
    Forall (fun x => simple_all x = true) l.
  Proof.
    induction l as [|x r IH]; intros H; constructor.
    - apply andb_prop in H as [H _]; exact H.
    - apply IH. apply andb_prop in H as [_ H]; exact H.
  Qed.

  Definition hist_ok (w : wf) : Prop := forall p c aid ts s,
    subterm root p = Some w -> sortedb ts = true -> (forall a, aid = Some a -> ts = content a) -> Inv s ->
    fst (usample w p c aid ts s) = sample_vec w c ts /\ Inv (snd (usample w p c aid ts s)).

  (* ---- by-products of a transformation call are the samples of those channels ---- *)
  Lemma tw_col_pointwise i T k ts ins : sortedb ts = true ->
    tw_col T k ts (map (fun ic => (ic, sample_vec i ic ts)) ins)
    = map (fun t => match t_point T t (map (fun ic => (ic, sample i ic t)) ins) with
                    | Some out => match lookup k out with Some v => v | None => None end
                    | None => None end) ts.
  Proof.
    intros Hs. unfold tw_col.
    assert (E : map (fun ic => (ic, sample_vec i ic ts)) ins = map (fun ic => (ic, map (sample i ic) ts)) ins).
    { apply map_ext. intros ic. rewrite sample_vec_pointwise; auto. }
    rewrite E, (rows_spec (sample i)).
    apply (combine_map_r (fun t row => match t_point T t row with
                                       | Some out => match lookup k out with Some v => v | None => None end
                                       | None => None end)).
  Qed.
  Lemma sample_vec_trans_tw i T c ts ins : t_in T [c] = Some ins ->
    sample_vec (WTrans i T) c ts = tw_col T c ts (map (fun ic => (ic, sample_vec i ic ts)) ins).
  Proof. intros H. cbn [sample_vec]. rewrite H. reflexivity. Qed.

  Lemma tw_col_byproduct i T c k ts insc : simple T = true -> sortedb ts = true ->
    t_in T [c] = Some insc -> In k (out_keys T insc) ->
    tw_col T k ts (map (fun ic => (ic, sample_vec i ic ts)) insc) = sample_vec (WTrans i T) k ts.
  Proof.
    intros Hs Hts Hc Hk.
    destruct (simple_t_in T Hs k 0) as [_ Hkin].
    assert (Hex : exists insk, t_in T [k] = Some insk) by (destruct Hkin as [H|[H _]]; eauto).
    destruct Hex as [insk Hki].
    rewrite (sample_vec_trans_tw i T k ts insk Hki), !tw_col_pointwise by exact Hts.
    apply map_ext. intros t.
    destruct (simple_lookup T Hs t (map (fun ic => (ic, sample i ic t)) insc)) as [o1 [E1 L1]].
    rewrite E1.
    (* k is a key of the transformed data (same keys as for the dummy input) *)
    assert (Hne : lookup k o1 <> None).
    { unfold out_keys in Hk. destruct (t_point T 0 (map (fun ic => (ic, None)) insc)) as [o0|] eqn:E0; [|contradiction].
      assert (Hkr : krel (map (fun ic => (ic, sample i ic t)) insc) (map (fun ic : chan => (ic, @None Q)) insc))
        by (apply krel_map_same; reflexivity).
      pose proof (t_point_shape T t 0 _ _ Hkr) as Hsh. rewrite E1, E0 in Hsh. cbn in Hsh.
      assert (Hl0 : exists v, lookup k o0 = Some v).
      { apply lookup_in_keys. apply inb_In. exact Hk. }
      destruct (krel_lookup k o1 o0 Hsh Hl0) as [v Hv]. congruence. }
    destruct (simple_byproduct T Hs t c k (fun ic => sample i ic t) insc insk o1 Hc Hki E1 Hne) as [o2 [E2 L2]].
    rewrite E2, L2. reflexivity.
  Qed.

  (* ---- loops ---- *)
  Lemma sortedb_child ts time lo hi : sortedb ts = true ->
    sortedb (map (fun t => t - time) (slice ts lo hi)) = true.
  Proof. intros H. apply ssorted_sortedb, ssorted_shift, ssorted_slice, sortedb_ssorted; exact H. Qed.

  Lemma useq_ok c ts p (Hts : sortedb ts = true) : forall l, Forall hist_ok l -> forall pre,
    subterm root p = Some (WSeq (pre ++ l)) -> forall time out s, Inv s ->
    fst (useq c ts p l (length pre) time out s) = seqv c ts l time out /\
    Inv (snd (useq c ts p l (length pre) time out s)).
  Proof.
    induction 1 as [|x r Hx _ IH]; intros pre Hsub time out s HI; [split; [reflexivity|exact HI]|].
    cbn [useq seqv]. cbv zeta.
    assert (Hc : subterm root (p ++ [length pre]) = Some x).
    { eapply subterm_snoc; [exact Hsub|]. cbn [child]. rewrite nth_error_app2, Nat.sub_diag by lia. reflexivity. }
    destruct (Hx (p ++ [length pre]) c None
                (map (fun t => t - time) (slice ts (ss_left time ts) (ss_left (time + duration x) ts))) s Hc
                (sortedb_child ts time _ _ Hts) (fun a H => ltac:(discriminate H)) HI) as [E1 I1].
    rewrite E1.
    replace (S (length pre)) with (length (pre ++ [x])) by (rewrite app_length; cbn; lia).
    apply IH; [rewrite <- app_assoc; exact Hsub|exact I1].
  Qed.

  Lemma urep_ok c ts p b n (Hts : sortedb ts = true) : hist_ok b -> subterm root p = Some (WRep b n) ->
    forall j time out s, Inv s ->
    fst (urep c ts p b j time out s) = repv c ts b j time out /\ Inv (snd (urep c ts p b j time out s)).
  Proof.
    intros Hb Hsub. induction j as [|j IH]; intros time out s HI; [split; [reflexivity|exact HI]|].
    cbn [urep repv]. cbv zeta.
    assert (Hc : subterm root (p ++ [O]) = Some b) by (eapply subterm_snoc; [exact Hsub|reflexivity]).
    destruct (Hb (p ++ [O]) c None
                (map (fun t => t - time) (slice ts (ss_left time ts) (ss_left (time + duration b) ts))) s Hc
                (sortedb_child ts time _ _ Hts) (fun a H => ltac:(discriminate H)) HI) as [E1 I1].
    rewrite E1. apply IH. exact I1.
  Qed.

  Lemma ufind_ok c ts p aid s (Hts : sortedb ts = true) (Haid : forall a, aid = Some a -> ts = content a) (HI : Inv s) :
    forall l, Forall hist_ok l -> forall pre, subterm root p = Some (WMulti (pre ++ l)) ->
    fst (ufind c ts p aid s l (length pre)) = mfind c ts l /\ Inv (snd (ufind c ts p aid s l (length pre))).
  Proof.
    induction 1 as [|x r Hx _ IH]; intros pre Hsub; [split; [reflexivity|exact HI]|].
    cbn [ufind mfind]. destruct (inb c (channels x)).
    - apply Hx; auto. eapply subterm_snoc; [exact Hsub|]. cbn [child].
      rewrite nth_error_app2, Nat.sub_diag by lia. reflexivity.
    - replace (S (length pre)) with (length (pre ++ [x])) by (rewrite app_length; cbn; lia).
      apply IH. rewrite <- app_assoc. exact Hsub.
  Qed.

  Lemma ucols_ok i p aid ts : hist_ok i -> subterm root (p ++ [O]) = Some i -> sortedb ts = true ->
    (forall a, aid = Some a -> ts = content a) -> forall ins s0, Inv s0 ->
    fst (ucols i p aid ts ins s0) = map (fun ic => (ic, sample_vec i ic ts)) ins /\ Inv (snd (ucols i p aid ts ins s0)).
  Proof.
    intros Hi Hci Hts Haid. induction ins as [|ic r IHr]; intros s0 HI0; [split; [reflexivity|exact HI0]|].
    cbn [ucols]. cbv zeta. cbn [fst snd].
    destruct (Hi (p ++ [O]) ic aid ts s0 Hci Hts Haid HI0) as [E1 I1].
    destruct (IHr _ I1) as [E2 I2]. split; [|exact I2]. cbn [map]. rewrite E1, E2. reflexivity.
  Qed.

  (* ---- main lemma ---- *)
  Theorem usample_ok : forall w, simple_all w = true -> hist_ok w.
  Proof.
    induction w using wf_ind'; intros Hsa p ch aid ts s Hsub Hts Haid HI; cbn [simple_all] in Hsa.
    - split; [reflexivity|exact HI].
    - split; [reflexivity|exact HI].
    - split; [reflexivity|exact HI].
    - (* sequence *)
      apply simple_all_Forall in Hsa. rewrite usample_seq, sample_vec_seq.
      assert (HF : Forall hist_ok l).
      { clear -H Hsa. induction H as [|x r Hx _ IH]; constructor.
        + apply Hx. apply Forall_cons_iff in Hsa as [A _]; exact A.
        + apply IH. apply Forall_cons_iff in Hsa as [_ A]; exact A. }
      exact (useq_ok ch ts p Hts l HF [] Hsub 0 (nan_like ts) s HI).
    - (* multi-channel *)
      apply simple_all_Forall in Hsa. rewrite usample_multi, sample_vec_multi.
      assert (HF : Forall hist_ok l).
      { clear -H Hsa. induction H as [|x r Hx _ IH]; constructor.
        + apply Hx. apply Forall_cons_iff in Hsa as [A _]; exact A.
        + apply IH. apply Forall_cons_iff in Hsa as [_ A]; exact A. }
      exact (ufind_ok ch ts p aid s Hts Haid HI l HF [] Hsub).
    - (* repetition *)
      rewrite usample_rep, sample_vec_rep. apply (urep_ok ch ts p w n Hts); auto.
    - (* transforming *)
      apply andb_prop in Hsa as [HsT Hsi].
      assert (Hci : subterm root (p ++ [O]) = Some w) by (eapply subterm_snoc; [exact Hsub|reflexivity]).
      rewrite usample_trans. cbv zeta.
      set (d0 := match st_get s p with
                 | Some (a', d) => if aid_eqb aid a' then d else []
                 | None => []
                 end).
      (* whatever is kept from the old entry is coherent for the current array *)
      assert (Hd0 : entry_ok (WTrans w T) (aid, d0)).
      { unfold entry_ok. destruct aid as [a|]; [|exact I]. intros k vals Hl. unfold d0 in Hl.
        destruct (st_get s p) as [[a' d]|] eqn:Eg; [|discriminate].
        destruct a' as [a'|]; cbn [aid_eqb] in Hl; [|discriminate].
        destruct (N.eqb a a') eqn:Ea; [|discriminate]. apply N.eqb_eq in Ea. subst a'.
        exact (HI p (WTrans w T) (Some a, d) Hsub Eg k vals Hl). }
      destruct (lookup ch d0) as [vals|] eqn:Lc.
      + (* cache hit *)
        cbn [fst snd]. split; [|apply (Inv_set s p (WTrans w T)); auto].
        destruct aid as [a|].
        * rewrite (Haid a eq_refl). exact (Hd0 ch vals Lc).
        * unfold d0 in Lc. destruct (st_get s p) as [[a' d]|]; cbn in Lc; discriminate.
      + destruct (t_in T [ch]) as [ins|] eqn:Ein.
        * (* compute: thread the inner channels *)
          destruct (ucols_ok w p aid ts (IHw Hsi) Hci Hts Haid ins (st_set s p (aid, d0))
                      (Inv_set s p (WTrans w T) _ HI Hsub Hd0)) as [Ec Ic].
          cbn [fst snd]. rewrite Ec. split; [symmetry; apply sample_vec_trans_tw; exact Ein|].
          apply (Inv_set _ p (WTrans w T)); auto.
          unfold entry_ok. destruct aid as [a|]; [|exact I]. intros k vals Hl.
          rewrite lookup_app in Hl.
          destruct (lookup k (map (fun k0 => (k0, tw_col T k0 ts (map (fun ic => (ic, sample_vec w ic ts)) ins))) (out_keys T ins)))
            as [v|] eqn:Ln.
          -- injection Hl as <-.
             rewrite (lookup_map_key (fun k0 => tw_col T k0 ts (map (fun ic => (ic, sample_vec w ic ts)) ins))) in Ln.
             destruct (inb k (out_keys T ins)) eqn:Ek; [|discriminate]. injection Ln as <-.
             rewrite <- (Haid a eq_refl). apply (tw_col_byproduct w T ch k ts ins); auto. apply inb_In; exact Ek.
          -- exact (Hd0 k vals Hl).
        * (* get_input_channels raises: not for a linear-free transformation *)
          exfalso. destruct (simple_t_in T HsT ch 0) as [_ [E|[E _]]]; congruence.
    - (* subset *)
      cbn [usample sample_vec]. apply (IHw Hsa); auto. eapply subterm_snoc; [exact Hsub|reflexivity].
    - (* arithmetic *)
      apply andb_prop in Hsa as [Hs1 Hs2]. cbn [usample sample_vec].
      assert (Hc1 : subterm root (p ++ [O]) = Some w1) by (eapply subterm_snoc; [exact Hsub|reflexivity]).
      assert (Hc2 : subterm root (p ++ [1%nat]) = Some w2) by (eapply subterm_snoc; [exact Hsub|reflexivity]).
      destruct (inb ch (channels w1)), (inb ch (channels w2)).
      + destruct (IHw1 Hs1 (p ++ [O]) ch aid ts s Hc1 Hts Haid HI) as [E1 I1].
        destruct (IHw2 Hs2 (p ++ [1%nat]) ch aid ts _ Hc2 Hts Haid I1) as [E2 I2].
        cbn [fst snd]. rewrite E1, E2. split; [reflexivity|exact I2].
      + exact (IHw1 Hs1 (p ++ [O]) ch aid ts s Hc1 Hts Haid HI).
      + destruct (IHw2 Hs2 (p ++ [1%nat]) ch aid ts s Hc2 Hts Haid HI) as [E2 I2].
        cbn [fst snd]. rewrite E2. split; [reflexivity|exact I2].
      + destruct (IHw2 Hs2 (p ++ [1%nat]) ch aid ts s Hc2 Hts Haid HI) as [E2 I2].
        cbn [fst snd]. rewrite E2. split; [reflexivity|exact I2].
    - (* functor *)
      cbn [usample sample_vec]. destruct (lookup ch f); [|split; [reflexivity|exact HI]].
      assert (Hc : subterm root (p ++ [O]) = Some w) by (eapply subterm_snoc; [exact Hsub|reflexivity]).
      destruct (IHw Hsa (p ++ [O]) ch aid ts s Hc Hts Haid HI) as [E1 I1].
      cbn [fst snd]. rewrite E1. split; [reflexivity|exact I1].
    - (* reversed: the mirrored array is a temporary *)
      cbn [usample sample_vec].
      assert (Hc : subterm root (p ++ [O]) = Some w) by (eapply subterm_snoc; [exact Hsub|reflexivity]).
      destruct (IHw Hsa (p ++ [O]) ch None (rev (map (fun t => duration w - t) ts)) s Hc) as [E1 I1]; auto.
      + apply ssorted_sortedb, ssorted_rev_mirror, sortedb_ssorted; exact Hts.
      + intros a Ha; discriminate.
      + cbn [fst snd]. rewrite E1. split; [reflexivity|exact I1].
  Qed.
End Inv.

(* ---- histories ---- *)
Lemma get_sampled_st_ok content w (Hs : simple_all w = true) c a ts s :
  ts = content a -> Inv content w s ->
  fst (get_sampled_st w c (Some a) ts s) = get_sampled w c ts /\ Inv content w (snd (get_sampled_st w c (Some a) ts s)).
Proof.
  intros Hc HI. unfold get_sampled_st, get_sampled.
  destruct ts as [|t0 r]; [split; [reflexivity|exact HI]|].
  destruct (monotonic (t0 :: r)) eqn:Em; cbn [negb]; [|split; [reflexivity|exact HI]].
  destruct (Qltb t0 0 || Qltb (duration w) (last (t0 :: r) 0)); [split; [reflexivity|exact HI]|].
  destruct (negb (inb c (channels w))); [split; [reflexivity|exact HI]|].
  destruct (cv w c); [split; [reflexivity|exact HI]|].
  cbv zeta.
  destruct (usample_ok content w w Hs [] c (Some a) (t0 :: r) s eq_refl Em) as [E1 I1]; auto.
  - intros a' Ha. injection Ha as <-. exact Hc.
  - destruct (zdiv w c); [split; [reflexivity|exact I1]|]. destruct (kerr w c); [split; [reflexivity|exact I1]|].
    cbn [fst snd]. rewrite E1. split; [reflexivity|exact I1].
Qed.

Theorem history_independent_simple : forall w content calls, simple_all w = true ->
  (forall c a ts, In (c, a, ts) calls -> ts = content a) ->
  run_hist w calls [] = map (fun call => get_sampled w (fst (fst call)) (snd call)) calls.
Proof.
  intros w content calls Hs Hcont.
  assert (G : forall s, Inv content w s ->
            run_hist w calls s = map (fun call => get_sampled w (fst (fst call)) (snd call)) calls).
  { induction calls as [|[[c a] ts] r IH]; intros s HI; [reflexivity|].
    cbn [run_hist map fst snd].
    destruct (get_sampled_st_ok content w Hs c a ts s) as [E1 I1]; auto.
    - apply (Hcont c a ts). cbn. auto.
    - rewrite E1. f_equal. apply IH; [|exact I1]. intros c' a' ts' Hin. apply (Hcont c' a' ts'). cbn. auto. }
  apply G. intros q w' e _ Hg. cbn in Hg. discriminate.
Qed.

Example history_simple_example :
  let w := WArith (WTrans (WMulti [WTable 1%N [mkE 0 1 Hold; mkE 1 2 Linear]; WConst 1 3 2%N])
                          (TChain [TScale [(1%N, TC 2)]; TParallel [(3%N, TT 1 1)]])) OpAdd
                  (WTable 1%N [mkE 0 5 Hold; mkE 1 7 Linear]) in
  let calls := [(1%N, 0%N, [0; 1#2]); (3%N, 0%N, [0; 1#2]); (1%N, 1%N, [1#4; 1]); (3%N, 1%N, [1#4; 1]); (1%N, 0%N, [0; 1#2])] in
  simple_all w = true /\
  run_hist w calls [] = map (fun call => get_sampled w (fst (fst call)) (snd call)) calls.
Proof. split; [reflexivity|]. vm_compute. reflexivity. Qed.
