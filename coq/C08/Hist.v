(* C08 — call histories on ONE waveform object: the per-instance cache of TransformingWaveform
   (`_cached_data`, `_cached_times`: keyed by the IDENTITY of the time array, waveforms.py unsafe_sample of
   TransformingWaveform) as a state machine.  Definitions only.

   A time array handed in by the caller has an identity (`Some id`); the arrays a waveform makes itself (slices shifted
   by the start of a part, the mirrored array of ReversedWaveform) are temporaries (`None`): the weak reference to a
   temporary is dead at the next call, so it never hits.  Multi-channel / subset / arithmetic / functor / nested
   transforming waveforms pass the caller's array object through unchanged. *)
From Coq Require Import List ZArith QArith Qabs Bool.
Require Import QV.C08.Model.
Import ListNotations.
Open Scope Q_scope.

Definition path := list nat.
Fixpoint path_eqb (a b : path) : bool :=
  match a, b with
  | [], [] => true
  | x :: a', y :: b' => Nat.eqb x y && path_eqb a' b'
  | _, _ => false
  end.
Definition tcache := list (chan * list (option Q)).
Definition store := list (path * (option N * tcache)).
Fixpoint st_get (s : store) (p : path) : option (option N * tcache) :=
  match s with
  | [] => None
  | (q, v) :: r => if path_eqb p q then Some v else st_get r p
  end.
Definition st_set (s : store) (p : path) (v : option N * tcache) : store := (p, v) :: s.
Definition aid_eqb (a b : option N) : bool :=
  match a, b with Some x, Some y => N.eqb x y | _, _ => false end.

(* one output channel of Transformation.__call__(sample_times, inner_data), per time *)
Definition tw_col (T : trafo) (k : chan) (ts : list Q) (cols : list (chan * list (option Q))) : list (option Q) :=
  map (fun td => match t_point T (fst td) (snd td) with
                 | Some out => match lookup k out with Some v => v | None => None end
                 | None => None
                 end) (combine ts (rows ts cols)).
(* the channels the transformed data contains (depends on the keys of the input only) *)
Definition out_keys (T : trafo) (ins : list chan) : list chan :=
  match t_point T 0 (map (fun ic => (ic, None)) ins) with Some o => keys o | None => [] end.

Fixpoint usample (w : wf) (p : path) (c : chan) (aid : option N) (ts : list Q) (s : store) {struct w}
  : list (option Q) * store :=
  match w with
  | WTable _ _ | WConst _ _ _ | WFunc _ _ _ => (sample_vec w c ts, s)
  | WSeq l =>
      (fix go (l : list wf) (k : nat) (time : Q) (out : list (option Q)) (s : store) : list (option Q) * store :=
         match l with
         | [] => (out, s)
         | x :: r =>
             let e := time + duration x in
             let lo := ss_left time ts in
             let hi := ss_left e ts in
             let rs := usample x (p ++ [k]) c None (map (fun t => t - time) (slice ts lo hi)) s in
             go r (S k) e (write out lo hi (fst rs)) (snd rs)
         end) l O 0 (nan_like ts) s
  | WMulti l =>
      (fix find (l : list wf) (k : nat) : list (option Q) * store :=
         match l with
         | [] => (nan_like ts, s)
         | x :: r => if inb c (channels x) then usample x (p ++ [k]) c aid ts s else find r (S k)
         end) l O
  | WRep b n =>
      let bd := duration b in
      (fix go (j : nat) (time : Q) (out : list (option Q)) (s : store) : list (option Q) * store :=
         match j with
         | O => (out, s)
         | S j' =>
             let e := time + bd in
             let lo := ss_left time ts in
             let hi := ss_left e ts in
             let rs := usample b (p ++ [O]) c None (map (fun t => t - time) (slice ts lo hi)) s in
             go j' e (write out lo hi (fst rs)) (snd rs)
         end) (Z.to_nat n) 0 (nan_like ts) s
  | WTrans i T =>
      (* if self._cached_times() is not sample_times: reset *)
      let d0 := match st_get s p with
                | Some (a', d) => if aid_eqb aid a' then d else []
                | None => []
                end in
      match lookup c d0 with
      | Some vals => (vals, st_set s p (aid, d0))
      | None =>
          match t_in T [c] with
          | None => (nan_like ts, st_set s p (aid, d0))
          | Some ins =>
              let rc := (fix cols (ins : list chan) (s : store) : list (chan * list (option Q)) * store :=
                           match ins with
                           | [] => ([], s)
                           | ic :: r => let r1 := usample i (p ++ [O]) ic aid ts s in
                                        let r2 := cols r (snd r1) in
                                        ((ic, fst r1) :: fst r2, snd r2)
                           end) ins (st_set s p (aid, d0)) in
              (* self._cached_data.update(outer_data): every channel of the transformed data is stored *)
              let newd := map (fun k => (k, tw_col T k ts (fst rc))) (out_keys T ins) in
              (tw_col T c ts (fst rc), st_set (snd rc) p (aid, newd ++ d0))
          end
      end
  | WSubset i _ => usample i (p ++ [O]) c aid ts s
  | WArith l o r =>
      if inb c (channels l) then
        let r1 := usample l (p ++ [O]) c aid ts s in
        if inb c (channels r) then
          let r2 := usample r (p ++ [1%nat]) c aid ts (snd r1) in
          (map (fun ab => omap2 (aop_at o) (fst ab) (snd ab)) (combine (fst r1) (fst r2)), snd r2)
        else r1
      else
        let r2 := usample r (p ++ [1%nat]) c aid ts s in
        (map (omap (aop_rhs_only o)) (fst r2), snd r2)
  | WFunctor i f =>
      match lookup c f with
      | Some g => let r1 := usample i (p ++ [O]) c aid ts s in (map (omap (functor_at g)) (fst r1), snd r1)
      | None => (nan_like ts, s)
      end
  | WRev i =>
      let r1 := usample i (p ++ [O]) c None (rev (map (fun t => duration i - t) ts)) s in
      (rev (fst r1), snd r1)
  end.

(* get_sampled on an object with state *)
Definition get_sampled_st (w : wf) (c : chan) (aid : option N) (ts : list Q) (s : store)
  : res (list (option Q)) * store :=
  match ts with
  | [] => (OK [], s)
  | t0 :: _ =>
      if negb (monotonic ts) then (Err EValue, s)
      else if Qltb t0 0 || Qltb (duration w) (last ts 0) then (Err EValue, s)
      else if negb (inb c (channels w)) then (Err EKey, s)
      else match cv w c with
           | Some v => (OK (map (fun _ => Some v) ts), s)
           | None =>
               (* a call that RAISES (ZeroDivisionError inside a table, KeyError inside a transformation) has already
                  changed the caches on its way: the outermost TransformingWaveform forgot the previous time array
                  (`_cached_data = dict(); _cached_times = ref(sample_times)`) before the exception (round 5; the state
                  after the complete evaluation: exact when the transformation call / get_input_channels of the
                  outermost failing transformation raises, an over-approximation of the touched caches otherwise) *)
               let r := usample w [] c aid ts s in
               if zdiv w c then (Err EZeroDiv, snd r) else if kerr w c then (Err EKey, snd r)
               else (OK (fst r), snd r)
           end
  end.

(* a history: (channel, identity of the array object, its content at the time of the call) *)
Fixpoint run_hist (w : wf) (calls : list (chan * N * list Q)) (s : store) : list (res (list (option Q))) :=
  match calls with
  | [] => []
  | (c, a, ts) :: r => let rs := get_sampled_st w c (Some a) ts s in fst rs :: run_hist w r (snd rs)
  end.
