(* C08 — the code denotes what DESIGN 4.4 says, reversal ANYWHERE and transformations of ANY kind together (round 3):
   generalises ProofsMirror.mirror_main (no transformations) and ProofsLinDen.sample_is_den_T (reversal only around leaves).
   Below an odd number of reversals the denotation mirrors the time dependent entries of a transformation
   ([Spec.t_mirror]: a + b t becomes (a + b d) - b t) and applies it to the COMPLETE inner waveform; the code applies the
   original transformation at the mirrored time to the channels get_input_channels selects. *)
From Coq Require Import List ZArith QArith Qabs Bool Lia Lqa.
Require Import QV.C08.Model QV.C08.Spec QV.C08.Wf QV.C08.Hist QV.C08.Lin QV.C08.ProofsVec QV.C08.ProofsConst QV.C08.ProofsProper
               QV.C08.ProofsTrafo QV.C08.ProofsCtor QV.C08.ProofsPar QV.C08.ProofsFlat QV.C08.ProofsDen QV.C08.ProofsMirror
               QV.C08.ProofsConstT QV.C08.ProofsTotalT QV.C08.ProofsSimple QV.C08.ProofsLin QV.C08.ProofsLinDen QV.C08.ProofsOkb
               QV.C08.ProofsSubset QV.C08.ProofsRecipe QV.C08.ProofsRecipeT QV.C08.Guards.
Import ListNotations.
Open Scope Q_scope.

(* ---- the mirrored transformation ---- *)
Lemma tval_mirror_at d v tau : tval_at (tval_mirror d v) (d - tau) == tval_at v tau.
Proof. destruct v; cbn; [reflexivity|ring]. Qed.
Lemma keys_mirror d (f : list (chan * tval)) : keys (map (fun kv => (fst kv, tval_mirror d (snd kv))) f) = keys f.
Proof. unfold keys. rewrite map_map. reflexivity. Qed.
Lemma lookup_mirror d k (f : list (chan * tval)) :
  lookup k (map (fun kv => (fst kv, tval_mirror d (snd kv))) f) = match lookup k f with Some v => Some (tval_mirror d v) | None => None end.
Proof. induction f as [|[a v] f IH]; [reflexivity|]. cbn. destruct (N.eqb k a); [reflexivity|exact IH]. Qed.

Lemma t_in_mirror d : forall T S, t_in (t_mirror d T) S = t_in T S.
Proof.
  induction T using trafo_ind'; intros S; cbn [t_mirror t_in]; try reflexivity.
  - rewrite keys_mirror. reflexivity.
  - induction H as [|x l Hx _ IH]; [reflexivity|]. cbn [map]. rewrite IH. destruct (_ l S); [apply Hx|reflexivity].
Qed.
Lemma t_out_mirror d : forall T S, t_out (t_mirror d T) S = t_out T S.
Proof.
  induction T using trafo_ind'; intros S; cbn [t_mirror t_out]; try reflexivity.
  - rewrite keys_mirror. reflexivity.
  - revert S. induction H as [|x l Hx _ IH]; intros S; [reflexivity|]. cbn [map]. rewrite Hx. destruct (t_out x S); [apply IH|reflexivity].
Qed.
Lemma t_wfb_mirror d : forall T, t_wfb (t_mirror d T) = t_wfb T.
Proof.
  induction T using trafo_ind'; cbn [t_mirror t_wfb]; try reflexivity.
  induction H as [|x l Hx _ IH]; [reflexivity|]. cbn [map]. rewrite Hx, IH. reflexivity.
Qed.

Lemma t_point_mirror : forall T dd t t' d d', t' == dd - t -> deq d d' -> odeq (t_point (t_mirror dd T) t' d) (t_point T t d').
Proof.
  induction T using trafo_ind'; intros dd t t' d d' E Hd; cbn [t_mirror].
  - exact Hd.
  - (* scale *) cbn [t_point odeq]. unfold deq.
    induction Hd as [|[k v] [k' v'] l l' [Hk Hv] _ IH]; cbn; [constructor|]. cbn in Hk. subst k'.
    constructor; [|exact IH]. rewrite lookup_mirror. destruct (lookup k f) as [tv|]; cbn; split; auto.
    apply omap_compat2; auto. intros a b Eab. rewrite Eab, (tval_at_compat _ t' (dd - t) E), tval_mirror_at. reflexivity.
  - (* offset *) cbn [t_point odeq]. unfold deq.
    induction Hd as [|[k v] [k' v'] l l' [Hk Hv] _ IH]; cbn; [constructor|]. cbn in Hk. subst k'.
    constructor; [|exact IH]. rewrite lookup_mirror. destruct (lookup k f) as [tv|]; cbn; split; auto.
    apply omap_compat2; auto. intros a b Eab. rewrite Eab, (tval_at_compat _ t' (dd - t) E), tval_mirror_at. reflexivity.
  - (* linear: no time dependence *) exact (t_point_compat (TLinear i o m) t' t' d d' (Qeq_refl t') Hd).
  - (* parallel *) cbn [t_point odeq]. rewrite keys_mirror. apply deq_app.
    + clear -E. induction f as [|[k tv] f IH]; cbn; constructor; auto.
      split; [reflexivity|]. cbn. rewrite (tval_at_compat _ t' (dd - t) E), tval_mirror_at. reflexivity.
    + exact (deq_filter (fun c => negb (inb c (keys f))) d d' Hd).
  - (* chain *) cbn [t_point]. revert d d' Hd.
    induction H as [|x l Hx _ IH]; intros d d' Hd; [exact Hd|]. cbn [map].
    specialize (Hx dd t t' d d' E Hd).
    destruct (t_point (t_mirror dd x) t' d) as [n|], (t_point x t d') as [n'|]; cbn in Hx; try tauto.
    apply IH; exact Hx.
Qed.

(* the transformation of the normal form, evaluated at the time of the normal form's frame *)
Definition nfT (rv : bool) (dd : Q) (T : trafo) : trafo := if rv then t_mirror dd T else T.
Lemma t_in_nfT rv dd T S : t_in (nfT rv dd T) S = t_in T S.
Proof. destruct rv; [apply t_in_mirror|reflexivity]. Qed.
Lemma t_out_nfT rv dd T S : t_out (nfT rv dd T) S = t_out T S.
Proof. destruct rv; [apply t_out_mirror|reflexivity]. Qed.
Lemma t_wfb_nfT rv dd T : t_wfb (nfT rv dd T) = t_wfb T.
Proof. destruct rv; [apply t_wfb_mirror|reflexivity]. Qed.
Lemma t_point_nfT rv dd T tau d d' : deq d d' -> odeq (t_point (nfT rv dd T) (tm rv dd tau) d) (t_point T tau d').
Proof.
  intros Hd. destruct rv; cbn [nfT tm]; [apply t_point_mirror; [reflexivity|exact Hd]|apply t_point_compat; [reflexivity|exact Hd]].
Qed.

(* ---- channels of the normal form (with transformations) ---- *)
Lemma nf_inb_T : forall w, okb w = true -> forall rv c, inb c (channels (nf rv w)) = inb c (channels w).
Proof.
  induction w using wf_ind'; intros Hok rv ch; cbn [okb] in Hok; cbn [nf];
    try (destruct rv; reflexivity).
  - (* sequence *)
    apply andb_prop in Hok as [Hchs Hoks]. apply okb_all_Forall in Hoks.
    assert (HF : forall y, In y l -> forall rv, inb ch (channels (nf rv y)) = inb ch (channels y)).
    { intros y Hy rv'. rewrite Forall_forall in H, Hoks. apply H; auto. }
    destruct l as [|x r]; [discriminate|].
    assert (Hsame : forall y, In y (x :: r) -> inb ch (channels y) = inb ch (channels x)).
    { intros y [<-|Hy]; [reflexivity|]. rewrite forallb_forall in Hchs. apply set_eqb_inb. exact (Hchs y Hy). }
    destruct rv.
    + destruct (exists_last (l := x :: r)) as [l' [y Ey]]; [discriminate|].
      assert (Hy : In y (x :: r)) by (rewrite Ey; apply in_or_app; right; left; reflexivity).
      change (channels (WSeq (x :: r))) with (channels x).
      rewrite Ey, map_app, rev_app_distr. cbn [map rev app channels].
      rewrite (HF y Hy true), (Hsame y Hy). reflexivity.
    + cbn [map channels]. apply HF. left; reflexivity.
  - (* multi *)
    apply andb_prop in Hok as [_ Hoks]. apply okb_all_Forall in Hoks.
    cbn [channels]. apply inb_un_map. rewrite Forall_forall in *. intros x Hx. apply H; auto.
  - apply andb_prop in Hok as [_ Hok]. cbn [channels]. apply IHw; auto.
  - (* transformation *)
    apply andb_prop in Hok as [Hoki Hout]. cbn [channels].
    change (if rv then t_mirror (duration w) T else T) with (nfT rv (duration w) T). rewrite t_out_nfT.
    pose proof (t_out_ext T (channels (nf rv w)) (channels w) (IHw Hoki rv)) as E. unfold oset_eq in E.
    destruct (t_out T (channels (nf rv w))), (t_out T (channels w)); try contradiction; [apply E|reflexivity].
  - apply andb_prop in Hok as [Hok _]. apply andb_prop in Hok as [Hok1 Hok2].
    cbn [channels]. rewrite !inb_unionb, (IHw1 Hok1), (IHw2 Hok2). reflexivity.
  - apply andb_prop in Hok as [Hok _]. cbn [channels]. apply IHw; auto.
  - cbn [channels]. apply IHw; auto.
Qed.

(* ---- the guard ---- *)
(* [badT]: moved to Guards.v (round 5) *)
Definition mirror_okT (rv : bool) (c : chan) (x : wf) : Prop :=
  forall u, rng rv (duration x) u -> badT rv x c u = false ->
  oQeq (sc (nf rv x) c (tm rv (duration x) u)) (sample x c u).

Lemma seq_coreT rv c l tau :
  Forall (fun x => okb x = true) l -> Forall (mirror_okT rv c) l -> rng rv (sumd l) tau ->
  bad_list rv tau (map (fun s => (duration s, badT rv s c)) l) 0 = false ->
  oQeq (scseq c (tm rv (sumd l) tau) (if rv then rev (map (nf rv) l) else map (nf rv) l) 0) (seqp c tau l 0 None).
Proof.
  intros Hok HM Hr Hb.
  assert (Hpos : Forall (fun y => 0 < duration y) l) by (eapply Forall_impl; [|exact Hok]; intros y Hy; apply okb_pos; exact Hy).
  assert (Hnn : Forall (fun y => 0 <= duration y) l) by (eapply Forall_impl; [|exact Hpos]; intros y Hy; cbn in Hy; lra).
  assert (Hg : Forall (fun y => duration (nf rv y) == duration y) l) by (apply Forall_forall; intros y _; apply nf_duration).
  assert (Hnn' : Forall (fun y => 0 <= duration y) (map (nf rv) l)).
  { apply Forall_forall. intros y Hy. apply in_map_iff in Hy as [z [<- Hz]]. rewrite Forall_forall in Hnn.
    rewrite nf_duration. auto. }
  destruct rv; cbn [rng tm] in *.
  - destruct Hr as [R0 R1].
    assert (Hlt : tau < sumd l).
    { destruct (Qeq_dec tau (sumd l)) as [E|NE]; [|lra]. exfalso.
      destruct l as [|x r]; [cbn [sumd] in *; lra|].
      rewrite (bad_list_end tau (fun s => badT true s c) (x :: r)) in Hb; [discriminate|discriminate|lra]. }
    destruct (At_exists l Hnn 0 tau) as [x [u HA]]; [lra|lra|].
    destruct (bad_list_At true tau (fun s => badT true s c) l 0 x u Hb HA) as [Hbx Hu]. specialize (Hu eq_refl).
    destruct (At_local _ _ _ _ _ HA) as [_ Hu1].
    destruct (At_rev_map (nf true) l Hg tau x u HA Hu) as [u' [HA' Hu']].
    rewrite (scseq_At c _ 0 _ _ u' (Forall_rev' _ _ Hnn') HA'), (seqp_At c l 0 tau x u None Hnn HA).
    eapply oQeq_trans; [apply (sc_proper (nf true x) c u' (duration x - u)); exact Hu'|].
    rewrite Forall_forall in HM. apply (HM x (At_In _ _ _ _ _ HA) u); [split; lra|exact Hbx].
  - destruct Hr as [R0 R1].
    destruct (At_exists l Hnn 0 tau) as [x [u HA]]; [lra|lra|].
    destruct (bad_list_At false tau (fun s => badT false s c) l 0 x u Hb HA) as [Hbx _].
    destruct (At_local _ _ _ _ _ HA) as [Hu0 Hu1].
    destruct (At_map (nf false) l Hg 0 0 tau x u (Qeq_refl 0) HA) as [u' [HA' Hu']].
    rewrite (scseq_At c _ 0 _ _ u' Hnn' HA'), (seqp_At c l 0 tau x u None Hnn HA).
    eapply oQeq_trans; [apply (sc_proper (nf false x) c u' u); exact Hu'|].
    rewrite Forall_forall in HM. apply (HM x (At_In _ _ _ _ _ HA) u); [split; lra|exact Hbx].
Qed.

Lemma existsb_false {A} (p : A -> bool) l : existsb p l = false -> forall x, In x l -> p x = false.
Proof.
  intros H x Hx. destruct (p x) eqn:E; [|reflexivity].
  assert (existsb p l = true) by (apply existsb_exists; eauto). congruence.
Qed.

Theorem mirror_main_T : forall w, okb w = true -> twf_all w = true -> forall rv c,
  inb c (channels w) = true -> kerr w c = false -> mirror_okT rv c w.
Proof.
  induction w using wf_ind'; intros Hok Htw rv ch Hch Hk tau Hr Hb; cbn [okb] in Hok; cbn [twf_all] in Htw.
  - (* table *)
    destruct rv; cbn [nf tm]; [|apply oQeq_refl].
    cbn [rng] in Hr. apply (sample_proper (WTable c tab) ch). cbn [duration]. lra.
  - destruct rv; cbn; reflexivity.
  - destruct rv; cbn [nf tm]; [|apply oQeq_refl].
    apply (sample_proper (WFunc k d c) ch). cbn [duration]. lra.
  - (* sequence *)
    apply andb_prop in Hok as [Hchs Hoks]. apply okb_all_Forall in Hoks. apply twf_all_Forall in Htw.
    assert (Hin := seq_children_have_chan l ch Hchs Hch).
    rewrite kerr_seq_any in Hk. pose proof (existsb_false _ _ Hk) as Hks.
    cbn [nf]. rewrite sc_seq, sample_seq, duration_seq in *. cbn [badT] in Hb.
    apply seq_coreT; auto.
    rewrite Forall_forall in *. intros x Hx. apply H; auto.
  - (* multi-channel *)
    apply andb_prop in Hok as [Hok Hoks]. apply andb_prop in Hok as [Hdur Hov].
    apply okb_all_Forall in Hoks. apply twf_all_Forall in Htw.
    assert (Hd : Forall (fun y => duration y == duration (WMulti l)) l).
    { destruct l as [|x r]; [discriminate|]. cbn [duration].
      constructor; [reflexivity|]. rewrite forallb_forall in Hdur. apply Forall_forall. intros y Hy.
      apply Qeq_bool_iff. auto. }
    clear Hdur Hov. revert Hr Hd. generalize (duration (WMulti l)) as d0. intros d0 Hr Hd.
    cbn [nf sc sample badT channels kerr] in *.
    induction H as [|s l' Hs _ IH]; [exact I|].
    apply Forall_cons_iff in Hoks as [Ho1 Ho2]. apply Forall_cons_iff in Htw as [Hn1 Hn2].
    apply Forall_cons_iff in Hd as [Hd1 Hd2]. cbn [map].
    rewrite (nf_inb_T s Ho1 rv ch).
    destruct (inb ch (channels s)) eqn:E.
    + eapply oQeq_trans; [apply (sc_proper (nf rv s) ch _ (tm rv (duration s) tau)); apply tm_compat; symmetry; exact Hd1|].
      apply (Hs Ho1 Hn1 rv ch E Hk tau); [apply (rng_compat rv d0); [symmetry; exact Hd1|exact Hr]|exact Hb].
    + apply IH; auto. rewrite inb_unionb, E in Hch. exact Hch.
  - (* repetition *)
    apply andb_prop in Hok as [Hn Hokb]. apply Z.leb_le in Hn. cbn [channels] in Hch. cbn [kerr] in Hk.
    cbn [nf]. rewrite sc_rep, sample_rep, screp_scseq, repp_seqp. cbn [badT] in Hb.
    set (k := Z.to_nat n) in *.
    assert (HD : duration (WRep w n) == sumd (repeat w k)).
    { cbn [duration]. rewrite sumd_repeat, kq_mult. unfold k. rewrite Z2Nat.id by lia. reflexivity. }
    assert (Hb' : bad_list rv tau (map (fun s => (duration s, badT rv s ch)) (repeat w k)) 0 = false)
      by (rewrite (map_repeat' (fun s => (duration s, badT rv s ch))); exact Hb).
    assert (Hcore := seq_coreT rv ch (repeat w k) tau).
    assert (HL : (if rv then rev (map (nf rv) (repeat w k)) else map (nf rv) (repeat w k)) = repeat (nf rv w) k).
    { rewrite map_repeat'. destruct rv; [apply rev_repeat'|reflexivity]. }
    rewrite HL in Hcore.
    eapply oQeq_trans; [apply (scseq_compat ch _ (tm rv (sumd (repeat w k)) tau)); [apply tm_compat; exact HD|]|].
    + apply Forall_forall. intros y _. apply sc_proper.
    + apply Hcore; auto.
      * apply Forall_forall. intros y Hy. apply repeat_spec in Hy. subst y. exact Hokb.
      * apply Forall_forall. intros y Hy. apply repeat_spec in Hy. subst y. exact (IHw Hokb Htw rv ch Hch Hk).
      * exact (rng_compat rv _ _ tau HD Hr).
  - (* transformation *)
    apply andb_prop in Hok as [Hoki Hout]. apply andb_prop in Htw as [Hwf Htwi].
    destruct (t_out T (channels w)) as [co|] eqn:Eo; [|discriminate].
    cbn [channels] in Hch. rewrite Eo in Hch.
    destruct (t_in_channels T (channels w) co ch Eo Hch) as [ins [Ein Hins]].
    destruct (kerr_trans_inv w T ch ins Hk Ein) as [Hkins Hnf].
    cbn [badT] in Hb. rewrite Ein in Hb. pose proof (existsb_false _ _ Hb) as Hbs. pose proof (existsb_false _ _ Hkins) as Hks.
    cbn [duration] in Hr |- *. cbn [nf].
    change (if rv then t_mirror (duration w) T else T) with (nfT rv (duration w) T).
    set (t' := tm rv (duration w) tau). set (T' := nfT rv (duration w) T). set (i' := nf rv w).
    cbn [sc sample]. rewrite Ein.
    assert (HI : forall k, inb k ins = true -> oQeq (sc i' k t') (sample w k tau)).
    { intros k Hk'. apply (IHw Hoki Htwi rv k (Hins k Hk')); [apply Hks; apply inb_In; exact Hk'|exact Hr|apply Hbs; apply inb_In; exact Hk']. }
    assert (HwfT' : t_wfb T' = true) by (unfold T'; rewrite t_wfb_nfT; exact Hwf).
    assert (HinT' : t_in T' [ch] = Some ins) by (unfold T'; rewrite t_in_nfT; exact Ein).
    set (d := map (fun ic => (ic, sample w ic tau)) ins). set (d' := map (fun ic => (ic, sc i' ic t')) ins).
    set (D' := map (fun ic => (ic, sc i' ic t')) (channels i')).
    destruct (t_point_succeeds_shape T tau (fun _ => None) (fun ic => sample w ic tau) ins Hnf) as [o Eo1]. fold d in Eo1.
    assert (Hdd : deq d' d).
    { unfold d, d'. clear -HI. induction ins as [|ic r IH]; [constructor|]. cbn [map]. constructor.
      - split; [reflexivity|]. cbn [snd]. apply HI. rewrite inb_cons, N.eqb_refl. reflexivity.
      - apply IH. intros k Hk. apply HI. rewrite inb_cons, Hk. apply orb_true_r. }
    pose proof (t_point_nfT rv (duration w) T tau d' d Hdd) as Hm. fold T' t' in Hm. rewrite Eo1 in Hm.
    destruct (t_point T' t' d') as [o'|] eqn:Eo'; [|contradiction]. cbn [odeq] in Hm.
    assert (HoutT' : exists co', t_out T' (channels i') = Some co').
    { unfold T'. rewrite t_out_nfT. pose proof (t_out_ext T (channels i') (channels w) (nf_inb_T w Hoki rv)) as E.
      rewrite Eo in E. unfold oset_eq in E. destruct (t_out T (channels i')); [eauto|contradiction]. }
    destruct HoutT' as [co' Eco'].
    assert (HK : forall c0, inb c0 (keys D') = inb c0 (channels i')) by (intros c0; unfold D'; rewrite keys_map_key; reflexivity).
    destruct (t_full_ok T' HwfT' (channels i') co' t' D' HK Eco') as [O [EO _]]. fold D'. rewrite EO.
    assert (Hag : forall k, inb k ins = true -> lookup k d' = lookup k D' /\ lookup k d' <> None).
    { intros k Hk'. unfold d', D'. rewrite !(lookup_map_key (fun ic => sc i' ic t')), Hk'.
      unfold i'. rewrite (nf_inb_T w Hoki rv k), (Hins k Hk'). split; [reflexivity|discriminate]. }
    destruct (t_restrict_agree T' HwfT' t' [ch] ins d' D' o' O HinT' Hag Eo' EO ch) as [Hsame _];
      [rewrite inb_cons, N.eqb_refl; reflexivity|].
    rewrite <- Hsame, Eo1. exact (deq_lookup_flat ch o' o Hm).
  - (* subset *)
    apply andb_prop in Hok as [Hok Hne]. apply andb_prop in Hok as [Hokb Hs].
    cbn [nf sc sample badT channels duration kerr] in *. exact (IHw Hokb Htw rv ch (subsetb_inb _ _ _ Hs Hch) Hk tau Hr Hb).
  - (* arithmetic *)
    apply andb_prop in Hok as [Hok Hdur]. apply andb_prop in Hok as [Hok1 Hok2]. apply Qeq_bool_iff in Hdur.
    apply andb_prop in Htw as [Hn1 Hn2].
    cbn [nf sc sample badT channels duration kerr] in *. rewrite (nf_inb_T w1 Hok1 rv ch), (nf_inb_T w2 Hok2 rv ch).
    rewrite inb_unionb in Hch. apply orb_false_iff in Hk as [K1 K2].
    assert (H2 : inb ch (channels w2) = true -> badT rv w2 ch tau = false ->
                 oQeq (sc (nf rv w2) ch (tm rv (duration w1) tau)) (sample w2 ch tau)).
    { intros E2 B2. eapply oQeq_trans; [apply (sc_proper (nf rv w2) ch _ (tm rv (duration w2) tau)); apply tm_compat; exact Hdur|].
      rewrite E2 in K2. cbn [andb] in K2.
      apply (IHw2 Hok2 Hn2 rv ch E2 K2 tau); [exact (rng_compat rv _ _ tau Hdur Hr)|exact B2]. }
    destruct (inb ch (channels w1)) eqn:E1, (inb ch (channels w2)) eqn:E2; try discriminate; cbn [andb orb] in Hb, K1, K2.
    + apply orb_false_iff in Hb as [B1 B2]. apply omap2_compat.
      * intros x x' y y' X Y; apply aop_at_compat; assumption.
      * exact (IHw1 Hok1 Hn1 rv ch E1 K1 tau Hr B1).
      * exact (H2 eq_refl B2).
    + rewrite orb_false_r in Hb. exact (IHw1 Hok1 Hn1 rv ch E1 K1 tau Hr Hb).
    + apply omap_compat; [intros x x' X; apply aop_rhs_compat; exact X|exact (H2 eq_refl Hb)].
  - (* functor *)
    apply andb_prop in Hok as [Hokb Hkeys]. cbn [nf sc sample badT channels duration kerr] in *.
    destruct (lookup ch f); [|exact I].
    apply omap_compat; [intros x x' X; apply functor_at_compat; exact X|exact (IHw Hokb Htw rv ch Hch Hk tau Hr Hb)].
  - (* reversal *)
    cbn [nf sample badT channels duration kerr] in *.
    eapply oQeq_trans; [apply (sc_proper (nf (negb rv) w) ch _ (tm (negb rv) (duration w) (duration w - tau)))|].
    + destruct rv; cbn [negb tm]; lra.
    + apply (IHw Hok Htw (negb rv) ch Hch Hk (duration w - tau)); [|exact Hb].
      destruct rv; cbn [negb rng] in *; destruct Hr; split; lra.
Qed.

(* ---- the theorems ---- *)
Theorem den_is_sample_guarded_T : forall w, okb w = true -> twf_all w = true -> forall c t,
  inb c (channels w) = true -> kerr w c = false -> 0 <= t -> t < duration w -> badT false w c t = false ->
  oQeq (den w c t) (sample w c t).
Proof.
  intros w Hok Htw c t Hc Hk H0 H1 Hb. unfold den.
  exact (mirror_main_T w Hok Htw false c Hc Hk t (conj H0 H1) Hb).
Qed.
Theorem mirror_law_den_T : forall w, okb w = true -> twf_all w = true -> forall c t,
  inb c (channels w) = true -> kerr w c = false -> 0 <= t -> t < duration w -> badT false (WRev w) c t = false ->
  oQeq (den (WRev w) c t) (sample w c (duration w - t)).
Proof.
  intros w Hok Htw c t Hc Hk H0 H1 Hb.
  exact (den_is_sample_guarded_T (WRev w) Hok Htw c t Hc Hk H0 H1 Hb).
Qed.

(* without transformations the guard is ProofsMirror.bad: the theorems generalise den_is_sample_guarded / mirror_law_den *)
Lemma bad_list_ext rv tau : forall (ds ds' : list (Q * (Q -> bool))),
  Forall2 (fun a b => fst a = fst b /\ forall u, snd a u = snd b u) ds ds' -> forall time, bad_list rv tau ds time = bad_list rv tau ds' time.
Proof.
  induction 1 as [|[d g] [d' g'] l l' [Hd Hg] _ IH]; intros time; [reflexivity|]. cbn in Hd, Hg. subst d'.
  cbn [bad_list]. cbv zeta. rewrite Hg, IH. reflexivity.
Qed.
Lemma badT_no_trans : forall w, no_trans w = true -> forall rv c t, badT rv w c t = bad rv w c t.
Proof.
  induction w using wf_ind'; intros Hn rv ch t; cbn [no_trans] in Hn; cbn [badT bad]; auto.
  - apply no_trans_all_Forall in Hn. apply bad_list_ext. clear -H Hn.
    induction H as [|s r Hs _ IH]; [constructor|]. apply Forall_cons_iff in Hn as [N1 N2]. cbn [map]. constructor; [|exact (IH N2)].
    split; [reflexivity|]. intros u. cbn [snd]. apply Hs; exact N1.
  - apply no_trans_all_Forall in Hn. induction H as [|s r Hs _ IH]; [reflexivity|]. apply Forall_cons_iff in Hn as [N1 N2].
    destruct (inb ch (channels s)); [apply Hs; exact N1|apply IH; exact N2].
  - apply bad_list_ext. induction (Z.to_nat n) as [|k IH]; [constructor|]. cbn [repeat]. constructor; [|exact IH].
    split; [reflexivity|]. intros u. cbn [snd]. apply IHw; exact Hn.
  - discriminate.
  - apply andb_prop in Hn as [N1 N2]. rewrite (IHw1 N1), (IHw2 N2). reflexivity.
Qed.

Example mirrorT_examples :
  let tabA := WTable 1%N [mkE 0 1 Hold; mkE (1#2) 2 Linear] in
  let tabB := WTable 1%N [mkE 0 5 Hold; mkE (1#2) 7 Linear] in
  let T := TChain [TScale [(1%N, TT 1 2)]; TOffset [(1%N, TT 0 (-1))]; TParallel [(2%N, TT 3 1)]] in
  let w := WRev (WSeq [WTrans tabA T; WRev (WTrans (WSeq [tabB; tabA]) T)]) in
  okb w = true /\ twf_all w = true /\ kerr w 1%N = false /\ kerr w 2%N = false /\
  (* away from junctions: not excluded, and equal (time dependent scaling, offset and parallel constant below one and two reversals) *)
  badT false w 1%N (1#4) = false /\ oQeqb (den w 1%N (1#4)) (sample w 1%N (1#4)) = true /\
  badT false w 2%N (5#4) = false /\ oQeqb (den w 2%N (5#4)) (sample w 2%N (5#4)) = true /\
  badT false w 1%N (5#4) = false /\ oQeqb (den w 1%N (5#4)) (sample w 1%N (5#4)) = true /\
  (* the junction of the outer sequence under ONE reversal: excluded, and indeed different *)
  badT false w 1%N 1 = true /\ oQeqb (den w 1%N 1) (sample w 1%N 1) = false /\
  (* the junction of the inner sequence under TWO reversals: not excluded, equal *)
  badT false w 1%N (1#2) = false /\ oQeqb (den w 1%N (1#2)) (sample w 1%N (1#2)) = true.
Proof. vm_compute. repeat split; reflexivity. Qed.
