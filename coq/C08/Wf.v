(* C08 — shared by all proof files: the well-formedness predicate the theorems assume, and induction principles for
   the nested inductive types (lists of waveforms / transformations). *)
From Coq Require Import List ZArith QArith Qabs Bool.
Require Import QV.C08.Model QV.C08.Spec.
Import ListNotations.
Open Scope Q_scope.

(* what the constructors of waveforms.py guarantee for a successfully constructed object (exact durations) *)
Fixpoint okb (w : wf) : bool :=
  match w with
  | WTable _ tab => table_valid tab
  | WConst d _ _ | WFunc _ d _ => Qltb 0 d
  | WSeq l =>
      match l with
      | [] => false
      | x :: r => forallb (fun y => set_eqb (channels y) (channels x)) r
      end && (fix all (l : list wf) := match l with [] => true | x :: r => okb x && all r end) l
  | WMulti l =>
      match l with
      | [] => false
      | x :: r => forallb (fun y => Qeq_bool (duration y) (duration x)) r
      end && overlap_free l []
      && (fix all (l : list wf) := match l with [] => true | x :: r => okb x && all r end) l
  | WRep b n => (1 <=? n)%Z && okb b
  | WTrans i T => okb i && match t_out T (channels i) with Some _ => true | None => false end
  | WSubset i cs => okb i && subsetb cs (channels i) && match cs with [] => false | _ => true end
  | WArith l _ r => okb l && okb r && Qeq_bool (duration l) (duration r)
  | WFunctor i f => okb i && set_eqb (keys f) (channels i)
  | WRev i => okb i
  end.

Section WfInd.
  Variable P : wf -> Prop.
  Hypothesis HTable : forall c tab, P (WTable c tab).
  Hypothesis HConst : forall d v c, P (WConst d v c).
  Hypothesis HFunc : forall k d c, P (WFunc k d c).
  Hypothesis HSeq : forall l, Forall P l -> P (WSeq l).
  Hypothesis HMulti : forall l, Forall P l -> P (WMulti l).
  Hypothesis HRep : forall b n, P b -> P (WRep b n).
  Hypothesis HTrans : forall i T, P i -> P (WTrans i T).
  Hypothesis HSubset : forall i cs, P i -> P (WSubset i cs).
  Hypothesis HArith : forall l o r, P l -> P r -> P (WArith l o r).
  Hypothesis HFunctor : forall i f, P i -> P (WFunctor i f).
  Hypothesis HRev : forall i, P i -> P (WRev i).

  Fixpoint wf_ind' (w : wf) : P w :=
    match w with
    | WTable c tab => HTable c tab
    | WConst d v c => HConst d v c
    | WFunc k d c => HFunc k d c
    | WSeq l => HSeq l ((fix go (l : list wf) : Forall P l :=
                           match l with [] => Forall_nil P | x :: r => Forall_cons x (wf_ind' x) (go r) end) l)
    | WMulti l => HMulti l ((fix go (l : list wf) : Forall P l :=
                               match l with [] => Forall_nil P | x :: r => Forall_cons x (wf_ind' x) (go r) end) l)
    | WRep b n => HRep b n (wf_ind' b)
    | WTrans i T => HTrans i T (wf_ind' i)
    | WSubset i cs => HSubset i cs (wf_ind' i)
    | WArith l o r => HArith l o r (wf_ind' l) (wf_ind' r)
    | WFunctor i f => HFunctor i f (wf_ind' i)
    | WRev i => HRev i (wf_ind' i)
    end.
End WfInd.

Section TrafoInd.
  Variable P : trafo -> Prop.
  Hypothesis HId : P TId.
  Hypothesis HScale : forall f, P (TScale f).
  Hypothesis HOffset : forall f, P (TOffset f).
  Hypothesis HLinear : forall i o m, P (TLinear i o m).
  Hypothesis HParallel : forall f, P (TParallel f).
  Hypothesis HChain : forall l, Forall P l -> P (TChain l).
  Fixpoint trafo_ind' (T : trafo) : P T :=
    match T with
    | TId => HId
    | TScale f => HScale f
    | TOffset f => HOffset f
    | TLinear i o m => HLinear i o m
    | TParallel f => HParallel f
    | TChain l => HChain l ((fix go (l : list trafo) : Forall P l :=
                               match l with [] => Forall_nil P | x :: r => Forall_cons x (trafo_ind' x) (go r) end) l)
    end.
End TrafoInd.

(* the okb of a sequence / multi-channel node gives okb of every part *)
Lemma okb_all_Forall l :
  (fix all (l : list wf) := match l with [] => true | x :: r => okb x && all r end) l = true -> Forall (fun x => okb x = true) l.
Proof.
  induction l as [|x r IH]; intros H; constructor.
  - apply andb_prop in H as [H _]; exact H.
  - apply IH. apply andb_prop in H as [_ H]; exact H.
Qed.
