(* C08 — the code against the denotation of DESIGN 4.4 for ARBITRARY placements of reversal (reversal around sequences /
   repetitions / any nesting; no transformations): [den w c t] (reversals pushed to the leaves, pieces in reversed order,
   first-match junctions) equals the code's answer [sample w c t] at every time that is not excluded by the executable
   guard [bad]: under an ODD number of reversals a time that falls exactly on a boundary of a sequence / repetition
   (internal junction or its end) is excluded (known finding C08-reversed-composite-junction: there the code answers with
   the originally later piece resp. NaN); under an even number nothing is excluded.  This is the mirror law of
   DESIGN 4.4 "away from internal junctions". *)
From Coq Require Import List ZArith QArith Qabs Bool Lia Lqa.
Require Import QV.C08.Model QV.C08.Spec QV.C08.Wf QV.C08.ProofsVec QV.C08.ProofsConst QV.C08.ProofsProper
               QV.C08.ProofsCtor QV.C08.ProofsFlat QV.C08.ProofsDen QV.C08.Guards.
Import ListNotations.
Open Scope Q_scope.

(* ---- sc respects == of times ---- *)
Lemma scseq_compat c t t' (E : t == t') l :
  Forall (fun s => forall c t t', t == t' -> oQeq (sc s c t) (sc s c t')) l ->
  forall time, oQeq (scseq c t l time) (scseq c t' l time).
Proof.
  induction 1 as [|s r Hs _ IH]; intros time; [exact I|].
  destruct r as [|s2 r'].
  - cbn [scseq]. apply Hs. rewrite E. reflexivity.
  - change (scseq c t (s :: s2 :: r') time) with
      (if Qltb t (time + duration s) then sc s c (t - time) else scseq c t (s2 :: r') (time + duration s)).
    change (scseq c t' (s :: s2 :: r') time) with
      (if Qltb t' (time + duration s) then sc s c (t' - time) else scseq c t' (s2 :: r') (time + duration s)).
    rewrite (Qltb_compat t t' _ _ E (Qeq_refl _)).
    destruct (Qltb t' (time + duration s)); [apply Hs; rewrite E; reflexivity|apply IH].
Qed.

Lemma screp_scseq c t b : forall k time, screp c t b k time = scseq c t (repeat b k) time.
Proof.
  induction k as [|k IH]; intros time; [reflexivity|].
  destruct k as [|k']; [reflexivity|].
  change (screp c t b (S (S k')) time) with
    (if Qltb t (time + duration b) then sc b c (t - time) else screp c t b (S k') (time + duration b)).
  rewrite IH. reflexivity.
Qed.
Lemma repp_seqp c t b : forall k time acc, repp c t b k time acc = seqp c t (repeat b k) time acc.
Proof. induction k as [|k IH]; intros time acc; [reflexivity|]. cbn [repp repeat seqp]. cbv zeta. apply IH. Qed.

Theorem sc_proper : forall w c t t', t == t' -> oQeq (sc w c t) (sc w c t').
Proof.
  induction w using wf_ind'; intros ch t t' E.
  - cbn [sc]. apply table_at_compat; [exact E|exact I].
  - cbn. reflexivity.
  - cbn. apply poly_at_compat; exact E.
  - rewrite !sc_seq. apply scseq_compat; [exact E|exact H].
  - cbn [sc]. induction H as [|s r Hs _ IH]; [exact I|].
    destruct (inb ch (channels s)); [apply Hs; exact E|exact IH].
  - rewrite !sc_rep, !screp_scseq. apply scseq_compat; [exact E|].
    apply Forall_forall. intros y Hy. apply repeat_spec in Hy. subst y. exact IHw.
  - cbn [sc].
    assert (Hd : deq (map (fun ic => (ic, sc w ic t)) (channels w)) (map (fun ic => (ic, sc w ic t')) (channels w))).
    { induction (channels w) as [|ic ins IH]; cbn; constructor; auto. split; [reflexivity|]. cbn. apply IHw; exact E. }
    pose proof (t_point_compat T t t' _ _ E Hd) as Hp.
    destruct (t_point T t _) as [o1|], (t_point T t' _) as [o2|]; cbn in Hp; try tauto.
    apply deq_lookup_flat; exact Hp.
  - cbn [sc]. apply IHw; exact E.
  - cbn [sc]. destruct (inb ch (channels w1)), (inb ch (channels w2)).
    + apply omap2_compat; auto. intros x x' y y' H1 H2; apply aop_at_compat; assumption.
    + apply IHw1; exact E.
    + apply omap_compat; auto. intros x x' H1; apply aop_rhs_compat; assumption.
    + apply omap_compat; auto. intros x x' H1; apply aop_rhs_compat; assumption.
  - cbn [sc]. destruct (lookup ch f) as [g|]; [|exact I].
    apply omap_compat; auto. intros x x' H1; apply functor_at_compat; assumption.
  - cbn [sc]. apply IHw. rewrite E. reflexivity.
Qed.

(* ---- durations and channels of the normal form ---- *)
Lemma sumd_app a b : sumd (a ++ b) == sumd a + sumd b.
Proof. induction a as [|x a IH]; cbn [app sumd]; [lra|]. rewrite IH. lra. Qed.
Lemma sumd_rev l : sumd (rev l) == sumd l.
Proof. induction l as [|x l IH]; [reflexivity|]. cbn [rev]. rewrite sumd_app, IH. cbn [sumd]. lra. Qed.
Lemma sumd_map (g : wf -> wf) l : Forall (fun x => duration (g x) == duration x) l -> sumd (map g l) == sumd l.
Proof. induction 1 as [|x l Hx _ IH]; [reflexivity|]. cbn [map sumd]. rewrite Hx, IH. reflexivity. Qed.

Lemma nf_duration : forall w rv, duration (nf rv w) == duration w.
Proof.
  induction w using wf_ind'; intros rv; cbn [nf]; try (destruct rv; reflexivity).
  - rewrite !duration_seq.
    assert (Hm : sumd (map (nf rv) l) == sumd l).
    { apply sumd_map. eapply Forall_impl; [|exact H]. intros x Hx. apply Hx. }
    destruct rv; [rewrite sumd_rev|]; exact Hm.
  - destruct l as [|x r]; [reflexivity|]. cbn [map duration]. apply Forall_cons_iff in H as [Hx _]. apply Hx.
  - cbn [duration]. rewrite IHw. reflexivity.
  - cbn [duration]. apply IHw.
  - cbn [duration]. apply IHw.
  - cbn [duration]. apply IHw1.
  - cbn [duration]. apply IHw.
  - cbn [duration]. apply IHw.
Qed.

Lemma inb_un_map (g : wf -> wf) c l : Forall (fun x => inb c (channels (g x)) = inb c (channels x)) l ->
  inb c ((fix un (l : list wf) := match l with [] => [] | x :: r => unionb (channels x) (un r) end) (map g l)) =
  inb c ((fix un (l : list wf) := match l with [] => [] | x :: r => unionb (channels x) (un r) end) l).
Proof. induction 1 as [|x l Hx _ IH]; [reflexivity|]. cbn [map]. rewrite !inb_unionb, Hx, IH. reflexivity. Qed.

Lemma nf_inb : forall w, okb w = true -> no_trans w = true -> forall rv c, inb c (channels (nf rv w)) = inb c (channels w).
Proof.
  induction w using wf_ind'; intros Hok Hnt rv ch; cbn [okb] in Hok; cbn [no_trans] in Hnt; cbn [nf];
    try (destruct rv; reflexivity).
  - (* sequence *)
    apply andb_prop in Hok as [Hchs Hoks]. apply okb_all_Forall in Hoks. apply no_trans_all_Forall in Hnt.
    assert (HF : forall y, In y l -> forall rv, inb ch (channels (nf rv y)) = inb ch (channels y)).
    { intros y Hy rv'. rewrite Forall_forall in H, Hoks, Hnt. apply H; auto. }
    destruct l as [|x r]; [discriminate|].
    assert (Hsame : forall y, In y (x :: r) -> inb ch (channels y) = inb ch (channels x)).
    { intros y [<-|Hy]; [reflexivity|]. rewrite forallb_forall in Hchs. apply set_eqb_inb. exact (Hchs y Hy). }
    destruct rv.
    + destruct (exists_last (l := x :: r)) as [l' [y Ey]]; [discriminate|].
      assert (Hy : In y (x :: r)) by (rewrite Ey; apply in_or_app; right; left; reflexivity).
      change (channels (WSeq (x :: r))) with (channels x).
      rewrite Ey, map_app, rev_app_distr. cbn [map rev app channels].
      rewrite (HF y Hy true), (Hsame y Hy). reflexivity.
    + cbn [map channels]. apply HF. left; reflexivity.
  - (* multi *)
    apply andb_prop in Hok as [_ Hoks]. apply okb_all_Forall in Hoks. apply no_trans_all_Forall in Hnt.
    cbn [channels]. apply inb_un_map. rewrite Forall_forall in *. intros x Hx. apply H; auto.
  - apply andb_prop in Hok as [_ Hok]. cbn [channels]. apply IHw; auto.
  - discriminate.
  - apply andb_prop in Hok as [Hok _]. apply andb_prop in Hok as [Hok1 Hok2]. apply andb_prop in Hnt as [Hn1 Hn2].
    cbn [channels]. rewrite !inb_unionb, (IHw1 Hok1 Hn1), (IHw2 Hok2 Hn2). reflexivity.
  - apply andb_prop in Hok as [Hok _]. cbn [channels]. apply IHw; auto.
  - cbn [channels]. apply IHw; auto.
Qed.

(* ---- which piece of a list of parts contains a time ---- *)
Inductive At : list wf -> Q -> Q -> wf -> Q -> Prop :=
| At_here x r time t : time <= t -> t < time + duration x -> At (x :: r) time t x (t - time)
| At_later x r time t y u : At r (time + duration x) t y u -> At (x :: r) time t y u.

Lemma At_In l time t x u : At l time t x u -> In x l.
Proof. induction 1; [left; reflexivity|right; assumption]. Qed.
Lemma At_ge l time t x u : Forall (fun y => 0 <= duration y) l -> At l time t x u -> time <= t.
Proof.
  intros Hnn H. induction H as [x r time t H0 H1|x r time t y u H IH]; [exact H0|].
  apply Forall_cons_iff in Hnn as [Hx Hr]. specialize (IH Hr). lra.
Qed.
Lemma At_local l time t x u : At l time t x u -> 0 <= u /\ u < duration x.
Proof. induction 1 as [x r time t H0 H1|]; [split; lra|assumption]. Qed.
Lemma At_exists l : Forall (fun y => 0 <= duration y) l -> forall time t, time <= t -> t < time + sumd l ->
  exists x u, At l time t x u.
Proof.
  induction 1 as [|x r Hx Hr IH]; intros time t H0 H1; cbn [sumd] in H1; [lra|].
  destruct (Qlt_le_dec t (time + duration x)) as [L|G].
  - exists x, (t - time). constructor; assumption.
  - destruct (IH (time + duration x) t G) as [y [u Hy]]; [lra|]. exists y, u. constructor; exact Hy.
Qed.
Lemma At_split l time t x u : At l time t x u ->
  exists A B s, l = A ++ x :: B /\ s == time + sumd A /\ u = t - s /\ s <= t /\ t < s + duration x.
Proof.
  induction 1 as [x r time t H0 H1|x r time t y u H IH].
  - exists [], r, time. cbn [app sumd]. repeat split; auto; lra.
  - destruct IH as [A [B [s [E [Hs [Hu [Hl Hr]]]]]]]. exists (x :: A), B, s. subst r. cbn [app sumd].
    repeat split; auto. rewrite Hs. lra.
Qed.
Lemma At_join : forall A time x B t, time + sumd A <= t -> t < time + sumd A + duration x ->
  exists u', At (A ++ x :: B) time t x u' /\ u' == t - (time + sumd A).
Proof.
  induction A as [|a A IH]; intros time x B t H0 H1; cbn [sumd app] in *.
  - exists (t - time). split; [constructor; lra|lra].
  - destruct (IH (time + duration a) x B t) as [u' [HA Hu]]; [lra|lra|].
    exists u'. split; [constructor; exact HA|rewrite Hu; lra].
Qed.
Lemma At_map (g : wf -> wf) l : Forall (fun y => duration (g y) == duration y) l -> forall time time' t x u,
  time' == time -> At l time t x u -> exists u', At (map g l) time' t (g x) u' /\ u' == u.
Proof.
  intros Hg time time' t x u Ht H. revert time' Ht Hg.
  induction H as [x r time t H0 H1|x r time t y u H IH]; intros time' Ht Hg; apply Forall_cons_iff in Hg as [Hx Hr]; cbn [map].
  - exists (t - time'). split; [constructor; rewrite ?Hx; lra|lra].
  - destruct (IH (time' + duration (g x))) as [u' [HA Hu]]; [rewrite Hx, Ht; reflexivity|exact Hr|].
    exists u'. split; [constructor; exact HA|exact Hu].
Qed.
Lemma At_rev_map (g : wf -> wf) l : Forall (fun y => duration (g y) == duration y) l -> forall t x u,
  At l 0 t x u -> 0 < u -> exists u', At (rev (map g l)) 0 (sumd l - t) (g x) u' /\ u' == duration x - u.
Proof.
  intros Hg t x u H Hu.
  destruct (At_split _ _ _ _ _ H) as [A [B [s [E [Hs [Eu [Hl Hr]]]]]]]. subst l u.
  apply Forall_app in Hg as [HgA HgxB]. apply Forall_cons_iff in HgxB as [Hgx HgB].
  rewrite map_app, rev_app_distr. cbn [map rev]. rewrite <- app_assoc. cbn [app].
  assert (SB : sumd (rev (map g B)) == sumd B) by (rewrite sumd_rev; apply sumd_map; exact HgB).
  assert (ST : sumd (A ++ x :: B) == sumd A + duration x + sumd B) by (rewrite sumd_app; cbn [sumd]; lra).
  destruct (At_join (rev (map g B)) 0 (g x) (rev (map g A)) (sumd (A ++ x :: B) - t)) as [u' [HA Hu']].
  - rewrite SB, ST. lra.
  - rewrite SB, ST, Hgx. lra.
  - exists u'. split; [exact HA|]. rewrite Hu', SB, ST. lra.
Qed.

Lemma seqp_At c l time t x u acc : Forall (fun y => 0 <= duration y) l -> At l time t x u ->
  seqp c t l time acc = sample x c u.
Proof.
  intros Hnn H. revert acc Hnn. induction H as [x r time t H0 H1|x r time t y u H IH]; intros acc Hnn;
    apply Forall_cons_iff in Hnn as [Hx Hr]; cbn [seqp]; cbv zeta.
  - rewrite (Qltb_false t time H0), (Qltb_true _ _ H1). cbn [negb andb].
    apply seqp_outside; [exact Hr|left; exact H1].
  - pose proof (At_ge _ _ _ _ _ Hr H) as Hge. rewrite (Qltb_false _ _ Hge), andb_false_r. apply IH. exact Hr.
Qed.
Lemma scseq_At c l time t x u : Forall (fun y => 0 <= duration y) l -> At l time t x u -> scseq c t l time = sc x c u.
Proof.
  intros Hnn H. revert Hnn. induction H as [x r time t H0 H1|x r time t y u H IH]; intros Hnn;
    apply Forall_cons_iff in Hnn as [Hx Hr].
  - destruct r as [|s2 r']; [reflexivity|].
    change (scseq c t (x :: s2 :: r') time) with
      (if Qltb t (time + duration x) then sc x c (t - time) else scseq c t (s2 :: r') (time + duration x)).
    rewrite (Qltb_true _ _ H1). reflexivity.
  - destruct r as [|s2 r']; [inversion H|].
    change (scseq c t (x :: s2 :: r') time) with
      (if Qltb t (time + duration x) then sc x c (t - time) else scseq c t (s2 :: r') (time + duration x)).
    pose proof (At_ge _ _ _ _ _ Hr H) as Hge. rewrite (Qltb_false _ _ Hge). apply IH. exact Hr.
Qed.

(* ---- the guard ---- *)
(* [bad_list], [bad]: moved to Guards.v (round 5) so that Corr.v can use the same guard *)
Lemma bad_list_At rv tau (g : wf -> Q -> bool) l : forall time x u,
  bad_list rv tau (map (fun s => (duration s, g s)) l) time = false -> At l time tau x u ->
  g x u = false /\ (rv = true -> 0 < u).
Proof.
  intros time x u Hb H. revert Hb. induction H as [x r time t H0 H1|x r time t y u H IH]; cbn [map bad_list]; cbv zeta; intros Hb;
    apply orb_false_iff in Hb as [Hb Hb3]; apply orb_false_iff in Hb as [Hb1 Hb2].
  - rewrite (Qltb_false t time H0), (Qltb_true _ _ H1) in Hb2. cbn [negb andb] in Hb2. split; [exact Hb2|].
    intros ->. cbn [andb] in Hb1. apply orb_false_iff in Hb1 as [Hb1 _].
    assert (~ t == time) by (intros E; apply Qeq_bool_iff in E; congruence). lra.
  - exact (IH Hb3).
Qed.
Lemma bad_list_end tau (g : wf -> Q -> bool) l : l <> [] -> forall time, tau == time + sumd l ->
  bad_list true tau (map (fun s => (duration s, g s)) l) time = true.
Proof.
  induction l as [|x r IH]; intros Hne time E; [congruence|]. cbn [map bad_list sumd] in *. cbv zeta.
  destruct r as [|y r'].
  - cbn [sumd] in E. assert (E' : tau == time + duration x) by lra. apply Qeq_bool_iff in E'. rewrite E'.
    cbn. rewrite orb_true_r. reflexivity.
  - rewrite (IH ltac:(discriminate) (time + duration x)); [apply orb_true_r|]. rewrite E. lra.
Qed.

(* ---- the time range and the time in the frame of the normal form ---- *)
Definition rng (rv : bool) (d tau : Q) : Prop := if rv then 0 < tau /\ tau <= d else 0 <= tau /\ tau < d.
Definition tm (rv : bool) (d tau : Q) : Q := if rv then d - tau else tau.
Lemma rng_compat rv d d' tau : d == d' -> rng rv d tau -> rng rv d' tau.
Proof. intros E. destruct rv; cbn; intros [A B]; split; lra. Qed.
Lemma tm_compat rv d d' tau : d == d' -> tm rv d tau == tm rv d' tau.
Proof. intros E. destruct rv; cbn; lra. Qed.

Definition mirror_ok (rv : bool) (c : chan) (x : wf) : Prop :=
  forall u, rng rv (duration x) u -> bad rv x c u = false ->
  oQeq (sc (nf rv x) c (tm rv (duration x) u)) (sample x c u).

Lemma Forall_rev' {A} (P : A -> Prop) l : Forall P l -> Forall P (rev l).
Proof. intros H. apply Forall_forall. intros x Hx. apply in_rev in Hx. rewrite Forall_forall in H. auto. Qed.

Lemma seq_core rv c l tau :
  Forall (fun x => okb x = true) l -> Forall (mirror_ok rv c) l -> rng rv (sumd l) tau ->
  bad_list rv tau (map (fun s => (duration s, bad rv s c)) l) 0 = false ->
  oQeq (scseq c (tm rv (sumd l) tau) (if rv then rev (map (nf rv) l) else map (nf rv) l) 0) (seqp c tau l 0 None).
Proof.
  intros Hok HM Hr Hb.
  assert (Hpos : Forall (fun y => 0 < duration y) l) by (eapply Forall_impl; [|exact Hok]; intros y Hy; apply okb_pos; exact Hy).
  assert (Hnn : Forall (fun y => 0 <= duration y) l) by (eapply Forall_impl; [|exact Hpos]; intros y Hy; cbn in Hy; lra).
  assert (Hg : Forall (fun y => duration (nf rv y) == duration y) l) by (apply Forall_forall; intros y _; apply nf_duration).
  assert (Hnn' : Forall (fun y => 0 <= duration y) (map (nf rv) l)).
  { apply Forall_forall. intros y Hy. apply in_map_iff in Hy as [z [<- Hz]]. rewrite Forall_forall in Hnn.
    rewrite nf_duration. auto. }
  destruct rv; cbn [rng tm] in *.
  - destruct Hr as [R0 R1].
    assert (Hlt : tau < sumd l).
    { destruct (Qeq_dec tau (sumd l)) as [E|NE]; [|lra]. exfalso.
      destruct l as [|x r]; [cbn [sumd] in *; lra|].
      rewrite (bad_list_end tau (fun s => bad true s c) (x :: r)) in Hb; [discriminate|discriminate|lra]. }
    destruct (At_exists l Hnn 0 tau) as [x [u HA]]; [lra|lra|].
    destruct (bad_list_At true tau (fun s => bad true s c) l 0 x u Hb HA) as [Hbx Hu]. specialize (Hu eq_refl).
    destruct (At_local _ _ _ _ _ HA) as [_ Hu1].
    destruct (At_rev_map (nf true) l Hg tau x u HA Hu) as [u' [HA' Hu']].
    rewrite (scseq_At c _ 0 _ _ u' (Forall_rev' _ _ Hnn') HA'), (seqp_At c l 0 tau x u None Hnn HA).
    eapply oQeq_trans; [apply (sc_proper (nf true x) c u' (duration x - u)); exact Hu'|].
    rewrite Forall_forall in HM. apply (HM x (At_In _ _ _ _ _ HA) u); [split; lra|exact Hbx].
  - destruct Hr as [R0 R1].
    destruct (At_exists l Hnn 0 tau) as [x [u HA]]; [lra|lra|].
    destruct (bad_list_At false tau (fun s => bad false s c) l 0 x u Hb HA) as [Hbx _].
    destruct (At_local _ _ _ _ _ HA) as [Hu0 Hu1].
    destruct (At_map (nf false) l Hg 0 0 tau x u (Qeq_refl 0) HA) as [u' [HA' Hu']].
    rewrite (scseq_At c _ 0 _ _ u' Hnn' HA'), (seqp_At c l 0 tau x u None Hnn HA).
    eapply oQeq_trans; [apply (sc_proper (nf false x) c u' u); exact Hu'|].
    rewrite Forall_forall in HM. apply (HM x (At_In _ _ _ _ _ HA) u); [split; lra|exact Hbx].
Qed.

Lemma map_repeat' {A B} (g : A -> B) x k : map g (repeat x k) = repeat (g x) k.
Proof. induction k as [|k IH]; [reflexivity|]. cbn. rewrite IH. reflexivity. Qed.
Lemma rev_repeat' {A} (x : A) k : rev (repeat x k) = repeat x k.
Proof.
  induction k as [|k IH]; [reflexivity|]. cbn [repeat rev]. rewrite IH. symmetry. apply repeat_cons.
Qed.
Lemma sumd_repeat b k : sumd (repeat b k) = kq (duration b) k.
Proof. induction k as [|k IH]; [reflexivity|]. cbn [repeat sumd kq]. rewrite IH. reflexivity. Qed.

Theorem mirror_main : forall w, okb w = true -> no_trans w = true -> forall rv c,
  inb c (channels w) = true -> mirror_ok rv c w.
Proof.
  induction w using wf_ind'; intros Hok Hnt rv ch Hch tau Hr Hb; cbn [okb] in Hok; cbn [no_trans] in Hnt.
  - (* table *)
    destruct rv; cbn [nf tm]; [|apply oQeq_refl].
    cbn [rng] in Hr. apply (sample_proper (WTable c tab) ch). cbn [duration]. lra.
  - destruct rv; cbn; reflexivity.
  - destruct rv; cbn [nf tm]; [|apply oQeq_refl].
    apply (sample_proper (WFunc k d c) ch). cbn [duration]. lra.
  - (* sequence *)
    apply andb_prop in Hok as [Hchs Hoks]. apply okb_all_Forall in Hoks. apply no_trans_all_Forall in Hnt.
    assert (Hin := seq_children_have_chan l ch Hchs Hch).
    cbn [nf]. rewrite sc_seq, sample_seq, duration_seq in *. cbn [bad] in Hb.
    apply seq_core; auto.
    rewrite Forall_forall in *. intros x Hx. apply H; auto.
  - (* multi-channel *)
    apply andb_prop in Hok as [Hok Hoks]. apply andb_prop in Hok as [Hdur Hov].
    apply okb_all_Forall in Hoks. apply no_trans_all_Forall in Hnt.
    assert (Hd : Forall (fun y => duration y == duration (WMulti l)) l).
    { destruct l as [|x r]; [discriminate|]. cbn [duration].
      constructor; [reflexivity|]. rewrite forallb_forall in Hdur. apply Forall_forall. intros y Hy.
      apply Qeq_bool_iff. auto. }
    clear Hdur Hov. revert Hr Hd. generalize (duration (WMulti l)) as d0. intros d0 Hr Hd.
    cbn [nf sc sample bad channels] in *.
    induction H as [|s l' Hs _ IH]; [exact I|].
    apply Forall_cons_iff in Hoks as [Ho1 Ho2]. apply Forall_cons_iff in Hnt as [Hn1 Hn2].
    apply Forall_cons_iff in Hd as [Hd1 Hd2]. cbn [map].
    rewrite (nf_inb s Ho1 Hn1 rv ch).
    destruct (inb ch (channels s)) eqn:E.
    + eapply oQeq_trans; [apply (sc_proper (nf rv s) ch _ (tm rv (duration s) tau)); apply tm_compat; symmetry; exact Hd1|].
      apply (Hs Ho1 Hn1 rv ch E tau); [apply (rng_compat rv d0); [symmetry; exact Hd1|exact Hr]|exact Hb].
    + apply IH; auto. rewrite inb_unionb, E in Hch. exact Hch.
  - (* repetition *)
    apply andb_prop in Hok as [Hn Hokb]. apply Z.leb_le in Hn. cbn [channels] in Hch.
    cbn [nf]. rewrite sc_rep, sample_rep, screp_scseq, repp_seqp. cbn [bad] in Hb.
    set (k := Z.to_nat n) in *.
    assert (HD : duration (WRep w n) == sumd (repeat w k)).
    { cbn [duration]. rewrite sumd_repeat, kq_mult. unfold k. rewrite Z2Nat.id by lia. reflexivity. }
    assert (Hb' : bad_list rv tau (map (fun s => (duration s, bad rv s ch)) (repeat w k)) 0 = false)
      by (rewrite (map_repeat' (fun s => (duration s, bad rv s ch))); exact Hb).
    assert (Hcore := seq_core rv ch (repeat w k) tau).
    assert (HL : (if rv then rev (map (nf rv) (repeat w k)) else map (nf rv) (repeat w k)) = repeat (nf rv w) k).
    { rewrite map_repeat'. destruct rv; [apply rev_repeat'|reflexivity]. }
    rewrite HL in Hcore.
    eapply oQeq_trans; [apply (scseq_compat ch _ (tm rv (sumd (repeat w k)) tau)); [apply tm_compat; exact HD|]|].
    + apply Forall_forall. intros y _. apply sc_proper.
    + apply Hcore; auto.
      * apply Forall_forall. intros y Hy. apply repeat_spec in Hy. subst y. exact Hokb.
      * apply Forall_forall. intros y Hy. apply repeat_spec in Hy. subst y. exact (IHw Hokb Hnt rv ch Hch).
      * exact (rng_compat rv _ _ tau HD Hr).
  - discriminate.
  - (* subset *)
    apply andb_prop in Hok as [Hok Hne]. apply andb_prop in Hok as [Hokb Hs].
    cbn [nf sc sample bad channels duration] in *. exact (IHw Hokb Hnt rv ch (subsetb_inb _ _ _ Hs Hch) tau Hr Hb).
  - (* arithmetic *)
    apply andb_prop in Hok as [Hok Hdur]. apply andb_prop in Hok as [Hok1 Hok2]. apply Qeq_bool_iff in Hdur.
    apply andb_prop in Hnt as [Hn1 Hn2].
    cbn [nf sc sample bad channels duration] in *. rewrite (nf_inb w1 Hok1 Hn1 rv ch), (nf_inb w2 Hok2 Hn2 rv ch).
    rewrite inb_unionb in Hch.
    assert (H2 : inb ch (channels w2) = true -> bad rv w2 ch tau = false ->
                 oQeq (sc (nf rv w2) ch (tm rv (duration w1) tau)) (sample w2 ch tau)).
    { intros E2 B2. eapply oQeq_trans; [apply (sc_proper (nf rv w2) ch _ (tm rv (duration w2) tau)); apply tm_compat; exact Hdur|].
      apply (IHw2 Hok2 Hn2 rv ch E2 tau); [exact (rng_compat rv _ _ tau Hdur Hr)|exact B2]. }
    destruct (inb ch (channels w1)) eqn:E1, (inb ch (channels w2)) eqn:E2; try discriminate; cbn [andb orb] in Hb.
    + apply orb_false_iff in Hb as [B1 B2]. apply omap2_compat.
      * intros x x' y y' X Y; apply aop_at_compat; assumption.
      * exact (IHw1 Hok1 Hn1 rv ch E1 tau Hr B1).
      * exact (H2 eq_refl B2).
    + rewrite orb_false_r in Hb. exact (IHw1 Hok1 Hn1 rv ch E1 tau Hr Hb).
    + apply omap_compat; [intros x x' X; apply aop_rhs_compat; exact X|exact (H2 eq_refl Hb)].
  - (* functor *)
    apply andb_prop in Hok as [Hokb Hkeys]. cbn [nf sc sample bad channels duration] in *.
    destruct (lookup ch f); [|exact I].
    apply omap_compat; [intros x x' X; apply functor_at_compat; exact X|exact (IHw Hokb Hnt rv ch Hch tau Hr Hb)].
  - (* reversal *)
    cbn [nf sample bad channels duration] in *.
    eapply oQeq_trans; [apply (sc_proper (nf (negb rv) w) ch _ (tm (negb rv) (duration w) (duration w - tau)))|].
    + destruct rv; cbn [negb tm]; lra.
    + apply (IHw Hok Hnt (negb rv) ch Hch (duration w - tau)); [|exact Hb].
      destruct rv; cbn [negb rng] in *; destruct Hr; split; lra.
Qed.

(* ---- the theorems ---- *)
Theorem den_is_sample_guarded : forall w, okb w = true -> no_trans w = true -> forall c t,
  inb c (channels w) = true -> 0 <= t -> t < duration w -> bad false w c t = false ->
  oQeq (den w c t) (sample w c t).
Proof.
  intros w Hok Hnt c t Hc H0 H1 Hb. unfold den.
  exact (mirror_main w Hok Hnt false c Hc t (conj H0 H1) Hb).
Qed.
(* the mirror law of DESIGN 4.4: the denotation of the reversed waveform is the code's original at duration - t, away
   from the junctions the guard excludes *)
Theorem mirror_law_den : forall w, okb w = true -> no_trans w = true -> forall c t,
  inb c (channels w) = true -> 0 <= t -> t < duration w -> bad false (WRev w) c t = false ->
  oQeq (den (WRev w) c t) (sample w c (duration w - t)).
Proof.
  intros w Hok Hnt c t Hc H0 H1 Hb.
  exact (den_is_sample_guarded (WRev w) Hok Hnt c t Hc H0 H1 Hb).
Qed.

Example mirror_examples :
  let tabA := WTable 1%N [mkE 0 1 Hold; mkE (1#2) 2 Linear] in
  let tabB := WTable 1%N [mkE 0 5 Hold; mkE (1#2) 7 Linear] in
  let w := WRev (WSeq [tabA; WRep (WRev (WSeq [tabB; tabA])) 2; tabB]) in
  okb w = true /\ no_trans w = true /\
  (* away from junctions: not excluded, and equal *)
  bad false w 1%N (7#8) = false /\ oQeqb (den w 1%N (7#8)) (sample w 1%N (7#8)) = true /\
  (* on a boundary of the repetition under ONE reversal: excluded, and indeed different (the code answers NaN) *)
  bad false w 1%N (3#2) = true /\ oQeqb (den w 1%N (3#2)) (Some 5) = true /\ sample w 1%N (3#2) = None /\
  (* t = 0: excluded (the code answers NaN) *)
  bad false w 1%N 0 = true /\ sample w 1%N 0 = None /\
  (* the junction of the inner sequence (under TWO reversals): NOT excluded, equal *)
  bad false w 1%N 1 = false /\ oQeqb (den w 1%N 1) (sample w 1%N 1) = true /\ oQeqb (den w 1%N 1) (Some 1) = true.
Proof. vm_compute. repeat split; reflexivity. Qed.
