(* C08 — the composed statement over ALL construction recipes (round 3): get_subset_for_channels nodes anywhere, together
   with transformations and reversal.  On top of ProofsRecipeR (relation RelGK = well-formedness + guarded equal samples +
   KeyError invariant) one more invariant is carried through [build]: the time guard [rg] of the PLAIN composite implies the
   time guard [ProofsSubset.tg] of the BUILT waveform - which is what get_subset_sound needs for a built inner waveform. *)
From Coq Require Import List ZArith QArith Qabs Bool Lia Lqa Permutation.
Require Import QV.C08.Model QV.C08.Spec QV.C08.Wf QV.C08.Hist QV.C08.Lin QV.C08.ProofsVec QV.C08.ProofsConst QV.C08.ProofsProper
               QV.C08.ProofsRev QV.C08.ProofsTrafo QV.C08.ProofsCtor QV.C08.ProofsPar QV.C08.ProofsFlat QV.C08.ProofsDen QV.C08.ProofsOp
               QV.C08.ProofsTable QV.C08.ProofsDedup QV.C08.ProofsMirror QV.C08.ProofsOkb QV.C08.ProofsSubset
               QV.C08.ProofsConstT QV.C08.ProofsTotalT QV.C08.ProofsSimple QV.C08.ProofsLin QV.C08.ProofsRecipe QV.C08.ProofsRecipeT
               QV.C08.ProofsRecipeR QV.C08.ProofsTg QV.C08.ProofsSubsetK.
Import ListNotations.
Open Scope Q_scope.

Definition G (w wp : wf) : Prop :=
  forall c t, inb c (channels wp) = true -> 0 <= t -> t < duration wp -> rg wp c t = true -> tg w c t = true.
Definition RelA (w wp : wf) : Prop := RelGK w wp /\ G w wp.
Lemma F2_RelA_RelGK ws wps : Forall2 RelA ws wps -> Forall2 RelGK ws wps.
Proof. induction 1 as [|a b l l' [R _] _ IH]; constructor; auto. Qed.
Lemma G_true w wp : (forall c t, tg w c t = true) -> G w wp.
Proof. intros H c t _ _ _ _. apply H. Qed.

(* parts related by duration, channels and G *)
Definition DG (w wp : wf) : Prop := duration w == duration wp /\ (forall c, inb c (channels w) = inb c (channels wp)) /\ G w wp.
Lemma F2_RelA_DG ws wps : Forall2 RelA ws wps -> Forall2 DG ws wps.
Proof. induction 1 as [|a b l l' [[[_ [_ [C [D _]]]] _] Gab] _ IH]; constructor; auto. split; [exact D|split; [exact C|exact Gab]]. Qed.

Lemma seq_G ws wps : Forall2 DG ws wps -> okb (WSeq wps) = true -> G (WSeq ws) (WSeq wps).
Proof.
  intros F Hokp c t Hc H0 H1 Hg. cbn [okb] in Hokp. apply andb_prop in Hokp as [Hchs _].
  pose proof (seq_children_have_chan wps c Hchs Hc) as Hin. rewrite Forall_forall in Hin.
  cbn [tg]. apply tg_list_intro. intros a u' HA.
  assert (F' : Forall2 (fun a x => duration x == duration a /\ DG a x) ws wps).
  { clear -F. induction F as [|a b l l' R _ IH]; constructor; auto. split; [symmetry; exact (proj1 R)|exact R]. }
  destruct (At_rel DG _ _ F' 0 0 t a u' (Qeq_refl 0) HA) as [x [u [HAx [Hu [_ [_ Gax]]]]]].
  destruct (At_local _ _ _ _ _ HAx) as [U0 U1].
  cbn [rg] in Hg. pose proof (tg_list_At t (fun s => rg s c) _ 0 x u Hg HAx) as Hx. cbn beta in Hx.
  rewrite (tg_proper a c u' u) by (symmetry; exact Hu). apply Gax; auto. apply Hin. exact (At_In _ _ _ _ _ HAx).
Qed.
Lemma rep_G b bp n : DG b bp -> G (WRep b n) (WRep bp n).
Proof.
  intros [D [C Gb]] c t Hc H0 H1 Hg. cbn [channels] in Hc.
  set (k := Z.to_nat n). cbn [tg rg] in *. fold k in Hg |- *.
  rewrite <- (map_repeat' (fun s => (duration s, rg s c))) in Hg. rewrite <- (map_repeat' (fun s => (duration s, tg s c))).
  apply tg_list_intro. intros a u' HA.
  assert (F : Forall2 (fun a x => duration x == duration a /\ (a = b /\ x = bp)) (repeat b k) (repeat bp k))
    by (apply Forall2_repeat; split; [symmetry; exact D|auto]).
  destruct (At_rel (fun a x => a = b /\ x = bp) _ _ F 0 0 t a u' (Qeq_refl 0) HA) as [x [u [HAx [Hu [-> ->]]]]].
  destruct (At_local _ _ _ _ _ HAx) as [U0 U1].
  pose proof (tg_list_At t (fun s => rg s c) _ 0 bp u Hg HAx) as Hx. cbn beta in Hx.
  rewrite (tg_proper b c u' u) by (symmetry; exact Hu). apply Gb; auto.
Qed.
Lemma multi_parts_G ws wps c t : Forall2 DG ws wps -> okb (WMulti wps) = true ->
  0 <= t -> t < duration (WMulti wps) -> rg (WMulti wps) c t = true -> forall x, In x ws -> has c x = true -> tg x c t = true.
Proof.
  intros F Hokp H0 H1 Hg x Hx Hcx.
  destruct (Forall2_In_l _ _ _ x F Hx) as [xp [Hxp [D [C Gx]]]].
  assert (Hcxp : has c xp = true) by (unfold has in *; rewrite <- C; exact Hcx).
  apply Gx; auto; [rewrite (multi_part_duration wps xp Hokp Hxp); exact H1|].
  rewrite rg_multi_find in Hg.
  rewrite (find_has_unique wps c xp (proj2 (overlap_free_unique c wps [] (multi_overlap_free wps Hokp))) Hxp Hcxp) in Hg. exact Hg.
Qed.
Lemma rev_G b bp : DG b bp -> G (WRev b) (WRev bp).
Proof.
  intros [D [C Gb]] c t Hc H0 H1 Hg. cbn [channels duration tg rg] in *. apply andb_prop in Hg as [Hn Hg]. rewrite Hn. cbn [andb].
  assert (Ht : ~ t == 0) by (intros E; apply Qeq_bool_iff in E; rewrite E in Hn; discriminate).
  rewrite (tg_proper b c (duration b - t) (duration bp - t)) by (rewrite D; reflexivity). apply Gb; auto; lra.
Qed.

(* ---- recipes: every node kind ---- *)
Fixpoint allR (r : recipe) : bool :=
  match r with
  | RTable _ _ _ | RConst _ _ _ | RFunc _ _ _ => true
  | RSeq _ l | RMulti _ l => (fix all (l : list recipe) := match l with [] => true | x :: r => allR x && all r end) l
  | RRep _ b _ | RSubset b _ | RGetSubset b _ | RFunctor _ b _ | RNeg b | RRev b | RFromToReverse b | RReversed b => allR b
  | RArith _ l _ r => allR l && allR r
  | RTrans _ b T => t_wfb T && t_nodupb T && allR b
  end.
Lemma allR_all_Forall l :
  (fix all (l : list recipe) := match l with [] => true | x :: r => allR x && all r end) l = true -> Forall (fun x => allR x = true) l.
Proof.
  induction l as [|x r IH]; intros H; constructor.
  - apply andb_prop in H as [H _]; exact H.
  - apply IH. apply andb_prop in H as [_ H]; exact H.
Qed.
Definition StepA (r : recipe) : Prop :=
  allR r = true -> forall w wp, build r = OK w -> build_plain r = OK wp -> kfree wp = true -> RelA w wp.
Lemma lists_relA l : Forall StepA l -> Forall (fun x => allR x = true) l -> forall ws wps,
  blist l = OK ws -> bplist l = OK wps -> Forall (fun x => kfree x = true) wps -> Forall2 RelA ws wps.
Proof.
  induction 1 as [|x r Hx _ IH]; intros Hp ws wps H1 H2 Hk; cbn [blist bplist] in *.
  - injection H1 as <-. injection H2 as <-. constructor.
  - apply Forall_cons_iff in Hp as [P1 P2].
    destruct (build x) as [a|] eqn:Ea; cbn [bind] in H1; [|discriminate].
    destruct (blist r) as [b|] eqn:Eb; cbn [bind] in H1; [|discriminate]. injection H1 as <-.
    destruct (build_plain x) as [ap|] eqn:Eap; cbn [bind] in H2; [|discriminate].
    destruct (bplist r) as [bp|] eqn:Ebp; cbn [bind] in H2; [|discriminate]. injection H2 as <-.
    apply Forall_cons_iff in Hk as [K1 K2].
    constructor; [exact (Hx P1 a ap Ea Eap K1)|exact (IH P2 b bp eq_refl eq_refl K2)].
Qed.
Theorem build_relA : forall r, StepA r.
Proof.
  induction r using recipe_ind'; intros Hp w wp Hb Hbp Hkf; cbn [allR] in Hp.
  - assert (HRK : RelGK w wp).
    { (* table *)
    split; [apply Rel_RelG; apply (build_rel (RTable b c tab) eq_refl w wp Hb Hbp)|]. apply J_nokerr. intros k.
    destruct b; cbn [build] in Hb.
    + unfold from_table in Hb. destruct (validate_input tab) as [[[d v]|t]|]; cbn [bind] in Hb; try discriminate; injection Hb as <-; reflexivity.
    + injection Hb as <-. reflexivity. }
    split; [exact HRK|].
    apply G_true. intros c0 t0. destruct b; cbn [build] in Hb.
    + unfold from_table in Hb. destruct (validate_input tab) as [[[d v]|t]|]; cbn [bind] in Hb; try discriminate; injection Hb as <-; reflexivity.
    + injection Hb as <-. reflexivity.
  - assert (HRK : RelGK w wp).
    { split; [apply Rel_RelG; apply (build_rel (RConst d v c) eq_refl w wp Hb Hbp)|]. apply J_nokerr. intros k. cbn in Hb. injection Hb as <-. reflexivity.
 }
    split; [exact HRK|].
    apply G_true. intros c0 t0. cbn in Hb. injection Hb as <-. reflexivity.
  - assert (HRK : RelGK w wp).
    { split; [apply Rel_RelG; apply (build_rel (RFunc k d c) eq_refl w wp Hb Hbp)|]. apply J_nokerr. intros k'. cbn in Hb. injection Hb as <-. reflexivity.
 }
    split; [exact HRK|].
    apply G_true. intros c0 t0. cbn in Hb. injection Hb as <-. reflexivity.
  - assert (HRK : RelGK w wp).
    { (* sequence *)
    apply allR_all_Forall in Hp. rewrite build_seq in Hb. rewrite build_plain_seq in Hbp.
    destruct (blist l) as [ws|] eqn:Ews; cbn [bind] in Hb; [|discriminate].
    destruct (bplist l) as [wps|] eqn:Ewps; cbn [bind] in Hbp; [|discriminate].
    destruct wps as [|xp rest]; [discriminate|].
    destruct (forallb (fun y => set_eqb (channels y) (channels xp)) rest) eqn:Echk; [|discriminate]. injection Hbp as <-.
    apply (kfree_all_Forall (xp :: rest)) in Hkf.
    pose proof (lists_relA l H Hp ws _ Ews Ewps Hkf) as FA. pose proof (F2_RelA_RelGK _ _ FA) as FK. pose proof (F2_RelGK_RelG _ _ FK) as F.
    assert (Hokp : okb (WSeq (xp :: rest)) = true).
    { cbn [okb]. rewrite Echk. cbn [andb]. refine (okb_Forall_all (xp :: rest) _). apply Forall_forall. intros y Hy.
      destruct (Forall2_In_r _ _ _ y F Hy) as [x [_ [_ [O _]]]]. exact O. }
    destruct (seq_congrG ws _ F Hokp) as [Hok E].
    pose proof (Forall2_goodG _ _ F) as Gws.
    assert (Hcan : Forall (fun x => canonb x = true) ws) by (eapply Forall_impl; [|exact Gws]; intros y [_ Cy]; exact Cy).
    destruct o.
    + split.
      * destruct (from_sequence_okb ws w Hok Hcan Hb) as [Gw [Cw Dw]].
        split; [exact Gw|]. split; [exact Hokp|]. apply (Eqv_EqvG _ (WSeq ws)); [|exact E].
        split; [exact Cw|]. split; [rewrite Dw, duration_seq; reflexivity|].
        intros c t Hc H0 H1. exact (from_sequence_sound ws w Hok Hb c t Hc H0 H1).
      * intros c Hc Hk. pose proof (seq_parts_JG ws _ c (F2_RelGK_CJ _ _ FK) Hokp Hc Hk) as HP.
        unfold from_sequence in Hb. destruct ws as [|x [|y r]]; [discriminate| |].
        -- injection Hb as <-. apply HP. left; reflexivity.
        -- match type of Hb with match ?cvs with Some _ => _ | None => _ end = _ => destruct cvs as [d|] end.
           ++ exact (kerr_from_mapping _ _ _ Hb c).
           ++ unfold mk_seq in Hb. match type of Hb with match ?fl with [] => _ | _ :: _ => _ end = _ => set (FL := fl) in * end.
              assert (HFL : forall z, In z FL -> kerr z c = false).
              { intros z Hz. change FL with (flatseq (x :: y :: r)) in Hz.
                destruct (In_flatseq z _ Hz) as [a [Ha [->|[s [-> Hzs]]]]]; [exact (HP _ Ha)|].
                pose proof (HP _ Ha) as Ka. rewrite kerr_seq_any in Ka.
                destruct (kerr z c) eqn:Ez; [|reflexivity].
                assert (existsb (fun x0 => kerr x0 c) s = true) by (apply existsb_exists; eauto). congruence. }
              destruct FL as [|f0 fr]; [discriminate|].
              destruct (forallb (fun y0 => set_eqb (channels y0) (channels f0)) fr); [|discriminate]. injection Hb as <-.
              apply kerr_seq_false. exact HFL.
    + unfold mk_seq in Hb. destruct ws as [|x r]; [discriminate|].
      destruct (forallb (fun y => set_eqb (channels y) (channels x)) r); [|discriminate]. injection Hb as <-.
      split; [split; [split; [exact Hok|exact (canonb_Forall_all (x :: r) Hcan)]|split; [exact Hokp|exact E]]|].
      intros c Hc Hk. apply kerr_seq_false. exact (seq_parts_JG _ _ c (F2_RelGK_CJ _ _ FK) Hokp Hc Hk). }
    split; [exact HRK|].
    apply allR_all_Forall in Hp. rewrite build_seq in Hb. rewrite build_plain_seq in Hbp.
    destruct (blist l) as [ws|] eqn:Ews; cbn [bind] in Hb; [|discriminate].
    destruct (bplist l) as [wps|] eqn:Ewps; cbn [bind] in Hbp; [|discriminate].
    destruct wps as [|xp rest]; [discriminate|].
    destruct (forallb (fun y => set_eqb (channels y) (channels xp)) rest) eqn:Echk; [|discriminate]. injection Hbp as <-.
    apply (kfree_all_Forall (xp :: rest)) in Hkf.
    pose proof (lists_relA l H Hp ws _ Ews Ewps Hkf) as FA. pose proof (F2_RelA_DG _ _ FA) as FD.
    destruct HRK as [[_ [Hokp _]] _].
    pose proof (seq_G ws _ FD Hokp) as GS.
    intros c t Hc H0 H1 Hg. pose proof (GS c t Hc H0 H1 Hg) as Hts.
    assert (Hoks : Forall (fun x => okb x = true) ws).
    { apply Forall_forall. intros y Hy. destruct (Forall2_In_l _ _ _ y FA Hy) as [yp [_ [[[[Oy _] _] _] _]]]. exact Oy. }
    assert (Hsum : sumd ws == sumd (xp :: rest)).
    { apply sumd_rel. apply (Forall2_flip_impl _ _ _ _ (fun a b (R : DG a b) => proj1 R) FD). }
    destruct o.
    + apply (tg_from_sequence ws w c t Hoks Hb H0); [rewrite Hsum; rewrite duration_seq in H1; exact H1|exact Hts].
    + unfold mk_seq in Hb. destruct ws as [|x r]; [discriminate|].
      destruct (forallb (fun y => set_eqb (channels y) (channels x)) r); [|discriminate]. injection Hb as <-. exact Hts.
  - assert (HRK : RelGK w wp).
    { (* multi-channel *)
    apply allR_all_Forall in Hp. rewrite build_multi in Hb. rewrite build_plain_multi in Hbp.
    destruct (blist l) as [ws|] eqn:Ews; cbn [bind] in Hb; [|discriminate].
    destruct (bplist l) as [wps|] eqn:Ewps; cbn [bind] in Hbp; [|discriminate].
    destruct wps as [|xp rest]; [discriminate|].
    destruct (overlap_free (xp :: rest) [] && forallb (fun y => Qeq_bool (duration y) (duration xp)) rest) eqn:Echk; [|discriminate].
    injection Hbp as <-. apply andb_prop in Echk as [Hov Hdur].
    apply (kfree_all_Forall (xp :: rest)) in Hkf.
    pose proof (lists_relA l H Hp ws _ Ews Ewps Hkf) as FA. pose proof (F2_RelA_RelGK _ _ FA) as FK. pose proof (F2_RelGK_RelG _ _ FK) as F.
    assert (Hokp : okb (WMulti (xp :: rest)) = true).
    { cbn [okb]. rewrite Hdur, Hov. cbn [andb]. refine (okb_Forall_all (xp :: rest) _). apply Forall_forall. intros y Hy.
      destruct (Forall2_In_r _ _ _ y F Hy) as [x [_ [_ [O _]]]]. exact O. }
    pose proof (Forall2_goodG _ _ F) as Gws.
    assert (Hd : forall x y, In x ws -> In y ws -> duration x == duration y).
    { intros x y Hx Hy. destruct (Forall2_In_l _ _ _ x F Hx) as [x' [Hx' [_ [_ [_ [Dx _]]]]]].
      destruct (Forall2_In_l _ _ _ y F Hy) as [y' [Hy' [_ [_ [_ [Dy _]]]]]].
      rewrite Dx, Dy, (multi_part_duration _ x' Hokp Hx'), (multi_part_duration _ y' Hokp Hy'). reflexivity. }
    destruct o.
    + unfold from_parallel in Hb. destruct ws as [|x [|y r]]; [discriminate| |].
      * injection Hb as <-. split.
        -- apply (multi_relG [x] _ x F Hokp).
           ++ apply Forall_cons_iff in Gws as [G _]. exact G.
           ++ intros c. cbn [existsb]. rewrite orb_false_r. reflexivity.
           ++ intros a [<-|[]]. reflexivity.
           ++ intros c a t [<-|[]] _. reflexivity.
        -- intros c Hc Hk. change (has c (WMulti (xp :: rest)) = true) in Hc.
           inversion FK as [|? ? ? ? [[_ [_ [C _]]] _] F']; subst. inversion F'; subst.
           apply (multi_parts_JG [x] _ c (F2_RelGK_CJ _ _ FK) Hokp Hk x (or_introl eq_refl)).
           rewrite has_multi in Hc. cbn [existsb] in Hc. rewrite orb_false_r in Hc. unfold has in *. rewrite C. exact Hc.
      * change (flat_map (fun w => match is_multi w with Some s => s | None => [w] end) (x :: y :: r)) with (flat (x :: y :: r)) in Hb.
        split.
        -- destruct (mk_multi_flat _ w Gws Hd Hb) as [Gw [Cw [Dw Sw]]]. exact (multi_relG _ _ w F Hokp Gw Cw Dw Sw).
        -- intros c Hc Hk. destruct (flat_parts_good _ Gws Hd) as [Fg [Fd _]].
           apply (mk_multi_J _ w c Hb Fg Fd). apply (flat_parts_J _ c Gws). exact (multi_parts_JG _ _ c (F2_RelGK_CJ _ _ FK) Hokp Hk).
    + split.
      * destruct (mk_multi_okb ws w Hb Gws Hd) as [Gw [Cw [Dw _]]].
        exact (multi_relG _ _ w F Hokp Gw Cw Dw (mk_multi_sample ws w Hb Gws Hd)).
      * intros c Hc Hk. apply (mk_multi_J _ w c Hb Gws Hd). exact (multi_parts_JG _ _ c (F2_RelGK_CJ _ _ FK) Hokp Hk). }
    split; [exact HRK|].
    apply allR_all_Forall in Hp. rewrite build_multi in Hb. rewrite build_plain_multi in Hbp.
    destruct (blist l) as [ws|] eqn:Ews; cbn [bind] in Hb; [|discriminate].
    destruct (bplist l) as [wps|] eqn:Ewps; cbn [bind] in Hbp; [|discriminate].
    destruct wps as [|xp rest]; [discriminate|].
    destruct (overlap_free (xp :: rest) [] && forallb (fun y => Qeq_bool (duration y) (duration xp)) rest) eqn:Echk; [|discriminate].
    injection Hbp as <-. apply (kfree_all_Forall (xp :: rest)) in Hkf.
    pose proof (lists_relA l H Hp ws _ Ews Ewps Hkf) as FA. pose proof (F2_RelA_DG _ _ FA) as FD.
    pose proof (F2_RelA_RelGK _ _ FA) as FK. pose proof (F2_RelGK_RelG _ _ FK) as F.
    destruct HRK as [[_ [Hokp _]] _].
    pose proof (Forall2_goodG _ _ F) as Gws.
    assert (Hd : forall x y, In x ws -> In y ws -> duration x == duration y).
    { intros x y Hx Hy. destruct (Forall2_In_l _ _ _ x F Hx) as [x' [Hx' [_ [_ [_ [Dx _]]]]]].
      destruct (Forall2_In_l _ _ _ y F Hy) as [y' [Hy' [_ [_ [_ [Dy _]]]]]].
      rewrite Dx, Dy, (multi_part_duration _ x' Hokp Hx'), (multi_part_duration _ y' Hokp Hy'). reflexivity. }
    intros c t Hc H0 H1 Hg. pose proof (multi_parts_G ws _ c t FD Hokp H0 H1 Hg) as HP.
    destruct o.
    + unfold from_parallel in Hb. destruct ws as [|x [|y r]]; [discriminate| |].
      * injection Hb as <-. apply HP; [left; reflexivity|].
        inversion FK as [|? ? ? ? [[_ [_ [C _]]] _] F']; subst. inversion F'; subst.
        change (has c (WMulti [xp]) = true) in Hc. rewrite has_multi in Hc. cbn [existsb] in Hc. rewrite orb_false_r in Hc.
        unfold has in *. rewrite C. exact Hc.
      * change (flat_map (fun w => match is_multi w with Some s => s | None => [w] end) (x :: y :: r)) with (flat (x :: y :: r)) in Hb.
        destruct (flat_parts_good _ Gws Hd) as [Fg [Fd _]].
        apply (tg_mk_multi _ w c t Hb Fg Fd). apply (tg_flat_parts _ c t Gws). exact HP.
    + apply (tg_mk_multi _ w c t Hb Gws Hd). exact HP.
  - assert (HRK : RelGK w wp).
    { (* repetition *)
    cbn [build build_plain] in Hb, Hbp.
    destruct (build r) as [b|] eqn:Eb; cbn [bind] in Hb; [|discriminate].
    destruct (build_plain r) as [bp|] eqn:Ebp; cbn [bind] in Hbp; [|discriminate].
    destruct (n <? 1)%Z eqn:En; [discriminate|]. injection Hbp as <-. apply Z.ltb_ge in En. cbn [kfree] in Hkf.
    pose proof (IHr Hp b bp Eb Ebp Hkf) as [[R Jb] _]. pose proof R as [Gb [Obp _]].
    assert (Hokp : okb (WRep bp n) = true) by (cbn [okb]; rewrite Obp, andb_true_r; apply Z.leb_le; lia).
    pose proof (rep_congrG b bp n R ltac:(lia)) as E.
    destruct o.
    + split.
      * destruct (from_repetition_count_okb b n w Gb ltac:(lia) Hb) as [Gw [Cw Dw]].
        split; [exact Gw|]. split; [exact Hokp|]. apply (Eqv_EqvG _ (WRep b n)); [|exact E].
        split; [exact Cw|]. split; [exact Dw|].
        intros c t Hc H0 H1. exact (from_repetition_count_sound b n w (proj1 Gb) ltac:(lia) Hb c t Hc H0 H1).
      * intros c Hc Hk. unfold from_repetition_count in Hb. destruct (cvd b) as [d|].
        -- exact (kerr_from_mapping _ _ _ Hb c).
        -- unfold mk_rep in Hb. destruct (n <? 1)%Z; [discriminate|]. injection Hb as <-. cbn [kerr channels] in *. exact (Jb c Hc Hk).
    + unfold mk_rep in Hb. destruct (n <? 1)%Z; [discriminate|]. injection Hb as <-.
      split; [split; [destruct Gb as [O C]; split; cbn [okb canonb]; auto; rewrite O, andb_true_r; apply Z.leb_le; lia|split; [exact Hokp|exact E]]|].
      intros c Hc Hk. cbn [kerr channels] in *. exact (Jb c Hc Hk). }
    split; [exact HRK|].
    cbn [build build_plain] in Hb, Hbp.
    destruct (build r) as [b|] eqn:Eb; cbn [bind] in Hb; [|discriminate].
    destruct (build_plain r) as [bp|] eqn:Ebp; cbn [bind] in Hbp; [|discriminate].
    destruct (n <? 1)%Z eqn:En; [discriminate|]. injection Hbp as <-. cbn [kfree] in Hkf.
    pose proof (IHr Hp b bp Eb Ebp Hkf) as [[[_ [_ [C [D _]]]] _] Gb].
    pose proof (rep_G b bp n (conj D (conj C Gb))) as GR.
    intros c t Hc H0 H1 Hg. pose proof (GR c t Hc H0 H1 Hg) as Ht.
    destruct o; [exact (tg_from_repetition_count b n w c t Hb Ht)|].
    unfold mk_rep in Hb. destruct (n <? 1)%Z; [discriminate|]. injection Hb as <-. exact Ht.
  - assert (HRK : RelGK w wp).
    { (* transformation *)
    apply andb_prop in Hp as [Hp Hpr]. apply andb_prop in Hp as [Hwf Hnd].
    cbn [build build_plain] in Hb, Hbp.
    destruct (build r) as [b|] eqn:Eb; cbn [bind] in Hb; [|discriminate].
    destruct (build_plain r) as [bp|] eqn:Ebp; cbn [bind] in Hbp; [|discriminate].
    destruct (t_out T (channels bp)) as [co|] eqn:Eo; [|discriminate]. injection Hbp as <-.
    cbn [kfree] in Hkf. apply andb_prop in Hkf as [Hkall Hkf].
    pose proof (IHr Hpr b bp Eb Ebp Hkf) as [[R Jb] _]. pose proof R as [Gb [Obp [C [D _]]]].
    assert (Hokp : okb (WTrans bp T) = true) by (cbn [okb]; rewrite Obp, Eo; reflexivity).
    destruct (trans_congrG b bp T R Hokp) as [Gplain E]. pose proof (trans_JG b bp T C Jb Hokp) as Jplain.
    assert (Hplain : mk_trans b T = OK w -> RelGK w (WTrans bp T)).
    { intros Hm. unfold mk_trans in Hm. destruct (t_out T (channels b)); [|discriminate]. injection Hm as <-.
      split; [split; [exact Gplain|split; [exact Hokp|exact E]]|exact Jplain]. }
    destruct o; [|exact (Hplain Hb)].
    destruct (cvd b) as [d|] eqn:Ed; [|rewrite (from_transformation_plain b T (or_introl Ed)) in Hb; exact (Hplain Hb)].
    destruct (t_const_inv T) eqn:Eci; [|rewrite (from_transformation_plain b T (or_intror Eci)) in Hb; exact (Hplain Hb)].
    destruct (from_transformation_fold_good b T d w Gb Hwf Hnd (proj1 Gplain) Ed Eci Hb) as [Gw [Cw Dw]].
    split.
    + split; [exact Gw|]. split; [exact Hokp|]. apply (Eqv_EqvG _ (WTrans b T)); [|exact E].
      split; [exact Cw|]. split; [exact Dw|]. intros c t Hc H0 H1. cbn [duration] in H1.
      apply (from_transformation_sound_gen b T d w (proj1 Gplain) Hwf Ed Eci Hb c t Hc); auto.
      apply Jplain.
      * rewrite <- (proj1 E c). exact Hc.
      * rewrite forallb_forall in Hkall. specialize (Hkall c). rewrite negb_true_iff in Hkall. apply Hkall.
        apply inb_In. rewrite <- (proj1 E c). exact Hc.
    + unfold from_transformation in Hb. rewrite Ed, Eci in Hb. cbn [negb] in Hb.
      destruct (t_point T 0 (map (fun kv : chan * Q => (fst kv, Some (snd kv))) d)); [|discriminate].
      apply J_nokerr. exact (kerr_from_mapping _ _ _ Hb). }
    split; [exact HRK|].
    apply G_true. intros c0 t0. cbn [build] in Hb. destruct (build r) as [b|] eqn:Eb; cbn [bind] in Hb; [|discriminate].
    assert (Hm : forall w0, mk_trans b T = OK w0 -> tg w0 c0 t0 = true).
    { intros w0 Hm. unfold mk_trans in Hm. destruct (t_out T (channels b)); [|discriminate]. injection Hm as <-. reflexivity. }
    destruct o; [|exact (Hm w Hb)].
    unfold from_transformation in Hb. destruct (cvd b) as [d|]; [|exact (Hm w Hb)].
    destruct (negb (t_const_inv T)); [exact (Hm w Hb)|].
    match type of Hb with match ?tp with Some _ => _ | None => _ end = _ => destruct tp end; [exact (tg_from_mapping _ _ _ Hb c0 t0)|discriminate].
  - assert (HRK : RelGK w wp).
    { (* SubsetWaveform *)
    cbn [build build_plain] in Hb, Hbp.
    destruct (build r) as [b|] eqn:Eb; cbn [bind] in Hb; [|discriminate].
    destruct (build_plain r) as [bp|] eqn:Ebp; cbn [bind] in Hbp; [|discriminate]. injection Hb as <-.
    destruct cs as [|c0 cs']; [discriminate|]. destruct (subsetb (c0 :: cs') (channels bp)) eqn:Es; [|discriminate]. injection Hbp as <-.
    cbn [kfree] in Hkf.
    pose proof (IHr Hp b bp Eb Ebp Hkf) as [[[Gb [Obp [C [D S]]]] Jb] _].
    assert (Hsb : subsetb (c0 :: cs') (channels b) = true).
    { apply subsetb_sub. intros c Hc. rewrite C. exact (subsetb_inb _ _ _ Es Hc). }
    pose proof (mk_subset_good b (c0 :: cs') Gb ltac:(discriminate) Hsb) as Gs.
    split.
    + split; [exact Gs|]. split; [cbn [okb]; rewrite Obp, Es; reflexivity|].
      split; [intros c; unfold mk_subset; cbn [channels]; apply inb_canon_cs|]. split; [exact D|].
      intros c t Hc H0 H1. cbn [channels duration] in *. unfold mk_subset. cbn [sample]. apply S; auto.
      exact (subsetb_inb _ _ _ Es Hc).
    + intros c Hc Hk. unfold mk_subset. cbn [kerr channels] in *. apply (Jb c); [exact (subsetb_inb _ _ _ Es Hc)|exact Hk]. }
    split; [exact HRK|].
    cbn [build build_plain] in Hb, Hbp.
    destruct (build r) as [b|] eqn:Eb; cbn [bind] in Hb; [|discriminate].
    destruct (build_plain r) as [bp|] eqn:Ebp; cbn [bind] in Hbp; [|discriminate].
    injection Hb as <-.
    destruct cs as [|c0 cs']; [discriminate|]. destruct (subsetb (c0 :: cs') (channels bp)) eqn:Es; [|discriminate]. injection Hbp as <-.
    cbn [kfree] in Hkf. pose proof (IHr Hp b bp Eb Ebp Hkf) as [_ Gb].
    intros c t Hc H0 H1 Hg. unfold mk_subset. cbn [tg channels duration rg] in *. apply Gb; auto. exact (subsetb_inb _ _ _ Es Hc).
  - (* get_subset_for_channels *)
    cbn [build build_plain] in Hb, Hbp.
    destruct (build r) as [b|] eqn:Eb; cbn [bind] in Hb; [|discriminate].
    destruct (build_plain r) as [bp|] eqn:Ebp; cbn [bind] in Hbp; [|discriminate].
    destruct cs as [|c0 cs']; [discriminate|]. destruct (subsetb (c0 :: cs') (channels bp)) eqn:Es; [|discriminate]. injection Hbp as <-.
    cbn [kfree] in Hkf. pose proof (IHr Hp b bp Eb Ebp Hkf) as [[[[Ob Cb] [Obp [C [D S]]]] Jb] Gb].
    destruct (get_subset_sound b (c0 :: cs') w Ob Cb ltac:(discriminate) Hb) as [Ow [Cw [Dw Sw]]].
    destruct (get_subset_inv b (c0 :: cs') w Ob Cb ltac:(discriminate) Hb) as [Vk [Vt Cnw]].
    split; [split; [split; [split; [exact Ow|exact Cnw]|split; [cbn [okb]; rewrite Obp, Es; reflexivity|]]|]|].
    + split; [intros c; rewrite Cw; reflexivity|]. split; [cbn [duration]; rewrite Dw; exact D|].
      intros c t Hc H0 H1 Hr. cbn [channels duration rg sample] in *.
      assert (Hcb : inb c (channels bp) = true) by exact (subsetb_inb _ _ _ Es Hc).
      eapply oQeq_trans; [apply (Sw c t Hc H0); [rewrite D; exact H1|apply Gb; auto]|]. apply S; auto.
    + intros c Hc Hk. cbn [channels kerr] in Hc, Hk. apply Vk; [exact Hc|]. apply Jb; [exact (subsetb_inb _ _ _ Es Hc)|exact Hk].
    + intros c t Hc H0 H1 Hr. cbn [channels duration rg] in *. apply Vt; auto; [rewrite D; exact H1|].
      apply Gb; auto. exact (subsetb_inb _ _ _ Es Hc).
  - assert (HRK : RelGK w wp).
    { (* arithmetic *)
    apply andb_prop in Hp as [P1 P2]. cbn [build build_plain] in Hb, Hbp.
    destruct (build r1) as [a|] eqn:Ea; cbn [bind] in Hb; [|discriminate].
    destruct (build r2) as [b|] eqn:Eb; cbn [bind] in Hb; [|discriminate].
    destruct (build_plain r1) as [ap|] eqn:Eap; cbn [bind] in Hbp; [|discriminate].
    destruct (build_plain r2) as [bp|] eqn:Ebp; cbn [bind] in Hbp; [|discriminate].
    destruct (Qeq_bool (duration ap) (duration bp)) eqn:Ed; [|discriminate]. injection Hbp as <-. apply Qeq_bool_iff in Ed.
    cbn [kfree] in Hkf. apply andb_prop in Hkf as [K1 K2].
    pose proof (IHr1 P1 a ap Ea Eap K1) as [[Ra Ja] _]. pose proof (IHr2 P2 b bp Eb Ebp K2) as [[Rb Jb] _].
    pose proof Ra as [Ga [Oap [Ca [Da _]]]]. pose proof Rb as [Gb [Obp [Cb [Db _]]]].
    assert (Hdab : duration a == duration b) by (rewrite Da, Db; exact Ed).
    assert (Hokp : okb (WArith ap op bp) = true) by (cbn [okb]; rewrite Oap, Obp; cbn [andb]; apply Qeq_bool_iff; exact Ed).
    pose proof (arith_congrG a ap b bp op Ra Rb Ed) as E.
    assert (Gplain : good (WArith a op b)).
    { destruct Ga as [O1 C1], Gb as [O2 C2]. split; cbn [okb canonb]; rewrite ?O1, ?O2, ?C1, ?C2; cbn [andb]; auto. apply Qeq_bool_iff; exact Hdab. }
    assert (Jplain : J (WArith a op b) (WArith ap op bp)).
    { intros c Hc Hk. cbn [kerr channels] in *. rewrite Ca, Cb. apply orb_false_iff in Hk as [Hk1 Hk2].
      destruct (inb c (channels ap)) eqn:E1; cbn [andb] in *; [rewrite (Ja c E1 Hk1)|]; cbn [orb];
        (destruct (inb c (channels bp)) eqn:E2; cbn [andb] in *; [exact (Jb c E2 Hk2)|reflexivity]). }
    destruct o.
    + split.
      * destruct (from_operator_good a op b w Ga Gb Hdab Hb) as [Gw [Cw Dw]].
        split; [exact Gw|]. split; [exact Hokp|]. apply (Eqv_EqvG _ (WArith a op b)); [|exact E].
        split; [exact Cw|]. split; [exact Dw|]. intros c t Hc H0 H1. cbn [duration] in H1.
        destruct (cvd a) as [dl|] eqn:El; [destruct (cvd b) as [dr|] eqn:Er|].
        -- exact (from_operator_const_sound a op b dl dr w (proj1 Ga) (proj1 Gb) Hdab El Er
                   (cvd_nodup b dr (proj1 Gb) (proj2 Gb) Er) Hb c t Hc H0 H1).
        -- rewrite (from_operator_plain a op b (or_intror Er)) in Hb. unfold mk_arith in Hb.
           destruct (isclose (duration a) (duration b)); [|discriminate]. injection Hb as <-. apply oQeq_refl.
        -- rewrite (from_operator_plain a op b (or_introl El)) in Hb. unfold mk_arith in Hb.
           destruct (isclose (duration a) (duration b)); [|discriminate]. injection Hb as <-. apply oQeq_refl.
      * destruct (cvd a) as [dl|] eqn:El; [destruct (cvd b) as [dr|] eqn:Er|].
        -- unfold from_operator in Hb. rewrite El, Er in Hb. destruct (isclose (duration a) (duration b)); [|discriminate].
           apply J_nokerr. exact (kerr_from_mapping _ _ _ Hb).
        -- rewrite (from_operator_plain a op b (or_intror Er)) in Hb. unfold mk_arith in Hb.
           destruct (isclose (duration a) (duration b)); [|discriminate]. injection Hb as <-. exact Jplain.
        -- rewrite (from_operator_plain a op b (or_introl El)) in Hb. unfold mk_arith in Hb.
           destruct (isclose (duration a) (duration b)); [|discriminate]. injection Hb as <-. exact Jplain.
    + unfold mk_arith in Hb. destruct (isclose (duration a) (duration b)); [|discriminate]. injection Hb as <-.
      split; [split; [exact Gplain|split; [exact Hokp|exact E]]|exact Jplain]. }
    split; [exact HRK|].
    apply G_true. intros c0 t0. cbn [build] in Hb.
    destruct (build r1) as [a|] eqn:Ea; cbn [bind] in Hb; [|discriminate].
    destruct (build r2) as [b|] eqn:Eb; cbn [bind] in Hb; [|discriminate].
    assert (Hm : forall w0, mk_arith a op b = OK w0 -> tg w0 c0 t0 = true).
    { intros w0 Hm. unfold mk_arith in Hm. destruct (isclose (duration a) (duration b)); [|discriminate]. injection Hm as <-. reflexivity. }
    destruct o; [|exact (Hm w Hb)].
    unfold from_operator in Hb. destruct (cvd a) as [dl|]; [destruct (cvd b) as [dr|]|]; try exact (Hm w Hb).
    destruct (isclose (duration a) (duration b)); [exact (tg_from_mapping _ _ _ Hb c0 t0)|discriminate].
  - assert (HRK : RelGK w wp).
    { (* functor *)
    cbn [build build_plain] in Hb, Hbp.
    destruct (build r) as [b|] eqn:Eb; cbn [bind] in Hb; [|discriminate].
    destruct (build_plain r) as [bp|] eqn:Ebp; cbn [bind] in Hbp; [|discriminate].
    destruct (set_eqb (keys f) (channels bp)) eqn:Ek; [|discriminate]. injection Hbp as <-. cbn [kfree] in Hkf.
    pose proof (IHr Hp b bp Eb Ebp Hkf) as [[R Jb] _]. pose proof R as [Gb [Obp [C _]]].
    assert (Hkb : set_eqb (keys f) (channels b) = true).
    { apply set_eqb_intro. intros c. rewrite C. apply set_eqb_inb. exact Ek. }
    assert (Hokp : okb (WFunctor bp f) = true) by (cbn [okb]; rewrite Obp, Ek; reflexivity).
    destruct o.
    + split.
      * destruct (from_functor_okb b f w Gb Hkb Hb) as [Gw [Cw Dw]].
        split; [exact Gw|]. split; [exact Hokp|]. apply (Eqv_EqvG _ (WFunctor b f)); [|exact (functor_congrG b bp f f R (fun _ => eq_refl))].
        split; [exact Cw|]. split; [exact Dw|]. intros c t Hc H0 H1.
        exact (from_functor_sound b f w (proj1 Gb) Hkb Hb c t Hc H0 H1).
      * unfold from_functor in Hb. destruct (cvd b) as [d|].
        -- destruct (forallb (fun kv => inb (fst kv) (keys f)) d); [|discriminate]. apply J_nokerr. exact (kerr_from_mapping _ _ _ Hb).
        -- destruct (mk_functor_good b f w Gb Hb) as [_ ->]. intros c Hc Hk. cbn [kerr channels] in *. exact (Jb c Hc Hk).
    + destruct (mk_functor_good b f w Gb Hb) as [Gw ->].
      split; [split; [exact Gw|split; [exact Hokp|apply functor_congrG; [exact R|intros c; apply lookup_canon_kv]]]|].
      intros c Hc Hk. cbn [kerr channels] in *. exact (Jb c Hc Hk). }
    split; [exact HRK|].
    cbn [build build_plain] in Hb, Hbp.
    destruct (build r) as [b|] eqn:Eb; cbn [bind] in Hb; [|discriminate].
    destruct (build_plain r) as [bp|] eqn:Ebp; cbn [bind] in Hbp; [|discriminate].
    destruct (set_eqb (keys f) (channels bp)) eqn:Ek; [|discriminate]. injection Hbp as <-. cbn [kfree] in Hkf.
    pose proof (IHr Hp b bp Eb Ebp Hkf) as [_ Gb].
    assert (Hm : forall w0 f0, mk_functor b f0 = OK w0 -> G w0 (WFunctor bp f)).
    { intros w0 f0 Hm. unfold mk_functor in Hm. destruct (set_eqb (keys f0) (channels b)); [|discriminate]. injection Hm as <-.
      intros c t Hc H0 H1 Hg. cbn [tg channels duration rg] in *. apply Gb; auto. }
    destruct o; [|exact (Hm w f Hb)].
    unfold from_functor in Hb. destruct (cvd b) as [d|]; [|exact (Hm w f Hb)].
    destruct (forallb (fun kv => inb (fst kv) (keys f)) d); [|discriminate]. apply G_true. intros c0 t0. exact (tg_from_mapping _ _ _ Hb c0 t0).
  - assert (HRK : RelGK w wp).
    { (* negation *)
    cbn [build build_plain] in Hb, Hbp.
    destruct (build r) as [b|] eqn:Eb; cbn [bind] in Hb; [|discriminate].
    destruct (build_plain r) as [bp|] eqn:Ebp; cbn [bind] in Hbp; [|discriminate]. injection Hbp as <-. cbn [kfree] in Hkf.
    pose proof (IHr Hp b bp Eb Ebp Hkf) as [[R Jb] _]. pose proof R as [Gb [Obp [C _]]]. unfold neg in Hb.
    set (fb := map (fun c => (c, FNeg)) (channels b)) in *. set (fp := map (fun c => (c, FNeg)) (channels bp)).
    assert (Hkb : set_eqb (keys fb) (channels b) = true) by (apply set_eqb_intro; intros c; unfold fb; rewrite keys_map_key'; reflexivity).
    assert (Hokp : okb (WFunctor bp fp) = true).
    { cbn [okb]. rewrite Obp. cbn [andb]. apply set_eqb_intro. intros c. unfold fp. rewrite keys_map_key'. reflexivity. }
    split.
    + destruct (from_functor_okb b fb w Gb Hkb Hb) as [Gw [Cw Dw]].
      split; [exact Gw|]. split; [exact Hokp|]. apply (Eqv_EqvG _ (WFunctor b fb)).
      * split; [exact Cw|]. split; [exact Dw|]. intros c t Hc H0 H1.
        exact (from_functor_sound b fb w (proj1 Gb) Hkb Hb c t Hc H0 H1).
      * apply functor_congrG; [exact R|]. intros c. unfold fb, fp. rewrite !(lookup_map_key (fun _ => FNeg)), C. reflexivity.
    + unfold from_functor in Hb. destruct (cvd b) as [d|].
      * destruct (forallb (fun kv => inb (fst kv) (keys fb)) d); [|discriminate]. apply J_nokerr. exact (kerr_from_mapping _ _ _ Hb).
      * destruct (mk_functor_good b fb w Gb Hb) as [_ ->]. intros c Hc Hk. cbn [kerr channels] in *. exact (Jb c Hc Hk). }
    split; [exact HRK|].
    cbn [build build_plain] in Hb, Hbp.
    destruct (build r) as [b|] eqn:Eb; cbn [bind] in Hb; [|discriminate].
    destruct (build_plain r) as [bp|] eqn:Ebp; cbn [bind] in Hbp; [|discriminate].
    injection Hbp as <-. cbn [kfree] in Hkf.
    pose proof (IHr Hp b bp Eb Ebp Hkf) as [_ Gb]. unfold neg, from_functor in Hb.
    destruct (cvd b) as [d|].
    + match type of Hb with (if ?q then _ else _) = _ => destruct q end; [|discriminate]. apply G_true. intros c0 t0. exact (tg_from_mapping _ _ _ Hb c0 t0).
    + unfold mk_functor in Hb. match type of Hb with (if ?q then _ else _) = _ => destruct q end; [|discriminate]. injection Hb as <-.
      intros c t Hc H0 H1 Hg. cbn [tg channels duration rg] in *. apply Gb; auto.
  - assert (HRK : RelGK w wp).
    { (* ReversedWaveform(inner) *)
    cbn [build build_plain] in Hb, Hbp.
    destruct (build r) as [b|] eqn:Eb; cbn [bind] in Hb; [|discriminate].
    destruct (build_plain r) as [bp|] eqn:Ebp; cbn [bind] in Hbp; [|discriminate]. injection Hb as <-. injection Hbp as <-.
    cbn [kfree] in Hkf. pose proof (IHr Hp b bp Eb Ebp Hkf) as [[R Jb] _]. pose proof R as [[Ob Cb] [Obp _]].
    split; [split; [split; [exact Ob|exact Cb]|split; [exact Obp|exact (rev_congrG b bp R)]]|].
    intros c Hc Hk. cbn [kerr channels] in *. exact (Jb c Hc Hk). }
    split; [exact HRK|].
    cbn [build build_plain] in Hb, Hbp.
    destruct (build r) as [b|] eqn:Eb; cbn [bind] in Hb; [|discriminate].
    destruct (build_plain r) as [bp|] eqn:Ebp; cbn [bind] in Hbp; [|discriminate].
    injection Hb as <-. injection Hbp as <-. cbn [kfree] in Hkf.
    pose proof (IHr Hp b bp Eb Ebp Hkf) as [[[_ [_ [C [D _]]]] _] Gb]. exact (rev_G b bp (conj D (conj C Gb))).
  - assert (HRK : RelGK w wp).
    { (* from_to_reverse *)
    cbn [build build_plain] in Hb, Hbp.
    destruct (build r) as [b|] eqn:Eb; cbn [bind] in Hb; [|discriminate].
    destruct (build_plain r) as [bp|] eqn:Ebp; cbn [bind] in Hbp; [|discriminate]. injection Hb as <-. injection Hbp as <-.
    cbn [kfree] in Hkf. pose proof (IHr Hp b bp Eb Ebp Hkf) as [[R Jb] _]. pose proof R as [Gb [Obp [C [D _]]]].
    destruct (from_to_reverse_okb b Gb) as [Gf [Cf Df]].
    split.
    + split; [exact Gf|]. split; [exact Obp|].
      destruct (rev_congrG b bp R) as [_ [_ SR]].
      split; [intros c; rewrite Cf; apply C|]. split; [rewrite Df; exact D|].
      intros c t Hc H0 H1 Hg. cbn [channels duration] in Hc, H1.
      assert (Ht : ~ t == 0).
      { cbn [rg] in Hg. apply andb_prop in Hg as [Hn _]. intros E; apply Qeq_bool_iff in E; rewrite E in Hn; discriminate. }
      eapply oQeq_trans; [apply (from_to_reverse_sound b (proj1 Gb) c t); [rewrite C; exact Hc|lra|rewrite D; exact H1]|].
      apply SR; auto.
    + intros c Hc Hk. cbn [kerr channels] in Hc, Hk. unfold from_to_reverse. destruct (cvd b) as [[|kv d]|]; cbn [kerr]; exact (Jb c Hc Hk). }
    split; [exact HRK|].
    cbn [build build_plain] in Hb, Hbp.
    destruct (build r) as [b|] eqn:Eb; cbn [bind] in Hb; [|discriminate].
    destruct (build_plain r) as [bp|] eqn:Ebp; cbn [bind] in Hbp; [|discriminate].
    injection Hb as <-. injection Hbp as <-. cbn [kfree] in Hkf.
    pose proof (IHr Hp b bp Eb Ebp Hkf) as [[[_ [_ [C [D _]]]] _] Gb].
    intros c t Hc H0 H1 Hg. apply tg_from_to_reverse. exact (rev_G b bp (conj D (conj C Gb)) c t Hc H0 H1 Hg).
  - assert (HRK : RelGK w wp).
    { (* reversed() *)
    cbn [build build_plain] in Hb, Hbp.
    destruct (build r) as [b|] eqn:Eb; cbn [bind] in Hb; [|discriminate].
    destruct (build_plain r) as [bp|] eqn:Ebp; cbn [bind] in Hbp; [|discriminate]. injection Hb as <-. injection Hbp as <-.
    cbn [kfree] in Hkf. pose proof (IHr Hp b bp Eb Ebp Hkf) as [[R Jb] _]. pose proof R as [[Ob Cb] [Obp [C [D _]]]].
    split.
    + split; [destruct b; cbn [reversed]; split; auto|]. split; [exact Obp|].
      destruct (rev_congrG b bp R) as [_ [_ SR]].
      split; [intros c; rewrite reversed_channels; apply C|]. split; [rewrite reversed_duration; exact D|].
      intros c t Hc H0 H1 Hg. eapply oQeq_trans; [apply reversed_mirror|]. apply (SR c t Hc H0 H1 Hg).
    + intros c Hc Hk. cbn [kerr channels] in Hc, Hk. pose proof (Jb c Hc Hk) as K. destruct b; cbn [reversed kerr] in *; exact K. }
    split; [exact HRK|].
    cbn [build build_plain] in Hb, Hbp.
    destruct (build r) as [b|] eqn:Eb; cbn [bind] in Hb; [|discriminate].
    destruct (build_plain r) as [bp|] eqn:Ebp; cbn [bind] in Hbp; [|discriminate].
    injection Hb as <-. injection Hbp as <-. cbn [kfree] in Hkf.
    pose proof (IHr Hp b bp Eb Ebp Hkf) as [[[_ [_ [C [D _]]]] _] Gb].
    intros c t Hc H0 H1 Hg. pose proof (rev_G b bp (conj D (conj C Gb)) c t Hc H0 H1 Hg) as Ht.
    destruct b; cbn [reversed]; try exact Ht; [reflexivity|].
    cbn [tg duration] in Ht. apply andb_prop in Ht as [_ Ht]. apply andb_prop in Ht as [_ Ht].
    match goal with |- tg ?i c t = true => rewrite (tg_proper i c t (duration i - (duration i - t))) by lra end. exact Ht.
Qed.

(* ---- C08_constructors_statement under executable guards, ALL recipes ---- *)
Theorem constructors_all_recipes : forall r w wp, allR r = true -> build r = OK w -> build_plain r = OK wp -> kfree wp = true ->
  okb w = true /\ (forall c, inb c (channels w) = inb c (channels wp)) /\ duration w == duration wp /\
  (forall c t, inb c (channels wp) = true -> 0 <= t -> t < duration wp -> rg wp c t = true -> oQeq (sample w c t) (sample wp c t)) /\
  (forall c, inb c (channels wp) = true -> kerr wp c = false -> kerr w c = false) /\
  (forall c t, inb c (channels wp) = true -> 0 <= t -> t < duration wp -> rg wp c t = true -> tg w c t = true).
Proof.
  intros r w wp Hp Hb Hbp Hk. destruct (build_relA r Hp w wp Hb Hbp Hk) as [[[[O _] [_ [C [D S]]]] Jw] Gw].
  split; [exact O|]. split; [exact C|]. split; [exact D|]. split; [exact S|]. split; [exact Jw|exact Gw].
Qed.
Lemma revR_allR : forall r, revR r = true -> allR r = true.
Proof.
  induction r using recipe_ind'; cbn [revR allR]; intros Hp; try discriminate; auto.
  - apply revR_all_Forall in Hp. induction H as [|x l Hx _ IH]; [reflexivity|].
    apply Forall_cons_iff in Hp as [P1 P2]. rewrite (Hx P1). exact (IH P2).
  - apply revR_all_Forall in Hp. induction H as [|x l Hx _ IH]; [reflexivity|].
    apply Forall_cons_iff in Hp as [P1 P2]. rewrite (Hx P1). exact (IH P2).
  - apply andb_prop in Hp as [P1 P2]. rewrite P1. cbn [andb]. exact (IHr P2).
  - apply andb_prop in Hp as [P1 P2]. rewrite (IHr1 P1), (IHr2 P2). reflexivity.
Qed.
(* the only condition on the recipe itself is about its transformations *)
Fixpoint no_transR (r : recipe) : bool :=
  match r with
  | RTable _ _ _ | RConst _ _ _ | RFunc _ _ _ => true
  | RSeq _ l | RMulti _ l => (fix all (l : list recipe) := match l with [] => true | x :: r => no_transR x && all r end) l
  | RRep _ b _ | RSubset b _ | RGetSubset b _ | RFunctor _ b _ | RNeg b | RRev b | RFromToReverse b | RReversed b => no_transR b
  | RArith _ l _ r => no_transR l && no_transR r
  | RTrans _ _ _ => false
  end.
Lemma no_transR_allR : forall r, no_transR r = true -> allR r = true.
Proof.
  induction r using recipe_ind'; cbn [no_transR allR]; intros Hp; try discriminate; auto.
  - induction H as [|x l Hx _ IH]; [reflexivity|]. apply andb_prop in Hp as [P1 P2]. rewrite (Hx P1). exact (IH P2).
  - induction H as [|x l Hx _ IH]; [reflexivity|]. apply andb_prop in Hp as [P1 P2]. rewrite (Hx P1). exact (IH P2).
  - apply andb_prop in Hp as [P1 P2]. rewrite (IHr1 P1), (IHr2 P2). reflexivity.
Qed.

(* non-vacuity: get_subset below a sequence, below a reversal and nested; transformation with a linear part below a
   get_subset; from_to_reverse around a foldable sequence.  The guards hold, the built waveform differs structurally from the
   plain composite; t = 0 is excluded (and differs), every other sampled time agrees *)
Example constructors_all_example :
  let ramp c v := RTable true c [mkE 0 v Hold; mkE (1#2) (v + 1) Linear] in
  let two := RMulti true [ramp 1%N 1; ramp 2%N 5; RConst (1#2) 3 3%N] in
  let lin := TChain [TLinear [1%N; 2%N] [1%N; 2%N] [[0; 1]; [1; 0]]; TScale [(1%N, TT 1 2)]] in
  let r := RSeq true [RFromToReverse (RGetSubset (RSeq true [RMulti true [RConst (1#4) 1 1%N; RConst (1#4) 2 2%N];
                                                           RMulti true [RConst (1#4) 1 1%N; RConst (1#4) 7 2%N]]) [1%N]);
                      RGetSubset (RGetSubset (RRev (RTrans true two lin)) [1%N; 3%N]) [1%N];
                      RReversed (RGetSubset (RRep true two 2) [1%N])] in
  allR r = true /\
  match build r, build_plain r with
  | OK w, OK wp => kfree wp && negb (wf_eqb w wp)
                   && negb (rg wp 1%N 0) && oQeqb (sample w 1%N 0) (Some 1) && oQeqb (sample wp 1%N 0) None
                   && rg wp 1%N (1#8) && oQeqb (sample w 1%N (1#8)) (sample wp 1%N (1#8))
                   && rg wp 1%N (3#4) && oQeqb (sample w 1%N (3#4)) (sample wp 1%N (3#4)) && tg w 1%N (3#4)
                   && rg wp 1%N (7#4) && oQeqb (sample w 1%N (7#4)) (sample wp 1%N (7#4))
  | _, _ => false
  end = true.
Proof. vm_compute. split; reflexivity. Qed.
