(* C08 — MultiChannelWaveform.from_parallel (flattens nested multi-channel waveforms, sorts the parts) samples like the
   plain MultiChannelWaveform of the same parts. *)
From Coq Require Import List ZArith QArith Qabs Bool Lia.
Require Import QV.C08.Model QV.C08.Spec QV.C08.Wf QV.C08.ProofsConst QV.C08.ProofsCtor.
Import ListNotations.
Open Scope Q_scope.

(* sorting keeps the elements *)
Lemma insert_wf_In_iff x l z : In z (insert_wf x l) <-> z = x \/ In z l.
Proof.
  induction l as [|y r IH]; cbn; [intuition congruence|].
  destruct (lex_leb (sort_key y) (sort_key x)); cbn; rewrite ?IH; intuition congruence.
Qed.
Lemma fold_insert_In z : forall l acc, In z (fold_left (fun a x => insert_wf x a) l acc) <-> In z l \/ In z acc.
Proof.
  induction l as [|x r IHr]; intros acc; cbn [fold_left].
  - cbn. intuition.
  - rewrite IHr, insert_wf_In_iff. cbn. intuition congruence.
Qed.
Lemma sort_wfs_In l z : In z (sort_wfs l) <-> In z l.
Proof. unfold sort_wfs. rewrite fold_insert_In. cbn. intuition. Qed.

(* no channel twice: at most one part has a given channel *)
Lemma overlap_free_unique c : forall l seen, overlap_free l seen = true ->
  (forall x, In x l -> has c x = true -> inb c seen = false) /\
  (forall x y, In x l -> In y l -> has c x = true -> has c y = true -> x = y).
Proof.
  induction l as [|h r IH]; intros seen H; [split; intros; contradiction|].
  cbn [overlap_free] in H. apply andb_prop in H as [Hd Hr].
  destruct (IH _ Hr) as [IH1 IH2].
  assert (Hd' : forall k, inb k (channels h) = true -> inb k seen = false).
  { intros k Hk. unfold disjointb in Hd. destruct (inb k seen) eqn:E; auto.
    assert (Hi : inb k (interb (channels h) seen) = true).
    { unfold interb. clear -Hk E. induction (channels h) as [|a l IHl]; [discriminate|].
      rewrite inb_cons in Hk. cbn [filter]. destruct (N.eqb k a) eqn:Ea.
      - apply N.eqb_eq in Ea. subst a. rewrite E. rewrite inb_cons, N.eqb_refl. reflexivity.
      - cbn in Hk. destruct (inb a seen); [rewrite inb_cons, Ea|]; apply IHl; exact Hk. }
    destruct (interb (channels h) seen); [discriminate Hi|discriminate Hd]. }
  assert (Hrest : forall x, In x r -> has c x = true -> inb c (channels h) = false /\ inb c seen = false).
  { intros x Hx Hc. specialize (IH1 x Hx Hc). rewrite inb_unionb in IH1. apply orb_false_iff in IH1 as [A B]. auto. }
  split.
  - intros x [<-|Hx] Hc; [apply Hd'; exact Hc|exact (proj2 (Hrest x Hx Hc))].
  - intros x y [<-|Hx] [<-|Hy] Hcx Hcy.
    + reflexivity.
    + exfalso. destruct (Hrest y Hy Hcy) as [A _]. unfold has in Hcx. congruence.
    + exfalso. destruct (Hrest x Hx Hcx) as [A _]. unfold has in Hcy. congruence.
    + apply IH2; assumption.
Qed.

(* a multi-channel waveform answers with THE part that has the channel *)
Lemma sample_multi_unique l c t x :
  (forall a b, In a l -> In b l -> has c a = true -> has c b = true -> a = b) ->
  In x l -> has c x = true -> sample (WMulti l) c t = sample x c t.
Proof.
  intros Hu Hx Hc. rewrite sample_multi_find.
  assert (F : find (has c) l = Some x).
  { induction l as [|h r IH]; [contradiction|]. cbn [find].
    destruct (has c h) eqn:Eh.
    - f_equal. apply Hu; cbn; auto.
    - destruct Hx as [->|Hx]; [congruence|]. apply IH; auto. intros a b Ha Hb. apply Hu; cbn; auto. }
  rewrite F. reflexivity.
Qed.
Lemma sample_multi_none l c t : (forall x, In x l -> has c x = false) -> sample (WMulti l) c t = None.
Proof.
  intros Hn. rewrite sample_multi_find.
  assert (F : find (has c) l = None).
  { induction l as [|h r IH]; [reflexivity|]. cbn [find]. rewrite (Hn h) by (cbn; auto). apply IH. intros; apply Hn; cbn; auto. }
  rewrite F. reflexivity.
Qed.

Lemma has_multi c l : has c (WMulti l) = existsb (has c) l.
Proof.
  unfold has. cbn [channels]. induction l as [|x r IH]; [reflexivity|]. rewrite inb_unionb, IH. reflexivity.
Qed.

Definition flat (l : list wf) : list wf := flat_map (fun w => match is_multi w with Some s => s | None => [w] end) l.

(* a part of the flattened list that has the channel, and what the un-flattened list answers *)
Lemma flat_part l c y : In y (flat l) -> has c y = true ->
  exists x, In x l /\ has c x = true /\ (x = y \/ exists l2, x = WMulti l2 /\ In y l2).
Proof.
  unfold flat. intros Hy Hc. apply in_flat_map in Hy as [x [Hx Hy]].
  exists x. split; [exact Hx|].
  destruct x; cbn [is_multi] in Hy; try (destruct Hy as [<-|[]]; auto).
  split; [|right; eauto]. rewrite has_multi. apply existsb_exists. eauto.
Qed.

Theorem from_parallel_sound : forall l w w', (2 <= length l)%nat ->
  from_parallel l = OK w' -> mk_multi l = OK w ->
  (* nested multi-channel parts are themselves free of channel clashes (guaranteed by their constructor) *)
  Forall (fun x => match is_multi x with Some s => overlap_free s [] = true | None => True end) l ->
  forall c t, sample w' c t = sample w c t.
Proof.
  intros l w w' Hlen Hf Hm Hnest c t.
  unfold from_parallel in Hf. destruct l as [|a [|b r]]; cbn in Hlen; try lia.
  change (flat_map (fun w => match is_multi w with Some s => s | None => [w] end) (a :: b :: r)) with (flat (a :: b :: r)) in Hf.
  remember (a :: b :: r) as l eqn:El. clear El Hlen a b r.
  unfold mk_multi in Hf, Hm.
  destruct (sort_wfs (flat l)) as [|x1 r1] eqn:E1; [discriminate|].
  destruct (negb (overlap_free (x1 :: r1) [])) eqn:O1; [discriminate|]. apply negb_false_iff in O1.
  destruct (forallb (fun y => isclose (duration y) (duration x1)) r1); [|discriminate]. injection Hf as <-.
  destruct (sort_wfs l) as [|x2 r2] eqn:E2; [discriminate|].
  destruct (negb (overlap_free (x2 :: r2) [])) eqn:O2; [discriminate|]. apply negb_false_iff in O2.
  destruct (forallb (fun y => isclose (duration y) (duration x2)) r2); [|discriminate]. injection Hm as <-.
  rewrite <- E1 in *. rewrite <- E2 in *. clear E1 E2 x1 r1 x2 r2.
  destruct (overlap_free_unique c _ _ O1) as [_ U1]. destruct (overlap_free_unique c _ _ O2) as [_ U2].
  (* is there a part of the flattened list with the channel? *)
  destruct (find (has c) (flat l)) as [y|] eqn:Fy.
  - apply find_some in Fy as [Hy Hcy].
    rewrite (sample_multi_unique _ c t y U1); [|apply sort_wfs_In; exact Hy|exact Hcy].
    destruct (flat_part l c y Hy Hcy) as [x [Hx [Hcx Hrel]]].
    rewrite (sample_multi_unique _ c t x U2); [|apply sort_wfs_In; exact Hx|exact Hcx].
    destruct Hrel as [->|[l2 [-> Hy2]]]; [reflexivity|].
    rewrite Forall_forall in Hnest. specialize (Hnest _ Hx). cbn [is_multi] in Hnest.
    destruct (overlap_free_unique c _ _ Hnest) as [_ U3].
    symmetry. apply sample_multi_unique; auto.
  - assert (N1 : forall y, In y (flat l) -> has c y = false).
    { intros y Hy. destruct (has c y) eqn:E; auto. eapply find_none in Fy; eauto. }
    rewrite sample_multi_none; [|intros y Hy; apply N1; apply sort_wfs_In; exact Hy].
    rewrite sample_multi_none; [reflexivity|].
    intros x Hx. apply (proj1 (sort_wfs_In _ _)) in Hx. destruct (has c x) eqn:E; auto.
    (* x has the channel: then some flattened part has it *)
    exfalso. destruct (is_multi x) as [l0|] eqn:Em.
    + destruct x as [| | | |lm| | | | | |]; try discriminate. cbn [is_multi] in Em. injection Em as Em. subst l0.
      rewrite has_multi in E. apply existsb_exists in E as [y [Hy2 Hcy]].
      assert (Hin : In y (flat l)) by (unfold flat; apply in_flat_map; exists (WMulti lm); split; [exact Hx|exact Hy2]).
      rewrite (N1 _ Hin) in Hcy. discriminate.
    + assert (Hin : In x (flat l)).
      { unfold flat. apply in_flat_map. exists x. split; [exact Hx|]. rewrite Em. cbn. auto. }
      rewrite (N1 _ Hin) in E. discriminate.
Qed.

Example from_parallel_example :
  let a := WMulti [WConst 1 3 1%N; WTable 2%N [mkE 0 1 Hold; mkE 1 2 Linear]] in
  let b := WFunc [1; 1#2] 1 0%N in
  match from_parallel [a; b], mk_multi [a; b] with
  | OK w', OK w => negb (wf_eqb w w') && oQeqb (sample w' 2%N (1#2)) (sample w 2%N (1#2)) && oQeqb (sample w' 0%N (1#2)) (Some (5#4))
  | _, _ => false
  end = true.
Proof. vm_compute. reflexivity. Qed.
