(* C08 — correspondence cases.  Every case carries the inputs AND what the real qupulse code answered;
   [check_corr] compares the answer with the operational model (Model.v), [check_spec] evaluates the property's own
   specification (Spec.v: the denotation of the PLAIN composite the recipe describes) on the implementation's answer.
   Must not import Proofs/Props. *)
From Coq Require Import List ZArith QArith Qabs Bool.
Require Import QV.common.Util QV.C08.Model QV.C08.Spec QV.C08.Hist QV.C08.Guards.
Import ListNotations.
Open Scope Q_scope.

Inductive sres := SOK (vals : list (option Q)) | SErr (e : err).
Record chobs := mkCO { co_c : chan; co_cv : option Q; co_gs : sres; co_us : option sres }.
Inductive obs := OErr (e : err) | OBuilt (chs : list chan) (dur : Q) (per : list chobs).

(* one sampling call of a history: channel, index of the time-array OBJECT, its content at the time of the call,
   whether an output array is supplied *)
Record call := mkCall { ca_c : chan; ca_arr : N; ca_ts : list Q; ca_out : bool }.

Inductive case :=
| CSample (r : recipe) (grid : list Q) (o : obs)
| CEq (r1 r2 : recipe) (built : bool) (eq_impl : bool) (hash_eq : option bool)
| CHist (r : recipe) (calls : list call) (answers : list sres)
| CDec (r : recipe) (grid : list Q) (o : obs)     (* decimal stream: binary64 results, compared under [tol] *)
| CCrash.

Definition err_eqb (a b : err) : bool :=
  match a, b with
  | EValue, EValue | EKey, EKey | EAssert, EAssert | EZeroDiv, EZeroDiv | EType, EType => true
  | _, _ => false
  end.
Definition sres_eqb (a b : sres) : bool :=
  match a, b with
  | SOK x, SOK y => list_eqb oQeqb x y
  | SErr e, SErr f => err_eqb e f
  | _, _ => false
  end.
Definition sres_of (r : res (list (option Q))) : sres := match r with OK v => SOK v | Err e => SErr e end.

(* ---- decimal stream: durations k/10, k/3 ... are not binary fractions, the implementation's samples are rounded
   binary64 results; they are compared with the exact rational model / denotation under the declared absolute
   tolerance 2^-30 (which piece answers a junction is still decided exactly: the generated ramps start and end at
   different values, a wrong piece is off by far more) ---- *)
Definition tol : Q := 1 # 1073741824.
Definition approxb (a b : Q) : bool := Qle_bool (Qabs (a - b)) tol.
Definition oapproxb (a b : option Q) : bool :=
  match a, b with Some x, Some y => approxb x y | None, None => true | _, _ => false end.
Definition sres_approxb (a b : sres) : bool :=
  match a, b with
  | SOK x, SOK y => list_eqb oapproxb x y
  | SErr e, SErr f => err_eqb e f
  | _, _ => false
  end.

Definition corr_chan (w : wf) (grid : list Q) (o : chobs) : bool :=
  let c := co_c o in
  (if inb c (channels w) then oQeqb (cv w c) (co_cv o) else true)
  && sres_eqb (sres_of (get_sampled w c grid)) (co_gs o)
  && match co_us o with
     | None => true
     | Some us => sres_eqb (if zdiv w c then SErr EZeroDiv else if kerr w c then SErr EKey else SOK (sample_vec w c grid)) us
     end.

Definition corr_chan_tol (w : wf) (grid : list Q) (o : chobs) : bool :=
  let c := co_c o in
  (if inb c (channels w) then oapproxb (cv w c) (co_cv o) else true)
  && sres_approxb (sres_of (get_sampled w c grid)) (co_gs o)
  && match co_us o with
     | None => true
     | Some us => sres_approxb (if zdiv w c then SErr EZeroDiv else if kerr w c then SErr EKey else SOK (sample_vec w c grid)) us
     end.

Definition check_corr (k : case) : bool :=
  match k with
  | CSample r grid o =>
      match build r, o with
      | Err e, OErr f => err_eqb e f
      | OK w, OBuilt chs dur per =>
          set_eqb chs (channels w) && Qeq_bool dur (duration w) && forallb (corr_chan w grid) per
      | _, _ => false
      end
  | CEq r1 r2 built eq_impl _ =>
      match build r1, build r2 with
      | OK a, OK b => built && Bool.eqb (wf_eqb a b) eq_impl
      | _, _ => negb built
      end
  | CHist r calls answers =>
      match build r with
      | OK w => list_eqb sres_eqb (map sres_of (run_hist w (map (fun ca => (ca_c ca, ca_arr ca, ca_ts ca)) calls) [])) answers
      | Err _ => match answers with [] => true | _ => false end
      end
  | CDec r grid o =>
      match build r, o with
      | Err e, OErr f => err_eqb e f
      | OK w, OBuilt chs dur per =>
          set_eqb chs (channels w) && Qeq_bool dur (duration w) && forallb (corr_chan_tol w grid) per
      | _, _ => false
      end
  | CCrash => false
  end.

(* ---- the specification oracle ----
   Independence (round 5 audit; checked by a dependency scan of the definitions): [check_spec] reaches, besides Spec.v
   ([build_plain], [den] = [sc] after [nf], [table_at], [t_mirror]), only these definitions of Model.v, all of them the
   MEANING of the data a plain composite consists of, none of them a part of the operational model of the code:
     types and finite-set / rational helpers   wf, trafo, recipe, entry, res, inb, lookup, keys, set_eqb, subsetb, unionb,
                                               diffb, interb, disjointb, dedup, Qltb, omap, omap2, osum, dot, last_t
     structure of a plain composite            channels, duration, overlap_free
     value of a leaf / operator at one time    interp_at, poly_at, aop_at, aop_rhs_only, functor_at, tval_at
     a transformation applied to one data row  t_point, t_out (via channels), t_in (via t_out of chains)
     "not a waveform" (0-length linear segment) zdiv, table_zdiv
   It does NOT reach sample_vec, get_sampled, cv / cvd, build and the from_* constructors, get_subset, kerr, wf_eqb or
   Hist.v.  [check_excused] below does (on purpose: it contains check_corr) and is never used to accept an observation. *)
Fixpoint forallb2 {A B} (f : A -> B -> bool) (a : list A) (b : list B) : bool :=
  match a, b with [] , [] => true | x :: a', y :: b' => f x y && forallb2 f a' b' | _, _ => false end.
Definition in_range (w : wf) (grid : list Q) : bool :=
  forallb (fun t => Qle_bool 0 t && Qle_bool t (duration w)) grid.

(* every answered sample is finite and is the denoted voltage; a reported constant is the denoted voltage at every
   time of the grid *)
Definition spec_chan (wp : wf) (grid : list Q) (o : chobs) : bool :=
  let c := co_c o in
  if negb (inb c (channels wp)) then true            (* asking for an undefined channel: nothing demanded *)
  else if zdiv wp c then true                        (* zero-length linear table segment: not a waveform *)
  else
    (match co_cv o with
     | Some v => forallb (fun t => oQeqb (den wp c t) (Some v)) grid
     | None => true
     end)
    && match co_gs o with
       | SOK vals => forallb2 (fun t v => match v with Some _ => oQeqb v (den wp c t) | None => false end) grid vals
       | SErr _ => false
       end.

Definition spec_chan_tol (wp : wf) (grid : list Q) (o : chobs) : bool :=
  let c := co_c o in
  if negb (inb c (channels wp)) then true
  else if zdiv wp c then true
  else
    (match co_cv o with
     | Some v => forallb (fun t => oapproxb (den wp c t) (Some v)) grid
     | None => true
     end)
    && match co_gs o with
       | SOK vals => forallb2 (fun t v => match v with Some _ => oapproxb v (den wp c t) | None => false end) grid vals
       | SErr _ => false
       end.

Definition spec_answer (wp : wf) (ca : call) (a : sres) : bool :=
  if negb (inb (ca_c ca) (channels wp)) || negb (sortedb (ca_ts ca)) || negb (in_range wp (ca_ts ca)) || zdiv wp (ca_c ca)
  then true
  else match a with
       | SOK vals => forallb2 (fun t v => match v with Some _ => oQeqb v (den wp (ca_c ca) t) | None => false end) (ca_ts ca) vals
       | SErr _ => false
       end.

Definition check_spec (k : case) : bool :=
  match k with
  | CSample r grid o =>
      match build_plain r with
      | Err _ => true                                (* not a well-formed description *)
      | OK wp =>
          match o with
          | OErr _ => false                          (* a well-formed waveform could not be built *)
          | OBuilt chs dur per =>
              set_eqb chs (channels wp) && Qeq_bool dur (duration wp)
              && (if sortedb grid && in_range wp grid then forallb (spec_chan wp grid) per else true)
          end
      end
  | CEq _ _ built eq_impl hash_eq =>
      (* equal waveforms have equal hashes (same channels / duration / samples: compared by the harness, py_spec) *)
      if built && eq_impl then match hash_eq with Some true => true | _ => false end else true
  | CHist r calls answers =>
      match build_plain r with
      | Err _ => true
      | OK wp => forallb2 (spec_answer wp) calls answers
      end
  | CDec r grid o =>
      match build_plain r with
      | Err _ => true
      | OK wp =>
          match o with
          | OErr _ => false
          | OBuilt chs dur per =>
              set_eqb chs (channels wp) && Qeq_bool dur (duration wp)
              && (if sortedb grid && in_range wp grid then forallb (spec_chan_tol wp grid) per else true)
          end
      end
  | CCrash => false
  end.

(* ---- known findings (round 5): is an observation that [check_spec] rejects EXACTLY a known defect of the unchanged code?
   Used by the harness (`classify`) only AFTER check_spec has failed, to decide between KNOWN-FINDING and VIOLATION; it never
   makes check_spec / check_corr pass.  A rejected observation is filed under a known finding only if
     (1) the implementation behaves exactly like the model of the unchanged code on this case ([check_corr]: the refuted
         theorems are about this model; a changed implementation is never excused), and
     (2) the specification accepts every answer outside the points the finding is about:
           - a NaN at t = duration                                   (C08-nan-at-duration; guard t < duration of the theorems)
           - a time the junction guard [badT] of C08_denotation_any_reversal_T / C08_mirror_law_T excludes
                                                                     (C08-reversed-composite-junction)
           - KeyError for a channel with [kerr wp c] on the plain composite   (C08-chain-parallel-linear-keyerror)
           - [q]: any time on the 1/4 grid (C08-table-dedup-final-triple: the harness asks for this mask only for recipes
             with a from_table table whose last three entries share one time)
   The cache findings (stale after in-place times, shadowed by-product) and the missing hash concern whole answers: the
   harness uses [check_corr] alone for them. *)
Definition on_quarter (t : Q) : bool := Z.eqb (Zpos (Qden (Qred (t * 4)))) 1.
Definition exc_sample (q : bool) (wp : wf) (c : chan) (t : Q) (v : option Q) : bool :=
  (match v with
   | Some _ => oQeqb v (den wp c t)
   | None => Qeq_bool t (duration wp)
   end) || badT false wp c t || (q && on_quarter t).
Definition exc_sres (q : bool) (wp : wf) (c : chan) (grid : list Q) (a : sres) : bool :=
  match a with
  | SOK vals => forallb2 (exc_sample q wp c) grid vals
  | SErr EKey => kerr wp c
  | SErr _ => false
  end.
Definition exc_chan (q : bool) (wp : wf) (grid : list Q) (o : chobs) : bool :=
  let c := co_c o in
  if negb (inb c (channels wp)) then true
  else if zdiv wp c then true
  else
    (match co_cv o with
     | Some v => forallb (fun t => oQeqb (den wp c t) (Some v) || badT false wp c t || (q && on_quarter t)) grid
     | None => true
     end)
    && exc_sres q wp c grid (co_gs o).
Definition exc_answer (q : bool) (wp : wf) (ca : call) (a : sres) : bool :=
  if negb (inb (ca_c ca) (channels wp)) || negb (sortedb (ca_ts ca)) || negb (in_range wp (ca_ts ca)) || zdiv wp (ca_c ca)
  then true
  else exc_sres q wp (ca_c ca) (ca_ts ca) a.
Definition excused (q : bool) (k : case) : bool :=
  check_corr k &&
  match k with
  | CSample r grid (OBuilt chs dur per) =>
      match build_plain r with
      | Err _ => false
      | OK wp => set_eqb chs (channels wp) && Qeq_bool dur (duration wp)
                 && (if sortedb grid && in_range wp grid then forallb (exc_chan q wp grid) per else true)
      end
  | CHist r calls answers =>
      match build_plain r with
      | Err _ => false
      | OK wp => forallb2 (exc_answer q wp) calls answers
      end
  | _ => false
  end.
Definition check_excused (k : case) : bool := excused false k.
Definition check_excused_q (k : case) : bool := excused true k.
