(* C08 — executable guards that are shared between theorems (Proofs*.v) and the correspondence (Corr.v: which points of an
   observation belong to the known finding C08-reversed-composite-junction).  Definitions only, no proofs.

   [bad rv w c tau] / [badT rv w c tau]: the time [tau] at which the code evaluates [w] falls, below an ODD number of
   reversals ([rv]), exactly on a boundary of a sequence / repetition that feeds channel [c] (internal junction, or its
   end = local time 0 of the reversed waveform).  [badT] follows a transformation into every channel get_input_channels
   selects.  These are the guards of C08_denotation_any_reversal(_T) / C08_mirror_law(_T). *)
From Coq Require Import List ZArith QArith Qabs Bool.
Require Import QV.C08.Model.
Import ListNotations.
Open Scope Q_scope.

Fixpoint bad_list (rv : bool) (tau : Q) (ds : list (Q * (Q -> bool))) (time : Q) : bool :=
  match ds with
  | [] => false
  | (d, g) :: r =>
      let e := time + d in
      (rv && (Qeq_bool tau time || Qeq_bool tau e))
      || (negb (Qltb tau time) && Qltb tau e && g (tau - time))
      || bad_list rv tau r e
  end.
(* [rv] = an odd number of reversals above; [tau] = the time at which the code evaluates w *)
Fixpoint bad (rv : bool) (w : wf) (c : chan) (tau : Q) {struct w} : bool :=
  match w with
  | WTable _ _ | WConst _ _ _ | WFunc _ _ _ => false
  | WSeq l => bad_list rv tau (map (fun s => (duration s, bad rv s c)) l) 0
  | WMulti l => (fix find (l : list wf) := match l with
                   | [] => false
                   | s :: r => if inb c (channels s) then bad rv s c tau else find r end) l
  | WRep b n => bad_list rv tau (repeat (duration b, bad rv b c) (Z.to_nat n)) 0
  | WTrans i _ | WSubset i _ | WFunctor i _ => bad rv i c tau
  | WArith l _ r => (inb c (channels l) && bad rv l c tau) || (inb c (channels r) && bad rv r c tau)
  | WRev i => bad (negb rv) i c (duration i - tau)
  end.

Fixpoint badT (rv : bool) (w : wf) (c : chan) (tau : Q) {struct w} : bool :=
  match w with
  | WTable _ _ | WConst _ _ _ | WFunc _ _ _ => false
  | WSeq l => bad_list rv tau (map (fun s => (duration s, badT rv s c)) l) 0
  | WMulti l => (fix find (l : list wf) := match l with
                   | [] => false
                   | s :: r => if inb c (channels s) then badT rv s c tau else find r end) l
  | WRep b n => bad_list rv tau (repeat (duration b, badT rv b c) (Z.to_nat n)) 0
  | WTrans i T => match t_in T [c] with Some ins => existsb (fun ic => badT rv i ic tau) ins | None => false end
  | WSubset i _ | WFunctor i _ => badT rv i c tau
  | WArith l _ r => (inb c (channels l) && badT rv l c tau) || (inb c (channels r) && badT rv r c tau)
  | WRev i => badT (negb rv) i c (duration i - tau)
  end.
