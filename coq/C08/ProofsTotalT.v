(* C08 — totality of sampling for ALL waveform classes (TransformingWaveform included) under the executable guards
   that exclude the refuted input classes: t = duration of a sequence / repetition, a reversal around them, and a
   transformation chain that raises KeyError for the requested channel ([kerr], known finding
   C08-chain-parallel-linear-keyerror). *)
From Coq Require Import List ZArith QArith Qabs Bool Lia Lqa.
Require Import QV.C08.Model QV.C08.Spec QV.C08.Wf QV.C08.ProofsVec QV.C08.ProofsConst QV.C08.ProofsTotal
               QV.C08.ProofsTrafo QV.C08.ProofsCtor.
Import ListNotations.
Open Scope Q_scope.

Fixpoint closedT (w : wf) : bool :=
  match w with
  | WTable _ _ | WConst _ _ _ | WFunc _ _ _ => true
  | WSeq _ | WRep _ _ => false
  | WMulti l => (fix all (l : list wf) := match l with [] => true | x :: r => closedT x && all r end) l
  | WTrans i _ | WSubset i _ | WFunctor i _ | WRev i => closedT i
  | WArith l _ r => closedT l && closedT r
  end.
Fixpoint rightopenT (w : wf) : bool :=
  match w with
  | WTable _ _ | WConst _ _ _ | WFunc _ _ _ => true
  | WSeq l | WMulti l => (fix all (l : list wf) := match l with [] => true | x :: r => rightopenT x && all r end) l
  | WRep b _ => rightopenT b
  | WTrans i _ | WSubset i _ | WFunctor i _ => rightopenT i
  | WRev i => closedT i
  | WArith l _ r => rightopenT l && rightopenT r
  end.
Lemma closedT_all_Forall l :
  (fix all (l : list wf) := match l with [] => true | x :: r => closedT x && all r end) l = true ->
  Forall (fun x => closedT x = true) l.
Proof.
  induction l as [|x r IH]; intros H; constructor.
  - apply andb_prop in H as [H _]; exact H.
  - apply IH. apply andb_prop in H as [_ H]; exact H.
Qed.
Lemma rightopenT_all_Forall l :
  (fix all (l : list wf) := match l with [] => true | x :: r => rightopenT x && all r end) l = true ->
  Forall (fun x => rightopenT x = true) l.
Proof.
  induction l as [|x r IH]; intros H; constructor.
  - apply andb_prop in H as [H _]; exact H.
  - apply IH. apply andb_prop in H as [_ H]; exact H.
Qed.
Definition guardT (closed : bool) (w : wf) : bool := if closed then closedT w else rightopenT w.

Lemma kerr_seq_Forall l c :
  (fix any (l : list wf) := match l with [] => false | x :: r => kerr x c || any r end) l = false ->
  Forall (fun x => kerr x c = false) l.
Proof.
  induction l as [|x r IH]; intros H; constructor.
  - apply orb_false_iff in H as [H _]; exact H.
  - apply IH. apply orb_false_iff in H as [_ H]; exact H.
Qed.

Lemma krel_lookup c d d' : krel d d' -> (exists v, lookup c d' = Some v) -> exists v, lookup c d = Some v.
Proof.
  intros Hk [v Hv]. apply lookup_in_keys. rewrite (krel_keys _ _ Hk).
  destruct (inb c (keys d')) eqn:E; auto. rewrite (lookup_not_in_keys c d' E) in Hv. discriminate.
Qed.

Lemma total_guarded_T : forall w closed, okb w = true -> guardT closed w = true -> forall c,
  inb c (channels w) = true -> kerr w c = false -> defined_on w c closed.
Proof.
  intros w. induction w using wf_ind'; intros closed Hok Hg ch Hch Hk t H0 H1; cbn [okb] in Hok; cbn [kerr] in Hk.
  - cbn [channels] in Hch. cbn in Hch. rewrite orb_false_r in Hch. apply N.eqb_eq in Hch. subst c.
    apply table_total; auto. cbn [duration] in H1. destruct closed; lra.
  - cbn. eauto.
  - cbn. eauto.
  - (* sequence *)
    destruct closed; [discriminate|]. cbn [guardT rightopenT] in Hg.
    apply andb_prop in Hok as [Hchs Hoks]. apply okb_all_Forall in Hoks. apply rightopenT_all_Forall in Hg.
    apply kerr_seq_Forall in Hk.
    rewrite sample_seq. rewrite duration_seq in H1.
    apply seqp_total; [|right; split; lra].
    assert (Hin := seq_children_have_chan l ch Hchs Hch).
    clear Hchs Hch H0 H1.
    induction H as [|s l' Hs _ IH]; [constructor|].
    apply Forall_cons_iff in Hoks as [Ho1 Ho2]. apply Forall_cons_iff in Hg as [Hg1 Hg2].
    apply Forall_cons_iff in Hin as [Hi1 Hi2]. apply Forall_cons_iff in Hk as [Hk1 Hk2].
    constructor; [apply (Hs false); auto|auto].
  - (* multi-channel *)
    apply andb_prop in Hok as [Hok Hoks]. apply andb_prop in Hok as [Hdur Hov].
    apply okb_all_Forall in Hoks.
    assert (Hgs : Forall (fun x => guardT closed x = true) l).
    { destruct closed; cbn [guardT closedT rightopenT] in Hg;
        [apply closedT_all_Forall|apply rightopenT_all_Forall]; exact Hg. }
    assert (Hd : Forall (fun y => duration y == duration (WMulti l)) l).
    { destruct l as [|x r]; [discriminate|]. cbn [duration].
      constructor; [reflexivity|]. rewrite forallb_forall in Hdur. apply Forall_forall. intros y Hy.
      apply Qeq_bool_iff. auto. }
    clear Hdur Hov Hg. revert H1 Hd. generalize (duration (WMulti l)) as d0. intros d0 H1 Hd.
    cbn [sample channels] in *.
    induction H as [|s l' Hs _ IH]; [discriminate|].
    apply Forall_cons_iff in Hoks as [Ho1 Ho2]. apply Forall_cons_iff in Hgs as [Hg1 Hg2].
    apply Forall_cons_iff in Hd as [Hd1 Hd2].
    destruct (inb ch (channels s)) eqn:E.
    + apply (Hs closed); auto. destruct closed; lra.
    + apply IH; auto. rewrite inb_unionb, E in Hch. exact Hch.
  - (* repetition *)
    destruct closed; [discriminate|]. cbn [guardT rightopenT] in Hg.
    apply andb_prop in Hok as [Hn Hokb]. cbn [channels] in Hch.
    rewrite sample_rep. apply repp_total.
    + apply (IHw false); auto.
    + right. split; [lra|]. rewrite kq_mult. cbn [duration] in H1.
      rewrite Z2Nat.id; [lra|]. apply Z.leb_le in Hn. lia.
  - (* transforming *)
    apply andb_prop in Hok as [Hokb Hout]. cbn [channels sample duration] in *.
    assert (Hgi : guardT closed w = true) by (destruct closed; exact Hg).
    destruct (t_out T (channels w)) as [co|] eqn:Eo; [|discriminate].
    destruct (t_in_channels T (channels w) co ch Eo Hch) as [ins [Ein Hins]].
    rewrite Ein in *. apply orb_false_iff in Hk as [Hki Hkt].
    (* every requested inner channel is finite at t *)
    assert (Hd : all_some (map (fun ic => (ic, sample w ic t)) ins)).
    { clear Ein Hkt. unfold all_some. induction ins as [|ic ins IHi]; [constructor|].
      cbn [existsb] in Hki. apply orb_false_iff in Hki as [K1 K2]. cbn [map]. constructor.
      - cbn [snd].
        assert (Hic : inb ic (channels w) = true) by (apply Hins; rewrite inb_cons, N.eqb_refl; reflexivity).
        destruct (IHw closed Hokb Hgi ic Hic K1 t H0 H1) as [v Hv]. rewrite Hv. discriminate.
      - apply IHi; auto. intros k Hk'. apply Hins. rewrite inb_cons, Hk', orb_true_r. reflexivity. }
    (* the transformation does not raise and produces the requested channel *)
    unfold t_point_fails in Hkt.
    destruct (t_point T 0 (map (fun ic => (ic, None)) ins)) as [out0|] eqn:E0; [|discriminate].
    assert (Hl0 : exists v, lookup ch out0 = Some v) by (destruct (lookup ch out0); [eauto|discriminate]).
    assert (Hkr : krel (map (fun ic => (ic, sample w ic t)) ins) (map (fun ic : chan => (ic, @None Q)) ins))
      by (apply krel_map_same; reflexivity).
    pose proof (t_point_shape T t 0 _ _ Hkr) as Hsh. rewrite E0 in Hsh.
    destruct (t_point T t (map (fun ic => (ic, sample w ic t)) ins)) as [out|] eqn:Eout; cbn in Hsh; [|tauto].
    destruct (krel_lookup ch out out0 Hsh Hl0) as [v Lv]. rewrite Lv.
    pose proof (t_point_all_some T t _ out Hd Eout) as Hall.
    apply lookup_In' in Lv. unfold all_some in Hall. rewrite Forall_forall in Hall. specialize (Hall _ Lv). cbn in Hall.
    destruct v as [x|]; [eauto|congruence].
  - (* subset *)
    apply andb_prop in Hok as [Hok Hne]. apply andb_prop in Hok as [Hokb Hsub].
    cbn [channels sample duration] in *.
    assert (Hgi : guardT closed w = true) by (destruct closed; exact Hg).
    exact (IHw closed Hokb Hgi ch (subsetb_inb _ _ _ Hsub Hch) Hk t H0 H1).
  - (* arithmetic *)
    apply andb_prop in Hok as [Hok Hdur]. apply andb_prop in Hok as [Hok1 Hok2]. apply Qeq_bool_iff in Hdur.
    assert (Hg12 : guardT closed w1 = true /\ guardT closed w2 = true).
    { destruct closed; cbn [guardT closedT rightopenT] in Hg; apply andb_prop in Hg; exact Hg. }
    destruct Hg12 as [Hg1 Hg2].
    cbn [channels sample duration] in *. rewrite inb_unionb in Hch. apply orb_false_iff in Hk as [Hk1 Hk2].
    destruct (inb ch (channels w1)) eqn:E1, (inb ch (channels w2)) eqn:E2; try discriminate; cbn [andb] in Hk1, Hk2.
    + destruct (IHw1 closed Hok1 Hg1 ch E1 Hk1 t H0 H1) as [a Ha].
      destruct (IHw2 closed Hok2 Hg2 ch E2 Hk2 t H0) as [b Hb]; [destruct closed; lra|].
      rewrite Ha, Hb. cbn. eauto.
    + apply (IHw1 closed); auto.
    + destruct (IHw2 closed Hok2 Hg2 ch E2 Hk2 t H0) as [b Hb]; [destruct closed; lra|].
      rewrite Hb. cbn. eauto.
  - (* functor *)
    apply andb_prop in Hok as [Hokb Hkeys]. cbn [channels sample duration] in *.
    assert (Hkk : inb ch (keys f) = true) by (rewrite (set_eqb_inb _ _ ch Hkeys); exact Hch).
    destruct (lookup_in_keys ch f Hkk) as [g Eg]. rewrite Eg.
    assert (Hgi : guardT closed w = true) by (destruct closed; exact Hg).
    destruct (IHw closed Hokb Hgi ch Hch Hk t H0 H1) as [a Ha].
    rewrite Ha. cbn. eauto.
  - (* reversed *)
    cbn [channels sample duration] in *.
    assert (Hc : closedT w = true) by (destruct closed; exact Hg).
    apply (IHw true Hok Hc ch Hch Hk (duration w - t)); [destruct closed; lra|cbn; destruct closed; lra].
Qed.

Theorem total_closed_T : forall w, okb w = true -> closedT w = true -> forall c t,
  inb c (channels w) = true -> kerr w c = false -> 0 <= t -> t <= duration w -> exists v, sample w c t = Some v.
Proof. intros w Hok Hg c t Hc Hk H0 H1. exact (total_guarded_T w true Hok Hg c Hc Hk t H0 H1). Qed.

Theorem total_rightopen_T : forall w, okb w = true -> rightopenT w = true -> forall c t,
  inb c (channels w) = true -> kerr w c = false -> 0 <= t -> t < duration w -> exists v, sample w c t = Some v.
Proof. intros w Hok Hg c t Hc Hk H0 H1. exact (total_guarded_T w false Hok Hg c Hc Hk t H0 H1). Qed.

(* the KeyError guard is needed: the chained parallel + linear transformation of the known finding *)
Example total_keyerror_refuted :
  let w := WTrans (WMulti [WTable 4%N [mkE 0 1 Hold; mkE 1 2 Linear]; WTable 3%N [mkE 0 1 Hold; mkE 1 2 Linear]])
                  (TChain [TParallel [(1%N, TC 3)]; TLinear [1%N; 3%N] [2%N] [[1; 1]]]) in
  okb w = true /\ closedT w = true /\ inb 4%N (channels w) = true /\ kerr w 4%N = true /\ kerr w 2%N = false /\
  get_sampled w 4%N [1#2] = Err EKey /\ oQeqb (sample w 2%N (1#2)) (Some (9#2)) = true.
Proof. vm_compute. repeat split; reflexivity. Qed.

Lemma total_keyerror_refuted_ex :
  exists w c t, okb w = true /\ closedT w = true /\ inb c (channels w) = true /\ kerr w c = true /\
                get_sampled w c [t] = Err EKey.
Proof.
  exists (WTrans (WMulti [WTable 4%N [mkE 0 1 Hold; mkE 1 2 Linear]; WTable 3%N [mkE 0 1 Hold; mkE 1 2 Linear]])
                 (TChain [TParallel [(1%N, TC 3)]; TLinear [1%N; 3%N] [2%N] [[1; 1]]])), 4%N, (1#2).
  exact (conj (proj1 total_keyerror_refuted) (conj (proj1 (proj2 total_keyerror_refuted))
        (conj (proj1 (proj2 (proj2 total_keyerror_refuted))) (conj (proj1 (proj2 (proj2 (proj2 total_keyerror_refuted))))
        (proj1 (proj2 (proj2 (proj2 (proj2 (proj2 total_keyerror_refuted)))))))))).
Qed.
