(* C08 — TableWaveform.from_table: when _validate_input reports the table as constant, the plain table really has that
   value at every time of [0, duration] (this is the clause the repaired defect 01efa2c violated). *)
From Coq Require Import List ZArith QArith Qabs Bool Lia Lqa.
Require Import QV.C08.Model QV.C08.Spec QV.C08.Wf QV.C08.ProofsVec QV.C08.ProofsTotal.
Import ListNotations.
Open Scope Q_scope.

Lemma interp_cv_at i t0 v0 t1 v1 t x : interp_cv i v0 v1 = Some x -> interp_at i t0 v0 t1 v1 t == x.
Proof.
  destruct i; cbn; intros H.
  - injection H as <-. reflexivity.
  - destruct (Qeq_bool v0 v1) eqn:E; [|discriminate]. injection H as <-.
    apply Qeq_bool_iff in E. setoid_replace (v1 - v0) with 0 by lra. unfold Qdiv. ring.
  - injection H as <-. reflexivity.
Qed.

(* every consecutive pair is constant with value v under the interpolation of its SECOND entry *)
Fixpoint pairs_const (v : Q) (es : list entry) : Prop :=
  match es with
  | e1 :: ((e2 :: _) as r) => (exists x, interp_cv (e_i e2) (e_v e1) (e_v e2) = Some x /\ x == v) /\ pairs_const v r
  | _ => True
  end.
Lemma pairs_const_cons2 v e1 e2 r :
  pairs_const v (e1 :: e2 :: r) <-> (exists x, interp_cv (e_i e2) (e_v e1) (e_v e2) = Some x /\ x == v) /\ pairs_const v (e2 :: r).
Proof. reflexivity. Qed.

Lemma table_at_const_val v t : forall es acc, pairs_const v es ->
  (forall a, acc = Some a -> a == v) -> forall r, table_at es t acc = Some r -> r == v.
Proof.
  induction es as [|e1 r IH]; intros acc Hp Ha res H; [exact (Ha res H)|].
  destruct r as [|e2 r']; [exact (Ha res H)|].
  rewrite table_at_cons2 in H. apply pairs_const_cons2 in Hp as [[x [Hx Hq]] Hp].
  eapply IH; [exact Hp| |exact H].
  intros a Ea. destruct (negb (Qltb t (e_t e1)) && Qle_bool t (e_t e2)); [|exact (Ha a Ea)].
  injection Ea as <-. rewrite (interp_cv_at _ _ _ _ _ _ _ Hx). exact Hq.
Qed.

(* ---- the loop of _validate_input ---- *)
Lemma validate_loop_none : forall rest pt pv cur out r,
  validate_loop rest pt pv cur None out = OK r -> exists t, r = inr t.
Proof.
  induction rest as [|nx rest IH]; intros pt pv cur out r H; cbn [validate_loop] in H.
  - destruct (Qeq_bool (e_t cur) 0); [discriminate|]. injection H as <-. eauto.
  - destruct (Qltb (e_t nx) (e_t cur)); [discriminate|].
    destruct ((negb (Qeq_bool pt (e_t cur)) || negb (Qeq_bool (e_t cur) (e_t nx)))
              && (negb (Qeq_bool pv (e_v cur)) || negb (Qeq_bool (e_v cur) (e_v nx)))); eapply IH; exact H.
Qed.

Lemma validate_loop_const : forall rest pt pv cur v out d v',
  validate_loop rest pt pv cur (Some v) out = OK (inl (d, v')) ->
  v' = v /\ d = last_t (cur :: rest) /\ pairs_const v (cur :: rest) /\
  table_valid_from (e_t cur) rest = true /\ Qeq_bool d 0 = false.
Proof.
  induction rest as [|nx rest IH]; intros pt pv cur v out d v' H; cbn [validate_loop] in H.
  - destruct (Qeq_bool (e_t cur) 0) eqn:E0; [discriminate|]. injection H as <- <-.
    split; [reflexivity|]. split; [reflexivity|]. split; [exact I|]. split; [reflexivity|exact E0].
  - destruct (Qltb (e_t nx) (e_t cur)) eqn:Elt; [discriminate|].
    unfold table_const_uses_prev_interp in H.
    destruct (interp_cv (e_i nx) (e_v cur) (e_v nx)) as [x|] eqn:Ex.
    + destruct (Qeq_bool x v) eqn:Exv.
      * assert (Hstep : v' = v /\ d = last_t (nx :: rest) /\ pairs_const v (nx :: rest) /\
                        table_valid_from (e_t nx) rest = true /\ Qeq_bool d 0 = false).
        { destruct ((negb (Qeq_bool pt (e_t cur)) || negb (Qeq_bool (e_t cur) (e_t nx)))
                    && (negb (Qeq_bool pv (e_v cur)) || negb (Qeq_bool (e_v cur) (e_v nx)))); eapply IH; exact H. }
        destruct Hstep as [-> [-> [Hp [Hv Hd]]]].
        split; [reflexivity|]. split; [reflexivity|]. split; [|split; [|exact Hd]].
        -- apply pairs_const_cons2. split; [|exact Hp]. exists x. split; [exact Ex|]. apply Qeq_bool_iff; exact Exv.
        -- cbn [table_valid_from]. rewrite Hv, andb_true_r.
           unfold Qltb in Elt. apply negb_false_iff in Elt. exact Elt.
      * exfalso.
        destruct ((negb (Qeq_bool pt (e_t cur)) || negb (Qeq_bool (e_t cur) (e_t nx)))
                  && (negb (Qeq_bool pv (e_v cur)) || negb (Qeq_bool (e_v cur) (e_v nx))));
          apply validate_loop_none in H as [t Ht]; discriminate.
    + exfalso.
      destruct ((negb (Qeq_bool pt (e_t cur)) || negb (Qeq_bool (e_t cur) (e_t nx)))
                && (negb (Qeq_bool pv (e_v cur)) || negb (Qeq_bool (e_v cur) (e_v nx))));
        apply validate_loop_none in H as [t Ht]; discriminate.
Qed.

Theorem validate_const_sound : forall tab d v, validate_input tab = OK (inl (d, v)) ->
  table_valid tab = true /\ d = last_t tab /\
  forall t, 0 <= t -> t <= d -> exists v', table_at tab t None = Some v' /\ v' == v.
Proof.
  intros tab d v H. unfold validate_input in H.
  destruct tab as [|e0 [|e1 rest]]; try discriminate.
  - destruct (negb (Qeq_bool (e_t e0) 0)); discriminate.
  - destruct (Qeq_bool (e_t e0) 0) eqn:E0; cbn [negb] in H; [|discriminate].
    destruct (Qltb (e_t e1) 0) eqn:E1; [discriminate|].
    destruct (interp_cv (e_i e1) (e_v e0) (e_v e1)) as [x|] eqn:Ex;
      [|apply validate_loop_none in H as [t Ht]; discriminate].
    apply validate_loop_const in H as [-> [Hd [Hp [Hv Hne]]]].
    apply Qeq_bool_iff in E0. unfold Qltb in E1. apply negb_false_iff in E1. apply Qle_bool_iff in E1.
    assert (Hvalid : table_valid_from (e_t e0) (e1 :: rest) = true).
    { cbn [table_valid_from]. rewrite Hv, andb_true_r. apply Qle_bool_iff. lra. }
    assert (Hdl : d = last_t (e0 :: e1 :: rest)) by exact Hd.
    split; [|split; [exact Hdl|]].
    + unfold table_valid. rewrite (proj2 (Qeq_bool_iff _ _) E0). cbn [andb].
      cbn [table_valid_from]. cbn [table_valid_from] in Hvalid. rewrite Hvalid, andb_true_r.
      assert (H0le : Qle_bool 0 (e_t e0) = true) by (apply Qle_bool_iff; lra). rewrite H0le. cbn [andb].
      unfold Qltb. apply negb_true_iff. rewrite <- Hdl.
      destruct (Qle_bool d 0) eqn:Ed; auto.
      (* d <= 0 together with 0 <= every time would make d == 0 *)
      exfalso. apply Qle_bool_iff in Ed.
      assert (Hge : 0 <= d).
      { rewrite Hd. clear -E1 Hv. revert Hv. generalize e1 E1. clear. intros e Ee. revert e Ee.
        induction rest as [|y r IH]; intros e Ee Hv; [exact Ee|].
        cbn [table_valid_from] in Hv. apply andb_prop in Hv as [H1 H2]. apply Qle_bool_iff in H1.
        change (last_t (e :: y :: r)) with (last_t (y :: r)). apply IH; [lra|exact H2]. }
      assert (d == 0) by lra. apply Qeq_bool_iff in H. congruence.
    + intros t Ht0 Ht1.
      destruct (table_at_total t rest e0 e1 None Hvalid) as [r Hr]; [lra|rewrite <- Hdl; exact Ht1|].
      exists r. split; [exact Hr|].
      eapply (table_at_const_val x t (e0 :: e1 :: rest) None); [|discriminate|exact Hr].
      apply pairs_const_cons2. split; [|exact Hp]. exists x. split; [exact Ex|reflexivity].
Qed.

(* from_table: the constant branch samples like the plain TableWaveform on the whole closed interval *)
Theorem from_table_const_sound : forall c tab d v, validate_input tab = OK (inl (d, v)) ->
  from_table c tab = OK (mk_const d v c) /\
  forall t, 0 <= t -> t <= last_t tab -> oQeq (sample (mk_const d v c) c t) (sample (WTable c tab) c t).
Proof.
  intros c tab d v H. split; [unfold from_table; rewrite H; reflexivity|].
  destruct (validate_const_sound tab d v H) as [_ [Hd Hs]]. intros t H0 H1.
  destruct (Hs t H0) as [v' [Hv Hq]]; [rewrite Hd; exact H1|].
  cbn [sample mk_const]. rewrite Hv. cbn. rewrite Qred_correct. symmetry; exact Hq.
Qed.

(* non-vacuity; and the input shape of the repaired defect is NOT reported constant any more *)
Example validate_examples :
  validate_input [mkE 0 1 Hold; mkE (1#2) 1 Linear; mkE 1 1 Jump; mkE 2 5 Hold] = OK (inl (2, 1)) /\
  (exists t, validate_input [mkE 0 1 Hold; mkE 1 1 Hold; mkE 2 3 Linear] = OK (inr t)) /\
  (exists t, validate_input [mkE 0 1 Hold; mkE 1 1 Hold; mkE 2 3 Jump] = OK (inr t)).
Proof. vm_compute. repeat split; eexists; reflexivity. Qed.

(* the de-duplication of _validate_input is NOT sample preserving at t = duration when three entries share the final
   time (known finding C08-table-dedup-final-triple; confirmed on the real code) *)
Lemma from_table_dedup_refuted :
  exists c tab w, from_table c tab = OK w /\ table_valid tab = true /\ zdiv (WTable c tab) c = false /\
    oQeqb (sample w c (last_t tab)) (Some 1) = true /\ oQeqb (sample (WTable c tab) c (last_t tab)) (Some 2) = true.
Proof.
  exists 1%N, [mkE 0 0 Hold; mkE 1 1 Hold; mkE 1 2 Hold; mkE 1 3 Hold].
  eexists. vm_compute. repeat split; reflexivity.
Qed.
