(* C08 — SequenceWaveform.from_sequence flattens nested sequences: the flattened sequence samples like the nested one. *)
From Coq Require Import List ZArith QArith Qabs Bool Lia Lqa.
Require Import QV.C08.Model QV.C08.Spec QV.C08.Wf QV.C08.ProofsVec QV.C08.ProofsConst QV.C08.ProofsProper QV.C08.ProofsCtor.
Import ListNotations.
Open Scope Q_scope.

(* ---- durations of well-formed waveforms are positive ---- *)
Lemma sumd_pos l : l <> [] -> Forall (fun x => 0 < duration x) l -> 0 < sumd l.
Proof.
  intros Hne H. destruct H as [|x r Hx Hr]; [congruence|]. cbn [sumd]. clear Hne.
  assert (0 <= sumd r). { induction Hr as [|y r' Hy _ IH]; cbn [sumd]; lra. } lra.
Qed.
Lemma okb_pos : forall w, okb w = true -> 0 < duration w.
Proof.
  induction w using wf_ind'; intros Hok; cbn [okb] in Hok.
  - unfold table_valid in Hok. destruct tab as [|e0 [|e1 r]]; try discriminate.
    apply andb_prop in Hok as [_ Hl]. unfold Qltb in Hl. apply negb_true_iff in Hl.
    cbn [duration]. destruct (Qlt_le_dec 0 (last_t (e0 :: e1 :: r))) as [G|G]; auto.
    apply Qle_bool_iff in G. congruence.
  - unfold Qltb in Hok. apply negb_true_iff in Hok. cbn [duration].
    destruct (Qlt_le_dec 0 d) as [G|G]; auto. apply Qle_bool_iff in G. congruence.
  - unfold Qltb in Hok. apply negb_true_iff in Hok. cbn [duration].
    destruct (Qlt_le_dec 0 d) as [G|G]; auto. apply Qle_bool_iff in G. congruence.
  - apply andb_prop in Hok as [Hne Hoks]. apply okb_all_Forall in Hoks. rewrite duration_seq.
    apply sumd_pos; [destruct l; [discriminate|congruence]|].
    clear Hne. induction H as [|x r Hx _ IH]; constructor.
    + apply Hx. apply Forall_cons_iff in Hoks as [A _]; exact A.
    + apply IH. apply Forall_cons_iff in Hoks as [_ A]; exact A.
  - apply andb_prop in Hok as [Hok Hoks]. apply okb_all_Forall in Hoks.
    destruct l as [|x r]; [apply andb_prop in Hok as [A _]; discriminate|]. cbn [duration].
    apply Forall_cons_iff in H as [Hx _]. apply Forall_cons_iff in Hoks as [A _]. exact (Hx A).
  - apply andb_prop in Hok as [Hn Hb]. specialize (IHw Hb). cbn [duration].
    apply Z.leb_le in Hn. assert (1 <= inject_Z n) by (change 1 with (inject_Z 1); rewrite <- Zle_Qle; exact Hn).
    apply Qlt_le_trans with (duration w * 1); [lra|]. apply Qmult_le_l; assumption.
  - apply andb_prop in Hok as [Hb _]. exact (IHw Hb).
  - apply andb_prop in Hok as [Hok _]. apply andb_prop in Hok as [Hb _]. exact (IHw Hb).
  - apply andb_prop in Hok as [Hok _]. apply andb_prop in Hok as [Hb _]. exact (IHw1 Hb).
  - apply andb_prop in Hok as [Hb _]. exact (IHw Hb).
  - exact (IHw Hok).
Qed.

(* ---- the sequence loop: append, shift, range ---- *)
Definition tadd (time : Q) (l : list wf) : Q := fold_left (fun a x => a + duration x) l time.
Lemma tadd_sumd l : forall time, tadd time l == time + sumd l.
Proof.
  unfold tadd. induction l as [|x r IH]; intros time; cbn [fold_left sumd]; [lra|]. rewrite IH. lra.
Qed.

Lemma seqp_app c t l1 : forall l2 time acc,
  seqp c t (l1 ++ l2) time acc = seqp c t l2 (tadd time l1) (seqp c t l1 time acc).
Proof. induction l1 as [|x r IH]; intros l2 time acc; [reflexivity|]. cbn [app seqp tadd fold_left]. cbv zeta. apply IH. Qed.

Lemma Qltb_shift a b a' b' : a - b == a' - b' -> Qltb a b = Qltb a' b'.
Proof.
  intros H. unfold Qltb. f_equal.
  destruct (Qle_bool b a) eqn:E, (Qle_bool b' a') eqn:E'; auto.
  - apply Qle_bool_iff in E. assert (b' <= a') by lra. apply Qle_bool_iff in H0. congruence.
  - apply Qle_bool_iff in E'. assert (b <= a) by lra. apply Qle_bool_iff in H0. congruence.
Qed.

(* equal (==) start times and accumulators, possibly a shifted clock *)
Lemma seqp_shift c t delta l : forall T U acc acc', T == U + delta -> oQeq acc acc' ->
  oQeq (seqp c t l T acc) (seqp c (t - delta) l U acc').
Proof.
  induction l as [|x r IH]; intros T U acc acc' HT Ha; [exact Ha|].
  cbn [seqp]. cbv zeta. apply IH; [lra|].
  assert (E1 : Qltb t T = Qltb (t - delta) U) by (apply Qltb_shift; lra).
  assert (E2 : Qltb t (T + duration x) = Qltb (t - delta) (U + duration x)) by (apply Qltb_shift; lra).
  rewrite E1, E2.
  destruct (negb (Qltb (t - delta) U) && Qltb (t - delta) (U + duration x)); [|exact Ha].
  apply sample_proper. lra.
Qed.

Lemma sumd_nonneg l : Forall (fun x => 0 <= duration x) l -> 0 <= sumd l.
Proof. induction 1 as [|y r' Hy _ IH]; cbn [sumd]; lra. Qed.

Lemma seqp_outside c t l : Forall (fun x => 0 <= duration x) l -> forall time acc,
  (t < time \/ time + sumd l <= t) -> seqp c t l time acc = acc.
Proof.
  induction 1 as [|x r Hx Hr IH]; intros time acc Ho; [reflexivity|].
  cbn [seqp sumd] in *. cbv zeta. pose proof (sumd_nonneg r Hr) as Hnn.
  assert (E : negb (Qltb t time) && Qltb t (time + duration x) = false).
  { destruct Ho as [Ho|Ho].
    - assert (Qltb t time = true) by (unfold Qltb; apply negb_true_iff;
        destruct (Qle_bool time t) eqn:G; auto; apply Qle_bool_iff in G; lra).
      rewrite H. reflexivity.
    - assert (Qltb t (time + duration x) = false) by (unfold Qltb; apply negb_false_iff; apply Qle_bool_iff; lra).
      rewrite H, andb_false_r. reflexivity. }
  rewrite E. apply IH. destruct Ho; [left|right]; lra.
Qed.

(* inside the range the incoming accumulator does not matter *)
Lemma seqp_inside c t l : Forall (fun x => 0 <= duration x) l -> forall time acc acc',
  time <= t -> t < time + sumd l -> seqp c t l time acc = seqp c t l time acc'.
Proof.
  induction 1 as [|x r Hx Hr IH]; intros time acc acc' H0 H1; cbn [seqp sumd] in *; [lra|]. cbv zeta.
  pose proof (sumd_nonneg r Hr) as Hnn.
  destruct (negb (Qltb t time) && Qltb t (time + duration x)) eqn:E; [reflexivity|].
  apply IH.
  - apply andb_false_iff in E as [E|E].
    + unfold Qltb in E. rewrite negb_involutive in E. assert (~ time <= t) by (rewrite <- Qle_bool_iff; congruence). lra.
    + unfold Qltb in E. apply negb_false_iff in E. apply Qle_bool_iff in E. exact E.
  - lra.
Qed.

(* a nested sequence, inlined *)
Lemma seqp_nested c t s time acc : Forall (fun x => 0 <= duration x) s ->
  oQeq (seqp c t s time acc)
       (if negb (Qltb t time) && Qltb t (time + sumd s) then sample (WSeq s) c (t - time) else acc).
Proof.
  intros Hs. destruct (negb (Qltb t time) && Qltb t (time + sumd s)) eqn:E.
  - apply andb_prop in E as [E1 E2]. unfold Qltb in E1, E2. rewrite negb_involutive in E1. apply Qle_bool_iff in E1.
    apply negb_true_iff in E2. assert (E3 : t < time + sumd s).
    { destruct (Qlt_le_dec t (time + sumd s)); auto. apply Qle_bool_iff in q. congruence. }
    rewrite sample_seq. rewrite (seqp_inside c t s Hs time acc None E1 E3).
    apply (seqp_shift c t time s time 0 None None); [lra|exact I].
  - rewrite seqp_outside; [apply oQeq_refl|exact Hs|].
    apply andb_false_iff in E as [E|E].
    + left. unfold Qltb in E. rewrite negb_involutive in E.
      destruct (Qlt_le_dec t time); auto. apply Qle_bool_iff in q. congruence.
    + right. unfold Qltb in E. apply negb_false_iff in E. apply Qle_bool_iff in E. exact E.
Qed.

Definition flatseq (l : list wf) : list wf := flat_map (fun w => match is_seq w with Some s => s | None => [w] end) l.
(* parts of nested sequences have non-negative durations *)
Definition nested_ok (x : wf) : Prop := match is_seq x with Some s => Forall (fun y => 0 <= duration y) s | None => True end.

Lemma seqp_flat c t l : Forall nested_ok l -> forall T U acc acc', T == U -> oQeq acc acc' ->
  oQeq (seqp c t (flatseq l) T acc) (seqp c t l U acc').
Proof.
  induction 1 as [|x r Hx _ IH]; intros T U acc acc' HT Ha; [exact Ha|].
  unfold flatseq. cbn [flat_map]. fold (flatseq r). rewrite seqp_app.
  destruct (is_seq x) as [s|] eqn:Es.
  - destruct x; try discriminate. cbn [is_seq] in Es. injection Es as ->.
    unfold nested_ok in Hx. cbn [is_seq] in Hx.
    cbn [seqp]. cbv zeta. apply IH.
    + rewrite tadd_sumd, duration_seq. lra.
    + eapply oQeq_trans; [apply (seqp_nested c t s T acc Hx)|].
      rewrite duration_seq.
      rewrite (Qltb_compat t t T U) by lra. rewrite (Qltb_compat t t (T + sumd s) (U + sumd s)) by lra.
      destruct (negb (Qltb t U) && Qltb t (U + sumd s)); [|exact Ha].
      apply sample_proper. lra.
  - cbn [seqp tadd fold_left]. cbv zeta. apply IH; [lra|].
    rewrite (Qltb_compat t t T U) by lra. rewrite (Qltb_compat t t (T + duration x) (U + duration x)) by lra.
    destruct (negb (Qltb t U) && Qltb t (U + duration x)); [|exact Ha].
    apply sample_proper. lra.
Qed.

Theorem flatten_sound : forall l c t, Forall (fun x => okb x = true) l ->
  oQeq (sample (WSeq (flatseq l)) c t) (sample (WSeq l) c t).
Proof.
  intros l c t Hok. rewrite !sample_seq. apply seqp_flat; [|reflexivity|exact I].
  apply Forall_forall. intros x Hx. rewrite Forall_forall in Hok. specialize (Hok x Hx).
  unfold nested_ok. destruct x; cbn [is_seq]; auto.
  cbn [okb] in Hok. apply andb_prop in Hok as [_ Hall]. apply okb_all_Forall in Hall.
  eapply Forall_impl; [|exact Hall]. intros y Hy. cbn in Hy. apply Qlt_le_weak. apply okb_pos; exact Hy.
Qed.

(* from_sequence in general: constant folding or flattening, the result samples like SequenceWaveform(parts) *)
Theorem from_sequence_sound : forall l w', okb (WSeq l) = true -> from_sequence l = OK w' -> forall c t,
  inb c (channels (WSeq l)) = true -> 0 <= t -> t < duration (WSeq l) ->
  oQeq (sample w' c t) (sample (WSeq l) c t).
Proof.
  intros l w' Hok H c t Hc H0 H1.
  destruct (fold_left cvs_step l (match l with x :: _ => cvd x | [] => None end)) as [d|] eqn:Ef.
  - exact (from_sequence_const_sound l d w' Hok Ef H c t Hc H0 H1).
  - pose proof Hok as Hok'. cbn [okb] in Hok'. apply andb_prop in Hok' as [_ Hoks]. apply okb_all_Forall in Hoks.
    unfold from_sequence in H. destruct l as [|x [|y r]]; [discriminate| |].
    + injection H as <-. rewrite sample_seq. cbn [seqp]. cbv zeta.
      rewrite duration_seq in H1. cbn [sumd] in H1.
      assert (E : negb (Qltb t 0) && Qltb t (0 + duration x) = true).
      { apply andb_true_intro. split.
        - unfold Qltb. rewrite negb_involutive. apply Qle_bool_iff. exact H0.
        - unfold Qltb. apply negb_true_iff. destruct (Qle_bool (0 + duration x) t) eqn:G; auto.
          apply Qle_bool_iff in G. lra. }
      rewrite E. apply sample_proper. lra.
    + change (fold_left (fun acc w => match acc with
                                      | Some d => match cvd w with
                                                  | Some d' => if dict_eqb d d' then acc else None
                                                  | None => None end
                                      | None => None end) (x :: y :: r) (cvd x))
        with (fold_left cvs_step (x :: y :: r) (cvd x)) in H.
      rewrite Ef in H.
      change (flat_map (fun w => match is_seq w with Some s => s | None => [w] end) (x :: y :: r)) with (flatseq (x :: y :: r)) in H.
      unfold mk_seq in H. destruct (flatseq (x :: y :: r)) as [|f1 fr] eqn:Efl; [discriminate|].
      destruct (forallb (fun y0 => set_eqb (channels y0) (channels f1)) fr); [|discriminate]. injection H as <-.
      rewrite <- Efl. apply flatten_sound. exact Hoks.
Qed.

Example flatten_example :
  let a := WTable 1%N [mkE 0 1 Hold; mkE (1#2) 2 Linear] in
  let l := [a; WSeq [WConst (1#4) 5 1%N; a]; WConst (1#4) 7 1%N] in
  match from_sequence l with
  | OK w' => negb (wf_eqb w' (WSeq l)) && oQeqb (sample w' 1%N 1) (sample (WSeq l) 1%N 1) && oQeqb (sample w' 1%N 1) (Some (3#2))
  | _ => false
  end = true.
Proof. vm_compute. reflexivity. Qed.
