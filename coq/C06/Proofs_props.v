(* C06 — the property theorems assembled from the lemma files (pieces preserved AND duration preserved). *)
From Coq Require Import ZArith QArith List Bool Lia ZifyBool.
Require Import QV.C06.Model QV.C06.Spec QV.C06.Proofs_base QV.C06.Proofs_struct QV.C06.Proofs_term QV.C06.Proofs_wave QV.C06.Proofs_post.
Import ListNotations.
Open Scope Z_scope.

Lemma forallb_firstn {A} (f : A -> bool) l n : forallb f l = true -> forallb f (firstn n l) = true.
Proof.
  revert n; induction l as [|a l IH]; intros [|n] H; simpl in *; auto.
  apply andb_true_iff in H as [H1 H2]. rewrite H1, IH; auto.
Qed.

Lemma forallb_skipn {A} (f : A -> bool) l n : forallb f l = true -> forallb f (skipn n l) = true.
Proof.
  revert n; induction l as [|a l IH]; intros [|n] H; simpl in *; auto.
  apply andb_true_iff in H as [H1 H2]. auto.
Qed.

Lemma forallb_rep_list {A} (f : A -> bool) l n : forallb f l = true -> forallb f (rep_list n l) = true.
Proof. intros H. induction n; simpl; auto. rewrite forallb_app, H, IHn. reflexivity. Qed.

Lemma forallb_update_nth {A} (f : A -> bool) l k x : forallb f l = true -> f x = true -> forallb f (update_nth l k x) = true.
Proof.
  revert k; induction l as [|a l IH]; intros [|k] H Hx; simpl in *; auto.
  - apply andb_true_iff in H as [_ H]. rewrite Hx, H. reflexivity.
  - apply andb_true_iff in H as [H1 H2]. rewrite H1, IH; auto.
Qed.

Lemma forallb_nth_error {A} (f : A -> bool) l k x : forallb f l = true -> nth_error l k = Some x -> f x = true.
Proof.
  revert k; induction l as [|a l IH]; intros [|k] H Hn; simpl in *; try discriminate.
  - apply andb_true_iff in H as [H _]. congruence.
  - apply andb_true_iff in H as [_ H]. eauto.
Qed.

Lemma set_rep_ok c x : tree_okb c = true -> 0 <= x -> tree_okb (set_rep c x) = true.
Proof.
  destruct c as [r w m [|a ch]]; simpl; intros H Hx.
  - apply andb_true_iff in H as [_ H]. rewrite H, andb_true_r. lia.
  - apply andb_true_iff in H as [H H2]. apply andb_true_iff in H as [_ H1]. rewrite H1, H2, !andb_true_r. lia.
Qed.

Lemma unroll_child_ok p i p' : tree_okb p = true -> unroll_child p i = Ok p' -> tree_okb p' = true.
Proof.
  destruct p as [r w m ch]. intros Hok H. unfold unroll_child in H. cbn [t_ch set_ch] in H.
  destruct (nth_error ch i) as [c|] eqn:Hn; [|discriminate].
  destruct (is_leaf c); [discriminate|]. inversion H; subst p'; clear H.
  destruct (okb_inv _ _ _ _ Hok) as (Hr & Hch & Hw).
  assert (ch <> []) as Hne by (destruct ch; [destruct i; discriminate|congruence]).
  rewrite (Hw Hne). apply okb_intro_none; auto.
  rewrite !forallb_app. pose proof (forallb_skipn tree_okb ch (S i) Hch) as Hs. cbn [skipn] in Hs.
  rewrite (forallb_firstn _ _ i Hch), Hs, andb_true_r. simpl.
  unfold unrolled. apply forallb_rep_list.
  pose proof (forallb_nth_error _ _ _ _ Hch Hn) as Hc. destruct c as [cr cw cm cch].
  destruct (okb_inv _ _ _ _ Hc) as (_ & Hcc & _). exact Hcc.
Qed.

Lemma unroll_children_op_ok t t' : tree_okb t = true -> unroll_children_op t = Ok t' -> tree_okb t' = true.
Proof.
  destruct t as [r w m ch]. intros Hok H. unfold unroll_children_op, is_leaf in H. cbn [t_ch] in H.
  destruct ch as [|c ch]; [discriminate|]. inversion H; subst t'; clear H.
  destruct (okb_inv _ _ _ _ Hok) as (Hr & Hch & Hw). rewrite (Hw ltac:(discriminate)).
  apply okb_intro_none; [lia|]. apply forallb_rep_list; auto.
Qed.

Lemma split_one_child_ok t idx t' : tree_okb t = true -> split_one_child t idx = Ok t' -> tree_okb t' = true.
Proof.
  destruct t as [r w m ch]. intros Hok H. unfold split_one_child in H. cbn [t_ch set_ch] in H.
  destruct (okb_inv _ _ _ _ Hok) as (Hr & Hch & Hw).
  assert (forall k c, nth_error ch k = Some c -> 1 <= t_rep c ->
            tree_okb (Node r w m (firstn (S k) (update_nth ch k (set_rep c (t_rep c - 1))) ++ [set_rep c 1] ++
                                  skipn (S k) (update_nth ch k (set_rep c (t_rep c - 1))))) = true) as Hgen.
  { intros k c Hn Hc.
    assert (ch <> []) as Hne by (destruct ch; [destruct k; discriminate|congruence]).
    rewrite (Hw Hne). apply okb_intro_none; auto.
    pose proof (forallb_nth_error _ _ _ _ Hch Hn) as Hcok.
    assert (forallb tree_okb (update_nth ch k (set_rep c (t_rep c - 1))) = true) as Hu
        by (apply forallb_update_nth; auto; apply set_rep_ok; auto; lia).
    rewrite !forallb_app. pose proof (forallb_skipn tree_okb _ (S k) Hu) as Hs.
    rewrite (forallb_firstn _ _ (S k) Hu), Hs. simpl.
    rewrite set_rep_ok by (auto; lia). reflexivity. }
  destruct idx as [i|].
  - destruct (py_index (length ch) i) as [k|]; [|discriminate].
    destruct (nth_error ch k) as [c|] eqn:Hn; [|discriminate].
    destruct (t_rep c <? 2) eqn:Hr2; [discriminate|]. inversion H; subst t'. apply Hgen; auto. lia.
  - destruct (last_index_gt1 ch 0 None) as [k|] eqn:Hk; [|discriminate].
    destruct (nth_error ch k) as [c|] eqn:Hn; [|discriminate]. inversion H; subst t'.
    apply last_index_gt1_spec in Hk. destruct Hk as [Hk|(c' & Hn' & _ & Hr2)]; [discriminate|].
    rewrite Nat.sub_0_r, Hn in Hn'. inversion Hn'; subst c'. apply Hgen; auto. lia.
Qed.

(* ------------------------------------------------------------------------------------------------------------------ *)
(* assembled statements *)

Definition preserved (t t' : tree) : Prop := pieces t' = pieces t /\ (duration t' == duration t)%Q.

Lemma preserved_intro t t' : tree_okb t = true -> tree_okb t' = true -> pieces t' = pieces t -> preserved t t'.
Proof. intros H1 H2 H3. split; auto. apply pieces_eq_duration; auto. Qed.

Theorem unroll_preserves : forall p i p', tree_okb p = true -> unroll_child p i = Ok p' -> preserved p p'.
Proof. intros. apply preserved_intro; eauto using unroll_child_ok, unroll_child_pieces. Qed.

Theorem unroll_children_preserves : forall t t', tree_okb t = true -> unroll_children_op t = Ok t' ->
  preserved t t' /\ t_rep t' = 1.
Proof.
  intros t t' Hok H. split; [apply preserved_intro; eauto using unroll_children_op_ok, unroll_children_op_pieces|].
  unfold unroll_children_op in H. destruct (is_leaf t); [discriminate|]. inversion H. destruct t; reflexivity.
Qed.

Theorem encapsulate_preserves : forall t, tree_okb t = true ->
  preserved t (encapsulate t) /\ depth (encapsulate t) = depth t + 1.
Proof.
  intros t Hok. split.
  - apply preserved_intro; auto using encapsulate_pieces, encapsulate_ok.
  - rewrite depth_encapsulate. lia.
Qed.

Theorem split_one_child_preserves : forall t idx t', tree_okb t = true -> split_one_child t idx = Ok t' -> preserved t t'.
Proof. intros. apply preserved_intro; eauto using split_one_child_ok, split_one_child_pieces. Qed.

Theorem merge_single_child_preserves : forall t t', tree_okb t = true -> merge_single_child t = Ok t' -> preserved t t'.
Proof. intros. apply preserved_intro; eauto using merge_single_child_ok, merge_single_child_pieces. Qed.

Theorem cleanup_preserves : forall rm mg t t', tree_okb t = true -> cleanup rm mg t = Ok t' -> preserved t t'.
Proof. intros rm mg t t' Hok H. destruct (cleanup_pieces _ _ _ _ Hok H). apply preserved_intro; auto. Qed.

Theorem cleanup_postcondition : forall rm mg t t', cleanup rm mg t = Ok t' ->
  (rm = true -> no_empty_below t' = true) /\ (mg = true -> mergeable t' = false).
Proof.
  intros rm mg t t' H. split; intros ->; [eapply cleanup_post|eapply cleanup_not_mergeable]; eauto.
Qed.

(* flatten_and_balance: for EVERY fuel a returned result plays the same pulse and has the requested shape ... *)
Theorem flatten_preserves : forall fuel d t t', tree_okb t = true -> flatten_and_balance fuel d t = Ok t' ->
  preserved t t'
  /\ (1 <= d -> t_ch t' <> [] -> depth t' = d /\ balanced t' = true)
  /\ (d <= 0 -> forallb is_leaf (t_ch t') = true).
Proof.
  intros fuel d t t' Hok H. destruct (flatten_and_balance_pieces _ _ _ _ Hok H). split; [apply preserved_intro; auto|].
  split; intros; eauto using flatten_and_balance_post, flatten_and_balance_post0.
Qed.

(* ... and enough fuel always exists, on every tree (no well-formedness needed), with a proper result on valid trees *)
Theorem flatten_terminates : forall d t, exists n, forall k, flatten_and_balance (n + k) d t <> Err OutOfFuel.
Proof. exact flatten_and_balance_terminates. Qed.

Theorem flatten_total : forall d t, tree_okb t = true ->
  exists n, forall k, (exists t', flatten_and_balance (n + k) d t = Ok t') \/ flatten_and_balance (n + k) d t = Err EAssert.
Proof.
  intros d t Hok. destruct (flatten_and_balance_terminates d t) as [n Hn]. exists n. intros k.
  specialize (Hn k). destruct (flatten_and_balance (n + k) d t) as [t'|e] eqn:E; [left; eauto|right].
  unfold flatten_and_balance in E. destruct (fab_list (n + k) d (t_ch t)) as [cs|e'] eqn:E'; cbn [bind] in E; [discriminate|].
  inversion E; subst e'. f_equal.
  assert (forall f dd todo e0, fab_list f dd todo = Err e0 -> e0 = OutOfFuel \/ e0 = EAssert) as Herr.
  { induction f as [|f IH]; intros dd todo e0 He; [inversion He; auto|].
    rewrite fab_list_S in He. destruct todo as [|sub rest]; [discriminate|].
    destruct (depth sub <? dd - 1); [eauto|].
    destruct (negb (balanced sub)).
    { destruct (fab_list f (dd - 1) (t_ch sub)) eqn:E1; cbn [bind] in He; eauto. inversion He; subst; eauto. }
    destruct (depth sub =? dd - 1).
    { destruct (fab_list f dd rest) eqn:E1; cbn [bind] in He; [discriminate|]. inversion He; subst; eauto. }
    destruct (mergeable sub).
    { destruct (merge_single_child sub) eqn:E1; cbn [bind] in He; eauto.
      inversion He; subst. right. eapply merge_err_assert; eauto. }
    destruct (negb (is_leaf sub)); [eauto|].
    destruct (fab_list f dd rest) eqn:E1; cbn [bind] in He; [discriminate|]. inversion He; subst; eauto. }
  destruct (Herr _ _ _ _ E') as [He0 | He0]; subst; [congruence|reflexivity].
Qed.

(* ------------------------------------------------------------------------------------------------------------------ *)
(* the waveform-merging rewrites: same voltage function on [0, duration) *)

Theorem oracle_sound : forall a b, Forall (fun p => (0 <= pdur p)%Q) a -> Forall (fun p => (0 <= pdur p)%Q) b ->
  pieces_equivb a b = true -> same_play a b.
Proof. intros. apply pequiv_sound, pieces_equivb_sound; auto. Qed.

Theorem to_waveform_preserves : forall t x, tree_ok1b t = true -> to_waveform t = Ok x ->
  same_play (wf_pieces x) (pieces t) /\ (wf_dur x == duration t)%Q.
Proof.
  intros t x Hok H. split; [apply pequiv_sound; eapply to_waveform_pequiv; eauto|eapply to_waveform_duration; eauto].
Qed.

Theorem make_compatible_preserves : forall min_len quantum sr t t', tree_ok1b t = true ->
  make_compatible min_len quantum sr t = Ok t' ->
  same_play (pieces t') (pieces t) /\ (duration t' == duration t)%Q
  /\ ((0 < quantum)%Z -> (0 < sr)%Q -> leaves_ok min_len quantum sr t' = true).
Proof.
  intros ml q sr t t' Hok H. split; [apply pequiv_sound; eapply make_compatible_pequiv; eauto|].
  split; [eapply make_compatible_duration; eauto|]. intros Hq Hsr. exact (make_compatible_post ml q sr t t' Hq Hsr Hok H).
Qed.

Theorem roll_preserves : forall mq q sr t t', (0 < q)%Z -> (0 < sr)%Q -> tree_ok1b t = true ->
  roll_constant_waveforms mq q sr t = Ok t' -> same_play (pieces t') (pieces t) /\ (duration t' == duration t)%Q.
Proof.
  intros mq q sr t t' Hq Hsr Hok H.
  split; [apply pequiv_sound; exact (roll_pequiv mq q sr t t' Hq Hsr Hok H)|exact (roll_duration mq q sr t t' Hq Hsr Hok H)].
Qed.

(* ------------------------------------------------------------------------------------------------------------------ *)
(* the hypotheses are satisfiable on non-trivial inputs *)
Definition ex_leaf (i : N) (r : Z) : tree := Node r (Some (WAtom i 1)) [] [].
Definition ex_tree : tree :=
  Node 2 None [] [ex_leaf 1 1; Node 3 None [] [ex_leaf 2 1; Node 2 None [] [ex_leaf 3 2; ex_leaf 4 1]]].

Example ex_tree_ok : tree_okb ex_tree = true. Proof. reflexivity. Qed.
Example ex_flatten_nontrivial :
  exists t', flatten_and_balance 200 1 ex_tree = Ok t' /\ t' <> ex_tree /\ depth t' = 1 /\ length (t_ch t') = 16%nat.
Proof. eexists. split; [vm_compute; reflexivity|]. split; [discriminate|]. split; reflexivity. Qed.
Example ex_flatten_deepen :
  exists t', flatten_and_balance 200 4 ex_tree = Ok t' /\ t' <> ex_tree /\ depth t' = 4 /\ balanced t' = true.
Proof. eexists. split; [vm_compute; reflexivity|]. split; [discriminate|]. split; reflexivity. Qed.
Example ex_split : exists t', split_one_child ex_tree None = Ok t' /\ t' <> ex_tree.
Proof. eexists. split; [vm_compute; reflexivity|discriminate]. Qed.
Example ex_unroll : exists t', unroll_child ex_tree 1 = Ok t' /\ t' <> ex_tree.
Proof. eexists. split; [vm_compute; reflexivity|discriminate]. Qed.

Definition ex_c (d : Q) (r : Z) : tree := Node r (Some (WConst d [(0%N, 1%Q)])) [] [].
Definition ex_tree1 : tree := Node 2 None [] [ex_c 3 2; ex_leaf 5 2; ex_c 96 1].
Example ex_tree1_ok : tree_ok1b ex_tree1 = true. Proof. reflexivity. Qed.
Example ex_make_compatible : exists t', make_compatible 4 4 1 ex_tree1 = Ok t' /\ t' <> ex_tree1 /\ is_leaf t' = true.
Proof. eexists. split; [vm_compute; reflexivity|]. split; [discriminate|reflexivity]. Qed.
Example ex_roll : exists t', roll_constant_waveforms 2 16 1 ex_tree1 = Ok t' /\ t' <> ex_tree1.
Proof. eexists. split; [vm_compute; reflexivity|discriminate]. Qed.
Example ex_to_waveform : exists x, to_waveform ex_tree1 = Ok x /\ wf_dur x == 208.
Proof. eexists. split; [vm_compute; reflexivity|reflexivity]. Qed.
