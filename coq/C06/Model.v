(* C06 — operational model of the hardware-preparation rewrites of qupulse/program/loop.py (definitions only).

   A program is the pure tree [Node rep w meas children] (qupulse.program.loop.Loop without the bookkeeping fields of
   qupulse.utils.tree.Node: parent / parent_index / cached body duration belong to C09's heap model).  A leaf waveform
   is abstracted to what the rewrites can observe: an opaque non-constant waveform [WAtom id dur] (table, function,
   multi-channel with a non-constant part, reversed atom ...: [constant_value_dict() is None]), a waveform that is
   constant on all channels [WConst dur values], and the two composite classes that [to_waveform] builds
   ([SequenceWaveform], [RepetitionWaveform]).

   Errors of the code are explicit ([Err kind]); the while-loop of [flatten_and_balance] runs on explicit fuel. *)
From Coq Require Import ZArith QArith Qround List Bool.
Import ListNotations.
Open Scope Z_scope.

(* ------------------------------------------------------------------------------------------------------------------ *)
(* results *)

Inductive err :=
| ERuntime      (* RuntimeError: unroll of a leaf, split_one_child without candidate *)
| EValue        (* ValueError: make_compatible on an incompatible program, split of a child with count < 2, ... *)
| EAssert       (* AssertionError *)
| EZeroDiv      (* ZeroDivisionError *)
| EIndex        (* IndexError *)
| EDomain       (* outside the modelled domain: the code would fail with AttributeError/TypeError (leaf without
                   waveform where one is needed) or the parameter range is not modelled (min_quanta <= 0) *)
| OutOfFuel.    (* model only: the fuel given to flatten_and_balance did not suffice *)

Inductive result (A : Type) := Ok (a : A) | Err (e : err).
Arguments Ok {A} a.
Arguments Err {A} e.

Definition bind {A B} (r : result A) (f : A -> result B) : result B :=
  match r with Ok a => f a | Err e => Err e end.

(* ------------------------------------------------------------------------------------------------------------------ *)
(* waveforms as far as the rewrites observe them *)

Definition vals := list (N * Q).     (* constant_value_dict(): channel -> value, sorted by channel *)

Inductive wf : Type :=
| WAtom (id : N) (dur : Q)           (* constant_value_dict() is None; the voltage function is named by id *)
| WConst (dur : Q) (v : vals)        (* ConstantWaveform / MultiChannelWaveform of constants *)
| WSeq (l : list wf)                 (* SequenceWaveform *)
| WRep (body : wf) (n : Z).          (* RepetitionWaveform *)

Definition qsum (l : list Q) : Q := fold_right Qplus 0%Q l.

Fixpoint wf_dur (w : wf) : Q :=
  match w with
  | WAtom _ d => d
  | WConst d _ => d
  | WSeq l => qsum (map wf_dur l)
  | WRep b n => (wf_dur b * inject_Z n)%Q
  end.

(* Waveform.constant_value_dict *)
Fixpoint cvd (w : wf) : option vals :=
  match w with
  | WConst _ v => Some v
  | WRep b _ => cvd b
  | _ => None
  end.

Fixpoint vals_eqb (a b : vals) : bool :=
  match a, b with
  | [], [] => true
  | (c, x) :: a', (c', x') :: b' => N.eqb c c' && Qeq_bool x x' && vals_eqb a' b'
  | _, _ => false
  end.

(* SequenceWaveform.from_sequence *)
Definition seq_flatten (ws : list wf) : list wf :=
  flat_map (fun w => match w with WSeq l => l | _ => [w] end) ws.

Definition all_const_equal (v : vals) (ws : list wf) : bool :=
  forallb (fun w => match cvd w with Some v' => vals_eqb v v' | None => false end) ws.

Definition from_sequence (ws : list wf) : result wf :=
  match ws with
  | [] => Err EAssert
  | [w] => Ok w
  | w0 :: _ =>
      match cvd w0 with
      | Some v => if all_const_equal v ws
                  then Ok (WConst (Qred (qsum (map wf_dur (seq_flatten ws)))) v)
                  else Ok (WSeq (seq_flatten ws))
      | None => Ok (WSeq (seq_flatten ws))
      end
  end.

(* RepetitionWaveform.from_repetition_count *)
Definition from_repetition_count (b : wf) (n : Z) : result wf :=
  match cvd b with
  | None => if n <? 1 then Err EValue else Ok (WRep b n)
  | Some v => Ok (WConst (Qred (wf_dur b * inject_Z n)) v)
  end.

(* ------------------------------------------------------------------------------------------------------------------ *)
(* program trees *)

Inductive tree : Type := Node (rep : Z) (w : option wf) (meas : list N) (ch : list tree).

Definition t_rep (t : tree) := let 'Node r _ _ _ := t in r.
Definition t_wf (t : tree) := let 'Node _ w _ _ := t in w.
Definition t_meas (t : tree) := let 'Node _ _ m _ := t in m.
Definition t_ch (t : tree) := let 'Node _ _ _ c := t in c.
Definition set_ch (t : tree) (c : list tree) := let 'Node r w m _ := t in Node r w m c.

Definition is_leaf (t : tree) : bool := match t_ch t with [] => true | _ => false end.
Definition has_wf (t : tree) : bool := match t_wf t with Some _ => true | None => false end.
Definition has_meas (t : tree) : bool := match t_meas t with [] => false | _ => true end.

Definition zmax_list (l : list Z) : Z := fold_right Z.max 0 l.

(* Node.depth / Node.is_balanced *)
Fixpoint depth (t : tree) : Z :=
  match t with
  | Node _ _ _ [] => 0
  | Node _ _ _ ch => 1 + zmax_list (map depth ch)
  end.

Fixpoint balanced (t : tree) : bool :=
  match t with
  | Node _ _ _ [] => true
  | Node _ _ _ ((c0 :: _) as ch) => forallb (fun e => (depth e =? depth c0) && balanced e) ch
  end.

(* Loop.duration = body_duration * repetition_count (computed afresh; the cache is C09's subject) *)
Fixpoint duration (t : tree) : Q :=
  match t with
  | Node rep w _ [] => ((match w with Some x => wf_dur x | None => 0 end) * inject_Z rep)%Q
  | Node rep _ _ ch => (qsum (map duration ch) * inject_Z rep)%Q
  end.

Definition body_duration (t : tree) : Q :=
  match t with
  | Node _ w _ [] => match w with Some x => wf_dur x | None => 0%Q end
  | Node _ _ _ ch => qsum (map duration ch)
  end.

(* n-fold concatenation; range(n) is empty for n <= 0 *)
Fixpoint rep_list {A} (n : nat) (l : list A) : list A :=
  match n with O => [] | S k => l ++ rep_list k l end.

(* ------------------------------------------------------------------------------------------------------------------ *)
(* meaning: the pieces a program plays, in order *)

Inductive piece := PAtom (id : N) (d : Q) | PConst (d : Q) (v : vals).

Definition pdur (p : piece) : Q := match p with PAtom _ d => d | PConst d _ => d end.

Fixpoint wf_pieces (w : wf) : list piece :=
  match w with
  | WAtom i d => [PAtom i d]
  | WConst d v => [PConst d v]
  | WSeq l => flat_map wf_pieces l
  | WRep b n => rep_list (Z.to_nat n) (wf_pieces b)
  end.

Fixpoint pieces (t : tree) : list piece :=
  match t with
  | Node rep w _ [] => rep_list (Z.to_nat rep) (match w with Some x => wf_pieces x | None => [] end)
  | Node rep _ _ ch => rep_list (Z.to_nat rep) (flat_map pieces ch)
  end.

Definition total (l : list piece) : Q := qsum (map pdur l).

(* what is played at time t (half-open pieces: a junction belongs to the later piece, DESIGN 4.4): which atom at which
   local time, or which constant values *)
Inductive sample := SAtom (id : N) (local : Q) | SConst (v : vals).

Fixpoint play_at (l : list piece) (t : Q) : option sample :=
  match l with
  | [] => None
  | p :: r => if Qlt_le_dec t (pdur p)
              then Some (match p with PAtom i _ => SAtom i t | PConst _ v => SConst v end)
              else play_at r (t - pdur p)%Q
  end.

(* executable normal form: adjacent constant pieces with equal values are coalesced *)
Fixpoint norm (l : list piece) : list piece :=
  match l with
  | [] => []
  | p :: r =>
      match p, norm r with
      | PConst d v, PConst d' v' :: r' => if vals_eqb v v' then PConst (Qred (d + d')) v :: r' else p :: PConst d' v' :: r'
      | _, nr => p :: nr
      end
  end.

Definition piece_eqb (a b : piece) : bool :=
  match a, b with
  | PAtom i d, PAtom j e => N.eqb i j && Qeq_bool d e
  | PConst d v, PConst e u => Qeq_bool d e && vals_eqb v u
  | _, _ => false
  end.

Fixpoint pieces_eqb (a b : list piece) : bool :=
  match a, b with
  | [], [] => true
  | x :: a', y :: b' => piece_eqb x y && pieces_eqb a' b'
  | _, _ => false
  end.

Definition pieces_equivb (a b : list piece) : bool := pieces_eqb (norm a) (norm b).

(* ------------------------------------------------------------------------------------------------------------------ *)
(* to_waveform *)

Fixpoint to_waveform (t : tree) : result wf :=
  match t with
  | Node rep w _ [] =>
      match w with
      | None => Err EDomain
      | Some x => if rep =? 1 then Ok x else from_repetition_count x rep
      end
  | Node rep _ _ ch =>
      bind ((fix go (l : list tree) : result (list wf) :=
               match l with
               | [] => Ok []
               | c :: r => bind (to_waveform c) (fun x => bind (go r) (fun xs => Ok (x :: xs)))
               end) ch)
           (fun ws => bind (from_sequence ws)     (* len 1: from_sequence returns the element, as the code's special case *)
                           (fun sw => if 1 <? rep then from_repetition_count sw rep else Ok sw))
  end.

(* ------------------------------------------------------------------------------------------------------------------ *)
(* the simple rewrites *)

(* Loop.unroll, seen from the parent [p] for its child at position [i] (the code uses self.parent_index; in the pure
   tree the position is the index — the refinement to the heap with recorded indices is C09's invariant) *)
Definition unrolled (c : tree) : list tree := rep_list (Z.to_nat (t_rep c)) (t_ch c).

Definition unroll_child (p : tree) (i : nat) : result tree :=
  match nth_error (t_ch p) i with
  | None => Err EIndex
  | Some c => if is_leaf c then Err ERuntime
              else Ok (set_ch p (firstn i (t_ch p) ++ unrolled c ++ skipn (S i) (t_ch p)))
  end.

(* Loop.unroll_children: a leaf raises RuntimeError (repaired in /repo deb6579; before, the count of a leaf was reset to
   1 and its waveform kept) *)
Definition unroll_children (t : tree) : tree :=
  let 'Node rep w m ch := t in Node 1 w m (rep_list (Z.to_nat rep) ch).

Definition unroll_children_op (t : tree) : result tree :=
  if is_leaf t then Err ERuntime else Ok (unroll_children t).

(* Loop.encapsulate *)
Definition encapsulate (t : tree) : tree :=
  let 'Node rep w m ch := t in Node 1 None [] [Node rep w m ch].

(* Loop.split_one_child (non-volatile counts). [idx = None]: the last child with count > 1. *)
Fixpoint last_index_gt1 (l : list tree) (i : nat) (acc : option nat) : option nat :=
  match l with
  | [] => acc
  | c :: r => last_index_gt1 r (S i) (if 1 <? t_rep c then Some i else acc)
  end.

Definition py_index (len : nat) (i : Z) : option nat :=      (* list.__getitem__ with an int *)
  if (0 <=? i) && (i <? Z.of_nat len) then Some (Z.to_nat i)
  else if (i <? 0) && (0 <=? i + Z.of_nat len) then Some (Z.to_nat (i + Z.of_nat len))
  else None.

Definition set_rep (t : tree) (r : Z) := let 'Node _ w m c := t in Node r w m c.

Fixpoint update_nth {A} (l : list A) (i : nat) (x : A) : list A :=
  match l, i with
  | [], _ => []
  | _ :: r, O => x :: r
  | a :: r, S k => a :: update_nth r k x
  end.

Definition split_one_child (t : tree) (idx : option Z) : result tree :=
  let ch := t_ch t in
  let n := length ch in
  match idx with
  | Some i =>
      match py_index n i with
      | None => Err EIndex
      | Some k =>
          match nth_error ch k with
          | None => Err EIndex
          | Some c =>
              if t_rep c <? 2 then Err EValue
              else
                (* a negative index is normalised first (repaired in /repo c1f4310), then
                   self[child_index].repetition_count -= 1 ; self[child_index+1:child_index+1] = (copy,) *)
                let ch1 := update_nth ch k (set_rep c (t_rep c - 1)) in
                Ok (set_ch t (firstn (S k) ch1 ++ [set_rep c 1] ++ skipn (S k) ch1))
          end
      end
  | None =>
      match last_index_gt1 ch 0 None with
      | None => Err ERuntime
      | Some k =>
          match nth_error ch k with
          | None => Err EIndex
          | Some c =>
              let ch1 := update_nth ch k (set_rep c (t_rep c - 1)) in
              Ok (set_ch t (firstn (S k) ch1 ++ [set_rep c 1] ++ skipn (S k) ch1))
          end
      end
  end.

(* Loop._has_single_child_that_can_be_merged / Loop._merge_single_child (non-volatile counts) *)
Definition mergeable (t : tree) : bool :=
  match t_ch t with
  | [c] => negb (has_meas t) || (t_rep c =? 1)
  | _ => false
  end.

Definition merge_single_child (t : tree) : result tree :=
  match t with
  | Node rep w m [Node crep cw cm cch] =>
      if has_meas t && negb (crep =? 1) then Err EAssert
      else match w with
           | Some _ => Err EAssert
           | None => Ok (Node (rep * crep) cw (cm ++ m) cch)
           end
  | _ => Err EAssert
  end.

(* Loop.cleanup(actions): rm = 'remove_empty_loops' in actions, mg = 'merge_single_child' in actions *)
Fixpoint cleanup (rm mg : bool) (t : tree) : result tree :=
  match t with
  | Node rep w m ch =>
      bind ((fix go (l : list tree) : result (list tree) :=
               match l with
               | [] => Ok []
               | c :: r =>
                   bind (if rm then
                           if is_leaf c then Ok (if has_wf c then [c] else [])
                           else bind (cleanup rm mg c)
                                     (fun c' => Ok (if has_wf c' || negb (is_leaf c') then [c'] else []))
                         else bind (cleanup rm mg c) (fun c' => Ok [c']))
                        (fun cs => bind (go r) (fun rs => Ok (cs ++ rs)))
               end) ch)
           (fun ch' => let t' := Node rep w m ch' in
                       if mg && mergeable t' then merge_single_child t' else Ok t')
  end.

(* ------------------------------------------------------------------------------------------------------------------ *)
(* Loop.flatten_and_balance.  [fab_list fuel d todo]: the while loop with the cursor at the head of [todo]; the
   children left of the cursor are final and are consed onto the result.  One unit of fuel per loop iteration. *)

Fixpoint fab_list (fuel : nat) (d : Z) (todo : list tree) : result (list tree) :=
  match fuel with
  | O => Err OutOfFuel
  | S f =>
      match todo with
      | [] => Ok []
      | sub :: rest =>
          if depth sub <? d - 1 then fab_list f d (encapsulate sub :: rest)
          else if negb (balanced sub) then
                 bind (fab_list f (d - 1) (t_ch sub)) (fun cs => fab_list f d (set_ch sub cs :: rest))
          else if depth sub =? d - 1 then bind (fab_list f d rest) (fun r => Ok (sub :: r))
          else if mergeable sub then bind (merge_single_child sub) (fun s => fab_list f d (s :: rest))
          else if negb (is_leaf sub) then fab_list f d (unrolled sub ++ rest)
          else bind (fab_list f d rest) (fun r => Ok (sub :: r))
      end
  end.

Definition flatten_and_balance (fuel : nat) (d : Z) (t : tree) : result tree :=
  bind (fab_list fuel d (t_ch t)) (fun cs => Ok (set_ch t cs)).

(* ------------------------------------------------------------------------------------------------------------------ *)
(* make_compatible *)

Inductive comp_level := Compatible | ActionRequired | IncompTooShort | IncompFraction | IncompQuantum.

Definition comp_level_eqb (a b : comp_level) : bool :=
  match a, b with
  | Compatible, Compatible | ActionRequired, ActionRequired | IncompTooShort, IncompTooShort
  | IncompFraction, IncompFraction | IncompQuantum, IncompQuantum => true
  | _, _ => false
  end.

Definition is_incompatible (l : comp_level) : bool :=
  match l with IncompTooShort | IncompFraction | IncompQuantum => true | _ => false end.

Definition q_is_int (x : Q) : bool := (Zpos (Qden (Qred x)) =? 1).
Definition q_int (x : Q) : Z := Qnum (Qred x).     (* meaningful when q_is_int x *)

(* _is_compatible; quantum = 0 raises ZeroDivisionError in `% quantum` *)
Fixpoint is_compatible (min_len quantum : Z) (sr : Q) (t : tree) : result comp_level :=
  let dur_samples := (duration t * sr)%Q in
  if negb (q_is_int dur_samples) then Ok IncompFraction
  else if Qle_bool (inject_Z min_len) dur_samples then
    if quantum =? 0 then Err EZeroDiv
    else if 0 <? (q_int dur_samples) mod quantum then Ok IncompQuantum
    else
      match t with
      | Node _ _ _ [] =>
          let wd := (body_duration t * sr)%Q in
          if negb (Qle_bool (inject_Z min_len) wd) || negb (q_is_int (wd / inject_Z quantum)) then Ok ActionRequired
          else Ok Compatible
      | Node _ _ _ ch =>
          (fix go (l : list tree) : result comp_level :=
             match l with
             | [] => Ok Compatible
             | c :: r => bind (is_compatible min_len quantum sr c)
                              (fun lv => if comp_level_eqb lv Compatible then go r else Ok ActionRequired)
             end) ch
      end
  else Ok IncompTooShort.

Fixpoint make_compatible_rec (min_len quantum : Z) (sr : Q) (t : tree) : result tree :=
  match t with
  | Node rep w m [] =>
      (* program.waveform = to_waveform(copy); program.repetition_count = 1 *)
      bind (to_waveform t) (fun x => Ok (Node 1 (Some x) m []))
  | Node rep w m ch =>
      bind ((fix levels (l : list tree) : result (list comp_level) :=
               match l with
               | [] => Ok []
               | c :: r => bind (is_compatible min_len quantum sr c)
                                (fun lv => bind (levels r) (fun ls => Ok (lv :: ls)))
               end) ch)
           (fun lvls =>
              if existsb is_incompatible lvls then
                if rep =? 0 then Err EZeroDiv
                else
                  let single_run := (duration t * sr / inject_Z rep)%Q in
                  let keep := q_is_int (single_run / inject_Z quantum) && Qle_bool (inject_Z min_len) single_run in
                  (* keep: repetition stays on the merged leaf; otherwise the repetition is unrolled into the waveform *)
                  bind (to_waveform (Node (if keep then 1 else rep) w m ch))
                       (fun x => Ok (Node (if keep then rep else 1) (Some x) m []))
              else
                bind ((fix go (l : list tree) (ls : list comp_level) : result (list tree) :=
                         match l, ls with
                         | c :: r, lv :: lr =>
                             bind (if comp_level_eqb lv ActionRequired then make_compatible_rec min_len quantum sr c else Ok c)
                                  (fun c' => bind (go r lr) (fun rs => Ok (c' :: rs)))
                         | _, _ => Ok []
                         end) ch lvls)
                     (fun ch' => Ok (Node rep w m ch')))
  end.

Definition make_compatible (min_len quantum : Z) (sr : Q) (t : tree) : result tree :=
  bind (is_compatible min_len quantum sr t)
       (fun lv => match lv with
                  | IncompFraction | IncompTooShort | IncompQuantum => Err EValue
                  | ActionRequired => make_compatible_rec min_len quantum sr t
                  | Compatible => Ok t
                  end).

(* postcondition of make_compatible as a plain predicate over the leaves (independent of _is_compatible) *)
Definition leaf_ok (min_len quantum : Z) (sr : Q) (x : wf) : bool :=
  let s := (wf_dur x * sr)%Q in
  q_is_int s && (min_len <=? q_int s) && ((q_int s) mod quantum =? 0).

Fixpoint leaves_ok (min_len quantum : Z) (sr : Q) (t : tree) : bool :=
  match t with
  | Node _ w _ [] => match w with Some x => leaf_ok min_len quantum sr x | None => false end
  | Node _ _ _ ch => forallb (leaves_ok min_len quantum sr) ch
  end.

(* ------------------------------------------------------------------------------------------------------------------ *)
(* roll_constant_waveforms + smallest_factor_ge *)

(* smallest k with m <= k <= n and n mod k = 0 (both the brute-force prefix and the sympy fall-back of the code compute
   this); fuel = number of candidates *)
Fixpoint sfg_loop (fuel : nat) (n k : Z) : Z :=
  match fuel with
  | O => n
  | S f => if n mod k =? 0 then k else sfg_loop f n (k + 1)
  end.

Definition smallest_factor_ge (n m : Z) : result Z :=
  if m <=? 0 then Err EDomain      (* min_factor <= 0: probe range may contain 0; not modelled *)
  else if n <? m then Err EAssert
  else Ok (sfg_loop (Z.to_nat (n - m + 1)) n m).

Fixpoint roll_constant_waveforms (min_quanta quantum : Z) (sr : Q) (t : tree) : result tree :=
  match t with
  | Node rep (Some x) _ [] =>
      if quantum =? 0 then Err EZeroDiv
      else
        (* waveform_quanta = duration * sample_rate / quantum must be a whole number (repaired in /repo 239f058; the
           code used floor division and changed the duration of waveforms that are not a multiple of the quantum) *)
        let wqq := (wf_dur x * sr / inject_Z quantum)%Q in
        if negb (q_is_int wqq) then Ok (Node rep (Some x) [] [])
        else
        let wq := q_int wqq in
        if wq <? min_quanta * 2 then Ok (Node rep (Some x) [] [])
        else match cvd x with
             | None => Ok (Node rep (Some x) [] [])
             | Some v =>
                 bind (smallest_factor_ge wq min_quanta)
                      (fun nq => if nq =? wq then Ok (Node rep (Some x) [] [])
                                 else Ok (Node (rep * (wq / nq))
                                               (Some (WConst (Qred (inject_Z quantum * inject_Z nq / sr)) v)) [] []))
             end
  | Node rep w _ ch =>
      (* no waveform, or a loop with children (only leaves are rolled; repaired in /repo 36dc22a) *)
      bind ((fix go (l : list tree) : result (list tree) :=
               match l with
               | [] => Ok []
               | c :: r => bind (roll_constant_waveforms min_quanta quantum sr c)
                                (fun c' => bind (go r) (fun rs => Ok (c' :: rs)))
               end) ch)
           (fun ch' => Ok (Node rep w [] ch'))
  end.

(* ------------------------------------------------------------------------------------------------------------------ *)
(* executable well-formedness (hypotheses of the theorems; checked on every generated input by the correspondence) *)

Fixpoint wf_okb (x : wf) : bool :=
  match x with
  | WAtom _ d => negb (Qle_bool d 0)
  | WConst d _ => negb (Qle_bool d 0)
  | WSeq l => forallb wf_okb l
  | WRep b n => wf_okb b && (0 <=? n)
  end.

(* valid program: counts >= 0, a leaf carries a waveform, an inner node carries none *)
Fixpoint tree_okb (t : tree) : bool :=
  match t with
  | Node rep w _ [] => (0 <=? rep) && match w with Some x => wf_okb x | None => true end
  | Node rep w _ ch => (0 <=? rep) && match w with Some _ => false | None => true end && forallb tree_okb ch
  end.
