(* C06 round 5 — totality of to_waveform / make_compatible / roll_constant_waveforms on valid programs. *)
From Coq Require Import ZArith QArith Qround List Bool Lia ZifyBool.
Require Import QV.C06.Model QV.C06.Spec QV.C06.Proofs_base QV.C06.Proofs_struct QV.C06.Proofs_wave.
Import ListNotations. Open Scope Z_scope.

(* ------------------------------------------------------------------------------------------------------------------ *)
(* to_waveform *)

Lemma frc_total b n : 1 <= n -> exists y, from_repetition_count b n = Ok y.
Proof.
  intros Hn. unfold from_repetition_count. destruct (cvd b); [eauto|].
  destruct (n <? 1) eqn:E; [lia|eauto].
Qed.

Lemma from_sequence_total ws : ws <> [] -> exists y, from_sequence ws = Ok y.
Proof.
  intros Hne. unfold from_sequence. destruct ws as [|w0 [|w1 r]]; [congruence|eauto|].
  destruct (cvd w0); [|eauto]. destruct (all_const_equal _ _); eauto.
Qed.

Theorem to_waveform_total : forall t, tree_ok1b t = true -> exists x, to_waveform t = Ok x.
Proof.
  induction t as [rep w m ch IH] using tree_ind'. intros Hok.
  destruct (ok1b_inv _ _ _ _ Hok) as (Hr & Hch & Hleaf & Hw).
  destruct ch as [|c ch].
  - destruct (Hleaf eq_refl) as (x & -> & Hx). cbn [to_waveform].
    destruct (rep =? 1); [eauto|apply frc_total; auto].
  - rewrite to_waveform_inner. remember (c :: ch) as l eqn:El.
    assert (l <> []) as Hne by (subst l; discriminate). clear El Hleaf Hw Hok c ch.
    assert (exists ws, tw_go l = Ok ws /\ length ws = length l) as (ws & Hws & Hlen).
    { induction IH as [|a l Ha _ IHl]; [exists []; split; reflexivity|].
      cbn [forallb] in Hch. apply andb_true_iff in Hch. destruct Hch as [H1 H2].
      destruct (Ha H1) as (xa & Hxa).
      assert (exists ws, tw_go l = Ok ws /\ length ws = length l) as (xs & Hxs & Hl).
      { destruct l as [|b l']; [exists []; split; reflexivity|]. apply IHl; auto. discriminate. }
      exists (xa :: xs). rewrite tw_go_cons, Hxa. cbn [bind]. rewrite Hxs. cbn [bind length]. split; [reflexivity|lia]. }
    rewrite Hws. cbn [bind].
    destruct (from_sequence_total ws) as (sw & Hsw).
    { destruct ws; [destruct l; [congruence|discriminate]|discriminate]. }
    rewrite Hsw. cbn [bind]. destruct (1 <? rep); [apply frc_total; auto|eauto].
Qed.

(* ------------------------------------------------------------------------------------------------------------------ *)
(* is_compatible never fails for a positive quantum; at the root it is incompatible exactly when [root_incompatible] *)

Definition root_incompatible (ml q : Z) (sr : Q) (t : tree) : bool :=
  let s := (duration t * sr)%Q in negb (q_is_int s) || negb (Qle_bool (inject_Z ml) s) || negb (q_int s mod q =? 0).

Lemma ic_root ml q sr : 0 < q -> forall t,
  exists lv, is_compatible ml q sr t = Ok lv /\ is_incompatible lv = root_incompatible ml q sr t.
Proof.
  intros Hq. induction t as [rep w m ch IH] using tree_ind'.
  rewrite is_compatible_eq. unfold root_incompatible. cbv zeta.
  destruct (q_is_int (duration (Node rep w m ch) * sr)); cbn [negb orb]; [|eexists; split; reflexivity].
  destruct (Qle_bool (inject_Z ml) (duration (Node rep w m ch) * sr)); cbn [negb orb]; [|eexists; split; reflexivity].
  destruct (q =? 0) eqn:E0; [lia|].
  pose proof (Z.mod_pos_bound (q_int (duration (Node rep w m ch) * sr)) q Hq) as Hm.
  destruct (0 <? q_int (duration (Node rep w m ch) * sr) mod q) eqn:Em.
  - eexists; split; [reflexivity|]. cbn [is_incompatible]. symmetry. apply negb_true_iff. lia.
  - assert (negb (q_int (duration (Node rep w m ch) * sr) mod q =? 0) = false) as -> by (apply negb_false_iff; lia).
    destruct (is_leaf (Node rep w m ch)).
    + destruct (_ || _); eexists; split; reflexivity.
    + cbn [t_ch].
      assert (exists lv, ic_go ml q sr ch = Ok lv /\ (lv = Compatible \/ lv = ActionRequired)) as (lv & Hlv & Hr).
      { clear Em Hm. induction IH as [|a l Ha _ IHl]; [exists Compatible; split; auto|].
        rewrite ic_go_cons. destruct Ha as (la & Hla & _). rewrite Hla. cbn [bind].
        destruct (comp_level_eqb la Compatible); [exact IHl|]. exists ActionRequired. split; auto. }
      exists lv. split; auto. destruct Hr as [-> | ->]; reflexivity.
Qed.

Lemma is_compatible_total ml q sr t : 0 < q -> exists lv, is_compatible ml q sr t = Ok lv.
Proof. intros Hq. destruct (ic_root ml q sr Hq t) as (lv & H & _). eauto. Qed.

Lemma mc_levels_total ml q sr l : 0 < q -> exists lvls, mc_levels ml q sr l = Ok lvls.
Proof.
  intros Hq. induction l as [|c l IH]; [exists []; reflexivity|].
  destruct (is_compatible_total ml q sr c Hq) as (lv & Hlv). destruct IH as (ls & Hls).
  exists (lv :: ls). rewrite mc_levels_cons, Hlv. cbn [bind]. rewrite Hls. reflexivity.
Qed.

(* ------------------------------------------------------------------------------------------------------------------ *)
(* make_compatible *)

Lemma mcr_total ml q sr : 0 < q -> forall t, tree_ok1b t = true -> exists t', make_compatible_rec ml q sr t = Ok t'.
Proof.
  intros Hq. induction t as [rep w m ch IH] using tree_ind'. intros Hok.
  destruct (ok1b_inv _ _ _ _ Hok) as (Hr & Hch & Hleaf & Hw).
  destruct ch as [|c ch].
  - rewrite mcr_leaf. destruct (to_waveform_total _ Hok) as (x & Hx). rewrite Hx. cbn [bind]. eauto.
  - rewrite mcr_inner. rewrite (Hw ltac:(discriminate)) in *. remember (c :: ch) as l eqn:El.
    assert (l <> []) as Hne by (subst l; discriminate). clear El Hleaf Hw c ch.
    destruct (mc_levels_total ml q sr l Hq) as (lvls & Hlv). rewrite Hlv. cbn [bind]. cbv zeta.
    destruct (existsb is_incompatible lvls).
    + destruct (rep =? 0) eqn:E0; [lia|].
      destruct (q_is_int _ && Qle_bool _ _).
      * destruct (to_waveform_total (Node 1 None m l)) as (x & Hx); [apply ok1b_intro_none; auto; lia|].
        rewrite Hx. cbn [bind]. eauto.
      * destruct (to_waveform_total (Node rep None m l) Hok) as (x & Hx). rewrite Hx. cbn [bind]. eauto.
    + assert (forall ls, exists l', mc_go ml q sr l ls = Ok l') as Hgo.
      { clear Hlv lvls Hne Hok. induction IH as [|a l Ha _ IHl]; intros ls.
        - exists []. destruct ls; reflexivity.
        - destruct ls as [|lv lr]; [exists []; reflexivity|]. rewrite mc_go_cons.
          cbn [forallb] in Hch. apply andb_true_iff in Hch. destruct Hch as [H1 H2].
          assert (exists a', (if comp_level_eqb lv ActionRequired then make_compatible_rec ml q sr a else Ok a) = Ok a')
            as (a' & Ha').
          { destruct (comp_level_eqb lv ActionRequired); [apply Ha; auto|eauto]. }
          rewrite Ha'. cbn [bind]. destruct (IHl H2 lr) as (rs & Hrs). rewrite Hrs. cbn [bind]. eauto. }
      destruct (Hgo lvls) as (l' & Hl'). rewrite Hl'. cbn [bind]. eauto.
Qed.

Theorem make_compatible_total : forall ml q sr t, tree_ok1b t = true -> 0 < q ->
  (exists t', make_compatible ml q sr t = Ok t' /\ root_incompatible ml q sr t = false) \/
  (make_compatible ml q sr t = Err EValue /\ root_incompatible ml q sr t = true).
Proof.
  intros ml q sr t Hok Hq. unfold make_compatible.
  destruct (ic_root ml q sr Hq t) as (lv & Hlv & Hinc). rewrite Hlv. cbn [bind]. rewrite <- Hinc.
  destruct lv; cbn [is_incompatible]; try (right; split; reflexivity).
  - left. exists t. split; reflexivity.
  - left. destruct (mcr_total ml q sr Hq t Hok) as (t' & Ht'). exists t'. split; [exact Ht'|reflexivity].
Qed.

(* ------------------------------------------------------------------------------------------------------------------ *)
(* roll_constant_waveforms *)

Lemma roll_none_leaf mq q sr rep m : roll_constant_waveforms mq q sr (Node rep None m []) = Ok (Node rep None [] []).
Proof. reflexivity. Qed.

Theorem roll_total : forall mq q sr t, tree_ok1b t = true -> 0 < q -> 1 <= mq ->
  exists t', roll_constant_waveforms mq q sr t = Ok t'.
Proof.
  intros mq q sr t Hok Hq Hmq. revert Hok. induction t as [rep w m ch IH] using tree_ind'. intros Hok.
  destruct (ok1b_inv _ _ _ _ Hok) as (Hr & Hch & Hleaf & Hw).
  destruct ch as [|c ch].
  - destruct (Hleaf eq_refl) as (x & -> & Hx). rewrite roll_some. cbv zeta.
    destruct (q =? 0) eqn:E0; [lia|]. destruct (negb (q_is_int _)); [eauto|].
    destruct (_ <? _) eqn:Ewq; [eauto|]. destruct (cvd x); [|eauto].
    unfold smallest_factor_ge. destruct (mq <=? 0) eqn:E1; [lia|].
    destruct (_ <? mq) eqn:E2; [lia|]. cbn [bind]. destruct (sfg_loop _ _ _ =? _); eexists; reflexivity.
  - rewrite roll_inner.
    assert (exists l', roll_go mq q sr (c :: ch) = Ok l') as (l' & Hl').
    { clear Hleaf Hw Hok. remember (c :: ch) as l eqn:El. clear El c ch.
      induction IH as [|a l Ha _ IHl]; [exists []; reflexivity|].
      cbn [forallb] in Hch. apply andb_true_iff in Hch. destruct Hch as [H1 H2].
      destruct (Ha H1) as (a' & Ha'). destruct (IHl H2) as (rs & Hrs).
      rewrite roll_go_cons, Ha'. cbn [bind]. rewrite Hrs. cbn [bind]. eauto. }
    rewrite Hl'. cbn [bind]. eauto.
Qed.
