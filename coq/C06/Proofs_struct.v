(* C06 — structural lemmas: every simple rewrite preserves [pieces]; postcondition of flatten_and_balance; durations. *)
From Coq Require Import ZArith QArith List Bool Lia ZifyBool.
Require Import QV.C06.Model QV.C06.Spec QV.C06.Proofs_base.
Import ListNotations.
Open Scope Z_scope.

(* ------------------------------------------------------------------------------------------------------------------ *)
(* helpers *)

Lemma okb_inv rep w m ch : tree_okb (Node rep w m ch) = true ->
  0 <= rep /\ forallb tree_okb ch = true /\ (ch <> [] -> w = None).
Proof.
  destruct ch as [|c ch]; simpl; intros H.
  - apply andb_true_iff in H. destruct H as [H _]. repeat split; try lia; auto. congruence.
  - destruct w; rewrite ?andb_false_r in H; simpl in H; try discriminate.
    rewrite andb_true_r in H. apply andb_true_iff in H. destruct H as [H1 H2].
    repeat split; try lia; auto.
Qed.

Lemma okb_intro_none rep m ch : 0 <= rep -> forallb tree_okb ch = true -> tree_okb (Node rep None m ch) = true.
Proof.
  intros H1 H2. destruct ch as [|c ch]; simpl.
  - rewrite andb_true_r. lia.
  - simpl in H2. rewrite H2, andb_true_r, andb_true_r. lia.
Qed.

Lemma pieces_node_none rep m ch : pieces (Node rep None m ch) = rep_list (Z.to_nat rep) (flat_map pieces ch).
Proof. destruct ch; reflexivity. Qed.

Lemma pieces_node_inner rep w m ch : ch <> [] -> pieces (Node rep w m ch) = rep_list (Z.to_nat rep) (flat_map pieces ch).
Proof. destruct ch; [congruence|reflexivity]. Qed.

Lemma pieces_flat t : (t_ch t <> [] \/ t_wf t = None) ->
  pieces t = rep_list (Z.to_nat (t_rep t)) (flat_map pieces (t_ch t)).
Proof.
  destruct t as [r w m ch]; cbn [t_ch t_wf t_rep]; intros [H|H].
  - apply pieces_node_inner; auto.
  - subst. apply pieces_node_none.
Qed.

Lemma nth_error_split_fs {A} (l : list A) i c : nth_error l i = Some c -> l = firstn i l ++ c :: skipn (S i) l.
Proof.
  revert i; induction l as [|a l IH]; intros [|i] H; simpl in *; try discriminate.
  - congruence.
  - f_equal. apply IH; auto.
Qed.

Lemma unrolled_pieces c : is_leaf c = false -> flat_map pieces (unrolled c) = pieces c.
Proof.
  intros H. unfold unrolled. rewrite flat_map_rep_list. symmetry. apply pieces_flat.
  left. unfold is_leaf in H. destruct (t_ch c); congruence.
Qed.

(* ------------------------------------------------------------------------------------------------------------------ *)
(* 1. encapsulate *)

Lemma encapsulate_pieces : forall t, pieces (encapsulate t) = pieces t.
Proof.
  intros [r w m ch]. unfold encapsulate. rewrite pieces_node_none.
  cbn [flat_map Z.to_nat Pos.to_nat Pos.iter_op rep_list]. simpl rep_list. rewrite !app_nil_r. reflexivity.
Qed.

Lemma encapsulate_ok t : tree_okb t = true -> tree_okb (encapsulate t) = true.
Proof.
  intros H. destruct t as [r w m ch]. unfold encapsulate. apply okb_intro_none; [lia|].
  cbn [forallb]. rewrite H. reflexivity.
Qed.

(* ------------------------------------------------------------------------------------------------------------------ *)
(* 2. unroll_child *)

Lemma unroll_child_pieces : forall p i p', tree_okb p = true -> unroll_child p i = Ok p' -> pieces p' = pieces p.
Proof.
  intros [r w m ch] i p' Hok H. unfold unroll_child in H. cbn [t_ch set_ch] in H.
  destruct (nth_error ch i) as [c|] eqn:Hn; [|discriminate].
  destruct (is_leaf c) eqn:Hl; [discriminate|]. inversion H; subst p'; clear H.
  destruct (okb_inv _ _ _ _ Hok) as (_ & _ & Hw).
  assert (ch <> []) as Hne by (destruct ch; [destruct i; discriminate|congruence]).
  rewrite (Hw Hne). rewrite !pieces_node_none. f_equal.
  rewrite (nth_error_split_fs ch i c Hn) at 3.
  rewrite !flat_map_app. cbn [flat_map]. rewrite unrolled_pieces by auto. reflexivity.
Qed.

(* ------------------------------------------------------------------------------------------------------------------ *)
(* 3. unroll_children *)

Lemma unroll_children_pieces : forall t, tree_okb t = true -> is_leaf t = false ->
  pieces (unroll_children t) = pieces t.
Proof.
  intros [r w m ch] Hok Hl. unfold is_leaf in Hl. cbn [t_ch] in Hl.
  destruct (okb_inv _ _ _ _ Hok) as (_ & _ & Hw).
  assert (ch <> []) as Hne by (destruct ch; congruence).
  rewrite (Hw Hne). unfold unroll_children. rewrite !pieces_node_none.
  rewrite flat_map_rep_list. simpl rep_list at 1. rewrite app_nil_r. reflexivity.
Qed.

Lemma unroll_children_op_pieces : forall t t', tree_okb t = true -> unroll_children_op t = Ok t' -> pieces t' = pieces t.
Proof.
  intros t t' Hok H. unfold unroll_children_op in H. destruct (is_leaf t) eqn:E; [discriminate|].
  inversion H; subst. apply unroll_children_pieces; auto.
Qed.

(* ------------------------------------------------------------------------------------------------------------------ *)
(* 4. merge_single_child *)

Lemma merge_single_child_inv t t' : merge_single_child t = Ok t' ->
  exists rep m crep cw cm cch, t = Node rep None m [Node crep cw cm cch] /\ t' = Node (rep * crep) cw (cm ++ m) cch.
Proof.
  destruct t as [rep w m [|[crep cw cm cch] [|c2 ch]]]; cbn [merge_single_child]; try discriminate.
  destruct (_ && _); [discriminate|]. destruct w; [discriminate|]. intros H; inversion H; subst.
  repeat eexists.
Qed.

Lemma merge_single_child_pieces : forall t t', tree_okb t = true -> merge_single_child t = Ok t' -> pieces t' = pieces t.
Proof.
  intros t t' Hok H. destruct (merge_single_child_inv _ _ H) as (rep & m & crep & cw & cm & cch & -> & ->).
  destruct (okb_inv _ _ _ _ Hok) as (Hr & Hc & _). cbn [forallb] in Hc. rewrite andb_true_r in Hc.
  destruct (okb_inv _ _ _ _ Hc) as (Hcr & _ & _).
  rewrite pieces_node_none. cbn [flat_map]. rewrite app_nil_r.
  rewrite (pieces_body (Node crep cw cm cch)), (pieces_body (Node (rep * crep) cw (cm ++ m) cch)).
  cbn [t_rep]. rewrite Z2Nat.inj_mul, rep_list_mul by lia.
  destruct cch; reflexivity.
Qed.

Lemma merge_single_child_ok : forall t t', tree_okb t = true -> merge_single_child t = Ok t' -> tree_okb t' = true.
Proof.
  intros t t' Hok H. destruct (merge_single_child_inv _ _ H) as (rep & m & crep & cw & cm & cch & -> & ->).
  destruct (okb_inv _ _ _ _ Hok) as (Hr & Hc & _). cbn [forallb] in Hc. rewrite andb_true_r in Hc.
  destruct (okb_inv _ _ _ _ Hc) as (Hcr & _ & _).
  assert (0 <= rep * crep) by lia.
  destruct cch as [|c cch]; simpl in *.
  - apply andb_true_iff in Hc. destruct Hc as [_ Hc]. rewrite Hc, andb_true_r. lia.
  - apply andb_true_iff in Hc. destruct Hc as [Hc1 Hc]. rewrite Hc, andb_true_r.
    apply andb_true_iff in Hc1. destruct Hc1 as [_ Hc1]. rewrite Hc1, andb_true_r. lia.
Qed.

(* ------------------------------------------------------------------------------------------------------------------ *)
(* 5. split_one_child *)

Lemma body_pieces_set_rep c x : body_pieces (set_rep c x) = body_pieces c.
Proof. destruct c as [r w m [|a ch]]; reflexivity. Qed.

Lemma t_rep_set_rep c x : t_rep (set_rep c x) = x.
Proof. destruct c; reflexivity. Qed.

Lemma split_pieces_pair c : 1 <= t_rep c -> pieces (set_rep c (t_rep c - 1)) ++ pieces (set_rep c 1) = pieces c.
Proof.
  intros H. rewrite !pieces_body, !body_pieces_set_rep, !t_rep_set_rep, <- rep_list_add.
  f_equal. lia.
Qed.

Lemma split_list_pieces ch : forall k c, nth_error ch k = Some c -> 1 <= t_rep c ->
  let ch1 := update_nth ch k (set_rep c (t_rep c - 1)) in
  flat_map pieces (firstn (S k) ch1 ++ [set_rep c 1] ++ skipn (S k) ch1) = flat_map pieces ch.
Proof.
  induction ch as [|a ch IH]; intros [|k] c Hn Hr; simpl in Hn; try discriminate.
  - inversion Hn; subst a. cbn [update_nth firstn skipn app flat_map].
    rewrite ?app_nil_r, app_assoc, split_pieces_pair by auto. reflexivity.
  - specialize (IH k c Hn Hr). cbn zeta in IH |- *.
    cbn [update_nth]. change (firstn (S (S k)) (a :: ?l)) with (a :: firstn (S k) l).
    change (skipn (S (S k)) (a :: ?l)) with (skipn (S k) l).
    rewrite <- app_comm_cons. cbn [flat_map]. rewrite IH. reflexivity.
Qed.

Lemma last_index_gt1_spec l : forall i acc k, last_index_gt1 l i acc = Some k ->
  acc = Some k \/ exists c, nth_error l (k - i)%nat = Some c /\ (i <= k)%nat /\ 1 < t_rep c.
Proof.
  induction l as [|a l IH]; intros i acc k H; simpl in H; auto.
  apply IH in H. destruct H as [H|(c & Hn & Hi & Hr)].
  - destruct (1 <? t_rep a) eqn:E; auto. inversion H; subst k. right. exists a.
    rewrite Nat.sub_diag. simpl. repeat split; auto. lia.
  - right. exists c. replace (k - i)%nat with (S (k - S i)) by lia. simpl. repeat split; auto. lia.
Qed.

Lemma py_index_lt n i k : py_index n i = Some k -> (k < n)%nat.
Proof.
  unfold py_index. destruct ((0 <=? i) && (i <? Z.of_nat n)) eqn:E.
  - intros H; inversion H; lia.
  - destruct ((i <? 0) && (0 <=? i + Z.of_nat n)) eqn:E2; [|discriminate]. intros H; inversion H; lia.
Qed.

Lemma split_one_child_pieces : forall t idx t', tree_okb t = true ->
  split_one_child t idx = Ok t' -> pieces t' = pieces t.
Proof.
  intros [r w m ch] idx t' Hok H. unfold split_one_child in H. cbn [t_ch set_ch] in H.
  destruct (okb_inv _ _ _ _ Hok) as (_ & _ & Hw).
  destruct idx as [i|].
  - destruct (py_index (length ch) i) as [k|] eqn:Hpi; [|discriminate].
    destruct (nth_error ch k) as [c|] eqn:Hn; [|discriminate].
    destruct (t_rep c <? 2) eqn:Hr; [discriminate|]. inversion H; subst t'; clear H.
    assert (ch <> []) as Hne by (destruct ch; [destruct k; discriminate|congruence]).
    rewrite (Hw Hne), !pieces_node_none. f_equal.
    apply split_list_pieces; auto. lia.
  - destruct (last_index_gt1 ch 0 None) as [k|] eqn:Hk; [|discriminate].
    destruct (nth_error ch k) as [c|] eqn:Hn; [|discriminate]. inversion H; subst t'; clear H.
    apply last_index_gt1_spec in Hk. destruct Hk as [Hk|(c' & Hn' & _ & Hr)]; [discriminate|].
    rewrite Nat.sub_0_r, Hn in Hn'. inversion Hn'; subst c'.
    assert (ch <> []) as Hne by (destruct ch; [destruct k; discriminate|congruence]).
    rewrite (Hw Hne), !pieces_node_none. f_equal. apply split_list_pieces; auto. lia.
Qed.

(* ------------------------------------------------------------------------------------------------------------------ *)
(* 6. cleanup *)

Definition cleanup_step (rm mg : bool) (c : tree) : result (list tree) :=
  if rm then
    if is_leaf c then Ok (if has_wf c then [c] else [])
    else bind (cleanup rm mg c) (fun c' => Ok (if has_wf c' || negb (is_leaf c') then [c'] else []))
  else bind (cleanup rm mg c) (fun c' => Ok [c']).

Definition cleanup_go (rm mg : bool) : list tree -> result (list tree) :=
  fix go (l : list tree) : result (list tree) :=
    match l with
    | [] => Ok []
    | c :: r => bind (cleanup_step rm mg c) (fun cs => bind (go r) (fun rs => Ok (cs ++ rs)))
    end.

Lemma cleanup_go_cons rm mg c r :
  cleanup_go rm mg (c :: r) = bind (cleanup_step rm mg c) (fun cs => bind (cleanup_go rm mg r) (fun rs => Ok (cs ++ rs))).
Proof. reflexivity. Qed.

Lemma cleanup_eq rm mg rep w m ch :
  cleanup rm mg (Node rep w m ch) =
  bind (cleanup_go rm mg ch)
       (fun ch' => let t' := Node rep w m ch' in if mg && mergeable t' then merge_single_child t' else Ok t').
Proof. reflexivity. Qed.

Lemma empty_leaf_pieces c : is_leaf c = true -> has_wf c = false -> pieces c = [].
Proof.
  destruct c as [r w m [|a ch]]; unfold is_leaf, has_wf; cbn [t_ch t_wf]; try discriminate.
  destruct w; try discriminate. intros _ _. cbn [pieces]. apply rep_list_nil.
Qed.

Lemma cleanup_pieces : forall rm mg t t', tree_okb t = true -> cleanup rm mg t = Ok t' ->
  pieces t' = pieces t /\ tree_okb t' = true.
Proof.
  intros rm mg t. induction t as [rep w m ch IH] using tree_ind'. intros t' Hok H.
  rewrite cleanup_eq in H.
  destruct (okb_inv _ _ _ _ Hok) as (Hr & Hch & Hw).
  assert (forall ch', cleanup_go rm mg ch = Ok ch' ->
                      flat_map pieces ch' = flat_map pieces ch /\ forallb tree_okb ch' = true /\ (ch = [] -> ch' = []))
    as Hgo.
  { clear H Hw Hok. induction IH as [|c l Hc _ IHl]; intros ch' H.
    - inversion H. auto.
    - rewrite cleanup_go_cons in H. cbn [forallb] in Hch. apply andb_true_iff in Hch. destruct Hch as [Hcok Hlok].
      destruct (cleanup_step rm mg c) as [cs|] eqn:Hs; [|discriminate]. cbn [bind] in H.
      destruct (cleanup_go rm mg l) as [rs|] eqn:Hg; [|discriminate]. cbn [bind] in H.
      inversion H; subst ch'; clear H.
      destruct (IHl Hlok rs eq_refl) as (Hp & Ho & _).
      assert (flat_map pieces cs = pieces c /\ forallb tree_okb cs = true) as [Hp1 Ho1].
      { unfold cleanup_step in Hs. destruct rm.
        - destruct (is_leaf c) eqn:Hl.
          + inversion Hs; subst cs. destruct (has_wf c) eqn:Hh; cbn [flat_map forallb].
            * rewrite app_nil_r, Hcok. auto.
            * rewrite empty_leaf_pieces; auto.
          + destruct (cleanup true mg c) as [c'|] eqn:Hcl; [|discriminate]. cbn [bind] in Hs.
            destruct (Hc c' Hcok eq_refl) as [Hp' Ho']. inversion Hs; subst cs.
            destruct (has_wf c' || negb (is_leaf c')) eqn:E; cbn [flat_map forallb].
            * rewrite app_nil_r, Ho'. auto.
            * apply orb_false_iff in E. destruct E as [E1 E2]. apply negb_false_iff in E2.
              rewrite <- Hp', empty_leaf_pieces; auto.
        - destruct (cleanup false mg c) as [c'|] eqn:Hcl; [|discriminate]. cbn [bind] in Hs.
          destruct (Hc c' Hcok eq_refl) as [Hp' Ho']. inversion Hs; subst cs. cbn [flat_map forallb].
          rewrite app_nil_r, Ho'. auto. }
      rewrite flat_map_app, forallb_app, Hp1, Ho1, Hp, Ho. cbn [flat_map]. repeat split; auto. discriminate. }
  destruct (cleanup_go rm mg ch) as [ch'|] eqn:Hg; [|discriminate]. cbn [bind] in H. cbn zeta in H.
  destruct (Hgo ch' eq_refl) as (Hp & Ho & Hnil).
  assert (pieces (Node rep w m ch') = pieces (Node rep w m ch) /\ tree_okb (Node rep w m ch') = true) as [Hp2 Ho2].
  { destruct ch as [|c ch].
    - rewrite (Hnil eq_refl). auto.
    - rewrite (Hw ltac:(discriminate)), !pieces_node_none, Hp. split; auto. apply okb_intro_none; auto. }
  destruct (mg && mergeable (Node rep w m ch')).
  - rewrite <- Hp2. split; [eapply merge_single_child_pieces|eapply merge_single_child_ok]; eauto.
  - inversion H; subst t'. auto.
Qed.

(* ------------------------------------------------------------------------------------------------------------------ *)
(* 7. flatten_and_balance preserves the pieces *)

Lemma fab_list_S f d todo :
  fab_list (S f) d todo =
  match todo with
  | [] => Ok []
  | sub :: rest =>
      if depth sub <? d - 1 then fab_list f d (encapsulate sub :: rest)
      else if negb (balanced sub) then
             bind (fab_list f (d - 1) (t_ch sub)) (fun cs => fab_list f d (set_ch sub cs :: rest))
      else if depth sub =? d - 1 then bind (fab_list f d rest) (fun r => Ok (sub :: r))
      else if mergeable sub then bind (merge_single_child sub) (fun s => fab_list f d (s :: rest))
      else if negb (is_leaf sub) then fab_list f d (unrolled sub ++ rest)
      else bind (fab_list f d rest) (fun r => Ok (sub :: r))
  end.
Proof. reflexivity. Qed.

Lemma balanced_leaf t : is_leaf t = true -> balanced t = true.
Proof. destruct t as [r w m [|c ch]]; [reflexivity|discriminate]. Qed.

Lemma forallb_rep_list {A} (f : A -> bool) n l : forallb f l = true -> forallb f (rep_list n l) = true.
Proof. intros H. induction n; cbn [rep_list forallb]; auto. rewrite forallb_app, H, IHn. reflexivity. Qed.

Lemma okb_children t : tree_okb t = true -> forallb tree_okb (t_ch t) = true.
Proof. destruct t as [r w m ch]. intros H. apply okb_inv in H. tauto. Qed.

Lemma set_ch_pieces_ok sub cs : tree_okb sub = true -> is_leaf sub = false ->
  flat_map pieces cs = flat_map pieces (t_ch sub) -> forallb tree_okb cs = true ->
  pieces (set_ch sub cs) = pieces sub /\ tree_okb (set_ch sub cs) = true.
Proof.
  destruct sub as [r w m ch]. unfold is_leaf. cbn [t_ch set_ch]. intros Hok Hl Hp Ho.
  destruct (okb_inv _ _ _ _ Hok) as (Hr & _ & Hw).
  rewrite (Hw ltac:(destruct ch; congruence)), !pieces_node_none, Hp. split; auto. apply okb_intro_none; auto.
Qed.

Lemma fab_list_pieces : forall fuel d todo out, forallb tree_okb todo = true -> fab_list fuel d todo = Ok out ->
  flat_map pieces out = flat_map pieces todo /\ forallb tree_okb out = true.
Proof.
  induction fuel as [|f IH]; intros d todo out Hok H; [discriminate|].
  rewrite fab_list_S in H. destruct todo as [|sub rest]; [inversion H; auto|].
  cbn [forallb] in Hok. apply andb_true_iff in Hok. destruct Hok as [Hs Hrest].
  destruct (depth sub <? d - 1).
  { apply IH in H.
    - cbn [flat_map] in *. rewrite encapsulate_pieces in H. auto.
    - cbn [forallb]. rewrite encapsulate_ok, Hrest; auto. }
  destruct (negb (balanced sub)) eqn:Hb.
  { destruct (fab_list f (d - 1) (t_ch sub)) as [cs|] eqn:H1; [|discriminate]. cbn [bind] in H.
    apply IH in H1; [|apply okb_children; auto]. destruct H1 as [Hp Ho].
    assert (is_leaf sub = false) as Hl.
    { destruct (is_leaf sub) eqn:E; auto. rewrite balanced_leaf in Hb; auto; discriminate. }
    destruct (set_ch_pieces_ok sub cs Hs Hl Hp Ho) as [Hp' Ho'].
    apply IH in H.
    - cbn [flat_map] in *. rewrite Hp' in H. auto.
    - cbn [forallb]. rewrite Ho', Hrest. auto. }
  destruct (depth sub =? d - 1).
  { destruct (fab_list f d rest) as [r|] eqn:H1; [|discriminate]. cbn [bind] in H. inversion H; subst out.
    apply IH in H1; auto. destruct H1 as [Hp Ho]. cbn [flat_map forallb]. rewrite Hp, Ho, Hs. auto. }
  destruct (mergeable sub).
  { destruct (merge_single_child sub) as [s|] eqn:H1; [|discriminate]. cbn [bind] in H.
    apply IH in H.
    - cbn [flat_map] in *. rewrite (merge_single_child_pieces _ _ Hs H1) in H. auto.
    - cbn [forallb]. rewrite (merge_single_child_ok _ _ Hs H1), Hrest. auto. }
  destruct (negb (is_leaf sub)) eqn:Hl.
  { apply negb_true_iff in Hl. apply IH in H.
    - rewrite flat_map_app, unrolled_pieces in H; auto.
    - rewrite forallb_app, Hrest. unfold unrolled. rewrite forallb_rep_list; auto. apply okb_children; auto. }
  destruct (fab_list f d rest) as [r|] eqn:H1; [|discriminate]. cbn [bind] in H. inversion H; subst out.
  apply IH in H1; auto. destruct H1 as [Hp Ho]. cbn [flat_map forallb]. rewrite Hp, Ho, Hs. auto.
Qed.

Lemma flatten_and_balance_pieces : forall fuel d t t', tree_okb t = true -> flatten_and_balance fuel d t = Ok t' ->
  pieces t' = pieces t /\ tree_okb t' = true.
Proof.
  intros fuel d t t' Hok H. unfold flatten_and_balance in H.
  destruct (fab_list fuel d (t_ch t)) as [cs|] eqn:H1; [|discriminate]. cbn [bind] in H. inversion H; subst t'.
  destruct (is_leaf t) eqn:Hl.
  - destruct t as [r w m [|c ch]]; [|discriminate]. cbn [t_ch] in *.
    destruct fuel; [discriminate|]. rewrite fab_list_S in H1. inversion H1; subst cs. auto.
  - apply fab_list_pieces in H1; [|apply okb_children; auto]. destruct H1 as [Hp Ho].
    apply set_ch_pieces_ok; auto.
Qed.

(* ------------------------------------------------------------------------------------------------------------------ *)
(* 8. postcondition of flatten_and_balance *)

Lemma zmax_list_nonneg l : 0 <= zmax_list l.
Proof. induction l; cbn [zmax_list fold_right]; [lia|]. fold (zmax_list l). lia. Qed.

Lemma depth_cons r w m c ch : depth (Node r w m (c :: ch)) = 1 + zmax_list (map depth (c :: ch)).
Proof. reflexivity. Qed.

Lemma balanced_cons r w m c ch :
  balanced (Node r w m (c :: ch)) = forallb (fun e => (depth e =? depth c) && balanced e) (c :: ch).
Proof. reflexivity. Qed.

Lemma depth_nonneg t : 0 <= depth t.
Proof. destruct t as [r w m [|c ch]]; [cbn; lia|]. rewrite depth_cons. pose proof (zmax_list_nonneg (map depth (c :: ch))). lia. Qed.

Lemma depth_leaf t : is_leaf t = true -> depth t = 0.
Proof. destruct t as [r w m [|c ch]]; [reflexivity|discriminate]. Qed.

Lemma fab_list_post : forall fuel d todo out, fab_list fuel d todo = Ok out ->
  Forall (fun c => (balanced c = true /\ depth c = (d - 1)%Z) \/ (is_leaf c = true /\ (d - 1 < 0)%Z)) out.
Proof.
  induction fuel as [|f IH]; intros d todo out H; [discriminate|].
  rewrite fab_list_S in H. destruct todo as [|sub rest]; [inversion H; constructor|].
  destruct (depth sub <? d - 1) eqn:E1; [eapply IH; eauto|].
  destruct (negb (balanced sub)) eqn:Hb.
  { destruct (fab_list f (d - 1) (t_ch sub)) as [cs|]; [|discriminate]. cbn [bind] in H. eapply IH; eauto. }
  apply negb_false_iff in Hb.
  destruct (depth sub =? d - 1) eqn:E2.
  { destruct (fab_list f d rest) as [r|] eqn:H1; [|discriminate]. cbn [bind] in H. inversion H; subst out.
    constructor; [left; split; auto; lia|eapply IH; eauto]. }
  destruct (mergeable sub).
  { destruct (merge_single_child sub) as [s|]; [|discriminate]. cbn [bind] in H. eapply IH; eauto. }
  destruct (negb (is_leaf sub)) eqn:Hl; [eapply IH; eauto|].
  apply negb_false_iff in Hl.
  destruct (fab_list f d rest) as [r|] eqn:H1; [|discriminate]. cbn [bind] in H. inversion H; subst out.
  constructor; [|eapply IH; eauto]. right. split; auto. pose proof (depth_leaf _ Hl). lia.
Qed.

Lemma zmax_list_const l x : 0 <= x -> l <> [] -> Forall (fun y => y = x) l -> zmax_list l = x.
Proof.
  intros Hx Hne H. induction H as [|y l Hy Hl IHl]; [congruence|].
  cbn [zmax_list fold_right]. fold (zmax_list l). destruct l as [|z l].
  - cbn. lia.
  - rewrite IHl by discriminate. lia.
Qed.

Lemma flatten_and_balance_post : forall fuel d t t', (1 <= d)%Z -> flatten_and_balance fuel d t = Ok t' ->
  t_ch t' <> [] -> depth t' = d /\ balanced t' = true.
Proof.
  intros fuel d [r w m ch] t' Hd H Hne. unfold flatten_and_balance in H. cbn [t_ch set_ch] in H.
  destruct (fab_list fuel d ch) as [cs|] eqn:H1; [|discriminate]. cbn [bind] in H. inversion H; subst t'; clear H.
  cbn [t_ch] in Hne. apply fab_list_post in H1.
  assert (Forall (fun c => balanced c = true /\ depth c = d - 1) cs) as HF.
  { eapply Forall_impl; [|exact H1]. cbn beta. intros c [Hc|[_ Hc]]; [auto|lia]. }
  clear H1. destruct cs as [|c0 cs]; [congruence|]. split.
  - rewrite depth_cons. rewrite (zmax_list_const _ (d - 1)); [lia|lia|discriminate|].
    apply Forall_map. eapply Forall_impl; [|exact HF]. cbn beta. tauto.
  - rewrite balanced_cons. apply forallb_forall. intros e He.
    rewrite Forall_forall in HF. destruct (HF e He) as [Hb Hde]. destruct (HF c0 (or_introl eq_refl)) as [_ Hd0].
    rewrite Hb, andb_true_r. lia.
Qed.

Lemma flatten_and_balance_post0 : forall fuel d t t', (d <= 0)%Z -> flatten_and_balance fuel d t = Ok t' ->
  forallb is_leaf (t_ch t') = true.
Proof.
  intros fuel d [r w m ch] t' Hd H. unfold flatten_and_balance in H. cbn [t_ch set_ch] in H.
  destruct (fab_list fuel d ch) as [cs|] eqn:H1; [|discriminate]. cbn [bind] in H. inversion H; subst t'; clear H.
  cbn [t_ch]. apply fab_list_post in H1. apply forallb_forall. intros e He.
  rewrite Forall_forall in H1. destruct (H1 e He) as [[_ Hc]|[Hc _]]; auto.
  pose proof (depth_nonneg e). lia.
Qed.

(* ------------------------------------------------------------------------------------------------------------------ *)
(* 9. durations *)

Lemma qsum_cons x l : qsum (x :: l) = (x + qsum l)%Q.
Proof. reflexivity. Qed.

Lemma total_cons p l : total (p :: l) = (pdur p + total l)%Q.
Proof. reflexivity. Qed.

Lemma total_nil : total [] = 0%Q.
Proof. reflexivity. Qed.

Lemma total_app a b : (total (a ++ b) == total a + total b)%Q.
Proof.
  induction a as [|p a IH]; cbn [app].
  - rewrite total_nil. ring.
  - rewrite !total_cons, IH. ring.
Qed.

Lemma total_rep_list n l : (total (rep_list n l) == inject_Z (Z.of_nat n) * total l)%Q.
Proof.
  induction n as [|n IH]; cbn [rep_list].
  - rewrite total_nil. cbn [Z.of_nat]. ring.
  - rewrite total_app, IH, Nat2Z.inj_succ. unfold Z.succ. rewrite inject_Z_plus. ring.
Qed.

Lemma total_rep_list_Z n l : 0 <= n -> (total (rep_list (Z.to_nat n) l) == total l * inject_Z n)%Q.
Proof. intros H. rewrite total_rep_list, Z2Nat.id by auto. ring. Qed.

Lemma wf_dur_total : forall x, wf_okb x = true -> (wf_dur x == total (wf_pieces x))%Q.
Proof.
  induction x as [i d|d v|l IH|b n IH] using wf_ind'; intros Hok.
  - cbn [wf_dur wf_pieces]. rewrite total_cons, total_nil. cbn [pdur]. ring.
  - cbn [wf_dur wf_pieces]. rewrite total_cons, total_nil. cbn [pdur]. ring.
  - change (wf_dur (WSeq l)) with (qsum (map wf_dur l)).
    change (wf_pieces (WSeq l)) with (flat_map wf_pieces l).
    change (wf_okb (WSeq l)) with (forallb wf_okb l) in Hok.
    induction IH as [|c l Hc _ IHl]; cbn [map flat_map].
    + reflexivity.
    + cbn [forallb] in Hok. apply andb_true_iff in Hok. destruct Hok as [H1 H2].
      rewrite qsum_cons, total_app, (Hc H1), (IHl H2). reflexivity.
  - cbn [wf_dur wf_pieces]. cbn [wf_okb] in Hok. apply andb_true_iff in Hok. destruct Hok as [H1 H2].
    rewrite total_rep_list_Z by lia. rewrite (IH H1). reflexivity.
Qed.

Lemma duration_cons r w m c ch : duration (Node r w m (c :: ch)) = (qsum (map duration (c :: ch)) * inject_Z r)%Q.
Proof. reflexivity. Qed.

Lemma duration_total : forall t, tree_okb t = true -> (duration t == total (pieces t))%Q.
Proof.
  induction t as [rep w m ch IH] using tree_ind'. intros Hok.
  destruct (okb_inv _ _ _ _ Hok) as (Hr & Hch & _).
  assert (qsum (map duration ch) == total (flat_map pieces ch))%Q as Hsum.
  { clear Hok. induction IH as [|c l Hc _ IHl]; cbn [map flat_map].
    - reflexivity.
    - cbn [forallb] in Hch. apply andb_true_iff in Hch. destruct Hch as [H1 H2].
      rewrite qsum_cons, total_app, (Hc H1), (IHl H2). reflexivity. }
  destruct ch as [|c ch].
  - cbn [duration pieces]. rewrite total_rep_list_Z by auto.
    destruct w as [x|].
    + simpl in Hok. apply andb_true_iff in Hok. destruct Hok as [_ Hx]. rewrite (wf_dur_total x Hx). reflexivity.
    + rewrite total_nil. reflexivity.
  - rewrite duration_cons, pieces_node_inner by discriminate. rewrite total_rep_list_Z by auto.
    rewrite Hsum. reflexivity.
Qed.

Lemma pieces_eq_duration : forall t t', tree_okb t = true -> tree_okb t' = true -> pieces t' = pieces t ->
  (duration t' == duration t)%Q.
Proof. intros t t' H H' Hp. rewrite (duration_total t H), (duration_total t' H'), Hp. reflexivity. Qed.

(* ------------------------------------------------------------------------------------------------------------------ *)
(* 10. fuel monotonicity *)

Lemma fab_list_fuel_mono' : forall n d todo, fab_list n d todo <> Err OutOfFuel ->
  forall k, fab_list (n + k) d todo = fab_list n d todo.
Proof.
  induction n as [|f IH]; intros d todo H k; [exfalso; apply H; reflexivity|].
  change (S f + k)%nat with (S (f + k)). rewrite fab_list_S in H. rewrite !fab_list_S.
  destruct todo as [|sub rest]; [reflexivity|].
  destruct (depth sub <? d - 1); [apply IH; auto|].
  destruct (negb (balanced sub)).
  { destruct (fab_list f (d - 1) (t_ch sub)) as [cs|e] eqn:H1.
    - rewrite (IH (d - 1) (t_ch sub)), H1 by (rewrite H1; discriminate). cbn [bind] in *. apply IH; auto.
    - rewrite (IH (d - 1) (t_ch sub)), H1 by (rewrite H1; exact H). reflexivity. }
  destruct (depth sub =? d - 1).
  { destruct (fab_list f d rest) as [r|e] eqn:H1.
    - rewrite (IH d rest), H1 by (rewrite H1; discriminate). reflexivity.
    - rewrite (IH d rest), H1 by (rewrite H1; exact H). reflexivity. }
  destruct (mergeable sub).
  { destruct (merge_single_child sub) as [s|e]; cbn [bind] in *; [apply IH; auto|reflexivity]. }
  destruct (negb (is_leaf sub)); [apply IH; auto|].
  destruct (fab_list f d rest) as [r|e] eqn:H1.
  - rewrite (IH d rest), H1 by (rewrite H1; discriminate). reflexivity.
  - rewrite (IH d rest), H1 by (rewrite H1; exact H). reflexivity.
Qed.

Lemma fab_list_fuel_mono : forall n d todo r, fab_list n d todo = r -> r <> Err OutOfFuel ->
  forall k, fab_list (n + k) d todo = r.
Proof. intros n d todo r <- H k. apply fab_list_fuel_mono'; auto. Qed.

Lemma flatten_and_balance_fuel_mono : forall n d t t', flatten_and_balance n d t = Ok t' ->
  forall k, flatten_and_balance (n + k) d t = Ok t'.
Proof.
  intros n d t t' H k. unfold flatten_and_balance in *.
  destruct (fab_list n d (t_ch t)) as [cs|] eqn:H1; [|discriminate].
  rewrite (fab_list_fuel_mono _ _ _ _ H1) by discriminate. exact H.
Qed.
