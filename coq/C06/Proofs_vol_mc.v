(* C06 — make_compatible / roll_constant_waveforms on programs with volatile repetition counts (Model_vol.v, last
   section) against the plain rewrites of Model.v.
   A: the compatibility level does not look at volatility; make_compatible refines the plain one through [erase].
   B: what it preserves (current values), how many volatile counts survive, and that it follows the volatile parameters
      exactly when no volatile count is lost — while it can lose one WITHOUT a VolatileModificationWarning.
   C: roll_constant_waveforms commutes with every multiplicative valuation. *)
From Coq Require Import ZArith QArith List Bool Lia ZifyBool.
Require Import QV.C06.Model QV.C06.Spec QV.C06.Model_vol QV.C06.Proofs_base QV.C06.Proofs_struct QV.C06.Proofs_wave
               QV.C06.Proofs_props QV.C06.Proofs_vol.
Import ListNotations.
Open Scope Z_scope.

Lemma rmap_bind {A B C} (f : B -> C) (a : result A) (g : A -> result B) :
  rmap f (bind a g) = bind a (fun x => rmap f (g x)).
Proof. destruct a; reflexivity. Qed.

(* ------------------------------------------------------------------------------------------------------------------ *)
(* A. levels *)

Definition vic_go (ml q : Z) (sr : Q) (r : rep) : list vtree -> result (comp_level * bool) :=
  fix go (l : list vtree) : result (comp_level * bool) :=
    match l with
    | [] => Ok (Compatible, false)
    | c :: rest =>
        bind (vis_compatible_w ml q sr c)
             (fun lw => if comp_level_eqb (fst lw) Compatible
                        then bind (go rest) (fun r' => Ok (fst r', snd lw || snd r'))
                        else Ok (ActionRequired, snd lw || is_vol r))
    end.

Lemma vic_go_cons ml q sr r c rest :
  vic_go ml q sr r (c :: rest) =
  bind (vis_compatible_w ml q sr c)
       (fun lw => if comp_level_eqb (fst lw) Compatible
                  then bind (vic_go ml q sr r rest) (fun r' => Ok (fst r', snd lw || snd r'))
                  else Ok (ActionRequired, snd lw || is_vol r)).
Proof. reflexivity. Qed.

Lemma vis_compatible_w_eq ml q sr t :
  vis_compatible_w ml q sr t =
  let ds := (duration (erase t) * sr)%Q in
  if negb (q_is_int ds) then Ok (IncompFraction, false)
  else if Qle_bool (inject_Z ml) ds then
         if q =? 0 then Err EZeroDiv
         else if 0 <? (q_int ds) mod q then Ok (IncompQuantum, false)
              else if v_is_leaf t then
                     let wd := (body_duration (erase t) * sr)%Q in
                     if negb (Qle_bool (inject_Z ml) wd) || negb (q_is_int (wd / inject_Z q))
                     then Ok (ActionRequired, is_vol (v_rep t))
                     else Ok (Compatible, false)
                   else vic_go ml q sr (v_rep t) (v_ch t)
       else Ok (IncompTooShort, false).
Proof. destruct t as [r w m [|c ch]]; reflexivity. Qed.

Theorem vis_compatible_level : forall ml q sr t,
  rmap fst (vis_compatible_w ml q sr t) = is_compatible ml q sr (erase t).
Proof.
  intros ml q sr. induction t as [r w m ch IH] using vtree_ind'.
  rewrite vis_compatible_w_eq, is_compatible_eq. cbv zeta. rewrite is_leaf_erase, t_ch_erase.
  destruct (negb (q_is_int _)); [reflexivity|].
  destruct (Qle_bool _ _); [|reflexivity].
  destruct (q =? 0); [reflexivity|]. destruct (0 <? _); [reflexivity|].
  destruct (v_is_leaf (VNode r w m ch)).
  - destruct (_ || _); reflexivity.
  - cbn [v_ch v_rep]. induction IH as [|c l Hc _ IHl]; [reflexivity|].
    rewrite vic_go_cons. cbn [map]. rewrite ic_go_cons, <- Hc.
    destruct (vis_compatible_w ml q sr c) as [[lv wc]|e]; [|reflexivity]. cbn [rmap bind fst snd].
    destruct (comp_level_eqb lv Compatible); [|reflexivity].
    rewrite <- IHl. destruct (vic_go ml q sr r l) as [[lv' w']|e]; reflexivity.
Qed.

Lemma vmc_levels_cons ml q sr c rest :
  vmc_levels ml q sr (c :: rest) =
  bind (vis_compatible_w ml q sr c) (fun lw => bind (vmc_levels ml q sr rest) (fun ls => Ok (lw :: ls))).
Proof. reflexivity. Qed.

Lemma vmc_levels_erase ml q sr l : rmap (map fst) (vmc_levels ml q sr l) = mc_levels ml q sr (map erase l).
Proof.
  induction l as [|c l IH]; [reflexivity|]. rewrite vmc_levels_cons. cbn [map]. rewrite mc_levels_cons.
  rewrite <- vis_compatible_level, <- IH.
  destruct (vis_compatible_w ml q sr c) as [[lv wc]|e]; [|reflexivity]. cbn [rmap bind fst].
  destruct (vmc_levels ml q sr l) as [ls|e]; reflexivity.
Qed.

Lemma vmc_levels_length ml q sr l : forall lws, vmc_levels ml q sr l = Ok lws -> length lws = length l.
Proof.
  induction l as [|c l IH]; intros lws H.
  - inversion H. reflexivity.
  - rewrite vmc_levels_cons in H. destruct (vis_compatible_w ml q sr c); [|discriminate]. cbn [bind] in H.
    destruct (vmc_levels ml q sr l) as [ls|]; [|discriminate]. cbn [bind] in H. inversion H. cbn [length].
    rewrite (IH ls eq_refl). reflexivity.
Qed.

Lemma existsb_map_fst (lws : list (comp_level * bool)) :
  existsb is_incompatible (map fst lws) = existsb (fun lw => is_incompatible (fst lw)) lws.
Proof. induction lws as [|a l IH]; cbn [map existsb]; [reflexivity|]. rewrite IH. reflexivity. Qed.

(* ------------------------------------------------------------------------------------------------------------------ *)
(* A. make_compatible refines the plain rewrite *)

Definition vmc_go (rp : bool) (ml q : Z) (sr : Q) : list vtree -> list (comp_level * bool) -> result (list vtree * bool) :=
  fix go (l : list vtree) (ls : list (comp_level * bool)) : result (list vtree * bool) :=
    match l, ls with
    | c :: rest, lw :: lr =>
        bind (if comp_level_eqb (fst lw) ActionRequired then vmake_compatible_rec_w rp ml q sr c else Ok (c, false))
             (fun cw => bind (go rest lr) (fun rw => Ok (fst cw :: fst rw, snd cw || snd rw)))
    | _, _ => Ok ([], false)
    end.

Lemma vmc_go_cons rp ml q sr c rest lw lr :
  vmc_go rp ml q sr (c :: rest) (lw :: lr) =
  bind (if comp_level_eqb (fst lw) ActionRequired then vmake_compatible_rec_w rp ml q sr c else Ok (c, false))
       (fun cw => bind (vmc_go rp ml q sr rest lr) (fun rw => Ok (fst cw :: fst rw, snd cw || snd rw))).
Proof. reflexivity. Qed.

Lemma vmc_go_nil_l rp ml q sr ls : vmc_go rp ml q sr [] ls = Ok ([], false).
Proof. destruct ls; reflexivity. Qed.

Lemma vmc_go_nil_r rp ml q sr l : vmc_go rp ml q sr l [] = Ok ([], false).
Proof. destruct l; reflexivity. Qed.

Lemma vmcr_leaf rp ml q sr r w m :
  vmake_compatible_rec_w rp ml q sr (VNode r w m []) =
  bind (to_waveform (erase (VNode r w m []))) (fun x => Ok (VNode (Fixed 1) (Some x) m [], false)).
Proof. reflexivity. Qed.

Lemma vmcr_inner rp ml q sr r w m c ch :
  vmake_compatible_rec_w rp ml q sr (VNode r w m (c :: ch)) =
  bind (vmc_levels ml q sr (c :: ch))
       (fun lws =>
          let wl := existsb snd lws in
          if existsb (fun lw => is_incompatible (fst lw)) lws then
            if rv r =? 0 then Err EZeroDiv
            else
              let single_run := (duration (erase (VNode r w m (c :: ch))) * sr / inject_Z (rv r))%Q in
              let keep := q_is_int (single_run / inject_Z q) && Qle_bool (inject_Z ml) single_run in
              bind (to_waveform (Node (if keep then 1 else rv r) w m (map erase (c :: ch))))
                   (fun x => Ok (VNode (if keep then r else Fixed 1) (Some x) m [], wl || (rp && existsb any_volatile (c :: ch))))
          else bind (vmc_go rp ml q sr (c :: ch) lws) (fun cw => Ok (VNode r w m (fst cw), wl || snd cw))).
Proof. reflexivity. Qed.

Lemma erase_node r w m ch : erase (VNode r w m ch) = Node (rv r) w m (map erase ch).
Proof. reflexivity. Qed.

Lemma vmcr_refines rp ml q sr : forall t,
  rmap (fun p => erase (fst p)) (vmake_compatible_rec_w rp ml q sr t) = make_compatible_rec ml q sr (erase t).
Proof.
  induction t as [r w m ch IH] using vtree_ind'. destruct ch as [|c ch].
  - rewrite vmcr_leaf, erase_node. cbn [map]. rewrite mcr_leaf.
    destruct (to_waveform (Node (rv r) w m [])); reflexivity.
  - rewrite vmcr_inner. rewrite erase_node. remember (c :: ch) as l eqn:El.
    assert (map erase l = erase c :: map erase ch) as Em by (subst l; reflexivity).
    rewrite Em, mcr_inner, <- Em, <- vmc_levels_erase.
    destruct (vmc_levels ml q sr l) as [lws|e]; [|reflexivity]. cbn [rmap bind]. cbv zeta.
    rewrite existsb_map_fst. destruct (existsb (fun lw => is_incompatible (fst lw)) lws).
    + destruct (rv r =? 0); [reflexivity|].
      destruct (q_is_int _ && Qle_bool _ _);
        (destruct (to_waveform _); reflexivity).
    + assert (forall lws, rmap (fun p => map erase (fst p)) (vmc_go rp ml q sr l lws)
                          = mc_go ml q sr (map erase l) (map fst lws)) as Hgo.
      { clear El Em c ch lws. induction IH as [|a l Ha _ IHl]; intros lws.
        - rewrite vmc_go_nil_l. destruct lws; reflexivity.
        - destruct lws as [|lw lr]; [reflexivity|]. rewrite vmc_go_cons. cbn [map]. rewrite mc_go_cons.
          rewrite <- IHl. destruct (comp_level_eqb (fst lw) ActionRequired).
          + rewrite <- Ha. destruct (vmake_compatible_rec_w rp ml q sr a) as [[a' wa]|e]; [|reflexivity].
            cbn [rmap bind fst]. destruct (vmc_go rp ml q sr l lr) as [[rs wr]|e]; reflexivity.
          + cbn [bind fst]. destruct (vmc_go rp ml q sr l lr) as [[rs wr]|e]; reflexivity. }
      rewrite <- Hgo. destruct (vmc_go rp ml q sr l lws) as [[l' wl']|e]; reflexivity.
Qed.

Theorem vmake_compatible_refines : forall rp ml q sr t,
  rmap (fun p => erase (fst p)) (vmake_compatible_w rp ml q sr t) = make_compatible ml q sr (erase t).
Proof.
  intros rp ml q sr t. unfold vmake_compatible_w, make_compatible. rewrite <- vis_compatible_level.
  destruct (vis_compatible_w ml q sr t) as [[lv w0]|e]; [|reflexivity]. cbn [rmap bind fst snd].
  destruct lv; try reflexivity.
  rewrite <- (vmcr_refines rp). destruct (vmake_compatible_rec_w rp ml q sr t) as [[t' w']|e]; reflexivity.
Qed.

Theorem vmake_compatible_preserves_post : forall rp ml q sr t t' w, tree_ok1b (erase t) = true ->
  vmake_compatible_w rp ml q sr t = Ok (t', w) ->
  same_play (pieces (erase t')) (pieces (erase t)) /\ (duration (erase t') == duration (erase t))%Q /\
  ((0 < q)%Z -> (0 < sr)%Q -> leaves_ok ml q sr (erase t') = true).
Proof.
  intros rp ml q sr t t' w Hok H. apply (make_compatible_preserves ml q sr (erase t) (erase t') Hok).
  rewrite <- (vmake_compatible_refines rp), H. reflexivity.
Qed.

(* ------------------------------------------------------------------------------------------------------------------ *)
(* B. volatile counts never increase *)

Definition vsum (l : list vtree) : nat := list_sum (map vol_count l).

Lemma vol_count_node r w m ch : vol_count (VNode r w m ch) = ((if is_vol r then 1 else 0) + vsum ch)%nat.
Proof. reflexivity. Qed.

Lemma vsum_cons c l : vsum (c :: l) = (vol_count c + vsum l)%nat.
Proof. reflexivity. Qed.

Lemma vmcr_count_le rp ml q sr : forall t t' w, vmake_compatible_rec_w rp ml q sr t = Ok (t', w) ->
  (vol_count t' <= vol_count t)%nat.
Proof.
  induction t as [r w m ch IH] using vtree_ind'. intros t' w' H. destruct ch as [|c ch].
  - rewrite vmcr_leaf in H. destruct (to_waveform _); [|discriminate]. cbn [bind] in H. inversion H; subst.
    rewrite !vol_count_node. cbn. lia.
  - rewrite vmcr_inner in H. remember (c :: ch) as l eqn:El. clear El c ch.
    destruct (vmc_levels ml q sr l) as [lws|]; [|discriminate]. cbn [bind] in H. cbv zeta in H.
    destruct (existsb (fun lw => is_incompatible (fst lw)) lws).
    + destruct (rv r =? 0); [discriminate|].
      destruct (q_is_int _ && Qle_bool _ _); (destruct (to_waveform _); [|discriminate]); cbn [bind] in H;
        inversion H; subst; rewrite !vol_count_node; cbn [vsum map list_sum fold_right is_vol]; lia.
    + assert (forall lws l' w, vmc_go rp ml q sr l lws = Ok (l', w) -> (vsum l' <= vsum l)%nat) as Hgo.
      { clear H lws. induction IH as [|a l Ha _ IHl]; intros lws l' w0 H.
        - rewrite vmc_go_nil_l in H. inversion H. cbn. lia.
        - destruct lws as [|lw lr]; [inversion H; cbn; lia|]. rewrite vmc_go_cons in H.
          assert (forall a' wa, (if comp_level_eqb (fst lw) ActionRequired then vmake_compatible_rec_w rp ml q sr a
                                 else Ok (a, false)) = Ok (a', wa) -> (vol_count a' <= vol_count a)%nat) as Hstep.
          { intros a' wa E. destruct (comp_level_eqb (fst lw) ActionRequired); [eapply Ha; eauto|].
            inversion E; subst. lia. }
          destruct (if comp_level_eqb (fst lw) ActionRequired then _ else _) as [[a' wa]|]; [|discriminate].
          cbn [bind fst snd] in H. destruct (vmc_go rp ml q sr l lr) as [[rs wr]|] eqn:Hrs; [|discriminate].
          cbn [bind fst snd] in H. inversion H; subst. rewrite !vsum_cons.
          pose proof (Hstep a' wa eq_refl). pose proof (IHl lr rs wr Hrs). lia. }
      destruct (vmc_go rp ml q sr l lws) as [[l' wl']|] eqn:Hl'; [|discriminate]. cbn [bind fst snd] in H.
      inversion H; subst. rewrite !vol_count_node. pose proof (Hgo lws l' wl' Hl'). lia.
Qed.

Lemma vmc_go_count_le rp ml q sr : forall l lws l' w, vmc_go rp ml q sr l lws = Ok (l', w) ->
  (vsum l' <= vsum l)%nat /\ (length lws = length l -> length l' = length l).
Proof.
  induction l as [|a l IHl]; intros lws l' w0 H.
  - rewrite vmc_go_nil_l in H. inversion H. cbn. split; [lia|reflexivity].
  - destruct lws as [|lw lr]; [inversion H; cbn; split; [lia|discriminate]|]. rewrite vmc_go_cons in H.
    assert (forall a' wa, (if comp_level_eqb (fst lw) ActionRequired then vmake_compatible_rec_w rp ml q sr a
                           else Ok (a, false)) = Ok (a', wa) -> (vol_count a' <= vol_count a)%nat) as Hstep.
    { intros a' wa E. destruct (comp_level_eqb (fst lw) ActionRequired); [eapply vmcr_count_le; eauto|].
      inversion E; subst. lia. }
    destruct (if comp_level_eqb (fst lw) ActionRequired then _ else _) as [[a' wa]|]; [|discriminate].
    cbn [bind fst snd] in H. destruct (vmc_go rp ml q sr l lr) as [[rs wr]|] eqn:Hrs; [|discriminate].
    cbn [bind fst snd] in H. inversion H; subst. rewrite !vsum_cons.
    pose proof (Hstep a' wa eq_refl). destruct (IHl lr rs wr Hrs) as [H1 H2]. split; [lia|].
    cbn [length]. intros E. rewrite H2; lia.
Qed.

Theorem vmake_compatible_count_le : forall rp ml q sr t t' w, vmake_compatible_w rp ml q sr t = Ok (t', w) ->
  (vol_count t' <= vol_count t)%nat.
Proof.
  intros rp ml q sr t t' w H. unfold vmake_compatible_w in H.
  destruct (vis_compatible_w ml q sr t) as [[lv w0]|]; [|discriminate]. cbn [bind fst snd] in H.
  destruct lv; try discriminate.
  - inversion H; subst. lia.
  - destruct (vmake_compatible_rec_w rp ml q sr t) as [[t1 w1]|] eqn:E; [|discriminate]. cbn [bind fst snd] in H.
    inversion H; subst. eapply vmcr_count_le; eauto.
Qed.

(* ------------------------------------------------------------------------------------------------------------------ *)
(* B. no volatile count lost => the rewrite follows every valuation that reads fixed counts as they are *)

Section Faithful.
  Context (val : rep -> Z) (Hval : forall n, val (Fixed n) = n).

  Lemma vsum_zero_each l : vsum l = 0%nat -> Forall (fun c => vol_count c = 0%nat) l.
  Proof.
    induction l as [|c l IH]; [constructor|]. rewrite vsum_cons. intros H. constructor; [lia|apply IH; lia].
  Qed.

  Lemma instv_novol : forall t, vol_count t = 0%nat -> instv val t = erase t.
  Proof.
    induction t as [r w m ch IH] using vtree_ind'. rewrite vol_count_node. intros H.
    destruct r as [n|n tg]; cbn [is_vol] in H; [|lia]. rewrite instv_node, erase_node, Hval. cbn [rv]. f_equal.
    assert (vsum ch = 0%nat) as Hs by lia. apply vsum_zero_each in Hs. clear H.
    induction IH as [|c l Hc _ IHl]; [reflexivity|]. inversion Hs as [|? ? Hc0 Hl0]; subst. cbn [map].
    rewrite (Hc Hc0), (IHl Hl0). reflexivity.
  Qed.

  Lemma instv_novol_list l : vsum l = 0%nat -> map (instv val) l = map erase l.
  Proof.
    intros H. apply vsum_zero_each in H. induction H as [|c l Hc _ IH]; [reflexivity|]. cbn [map].
    rewrite instv_novol, IH; auto.
  Qed.

  Lemma vmcr_faithful rp ml q sr : forall t t' w, vmake_compatible_rec_w rp ml q sr t = Ok (t', w) ->
    vol_count t' = vol_count t -> tree_ok1b (instv val t) = true ->
    pequiv (pieces (instv val t')) (pieces (instv val t)) /\ tree_ok1b (instv val t') = true.
  Proof.
    induction t as [r w m ch IH] using vtree_ind'. intros t' w' H Hcnt Hok. destruct ch as [|c ch].
    - rewrite vmcr_leaf in H. destruct (to_waveform _) as [x|] eqn:Hx; [|discriminate]. cbn [bind] in H.
      inversion H; subst t' w'; clear H.
      assert (vol_count (VNode r w m []) = 0%nat) as Hz by (rewrite <- Hcnt; reflexivity).
      rewrite (instv_novol _ Hz) in *. rewrite instv_node, Hval. cbn [map].
      destruct (to_waveform_pequiv _ x Hok Hx) as [Hp Ho]. rewrite pieces_leaf, rep_list_1. split; auto;
      apply ok1b_intro_leaf; auto; lia.
    - rewrite vmcr_inner in H. remember (c :: ch) as l eqn:El.
      assert (l <> []) as Hne by (subst l; discriminate). clear El c ch.
      rewrite instv_node in Hok. destruct (ok1b_inv _ _ _ _ Hok) as (Hr & Hch & _ & Hw).
      assert (w = None) as -> by (apply Hw; destruct l; [congruence|discriminate]). clear Hw.
      destruct (vmc_levels ml q sr l) as [lws|] eqn:Hlv; [|discriminate]. cbn [bind] in H. cbv zeta in H.
      apply vmc_levels_length in Hlv.
      destruct (existsb (fun lw => is_incompatible (fst lw)) lws).
      + destruct (rv r =? 0); [discriminate|].
        destruct (q_is_int _ && Qle_bool _ _).
        * destruct (to_waveform _) as [x|] eqn:Hx; [|discriminate]. cbn [bind] in H. inversion H; subst t' w'; clear H.
          rewrite !vol_count_node in Hcnt. cbn [vsum map list_sum fold_right] in Hcnt.
          assert (vsum l = 0%nat) as Hz by lia. rewrite (instv_novol_list l Hz) in *.
          assert (tree_ok1b (Node 1 None m (map erase l)) = true) as Hok1.
          { apply ok1b_intro_none; auto; [lia|]. destruct l; [congruence|discriminate]. }
          destruct (to_waveform_pequiv _ x Hok1 Hx) as [Hp Ho]. rewrite pieces_node_none, rep_list_1 in Hp.
          rewrite !instv_node. cbn [map]. rewrite (instv_novol_list l Hz), pieces_leaf, pieces_node_none. split.
          -- apply pequiv_rep_list; auto.
          -- apply ok1b_intro_leaf; auto.
        * destruct (to_waveform _) as [x|] eqn:Hx; [|discriminate]. cbn [bind] in H. inversion H; subst t' w'; clear H.
          rewrite !vol_count_node in Hcnt. cbn [vsum map list_sum fold_right is_vol] in Hcnt.
          destruct r as [n|n tg]; cbn [is_vol] in Hcnt; [|lia].
          assert (vsum l = 0%nat) as Hz by lia. rewrite (instv_novol_list l Hz) in *.
          rewrite Hval in *. cbn [rv] in Hx.
          destruct (to_waveform_pequiv _ x Hok Hx) as [Hp Ho].
          rewrite !instv_node. cbn [map]. rewrite (instv_novol_list l Hz), !Hval, pieces_leaf, rep_list_1. split; auto;
          apply ok1b_intro_leaf; auto; lia.
      + assert (forall lws l' w, length lws = length l -> vmc_go rp ml q sr l lws = Ok (l', w) -> vsum l' = vsum l ->
                  pequiv (flat_map pieces (map (instv val) l')) (flat_map pieces (map (instv val) l)) /\
                  forallb tree_ok1b (map (instv val) l') = true /\ length l' = length l) as Hgo.
        { clear H Hne Hok Hlv lws Hcnt. induction IH as [|a l Ha _ IHl]; intros lws l' w0 Hlen H Hs.
          - rewrite vmc_go_nil_l in H. inversion H. repeat split; constructor.
          - destruct lws as [|lw lr]; [discriminate|]. rewrite vmc_go_cons in H.
            cbn [map forallb] in Hch. apply andb_true_iff in Hch. destruct Hch as [H1 H2]. cbn [length] in Hlen.
            destruct (if comp_level_eqb (fst lw) ActionRequired then _ else _) as [[a' wa]|] eqn:Ea; [|discriminate].
            cbn [bind fst snd] in H. destruct (vmc_go rp ml q sr l lr) as [[rs wr]|] eqn:Hrs; [|discriminate].
            cbn [bind fst snd] in H. inversion H; subst l' w0; clear H. rewrite !vsum_cons in Hs.
            destruct (vmc_go_count_le rp ml q sr l lr rs wr Hrs) as [Hle _].
            assert ((vol_count a' <= vol_count a)%nat) as Hle'.
            { destruct (comp_level_eqb (fst lw) ActionRequired); [eapply vmcr_count_le; eauto|].
              inversion Ea; subst. lia. }
            assert (pequiv (pieces (instv val a')) (pieces (instv val a)) /\ tree_ok1b (instv val a') = true) as [Hp Ho].
            { destruct (comp_level_eqb (fst lw) ActionRequired); [eapply Ha; eauto; lia|].
              inversion Ea; subst. split; [apply pequiv_refl|auto]. }
            destruct (IHl H2 lr rs wr ltac:(lia) Hrs ltac:(lia)) as (Hp' & Ho' & Hl').
            cbn [map flat_map forallb length]. rewrite Ho, Ho', Hl'. repeat split; auto. apply pequiv_app; auto. }
        destruct (vmc_go rp ml q sr l lws) as [[l' wl']|] eqn:Hl'; [|discriminate]. cbn [bind fst snd] in H.
        inversion H; subst t' w'; clear H. rewrite !vol_count_node in Hcnt.
        destruct (Hgo lws l' wl' Hlv Hl' ltac:(lia)) as (Hp & Ho & Hlen).
        rewrite !instv_node, !pieces_node_none. split; [apply pequiv_rep_list; auto|].
        apply ok1b_intro_none; auto. destruct l'; [destruct l; [congruence|discriminate]|discriminate].
  Qed.

  Lemma vmake_compatible_faithful_val rp ml q sr t t' w : vmake_compatible_w rp ml q sr t = Ok (t', w) ->
    vol_count t' = vol_count t -> tree_ok1b (instv val t) = true ->
    same_play (pieces (instv val t')) (pieces (instv val t)) /\ (duration (instv val t') == duration (instv val t))%Q.
  Proof.
    intros H Hcnt Hok.
    assert (pequiv (pieces (instv val t')) (pieces (instv val t)) /\ tree_ok1b (instv val t') = true) as [Hp Ho].
    { unfold vmake_compatible_w in H.
      destruct (vis_compatible_w ml q sr t) as [[lv w0]|]; [|discriminate]. cbn [bind fst snd] in H.
      destruct lv; try discriminate.
      - inversion H; subst. split; [apply pequiv_refl|auto].
      - destruct (vmake_compatible_rec_w rp ml q sr t) as [[t1 w1]|] eqn:E; [|discriminate]. cbn [bind fst snd] in H.
        inversion H; subst. eapply vmcr_faithful; eauto. }
    split; [apply pequiv_sound; auto|].
    rewrite (duration_total _ (tree_ok1b_okb _ Hok)), (duration_total _ (tree_ok1b_okb _ Ho)).
    apply pequiv_total; auto.
  Qed.
End Faithful.

Theorem vmake_compatible_faithful : forall rp ml q sr t t' w env, vmake_compatible_w rp ml q sr t = Ok (t', w) ->
  vol_count t' = vol_count t -> tree_ok1b (inst env t) = true ->
  same_play (pieces (inst env t')) (pieces (inst env t)) /\ (duration (inst env t') == duration (inst env t))%Q.
Proof.
  intros rp ml q sr t t' w env H Hc Hok. rewrite !inst_instv in *.
  apply (vmake_compatible_faithful_val (rv_env env) (fun n => eq_refl) rp ml q sr t t' w H Hc Hok).
Qed.

(* ------------------------------------------------------------------------------------------------------------------ *)
(* B. ... but a volatile count can be lost WITHOUT a VolatileModificationWarning *)

(* Loop(children=[Loop(ramp of 4 samples, count volatile n = 2), Loop(ramp of 8 samples)]),
   make_compatible(min 16, quantum 4, rate 1): both children are too short, everything is merged into one waveform;
   _is_compatible returns early for the volatile child, so only the MakeCompatibleWarning is emitted *)
Definition ex_vmc_silent : vtree :=
  VNode (Fixed 1) None [] [VNode (Volatile 2 (VVar 0)) (Some (WAtom 0 4)) [] [];
                           VNode (Fixed 1) (Some (WAtom 1 8)) [] []].

Theorem vmake_compatible_silent_freeze_refuted : exists t t' env,
  vmake_compatible_w false 16 4 1 t = Ok (t', false) /\ any_volatile t = true /\ any_volatile t' = false /\
  consistent (fun _ => 2) t = true /\ tree_ok1b (inst env t) = true /\
  ~ (duration (inst env t') == duration (inst env t))%Q.
Proof.
  exists ex_vmc_silent. eexists. exists (fun _ => 3).
  split; [vm_compute; reflexivity|]. repeat split; try (vm_compute; reflexivity).
  vm_compute. intros H. discriminate H.
Qed.

Example ex_vmc_silent_loses : vmc_loses_count false 16 4 1 ex_vmc_silent = true.
Proof. vm_compute. reflexivity. Qed.

(* a volatile root whose body is a valid waveform keeps its definition — and the code warns nevertheless *)
Definition ex_vmc_keep : vtree :=
  VNode (Volatile 3 (VVar 0)) None [] [VNode (Fixed 1) (Some (WAtom 0 4)) [] [];
                                       VNode (Fixed 1) (Some (WAtom 1 4)) [] []].

Example ex_vmc_keep_keeps : vmc_loses_count false 8 8 1 ex_vmc_keep = false.
Proof. vm_compute. reflexivity. Qed.

Example ex_vmc_keep_warns : exists t', vmake_compatible_w false 8 8 1 ex_vmc_keep = Ok (t', true) /\
  v_rep t' = Volatile 3 (VVar 0) /\ vol_count t' = vol_count ex_vmc_keep.
Proof. eexists. split; [vm_compute; reflexivity|]. split; reflexivity. Qed.

(* non-vacuity of vmake_compatible_preserves_post / vmake_compatible_faithful *)
Example ex_vmc_preserves_nonvacuous : exists t' w,
  tree_ok1b (erase ex_vmc_silent) = true /\ vmake_compatible_w false 16 4 1 ex_vmc_silent = Ok (t', w).
Proof. eexists. eexists. split; [vm_compute; reflexivity|]. vm_compute. reflexivity. Qed.

Example ex_vmc_faithful_nonvacuous : exists t' w,
  vmake_compatible_w false 8 8 1 ex_vmc_keep = Ok (t', w) /\ vol_count t' = vol_count ex_vmc_keep /\
  tree_ok1b (inst (fun _ => 5) ex_vmc_keep) = true /\ any_volatile ex_vmc_keep = true.
Proof. eexists. eexists. split; [vm_compute; reflexivity|]. repeat split; vm_compute; reflexivity. Qed.

(* ------------------------------------------------------------------------------------------------------------------ *)
(* B'. the repaired _make_compatible ([rp = true]): the repair changes the warning flag only, a warning of the code as it
   was is still a warning, and "no VolatileModificationWarning" now means "no volatile count lost" *)

Lemma comp_level_eqb_eq a b : comp_level_eqb a b = true -> a = b.
Proof. destruct a, b; cbn; intros H; try reflexivity; discriminate H. Qed.

Lemma vmcr_repair_only_warns ml q sr : forall t,
  match vmake_compatible_rec_w true ml q sr t, vmake_compatible_rec_w false ml q sr t with
  | Ok (t1, w1), Ok (t0, w0) => t1 = t0 /\ (w0 = true -> w1 = true)
  | Err e1, Err e0 => e1 = e0
  | _, _ => False
  end.
Proof.
  induction t as [r w m ch IH] using vtree_ind'. destruct ch as [|c ch].
  - rewrite !vmcr_leaf. destruct (to_waveform _); cbn [bind]; auto.
  - rewrite !vmcr_inner. remember (c :: ch) as l eqn:El. clear El c ch.
    destruct (vmc_levels ml q sr l) as [lws|e]; cbn [bind]; [|reflexivity]. cbv zeta.
    destruct (existsb (fun lw => is_incompatible (fst lw)) lws).
    + destruct (rv r =? 0); [reflexivity|].
      destruct (q_is_int _ && Qle_bool _ _); (destruct (to_waveform _); cbn [bind]; [|reflexivity]);
        (split; [reflexivity|]); cbn [andb]; rewrite orb_false_r; intros Hw; rewrite Hw; reflexivity.
    + assert (forall lws, match vmc_go true ml q sr l lws, vmc_go false ml q sr l lws with
                          | Ok (l1, w1), Ok (l0, w0) => l1 = l0 /\ (w0 = true -> w1 = true)
                          | Err e1, Err e0 => e1 = e0
                          | _, _ => False
                          end) as Hgo.
      { clear lws. induction IH as [|a l Ha _ IHl]; intros lws.
        - rewrite !vmc_go_nil_l. auto.
        - destruct lws as [|lw lr]; [cbn; auto|]. rewrite !vmc_go_cons. specialize (IHl lr).
          destruct (comp_level_eqb (fst lw) ActionRequired).
          + destruct (vmake_compatible_rec_w true ml q sr a) as [[a1 wa1]|e1],
                     (vmake_compatible_rec_w false ml q sr a) as [[a0 wa0]|e0]; try contradiction; cbn [bind fst snd]; auto.
            destruct Ha as [-> Hwa].
            destruct (vmc_go true ml q sr l lr) as [[r1 wr1]|], (vmc_go false ml q sr l lr) as [[r0 wr0]|];
              try contradiction; cbn [bind fst snd]; auto.
            destruct IHl as [-> Hwr]. split; [reflexivity|]. intros H. apply orb_true_iff in H. apply orb_true_iff.
            destruct H; [left|right]; auto.
          + cbn [bind fst snd].
            destruct (vmc_go true ml q sr l lr) as [[r1 wr1]|], (vmc_go false ml q sr l lr) as [[r0 wr0]|];
              try contradiction; cbn [bind fst snd]; auto.
            destruct IHl as [-> Hwr]. split; [reflexivity|]. cbn [orb]. exact Hwr. }
      specialize (Hgo lws).
      destruct (vmc_go true ml q sr l lws) as [[l1 w1]|], (vmc_go false ml q sr l lws) as [[l0 w0]|];
        try contradiction; cbn [bind fst snd]; auto.
      destruct Hgo as [-> Hw]. split; [reflexivity|]. intros H. apply orb_true_iff in H. apply orb_true_iff.
      destruct H; [left|right]; auto.
Qed.

Theorem vmake_compatible_repair_only_warns : forall ml q sr t,
  match vmake_compatible_w true ml q sr t, vmake_compatible_w false ml q sr t with
  | Ok (t1, w1), Ok (t0, w0) => t1 = t0 /\ (w0 = true -> w1 = true)
  | Err e1, Err e0 => e1 = e0
  | _, _ => False
  end.
Proof.
  intros ml q sr t. unfold vmake_compatible_w.
  destruct (vis_compatible_w ml q sr t) as [[lv w0]|e]; cbn [bind fst snd]; [|reflexivity].
  destruct lv; auto.
  pose proof (vmcr_repair_only_warns ml q sr t) as H.
  destruct (vmake_compatible_rec_w true ml q sr t) as [[t1 w1]|], (vmake_compatible_rec_w false ml q sr t) as [[t0 w0']|];
    try contradiction; cbn [bind fst snd]; auto.
  destruct H as [-> Hw]. split; [reflexivity|]. intros H. apply orb_true_iff in H. apply orb_true_iff.
  destruct H; [left|right]; auto.
Qed.

Lemma any_volatile_node r w m ch : any_volatile (VNode r w m ch) = is_vol r || existsb any_volatile ch.
Proof. reflexivity. Qed.

Lemma novol_count : forall t, any_volatile t = false -> vol_count t = 0%nat.
Proof.
  induction t as [r w m ch IH] using vtree_ind'. rewrite any_volatile_node, vol_count_node. intros H.
  apply orb_false_iff in H as [Hr Hch]. rewrite Hr. cbn [Nat.add].
  induction IH as [|c l Hc _ IHl]; [reflexivity|]. cbn [existsb] in Hch. apply orb_false_iff in Hch as [H1 H2].
  rewrite vsum_cons, (Hc H1), (IHl H2). reflexivity.
Qed.

Lemma novol_vsum l : existsb any_volatile l = false -> vsum l = 0%nat.
Proof.
  induction l as [|c l IH]; [reflexivity|]. cbn [existsb]. intros H. apply orb_false_iff in H as [H1 H2].
  rewrite vsum_cons, (novol_count _ H1), (IH H2). reflexivity.
Qed.

(* _is_compatible answers action_required for an inner node only after it has reported the node's own volatility *)
Lemma vic_go_action_flag ml q sr r : forall l w0, vic_go ml q sr r l = Ok (ActionRequired, w0) ->
  is_vol r = true -> w0 = true.
Proof.
  induction l as [|c l IH]; intros w0 H Hr; [discriminate H|]. rewrite vic_go_cons in H.
  destruct (vis_compatible_w ml q sr c) as [[lv wc]|]; [|discriminate]. cbn [bind fst snd] in H.
  destruct (comp_level_eqb lv Compatible).
  - destruct (vic_go ml q sr r l) as [[lv' w']|]; [|discriminate]. cbn [bind fst snd] in H. inversion H; subst.
    rewrite (IH w' eq_refl Hr). apply orb_true_r.
  - inversion H; subst. rewrite Hr. apply orb_true_r.
Qed.

Lemma vis_action_flag ml q sr t w0 : vis_compatible_w ml q sr t = Ok (ActionRequired, w0) ->
  is_vol (v_rep t) = true -> w0 = true.
Proof.
  rewrite vis_compatible_w_eq. cbv zeta. intros H Hr.
  destruct (negb (q_is_int _)); [discriminate|]. destruct (Qle_bool _ _); [|discriminate].
  destruct (q =? 0); [discriminate|]. destruct (0 <? _); [discriminate|].
  destruct (v_is_leaf t).
  - destruct (_ || _); [|discriminate]. inversion H; subst. exact Hr.
  - eapply vic_go_action_flag; eauto.
Qed.

Lemma vmcr_repaired_keeps ml q sr : forall t w0 t' w,
  vis_compatible_w ml q sr t = Ok (ActionRequired, w0) ->
  vmake_compatible_rec_w true ml q sr t = Ok (t', w) -> w0 || w = false -> vol_count t' = vol_count t.
Proof.
  induction t as [r w m ch IH] using vtree_ind'. intros w0 t' w' Hv H Hw.
  apply orb_false_iff in Hw as [Hw0 Hw'].
  assert (is_vol r = false) as Hr.
  { destruct (is_vol r) eqn:E; [|reflexivity]. rewrite (vis_action_flag _ _ _ _ _ Hv E) in Hw0. discriminate. }
  destruct ch as [|c ch].
  - rewrite vmcr_leaf in H. destruct (to_waveform _); [|discriminate]. cbn [bind] in H. inversion H; subst.
    rewrite !vol_count_node, Hr. reflexivity.
  - rewrite vmcr_inner in H. remember (c :: ch) as l eqn:El. clear El c ch Hv.
    destruct (vmc_levels ml q sr l) as [lws|] eqn:Hlv; [|discriminate]. cbn [bind] in H. cbv zeta in H.
    destruct (existsb (fun lw => is_incompatible (fst lw)) lws).
    + destruct (rv r =? 0); [discriminate|].
      destruct (q_is_int _ && Qle_bool _ _); (destruct (to_waveform _); [|discriminate]); cbn [bind] in H;
        inversion H as [[Ht Hx]]; subst t'; rewrite <- Hx in Hw'; cbn [andb] in Hw'; apply orb_false_iff in Hw' as [_ Hnv];
        rewrite !vol_count_node, (novol_vsum _ Hnv); cbn [vsum map list_sum fold_right is_vol]; rewrite ?Hr; reflexivity.
    + destruct (vmc_go true ml q sr l lws) as [[l' wl']|] eqn:Hl'; [|discriminate]. cbn [bind fst snd] in H.
      inversion H as [[Ht Hx]]; subst t'; clear H. rewrite <- Hx in Hw'. apply orb_false_iff in Hw' as [Hwl Hwl'].
      rewrite !vol_count_node. f_equal. subst wl'. clear Hr Hw0 w0 Hx.
      revert lws l' Hlv Hwl Hl'. induction IH as [|a l Ha _ IHl]; intros lws l' Hlv Hwl Hl'.
      * rewrite vmc_go_nil_l in Hl'. inversion Hl'. reflexivity.
      * rewrite vmc_levels_cons in Hlv. destruct (vis_compatible_w ml q sr a) as [[lv wa]|] eqn:Hva; [|discriminate].
        cbn [bind] in Hlv. destruct (vmc_levels ml q sr l) as [lr|] eqn:Hlr; [|discriminate]. cbn [bind] in Hlv.
        inversion Hlv; subst lws; clear Hlv. cbn [existsb snd] in Hwl. apply orb_false_iff in Hwl as [Hwa Hwr].
        rewrite vmc_go_cons in Hl'. cbn [fst] in Hl'.
        destruct (comp_level_eqb lv ActionRequired) eqn:Elv.
        -- apply comp_level_eqb_eq in Elv. subst lv.
           destruct (vmake_compatible_rec_w true ml q sr a) as [[a' wa']|] eqn:Ea; [|discriminate].
           cbn [bind fst snd] in Hl'. destruct (vmc_go true ml q sr l lr) as [[rs wr]|] eqn:Hrs; [|discriminate].
           cbn [bind fst snd] in Hl'. inversion Hl' as [[Hl1 Hl2]]; subst l'. apply orb_false_iff in Hl2 as [Hwa' Hwr'].
           subst wr. rewrite !vsum_cons, (IHl lr rs eq_refl Hwr Hrs).
           rewrite (Ha wa a' wa' eq_refl eq_refl); [reflexivity|]. rewrite Hwa, Hwa'. reflexivity.
        -- cbn [bind fst snd] in Hl'. destruct (vmc_go true ml q sr l lr) as [[rs wr]|] eqn:Hrs; [|discriminate].
           cbn [bind fst snd] in Hl'. inversion Hl' as [[Hl1 Hl2]]; subst l'. cbn [orb] in Hl2. subst wr.
           rewrite !vsum_cons, (IHl lr rs eq_refl Hwr Hrs). reflexivity.
Qed.

(* the repaired code: no VolatileModificationWarning => every volatile count is still there ... *)
Theorem vmake_compatible_repaired_keeps_counts : forall ml q sr t t',
  vmake_compatible_w true ml q sr t = Ok (t', false) -> vol_count t' = vol_count t.
Proof.
  intros ml q sr t t' H. unfold vmake_compatible_w in H.
  destruct (vis_compatible_w ml q sr t) as [[lv w0]|] eqn:Hv; [|discriminate]. cbn [bind fst snd] in H.
  destruct lv; try discriminate.
  - inversion H; subst. reflexivity.
  - destruct (vmake_compatible_rec_w true ml q sr t) as [[t1 w1]|] eqn:E; [|discriminate]. cbn [bind fst snd] in H.
    inversion H; subst. eapply vmcr_repaired_keeps; eauto.
Qed.

(* ... hence the rewritten program follows the volatile parameters under every re-evaluation *)
Theorem vmake_compatible_repaired_follows : forall ml q sr t t' env,
  vmake_compatible_w true ml q sr t = Ok (t', false) -> tree_ok1b (inst env t) = true ->
  same_play (pieces (inst env t')) (pieces (inst env t)) /\ (duration (inst env t') == duration (inst env t))%Q.
Proof.
  intros ml q sr t t' env H Hok.
  exact (vmake_compatible_faithful true ml q sr t t' false env H (vmake_compatible_repaired_keeps_counts _ _ _ _ _ H) Hok).
Qed.

(* the witness of the silent freeze is warned about by the repaired code; the same tree comes out *)
Example ex_vmc_silent_repaired_warns : exists t',
  vmake_compatible_w true 16 4 1 ex_vmc_silent = Ok (t', true) /\ vmake_compatible_w false 16 4 1 ex_vmc_silent = Ok (t', false).
Proof. eexists. split; vm_compute; reflexivity. Qed.

(* non-vacuity of vmake_compatible_repaired_follows: a volatile sibling next to a merged fixed block stays volatile,
   no warning, and the hypothesis tree_ok1b holds at another value of the parameter *)
Definition ex_vmc_sibling : vtree :=
  VNode (Fixed 1) None []
    [VNode (Volatile 2 (VVar 0)) None [] [VNode (Fixed 1) (Some (WAtom 0 8)) [] []; VNode (Fixed 1) (Some (WAtom 1 8)) [] []];
     VNode (Fixed 1) None [] [VNode (Fixed 1) (Some (WAtom 2 4)) [] []; VNode (Fixed 1) (Some (WAtom 3 12)) [] []]].

Example ex_vmc_repaired_nonvacuous : exists t',
  vmake_compatible_w true 8 8 1 ex_vmc_sibling = Ok (t', false) /\ any_volatile t' = true /\
  erase t' <> erase ex_vmc_sibling /\ tree_ok1b (inst (fun _ => 5) ex_vmc_sibling) = true.
Proof. eexists. split; [vm_compute; reflexivity|]. repeat split; try (vm_compute; reflexivity). vm_compute. discriminate. Qed.

(* ------------------------------------------------------------------------------------------------------------------ *)
(* C. roll_constant_waveforms commutes with every multiplicative valuation *)

Definition vroll_go (mq q : Z) (sr : Q) : list vtree -> result (list vtree) :=
  fix go (l : list vtree) : result (list vtree) :=
    match l with
    | [] => Ok []
    | c :: rest => bind (vroll_constant_waveforms mq q sr c) (fun c' => bind (go rest) (fun rs => Ok (c' :: rs)))
    end.

Lemma vroll_go_cons mq q sr c rest :
  vroll_go mq q sr (c :: rest) =
  bind (vroll_constant_waveforms mq q sr c) (fun c' => bind (vroll_go mq q sr rest) (fun rs => Ok (c' :: rs))).
Proof. reflexivity. Qed.

Lemma vroll_inner mq q sr r w m c ch :
  vroll_constant_waveforms mq q sr (VNode r w m (c :: ch)) =
  bind (vroll_go mq q sr (c :: ch)) (fun ch' => Ok (VNode r w [] ch')).
Proof. destruct w; reflexivity. Qed.

Lemma vroll_empty mq q sr r m : vroll_constant_waveforms mq q sr (VNode r None m []) = Ok (VNode r None [] []).
Proof. reflexivity. Qed.

Lemma roll_empty mq q sr r m : roll_constant_waveforms mq q sr (Node r None m []) = Ok (Node r None [] []).
Proof. reflexivity. Qed.

Definition rep_scale (r : rep) (k : Z) : rep :=
  match r with Fixed n => Fixed (n * k) | Volatile n tg => Volatile (n * k) (VScale tg k) end.

Lemma rep_scale_mul r k : rep_scale r k = rep_mul r (Fixed k).
Proof. destruct r; reflexivity. Qed.

Lemma vroll_some mq q sr r x m :
  vroll_constant_waveforms mq q sr (VNode r (Some x) m []) =
  if q =? 0 then Err EZeroDiv
  else
    let wqq := (wf_dur x * sr / inject_Z q)%Q in
    if negb (q_is_int wqq) then Ok (VNode r (Some x) [] [])
    else
      let wq := q_int wqq in
      if wq <? mq * 2 then Ok (VNode r (Some x) [] [])
      else match cvd x with
           | None => Ok (VNode r (Some x) [] [])
           | Some v =>
               bind (smallest_factor_ge wq mq)
                    (fun nq => if nq =? wq then Ok (VNode r (Some x) [] [])
                               else Ok (VNode (rep_scale r (wq / nq))
                                              (Some (WConst (Qred (inject_Z q * inject_Z nq / sr)) v)) [] []))
           end.
Proof. reflexivity. Qed.

Theorem vroll_refines_all : forall val mq q sr t, multiplicative val ->
  rmap (instv val) (vroll_constant_waveforms mq q sr t) = roll_constant_waveforms mq q sr (instv val t).
Proof.
  intros val mq q sr t [Hfix Hmul]. induction t as [r w m ch IH] using vtree_ind'.
  rewrite instv_node. destruct ch as [|c ch].
  - cbn [map]. destruct w as [x|]; [|rewrite vroll_empty, roll_empty; reflexivity].
    rewrite vroll_some, roll_some. cbv zeta.
    destruct (q =? 0); [reflexivity|]. destruct (negb (q_is_int _)); [reflexivity|].
    destruct (_ <? _); [reflexivity|]. destruct (cvd x); [|reflexivity].
    destruct (smallest_factor_ge _ _) as [nq|]; [|reflexivity]. cbn [bind].
    destruct (nq =? _); [reflexivity|]. cbn [rmap]. rewrite instv_node, rep_scale_mul, Hmul, Hfix. reflexivity.
  - remember (c :: ch) as l eqn:El. assert (map (instv val) l = instv val c :: map (instv val) ch) as Em
      by (subst l; reflexivity).
    rewrite Em, roll_inner, <- Em. subst l. rewrite vroll_inner. remember (c :: ch) as l eqn:El. clear El Em c ch.
    assert (rmap (map (instv val)) (vroll_go mq q sr l) = roll_go mq q sr (map (instv val) l)) as Hgo.
    { induction IH as [|a l Ha _ IHl]; [reflexivity|]. rewrite vroll_go_cons. cbn [map]. rewrite roll_go_cons.
      rewrite <- Ha, <- IHl. destruct (vroll_constant_waveforms mq q sr a) as [a'|]; [|reflexivity].
      cbn [rmap bind]. destruct (vroll_go mq q sr l); reflexivity. }
    rewrite <- Hgo. destruct (vroll_go mq q sr l); reflexivity.
Qed.

Theorem vroll_preserves_all : forall val mq q sr t t', multiplicative val -> (0 < q)%Z -> (0 < sr)%Q ->
  tree_ok1b (instv val t) = true -> vroll_constant_waveforms mq q sr t = Ok t' ->
  same_play (pieces (instv val t')) (pieces (instv val t)) /\ (duration (instv val t') == duration (instv val t))%Q.
Proof.
  intros val mq q sr t t' Hm Hq Hsr Hok H. apply (roll_preserves mq q sr (instv val t) (instv val t') Hq Hsr Hok).
  rewrite <- (vroll_refines_all val mq q sr t Hm), H. reflexivity.
Qed.

(* a constant of 16 samples on a volatile leaf: rolled into (n * 2) repetitions of 8 samples, still volatile *)
Definition ex_vroll : vtree := VNode (Volatile 2 (VVar 0)) (Some (WConst 16 [(0%N, 1%Q)])) [] [].

Example ex_vroll_nonvacuous : exists t',
  vroll_constant_waveforms 2 4 1 ex_vroll = Ok t' /\ v_rep t' = Volatile 4 (VScale (VVar 0) 2) /\
  tree_ok1b (instv (rv_env (fun _ => 5)) ex_vroll) = true.
Proof. eexists. split; [vm_compute; reflexivity|]. split; vm_compute; reflexivity. Qed.
