(* C06 round 6 — Waveform.constant_value and the short cut of Waveform.get_sampled (Model_cv.v): the answer of
   constant_value is sound for what the waveform plays, so get_sampled = unsafe_sample wherever the waveform is defined;
   completeness on waveforms without empty sequences; the `not v` loop is refuted. *)
From Coq Require Import ZArith QArith List Bool Lia Lqa.
Require Import QV.C06.Model QV.C06.Spec QV.C06.Proofs_base QV.C06.Proofs_struct QV.C06.Proofs_wave QV.C06.Model_cv.
Import ListNotations.

(* ------------------------------------------------------------------------------------------------------------------ *)
(* the loop of SequenceWaveform.constant_value *)

Definition some_at (x : Q) (o : option Q) : Prop := exists y, o = Some y /\ (y == x)%Q.

Lemma seq_cv_loop_sound l : forall v x, seq_cv_loop v l = Some x ->
  (forall y, v = Some y -> (y == x)%Q) /\ Forall (some_at x) l.
Proof.
  induction l as [|o r IH]; intros v x H; cbn [seq_cv_loop] in H.
  - split; [|constructor]. intros y E. rewrite E in H. inversion H. reflexivity.
  - destruct o as [a|]; [|discriminate]. destruct v as [y|].
    + destruct (Qeq_bool a y) eqn:E; [|discriminate]. apply Qeq_bool_iff in E.
      destruct (IH _ _ H) as [H1 H2]. pose proof (H1 y eq_refl) as Hy. split.
      * intros y' E'. inversion E'; subst. exact Hy.
      * constructor; auto. exists a. split; auto. rewrite E. exact Hy.
    + destruct (IH _ _ H) as [H1 H2]. split; [discriminate|]. constructor; auto.
      exists a. split; auto.
Qed.

Lemma seq_cv_loop_complete x l : forall v, (forall y, v = Some y -> (y == x)%Q) -> Forall (some_at x) l ->
  (v <> None \/ l <> []) -> exists y, seq_cv_loop v l = Some y /\ (y == x)%Q.
Proof.
  induction l as [|o r IH]; intros v Hv HF Hne; cbn [seq_cv_loop].
  - destruct v as [y|]; [eauto|]. destruct Hne; congruence.
  - inversion HF as [|? ? (a & -> & Ha) HF']; subst. destruct v as [y|].
    + pose proof (Hv y eq_refl) as Hy. assert (Qeq_bool a y = true) as -> by (apply Qeq_bool_iff; rewrite Ha, Hy; reflexivity).
      apply IH; auto. left; discriminate.
    + apply IH; auto; [|left; discriminate]. intros y E. inversion E; subst. exact Ha.
Qed.

(* ------------------------------------------------------------------------------------------------------------------ *)
(* T1 / T1b *)

Lemma const_on_Qeq acv c x x' p : (x == x')%Q -> const_on acv c x p -> const_on acv c x' p.
Proof. intros E (y & H1 & H2). exists y. split; auto. rewrite H2. exact E. Qed.

Theorem constant_value_sound : forall acv w c x,
  constant_value acv w c = Some x -> Forall (const_on acv c x) (wf_pieces w).
Proof.
  intros acv w c. induction w as [i d|d v|l IH|b n IH] using wf_ind'; intros x H.
  - cbn in *. constructor; [|constructor]. exists x. split; [exact H|reflexivity].
  - cbn in *. constructor; [|constructor]. exists x. split; [exact H|reflexivity].
  - change (constant_value acv (WSeq l) c) with (seq_cv_loop None (map (fun e => constant_value acv e c) l)) in H.
    change (wf_pieces (WSeq l)) with (flat_map wf_pieces l).
    apply seq_cv_loop_sound in H. destruct H as [_ H].
    induction IH as [|e r He _ IHr]; cbn [flat_map map] in *; [constructor|].
    inversion H as [|? ? (y & Hy & Hyx) Hr]; subst. apply Forall_app. split; [|apply IHr; auto].
    eapply Forall_impl; [|apply (He y Hy)]. intros p. apply const_on_Qeq. exact Hyx.
  - cbn [constant_value wf_pieces] in *. apply Forall_rep_list. apply IH. exact H.
Qed.

Theorem constant_value_admissible : forall acv w c,
  cv_admissible acv w c (constant_value acv w c) = true.
Proof.
  intros acv w c. unfold cv_admissible. destruct (constant_value acv w c) as [x|] eqn:E; [|reflexivity].
  apply forallb_forall. intros p Hp. pose proof (constant_value_sound acv w c x E) as HF.
  rewrite Forall_forall in HF. destruct (HF p Hp) as (y & -> & Hy). apply Qeq_bool_iff. exact Hy.
Qed.

(* ------------------------------------------------------------------------------------------------------------------ *)
(* T2 *)

Lemma play_at_in l : forall t, (0 <= t)%Q -> (t < total l)%Q ->
  exists p s, In p l /\ play_at l t = Some s /\ forall acv c, sample_cv acv s c = piece_cv acv p c.
Proof.
  induction l as [|p r IH]; intros t H0 Ht.
  - rewrite total_nil in Ht. lra.
  - rewrite total_cons in Ht. cbn [play_at]. destruct (Qlt_le_dec t (pdur p)).
    + exists p. eexists. split; [left; reflexivity|]. split; [reflexivity|]. intros acv c. destruct p; reflexivity.
    + destruct (IH (t - pdur p)%Q) as (p' & s & Hin & Hp & Hs); [lra|lra|].
      exists p', s. split; [right; exact Hin|]. split; auto.
Qed.

Theorem shortcut_plays : forall acv w c x t, wf_ok1b w = true ->
  constant_value acv w c = Some x -> (0 <= t)%Q -> (t < wf_dur w)%Q ->
  exists s y, play_at (wf_pieces w) t = Some s /\ sample_cv acv s c = Some y /\ (y == x)%Q.
Proof.
  intros acv w c x t Hok Hcv H0 Ht. rewrite (wf_ok1b_dur w Hok) in Ht.
  destruct (play_at_in (wf_pieces w) t H0 Ht) as (p & s & Hin & Hp & Hs).
  pose proof (constant_value_sound acv w c x Hcv) as HF. rewrite Forall_forall in HF.
  destruct (HF p Hin) as (y & Hy & Hyx). exists s, y. split; auto. split; auto. rewrite Hs. exact Hy.
Qed.

(* ------------------------------------------------------------------------------------------------------------------ *)
(* T3 *)

Lemma optQ_eq_refl a : optQ_eq a a.
Proof. destruct a; cbn; [reflexivity|exact I]. Qed.

Theorem get_sampled_eq_unsafe_sample : forall acv avolt w c t, acv_sound acv avolt -> wf_ok1b w = true ->
  (0 <= t)%Q -> (t < wf_dur w)%Q ->
  optQ_eq (get_sampled_at acv avolt w c t) (unsafe_at avolt w c t).
Proof.
  intros acv avolt w c t Hs Hok H0 Ht. unfold get_sampled_at.
  destruct (constant_value acv w c) as [x|] eqn:E; [|apply optQ_eq_refl].
  destruct (shortcut_plays acv w c x t Hok E H0 Ht) as (s & y & Hp & Hy & Hyx).
  unfold unsafe_at. rewrite Hp. destruct s as [i u|v]; cbn [sample_cv] in Hy.
  - cbn [optQ_eq]. rewrite (Hs i c y u Hy). symmetry. exact Hyx.
  - rewrite Hy. cbn [optQ_eq]. symmetry. exact Hyx.
Qed.

(* ------------------------------------------------------------------------------------------------------------------ *)
(* T4.  As stated (wf_ok1b w, wf_pieces w <> []) completeness is FALSE: [wf_ok1b] admits an empty SequenceWaveform
   [WSeq []] as a part; it plays nothing but answers None, and the loop gives up.  It holds when no sequence inside the
   waveform is empty (what from_sequence builds: it fails on []). *)

Theorem constant_value_complete_refuted : exists acv w c x, wf_ok1b w = true /\ wf_pieces w <> [] /\
  Forall (const_on acv c x) (wf_pieces w) /\ constant_value acv w c = None.
Proof.
  exists (fun _ _ => None), (WSeq [WConst 1 [(0%N, 1%Q)]; WSeq []]), 0%N, 1%Q.
  split; [reflexivity|]. split; [discriminate|]. split; [|reflexivity].
  constructor; [|constructor]. exists 1%Q. split; reflexivity.
Qed.


Lemma no_empty_seq_WSeq l : no_empty_seq (WSeq l) = negb (match l with [] => true | _ => false end) && forallb no_empty_seq l.
Proof. reflexivity. Qed.

Lemma rep_list_nil_inv {A} n (l : list A) : rep_list n l <> [] -> l <> [].
Proof. intros H E. subst. rewrite rep_list_nil in H. congruence. Qed.

Lemma pieces_nonempty : forall w, wf_ok1b w = true -> no_empty_seq w = true -> wf_pieces w <> [].
Proof.
  induction w as [i d|d v|l IH|b n IH] using wf_ind'; intros Hok Hne; try (cbn; discriminate).
  - change (wf_ok1b (WSeq l)) with (forallb wf_ok1b l) in Hok. rewrite no_empty_seq_WSeq in Hne.
    change (wf_pieces (WSeq l)) with (flat_map wf_pieces l).
    apply andb_true_iff in Hne. destruct Hne as [Hl Hne]. destruct l as [|e r]; [discriminate|].
    inversion IH as [|? ? He _]; subst. cbn [forallb flat_map] in *.
    apply andb_true_iff in Hok, Hne. destruct Hok as [Hok _], Hne as [Hne _].
    specialize (He Hok Hne). destruct (wf_pieces e); [congruence|discriminate].
  - cbn [wf_ok1b no_empty_seq wf_pieces] in *. apply andb_true_iff in Hok. destruct Hok as [Hok Hn].
    apply rep_list_nonempty; [|apply IH; auto]. apply Z.leb_le in Hn. lia.
Qed.

Theorem constant_value_complete_ne : forall acv w c x, wf_ok1b w = true -> no_empty_seq w = true ->
  Forall (const_on acv c x) (wf_pieces w) -> exists y, constant_value acv w c = Some y /\ (y == x)%Q.
Proof.
  intros acv w c x. induction w as [i d|d v|l IH|b n IH] using wf_ind'; intros Hok Hne HF.
  - cbn in *. inversion HF as [|? ? (y & Hy & Hyx) _]; subst. cbn in Hy. eauto.
  - cbn in *. inversion HF as [|? ? (y & Hy & Hyx) _]; subst. cbn in Hy. eauto.
  - change (wf_ok1b (WSeq l)) with (forallb wf_ok1b l) in Hok. rewrite no_empty_seq_WSeq in Hne.
    change (wf_pieces (WSeq l)) with (flat_map wf_pieces l) in HF.
    change (constant_value acv (WSeq l) c) with (seq_cv_loop None (map (fun e => constant_value acv e c) l)).
    apply andb_true_iff in Hne. destruct Hne as [Hl Hne].
    apply seq_cv_loop_complete.
    + discriminate.
    + clear Hl. induction IH as [|e r He _ IHr]; cbn [map]; [constructor|].
      cbn [forallb flat_map] in *. apply andb_true_iff in Hok, Hne. destruct Hok as [Hok1 Hok2], Hne as [Hne1 Hne2].
      apply Forall_app in HF. destruct HF as [HF1 HF2]. constructor; [|apply IHr; auto].
      destruct (He Hok1 Hne1 HF1) as (y & Hy & Hyx). exists y. split; auto.
    + right. destruct l; [discriminate|cbn; discriminate].
  - cbn [wf_ok1b no_empty_seq wf_pieces constant_value] in *. apply andb_true_iff in Hok. destruct Hok as [Hok Hn].
    apply IH; auto. apply Z.leb_le in Hn. destruct (Z.to_nat n) as [|k] eqn:E; [lia|].
    cbn [rep_list] in HF. apply Forall_app in HF. tauto.
Qed.

(* ------------------------------------------------------------------------------------------------------------------ *)
(* T5 *)

Theorem falsy_loop_refuted :
  seq_cv_loop_falsy None [Some 0%Q; Some 1%Q] = Some 1%Q /\ seq_cv_loop None [Some 0%Q; Some 1%Q] = None
  /\ cv_admissible (fun _ _ => None) (WSeq [WConst 4 [(0%N, 0%Q)]; WConst 12 [(0%N, 1%Q)]]) 0%N (Some 1%Q) = false.
Proof. repeat split; reflexivity. Qed.

(* non-vacuity examples *)
Example ex_cv_fires : constant_value (fun _ _ => None)
   (WSeq [WConst 4 [(0%N, 1#2)]; WRep (WConst 2 [(0%N, 2#4)]) 3]) 0%N = Some (1#2).
Proof. reflexivity. Qed.
Example ex_cv_none : constant_value (fun _ _ => None)
   (WSeq [WConst 4 [(0%N, 0%Q)]; WConst 12 [(0%N, 1%Q)]]) 0%N = None.
Proof. reflexivity. Qed.

Print Assumptions constant_value_sound.
Print Assumptions constant_value_admissible.
Print Assumptions shortcut_plays.
Print Assumptions get_sampled_eq_unsafe_sample.
Print Assumptions constant_value_complete_refuted.
Print Assumptions constant_value_complete_ne.
Print Assumptions falsy_loop_refuted.
Print Assumptions ex_cv_fires.
Print Assumptions ex_cv_none.
