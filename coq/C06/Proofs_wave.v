(* C06 — the specification device (pequiv / same_play) and the waveform-building rewrites
   (to_waveform, make_compatible, roll_constant_waveforms). *)
From Coq Require Import ZArith QArith Qround List Bool Lia ZifyBool Lqa Setoid Morphisms.
Require Import QV.C06.Model QV.C06.Spec QV.C06.Proofs_base QV.C06.Proofs_struct.
Import ListNotations.
Open Scope Z_scope.

(* ------------------------------------------------------------------------------------------------------------------ *)
(* A1. equivalences *)

Lemma vals_eqb_refl v : vals_eqb v v = true.
Proof. induction v as [|[c x] v IH]; cbn [vals_eqb]; auto. rewrite N.eqb_refl, Qeq_bool_refl, IH. reflexivity. Qed.

Lemma vals_eqb_sym a : forall b, vals_eqb a b = true -> vals_eqb b a = true.
Proof.
  induction a as [|[c x] a IH]; intros [|[c' x'] b]; cbn [vals_eqb]; auto; try discriminate.
  intros H. apply andb_true_iff in H. destruct H as [H H3]. apply andb_true_iff in H. destruct H as [H1 H2].
  rewrite (IH _ H3), N.eqb_sym, H1, (Qeq_bool_sym _ _ H2). reflexivity.
Qed.

Lemma vals_eqb_trans a : forall b c, vals_eqb a b = true -> vals_eqb b c = true -> vals_eqb a c = true.
Proof.
  induction a as [|[k x] a IH]; intros [|[k' x'] b] [|[k'' x''] c]; cbn [vals_eqb]; auto; try discriminate.
  intros H H'. apply andb_true_iff in H. destruct H as [H H3]. apply andb_true_iff in H. destruct H as [H1 H2].
  apply andb_true_iff in H'. destruct H' as [H' H3']. apply andb_true_iff in H'. destruct H' as [H1' H2'].
  rewrite (IH _ _ H3 H3'), (Qeq_bool_trans _ _ _ H2 H2'). apply N.eqb_eq in H1, H1'. subst. rewrite N.eqb_refl.
  reflexivity.
Qed.

Lemma piece_eq_refl p : piece_eq p p.
Proof. destruct p; constructor; try reflexivity. apply vals_eqb_refl. Qed.

Lemma piece_eq_sym p q : piece_eq p q -> piece_eq q p.
Proof. intros []; constructor; try (symmetry; assumption). apply vals_eqb_sym; auto. Qed.

Lemma piece_eq_trans p q r : piece_eq p q -> piece_eq q r -> piece_eq p r.
Proof.
  intros H1 H2. destruct H1; inversion H2; subst; constructor.
  - etransitivity; eauto.
  - etransitivity; eauto.
  - eapply vals_eqb_trans; eauto.
Qed.

Lemma piece_eq_pdur p q : piece_eq p q -> (pdur p == pdur q)%Q.
Proof. intros []; cbn [pdur]; auto. Qed.

Lemma pequiv_refl : forall a, pequiv a a.
Proof. induction a; constructor; auto. apply piece_eq_refl. Qed.

(* ------------------------------------------------------------------------------------------------------------------ *)
(* A2. congruence *)

Lemma pequiv_app_r a a' c : pequiv a a' -> pequiv (a ++ c) (a' ++ c).
Proof.
  induction 1; cbn [app].
  - apply pequiv_refl.
  - apply pe_cons; auto.
  - eapply pe_merge; eauto.
  - apply pe_sym; auto.
  - eapply pe_trans; eauto.
Qed.

Lemma pequiv_app_l c b b' : pequiv b b' -> pequiv (c ++ b) (c ++ b').
Proof. intros H. induction c; cbn [app]; auto. apply pe_cons; auto. apply piece_eq_refl. Qed.

Lemma pequiv_app a a' b b' : pequiv a a' -> pequiv b b' -> pequiv (a ++ b) (a' ++ b').
Proof. intros H1 H2. eapply pe_trans; [apply pequiv_app_r; eauto|apply pequiv_app_l; auto]. Qed.

Lemma pequiv_rep_list n a b : pequiv a b -> pequiv (rep_list n a) (rep_list n b).
Proof. intros H. induction n; cbn [rep_list]; [constructor|]. apply pequiv_app; auto. Qed.

Lemma pequiv_flat_map {A B} (f : A -> list piece) (g : B -> list piece) l l' :
  Forall2 (fun x y => pequiv (f x) (g y)) l l' -> pequiv (flat_map f l) (flat_map g l').
Proof. induction 1; cbn [flat_map]; [constructor|]. apply pequiv_app; auto. Qed.

Lemma pequiv_total a b : pequiv a b -> (total a == total b)%Q.
Proof.
  induction 1.
  - reflexivity.
  - rewrite !total_cons. rewrite IHpequiv, (piece_eq_pdur _ _ H). reflexivity.
  - rewrite !total_cons. cbn [pdur]. rewrite IHpequiv, H1. ring.
  - symmetry; auto.
  - etransitivity; eauto.
Qed.

(* ------------------------------------------------------------------------------------------------------------------ *)
(* A3. soundness of pequiv *)

Lemma sample_eq_refl s : sample_eq s s.
Proof. destruct s as [[i t|v]|]; cbn; auto. - split; reflexivity. - apply vals_eqb_refl. Qed.

Lemma sample_eq_sym s s' : sample_eq s s' -> sample_eq s' s.
Proof.
  destruct s as [[i t|v]|], s' as [[j u|w]|]; cbn; auto.
  - intros [-> H]. split; auto. symmetry; auto.
  - apply vals_eqb_sym.
Qed.

Lemma sample_eq_trans s1 s2 s3 : sample_eq s1 s2 -> sample_eq s2 s3 -> sample_eq s1 s3.
Proof.
  destruct s1 as [[i t|v]|], s2 as [[j u|w]|], s3 as [[k x|y]|]; cbn; auto; try tauto.
  - intros [-> H1] [-> H2]. split; auto. etransitivity; eauto.
  - apply vals_eqb_trans.
Qed.

Lemma play_at_Qeq l : forall t u, (t == u)%Q -> sample_eq (play_at l t) (play_at l u).
Proof.
  induction l as [|p l IH]; intros t u E; cbn [play_at]; [exact I|].
  destruct (Qlt_le_dec t (pdur p)), (Qlt_le_dec u (pdur p)); try lra.
  - destruct p; cbn; auto. apply vals_eqb_refl.
  - apply IH. lra.
Qed.

Lemma same_play_refl a : same_play a a.
Proof. split; [reflexivity|]. intros. apply sample_eq_refl. Qed.

Lemma same_play_sym a b : same_play a b -> same_play b a.
Proof. intros [H1 H2]. split; [symmetry; auto|]. intros. apply sample_eq_sym; auto. Qed.

Lemma same_play_trans a b c : same_play a b -> same_play b c -> same_play a c.
Proof.
  intros [H1 H2] [H3 H4]. split; [etransitivity; eauto|]. intros. eapply sample_eq_trans; eauto.
Qed.

Theorem pequiv_sound : forall a b, pequiv a b -> same_play a b.
Proof.
  induction 1 as [|p q a b Hpq Hab IH|d1 d2 d v1 v2 a b Hd1 Hd2 Hd Hv Hab IH| |].
  - apply same_play_refl.
  - destruct IH as [IH1 IH2]. pose proof (piece_eq_pdur _ _ Hpq) as Hpd. split.
    + rewrite !total_cons, IH1, Hpd. reflexivity.
    + intros t Ht. cbn [play_at].
      destruct (Qlt_le_dec t (pdur p)), (Qlt_le_dec t (pdur q)); try lra.
      * destruct Hpq; cbn; auto. split; reflexivity.
      * eapply sample_eq_trans; [apply IH2; lra|]. apply play_at_Qeq. lra.
  - destruct IH as [IH1 IH2]. split.
    + rewrite !total_cons. cbn [pdur]. rewrite IH1, Hd. ring.
    + intros t Ht. cbn [play_at pdur].
      destruct (Qlt_le_dec t d1), (Qlt_le_dec t d); try lra.
      * cbn. apply vals_eqb_refl.
      * destruct (Qlt_le_dec (t - d1) d2); try lra. cbn. apply vals_eqb_sym; auto.
      * destruct (Qlt_le_dec (t - d1) d2); try lra.
        eapply sample_eq_trans; [apply IH2; lra|]. apply play_at_Qeq. lra.
  - apply same_play_sym; auto.
  - eapply same_play_trans; eauto.
Qed.

(* ------------------------------------------------------------------------------------------------------------------ *)
(* A3'. soundness of the executable oracle *)

Definition nonneg (p : piece) : Prop := (0 <= pdur p)%Q.

Lemma norm_pequiv l : Forall nonneg l -> pequiv l (norm l) /\ Forall nonneg (norm l).
Proof.
  induction 1 as [|p r Hp Hr [IH1 IH2]]; cbn [norm]; [split; constructor|].
  assert (pequiv (p :: r) (p :: norm r)) as Hc by (apply pe_cons; auto; apply piece_eq_refl).
  destruct p as [i d|d v]; [split; auto|].
  destruct (norm r) as [|[j e|d' v'] r'] eqn:E; [split; auto|split; auto|].
  destruct (vals_eqb v v') eqn:Ev; [|split; auto].
  inversion IH2 as [|? ? Hd' Hr']; subst. unfold nonneg in Hp, Hd'. cbn [pdur] in Hp, Hd'. split.
  - eapply pe_trans; [exact Hc|]. eapply pe_merge; eauto; [|apply pequiv_refl]. apply Qred_correct.
  - constructor; auto. unfold nonneg. cbn [pdur]. rewrite Qred_correct. lra.
Qed.

Lemma piece_eqb_sound p q : piece_eqb p q = true -> piece_eq p q.
Proof.
  destruct p as [i d|d v], q as [j e|e u]; cbn [piece_eqb]; try discriminate; intros H;
    apply andb_true_iff in H; destruct H as [H1 H2].
  - apply N.eqb_eq in H1. subst. constructor. apply Qeq_bool_iff; auto.
  - constructor; auto. apply Qeq_bool_iff; auto.
Qed.

Lemma pieces_eqb_sound a : forall b, pieces_eqb a b = true -> pequiv a b.
Proof.
  induction a as [|p a IH]; intros [|q b]; cbn [pieces_eqb]; try discriminate; [constructor|].
  intros H. apply andb_true_iff in H. destruct H as [H1 H2]. apply pe_cons; auto. apply piece_eqb_sound; auto.
Qed.

Theorem pieces_equivb_sound : forall a b, Forall (fun p => (0 <= pdur p)%Q) a -> Forall (fun p => (0 <= pdur p)%Q) b ->
  pieces_equivb a b = true -> pequiv a b.
Proof.
  intros a b Ha Hb H. unfold pieces_equivb in H.
  destruct (norm_pequiv a Ha) as [Hna _]. destruct (norm_pequiv b Hb) as [Hnb _].
  eapply pe_trans; [exact Hna|]. eapply pe_trans; [apply pieces_eqb_sound; exact H|]. apply pe_sym; auto.
Qed.

(* ------------------------------------------------------------------------------------------------------------------ *)
(* A4. merging constants *)

Definition is_constv (v : vals) (p : piece) : Prop :=
  exists d u, p = PConst d u /\ (0 <= d)%Q /\ vals_eqb v u = true.

Lemma is_constv_nonneg v p : is_constv v p -> (0 <= pdur p)%Q.
Proof. intros (d & u & -> & H & _). exact H. Qed.

Lemma total_nonneg l : Forall (fun p => (0 <= pdur p)%Q) l -> (0 <= total l)%Q.
Proof. induction 1; [rewrite total_nil; lra|]. rewrite total_cons. lra. Qed.

Lemma is_constv_vals v v' p : vals_eqb v v' = true -> is_constv v' p -> is_constv v p.
Proof. intros E (d & u & -> & H & Hu). exists d, u. repeat split; auto. eapply vals_eqb_trans; eauto. Qed.

Lemma merge_consts v l : Forall (is_constv v) l -> l <> [] -> forall d, (d == total l)%Q -> pequiv l [PConst d v].
Proof.
  induction 1 as [|p l Hp Hl IH]; intros Hne d Hd; [congruence|].
  destruct Hp as (d0 & u & -> & Hd0 & Hu). rewrite total_cons in Hd. cbn [pdur] in Hd.
  destruct l as [|q l].
  - rewrite total_nil in Hd. apply pe_cons; [|constructor]. constructor; [lra|]. apply vals_eqb_sym; auto.
  - specialize (IH ltac:(discriminate) (total (q :: l)) ltac:(reflexivity)).
    assert (0 <= total (q :: l))%Q as HT.
    { apply total_nonneg. eapply Forall_impl; [|exact Hl]. apply is_constv_nonneg. }
    eapply pe_trans; [apply pe_cons; [apply piece_eq_refl|exact IH]|].
    eapply pe_trans; [eapply (pe_merge d0 (total (q :: l)) d u v [] []); auto; [apply vals_eqb_sym; auto|constructor]|].
    apply pe_cons; [|constructor]. constructor; [reflexivity|]. apply vals_eqb_sym; auto.
Qed.

Lemma Forall_rep_list {A} (P : A -> Prop) n l : Forall P l -> Forall P (rep_list n l).
Proof. intros H. induction n; cbn [rep_list]; [constructor|]. apply Forall_app. auto. Qed.

Lemma Qpos_of_okb d : negb (Qle_bool d 0) = true -> (0 < d)%Q.
Proof.
  intros H. apply negb_true_iff in H. apply Qnot_le_lt. intros C. apply Qle_bool_iff in C. congruence.
Qed.

Lemma wf_ok1b_okb : forall x, wf_ok1b x = true -> wf_okb x = true.
Proof.
  induction x as [i d|d v|l IH|b n IH] using wf_ind'; cbn [wf_ok1b wf_okb]; auto.
  - change (wf_ok1b (WSeq l)) with (forallb wf_ok1b l). change (wf_okb (WSeq l)) with (forallb wf_okb l).
    induction IH as [|c l Hc _ IHl]; cbn [forallb]; auto. intros H. apply andb_true_iff in H. destruct H as [H1 H2].
    rewrite (Hc H1), (IHl H2). reflexivity.
  - intros H. apply andb_true_iff in H. destruct H as [H1 H2]. rewrite (IH H1). cbn [andb]. lia.
Qed.

Lemma wf_ok1b_dur x : wf_ok1b x = true -> (wf_dur x == total (wf_pieces x))%Q.
Proof. intros H. apply wf_dur_total. apply wf_ok1b_okb; auto. Qed.

(* a waveform with constant values plays a nonempty list of such constants and has positive duration *)
Lemma cvd_pieces : forall x v, cvd x = Some v -> wf_ok1b x = true ->
  Forall (is_constv v) (wf_pieces x) /\ wf_pieces x <> [] /\ (0 < wf_dur x)%Q.
Proof.
  induction x as [i d|d u|l IH|b n IH] using wf_ind'; intros v Hc Hok; cbn [cvd] in Hc; try discriminate.
  - inversion Hc; subst u. cbn [wf_ok1b] in Hok. apply Qpos_of_okb in Hok. cbn [wf_pieces wf_dur].
    repeat split; auto; [|discriminate]. constructor; [|constructor]. exists d, v. repeat split; [lra|apply vals_eqb_refl].
  - cbn [wf_ok1b] in Hok. apply andb_true_iff in Hok. destruct Hok as [H1 H2].
    destruct (IH v Hc H1) as (HF & Hne & Hpos). cbn [wf_pieces wf_dur]. repeat split.
    + apply Forall_rep_list; auto.
    + destruct (Z.to_nat n) eqn:E; [lia|]. cbn [rep_list]. destruct (wf_pieces b); [congruence|discriminate].
    + assert (inject_Z 1 <= inject_Z n)%Q as Hn by (rewrite <- Zle_Qle; lia).
      change (inject_Z 1) with 1%Q in Hn. nra.
Qed.

Lemma wf_ok1b_dur_nonneg : forall x, wf_ok1b x = true -> (0 <= wf_dur x)%Q.
Proof.
  intros x H. rewrite (wf_ok1b_dur x H). apply total_nonneg.
  revert H. induction x as [i d|d v|l IH|b n IH] using wf_ind'; intros Hok.
  - cbn [wf_ok1b] in Hok. apply Qpos_of_okb in Hok. constructor; [cbn; lra|constructor].
  - cbn [wf_ok1b] in Hok. apply Qpos_of_okb in Hok. constructor; [cbn; lra|constructor].
  - change (wf_ok1b (WSeq l)) with (forallb wf_ok1b l) in Hok. change (wf_pieces (WSeq l)) with (flat_map wf_pieces l).
    induction IH as [|c l Hc _ IHl]; cbn [flat_map]; [constructor|].
    cbn [forallb] in Hok. apply andb_true_iff in Hok. destruct Hok as [H1 H2]. apply Forall_app. auto.
  - cbn [wf_ok1b] in Hok. apply andb_true_iff in Hok. destruct Hok as [H1 H2]. cbn [wf_pieces].
    apply Forall_rep_list; auto.
Qed.

(* ------------------------------------------------------------------------------------------------------------------ *)
(* B. to_waveform *)

Lemma okb_of_Qpos d : (0 < d)%Q -> negb (Qle_bool d 0) = true.
Proof.
  intros H. apply negb_true_iff. destruct (Qle_bool d 0) eqn:E; auto. apply Qle_bool_iff in E. lra.
Qed.

Lemma ok1b_inv rep w m ch : tree_ok1b (Node rep w m ch) = true ->
  1 <= rep /\ forallb tree_ok1b ch = true /\
  (ch = [] -> exists x, w = Some x /\ wf_ok1b x = true) /\ (ch <> [] -> w = None).
Proof.
  destruct ch as [|c ch]; simpl; intros H.
  - apply andb_true_iff in H. destruct H as [H1 H2]. repeat split; try lia; try congruence.
    intros _. destruct w as [x|]; [eauto|discriminate].
  - destruct w; rewrite ?andb_false_r in H; simpl in H; try discriminate.
    rewrite andb_true_r in H. apply andb_true_iff in H. destruct H as [H1 H2].
    repeat split; try lia; auto. congruence.
Qed.

Lemma ok1b_intro_none rep m ch : 1 <= rep -> ch <> [] -> forallb tree_ok1b ch = true ->
  tree_ok1b (Node rep None m ch) = true.
Proof.
  intros H1 Hne H2. destruct ch as [|c ch]; [congruence|]. simpl. simpl in H2.
  rewrite H2, andb_true_r, andb_true_r. lia.
Qed.

Lemma ok1b_intro_leaf rep x m : 1 <= rep -> wf_ok1b x = true -> tree_ok1b (Node rep (Some x) m []) = true.
Proof. intros H1 H2. simpl. rewrite H2, andb_true_r. lia. Qed.

Lemma tree_ok1b_okb : forall t, tree_ok1b t = true -> tree_okb t = true.
Proof.
  induction t as [rep w m ch IH] using tree_ind'. intros H.
  destruct (ok1b_inv _ _ _ _ H) as (Hr & Hch & Hleaf & Hw).
  assert (forallb tree_okb ch = true) as Hch'.
  { clear H Hleaf Hw. induction IH as [|c l Hc _ IHl]; cbn [forallb] in *; auto.
    apply andb_true_iff in Hch. destruct Hch as [H1 H2]. rewrite (Hc H1), (IHl H2). reflexivity. }
  destruct ch as [|c ch].
  - destruct (Hleaf eq_refl) as (x & -> & Hx). simpl. rewrite (wf_ok1b_okb x Hx), andb_true_r. lia.
  - rewrite (Hw ltac:(discriminate)). apply okb_intro_none; auto. lia.
Qed.

Lemma rep_list_nonempty {A} n (l : list A) : (1 <= n)%nat -> l <> [] -> rep_list n l <> [].
Proof. intros Hn Hl. destruct n; [lia|]. cbn [rep_list]. destruct l; [congruence|discriminate]. Qed.

Lemma frc_pequiv b n y : wf_ok1b b = true -> 1 <= n -> from_repetition_count b n = Ok y ->
  pequiv (wf_pieces y) (rep_list (Z.to_nat n) (wf_pieces b)) /\ wf_ok1b y = true.
Proof.
  intros Hok Hn H. unfold from_repetition_count in H. destruct (cvd b) as [v|] eqn:Hc.
  - inversion H; subst y; clear H. destruct (cvd_pieces b v Hc Hok) as (HF & Hne & Hpos).
    assert (inject_Z 1 <= inject_Z n)%Q as Hq by (rewrite <- Zle_Qle; lia). change (inject_Z 1) with 1%Q in Hq.
    cbn [wf_pieces wf_ok1b]. split.
    + apply pe_sym. apply merge_consts.
      * apply Forall_rep_list; auto.
      * apply rep_list_nonempty; auto. lia.
      * Show. rewrite Qred_correct. rewrite total_rep_list_Z by lia. rewrite (wf_ok1b_dur b Hok). reflexivity.
    + apply okb_of_Qpos. rewrite Qred_correct. nra.
  - destruct (n <? 1) eqn:E; [lia|]. inversion H; subst y. cbn [wf_pieces wf_ok1b]. split; [apply pequiv_refl|].
    rewrite Hok. cbn [andb]. lia.
Qed.

Lemma seq_flatten_cons w ws :
  seq_flatten (w :: ws) = (match w with WSeq l => l | _ => [w] end) ++ seq_flatten ws.
Proof. reflexivity. Qed.

Lemma wf_pieces_seq_flatten ws : flat_map wf_pieces (seq_flatten ws) = flat_map wf_pieces ws.
Proof.
  induction ws as [|w ws IH]; [reflexivity|]. rewrite seq_flatten_cons, flat_map_app, IH. cbn [flat_map]. f_equal.
  destruct w; cbn [flat_map]; rewrite ?app_nil_r; reflexivity.
Qed.

Lemma ok1b_seq_flatten ws : forallb wf_ok1b ws = true -> forallb wf_ok1b (seq_flatten ws) = true.
Proof.
  induction ws as [|w ws IH]; [reflexivity|]. cbn [forallb]. intros H. apply andb_true_iff in H. destruct H as [H1 H2].
  rewrite seq_flatten_cons, forallb_app, (IH H2), andb_true_r.
  destruct w; cbn [forallb]; rewrite ?andb_true_r; auto.
Qed.

Lemma qsum_app a b : (qsum (a ++ b) == qsum a + qsum b)%Q.
Proof. induction a as [|x a IH]; cbn [app]; [cbn; ring|]. rewrite !qsum_cons, IH. ring. Qed.

Lemma dur_seq_flatten ws : (qsum (map wf_dur (seq_flatten ws)) == qsum (map wf_dur ws))%Q.
Proof.
  induction ws as [|w ws IH]; [reflexivity|]. rewrite seq_flatten_cons, map_app, qsum_app, IH. cbn [map].
  rewrite qsum_cons. apply Qplus_comp; [|reflexivity].
  destruct w; cbn [map]; rewrite ?qsum_cons; cbn [qsum fold_right]; try ring. reflexivity.
Qed.

Lemma dur_list_total ws : forallb wf_ok1b ws = true -> (qsum (map wf_dur ws) == total (flat_map wf_pieces ws))%Q.
Proof.
  induction ws as [|w ws IH]; [reflexivity|]. cbn [forallb map flat_map]. intros H. apply andb_true_iff in H.
  destruct H as [H1 H2]. rewrite qsum_cons, total_app, (IH H2), (wf_ok1b_dur w H1). reflexivity.
Qed.

Lemma all_const_pieces v ws : all_const_equal v ws = true -> forallb wf_ok1b ws = true ->
  Forall (is_constv v) (flat_map wf_pieces ws) /\ Forall (fun w => wf_pieces w <> [] /\ (0 < wf_dur w)%Q) ws.
Proof.
  unfold all_const_equal. induction ws as [|w ws IH]; cbn [forallb flat_map]; [split; constructor|].
  intros H H'. apply andb_true_iff in H, H'. destruct H as [H1 H2], H' as [H1' H2'].
  destruct (IH H2 H2') as [IHa IHb]. destruct (cvd w) as [v'|] eqn:Hc; [|discriminate].
  destruct (cvd_pieces w v' Hc H1') as (HF & Hne & Hpos). split.
  - apply Forall_app. split; auto. eapply Forall_impl; [|exact HF]. intros p. apply is_constv_vals; auto.
  - constructor; auto.
Qed.

Lemma fs_pequiv ws y : forallb wf_ok1b ws = true -> from_sequence ws = Ok y ->
  pequiv (wf_pieces y) (flat_map wf_pieces ws) /\ wf_ok1b y = true.
Proof.
  intros Hok H.
  assert (pequiv (wf_pieces (WSeq (seq_flatten ws))) (flat_map wf_pieces ws) /\ wf_ok1b (WSeq (seq_flatten ws)) = true)
    as Hseq.
  { change (wf_pieces (WSeq (seq_flatten ws))) with (flat_map wf_pieces (seq_flatten ws)).
    change (wf_ok1b (WSeq (seq_flatten ws))) with (forallb wf_ok1b (seq_flatten ws)).
    rewrite wf_pieces_seq_flatten. split; [apply pequiv_refl|apply ok1b_seq_flatten; auto]. }
  unfold from_sequence in H. destruct ws as [|w0 [|w1 ws']]; [discriminate| |].
  - inversion H; subst y. cbn [flat_map forallb] in *. rewrite app_nil_r. rewrite andb_true_r in Hok.
    split; [apply pequiv_refl|auto].
  - remember (w0 :: w1 :: ws') as ws eqn:Ews.
    destruct (cvd w0) as [v|] eqn:Hc; [|inversion H; subst y; exact Hseq].
    destruct (all_const_equal v ws) eqn:Hall; [|inversion H; subst y; exact Hseq].
    inversion H; subst y; clear H. destruct (all_const_pieces v ws Hall Hok) as [HF Hpos].
    cbn [wf_pieces wf_ok1b]. split.
    + apply pe_sym. apply merge_consts; auto.
      * subst ws. inversion Hpos as [|? ? [Hne _] _]; subst. cbn [flat_map]. destruct (wf_pieces w0); [congruence|discriminate].
      * rewrite Qred_correct, dur_seq_flatten. apply dur_list_total; auto.
    + apply okb_of_Qpos. rewrite Qred_correct, dur_seq_flatten.
      subst ws. inversion Hpos as [|? ? [_ Hp0] Hrest]; subst. cbn [map]. rewrite qsum_cons.
      assert (0 <= qsum (map wf_dur (w1 :: ws')))%Q; [|lra].
      clear -Hrest. induction Hrest as [|w l [_ Hw] _ IH]; cbn [map]; [cbn; lra|]. rewrite qsum_cons. lra.
Qed.

Definition tw_go : list tree -> result (list wf) :=
  fix go (l : list tree) : result (list wf) :=
    match l with
    | [] => Ok []
    | c :: r => bind (to_waveform c) (fun x => bind (go r) (fun xs => Ok (x :: xs)))
    end.

Lemma tw_go_cons c r : tw_go (c :: r) = bind (to_waveform c) (fun x => bind (tw_go r) (fun xs => Ok (x :: xs))).
Proof. reflexivity. Qed.

Lemma to_waveform_inner rep w m c ch :
  to_waveform (Node rep w m (c :: ch)) =
  bind (tw_go (c :: ch))
       (fun ws => bind (from_sequence ws) (fun sw => if 1 <? rep then from_repetition_count sw rep else Ok sw)).
Proof. reflexivity. Qed.

Theorem to_waveform_pequiv : forall t x, tree_ok1b t = true -> to_waveform t = Ok x ->
  pequiv (wf_pieces x) (pieces t) /\ wf_ok1b x = true.
Proof.
  induction t as [rep w m ch IH] using tree_ind'. intros x Hok H.
  destruct (ok1b_inv _ _ _ _ Hok) as (Hr & Hch & Hleaf & Hw).
  destruct ch as [|c ch].
  - destruct (Hleaf eq_refl) as (x0 & -> & Hx0). cbn [to_waveform pieces] in *.
    destruct (rep =? 1) eqn:E.
    + inversion H; subst x0. assert (rep = 1) as -> by lia. cbn. rewrite app_nil_r. split; [apply pequiv_refl|auto].
    + apply frc_pequiv; auto.
  - rewrite to_waveform_inner in H. rewrite (Hw ltac:(discriminate)), pieces_node_none.
    remember (c :: ch) as l eqn:El. clear El Hleaf Hw Hok.
    assert (forall ws, tw_go l = Ok ws ->
                       pequiv (flat_map wf_pieces ws) (flat_map pieces l) /\ forallb wf_ok1b ws = true) as Hgo.
    { clear H. induction IH as [|a l Ha _ IHl]; intros ws H.
      - inversion H. split; [constructor|reflexivity].
      - rewrite tw_go_cons in H. cbn [forallb] in Hch. apply andb_true_iff in Hch. destruct Hch as [H1 H2].
        destruct (to_waveform a) as [xa|] eqn:Hxa; [|discriminate]. cbn [bind] in H.
        destruct (tw_go l) as [xs|] eqn:Hxs; [|discriminate]. cbn [bind] in H. inversion H; subst ws.
        destruct (Ha xa H1 eq_refl) as [Hp Ho]. destruct (IHl H2 xs eq_refl) as [Hp' Ho'].
        cbn [flat_map forallb]. rewrite Ho, Ho'. split; auto. apply pequiv_app; auto. }
    destruct (tw_go l) as [ws|] eqn:Hws; [|discriminate]. cbn [bind] in H.
    destruct (Hgo ws eq_refl) as [Hp Ho].
    destruct (from_sequence ws) as [sw|] eqn:Hsw; [|discriminate]. cbn [bind] in H.
    destruct (fs_pequiv ws sw Ho Hsw) as [Hp' Ho'].
    assert (pequiv (wf_pieces sw) (flat_map pieces l)) as Hp2 by (eapply pe_trans; eauto).
    destruct (1 <? rep) eqn:E.
    + destruct (frc_pequiv sw rep x Ho' Hr H) as [Hp3 Ho3]. split; auto.
      eapply pe_trans; [exact Hp3|]. apply pequiv_rep_list; auto.
    + inversion H; subst x. assert (rep = 1) as -> by lia. cbn. rewrite app_nil_r. auto.
Qed.

Corollary to_waveform_duration : forall t x, tree_ok1b t = true -> to_waveform t = Ok x -> (wf_dur x == duration t)%Q.
Proof.
  intros t x Hok H. destruct (to_waveform_pequiv t x Hok H) as [Hp Ho].
  rewrite (wf_ok1b_dur x Ho), (duration_total t (tree_ok1b_okb t Hok)). apply pequiv_total; auto.
Qed.
