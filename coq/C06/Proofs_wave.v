(* C06 — the specification device (pequiv / same_play) and the waveform-building rewrites
   (to_waveform, make_compatible, roll_constant_waveforms). *)
From Coq Require Import ZArith QArith Qround List Bool Lia ZifyBool Lqa Setoid Morphisms.
Require Import QV.C06.Model QV.C06.Spec QV.C06.Proofs_base QV.C06.Proofs_struct.
Import ListNotations.
Open Scope Z_scope.

(* ------------------------------------------------------------------------------------------------------------------ *)
(* A1. equivalences *)

Lemma vals_eqb_refl v : vals_eqb v v = true.
Proof. induction v as [|[c x] v IH]; cbn [vals_eqb]; auto. rewrite N.eqb_refl, Qeq_bool_refl, IH. reflexivity. Qed.

Lemma vals_eqb_sym a : forall b, vals_eqb a b = true -> vals_eqb b a = true.
Proof.
  induction a as [|[c x] a IH]; intros [|[c' x'] b]; cbn [vals_eqb]; auto; try discriminate.
  intros H. apply andb_true_iff in H. destruct H as [H H3]. apply andb_true_iff in H. destruct H as [H1 H2].
  rewrite (IH _ H3), N.eqb_sym, H1, (Qeq_bool_sym _ _ H2). reflexivity.
Qed.

Lemma vals_eqb_trans a : forall b c, vals_eqb a b = true -> vals_eqb b c = true -> vals_eqb a c = true.
Proof.
  induction a as [|[k x] a IH]; intros [|[k' x'] b] [|[k'' x''] c]; cbn [vals_eqb]; auto; try discriminate.
  intros H H'. apply andb_true_iff in H. destruct H as [H H3]. apply andb_true_iff in H. destruct H as [H1 H2].
  apply andb_true_iff in H'. destruct H' as [H' H3']. apply andb_true_iff in H'. destruct H' as [H1' H2'].
  rewrite (IH _ _ H3 H3'), (Qeq_bool_trans _ _ _ H2 H2'). apply N.eqb_eq in H1, H1'. subst. rewrite N.eqb_refl.
  reflexivity.
Qed.

Lemma piece_eq_refl p : piece_eq p p.
Proof. destruct p; constructor; try reflexivity. apply vals_eqb_refl. Qed.

Lemma piece_eq_sym p q : piece_eq p q -> piece_eq q p.
Proof. intros []; constructor; try (symmetry; assumption). apply vals_eqb_sym; auto. Qed.

Lemma piece_eq_trans p q r : piece_eq p q -> piece_eq q r -> piece_eq p r.
Proof.
  intros H1 H2. destruct H1; inversion H2; subst; constructor.
  - etransitivity; eauto.
  - etransitivity; eauto.
  - eapply vals_eqb_trans; eauto.
Qed.

Lemma piece_eq_pdur p q : piece_eq p q -> (pdur p == pdur q)%Q.
Proof. intros []; cbn [pdur]; auto. Qed.

Lemma pequiv_refl : forall a, pequiv a a.
Proof. induction a; constructor; auto. apply piece_eq_refl. Qed.

(* ------------------------------------------------------------------------------------------------------------------ *)
(* A2. congruence *)

Lemma pequiv_app_r a a' c : pequiv a a' -> pequiv (a ++ c) (a' ++ c).
Proof.
  induction 1; cbn [app].
  - apply pequiv_refl.
  - apply pe_cons; auto.
  - eapply pe_merge; eauto.
  - apply pe_sym; auto.
  - eapply pe_trans; eauto.
Qed.

Lemma pequiv_app_l c b b' : pequiv b b' -> pequiv (c ++ b) (c ++ b').
Proof. intros H. induction c; cbn [app]; auto. apply pe_cons; auto. apply piece_eq_refl. Qed.

Lemma pequiv_app a a' b b' : pequiv a a' -> pequiv b b' -> pequiv (a ++ b) (a' ++ b').
Proof. intros H1 H2. eapply pe_trans; [apply pequiv_app_r; eauto|apply pequiv_app_l; auto]. Qed.

Lemma pequiv_rep_list n a b : pequiv a b -> pequiv (rep_list n a) (rep_list n b).
Proof. intros H. induction n; cbn [rep_list]; [constructor|]. apply pequiv_app; auto. Qed.

Lemma pequiv_flat_map {A B} (f : A -> list piece) (g : B -> list piece) l l' :
  Forall2 (fun x y => pequiv (f x) (g y)) l l' -> pequiv (flat_map f l) (flat_map g l').
Proof. induction 1; cbn [flat_map]; [constructor|]. apply pequiv_app; auto. Qed.

Lemma pequiv_total a b : pequiv a b -> (total a == total b)%Q.
Proof.
  induction 1.
  - reflexivity.
  - rewrite !total_cons. rewrite IHpequiv, (piece_eq_pdur _ _ H). reflexivity.
  - rewrite !total_cons. cbn [pdur]. rewrite IHpequiv, H1. ring.
  - symmetry; auto.
  - etransitivity; eauto.
Qed.

(* ------------------------------------------------------------------------------------------------------------------ *)
(* A3. soundness of pequiv *)

Lemma sample_eq_refl s : sample_eq s s.
Proof. destruct s as [[i t|v]|]; cbn; auto. - split; reflexivity. - apply vals_eqb_refl. Qed.

Lemma sample_eq_sym s s' : sample_eq s s' -> sample_eq s' s.
Proof.
  destruct s as [[i t|v]|], s' as [[j u|w]|]; cbn; auto.
  - intros [-> H]. split; auto. symmetry; auto.
  - apply vals_eqb_sym.
Qed.

Lemma sample_eq_trans s1 s2 s3 : sample_eq s1 s2 -> sample_eq s2 s3 -> sample_eq s1 s3.
Proof.
  destruct s1 as [[i t|v]|], s2 as [[j u|w]|], s3 as [[k x|y]|]; cbn; auto; try tauto.
  - intros [-> H1] [-> H2]. split; auto. etransitivity; eauto.
  - apply vals_eqb_trans.
Qed.

Lemma play_at_Qeq l : forall t u, (t == u)%Q -> sample_eq (play_at l t) (play_at l u).
Proof.
  induction l as [|p l IH]; intros t u E; cbn [play_at]; [exact I|].
  destruct (Qlt_le_dec t (pdur p)), (Qlt_le_dec u (pdur p)); try lra.
  - destruct p; cbn; auto. apply vals_eqb_refl.
  - apply IH. lra.
Qed.

Lemma same_play_refl a : same_play a a.
Proof. split; [reflexivity|]. intros. apply sample_eq_refl. Qed.

Lemma same_play_sym a b : same_play a b -> same_play b a.
Proof. intros [H1 H2]. split; [symmetry; auto|]. intros. apply sample_eq_sym; auto. Qed.

Lemma same_play_trans a b c : same_play a b -> same_play b c -> same_play a c.
Proof.
  intros [H1 H2] [H3 H4]. split; [etransitivity; eauto|]. intros. eapply sample_eq_trans; eauto.
Qed.

Theorem pequiv_sound : forall a b, pequiv a b -> same_play a b.
Proof.
  induction 1 as [|p q a b Hpq Hab IH|d1 d2 d v1 v2 a b Hd1 Hd2 Hd Hv Hab IH| |].
  - apply same_play_refl.
  - destruct IH as [IH1 IH2]. pose proof (piece_eq_pdur _ _ Hpq) as Hpd. split.
    + rewrite !total_cons, IH1, Hpd. reflexivity.
    + intros t Ht. cbn [play_at].
      destruct (Qlt_le_dec t (pdur p)), (Qlt_le_dec t (pdur q)); try lra.
      * destruct Hpq; cbn; auto. split; reflexivity.
      * eapply sample_eq_trans; [apply IH2; lra|]. apply play_at_Qeq. lra.
  - destruct IH as [IH1 IH2]. split.
    + rewrite !total_cons. cbn [pdur]. rewrite IH1, Hd. ring.
    + intros t Ht. cbn [play_at pdur].
      destruct (Qlt_le_dec t d1), (Qlt_le_dec t d); try lra.
      * cbn. apply vals_eqb_refl.
      * destruct (Qlt_le_dec (t - d1) d2); try lra. cbn. apply vals_eqb_sym; auto.
      * destruct (Qlt_le_dec (t - d1) d2); try lra.
        eapply sample_eq_trans; [apply IH2; lra|]. apply play_at_Qeq. lra.
  - apply same_play_sym; auto.
  - eapply same_play_trans; eauto.
Qed.

(* ------------------------------------------------------------------------------------------------------------------ *)
(* A3'. soundness of the executable oracle *)

Definition nonneg (p : piece) : Prop := (0 <= pdur p)%Q.

Lemma norm_pequiv l : Forall nonneg l -> pequiv l (norm l) /\ Forall nonneg (norm l).
Proof.
  induction 1 as [|p r Hp Hr [IH1 IH2]]; cbn [norm]; [split; constructor|].
  assert (pequiv (p :: r) (p :: norm r)) as Hc by (apply pe_cons; auto; apply piece_eq_refl).
  destruct p as [i d|d v]; [split; auto|].
  destruct (norm r) as [|[j e|d' v'] r'] eqn:E; [split; auto|split; auto|].
  destruct (vals_eqb v v') eqn:Ev; [|split; auto].
  inversion IH2 as [|? ? Hd' Hr']; subst. unfold nonneg in Hp, Hd'. cbn [pdur] in Hp, Hd'. split.
  - eapply pe_trans; [exact Hc|]. eapply pe_merge; eauto; [|apply pequiv_refl]. apply Qred_correct.
  - constructor; auto. unfold nonneg. cbn [pdur]. rewrite Qred_correct. lra.
Qed.

Lemma piece_eqb_sound p q : piece_eqb p q = true -> piece_eq p q.
Proof.
  destruct p as [i d|d v], q as [j e|e u]; cbn [piece_eqb]; try discriminate; intros H;
    apply andb_true_iff in H; destruct H as [H1 H2].
  - apply N.eqb_eq in H1. subst. constructor. apply Qeq_bool_iff; auto.
  - constructor; auto. apply Qeq_bool_iff; auto.
Qed.

Lemma pieces_eqb_sound a : forall b, pieces_eqb a b = true -> pequiv a b.
Proof.
  induction a as [|p a IH]; intros [|q b]; cbn [pieces_eqb]; try discriminate; [constructor|].
  intros H. apply andb_true_iff in H. destruct H as [H1 H2]. apply pe_cons; auto. apply piece_eqb_sound; auto.
Qed.

Theorem pieces_equivb_sound : forall a b, Forall (fun p => (0 <= pdur p)%Q) a -> Forall (fun p => (0 <= pdur p)%Q) b ->
  pieces_equivb a b = true -> pequiv a b.
Proof.
  intros a b Ha Hb H. unfold pieces_equivb in H.
  destruct (norm_pequiv a Ha) as [Hna _]. destruct (norm_pequiv b Hb) as [Hnb _].
  eapply pe_trans; [exact Hna|]. eapply pe_trans; [apply pieces_eqb_sound; exact H|]. apply pe_sym; auto.
Qed.

(* ------------------------------------------------------------------------------------------------------------------ *)
(* A4. merging constants *)

Definition is_constv (v : vals) (p : piece) : Prop :=
  exists d u, p = PConst d u /\ (0 <= d)%Q /\ vals_eqb v u = true.

Lemma is_constv_nonneg v p : is_constv v p -> (0 <= pdur p)%Q.
Proof. intros (d & u & -> & H & _). exact H. Qed.

Lemma total_nonneg l : Forall (fun p => (0 <= pdur p)%Q) l -> (0 <= total l)%Q.
Proof. induction 1; [rewrite total_nil; lra|]. rewrite total_cons. lra. Qed.

Lemma is_constv_vals v v' p : vals_eqb v v' = true -> is_constv v' p -> is_constv v p.
Proof. intros E (d & u & -> & H & Hu). exists d, u. repeat split; auto. eapply vals_eqb_trans; eauto. Qed.

Lemma merge_consts v l : Forall (is_constv v) l -> l <> [] -> forall d, (d == total l)%Q -> pequiv l [PConst d v].
Proof.
  induction 1 as [|p l Hp Hl IH]; intros Hne d Hd; [congruence|].
  destruct Hp as (d0 & u & -> & Hd0 & Hu). rewrite total_cons in Hd. cbn [pdur] in Hd.
  destruct l as [|q l].
  - rewrite total_nil in Hd. apply pe_cons; [|constructor]. constructor; [lra|]. apply vals_eqb_sym; auto.
  - specialize (IH ltac:(discriminate) (total (q :: l)) ltac:(reflexivity)).
    assert (0 <= total (q :: l))%Q as HT.
    { apply total_nonneg. eapply Forall_impl; [|exact Hl]. apply is_constv_nonneg. }
    eapply pe_trans; [apply pe_cons; [apply piece_eq_refl|exact IH]|].
    eapply pe_trans; [eapply (pe_merge d0 (total (q :: l)) d u v [] []); auto; [apply vals_eqb_sym; auto|constructor]|].
    apply pe_cons; [|constructor]. constructor; [reflexivity|]. apply vals_eqb_sym; auto.
Qed.

Lemma Forall_rep_list {A} (P : A -> Prop) n l : Forall P l -> Forall P (rep_list n l).
Proof. intros H. induction n; cbn [rep_list]; [constructor|]. apply Forall_app. auto. Qed.

Lemma Qpos_of_okb d : negb (Qle_bool d 0) = true -> (0 < d)%Q.
Proof.
  intros H. apply negb_true_iff in H. apply Qnot_le_lt. intros C. apply Qle_bool_iff in C. congruence.
Qed.

Lemma wf_ok1b_okb : forall x, wf_ok1b x = true -> wf_okb x = true.
Proof.
  induction x as [i d|d v|l IH|b n IH] using wf_ind'; cbn [wf_ok1b wf_okb]; auto.
  - change (wf_ok1b (WSeq l)) with (forallb wf_ok1b l). change (wf_okb (WSeq l)) with (forallb wf_okb l).
    induction IH as [|c l Hc _ IHl]; cbn [forallb]; auto. intros H. apply andb_true_iff in H. destruct H as [H1 H2].
    rewrite (Hc H1), (IHl H2). reflexivity.
  - intros H. apply andb_true_iff in H. destruct H as [H1 H2]. rewrite (IH H1). cbn [andb]. lia.
Qed.

Lemma wf_ok1b_dur x : wf_ok1b x = true -> (wf_dur x == total (wf_pieces x))%Q.
Proof. intros H. apply wf_dur_total. apply wf_ok1b_okb; auto. Qed.

(* a waveform with constant values plays a nonempty list of such constants and has positive duration *)
Lemma cvd_pieces : forall x v, cvd x = Some v -> wf_ok1b x = true ->
  Forall (is_constv v) (wf_pieces x) /\ wf_pieces x <> [] /\ (0 < wf_dur x)%Q.
Proof.
  induction x as [i d|d u|l IH|b n IH] using wf_ind'; intros v Hc Hok; cbn [cvd] in Hc; try discriminate.
  - inversion Hc; subst u. cbn [wf_ok1b] in Hok. apply Qpos_of_okb in Hok. cbn [wf_pieces wf_dur].
    repeat split; auto; [|discriminate]. constructor; [|constructor]. exists d, v. repeat split; [lra|apply vals_eqb_refl].
  - cbn [wf_ok1b] in Hok. apply andb_true_iff in Hok. destruct Hok as [H1 H2].
    destruct (IH v Hc H1) as (HF & Hne & Hpos). cbn [wf_pieces wf_dur]. repeat split.
    + apply Forall_rep_list; auto.
    + destruct (Z.to_nat n) eqn:E; [lia|]. cbn [rep_list]. destruct (wf_pieces b); [congruence|discriminate].
    + assert (inject_Z 1 <= inject_Z n)%Q as Hn by (rewrite <- Zle_Qle; lia).
      change (inject_Z 1) with 1%Q in Hn. nra.
Qed.

Lemma wf_ok1b_dur_nonneg : forall x, wf_ok1b x = true -> (0 <= wf_dur x)%Q.
Proof.
  intros x H. rewrite (wf_ok1b_dur x H). apply total_nonneg.
  revert H. induction x as [i d|d v|l IH|b n IH] using wf_ind'; intros Hok.
  - cbn [wf_ok1b] in Hok. apply Qpos_of_okb in Hok. constructor; [cbn; lra|constructor].
  - cbn [wf_ok1b] in Hok. apply Qpos_of_okb in Hok. constructor; [cbn; lra|constructor].
  - change (wf_ok1b (WSeq l)) with (forallb wf_ok1b l) in Hok. change (wf_pieces (WSeq l)) with (flat_map wf_pieces l).
    induction IH as [|c l Hc _ IHl]; cbn [flat_map]; [constructor|].
    cbn [forallb] in Hok. apply andb_true_iff in Hok. destruct Hok as [H1 H2]. apply Forall_app. auto.
  - cbn [wf_ok1b] in Hok. apply andb_true_iff in Hok. destruct Hok as [H1 H2]. cbn [wf_pieces].
    apply Forall_rep_list; auto.
Qed.

(* ------------------------------------------------------------------------------------------------------------------ *)
(* B. to_waveform *)

Lemma okb_of_Qpos d : (0 < d)%Q -> negb (Qle_bool d 0) = true.
Proof.
  intros H. apply negb_true_iff. destruct (Qle_bool d 0) eqn:E; auto. apply Qle_bool_iff in E. lra.
Qed.

Lemma ok1b_inv rep w m ch : tree_ok1b (Node rep w m ch) = true ->
  1 <= rep /\ forallb tree_ok1b ch = true /\
  (ch = [] -> exists x, w = Some x /\ wf_ok1b x = true) /\ (ch <> [] -> w = None).
Proof.
  destruct ch as [|c ch]; simpl; intros H.
  - apply andb_true_iff in H. destruct H as [H1 H2]. repeat split; try lia; try congruence.
    intros _. destruct w as [x|]; [eauto|discriminate].
  - destruct w; rewrite ?andb_false_r in H; simpl in H; try discriminate.
    rewrite andb_true_r in H. apply andb_true_iff in H. destruct H as [H1 H2].
    repeat split; try lia; auto. congruence.
Qed.

Lemma ok1b_intro_none rep m ch : 1 <= rep -> ch <> [] -> forallb tree_ok1b ch = true ->
  tree_ok1b (Node rep None m ch) = true.
Proof.
  intros H1 Hne H2. destruct ch as [|c ch]; [congruence|]. simpl. simpl in H2.
  rewrite H2, andb_true_r, andb_true_r. lia.
Qed.

Lemma ok1b_intro_leaf rep x m : 1 <= rep -> wf_ok1b x = true -> tree_ok1b (Node rep (Some x) m []) = true.
Proof. intros H1 H2. simpl. rewrite H2, andb_true_r. lia. Qed.

Lemma tree_ok1b_okb : forall t, tree_ok1b t = true -> tree_okb t = true.
Proof.
  induction t as [rep w m ch IH] using tree_ind'. intros H.
  destruct (ok1b_inv _ _ _ _ H) as (Hr & Hch & Hleaf & Hw).
  assert (forallb tree_okb ch = true) as Hch'.
  { clear H Hleaf Hw. induction IH as [|c l Hc _ IHl]; cbn [forallb] in *; auto.
    apply andb_true_iff in Hch. destruct Hch as [H1 H2]. rewrite (Hc H1), (IHl H2). reflexivity. }
  destruct ch as [|c ch].
  - destruct (Hleaf eq_refl) as (x & -> & Hx). simpl. rewrite (wf_ok1b_okb x Hx), andb_true_r. lia.
  - rewrite (Hw ltac:(discriminate)). apply okb_intro_none; auto. lia.
Qed.

Lemma rep_list_nonempty {A} n (l : list A) : (1 <= n)%nat -> l <> [] -> rep_list n l <> [].
Proof. intros Hn Hl. destruct n; [lia|]. cbn [rep_list]. destruct l; [congruence|discriminate]. Qed.

Lemma const_result v l q : Forall (is_constv v) l -> l <> [] -> (q == total l)%Q -> (0 < q)%Q ->
  pequiv (wf_pieces (WConst (Qred q) v)) l /\ wf_ok1b (WConst (Qred q) v) = true.
Proof.
  intros HF Hne Hq Hpos. cbn [wf_pieces wf_ok1b]. split.
  - apply pe_sym. apply merge_consts; auto. rewrite Qred_correct. exact Hq.
  - apply okb_of_Qpos. rewrite Qred_correct. exact Hpos.
Qed.

Lemma frc_pequiv b n y : wf_ok1b b = true -> 1 <= n -> from_repetition_count b n = Ok y ->
  pequiv (wf_pieces y) (rep_list (Z.to_nat n) (wf_pieces b)) /\ wf_ok1b y = true.
Proof.
  intros Hok Hn H. unfold from_repetition_count in H. destruct (cvd b) as [v|] eqn:Hc.
  - assert (y = WConst (Qred (wf_dur b * inject_Z n)) v) as -> by congruence. clear H.
    destruct (cvd_pieces b v Hc Hok) as (HF & Hne & Hpos).
    assert (inject_Z 1 <= inject_Z n)%Q as Hq by (rewrite <- Zle_Qle; lia). change (inject_Z 1) with 1%Q in Hq.
    apply const_result.
    + apply Forall_rep_list; auto.
    + apply rep_list_nonempty; auto. lia.
    + rewrite total_rep_list_Z by lia. rewrite (wf_ok1b_dur b Hok). reflexivity.
    + nra.
  - destruct (n <? 1) eqn:E; [lia|]. inversion H; subst y. cbn [wf_pieces wf_ok1b]. split; [apply pequiv_refl|].
    rewrite Hok. cbn [andb]. lia.
Qed.

Lemma seq_flatten_cons w ws :
  seq_flatten (w :: ws) = (match w with WSeq l => l | _ => [w] end) ++ seq_flatten ws.
Proof. reflexivity. Qed.

Lemma wf_pieces_seq_flatten ws : flat_map wf_pieces (seq_flatten ws) = flat_map wf_pieces ws.
Proof.
  induction ws as [|w ws IH]; [reflexivity|]. rewrite seq_flatten_cons, flat_map_app, IH. cbn [flat_map]. f_equal.
  destruct w; cbn [flat_map]; rewrite ?app_nil_r; reflexivity.
Qed.

Lemma ok1b_seq_flatten ws : forallb wf_ok1b ws = true -> forallb wf_ok1b (seq_flatten ws) = true.
Proof.
  induction ws as [|w ws IH]; [reflexivity|]. cbn [forallb]. intros H. apply andb_true_iff in H. destruct H as [H1 H2].
  rewrite seq_flatten_cons, forallb_app, (IH H2), andb_true_r.
  destruct w; cbn [forallb]; rewrite ?andb_true_r; auto.
Qed.

Lemma qsum_app a b : (qsum (a ++ b) == qsum a + qsum b)%Q.
Proof. induction a as [|x a IH]; cbn [app]; [cbn; ring|]. rewrite !qsum_cons, IH. ring. Qed.

Lemma dur_seq_flatten ws : (qsum (map wf_dur (seq_flatten ws)) == qsum (map wf_dur ws))%Q.
Proof.
  induction ws as [|w ws IH]; [reflexivity|]. rewrite seq_flatten_cons, map_app, qsum_app, IH. cbn [map].
  rewrite qsum_cons. apply Qplus_comp; [|reflexivity].
  destruct w; cbn [map]; rewrite ?qsum_cons; cbn [qsum fold_right]; try ring. reflexivity.
Qed.

Lemma dur_list_total ws : forallb wf_ok1b ws = true -> (qsum (map wf_dur ws) == total (flat_map wf_pieces ws))%Q.
Proof.
  induction ws as [|w ws IH]; [reflexivity|]. cbn [forallb map flat_map]. intros H. apply andb_true_iff in H.
  destruct H as [H1 H2]. rewrite qsum_cons, total_app, (IH H2), (wf_ok1b_dur w H1). reflexivity.
Qed.

Lemma all_const_pieces v ws : all_const_equal v ws = true -> forallb wf_ok1b ws = true ->
  Forall (is_constv v) (flat_map wf_pieces ws) /\ Forall (fun w => wf_pieces w <> [] /\ (0 < wf_dur w)%Q) ws.
Proof.
  unfold all_const_equal. induction ws as [|w ws IH]; cbn [forallb flat_map]; [split; constructor|].
  intros H H'. apply andb_true_iff in H, H'. destruct H as [H1 H2], H' as [H1' H2'].
  destruct (IH H2 H2') as [IHa IHb]. destruct (cvd w) as [v'|] eqn:Hc; [|discriminate].
  destruct (cvd_pieces w v' Hc H1') as (HF & Hne & Hpos). split.
  - apply Forall_app. split; auto. eapply Forall_impl; [|exact HF]. intros p. apply is_constv_vals; auto.
  - constructor; auto.
Qed.

Lemma dur_sum_pos ws : Forall (fun w => wf_pieces w <> [] /\ (0 < wf_dur w)%Q) ws -> ws <> [] ->
  (0 < qsum (map wf_dur ws))%Q /\ flat_map wf_pieces ws <> [].
Proof.
  induction 1 as [|w l [Hne Hw] Hl IH]; intros Hn; [congruence|]. cbn [map flat_map]. rewrite qsum_cons. split.
  - destruct l as [|w' l]; [cbn; lra|]. destruct (IH ltac:(discriminate)) as [IH1 _]. lra.
  - destruct (wf_pieces w); [congruence|discriminate].
Qed.

Lemma fs_pequiv ws y : forallb wf_ok1b ws = true -> from_sequence ws = Ok y ->
  pequiv (wf_pieces y) (flat_map wf_pieces ws) /\ wf_ok1b y = true.
Proof.
  intros Hok H.
  assert (pequiv (wf_pieces (WSeq (seq_flatten ws))) (flat_map wf_pieces ws) /\ wf_ok1b (WSeq (seq_flatten ws)) = true)
    as Hseq.
  { change (wf_pieces (WSeq (seq_flatten ws))) with (flat_map wf_pieces (seq_flatten ws)).
    change (wf_ok1b (WSeq (seq_flatten ws))) with (forallb wf_ok1b (seq_flatten ws)).
    rewrite wf_pieces_seq_flatten. split; [apply pequiv_refl|apply ok1b_seq_flatten; auto]. }
  unfold from_sequence in H. destruct ws as [|w0 [|w1 ws']]; [discriminate| |].
  - inversion H; subst y. cbn [flat_map forallb] in *. rewrite app_nil_r. rewrite andb_true_r in Hok.
    split; [apply pequiv_refl|auto].
  - remember (w0 :: w1 :: ws') as ws eqn:Ews.
    destruct (cvd w0) as [v|] eqn:Hc; [|inversion H; subst y; exact Hseq].
    destruct (all_const_equal v ws) eqn:Hall; [|inversion H; subst y; exact Hseq].
    assert (y = WConst (Qred (qsum (map wf_dur (seq_flatten ws)))) v) as -> by congruence. clear H.
    destruct (all_const_pieces v ws Hall Hok) as [HF Hpos].
    destruct (dur_sum_pos ws Hpos ltac:(subst ws; discriminate)) as [Hqpos Hne].
    apply const_result; auto.
    + rewrite dur_seq_flatten. apply dur_list_total; auto.
    + rewrite dur_seq_flatten. exact Hqpos.
Qed.

Definition tw_go : list tree -> result (list wf) :=
  fix go (l : list tree) : result (list wf) :=
    match l with
    | [] => Ok []
    | c :: r => bind (to_waveform c) (fun x => bind (go r) (fun xs => Ok (x :: xs)))
    end.

Lemma tw_go_cons c r : tw_go (c :: r) = bind (to_waveform c) (fun x => bind (tw_go r) (fun xs => Ok (x :: xs))).
Proof. reflexivity. Qed.

Lemma to_waveform_inner rep w m c ch :
  to_waveform (Node rep w m (c :: ch)) =
  bind (tw_go (c :: ch))
       (fun ws => bind (from_sequence ws) (fun sw => if 1 <? rep then from_repetition_count sw rep else Ok sw)).
Proof. reflexivity. Qed.

Lemma rep_list_1 {A} (l : list A) : rep_list (Z.to_nat 1) l = l.
Proof. change (Z.to_nat 1) with 1%nat. cbn [rep_list]. apply app_nil_r. Qed.

Theorem to_waveform_pequiv : forall t x, tree_ok1b t = true -> to_waveform t = Ok x ->
  pequiv (wf_pieces x) (pieces t) /\ wf_ok1b x = true.
Proof.
  induction t as [rep w m ch IH] using tree_ind'. intros x Hok H.
  destruct (ok1b_inv _ _ _ _ Hok) as (Hr & Hch & Hleaf & Hw).
  destruct ch as [|c ch].
  - destruct (Hleaf eq_refl) as (x0 & -> & Hx0). cbn [to_waveform pieces] in *.
    destruct (rep =? 1) eqn:E.
    + inversion H; subst x0. assert (rep = 1) as -> by lia. rewrite rep_list_1. split; [apply pequiv_refl|auto].
    + apply frc_pequiv; auto.
  - rewrite to_waveform_inner in H. rewrite (Hw ltac:(discriminate)), pieces_node_none.
    remember (c :: ch) as l eqn:El. clear El Hleaf Hw Hok.
    assert (forall ws, tw_go l = Ok ws ->
                       pequiv (flat_map wf_pieces ws) (flat_map pieces l) /\ forallb wf_ok1b ws = true) as Hgo.
    { clear H. induction IH as [|a l Ha _ IHl]; intros ws H.
      - inversion H. split; [constructor|reflexivity].
      - rewrite tw_go_cons in H. cbn [forallb] in Hch. apply andb_true_iff in Hch. destruct Hch as [H1 H2].
        destruct (to_waveform a) as [xa|] eqn:Hxa; [|discriminate]. cbn [bind] in H.
        destruct (tw_go l) as [xs|] eqn:Hxs; [|discriminate]. cbn [bind] in H. inversion H; subst ws.
        destruct (Ha xa H1 eq_refl) as [Hp Ho]. destruct (IHl H2 xs eq_refl) as [Hp' Ho'].
        cbn [flat_map forallb]. rewrite Ho, Ho'. split; auto. apply pequiv_app; auto. }
    destruct (tw_go l) as [ws|] eqn:Hws; [|discriminate]. cbn [bind] in H.
    destruct (Hgo ws eq_refl) as [Hp Ho].
    destruct (from_sequence ws) as [sw|] eqn:Hsw; [|discriminate]. cbn [bind] in H.
    destruct (fs_pequiv ws sw Ho Hsw) as [Hp' Ho'].
    assert (pequiv (wf_pieces sw) (flat_map pieces l)) as Hp2 by (eapply pe_trans; eauto).
    destruct (1 <? rep) eqn:E.
    + destruct (frc_pequiv sw rep x Ho' Hr H) as [Hp3 Ho3]. split; auto.
      eapply pe_trans; [exact Hp3|]. apply pequiv_rep_list; auto.
    + inversion H; subst x. assert (rep = 1) as -> by lia. rewrite rep_list_1. auto.
Qed.

Corollary to_waveform_duration : forall t x, tree_ok1b t = true -> to_waveform t = Ok x -> (wf_dur x == duration t)%Q.
Proof.
  intros t x Hok H. destruct (to_waveform_pequiv t x Hok H) as [Hp Ho].
  rewrite (wf_ok1b_dur x Ho), (duration_total t (tree_ok1b_okb t Hok)). apply pequiv_total; auto.
Qed.

(* ------------------------------------------------------------------------------------------------------------------ *)
(* C. make_compatible *)

Definition mc_levels (min_len quantum : Z) (sr : Q) : list tree -> result (list comp_level) :=
  fix levels (l : list tree) : result (list comp_level) :=
    match l with
    | [] => Ok []
    | c :: r => bind (is_compatible min_len quantum sr c) (fun lv => bind (levels r) (fun ls => Ok (lv :: ls)))
    end.

Definition mc_go (min_len quantum : Z) (sr : Q) : list tree -> list comp_level -> result (list tree) :=
  fix go (l : list tree) (ls : list comp_level) : result (list tree) :=
    match l, ls with
    | c :: r, lv :: lr =>
        bind (if comp_level_eqb lv ActionRequired then make_compatible_rec min_len quantum sr c else Ok c)
             (fun c' => bind (go r lr) (fun rs => Ok (c' :: rs)))
    | _, _ => Ok []
    end.

Lemma mc_levels_cons ml q sr c r :
  mc_levels ml q sr (c :: r) =
  bind (is_compatible ml q sr c) (fun lv => bind (mc_levels ml q sr r) (fun ls => Ok (lv :: ls))).
Proof. reflexivity. Qed.

Lemma mc_go_cons ml q sr c r lv lr :
  mc_go ml q sr (c :: r) (lv :: lr) =
  bind (if comp_level_eqb lv ActionRequired then make_compatible_rec ml q sr c else Ok c)
       (fun c' => bind (mc_go ml q sr r lr) (fun rs => Ok (c' :: rs))).
Proof. reflexivity. Qed.

Lemma mcr_leaf ml q sr rep w m :
  make_compatible_rec ml q sr (Node rep w m []) =
  bind (to_waveform (Node rep w m [])) (fun x => Ok (Node 1 (Some x) m [])).
Proof. reflexivity. Qed.

Lemma mcr_inner ml q sr rep w m c ch :
  make_compatible_rec ml q sr (Node rep w m (c :: ch)) =
  bind (mc_levels ml q sr (c :: ch))
       (fun lvls =>
          if existsb is_incompatible lvls then
            if rep =? 0 then Err EZeroDiv
            else
              let single_run := (duration (Node rep w m (c :: ch)) * sr / inject_Z rep)%Q in
              let keep := q_is_int (single_run / inject_Z q) && Qle_bool (inject_Z ml) single_run in
              bind (to_waveform (Node (if keep then 1 else rep) w m (c :: ch)))
                   (fun x => Ok (Node (if keep then rep else 1) (Some x) m []))
          else bind (mc_go ml q sr (c :: ch) lvls) (fun ch' => Ok (Node rep w m ch'))).
Proof. reflexivity. Qed.

Lemma mc_levels_length ml q sr l : forall lvls, mc_levels ml q sr l = Ok lvls -> length lvls = length l.
Proof.
  induction l as [|c l IH]; intros lvls H.
  - inversion H. reflexivity.
  - rewrite mc_levels_cons in H. destruct (is_compatible ml q sr c); [|discriminate]. cbn [bind] in H.
    destruct (mc_levels ml q sr l) as [ls|]; [|discriminate]. cbn [bind] in H. inversion H. cbn [length].
    rewrite (IH ls eq_refl). reflexivity.
Qed.

Lemma pieces_leaf rep x m : pieces (Node rep (Some x) m []) = rep_list (Z.to_nat rep) (wf_pieces x).
Proof. reflexivity. Qed.

Lemma mcr_pequiv ml q sr : forall t t', tree_ok1b t = true -> make_compatible_rec ml q sr t = Ok t' ->
  pequiv (pieces t') (pieces t) /\ tree_ok1b t' = true.
Proof.
  induction t as [rep w m ch IH] using tree_ind'. intros t' Hok H.
  destruct (ok1b_inv _ _ _ _ Hok) as (Hr & Hch & Hleaf & Hw).
  destruct ch as [|c ch].
  - rewrite mcr_leaf in H. destruct (to_waveform (Node rep w m [])) as [x|] eqn:Hx; [|discriminate].
    cbn [bind] in H. inversion H; subst t'. destruct (to_waveform_pequiv _ x Hok Hx) as [Hp Ho].
    rewrite pieces_leaf, rep_list_1. split; auto; apply ok1b_intro_leaf; auto; lia.
  - rewrite mcr_inner in H. rewrite (Hw ltac:(discriminate)) in *.
    remember (c :: ch) as l eqn:El. assert (l <> []) as Hne by (subst l; discriminate). clear El Hleaf Hw c ch.
    destruct (mc_levels ml q sr l) as [lvls|] eqn:Hlv; [|discriminate]. cbn [bind] in H.
    apply mc_levels_length in Hlv.
    destruct (existsb is_incompatible lvls).
    + destruct (rep =? 0); [discriminate|]. cbv zeta in H.
      destruct (q_is_int _ && Qle_bool _ _).
      * destruct (to_waveform (Node 1 None m l)) as [x|] eqn:Hx; [|discriminate]. cbn [bind] in H.
        inversion H; subst t'.
        assert (tree_ok1b (Node 1 None m l) = true) as Hok1 by (apply ok1b_intro_none; auto; lia).
        destruct (to_waveform_pequiv _ x Hok1 Hx) as [Hp Ho].
        rewrite pieces_node_none, rep_list_1 in Hp. rewrite pieces_leaf, pieces_node_none. split.
        -- apply pequiv_rep_list; auto.
        -- apply ok1b_intro_leaf; auto.
      * destruct (to_waveform (Node rep None m l)) as [x|] eqn:Hx; [|discriminate]. cbn [bind] in H.
        inversion H; subst t'. destruct (to_waveform_pequiv _ x Hok Hx) as [Hp Ho].
        rewrite pieces_leaf, rep_list_1. split; auto; apply ok1b_intro_leaf; auto; lia.
    + assert (forall ls l', length ls = length l -> mc_go ml q sr l ls = Ok l' ->
                            pequiv (flat_map pieces l') (flat_map pieces l) /\ forallb tree_ok1b l' = true /\
                            length l' = length l) as Hgo.
      { clear H Hne Hok Hlv. induction IH as [|a l Ha _ IHl]; intros ls l' Hlen H.
        - assert (l' = []) as -> by (destruct ls; inversion H; reflexivity). repeat split; constructor.
        - destruct ls as [|lv lr]; [discriminate|]. rewrite mc_go_cons in H. cbn [length] in Hlen.
          cbn [forallb] in Hch. apply andb_true_iff in Hch. destruct Hch as [H1 H2].
          assert (forall a', (if comp_level_eqb lv ActionRequired then make_compatible_rec ml q sr a else Ok a) = Ok a' ->
                             pequiv (pieces a') (pieces a) /\ tree_ok1b a' = true) as Hstep.
          { intros a' E. destruct (comp_level_eqb lv ActionRequired); [apply Ha; auto|].
            inversion E; subst a'. split; [apply pequiv_refl|auto]. }
          destruct (if comp_level_eqb lv ActionRequired then _ else _) as [a'|]; [|discriminate]. cbn [bind] in H.
          destruct (mc_go ml q sr l lr) as [rs|] eqn:Hrs; [|discriminate]. cbn [bind] in H. inversion H; subst l'.
          destruct (Hstep a' eq_refl) as [Hp Ho]. destruct (IHl H2 lr rs ltac:(lia) Hrs) as (Hp' & Ho' & Hl').
          cbn [flat_map forallb length]. rewrite Ho, Ho', Hl'. repeat split; auto. apply pequiv_app; auto. }
      destruct (mc_go ml q sr l lvls) as [l'|] eqn:Hl'; [|discriminate]. cbn [bind] in H. inversion H; subst t'.
      destruct (Hgo lvls l' Hlv Hl') as (Hp & Ho & Hlen).
      rewrite !pieces_node_none. split; [apply pequiv_rep_list; auto|].
      apply ok1b_intro_none; auto. destruct l'; [destruct l; [congruence|discriminate]|discriminate].
Qed.

Theorem make_compatible_pequiv : forall min_len quantum sr t t', tree_ok1b t = true ->
  make_compatible min_len quantum sr t = Ok t' -> pequiv (pieces t') (pieces t) /\ tree_ok1b t' = true.
Proof.
  intros ml q sr t t' Hok H. unfold make_compatible in H.
  destruct (is_compatible ml q sr t) as [lv|]; [|discriminate]. cbn [bind] in H.
  destruct lv; try discriminate.
  - inversion H; subst t'. split; [apply pequiv_refl|auto].
  - apply (mcr_pequiv ml q sr t t'); auto.
Qed.

(* ------------------------------------------------------------------------------------------------------------------ *)
(* E. roll_constant_waveforms *)

Lemma q_int_spec x : q_is_int x = true -> (x == inject_Z (q_int x))%Q.
Proof.
  unfold q_is_int, q_int. intros H. rewrite <- (Qred_correct x) at 1.
  destruct (Qred x) as [n d]. cbn [Qnum Qden] in *. assert (d = 1%positive) as -> by lia. reflexivity.
Qed.

Lemma sfg_loop_spec : forall fuel n k, 0 < k -> k <= n ->
  n mod (sfg_loop fuel n k) = 0 /\ 0 < sfg_loop fuel n k.
Proof.
  induction fuel as [|f IH]; intros n k Hk Hn; cbn [sfg_loop].
  - split; [apply Z_mod_same_full|lia].
  - destruct (n mod k =? 0) eqn:E; [split; lia|]. apply IH; [lia|].
    assert (k <> n) by (intros ->; rewrite Z_mod_same_full in E; discriminate). lia.
Qed.

Lemma smallest_factor_ge_spec n m r : smallest_factor_ge n m = Ok r -> n mod r = 0 /\ 0 < r.
Proof.
  unfold smallest_factor_ge. destruct (m <=? 0) eqn:E1; [discriminate|]. destruct (n <? m) eqn:E2; [discriminate|].
  intros H. inversion H. apply sfg_loop_spec; lia.
Qed.

Definition roll_go (mq q : Z) (sr : Q) : list tree -> result (list tree) :=
  fix go (l : list tree) : result (list tree) :=
    match l with
    | [] => Ok []
    | c :: r => bind (roll_constant_waveforms mq q sr c) (fun c' => bind (go r) (fun rs => Ok (c' :: rs)))
    end.

Lemma roll_go_cons mq q sr c r :
  roll_go mq q sr (c :: r) =
  bind (roll_constant_waveforms mq q sr c) (fun c' => bind (roll_go mq q sr r) (fun rs => Ok (c' :: rs))).
Proof. reflexivity. Qed.

Lemma roll_inner mq q sr rep w m c ch :
  roll_constant_waveforms mq q sr (Node rep w m (c :: ch)) =
  bind (roll_go mq q sr (c :: ch)) (fun ch' => Ok (Node rep w [] ch')).
Proof. destruct w; reflexivity. Qed.

Lemma roll_some mq q sr rep x m :
  roll_constant_waveforms mq q sr (Node rep (Some x) m []) =
  if q =? 0 then Err EZeroDiv
  else
    let wqq := (wf_dur x * sr / inject_Z q)%Q in
    if negb (q_is_int wqq) then Ok (Node rep (Some x) [] [])
    else
      let wq := q_int wqq in
      if wq <? mq * 2 then Ok (Node rep (Some x) [] [])
      else match cvd x with
           | None => Ok (Node rep (Some x) [] [])
           | Some v =>
               bind (smallest_factor_ge wq mq)
                    (fun nq => if nq =? wq then Ok (Node rep (Some x) [] [])
                               else Ok (Node (rep * (wq / nq))
                                             (Some (WConst (Qred (inject_Z q * inject_Z nq / sr)) v)) [] []))
           end.
Proof. reflexivity. Qed.

Lemma roll_leaf mq q sr rep x m t' : 0 < q -> (0 < sr)%Q -> 1 <= rep -> wf_ok1b x = true ->
  roll_constant_waveforms mq q sr (Node rep (Some x) m []) = Ok t' ->
  pequiv (pieces t') (pieces (Node rep (Some x) m [])) /\ tree_ok1b t' = true.
Proof.
  intros Hq Hsr Hrep Hx H. rewrite roll_some in H. cbv zeta in H.
  assert (pequiv (pieces (Node rep (Some x) [] [])) (pieces (Node rep (Some x) m [])) /\
          tree_ok1b (Node rep (Some x) [] []) = true) as Hsame.
  { split; [rewrite !pieces_leaf; apply pequiv_refl|apply ok1b_intro_leaf; auto]. }
  destruct (q =? 0) eqn:Eq0; [lia|].
  set (wqq := (wf_dur x * sr / inject_Z q)%Q) in *.
  destruct (q_is_int wqq) eqn:Hint; cbn [negb] in H; [|inversion H; subst; exact Hsame].
  set (wq := q_int wqq) in *.
  destruct (wq <? mq * 2) eqn:Ewq; [inversion H; subst; exact Hsame|].
  destruct (cvd x) as [v|] eqn:Hc; [|inversion H; subst; exact Hsame].
  destruct (smallest_factor_ge wq mq) as [nq|] eqn:Hnq; [|discriminate]. cbn [bind] in H.
  destruct (nq =? wq) eqn:Enq; [inversion H; subst; exact Hsame|].
  set (dq := Qred (inject_Z q * inject_Z nq / sr)) in *.
  assert (t' = Node (rep * (wq / nq)) (Some (WConst dq v)) [] []) as -> by congruence. clear H.
  (* arithmetic facts *)
  assert (0 < mq) as Hmq by (unfold smallest_factor_ge in Hnq; destruct (mq <=? 0) eqn:E; [discriminate|lia]).
  destruct (smallest_factor_ge_spec _ _ _ Hnq) as [Hdiv Hnqpos].
  assert (wq = nq * (wq / nq)) as Hwq by (apply Z_div_exact_full_2; lia).
  set (c := wq / nq) in *.
  assert (1 <= c) as Hc1 by nia.
  assert (0 < inject_Z q)%Q as HQ by (change 0%Q with (inject_Z 0); rewrite <- Zlt_Qlt; lia).
  assert (0 < inject_Z nq)%Q as HN by (change 0%Q with (inject_Z 0); rewrite <- Zlt_Qlt; lia).
  assert (dq == inject_Z q * inject_Z nq / sr)%Q as Hdq by (unfold dq; apply Qred_correct).
  assert (0 < dq)%Q as Hdqpos.
  { rewrite Hdq. apply Qlt_shift_div_l; auto. nra. }
  assert (wf_dur x == inject_Z wq * inject_Z q / sr)%Q as Hdur.
  { assert (wqq == inject_Z wq)%Q as Hs by (apply q_int_spec; auto). rewrite <- Hs. unfold wqq. field. split; lra. }
  split.
  2:{ apply ok1b_intro_leaf; [nia|]. cbn [wf_ok1b]. apply okb_of_Qpos; auto. }
  rewrite !pieces_leaf. cbn [wf_pieces].
  rewrite Z2Nat.inj_mul, rep_list_mul by lia. apply pequiv_rep_list.
  destruct (cvd_pieces x v Hc Hx) as (HF & Hne & Hpos).
  eapply pe_trans; [|apply pe_sym; apply (merge_consts v (wf_pieces x) HF Hne (wf_dur x)); apply wf_ok1b_dur; auto].
  apply merge_consts.
  - apply Forall_rep_list. constructor; [|constructor]. exists dq, v. repeat split; [lra|apply vals_eqb_refl].
  - apply rep_list_nonempty; [lia|discriminate].
  - rewrite total_rep_list_Z by lia. rewrite total_cons, total_nil. cbn [pdur].
    rewrite Hdur, Hdq, Hwq, inject_Z_mult. field. lra.
Qed.

Lemma roll_both : forall mq q sr t t', (0 < q)%Z -> (0 < sr)%Q -> tree_ok1b t = true ->
  roll_constant_waveforms mq q sr t = Ok t' -> pequiv (pieces t') (pieces t) /\ tree_ok1b t' = true.
Proof.
  intros mq q sr t t' Hq Hsr. revert t'. induction t as [rep w m ch IH] using tree_ind'. intros t' Hok H.
  destruct (ok1b_inv _ _ _ _ Hok) as (Hr & Hch & Hleaf & Hw).
  destruct ch as [|c ch].
  - destruct (Hleaf eq_refl) as (x & -> & Hx). apply (roll_leaf mq q sr rep x m t'); auto.
  - rewrite (Hw ltac:(discriminate)) in *. rewrite roll_inner in H.
    remember (c :: ch) as l eqn:El. assert (l <> []) as Hne by (subst l; discriminate). clear El Hleaf Hw Hok c ch.
    assert (forall l', roll_go mq q sr l = Ok l' ->
                       pequiv (flat_map pieces l') (flat_map pieces l) /\ forallb tree_ok1b l' = true /\
                       length l' = length l) as Hgo.
    { clear H Hne. induction IH as [|a l Ha _ IHl]; intros l' H.
      - inversion H. repeat split; constructor.
      - rewrite roll_go_cons in H. cbn [forallb] in Hch. apply andb_true_iff in Hch. destruct Hch as [H1 H2].
        destruct (roll_constant_waveforms mq q sr a) as [a'|] eqn:Ha'; [|discriminate]. cbn [bind] in H.
        destruct (roll_go mq q sr l) as [rs|] eqn:Hrs; [|discriminate]. cbn [bind] in H. inversion H; subst l'.
        destruct (Ha a' H1 eq_refl) as [Hp Ho]. destruct (IHl H2 rs eq_refl) as (Hp' & Ho' & Hl').
        cbn [flat_map forallb length]. rewrite Ho, Ho', Hl'. repeat split; auto. apply pequiv_app; auto. }
    destruct (roll_go mq q sr l) as [l'|] eqn:Hl'; [|discriminate]. cbn [bind] in H. inversion H; subst t'.
    destruct (Hgo l' eq_refl) as (Hp & Ho & Hlen).
    rewrite !pieces_node_none. split; [apply pequiv_rep_list; auto|].
    apply ok1b_intro_none; auto. destruct l'; [destruct l; [congruence|discriminate]|discriminate].
Qed.

Theorem roll_pequiv : forall mq q sr t t', (0 < q)%Z -> (0 < sr)%Q -> tree_ok1b t = true ->
  roll_constant_waveforms mq q sr t = Ok t' -> pequiv (pieces t') (pieces t).
Proof. intros mq q sr t t' Hq Hsr Hok H. apply (roll_both mq q sr t t' Hq Hsr Hok H). Qed.

Lemma roll_ok1 : forall mq q sr t t', (0 < q)%Z -> (0 < sr)%Q -> tree_ok1b t = true ->
  roll_constant_waveforms mq q sr t = Ok t' -> tree_ok1b t' = true.
Proof. intros mq q sr t t' Hq Hsr Hok H. apply (roll_both mq q sr t t' Hq Hsr Hok H). Qed.

Corollary roll_duration : forall mq q sr t t', (0 < q)%Z -> (0 < sr)%Q -> tree_ok1b t = true ->
  roll_constant_waveforms mq q sr t = Ok t' -> (duration t' == duration t)%Q.
Proof.
  intros mq q sr t t' Hq Hsr Hok H. destruct (roll_both mq q sr t t' Hq Hsr Hok H) as [Hp Ho].
  rewrite (duration_total t (tree_ok1b_okb t Hok)), (duration_total t' (tree_ok1b_okb t' Ho)).
  apply pequiv_total; auto.
Qed.

(* ------------------------------------------------------------------------------------------------------------------ *)
(* D. postcondition of make_compatible *)

Lemma Qred_inject_Z z : Qred (inject_Z z) = inject_Z z.
Proof.
  unfold inject_Z, Qred. pose proof (Z.ggcd_gcd z 1) as Hg. pose proof (Z.ggcd_correct_divisors z 1) as Hd.
  destruct (Z.ggcd z 1) as [g [aa bb]]. cbn [fst snd] in *. rewrite Z.gcd_1_r in Hg. subst g. destruct Hd as [Ha Hb].
  assert (aa = z) as -> by lia. assert (bb = 1) as -> by lia. reflexivity.
Qed.

Lemma q_int_of_eq x z : (x == inject_Z z)%Q -> q_is_int x = true /\ q_int x = z.
Proof.
  intros H. apply Qred_complete in H. rewrite Qred_inject_Z in H. unfold q_is_int, q_int. rewrite H.
  cbn. split; reflexivity.
Qed.

Lemma q_int_Qeq x y : (x == y)%Q -> q_is_int x = q_is_int y /\ q_int x = q_int y.
Proof. intros H. apply Qred_complete in H. unfold q_is_int, q_int. rewrite H. split; reflexivity. Qed.

Lemma inject_Z_pos q : 0 < q -> (0 < inject_Z q)%Q.
Proof. intros H. change 0%Q with (inject_Z 0). rewrite <- Zlt_Qlt. exact H. Qed.

Lemma int_div q s : 0 < q -> q_is_int (s / inject_Z q) = true -> q_is_int s = true /\ q_int s mod q = 0.
Proof.
  intros Hq H. pose proof (inject_Z_pos q Hq) as HQ. pose proof (q_int_spec _ H) as Hs.
  set (k := q_int (s / inject_Z q)) in *.
  assert (s == inject_Z (k * q))%Q as Hs'.
  { rewrite inject_Z_mult, <- Hs. field. lra. }
  destruct (q_int_of_eq s (k * q) Hs') as [H1 H2]. split; auto. rewrite H2. apply Z_mod_mult.
Qed.

Lemma leaf_ok_of ml q sr x s : (wf_dur x * sr == s)%Q -> q_is_int s = true ->
  Qle_bool (inject_Z ml) s = true -> q_int s mod q = 0 -> leaf_ok ml q sr x = true.
Proof.
  intros E H1 H2 H3. unfold leaf_ok. cbv zeta. destruct (q_int_Qeq _ _ E) as [E1 E2]. rewrite E1, E2, H1, H3.
  cbn [andb]. rewrite andb_true_r. apply Qle_bool_iff in H2. rewrite (q_int_spec s H1) in H2.
  rewrite <- Zle_Qle in H2. lia.
Qed.

Definition ic_go (ml q : Z) (sr : Q) : list tree -> result comp_level :=
  fix go (l : list tree) : result comp_level :=
    match l with
    | [] => Ok Compatible
    | c :: r => bind (is_compatible ml q sr c)
                     (fun lv => if comp_level_eqb lv Compatible then go r else Ok ActionRequired)
    end.

Lemma ic_go_cons ml q sr c r :
  ic_go ml q sr (c :: r) =
  bind (is_compatible ml q sr c) (fun lv => if comp_level_eqb lv Compatible then ic_go ml q sr r else Ok ActionRequired).
Proof. reflexivity. Qed.

Lemma is_compatible_eq ml q sr t :
  is_compatible ml q sr t =
  let ds := (duration t * sr)%Q in
  if negb (q_is_int ds) then Ok IncompFraction
  else if Qle_bool (inject_Z ml) ds then
         if q =? 0 then Err EZeroDiv
         else if 0 <? (q_int ds) mod q then Ok IncompQuantum
              else if is_leaf t then
                     let wd := (body_duration t * sr)%Q in
                     if negb (Qle_bool (inject_Z ml) wd) || negb (q_is_int (wd / inject_Z q)) then Ok ActionRequired
                     else Ok Compatible
                   else ic_go ml q sr (t_ch t)
       else Ok IncompTooShort.
Proof. destruct t as [r w m [|c ch]]; reflexivity. Qed.

(* what every level other than the three incompatible ones guarantees about the whole duration *)
Lemma ic_top ml q sr t lv : 0 < q -> is_compatible ml q sr t = Ok lv -> is_incompatible lv = false ->
  q_is_int (duration t * sr) = true /\ Qle_bool (inject_Z ml) (duration t * sr) = true /\
  q_int (duration t * sr) mod q = 0.
Proof.
  intros Hq H Hlv. rewrite is_compatible_eq in H. cbv zeta in H.
  destruct (q_is_int (duration t * sr)); cbn [negb] in H; [|inversion H; subst lv; discriminate].
  destruct (Qle_bool (inject_Z ml) (duration t * sr)); [|inversion H; subst lv; discriminate].
  destruct (q =? 0) eqn:E0; [discriminate|].
  destruct (0 <? q_int (duration t * sr) mod q) eqn:Em; [inversion H; subst lv; discriminate|].
  repeat split. pose proof (Z.mod_pos_bound (q_int (duration t * sr)) q Hq). lia.
Qed.

Lemma leaf_whole_ok ml q sr t lv x : 0 < q -> is_compatible ml q sr t = Ok lv -> is_incompatible lv = false ->
  (wf_dur x == duration t)%Q -> leaf_ok ml q sr x = true.
Proof.
  intros Hq H Hlv Hx. destruct (ic_top ml q sr t lv Hq H Hlv) as (H1 & H2 & H3).
  apply (leaf_ok_of ml q sr x (duration t * sr)); auto. rewrite Hx. reflexivity.
Qed.

Lemma leaves_ok_leaf ml q sr rep x m : leaves_ok ml q sr (Node rep (Some x) m []) = leaf_ok ml q sr x.
Proof. reflexivity. Qed.

Lemma leaves_ok_inner ml q sr rep w m ch : ch <> [] ->
  leaves_ok ml q sr (Node rep w m ch) = forallb (leaves_ok ml q sr) ch.
Proof. destruct ch; [congruence|reflexivity]. Qed.

Lemma compatible_leaves_ok ml q sr : 0 < q -> forall t, tree_ok1b t = true ->
  is_compatible ml q sr t = Ok Compatible -> leaves_ok ml q sr t = true.
Proof.
  intros Hq. induction t as [rep w m ch IH] using tree_ind'. intros Hok H.
  destruct (ok1b_inv _ _ _ _ Hok) as (Hr & Hch & Hleaf & Hw).
  rewrite is_compatible_eq in H. cbv zeta in H.
  destruct (q_is_int _); cbn [negb] in H; [|discriminate].
  destruct (Qle_bool _ _); [|discriminate].
  destruct (q =? 0); [discriminate|]. destruct (0 <? _); [discriminate|].
  destruct ch as [|c ch].
  - destruct (Hleaf eq_refl) as (x & -> & Hx). cbn [is_leaf t_ch body_duration] in H.
    destruct (Qle_bool (inject_Z ml) (wf_dur x * sr)) eqn:E1; cbn [negb orb] in H; [|discriminate].
    destruct (q_is_int (wf_dur x * sr / inject_Z q)) eqn:E2; cbn [negb] in H; [|discriminate].
    rewrite leaves_ok_leaf. destruct (int_div q _ Hq E2) as [H1 H2].
    apply (leaf_ok_of ml q sr x (wf_dur x * sr)); auto. reflexivity.
  - rewrite leaves_ok_inner by discriminate. cbn [is_leaf t_ch] in H.
    remember (c :: ch) as l eqn:El. clear El Hleaf Hw Hok c ch.
    induction IH as [|a l Ha _ IHl]; [reflexivity|].
    rewrite ic_go_cons in H. cbn [forallb] in Hch. apply andb_true_iff in Hch. destruct Hch as [H1 H2].
    destruct (is_compatible ml q sr a) as [lv|] eqn:Hlv; [|discriminate]. cbn [bind] in H.
    destruct lv; cbn [comp_level_eqb] in H; try discriminate.
    cbn [forallb]. rewrite (Ha H1 eq_refl), (IHl H H2). reflexivity.
Qed.

Lemma mc_levels_spec ml q sr l : forall lvls, mc_levels ml q sr l = Ok lvls ->
  Forall2 (fun c lv => is_compatible ml q sr c = Ok lv) l lvls.
Proof.
  induction l as [|c l IH]; intros lvls H.
  - inversion H. constructor.
  - rewrite mc_levels_cons in H. destruct (is_compatible ml q sr c) as [lv|] eqn:E; [|discriminate]. cbn [bind] in H.
    destruct (mc_levels ml q sr l) as [ls|]; [|discriminate]. cbn [bind] in H. inversion H. constructor; auto.
Qed.

Lemma duration_node_none rep m l : l <> [] -> duration (Node rep None m l) = (qsum (map duration l) * inject_Z rep)%Q.
Proof. destruct l; [congruence|reflexivity]. Qed.

Lemma mcr_post ml q sr : 0 < q -> (0 < sr)%Q -> forall t t' lv, tree_ok1b t = true ->
  is_compatible ml q sr t = Ok lv -> is_incompatible lv = false ->
  make_compatible_rec ml q sr t = Ok t' -> leaves_ok ml q sr t' = true.
Proof.
  intros Hq Hsr. induction t as [rep w m ch IH] using tree_ind'. intros t' lv Hok Hic Hlv H.
  destruct (ok1b_inv _ _ _ _ Hok) as (Hr & Hch & Hleaf & Hw).
  destruct ch as [|c ch].
  - rewrite mcr_leaf in H. destruct (to_waveform (Node rep w m [])) as [x|] eqn:Hx; [|discriminate].
    cbn [bind] in H. inversion H; subst t'. rewrite leaves_ok_leaf.
    eapply leaf_whole_ok; eauto. apply to_waveform_duration; auto.
  - rewrite mcr_inner in H. rewrite (Hw ltac:(discriminate)) in *.
    remember (c :: ch) as l eqn:El. assert (l <> []) as Hne by (subst l; discriminate). clear El Hleaf Hw c ch.
    destruct (mc_levels ml q sr l) as [lvls|] eqn:Hlvls; [|discriminate]. cbn [bind] in H.
    pose proof (mc_levels_length _ _ _ _ _ Hlvls) as Hlen. apply mc_levels_spec in Hlvls.
    destruct (existsb is_incompatible lvls) eqn:Hex.
    + destruct (rep =? 0); [discriminate|]. cbv zeta in H.
      destruct (q_is_int _ && Qle_bool _ _) eqn:Hkeep.
      * destruct (to_waveform (Node 1 None m l)) as [x|] eqn:Hx; [|discriminate]. cbn [bind] in H.
        inversion H; subst t'. rewrite leaves_ok_leaf.
        assert (tree_ok1b (Node 1 None m l) = true) as Hok1 by (apply ok1b_intro_none; auto; lia).
        pose proof (to_waveform_duration _ x Hok1 Hx) as Hd.
        apply andb_true_iff in Hkeep. destruct Hkeep as [K1 K2].
        destruct (int_div q _ Hq K1) as [K3 K4].
        apply (leaf_ok_of ml q sr x _ ) with (2 := K3); auto.
        rewrite Hd, !duration_node_none by auto.
        assert (0 < inject_Z rep)%Q by (apply inject_Z_pos; lia). change (inject_Z 1) with 1%Q. field. lra.
      * destruct (to_waveform (Node rep None m l)) as [x|] eqn:Hx; [|discriminate]. cbn [bind] in H.
        inversion H; subst t'. rewrite leaves_ok_leaf.
        eapply leaf_whole_ok; eauto. apply to_waveform_duration; auto.
    + destruct (mc_go ml q sr l lvls) as [l'|] eqn:Hl'; [|discriminate]. cbn [bind] in H. inversion H; subst t'.
      assert (length l' = length l /\ forallb (leaves_ok ml q sr) l' = true) as [Hlen' Hall].
      { clear H Hne Hok Hic Hlen. revert l' Hl'. induction Hlvls as [|a lv' l lvs Ha Hrest IHl]; intros l' Hl'.
        - inversion Hl'. split; reflexivity.
        - rewrite mc_go_cons in Hl'. cbn [forallb] in Hch. apply andb_true_iff in Hch. destruct Hch as [H1 H2].
          cbn [existsb] in Hex. apply orb_false_iff in Hex. destruct Hex as [Hex1 Hex2].
          inversion IH as [|? ? IHa IHrest]; subst.
          assert (forall a', (if comp_level_eqb lv' ActionRequired then make_compatible_rec ml q sr a else Ok a) = Ok a' ->
                             leaves_ok ml q sr a' = true) as Hstep.
          { intros a' E. destruct lv'; cbn [comp_level_eqb is_incompatible] in *; try discriminate.
            - inversion E; subst a'. apply compatible_leaves_ok; auto.
            - eapply IHa; eauto. }
          destruct (if comp_level_eqb lv' ActionRequired then _ else _) as [a'|]; [|discriminate]. cbn [bind] in Hl'.
          destruct (mc_go ml q sr l lvs) as [rs|] eqn:Hrs; [|discriminate]. cbn [bind] in Hl'. inversion Hl'; subst l'.
          destruct (IHl IHrest Hex2 H2 rs eq_refl) as [E1 E2]. cbn [length forallb].
          rewrite (Hstep a' eq_refl), E1, E2. split; reflexivity. }
      rewrite leaves_ok_inner; auto. destruct l'; [destruct l; [congruence|discriminate]|discriminate].
Qed.

Theorem make_compatible_post : forall min_len quantum sr t t', (0 < quantum)%Z -> (0 < sr)%Q ->
  tree_ok1b t = true -> make_compatible min_len quantum sr t = Ok t' -> leaves_ok min_len quantum sr t' = true.
Proof.
  intros ml q sr t t' Hq Hsr Hok H. unfold make_compatible in H.
  destruct (is_compatible ml q sr t) as [lv|] eqn:Hic; [|discriminate]. cbn [bind] in H.
  destruct lv; try discriminate.
  - inversion H; subst t'. apply compatible_leaves_ok; auto.
  - eapply mcr_post; eauto; reflexivity.
Qed.

Corollary make_compatible_duration : forall min_len quantum sr t t', tree_ok1b t = true ->
  make_compatible min_len quantum sr t = Ok t' -> (duration t' == duration t)%Q.
Proof.
  intros ml q sr t t' Hok H. destruct (make_compatible_pequiv ml q sr t t' Hok H) as [Hp Ho].
  rewrite (duration_total t (tree_ok1b_okb t Hok)), (duration_total t' (tree_ok1b_okb t' Ho)).
  apply pequiv_total; auto.
Qed.
