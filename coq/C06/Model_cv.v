(* C06 — Waveform.constant_value(channel) and the short cut of Waveform.get_sampled (definitions only; round 6).

   The hardware drivers do not call [unsafe_sample]: they sample every leaf waveform of the prepared program through
   [Waveform.get_sampled], which first asks [self.constant_value(channel)] and, if that answers a value, fills the
   whole output with it WITHOUT sampling.  make_compatible / to_waveform build exactly the composite leaves
   (SequenceWaveform, RepetitionWaveform) whose [constant_value] is a computation over the parts, so "the rewrite
   preserves the sampled voltages" depends on that computation being right.

   An opaque atom [WAtom id _] (table, multi-channel waveform with a non-constant channel, functor ...) answers
   per channel; its answers are an oracle [acv id channel] observed on the real object (leaf classes: C08). *)
From Coq Require Import ZArith QArith List Bool.
Require Import QV.C06.Model.
Import ListNotations.

Definition acv_t := N -> N -> option Q.

Fixpoint vget (v : vals) (c : N) : option Q :=
  match v with
  | [] => None
  | (c', x) :: r => if N.eqb c c' then Some x else vget r c
  end.

(* SequenceWaveform.constant_value: the loop over the answers of the parts, [v] = the running value
       v = None
       for wf in parts:
           wf_cv = wf.constant_value(channel)
           if wf_cv is None: return None
           elif wf_cv == v: continue
           elif v is None: v = wf_cv
           else: return None
       return v                                                                                             *)
Fixpoint seq_cv_loop (v : option Q) (l : list (option Q)) : option Q :=
  match l with
  | [] => v
  | None :: _ => None
  | Some x :: r =>
      match v with
      | None => seq_cv_loop (Some x) r
      | Some y => if Qeq_bool x y then seq_cv_loop v r else None
      end
  end.

Fixpoint constant_value (acv : acv_t) (w : wf) (c : N) : option Q :=
  match w with
  | WAtom i _ => acv i c
  | WConst _ v => vget v c                      (* ConstantWaveform / MultiChannelWaveform of constants *)
  | WSeq l => seq_cv_loop None (map (fun x => constant_value acv x c) l)
  | WRep b _ => constant_value acv b c          (* RepetitionWaveform.constant_value = the body's *)
  end.

(* meaning side: is a piece / a played sample constant on channel c, and at which value *)
Definition piece_cv (acv : acv_t) (p : piece) (c : N) : option Q :=
  match p with PAtom i _ => acv i c | PConst _ v => vget v c end.

Definition sample_cv (acv : acv_t) (s : sample) (c : N) : option Q :=
  match s with SAtom i _ => acv i c | SConst v => vget v c end.

Definition const_on (acv : acv_t) (c : N) (x : Q) (p : piece) : Prop :=
  exists y, piece_cv acv p c = Some y /\ (y == x)%Q.

(* executable form of "an answer [impl] of constant_value is admissible for what the waveform plays": None is always
   admissible (no guarantee given); a value only if every piece is constant at that value on the channel *)
Definition cv_admissible (acv : acv_t) (w : wf) (c : N) (impl : option Q) : bool :=
  match impl with
  | None => true
  | Some x => forallb (fun p => match piece_cv acv p c with Some y => Qeq_bool y x | None => false end) (wf_pieces w)
  end.

(* voltages: what one channel shows at one time.  [avolt id c u]: the voltage of atom [id] on channel [c] at local time
   [u] (the atom's own sampling function, C08's subject). *)
Definition unsafe_at (avolt : N -> N -> Q -> Q) (w : wf) (c : N) (t : Q) : option Q :=
  match play_at (wf_pieces w) t with
  | Some (SAtom i u) => Some (avolt i c u)
  | Some (SConst v) => vget v c
  | None => None
  end.

(* Waveform.get_sampled at one time: the constant short cut, else unsafe_sample *)
Definition get_sampled_at (acv : acv_t) (avolt : N -> N -> Q -> Q) (w : wf) (c : N) (t : Q) : option Q :=
  match constant_value acv w c with
  | Some x => Some x
  | None => unsafe_at avolt w c t
  end.

(* the atoms keep the promise of Waveform.constant_value's docstring *)
Definition acv_sound (acv : acv_t) (avolt : N -> N -> Q -> Q) : Prop :=
  forall i c x u, acv i c = Some x -> (avolt i c u == x)%Q.

Definition optQ_eq (a b : option Q) : Prop :=
  match a, b with
  | Some x, Some y => (x == y)%Q
  | None, None => True
  | _, _ => False
  end.

Definition optQ_eqb (a b : option Q) : bool :=
  match a, b with
  | Some x, Some y => Qeq_bool x y
  | None, None => true
  | _, _ => false
  end.

(* every SequenceWaveform inside has at least one part (the constructor of the real class asserts it; [Spec.wf_ok1b]
   does not) *)
Fixpoint no_empty_seq (w : wf) : bool :=
  match w with
  | WAtom _ _ | WConst _ _ => true
  | WSeq l => negb (match l with [] => true | _ => false end) && forallb no_empty_seq l
  | WRep b _ => no_empty_seq b
  end.

(* the seeded / historical wrong loop, for the refutation: the running value is tested with `not v` instead of
   `v is None`, so a leading 0 is forgotten *)
Fixpoint seq_cv_loop_falsy (v : option Q) (l : list (option Q)) : option Q :=
  match l with
  | [] => v
  | None :: _ => None
  | Some x :: r =>
      match v with
      | None => seq_cv_loop_falsy (Some x) r
      | Some y => if Qeq_bool x y then seq_cv_loop_falsy v r
                  else if Qeq_bool y 0 then seq_cv_loop_falsy (Some x) r else None
      end
  end.
