(* C06 — correspondence cases.  A case carries the input program (as described from the real Loop object), the rewrite
   that was run on the real code and the implementation's observation.  [check_corr] compares the observation with the
   model; [check_spec] evaluates the property itself on the observation (pulse preserved, duration preserved,
   postcondition, errors only where the rewrite is entitled to fail and without changing the pulse). *)
From Coq Require Import ZArith QArith Qround Qabs Bool List.
Require Import QV.common.Util QV.C06.Model QV.C06.Spec QV.C06.Model_idx QV.C06.Model_vol QV.C06.Model_cv.
Import ListNotations.
Open Scope Z_scope.

Inductive opk :=
| OUnroll                                  (* node.unroll() — node at [path], path <> [] *)
| OUnrollChildren
| OEncapsulate
| OSplit (idx : option Z)
| OMerge                                   (* node._merge_single_child() *)
| OCleanup (rm mg : bool)
| OFlatten (d : Z)
| OMakeCompat (min_len quantum : Z) (sr : Q)
| ORoll (min_quanta quantum : Z) (sr : Q).

(* what the implementation did: the whole program afterwards (also after an exception), the root duration it reports,
   and depth()/is_balanced() of the node the rewrite was applied to *)
Inductive obs :=
| ObsOk (after : tree) (dur_reported : Q) (depth_reported : Z) (balanced_reported : bool)
| ObsErr (e : err) (after : tree).

(* programs with volatile repetition counts: the tree is described with the kind of every count, and whether the rewrite
   emitted a VolatileModificationWarning is observed too *)
Inductive vobs :=
| VObsOk (after : vtree) (dur_reported : Q) (depth_reported : Z) (balanced_reported : bool) (warned : bool)
| VObsErr (e : err) (after : vtree) (warned : bool).

(* recorded parent_index of every node (Model_idx.v) before and after a rewrite *)
Inductive iobs := IObsOk (after : itree) | IObsErr (e : err) (after : itree).

(* what the repetition definitions of a volatile program evaluate to under given values of the volatile parameters: for
   every node [] for a fixed count and one value per environment for a volatile count (the expression itself is not
   observable, its values are) *)
Inductive ptree := PNode (vals : list Z) (ch : list ptree).

Fixpoint assoc {A} (k : N) (l : list (N * A)) : option A :=
  match l with [] => None | (k', a) :: r => if N.eqb k k' then Some a else assoc k r end.

Definition env_of (e : list (N * Z)) : N -> Z := fun i => match assoc i e with Some v => v | None => 0 end.

Fixpoint probe (envs : list (list (N * Z))) (t : vtree) : ptree :=
  match t with
  | VNode r _ _ ch =>
      PNode (match r with Fixed _ => [] | Volatile _ tag => map (fun e => eval_tag (env_of e) tag) envs end)
            (map (probe envs) ch)
  end.

Fixpoint ptree_eqb (a b : ptree) : bool :=
  match a, b with
  | PNode v ch, PNode v' ch' =>
      list_eqb Z.eqb v v' &&
      (fix go (l : list ptree) (l' : list ptree) : bool :=
         match l, l' with
         | [], [] => true
         | x :: t, y :: t' => ptree_eqb x y && go t t'
         | _, _ => false
         end) ch ch'
  end.

Inductive case :=
| CRewrite (input : tree) (path : list nat) (o : opk) (impl : obs)
| CSeq (input : tree) (prefix : list (list nat * opk)) (mid : tree) (path : list nat) (o : opk) (impl : obs)
       (* several rewrites in a row on the same objects: [prefix] ran without error and gave [mid] (as observed), then
          [o] at [path] gave [impl] *)
| CSpecOnly (input : tree) (path : list nat) (o : opk) (impl : obs)
       (* programs with volatile repetition counts: the model does not cover them (its split/merge decisions look at plain
          integers), so only the specification is evaluated on the implementation's observation *)
| CVol (input : vtree) (path : list nat) (o : opk) (impl : vobs) (envs : list (list (N * Z))) (probes : ptree)
       (* volatile counts, rewrites modelled in Model_vol.v (unroll, unroll_children, encapsulate, split_one_child,
          _merge_single_child, cleanup, flatten_and_balance, make_compatible, roll_constant_waveforms): model =
          implementation incl. which counts are volatile afterwards and the VolatileModificationWarning.  [probes]: what
          the implementation's repetition definitions evaluate to under each environment of [envs] AFTER the rewrite
          (after a failed rewrite: of the unchanged program); compared with [probe envs] of the model's result.  With
          [envs = []] only the shape is compared. *)
| CIdx (input : itree) (path : list nat) (o : opk) (impl : iobs)
       (* unroll / unroll_children / encapsulate / split_one_child executed on the objects with their recorded
          parent_index (some inputs with two recorded indices swapped by hand: the invariant of C09 broken on purpose) *)
| CDec (input : tree) (path : list nat) (o : opk) (impl : obs) (sr : Q) (ramps : list (N * list (Q * Q * Q * Q)))
       (before after : list (option Q))
       (* decimal stream: leaf durations that are no binary fractions (k/10, k/3 ...).  The tree part is exact (durations
          are rationals in the code as well) and is checked like [CRewrite]; in addition channel 0 of
          to_waveform(program) was sampled at the grid points k / sr (given to the code as correctly rounded doubles)
          before and after the rewrite.  Those samples are binary64 results: they are compared with the exact rational
          voltage of the input program under the declared absolute tolerance [dec_tol]; atom [i] is piecewise linear:
          for (i, segs) in [ramps] and (t0, t1, v0, v1) in segs it goes from [v0] at local time t0 to [v1] at t1 on
          [t0, t1) (a ramp is one segment over its duration; a table has one segment per pair of entries: hold v, v;
          jump v', v'; an entry time belongs to the later segment). None = NaN. *)
| CToWf (input : tree) (impl : result wf)
| CCv (acv : list (N * list (N * option Q))) (items : list (wf * N * option Q))
       (* round 6: Waveform.constant_value(channel), the short cut of get_sampled.  [items]: leaf waveforms the rewrite built
          (and to_waveform of the program afterwards), a channel, and what the real object answered; [acv]: what the
          opaque atoms inside them answer per channel (oracle, observed on the same objects) *)
| CSfg (n m : Z) (impl : result Z)
| CCrash.

(* ------------------------------------------------------------------------------------------------------------------ *)
Definition err_eqb (a b : err) : bool :=
  match a, b with
  | ERuntime, ERuntime | EValue, EValue | EAssert, EAssert | EZeroDiv, EZeroDiv | EIndex, EIndex
  | EDomain, EDomain | OutOfFuel, OutOfFuel => true
  | _, _ => false
  end.

(* leaf waveforms are compared by what they play, not by their internal nesting *)
Definition wf_eqb (a b : wf) : bool :=
  pieces_equivb (wf_pieces a) (wf_pieces b) && Qeq_bool (wf_dur a) (wf_dur b).

Definition nlist_eqb (a b : list N) : bool := list_eqb N.eqb a b.

Fixpoint tree_eqb (a b : tree) : bool :=
  match a, b with
  | Node r w m ch, Node r' w' m' ch' =>
      (* measurements: only their presence is compared — it steers _has_single_child_that_can_be_merged; which windows
         survive a rewrite is C02's subject, not part of this property *)
      (r =? r') && opt_eqb wf_eqb w w' && Bool.eqb (has_meas (Node r w m ch)) (has_meas (Node r' w' m' ch')) &&
      (fix go (l : list tree) (l' : list tree) : bool :=
         match l, l' with
         | [], [] => true
         | x :: t, y :: t' => tree_eqb x y && go t t'
         | _, _ => false
         end) ch ch'
  end.

(* apply a rewrite to the node at [path] *)
Fixpoint at_path (f : tree -> result tree) (path : list nat) (t : tree) : result tree :=
  match path with
  | [] => f t
  | i :: p => match nth_error (t_ch t) i with
              | None => Err EIndex
              | Some c => bind (at_path f p c) (fun c' => Ok (set_ch t (update_nth (t_ch t) i c')))
              end
  end.

Fixpoint node_at (path : list nat) (t : tree) : option tree :=
  match path with
  | [] => Some t
  | i :: p => match nth_error (t_ch t) i with None => None | Some c => node_at p c end
  end.

Definition fab_fuel : nat := 4000.

Definition run_op (o : opk) (path : list nat) (t : tree) : result tree :=
  match o with
  | OUnroll =>
      match rev path with
      | [] => Err EDomain                  (* root.unroll(): parent is None -> TypeError *)
      | i :: rp => at_path (fun p => unroll_child p i) (rev rp) t
      end
  | OUnrollChildren => at_path unroll_children_op path t
  | OEncapsulate => at_path (fun n => Ok (encapsulate n)) path t
  | OSplit idx => at_path (fun n => split_one_child n idx) path t
  | OMerge => at_path merge_single_child path t
  | OCleanup rm mg => at_path (cleanup rm mg) path t
  | OFlatten d => at_path (flatten_and_balance fab_fuel d) path t
  | OMakeCompat ml q sr => at_path (make_compatible ml q sr) path t
  | ORoll mq q sr => at_path (roll_constant_waveforms mq q sr) path t
  end.

Definition result_wf_eqb (a b : result wf) : bool :=
  match a, b with
  | Ok x, Ok y => wf_eqb x y
  | Err e, Err e' => err_eqb e e'
  | _, _ => false
  end.

Definition result_Z_eqb (a b : result Z) : bool :=
  match a, b with
  | Ok x, Ok y => x =? y
  | Err e, Err e' => err_eqb e e'
  | _, _ => false
  end.

Definition corr_step (input : tree) (path : list nat) (o : opk) (impl : obs) : bool :=
  match run_op o path input, impl with
  | Ok t', ObsOk after _ dp bal =>
      tree_eqb t' after &&
      match node_at path after with
      | Some n => (depth n =? dp) && Bool.eqb (balanced n) bal      (* Node.depth / Node.is_balanced *)
      | None => match o with OUnroll => true | _ => false end        (* the unrolled node is gone *)
      end
  | Err e, ObsErr e' after => err_eqb e e' && tree_eqb input after   (* a failed rewrite leaves the program as it was *)
  | _, _ => false
  end.

Fixpoint run_prefix (steps : list (list nat * opk)) (t : tree) : result tree :=
  match steps with
  | [] => Ok t
  | (p, o) :: r => bind (run_op o p t) (run_prefix r)
  end.

(* ---- volatile counts ---------------------------------------------------------------------------------------------- *)
Fixpoint vtree_eqb (a b : vtree) : bool :=
  match a, b with
  | VNode r w m ch, VNode r' w' m' ch' =>
      (rv r =? rv r') && Bool.eqb (is_vol r) (is_vol r')      (* the expression itself ([tag]) is not observed *)
      && opt_eqb wf_eqb w w' && Bool.eqb (v_has_meas (VNode r w m ch)) (v_has_meas (VNode r' w' m' ch')) &&
      (fix go (l : list vtree) (l' : list vtree) : bool :=
         match l, l' with
         | [], [] => true
         | x :: t, y :: t' => vtree_eqb x y && go t t'
         | _, _ => false
         end) ch ch'
  end.

Fixpoint vat_path (f : vtree -> result (vtree * bool)) (path : list nat) (t : vtree) : result (vtree * bool) :=
  match path with
  | [] => f t
  | i :: p => match nth_error (v_ch t) i with
              | None => Err EIndex
              | Some c => bind (vat_path f p c) (fun cw => Ok (vset_ch t (update_nth (v_ch t) i (fst cw)), snd cw))
              end
  end.

Fixpoint vnode_at (path : list nat) (t : vtree) : option vtree :=
  match path with
  | [] => Some t
  | i :: p => match nth_error (v_ch t) i with None => None | Some c => vnode_at p c end
  end.

(* which _make_compatible /repo has (see [Model_vol.vmake_compatible_rec_w]): false = up to round 3, true = with the repair
   landed in round 4 (VolatileModificationWarning when a concatenated sub-program holds a volatile count) *)
Definition REPAIRED : bool := true.

Definition with_warn {A} (r : result A) (w : bool) : result (A * bool) := bind r (fun a => Ok (a, w)).

(* None: the rewrite is not modelled on volatile programs (no such rewrite is left) *)
Definition run_vop (o : opk) (path : list nat) (t : vtree) : option (result (vtree * bool)) :=
  match o with
  | OUnroll =>
      Some match rev path with
           | [] => Err EDomain
           | i :: rp => vat_path (fun p => with_warn (vunroll_child p i) (vunroll_child_warns p i)) (rev rp) t
           end
  | OUnrollChildren => Some (vat_path (fun n => with_warn (vunroll_children_op n) (vunroll_children_warns n)) path t)
  | OEncapsulate => Some (vat_path (fun n => Ok (vencapsulate n, false)) path t)
  | OSplit idx => Some (vat_path (fun n => with_warn (vsplit_one_child n idx) (vsplit_warns n idx)) path t)
  | OMerge => Some (vat_path (fun n => with_warn (vmerge_single_child n) false) path t)
  | OCleanup rm mg => Some (vat_path (fun n => with_warn (vcleanup rm mg n) false) path t)
  | OFlatten d => Some (vat_path (vflatten_and_balance_w fab_fuel d) path t)
  | OMakeCompat ml q sr => Some (vat_path (vmake_compatible_w REPAIRED ml q sr) path t)
  | ORoll mq q sr => Some (vat_path (fun n => with_warn (vroll_constant_waveforms mq q sr n) false) path t)
  end.

Definition vcorr_step (input : vtree) (path : list nat) (o : opk) (impl : vobs) : bool :=
  match run_vop o path input with
  | None => true
  | Some r =>
      match r, impl with
      | Ok (t', w), VObsOk after _ dp bal w' =>
          vtree_eqb t' after && Bool.eqb w w' &&
          match vnode_at path after with
          | Some n => (vdepth n =? dp) && Bool.eqb (vbalanced n) bal
          | None => match o with OUnroll => true | _ => false end
          end
      | Err e, VObsErr e' after _ => err_eqb e e' && vtree_eqb input after
      | _, _ => false
      end
  end.

Definition erase_obs (i : vobs) : obs :=
  match i with
  | VObsOk after d dp b _ => ObsOk (erase after) d dp b
  | VObsErr e after _ => ObsErr e (erase after)
  end.

(* ---- recorded indices ----------------------------------------------------------------------------------------------- *)
Fixpoint itree_eqb (a b : itree) : bool :=
  match a, b with
  | INode p r w m ch, INode p' r' w' m' ch' =>
      opt_eqb Z.eqb p p' && (r =? r') && opt_eqb wf_eqb w w' &&
      Bool.eqb (match m with [] => false | _ => true end) (match m' with [] => false | _ => true end) &&
      (fix go (l : list itree) (l' : list itree) : bool :=
         match l, l' with
         | [], [] => true
         | x :: t, y :: t' => itree_eqb x y && go t t'
         | _, _ => false
         end) ch ch'
  end.

Fixpoint iat_path (f : itree -> result itree) (path : list nat) (t : itree) : result itree :=
  match path with
  | [] => f t
  | i :: p => match nth_error (i_ch t) i with
              | None => Err EIndex
              | Some c => bind (iat_path f p c) (fun c' => Ok (iset_ch t (update_nth (i_ch t) i c')))
              end
  end.

Definition run_iop (o : opk) (path : list nat) (t : itree) : option (result itree) :=
  match o with
  | OUnroll => Some match rev path with
                    | [] => Err EDomain
                    | i :: rp => iat_path (fun p => iunroll p i) (rev rp) t
                    end
  | OUnrollChildren => Some (iat_path iunroll_children path t)
  | OEncapsulate => Some (iat_path (fun n => Ok (iencapsulate n)) path t)
  | OSplit idx => Some (iat_path (fun n => isplit n idx) path t)
  | _ => None
  end.

Definition icorr (input : itree) (path : list nat) (o : opk) (impl : iobs) : bool :=
  match run_iop o path input, impl with
  | Some (Ok t'), IObsOk after => itree_eqb t' after
  | Some (Err e), IObsErr e' after => err_eqb e e' && itree_eqb input after
  | _, _ => false
  end.

(* the property under C09's invariant: indices right before => indices right afterwards and the same pulse *)
Definition ispec (input : itree) (impl : iobs) : bool :=
  negb (idx_ok input) ||
  let after := match impl with IObsOk a => a | IObsErr _ a => a end in
  idx_ok after && pieces_equivb (pieces (Model_idx.erase after)) (pieces (Model_idx.erase input))
  && Qeq_bool (duration (Model_idx.erase after)) (duration (Model_idx.erase input)).

Definition acv_of (l : list (N * list (N * option Q))) : acv_t :=
  fun i c => match assoc i l with
             | Some a => match assoc c a with Some o => o | None => None end
             | None => None
             end.

Definition check_corr (c : case) : bool :=
  match c with
  | CRewrite input path o impl => corr_step input path o impl
  | CSeq input prefix mid path o impl =>
      match run_prefix prefix input with
      | Ok m => tree_eqb m mid && corr_step m path o impl
      | Err _ => false
      end
  | CSpecOnly _ _ _ _ => true
  | CVol input path o impl envs probes =>
      vcorr_step input path o impl &&
      match run_vop o path input with
      | Some (Ok (t', _)) => ptree_eqb (probe envs t') probes
      | Some (Err _) => ptree_eqb (probe envs input) probes
      | None => true
      end
  | CIdx input path o impl => icorr input path o impl
  | CDec input path o impl _ _ _ _ => corr_step input path o impl     (* the samples are no model claim: spec only *)
  | CToWf input impl => result_wf_eqb (to_waveform input) impl
  | CCv acv items =>
      forallb (fun it => let '(w, c, impl) := it in optQ_eqb (constant_value (acv_of acv) w c) impl) items
  | CSfg n m impl => result_Z_eqb (smallest_factor_ge n m) impl
  | CCrash => false
  end.

(* ------------------------------------------------------------------------------------------------------------------ *)
(* specification

   Independence (round-5 audit).  [check_spec] never runs a rewrite of the model ([run_op] / [run_vop] / [run_iop] and the
   functions they call — unroll_child, unroll_children_op, encapsulate, split_one_child, merge_single_child, cleanup,
   flatten_and_balance, make_compatible, roll_constant_waveforms, to_waveform, smallest_factor_ge, their volatile / indexed
   versions — occur in [check_corr] only).  What it shares with Model.v are the definitions the property is STATED in:
     - the meaning of a described program: [pieces], [wf_pieces], [duration], [wf_dur], [pdur] and the decision procedure
       [pieces_equivb] for [Spec.same_play] ([Props.C06_spec_oracle_sound]; its side condition, no negative piece
       duration, is evaluated below as [nonneg_pieces]);
     - plain predicates on a tree that spell out the postconditions: [depth], [balanced] (Node.depth / is_balanced
       recomputed from the described tree AND compared with what the implementation reports), [leaves_ok] (every leaf
       waveform >= min_len samples and a multiple of the quantum), [Spec.no_empty_below], [is_leaf], [has_wf], [has_meas],
       [mergeable] / [vmergeable] (the precondition of _merge_single_child = the postcondition of
       cleanup('merge_single_child'): exactly one child, and a measured parent only over a count-1 child / a non-volatile
       pair), [vol_count], [idx_ok];
     - arithmetic helpers: [q_is_int], [q_int], [py_index] (Python's list index rule), [assoc].
   A change of one of these would change what the property SAYS, not how the model computes; none of them is a rewrite. *)

Definition nonneg_pieces (l : list piece) : bool := forallb (fun p => Qle_bool 0 (pdur p)) l.

Definition samples_of (sr : Q) (t : tree) : Q := (duration t * sr)%Q.

(* when is the rewrite entitled to fail, as a predicate on the input alone *)
(* [vol]: the program has volatile repetition counts, which the tree description does not show: a node with measurements
   whose single child has a volatile count is not mergeable, so the two clauses that depend on mergeability are relaxed *)
Definition err_allowed (vol : bool) (input : tree) (path : list nat) (o : opk) (e : err) : bool :=
  match node_at path input with
  | None => false
  | Some n =>
      match o, e with
      | OUnroll, ERuntime => is_leaf n
      | OUnrollChildren, ERuntime => is_leaf n
      | OSplit None, ERuntime => forallb (fun c => t_rep c <=? 1) (t_ch n)
      | OSplit (Some i), EValue => match py_index (length (t_ch n)) i with
                                   | Some k => match nth_error (t_ch n) k with Some c => t_rep c <? 2 | None => false end
                                   | None => false
                                   end
      | OSplit (Some i), EIndex => match py_index (length (t_ch n)) i with None => true | Some _ => false end
      | OMerge, EAssert => negb (mergeable n) || has_wf n || (vol && has_meas n)
      | OMakeCompat ml q sr, EValue =>
          let s := samples_of sr n in
          negb (q_is_int s) || negb (Qle_bool (inject_Z ml) s) || ((0 <? q) && negb (q_int s mod q =? 0))
      | OMakeCompat _ q _, EZeroDiv => q =? 0
      | ORoll _ q _, EZeroDiv => q =? 0
      | _, _ => false
      end
  end.

Definition post (vol : bool) (o : opk) (n_before n : tree) (dp : Z) (bal : bool) : bool :=
  match o with
  | OFlatten d =>
      if 1 <=? d then is_leaf n || ((dp =? d) && bal && (depth n =? d) && balanced n)
      else forallb is_leaf (t_ch n)
  | OMakeCompat ml q sr => leaves_ok ml q sr n
  | OUnrollChildren => t_rep n =? 1
  | OEncapsulate => (depth n =? depth n_before + 1) && (length (t_ch n) =? 1)%nat
  | OSplit _ => (length (t_ch n) =? S (length (t_ch n_before)))%nat
  | OCleanup rm mg => (if rm then no_empty_below n else true) && (if mg then negb (mergeable n) || (vol && has_meas n) else true)
  | _ => true
  end.

Definition spec_step (vol : bool) (input : tree) (path : list nat) (o : opk) (impl : obs) : bool :=
  match impl with
  | ObsOk after dur dp bal =>
      pieces_equivb (pieces after) (pieces input)
      && nonneg_pieces (pieces after) && nonneg_pieces (pieces input)
      && Qeq_bool (duration after) (duration input)
      && Qeq_bool dur (duration input)
      && match o, node_at path input, node_at path after with
         | OUnroll, _, _ => true
         | _, Some nb, Some n => post vol o nb n dp bal
         | _, _, _ => false
         end
  | ObsErr e after =>
      err_allowed vol input path o e && pieces_equivb (pieces after) (pieces input)
      && nonneg_pieces (pieces after) && nonneg_pieces (pieces input)
      && Qeq_bool (duration after) (duration input)
  end.

(* ---- decimal stream: exact voltage of channel 0 at time t (half-open pieces, junction belongs to the later piece) *)
Definition dec_tol : Q := 1 # 1073741824.      (* 2^-30 *)

Fixpoint seg_volt (segs : list (Q * Q * Q * Q)) (t : Q) : option Q :=
  match segs with
  | [] => None
  | (t0, t1, v0, v1) :: r =>
      if Qlt_le_dec t t1 then Some (v0 + (v1 - v0) * (t - t0) / (t1 - t0))%Q else seg_volt r t
  end.

Fixpoint volt_at (ramps : list (N * list (Q * Q * Q * Q))) (l : list piece) (t : Q) : option Q :=
  match l with
  | [] => None
  | p :: r =>
      if Qlt_le_dec t (pdur p) then
        match p with
        | PAtom i d => match assoc i ramps with
                       | Some segs => seg_volt segs t
                       | None => None
                       end
        | PConst _ v => assoc 0%N v
        end
      else volt_at ramps r (Qred (t - pdur p))
  end.

Fixpoint samples_ok (ramps : list (N * list (Q * Q * Q * Q))) (pcs : list piece) (sr : Q) (k : Z) (l : list (option Q)) : bool :=
  match l with
  | [] => true
  | x :: r =>
      match x, volt_at ramps pcs (Qred (inject_Z k / sr)) with
      | Some v, Some e => Qle_bool (Qabs (v - e)) dec_tol
      | _, _ => false
      end && samples_ok ramps pcs sr (k + 1) r
  end.

(* the grid covers [0, duration): floor(duration * sr) points (sr > 0) *)
Definition dec_samples_ok (ramps : list (N * list (Q * Q * Q * Q))) (input : tree) (sr : Q) (l : list (option Q)) : bool :=
  Qle_bool 0 sr && negb (Qeq_bool sr 0)
  && (Z.of_nat (length l) =? Qfloor (duration input * sr))
  && samples_ok ramps (pieces input) sr 0 l.

(* volatile programs: the two clauses that [spec_step true] relaxes, evaluated exactly on the described counts: merging may
   only fail where the code's own precondition (_has_single_child_that_can_be_merged, no waveform) is violated, and after
   cleanup('merge_single_child') the node is not mergeable in the code's sense *)
Definition vspec_exact (input : vtree) (path : list nat) (o : opk) (impl : vobs) : bool :=
  match o, impl with
  | OMerge, VObsErr EAssert _ _ =>
      match vnode_at path input with Some n => negb (vmergeable n) || v_has_wf n | None => false end
  | OCleanup _ true, VObsOk after _ _ _ _ =>
      match vnode_at path after with Some n => negb (vmergeable n) | None => false end
  | OMakeCompat _ _ _, VObsOk after _ _ _ false =>
      (* repaired make_compatible (observation only, no model run): without a VolatileModificationWarning every volatile
         count is still there ([Props.C06_vol_make_compatible_repaired_keeps_counts] is the model's side of it) *)
      negb REPAIRED || (vol_count after =? vol_count input)%nat
  | _, _ => true
  end.

Definition check_spec (c : case) : bool :=
  match c with
  | CRewrite input path o impl => spec_step false input path o impl
  | CSeq input prefix mid path o impl =>
      pieces_equivb (pieces mid) (pieces input) && Qeq_bool (duration mid) (duration input)
      && spec_step false mid path o impl
  | CSpecOnly input path o impl => spec_step true input path o impl
  | CIdx input _ _ impl => ispec input impl
  | CVol input path o impl _ _ => spec_step true (erase input) path o (erase_obs impl) && vspec_exact input path o impl
  | CDec input path o impl sr ramps before after =>
      spec_step false input path o impl && dec_samples_ok ramps input sr before && dec_samples_ok ramps input sr after
  | CToWf input impl =>
      match impl with
      | Ok x => pieces_equivb (wf_pieces x) (pieces input) && nonneg_pieces (wf_pieces x) && nonneg_pieces (pieces input)
                && Qeq_bool (wf_dur x) (duration input)
      | Err _ => false
      end
  | CCv acv items =>
      (* an answer is a promise that get_sampled relies on: every piece the waveform plays is constant at that value on
         the channel (no model function involved: [cv_admissible] looks at the pieces and the atoms' own answers) *)
      forallb (fun it => let '(w, c, impl) := it in cv_admissible (acv_of acv) w c impl) items
  | CSfg n m impl =>
      match impl with
      | Ok k => (m <=? k) && (k <=? n) && (n mod k =? 0)
                && forallb (fun j => negb (n mod (m + Z.of_nat j) =? 0)) (seq 0 (Z.to_nat (k - m)))
      | Err EAssert => n <? m          (* documented precondition min_factor <= n *)
      | Err _ => false
      end
  | CCrash => false
  end.
