(* C06 — correspondence cases.  A case carries the input program (as described from the real Loop object), the rewrite
   that was run on the real code and the implementation's observation.  [check_corr] compares the observation with the
   model; [check_spec] evaluates the property itself on the observation (pulse preserved, duration preserved,
   postcondition, errors only where the rewrite is entitled to fail and without changing the pulse). *)
From Coq Require Import ZArith QArith Qround Qabs Bool List.
Require Import QV.common.Util QV.C06.Model QV.C06.Spec.
Import ListNotations.
Open Scope Z_scope.

Inductive opk :=
| OUnroll                                  (* node.unroll() — node at [path], path <> [] *)
| OUnrollChildren
| OEncapsulate
| OSplit (idx : option Z)
| OMerge                                   (* node._merge_single_child() *)
| OCleanup (rm mg : bool)
| OFlatten (d : Z)
| OMakeCompat (min_len quantum : Z) (sr : Q)
| ORoll (min_quanta quantum : Z) (sr : Q).

(* what the implementation did: the whole program afterwards (also after an exception), the root duration it reports,
   and depth()/is_balanced() of the node the rewrite was applied to *)
Inductive obs :=
| ObsOk (after : tree) (dur_reported : Q) (depth_reported : Z) (balanced_reported : bool)
| ObsErr (e : err) (after : tree).

Inductive case :=
| CRewrite (input : tree) (path : list nat) (o : opk) (impl : obs)
| CSeq (input : tree) (prefix : list (list nat * opk)) (mid : tree) (path : list nat) (o : opk) (impl : obs)
       (* several rewrites in a row on the same objects: [prefix] ran without error and gave [mid] (as observed), then
          [o] at [path] gave [impl] *)
| CSpecOnly (input : tree) (path : list nat) (o : opk) (impl : obs)
       (* programs with volatile repetition counts: the model does not cover them (its split/merge decisions look at plain
          integers), so only the specification is evaluated on the implementation's observation *)
| CDec (input : tree) (path : list nat) (o : opk) (impl : obs) (sr : Q) (ramps : list (N * (Q * Q)))
       (before after : list (option Q))
       (* decimal stream: leaf durations that are no binary fractions (k/10, k/3 ...).  The tree part is exact (durations
          are rationals in the code as well) and is checked like [CRewrite]; in addition channel 0 of
          to_waveform(program) was sampled at the grid points k / sr (given to the code as correctly rounded doubles)
          before and after the rewrite.  Those samples are binary64 results: they are compared with the exact rational
          voltage of the input program under the declared absolute tolerance [dec_tol]; atom [i] is a linear ramp from
          [v0] (local time 0) to [v1] (local time = its duration) for (i, (v0, v1)) in [ramps]. None = NaN. *)
| CToWf (input : tree) (impl : result wf)
| CSfg (n m : Z) (impl : result Z)
| CCrash.

(* ------------------------------------------------------------------------------------------------------------------ *)
Definition err_eqb (a b : err) : bool :=
  match a, b with
  | ERuntime, ERuntime | EValue, EValue | EAssert, EAssert | EZeroDiv, EZeroDiv | EIndex, EIndex
  | EDomain, EDomain | OutOfFuel, OutOfFuel => true
  | _, _ => false
  end.

(* leaf waveforms are compared by what they play, not by their internal nesting *)
Definition wf_eqb (a b : wf) : bool :=
  pieces_equivb (wf_pieces a) (wf_pieces b) && Qeq_bool (wf_dur a) (wf_dur b).

Definition nlist_eqb (a b : list N) : bool := list_eqb N.eqb a b.

Fixpoint tree_eqb (a b : tree) : bool :=
  match a, b with
  | Node r w m ch, Node r' w' m' ch' =>
      (* measurements: only their presence is compared — it steers _has_single_child_that_can_be_merged; which windows
         survive a rewrite is C02's subject, not part of this property *)
      (r =? r') && opt_eqb wf_eqb w w' && Bool.eqb (has_meas (Node r w m ch)) (has_meas (Node r' w' m' ch')) &&
      (fix go (l : list tree) (l' : list tree) : bool :=
         match l, l' with
         | [], [] => true
         | x :: t, y :: t' => tree_eqb x y && go t t'
         | _, _ => false
         end) ch ch'
  end.

(* apply a rewrite to the node at [path] *)
Fixpoint at_path (f : tree -> result tree) (path : list nat) (t : tree) : result tree :=
  match path with
  | [] => f t
  | i :: p => match nth_error (t_ch t) i with
              | None => Err EIndex
              | Some c => bind (at_path f p c) (fun c' => Ok (set_ch t (update_nth (t_ch t) i c')))
              end
  end.

Fixpoint node_at (path : list nat) (t : tree) : option tree :=
  match path with
  | [] => Some t
  | i :: p => match nth_error (t_ch t) i with None => None | Some c => node_at p c end
  end.

Definition fab_fuel : nat := 4000.

Definition run_op (o : opk) (path : list nat) (t : tree) : result tree :=
  match o with
  | OUnroll =>
      match rev path with
      | [] => Err EDomain                  (* root.unroll(): parent is None -> TypeError *)
      | i :: rp => at_path (fun p => unroll_child p i) (rev rp) t
      end
  | OUnrollChildren => at_path unroll_children_op path t
  | OEncapsulate => at_path (fun n => Ok (encapsulate n)) path t
  | OSplit idx => at_path (fun n => split_one_child n idx) path t
  | OMerge => at_path merge_single_child path t
  | OCleanup rm mg => at_path (cleanup rm mg) path t
  | OFlatten d => at_path (flatten_and_balance fab_fuel d) path t
  | OMakeCompat ml q sr => at_path (make_compatible ml q sr) path t
  | ORoll mq q sr => at_path (roll_constant_waveforms mq q sr) path t
  end.

Definition result_wf_eqb (a b : result wf) : bool :=
  match a, b with
  | Ok x, Ok y => wf_eqb x y
  | Err e, Err e' => err_eqb e e'
  | _, _ => false
  end.

Definition result_Z_eqb (a b : result Z) : bool :=
  match a, b with
  | Ok x, Ok y => x =? y
  | Err e, Err e' => err_eqb e e'
  | _, _ => false
  end.

Definition corr_step (input : tree) (path : list nat) (o : opk) (impl : obs) : bool :=
  match run_op o path input, impl with
  | Ok t', ObsOk after _ dp bal =>
      tree_eqb t' after &&
      match node_at path after with
      | Some n => (depth n =? dp) && Bool.eqb (balanced n) bal      (* Node.depth / Node.is_balanced *)
      | None => match o with OUnroll => true | _ => false end        (* the unrolled node is gone *)
      end
  | Err e, ObsErr e' after => err_eqb e e' && tree_eqb input after   (* a failed rewrite leaves the program as it was *)
  | _, _ => false
  end.

Fixpoint run_prefix (steps : list (list nat * opk)) (t : tree) : result tree :=
  match steps with
  | [] => Ok t
  | (p, o) :: r => bind (run_op o p t) (run_prefix r)
  end.

Definition check_corr (c : case) : bool :=
  match c with
  | CRewrite input path o impl => corr_step input path o impl
  | CSeq input prefix mid path o impl =>
      match run_prefix prefix input with
      | Ok m => tree_eqb m mid && corr_step m path o impl
      | Err _ => false
      end
  | CSpecOnly _ _ _ _ => true
  | CDec input path o impl _ _ _ _ => corr_step input path o impl     (* the samples are no model claim: spec only *)
  | CToWf input impl => result_wf_eqb (to_waveform input) impl
  | CSfg n m impl => result_Z_eqb (smallest_factor_ge n m) impl
  | CCrash => false
  end.

(* ------------------------------------------------------------------------------------------------------------------ *)
(* specification *)

Definition samples_of (sr : Q) (t : tree) : Q := (duration t * sr)%Q.

(* when is the rewrite entitled to fail, as a predicate on the input alone *)
(* [vol]: the program has volatile repetition counts, which the tree description does not show: a node with measurements
   whose single child has a volatile count is not mergeable, so the two clauses that depend on mergeability are relaxed *)
Definition err_allowed (vol : bool) (input : tree) (path : list nat) (o : opk) (e : err) : bool :=
  match node_at path input with
  | None => false
  | Some n =>
      match o, e with
      | OUnroll, ERuntime => is_leaf n
      | OUnrollChildren, ERuntime => is_leaf n
      | OSplit None, ERuntime => forallb (fun c => t_rep c <=? 1) (t_ch n)
      | OSplit (Some i), EValue => match py_index (length (t_ch n)) i with
                                   | Some k => match nth_error (t_ch n) k with Some c => t_rep c <? 2 | None => false end
                                   | None => false
                                   end
      | OSplit (Some i), EIndex => match py_index (length (t_ch n)) i with None => true | Some _ => false end
      | OMerge, EAssert => negb (mergeable n) || has_wf n || (vol && has_meas n)
      | OMakeCompat ml q sr, EValue =>
          let s := samples_of sr n in
          negb (q_is_int s) || negb (Qle_bool (inject_Z ml) s) || ((0 <? q) && negb (q_int s mod q =? 0))
      | OMakeCompat _ q _, EZeroDiv => q =? 0
      | ORoll _ q _, EZeroDiv => q =? 0
      | _, _ => false
      end
  end.

Definition post (vol : bool) (o : opk) (n_before n : tree) (dp : Z) (bal : bool) : bool :=
  match o with
  | OFlatten d =>
      if 1 <=? d then is_leaf n || ((dp =? d) && bal && (depth n =? d) && balanced n)
      else forallb is_leaf (t_ch n)
  | OMakeCompat ml q sr => leaves_ok ml q sr n
  | OUnrollChildren => t_rep n =? 1
  | OEncapsulate => (depth n =? depth n_before + 1) && (length (t_ch n) =? 1)%nat
  | OSplit _ => (length (t_ch n) =? S (length (t_ch n_before)))%nat
  | OCleanup rm mg => (if rm then no_empty_below n else true) && (if mg then negb (mergeable n) || (vol && has_meas n) else true)
  | _ => true
  end.

Definition spec_step (vol : bool) (input : tree) (path : list nat) (o : opk) (impl : obs) : bool :=
  match impl with
  | ObsOk after dur dp bal =>
      pieces_equivb (pieces after) (pieces input)
      && Qeq_bool (duration after) (duration input)
      && Qeq_bool dur (duration input)
      && match o, node_at path input, node_at path after with
         | OUnroll, _, _ => true
         | _, Some nb, Some n => post vol o nb n dp bal
         | _, _, _ => false
         end
  | ObsErr e after =>
      err_allowed vol input path o e && pieces_equivb (pieces after) (pieces input)
      && Qeq_bool (duration after) (duration input)
  end.

(* ---- decimal stream: exact voltage of channel 0 at time t (half-open pieces, junction belongs to the later piece) *)
Definition dec_tol : Q := 1 # 1073741824.      (* 2^-30 *)

Fixpoint assoc {A} (k : N) (l : list (N * A)) : option A :=
  match l with [] => None | (k', a) :: r => if N.eqb k k' then Some a else assoc k r end.

Fixpoint volt_at (ramps : list (N * (Q * Q))) (l : list piece) (t : Q) : option Q :=
  match l with
  | [] => None
  | p :: r =>
      if Qlt_le_dec t (pdur p) then
        match p with
        | PAtom i d => match assoc i ramps with
                       | Some (v0, v1) => Some (v0 + (v1 - v0) * t / d)%Q
                       | None => None
                       end
        | PConst _ v => assoc 0%N v
        end
      else volt_at ramps r (Qred (t - pdur p))
  end.

Fixpoint samples_ok (ramps : list (N * (Q * Q))) (pcs : list piece) (sr : Q) (k : Z) (l : list (option Q)) : bool :=
  match l with
  | [] => true
  | x :: r =>
      match x, volt_at ramps pcs (Qred (inject_Z k / sr)) with
      | Some v, Some e => Qle_bool (Qabs (v - e)) dec_tol
      | _, _ => false
      end && samples_ok ramps pcs sr (k + 1) r
  end.

(* the grid covers [0, duration): floor(duration * sr) points (sr > 0) *)
Definition dec_samples_ok (ramps : list (N * (Q * Q))) (input : tree) (sr : Q) (l : list (option Q)) : bool :=
  Qle_bool 0 sr && negb (Qeq_bool sr 0)
  && (Z.of_nat (length l) =? Qfloor (duration input * sr))
  && samples_ok ramps (pieces input) sr 0 l.

Definition check_spec (c : case) : bool :=
  match c with
  | CRewrite input path o impl => spec_step false input path o impl
  | CSeq input prefix mid path o impl =>
      pieces_equivb (pieces mid) (pieces input) && Qeq_bool (duration mid) (duration input)
      && spec_step false mid path o impl
  | CSpecOnly input path o impl => spec_step true input path o impl
  | CDec input path o impl sr ramps before after =>
      spec_step false input path o impl && dec_samples_ok ramps input sr before && dec_samples_ok ramps input sr after
  | CToWf input impl =>
      match impl with
      | Ok x => pieces_equivb (wf_pieces x) (pieces input) && Qeq_bool (wf_dur x) (duration input)
      | Err _ => false
      end
  | CSfg n m impl =>
      match impl with
      | Ok k => (m <=? k) && (k <=? n) && (n mod k =? 0)
                && forallb (fun j => negb (n mod (m + Z.of_nat j) =? 0)) (seq 0 (Z.to_nat (k - m)))
      | Err EAssert => n <? m          (* documented precondition min_factor <= n *)
      | Err _ => false
      end
  | CCrash => false
  end.
