(* C06 — termination of flatten_and_balance: for every level and every work list some fuel suffices. *)
From Coq Require Import ZArith QArith List Bool Lia ZifyBool.
Require Import QV.C06.Model QV.C06.Spec QV.C06.Proofs_base QV.C06.Proofs_struct.
Import ListNotations.
Open Scope Z_scope.

(* ------------------------------------------------------------------------------------------------------------------ *)
(* fuel-free view: [Runs d l r] — the loop on [l] at level [d] finishes with the (non-fuel) result [r] *)

Definition Runs (d : Z) (l : list tree) (r : result (list tree)) : Prop :=
  r <> Err OutOfFuel /\ exists n, fab_list n d l = r.

Definition Term (d : Z) (l : list tree) : Prop := exists r, Runs d l r.

Definition keep (sub : tree) (r : result (list tree)) : result (list tree) := bind r (fun x => Ok (sub :: x)).

Lemma keep_noof sub r : r <> Err OutOfFuel -> keep sub r <> Err OutOfFuel.
Proof. destruct r; cbn; auto. discriminate. Qed.

Lemma merge_err_assert t e : merge_single_child t = Err e -> e = EAssert.
Proof.
  destruct t as [rep w m [|[crep cw cm cch] [|c2 ch]]]; cbn [merge_single_child]; try congruence.
  destruct (_ && _); [congruence|]. destruct w; congruence.
Qed.

Lemma runs_nil d : Runs d [] (Ok []).
Proof. split; [discriminate|]. exists 1%nat. reflexivity. Qed.

Lemma runs_enc d sub rest r : (depth sub <? d - 1) = true ->
  Runs d (encapsulate sub :: rest) r -> Runs d (sub :: rest) r.
Proof. intros C1 [Hr [n H]]. split; auto. exists (S n). rewrite fab_list_S, C1. exact H. Qed.

Lemma runs_unbal_ok d sub rest cs r : (depth sub <? d - 1) = false -> balanced sub = false ->
  Runs (d - 1) (t_ch sub) (Ok cs) -> Runs d (set_ch sub cs :: rest) r -> Runs d (sub :: rest) r.
Proof.
  intros C1 C2 [Hr1 [n1 H1]] [Hr [n2 H2]]. split; auto. exists (S (n1 + n2)).
  rewrite fab_list_S, C1, C2. cbn [negb].
  rewrite (fab_list_fuel_mono _ _ _ _ H1 Hr1 n2). cbn [bind].
  rewrite Nat.add_comm. apply fab_list_fuel_mono; auto.
Qed.

Lemma runs_unbal_err d sub rest e : (depth sub <? d - 1) = false -> balanced sub = false ->
  Runs (d - 1) (t_ch sub) (Err e) -> Runs d (sub :: rest) (Err e).
Proof.
  intros C1 C2 [Hr1 [n1 H1]]. split; auto. exists (S n1).
  rewrite fab_list_S, C1, C2. cbn [negb]. rewrite H1. reflexivity.
Qed.

Lemma runs_keep d sub rest r : (depth sub <? d - 1) = false -> balanced sub = true ->
  ((depth sub =? d - 1) = true \/ (mergeable sub = false /\ is_leaf sub = true)) ->
  Runs d rest r -> Runs d (sub :: rest) (keep sub r).
Proof.
  intros C1 C2 C [Hr [n H]]. split; [apply keep_noof; auto|]. exists (S n).
  rewrite fab_list_S, C1, C2. cbn [negb]. destruct C as [C3|[C4 C5]].
  - rewrite C3, H. reflexivity.
  - destruct (depth sub =? d - 1); [|rewrite C4, C5; cbn [negb]]; rewrite H; reflexivity.
Qed.

Lemma runs_merge_ok d sub rest s r : (depth sub <? d - 1) = false -> balanced sub = true ->
  (depth sub =? d - 1) = false -> mergeable sub = true -> merge_single_child sub = Ok s ->
  Runs d (s :: rest) r -> Runs d (sub :: rest) r.
Proof.
  intros C1 C2 C3 C4 Hm [Hr [n H]]. split; auto. exists (S n).
  rewrite fab_list_S, C1, C2, C3, C4, Hm. cbn [negb bind]. exact H.
Qed.

Lemma runs_merge_err d sub rest e : (depth sub <? d - 1) = false -> balanced sub = true ->
  (depth sub =? d - 1) = false -> mergeable sub = true -> merge_single_child sub = Err e ->
  Runs d (sub :: rest) (Err e).
Proof.
  intros C1 C2 C3 C4 Hm. split; [rewrite (merge_err_assert _ _ Hm); discriminate|]. exists 1%nat.
  rewrite fab_list_S, C1, C2, C3, C4, Hm. reflexivity.
Qed.

Lemma runs_unroll d sub rest r : (depth sub <? d - 1) = false -> balanced sub = true ->
  (depth sub =? d - 1) = false -> mergeable sub = false -> is_leaf sub = false ->
  Runs d (unrolled sub ++ rest) r -> Runs d (sub :: rest) r.
Proof.
  intros C1 C2 C3 C4 C5 [Hr [n H]]. split; auto. exists (S n).
  rewrite fab_list_S, C1, C2, C3, C4, C5. cbn [negb]. exact H.
Qed.

(* ------------------------------------------------------------------------------------------------------------------ *)
(* left-to-right compositionality *)

Definition comb (ra rb : result (list tree)) : result (list tree) :=
  match ra with Ok oa => bind rb (fun x => Ok (oa ++ x)) | Err e => Err e end.

Lemma runs_app_fuel : forall n d a ra, fab_list n d a = ra -> ra <> Err OutOfFuel ->
  forall b rb, Runs d b rb -> Runs d (a ++ b) (comb ra rb).
Proof.
  induction n as [|f IH]; intros d a ra H Hra b rb Hb; [cbn in H; congruence|].
  rewrite fab_list_S in H. destruct a as [|sub a'].
  - subst ra. replace (comb (Ok []) rb) with rb by (destruct rb; reflexivity). exact Hb.
  - cbn [app].
    assert (forall ra', fab_list f d a' = ra' -> keep sub ra' = ra -> Runs d (sub :: a' ++ b) (keep sub (comb ra' rb)) ->
                        Runs d (sub :: a' ++ b) (comb ra rb)) as Hkeep.
    { intros ra' _ E HR. rewrite <- E. destruct ra', rb; exact HR. }
    assert (forall ra', keep sub ra' = ra -> ra' <> Err OutOfFuel) as Hnoof.
    { intros ra' E1 E2. apply Hra. rewrite <- E1, E2. reflexivity. }
    destruct (depth sub <? d - 1) eqn:C1.
    { apply runs_enc; auto. exact (IH d (encapsulate sub :: a') ra H Hra b rb Hb). }
    destruct (balanced sub) eqn:C2; cbn [negb] in H.
    2:{ destruct (fab_list f (d - 1) (t_ch sub)) as [cs|e] eqn:H1; cbn [bind] in H.
        - eapply runs_unbal_ok; eauto.
          + split; [discriminate|eauto].
          + exact (IH d (set_ch sub cs :: a') ra H Hra b rb Hb).
        - subst ra. cbn [comb]. apply runs_unbal_err; auto. split; eauto. }
    destruct (depth sub =? d - 1) eqn:C3.
    { apply (Hkeep _ eq_refl H). apply runs_keep; [auto|auto|auto|]. exact (IH d a' _ eq_refl (Hnoof _ H) b rb Hb). }
    destruct (mergeable sub) eqn:C4.
    { destruct (merge_single_child sub) as [s|e] eqn:Hm; cbn [bind] in H.
      - eapply runs_merge_ok; eauto. exact (IH d (s :: a') ra H Hra b rb Hb).
      - subst ra. cbn [comb]. eapply runs_merge_err; eauto. }
    destruct (is_leaf sub) eqn:C5; cbn [negb] in H.
    { apply (Hkeep _ eq_refl H). apply runs_keep; [auto|auto|auto|]. exact (IH d a' _ eq_refl (Hnoof _ H) b rb Hb). }
    apply runs_unroll; auto. rewrite app_assoc. eapply IH; eauto.
Qed.

Lemma Term_nil d : Term d [].
Proof. exists (Ok []). apply runs_nil. Qed.

Lemma Term_app d a b : Term d a -> Term d b -> Term d (a ++ b).
Proof. intros [ra [Hra [n H]]] [rb Hb]. exists (comb ra rb). eapply runs_app_fuel; eauto. Qed.

Lemma Term_Forall d l : Forall (fun t => Term d [t]) l -> Term d l.
Proof.
  induction 1 as [|x l Hx _ IH]; [apply Term_nil|]. change (x :: l) with ([x] ++ l). apply Term_app; auto.
Qed.

(* ------------------------------------------------------------------------------------------------------------------ *)
(* balanced trees *)

Lemma depth_encapsulate s : depth (encapsulate s) = 1 + depth s.
Proof.
  pose proof (depth_nonneg s). destruct s as [r w m ch]. unfold encapsulate. rewrite depth_cons.
  cbn [map zmax_list fold_right]. lia.
Qed.

Lemma balanced_encapsulate s : balanced (encapsulate s) = balanced s.
Proof.
  destruct s as [r w m ch]. unfold encapsulate. rewrite balanced_cons. cbn [forallb].
  rewrite Z.eqb_refl, andb_true_r. reflexivity.
Qed.

Lemma t_ch_encapsulate s : t_ch (encapsulate s) = [s].
Proof. destruct s; reflexivity. Qed.

Lemma t_ch_set_ch s cs : t_ch (set_ch s cs) = cs.
Proof. destruct s; reflexivity. Qed.

Lemma mergeable_leaf s : is_leaf s = true -> mergeable s = false.
Proof. unfold is_leaf, mergeable. destruct (t_ch s); [reflexivity|discriminate]. Qed.

Lemma In_rep_list {A} (x : A) n l : In x (rep_list n l) -> In x l.
Proof. induction n; cbn [rep_list]; [intros []|]. intros H. apply in_app_or in H. tauto. Qed.

(* a balanced tree that is not too deep is wrapped until it has depth d-1 and emitted *)
Lemma term_balanced_low : forall k s d, balanced s = true -> d - 1 - depth s = Z.of_nat k -> Term d [s].
Proof.
  induction k as [|k IH]; intros s d Hb Hk.
  - exists (keep s (Ok [])). apply runs_keep; [lia|auto|left; lia|apply runs_nil].
  - destruct (IH (encapsulate s) d) as [r Hr].
    + rewrite balanced_encapsulate; auto.
    + rewrite depth_encapsulate. lia.
    + exists r. apply runs_enc; [lia|auto].
Qed.

Lemma term_leaf s d : is_leaf s = true -> Term d [s].
Proof.
  intros Hl. pose proof (balanced_leaf _ Hl) as Hb. pose proof (depth_leaf _ Hl) as Hd.
  destruct (Z_le_gt_dec 0 (d - 1)).
  - apply (term_balanced_low (Z.to_nat (d - 1)) s d); auto. lia.
  - exists (keep s (Ok [])). apply runs_keep; [lia|auto| |apply runs_nil].
    right. split; auto. apply mergeable_leaf; auto.
Qed.

Lemma term_balanced_gen t d : balanced t = true ->
  (forall s, merge_single_child t = Ok s -> Term d [s]) ->
  (forall c, In c (t_ch t) -> Term d [c]) -> Term d [t].
Proof.
  intros Hb Hm Hc. destruct (Z_le_gt_dec (depth t) (d - 1)).
  - apply (term_balanced_low (Z.to_nat (d - 1 - depth t)) t d); auto. lia.
  - destruct (mergeable t) eqn:C4.
    + destruct (merge_single_child t) as [s|e] eqn:Hms.
      * destruct (Hm s eq_refl) as [r Hr]. exists r. eapply runs_merge_ok; eauto; lia.
      * exists (Err e). eapply runs_merge_err; eauto; lia.
    + destruct (is_leaf t) eqn:C5.
      * exists (keep t (Ok [])). apply runs_keep; [lia|auto|auto|apply runs_nil].
      * assert (Term d (unrolled t ++ [])) as [r Hr].
        { rewrite app_nil_r. apply Term_Forall. unfold unrolled. apply Forall_forall. intros c Hin.
          apply Hc. eapply In_rep_list; eauto. }
        exists r. apply runs_unroll; auto; lia.
Qed.

Lemma node_balanced_depth r w m c0 cs x : 0 <= x ->
  Forall (fun c => balanced c = true /\ depth c = x) (c0 :: cs) ->
  depth (Node r w m (c0 :: cs)) = 1 + x /\ balanced (Node r w m (c0 :: cs)) = true.
Proof.
  intros Hx HF. split.
  - rewrite depth_cons. rewrite (zmax_list_const _ x); [lia|lia|discriminate|].
    apply Forall_map. eapply Forall_impl; [|exact HF]. cbn beta. tauto.
  - rewrite balanced_cons. apply forallb_forall. intros e He.
    rewrite Forall_forall in HF. destruct (HF e He) as [Hb Hde]. destruct (HF c0 (or_introl eq_refl)) as [_ Hd0].
    rewrite Hb, andb_true_r. lia.
Qed.

(* a node over leaves *)
Lemma term_over_leaves s d : forallb is_leaf (t_ch s) = true -> Term d [s].
Proof.
  intros Hl. rewrite forallb_forall in Hl.
  assert (balanced s = true) as Hb.
  { destruct s as [r w m [|c0 cs]]; [reflexivity|]. cbn [t_ch] in Hl.
    apply (node_balanced_depth r w m c0 cs 0); [lia|]. apply Forall_forall. intros c Hc.
    split; [apply balanced_leaf|apply depth_leaf]; auto. }
  apply term_balanced_gen; auto.
  - intros s2 Hm. destruct (merge_single_child_inv _ _ Hm) as (rep & m & crep & cw & cm & cch & -> & ->).
    cbn [t_ch] in Hl. specialize (Hl _ (or_introl eq_refl)). apply term_leaf.
    unfold is_leaf in *. cbn [t_ch] in *. exact Hl.
  - intros c Hc. apply term_leaf; auto.
Qed.

(* the node rebuilt over the result of the inner call *)
Lemma term_set_ch_post d s cs :
  Forall (fun c => (balanced c = true /\ depth c = d - 1 - 1) \/ (is_leaf c = true /\ d - 1 - 1 < 0)) cs ->
  Term d [set_ch s cs].
Proof.
  intros HF. destruct (Z_lt_ge_dec (d - 1 - 1) 0).
  - apply term_over_leaves. rewrite t_ch_set_ch. apply forallb_forall. intros c Hc.
    rewrite Forall_forall in HF. destruct (HF c Hc) as [[_ H]|[H _]]; auto.
    pose proof (depth_nonneg c). lia.
  - destruct cs as [|c0 cs].
    + apply term_leaf. destruct s; reflexivity.
    + assert (Forall (fun c => balanced c = true /\ depth c = d - 1 - 1) (c0 :: cs)) as HF'.
      { eapply Forall_impl; [|exact HF]. cbn beta. intros c [H|[_ H]]; [auto|lia]. }
      destruct s as [r w m ch]. cbn [set_ch].
      destruct (node_balanced_depth r w m c0 cs (d - 1 - 1) ltac:(lia) HF') as [Hd Hb].
      apply (term_balanced_low 0 _ d); auto. lia.
Qed.

(* ------------------------------------------------------------------------------------------------------------------ *)
(* unbalanced trees *)

Lemma unbal_step W d : balanced W = false -> depth W >= d - 1 -> Term (d - 1) (t_ch W) -> Term d [W].
Proof.
  intros Hb Hd [r [Hr [n Hn]]]. destruct r as [cs|e].
  - pose proof (fab_list_post _ _ _ _ Hn) as Hpost.
    destruct (term_set_ch_post d W cs Hpost) as [r' Hr']. exists r'.
    eapply runs_unbal_ok; eauto; [lia|]. split; eauto.
  - exists (Err e). apply runs_unbal_err; auto; [lia|]. split; eauto.
Qed.

Fixpoint wrap (j : nat) (t : tree) : tree :=
  match j with O => t | S j' => encapsulate (wrap j' t) end.

Lemma balanced_wrap j t : balanced (wrap j t) = balanced t.
Proof. induction j; cbn [wrap]; auto. rewrite balanced_encapsulate. auto. Qed.

Lemma wrap_deep t : balanced t = false -> (forall d, Term d (t_ch t)) ->
  forall j d, depth (wrap j t) >= d - 1 -> Term d [wrap j t].
Proof.
  intros Hb Hch. induction j as [|j IH]; intros d Hd.
  - cbn [wrap] in *. apply unbal_step; auto.
  - apply unbal_step; auto.
    + rewrite balanced_wrap. auto.
    + cbn [wrap] in *. rewrite t_ch_encapsulate. apply IH. rewrite depth_encapsulate in Hd. lia.
Qed.

Lemma wrap_any t : balanced t = false -> (forall d, Term d (t_ch t)) ->
  forall k j d, d - 1 - depth (wrap j t) <= Z.of_nat k -> Term d [wrap j t].
Proof.
  intros Hb Hch. induction k as [|k IH]; intros j d H.
  - apply wrap_deep; auto; lia.
  - destruct (Z_lt_ge_dec (depth (wrap j t)) (d - 1)).
    + destruct (IH (S j) d) as [r Hr].
      { cbn [wrap]. rewrite depth_encapsulate. lia. }
      exists r. apply runs_enc; [lia|exact Hr].
    + apply wrap_deep; auto; lia.
Qed.

Lemma term_unbalanced t : balanced t = false -> (forall d, Term d (t_ch t)) -> forall d, Term d [t].
Proof. intros Hb Hch d. apply (wrap_any t Hb Hch (Z.to_nat (d - 1 - depth t)) 0%nat d). cbn [wrap]. lia. Qed.

(* ------------------------------------------------------------------------------------------------------------------ *)
(* the induction on the number of nodes *)

Fixpoint tsize (t : tree) : nat :=
  match t with Node _ _ _ ch => S (list_sum (map tsize ch)) end.

Lemma tsize_node r w m ch : tsize (Node r w m ch) = S (list_sum (map tsize ch)).
Proof. reflexivity. Qed.

Lemma tsize_child c ch : In c ch -> (tsize c <= list_sum (map tsize ch))%nat.
Proof.
  induction ch as [|a ch IH]; intros H; [destruct H|]. cbn [map list_sum fold_right]. destruct H as [->|H].
  - lia.
  - specialize (IH H). unfold list_sum in IH. lia.
Qed.

Lemma term_single : forall n t, (tsize t <= n)%nat -> forall d, Term d [t].
Proof.
  induction n as [|n IH]; intros t Hn d.
  - destruct t. rewrite tsize_node in Hn. lia.
  - assert (forall c, In c (t_ch t) -> forall d', Term d' [c]) as Hc.
    { intros c Hin d'. apply IH. destruct t as [r w m ch]. cbn [t_ch] in Hin. rewrite tsize_node in Hn.
      pose proof (tsize_child c ch Hin). lia. }
    destruct (balanced t) eqn:Hb.
    + apply term_balanced_gen; auto.
      intros s Hm. apply IH.
      destruct (merge_single_child_inv _ _ Hm) as (rep & m & crep & cw & cm & cch & -> & ->).
      rewrite !tsize_node in *. cbn [map list_sum fold_right] in Hn. rewrite tsize_node in Hn. lia.
    + apply term_unbalanced; auto. intros d'. apply Term_Forall. apply Forall_forall. intros c Hin. apply Hc; auto.
Qed.

Lemma Term_all d todo : Term d todo.
Proof. apply Term_Forall. apply Forall_forall. intros t _. apply (term_single (tsize t)). lia. Qed.

Theorem fab_list_terminates : forall d todo, exists n, forall k, fab_list (n + k) d todo <> Err OutOfFuel.
Proof.
  intros d todo. destruct (Term_all d todo) as [r [Hr [n Hn]]]. exists n. intros k.
  rewrite (fab_list_fuel_mono _ _ _ _ Hn Hr k). exact Hr.
Qed.

Corollary flatten_and_balance_terminates : forall d t, exists n, forall k,
  flatten_and_balance (n + k) d t <> Err OutOfFuel.
Proof.
  intros d t. destruct (fab_list_terminates d (t_ch t)) as [n Hn]. exists n. intros k.
  unfold flatten_and_balance. specialize (Hn k). destruct (fab_list (n + k) d (t_ch t)) as [cs|e]; cbn [bind].
  - discriminate.
  - intros E. apply Hn. inversion E. reflexivity.
Qed.
