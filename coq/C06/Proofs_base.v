(* C06 — induction principles for the nested inductives and basic list lemmas shared by the proof files. *)
From Coq Require Import ZArith QArith List Bool Lia.
Require Import QV.C06.Model.
Import ListNotations.

Section TreeInd.
  Variable P : tree -> Prop.
  Hypothesis H : forall rep w m ch, Forall P ch -> P (Node rep w m ch).
  Fixpoint tree_ind' (t : tree) : P t :=
    match t with
    | Node rep w m ch =>
        H rep w m ch ((fix go (l : list tree) : Forall P l :=
                         match l with [] => Forall_nil P | c :: r => Forall_cons c (tree_ind' c) (go r) end) ch)
    end.
End TreeInd.

Section WfInd.
  Variable P : wf -> Prop.
  Hypothesis Hatom : forall i d, P (WAtom i d).
  Hypothesis Hconst : forall d v, P (WConst d v).
  Hypothesis Hseq : forall l, Forall P l -> P (WSeq l).
  Hypothesis Hrep : forall b n, P b -> P (WRep b n).
  Fixpoint wf_ind' (x : wf) : P x :=
    match x with
    | WAtom i d => Hatom i d
    | WConst d v => Hconst d v
    | WSeq l => Hseq l ((fix go (l : list wf) : Forall P l :=
                           match l with [] => Forall_nil P | c :: r => Forall_cons c (wf_ind' c) (go r) end) l)
    | WRep b n => Hrep b n (wf_ind' b)
    end.
End WfInd.

(* the body of a node: pieces t = rep_list (Z.to_nat rep) (body_pieces t) *)
Definition body_pieces (t : tree) : list piece :=
  match t with
  | Node _ w _ [] => match w with Some x => wf_pieces x | None => [] end
  | Node _ _ _ ch => flat_map pieces ch
  end.

Lemma pieces_body t : pieces t = rep_list (Z.to_nat (t_rep t)) (body_pieces t).
Proof. destruct t as [r w m [|c ch]]; reflexivity. Qed.

Lemma rep_list_nil {A} n : @rep_list A n [] = [].
Proof. induction n; cbn; auto. Qed.

Lemma rep_list_add {A} n m (l : list A) : rep_list (n + m) l = rep_list n l ++ rep_list m l.
Proof. induction n; cbn; auto. rewrite IHn, app_assoc. reflexivity. Qed.

Lemma rep_list_mul {A} n m (l : list A) : rep_list (n * m) l = rep_list n (rep_list m l).
Proof. induction n; cbn; auto. rewrite rep_list_add, IHn. reflexivity. Qed.

Lemma flat_map_rep_list {A B} (f : A -> list B) n l : flat_map f (rep_list n l) = rep_list n (flat_map f l).
Proof. induction n; cbn; auto. rewrite flat_map_app, IHn. reflexivity. Qed.
