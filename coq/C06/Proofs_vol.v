(* C06 — volatile repetition counts (Model_vol.v): the v-rewrites against the plain rewrites of Model.v.

   [erase] (current values) and [inst env] (values after an update of the volatile parameters) are both instances of
   [instv val] (by conversion).  A: unroll / unroll_children / encapsulate are simulated exactly through [erase].
   B: split_one_child (choice of the child, freezing).  C: merge under every multiplicative valuation.  D: what is
   played is preserved (unroll, split: at the current values; encapsulate, merge, cleanup: under EVERY multiplicative
   valuation).  E: flatten_and_balance (preservation, shape, warning variant; termination is Proofs_vol_term.v).
   F: examples, among them that split does NOT commute with a later update of the volatile parameter. *)
From Coq Require Import ZArith QArith List Bool Lia ZifyBool.
Require Import QV.C06.Model QV.C06.Spec QV.C06.Model_vol QV.C06.Proofs_base QV.C06.Proofs_struct QV.C06.Proofs_post
               QV.C06.Proofs_props QV.C06.Proofs_term.
Import ListNotations.
Open Scope Z_scope.

Definition rmap {A B} (f : A -> B) (r : result A) : result B :=
  match r with Ok a => Ok (f a) | Err e => Err e end.

(* ------------------------------------------------------------------------------------------------------------------ *)
(* induction principle, list lemmas *)

Section VTreeInd.
  Variable P : vtree -> Prop.
  Hypothesis H : forall r w m ch, Forall P ch -> P (VNode r w m ch).
  Fixpoint vtree_ind' (t : vtree) : P t :=
    match t with
    | VNode r w m ch =>
        H r w m ch ((fix go (l : list vtree) : Forall P l :=
                       match l with [] => Forall_nil P | c :: r => Forall_cons c (vtree_ind' c) (go r) end) ch)
    end.
End VTreeInd.

Lemma nth_error_map_v {A B} (f : A -> B) l k : nth_error (map f l) k = option_map f (nth_error l k).
Proof. revert k; induction l; intros [|k]; simpl; auto. Qed.
Lemma firstn_map_v {A B} (f : A -> B) n l : firstn n (map f l) = map f (firstn n l).
Proof. revert l; induction n; intros [|a l]; simpl; auto. f_equal; auto. Qed.
Lemma skipn_map_v {A B} (f : A -> B) n l : skipn n (map f l) = map f (skipn n l).
Proof. revert l; induction n; intros [|a l]; simpl; auto. Qed.
Lemma map_rep_list_v {A B} (f : A -> B) n l : map f (rep_list n l) = rep_list n (map f l).
Proof. induction n; simpl; auto. rewrite map_app, IHn. reflexivity. Qed.
Lemma map_update_nth_v {A B} (f : A -> B) l k x : map f (update_nth l k x) = update_nth (map f l) k (f x).
Proof. revert k; induction l; intros [|k]; simpl; auto. f_equal; auto. Qed.
Lemma length_update_nth_v {A} (l : list A) k x : length (update_nth l k x) = length l.
Proof. revert k; induction l; intros [|k]; simpl; auto. Qed.
Lemma nth_error_lt_v {A} (l : list A) k c : nth_error l k = Some c -> (k < length l)%nat.
Proof. intros H. apply nth_error_Some. congruence. Qed.
Lemma nth_error_update_nth_same {A} (l : list A) k x : (k < length l)%nat -> nth_error (update_nth l k x) k = Some x.
Proof. revert k; induction l; intros [|k] H; simpl in *; try lia; auto. apply IHl. lia. Qed.

Lemma nth_error_firstn_v {A} (l : list A) n k : (k < n)%nat -> nth_error (firstn n l) k = nth_error l k.
Proof. revert l k; induction n; intros [|a l] [|k] H; simpl; try lia; auto. apply IHn. lia. Qed.

(* ------------------------------------------------------------------------------------------------------------------ *)
(* C (first part): one valuation function for erase and inst *)

Section InstvDef.
  Variable val : rep -> Z.
  (* [val] stays outside the fixpoint, so that [instv rv] and [erase] are convertible *)
  Fixpoint instv (t : vtree) : tree :=
    match t with VNode r w m ch => Node (val r) w m (map instv ch) end.
End InstvDef.

Lemma erase_instv : forall t, erase t = instv rv t.
Proof. reflexivity. Qed.
Lemma inst_instv : forall env t, inst env t = instv (rv_env env) t.
Proof.
  intros env. induction t as [r w m ch IH] using vtree_ind'. cbn [inst instv]. f_equal.
  induction IH as [|c l Hc _ IHl]; cbn [map]; [reflexivity|]. rewrite Hc, IHl. reflexivity.
Qed.

Definition multiplicative (val : rep -> Z) : Prop :=
  (forall n, val (Fixed n) = n) /\ (forall a b, val (rep_mul a b) = val a * val b).

Lemma multiplicative_rv : multiplicative rv.
Proof. split; [reflexivity|]. intros [a|a t] [b|b u]; reflexivity. Qed.

Lemma multiplicative_rv_env env : multiplicative (rv_env env).
Proof. split; [reflexivity|]. intros [a|a t] [b|b u]; cbn [rep_mul rv_env eval_tag]; lia. Qed.

Section Instv.
  Variable val : rep -> Z.
  Lemma instv_node r w m ch : instv val (VNode r w m ch) = Node (val r) w m (map (instv val) ch).
  Proof. reflexivity. Qed.
  Lemma t_ch_instv t : t_ch (instv val t) = map (instv val) (v_ch t).
  Proof. destruct t; reflexivity. Qed.
  Lemma t_rep_instv t : t_rep (instv val t) = val (v_rep t).
  Proof. destruct t; reflexivity. Qed.
  Lemma t_wf_instv t : t_wf (instv val t) = v_wf t.
  Proof. destruct t; reflexivity. Qed.
  Lemma t_meas_instv t : t_meas (instv val t) = v_meas t.
  Proof. destruct t; reflexivity. Qed.
  Lemma is_leaf_instv t : is_leaf (instv val t) = v_is_leaf t.
  Proof. destruct t as [r w m [|c ch]]; reflexivity. Qed.
  Lemma has_wf_instv t : has_wf (instv val t) = v_has_wf t.
  Proof. destruct t; reflexivity. Qed.
  Lemma has_meas_instv t : has_meas (instv val t) = v_has_meas t.
  Proof. destruct t; reflexivity. Qed.
  Lemma instv_vset_ch t cs : instv val (vset_ch t cs) = set_ch (instv val t) (map (instv val) cs).
  Proof. destruct t; reflexivity. Qed.
  Lemma instv_vset_rep t r : instv val (vset_rep t r) = set_rep (instv val t) (val r).
  Proof. destruct t; reflexivity. Qed.
End Instv.

Lemma t_ch_erase t : t_ch (erase t) = map erase (v_ch t).
Proof. exact (t_ch_instv rv t). Qed.
Lemma t_rep_erase t : t_rep (erase t) = rv (v_rep t).
Proof. exact (t_rep_instv rv t). Qed.
Lemma is_leaf_erase t : is_leaf (erase t) = v_is_leaf t.
Proof. exact (is_leaf_instv rv t). Qed.
Lemma has_wf_erase t : has_wf (erase t) = v_has_wf t.
Proof. exact (has_wf_instv rv t). Qed.
Lemma has_meas_erase t : has_meas (erase t) = v_has_meas t.
Proof. exact (has_meas_instv rv t). Qed.
Lemma erase_vset_ch t cs : erase (vset_ch t cs) = set_ch (erase t) (map erase cs).
Proof. exact (instv_vset_ch rv t cs). Qed.
Lemma erase_vset_rep t r : erase (vset_rep t r) = set_rep (erase t) (rv r).
Proof. exact (instv_vset_rep rv t r). Qed.
Lemma v_ch_vset_ch t cs : v_ch (vset_ch t cs) = cs.
Proof. destruct t; reflexivity. Qed.
Lemma v_rep_vset_rep t r : v_rep (vset_rep t r) = r.
Proof. destruct t; reflexivity. Qed.

Lemma unrolled_erase c : unrolled (erase c) = map erase (vunrolled c).
Proof. unfold unrolled, vunrolled. rewrite t_rep_erase, t_ch_erase, map_rep_list_v. reflexivity. Qed.

(* ------------------------------------------------------------------------------------------------------------------ *)
(* A. exact simulation through erase *)

Theorem vunroll_child_erase : forall p i, rmap erase (vunroll_child p i) = unroll_child (erase p) i.
Proof.
  intros p i. unfold vunroll_child, unroll_child. rewrite t_ch_erase, nth_error_map_v.
  destruct (nth_error (v_ch p) i) as [c|]; cbn [option_map rmap]; [|reflexivity].
  rewrite is_leaf_erase. destruct (v_is_leaf c); cbn [rmap]; [reflexivity|].
  rewrite erase_vset_ch, !map_app, firstn_map_v, skipn_map_v, unrolled_erase. reflexivity.
Qed.

Theorem vunroll_children_erase : forall t, rmap erase (vunroll_children_op t) = unroll_children_op (erase t).
Proof.
  intros t. unfold vunroll_children_op, unroll_children_op. rewrite is_leaf_erase.
  destruct (v_is_leaf t); cbn [rmap]; [reflexivity|]. destruct t as [r w m ch].
  cbn [vunroll_children erase unroll_children]. rewrite map_rep_list_v. reflexivity.
Qed.

Theorem vencapsulate_instv : forall val t, val (Fixed 1) = 1 -> instv val (vencapsulate t) = encapsulate (instv val t).
Proof. intros val [r w m ch] H. cbn [vencapsulate instv encapsulate map]. rewrite H. reflexivity. Qed.

Theorem vencapsulate_erase : forall t, erase (vencapsulate t) = encapsulate (erase t).
Proof. intros t. exact (vencapsulate_instv rv t eq_refl). Qed.

(* ------------------------------------------------------------------------------------------------------------------ *)
(* B. split_one_child *)

(* the last index whose element satisfies P (scan from the left, keep the last hit) *)
Fixpoint last_sat (P : vtree -> bool) (l : list vtree) (i : nat) (acc : option nat) : option nat :=
  match l with [] => acc | c :: r => last_sat P r (S i) (if P c then Some i else acc) end.

Definition p_fix (c : vtree) : bool := (1 <? rv (v_rep c)) && negb (is_vol (v_rep c)).
Definition p_vol (c : vtree) : bool := (1 <? rv (v_rep c)) && is_vol (v_rep c).

Lemma vsplit_search_last l : forall i accf accv,
  vsplit_search l i accf accv =
  match last_sat p_fix l i accf with Some k => Some k | None => last_sat p_vol l i accv end.
Proof.
  induction l as [|c l IH]; intros i accf accv; cbn [vsplit_search last_sat]; [reflexivity|].
  unfold p_fix at 2, p_vol at 2. destruct (1 <? rv (v_rep c)); destruct (is_vol (v_rep c)); cbn [andb negb]; apply IH.
Qed.

Lemma last_sat_spec P l : forall i acc,
  match last_sat P l i acc with
  | Some k => (acc = Some k /\ forall c, In c l -> P c = false) \/
              (exists c, (i <= k)%nat /\ nth_error l (k - i) = Some c /\ P c = true /\
                         forall j c', (k - i < j)%nat -> nth_error l j = Some c' -> P c' = false)
  | None => acc = None /\ forall c, In c l -> P c = false
  end.
Proof.
  induction l as [|a l IH]; intros i acc; cbn [last_sat].
  - destruct acc as [k|]; [left|]; split; auto; intros c [].
  - specialize (IH (S i) (if P a then Some i else acc)).
    destruct (last_sat P l (S i) (if P a then Some i else acc)) as [k|].
    + destruct IH as [[E Hall]|(c & Hi & Hn & Hc & Hr)].
      * destruct (P a) eqn:Pa.
        -- inversion E; subst k. right. exists a. rewrite Nat.sub_diag. repeat split; auto.
           intros j c' Hj Hn. destruct j as [|j]; [lia|]. cbn [nth_error] in Hn. apply Hall. eapply nth_error_In; eauto.
        -- left. split; auto. intros c [<-|Hc]; auto.
      * right. exists c. replace (k - i)%nat with (S (k - S i)) by lia. cbn [nth_error]. repeat split; auto; [lia|].
        intros j c' Hj Hn'. destruct j as [|j]; [lia|]. cbn [nth_error] in Hn'. apply (Hr j c'); auto. lia.
    + destruct IH as [E Hall]. destruct (P a) eqn:Pa; [discriminate|]. split; auto. intros c [<-|Hc]; auto.
Qed.

Lemma p_both_false c : p_fix c = false -> p_vol c = false -> rv (v_rep c) <= 1.
Proof. unfold p_fix, p_vol. destruct (is_vol (v_rep c)); cbn [negb]; rewrite ?andb_true_r, ?andb_false_r; lia. Qed.

(* B2: which child the search picks *)
Theorem vsplit_search_spec : forall t k, vsplit_index t None = Ok k ->
  exists c, nth_error (v_ch t) k = Some c /\ 1 < rv (v_rep c) /\
    (is_vol (v_rep c) = false ->
       forall j c', (k < j)%nat -> nth_error (v_ch t) j = Some c' -> 1 < rv (v_rep c') -> is_vol (v_rep c') = true) /\
    (is_vol (v_rep c) = true ->
       (forall c', In c' (v_ch t) -> 1 < rv (v_rep c') -> is_vol (v_rep c') = true) /\
       (forall j c', (k < j)%nat -> nth_error (v_ch t) j = Some c' -> rv (v_rep c') <= 1)).
Proof.
  intros t k H. unfold vsplit_index in H. rewrite vsplit_search_last in H.
  pose proof (last_sat_spec p_fix (v_ch t) 0 None) as SF. pose proof (last_sat_spec p_vol (v_ch t) 0 None) as SV.
  destruct (last_sat p_fix (v_ch t) 0 None) as [kf|].
  - inversion H; subst kf; clear H. destruct SF as [[E _]|(c & _ & Hn & Hc & Hr)]; [discriminate|].
    rewrite Nat.sub_0_r in *. unfold p_fix in Hc. apply andb_true_iff in Hc as [Hc1 Hc2]. apply negb_true_iff in Hc2.
    exists c. split; [exact Hn|]. split; [lia|]. split.
    + intros _ j c' Hj Hn' Hgt. specialize (Hr j c' Hj Hn'). unfold p_fix in Hr.
      destruct (is_vol (v_rep c')); [reflexivity|]. cbn [negb] in Hr. rewrite andb_true_r in Hr. lia.
    + intros Hv. congruence.
  - destruct SF as [_ HallF]. destruct (last_sat p_vol (v_ch t) 0 None) as [kv|]; [|discriminate].
    inversion H; subst kv; clear H. destruct SV as [[E _]|(c & _ & Hn & Hc & Hr)]; [discriminate|].
    rewrite Nat.sub_0_r in *. unfold p_vol in Hc. apply andb_true_iff in Hc as [Hc1 Hc2].
    exists c. split; [exact Hn|]. split; [lia|]. split; [intros Hv; congruence|]. intros _. split.
    + intros c' Hin Hgt. specialize (HallF c' Hin). unfold p_fix in HallF.
      destruct (is_vol (v_rep c')); [reflexivity|]. cbn [negb] in HallF. rewrite andb_true_r in HallF. lia.
    + intros j c' Hj Hn'. apply p_both_false; [apply HallF; eapply nth_error_In; eauto|eapply Hr; eauto].
Qed.

Theorem vsplit_search_none : forall t e, vsplit_index t None = Err e ->
  e = ERuntime /\ forall c, In c (v_ch t) -> rv (v_rep c) <= 1.
Proof.
  intros t e H. unfold vsplit_index in H. rewrite vsplit_search_last in H.
  pose proof (last_sat_spec p_fix (v_ch t) 0 None) as SF. pose proof (last_sat_spec p_vol (v_ch t) 0 None) as SV.
  destruct (last_sat p_fix (v_ch t) 0 None) as [kf|]; [discriminate|].
  destruct (last_sat p_vol (v_ch t) 0 None) as [kv|]; [discriminate|].
  inversion H. split; [reflexivity|]. intros c Hc. apply p_both_false; [apply SF|apply SV]; exact Hc.
Qed.

Lemma vsplit_index_ge2 t idx k : vsplit_index t idx = Ok k ->
  exists c, nth_error (v_ch t) k = Some c /\ 2 <= rv (v_rep c).
Proof.
  destruct idx as [i|].
  - unfold vsplit_index. destruct (py_index (length (v_ch t)) i) as [k'|]; [|discriminate].
    destruct (nth_error (v_ch t) k') as [c|] eqn:Hn; [|discriminate].
    destruct (rv (v_rep c) <? 2) eqn:E; [discriminate|]. intros H; inversion H; subst k'. exists c. split; [exact Hn|lia].
  - intros H. destruct (vsplit_search_spec t k H) as (c & Hn & Hgt & _). exists c. split; [exact Hn|lia].
Qed.

Lemma py_index_nat n k : (k < n)%nat -> py_index n (Z.of_nat k) = Some k.
Proof.
  intros H. unfold py_index.
  replace ((0 <=? Z.of_nat k) && (Z.of_nat k <? Z.of_nat n)) with true by lia. rewrite Nat2Z.id. reflexivity.
Qed.

Lemma vsplit_at_inv t k c t' : nth_error (v_ch t) k = Some c -> vsplit_at t k = Ok t' ->
  t' = vset_ch t (firstn (S k) (update_nth (v_ch t) k (vset_rep c (Fixed (rv (v_rep c) - 1)))) ++ [vset_rep c (Fixed 1)] ++
                  skipn (S k) (update_nth (v_ch t) k (vset_rep c (Fixed (rv (v_rep c) - 1))))).
Proof. intros Hn H. unfold vsplit_at in H. rewrite Hn in H. cbv zeta in H. congruence. Qed.

Lemma vsplit_at_erase t k c t' : nth_error (v_ch t) k = Some c -> 2 <= rv (v_rep c) -> vsplit_at t k = Ok t' ->
  split_one_child (erase t) (Some (Z.of_nat k)) = Ok (erase t').
Proof.
  intros Hn Hc H. rewrite (vsplit_at_inv _ _ _ _ Hn H). clear H.
  unfold split_one_child. rewrite t_ch_erase, map_length, (py_index_nat _ _ (nth_error_lt_v _ _ _ Hn)).
  rewrite nth_error_map_v, Hn. cbn [option_map]. rewrite t_rep_erase.
  replace (rv (v_rep c) <? 2) with false by lia.
  rewrite erase_vset_ch, !map_app, <- firstn_map_v, <- skipn_map_v, map_update_nth_v. cbn [map]. rewrite !erase_vset_rep. reflexivity.
Qed.

(* B1 *)
Theorem vsplit_erase : forall t idx t', vsplit_one_child t idx = Ok t' ->
  exists k, vsplit_index t idx = Ok k /\ split_one_child (erase t) (Some (Z.of_nat k)) = Ok (erase t').
Proof.
  intros t idx t' H. unfold vsplit_one_child in H.
  destruct (vsplit_index t idx) as [k|] eqn:Hk; cbn [bind] in H; [|discriminate].
  exists k. split; [reflexivity|]. destruct (vsplit_index_ge2 _ _ _ Hk) as (c & Hn & Hc).
  eapply vsplit_at_erase; eauto.
Qed.

(* B3: both parts carry a plain int afterwards *)
Theorem vsplit_freezes : forall t idx k t', vsplit_index t idx = Ok k -> vsplit_one_child t idx = Ok t' ->
  exists a b, nth_error (v_ch t') k = Some a /\ nth_error (v_ch t') (S k) = Some b /\
              is_vol (v_rep a) = false /\ is_vol (v_rep b) = false.
Proof.
  intros t idx k t' Hk H. unfold vsplit_one_child in H. rewrite Hk in H. cbn [bind] in H.
  destruct (vsplit_index_ge2 _ _ _ Hk) as (c & Hn & _). rewrite (vsplit_at_inv _ _ _ _ Hn H). clear H.
  rewrite v_ch_vset_ch.
  pose proof (nth_error_lt_v _ _ _ Hn) as Hlt.
  set (ch1 := update_nth (v_ch t) k (vset_rep c (Fixed (rv (v_rep c) - 1)))).
  assert (length (firstn (S k) ch1) = S k) as Hlen
      by (rewrite firstn_length, Nat.min_l; [reflexivity|unfold ch1; rewrite length_update_nth_v; lia]).
  exists (vset_rep c (Fixed (rv (v_rep c) - 1))), (vset_rep c (Fixed 1)). split; [|split; [|split]].
  - rewrite nth_error_app1 by lia. rewrite nth_error_firstn_v by lia. apply nth_error_update_nth_same; exact Hlt.
  - rewrite nth_error_app2 by lia. rewrite Hlen, Nat.sub_diag. reflexivity.
  - rewrite v_rep_vset_rep. reflexivity.
  - rewrite v_rep_vset_rep. reflexivity.
Qed.

(* B4: without volatile counts the v-split IS the plain split *)
Lemma vsplit_search_fixed l : forall i accf, Forall (fun c => is_vol (v_rep c) = false) l ->
  vsplit_search l i accf None = last_index_gt1 (map erase l) i accf.
Proof.
  induction l as [|c l IH]; intros i accf HF; cbn [vsplit_search map last_index_gt1].
  - destruct accf; reflexivity.
  - inversion HF as [|? ? Hc Hl]; subst. rewrite t_rep_erase, Hc. destruct (1 <? rv (v_rep c)); apply IH; exact Hl.
Qed.

Lemma any_volatile_children t : any_volatile t = false -> Forall (fun c => any_volatile c = false) (v_ch t) /\ is_vol (v_rep t) = false.
Proof.
  destruct t as [r w m ch]. cbn [any_volatile v_ch v_rep]. intros H. apply orb_false_iff in H as [H1 H2]. split; [|exact H1].
  apply Forall_forall. intros c Hc. destruct (any_volatile c) eqn:E; [|reflexivity].
  assert (existsb any_volatile ch = true) by (apply existsb_exists; eauto). congruence.
Qed.

Theorem vsplit_conservative : forall t idx, any_volatile t = false ->
  rmap erase (vsplit_one_child t idx) = split_one_child (erase t) idx.
Proof.
  intros t idx Hnv. destruct (any_volatile_children t Hnv) as [Hch _].
  assert (forall k c, nth_error (v_ch t) k = Some c ->
            rmap erase (vsplit_at t k) =
            Ok (set_ch (erase t) (firstn (S k) (update_nth (map erase (v_ch t)) k (set_rep (erase c) (t_rep (erase c) - 1)))
                                  ++ [set_rep (erase c) 1]
                                  ++ skipn (S k) (update_nth (map erase (v_ch t)) k (set_rep (erase c) (t_rep (erase c) - 1)))))) as Hat.
  { intros k c Hn. unfold vsplit_at. rewrite Hn. cbn [rmap].
    rewrite erase_vset_ch, !map_app, <- firstn_map_v, <- skipn_map_v, map_update_nth_v. cbn [map]. rewrite !erase_vset_rep, t_rep_erase. reflexivity. }
  unfold vsplit_one_child, vsplit_index, split_one_child. rewrite t_ch_erase, map_length.
  destruct idx as [i|].
  - destruct (py_index (length (v_ch t)) i) as [k|]; cbn [bind rmap]; [|reflexivity].
    rewrite nth_error_map_v. destruct (nth_error (v_ch t) k) as [c|] eqn:Hn; cbn [option_map bind rmap]; [|reflexivity].
    rewrite t_rep_erase. destruct (rv (v_rep c) <? 2); cbn [bind rmap]; [reflexivity|]. rewrite (Hat k c Hn), t_rep_erase. reflexivity.
  - rewrite vsplit_search_fixed.
    2:{ eapply Forall_impl; [|exact Hch]. cbn beta. intros c Hc. apply any_volatile_children in Hc. tauto. }
    destruct (last_index_gt1 (map erase (v_ch t)) 0 None) as [k|]; cbn [bind rmap]; [|reflexivity].
    rewrite nth_error_map_v. destruct (nth_error (v_ch t) k) as [c|] eqn:Hn; cbn [option_map].
    + rewrite (Hat k c Hn). reflexivity.
    + unfold vsplit_at. rewrite Hn. reflexivity.
Qed.

(* ------------------------------------------------------------------------------------------------------------------ *)
(* C. merge under a generic valuation *)

Lemma fixed_one_spec r : fixed_one r = true -> r = Fixed 1.
Proof. destruct r as [n|n t]; unfold fixed_one; cbn [rv is_vol negb]; rewrite ?andb_false_r; [|discriminate]. intros H. f_equal. lia. Qed.

Theorem vmergeable_instv : forall val t, multiplicative val -> vmergeable t = true -> mergeable (instv val t) = true.
Proof.
  intros val t [Hf _] H. unfold vmergeable in H. unfold mergeable. rewrite t_ch_instv, has_meas_instv.
  destruct (v_ch t) as [|c [|c2 l]]; try discriminate. cbn [map].
  apply orb_true_iff in H as [H|H]; [rewrite H; reflexivity|].
  apply fixed_one_spec in H. rewrite t_rep_instv, H, Hf. apply orb_true_r.
Qed.

Theorem vmerge_instv : forall val t t', multiplicative val -> vmerge_single_child t = Ok t' ->
  merge_single_child (instv val t) = Ok (instv val t').
Proof.
  intros val t t' [Hf Hm] H. destruct t as [r w m [|[cr cw cm cch] [|c2 ch]]]; cbn [vmerge_single_child] in H; try discriminate.
  cbn [instv map merge_single_child].
  change (has_meas (Node (val r) w m [Node (val cr) cw cm (map (instv val) cch)])) with (v_has_meas (VNode r w m [VNode cr cw cm cch])).
  destruct (v_has_meas (VNode r w m [VNode cr cw cm cch])) eqn:E; cbn [andb] in *.
  - destruct (fixed_one cr) eqn:F; cbn [negb] in H; [|discriminate]. apply fixed_one_spec in F. subst cr.
    rewrite Hf. cbn [Z.eqb Pos.eqb negb]. destruct w; [discriminate|]. inversion H; subst t'. cbn [instv]. rewrite Hm, Hf. reflexivity.
  - destruct w; [discriminate|]. inversion H; subst t'. cbn [instv]. rewrite Hm. reflexivity.
Qed.

Theorem vmerge_err : forall t e, vmerge_single_child t = Err e -> e = EAssert.
Proof.
  intros [r w m [|[cr cw cm cch] [|c2 ch]]] e; cbn [vmerge_single_child]; try congruence.
  destruct (_ && _); [congruence|]. destruct w; congruence.
Qed.

Theorem vmerge_defined : forall t, vmergeable t = true -> v_wf t = None -> exists t', vmerge_single_child t = Ok t'.
Proof.
  intros [r w m [|[cr cw cm cch] [|c2 ch]]] H Hw; unfold vmergeable in H; cbn [v_ch] in H; try discriminate.
  cbn [v_wf] in Hw. subst w. cbn [vmerge_single_child v_rep] in *.
  destruct (v_has_meas (VNode r None m [VNode cr cw cm cch])); cbn [negb orb andb] in *; [rewrite H|]; cbn [negb]; eexists; reflexivity.
Qed.

Lemma vmerge_inv t t' : vmerge_single_child t = Ok t' ->
  exists r m cr cw cm cch, t = VNode r None m [VNode cr cw cm cch] /\ t' = VNode (rep_mul r cr) cw (cm ++ m) cch.
Proof.
  destruct t as [r w m [|[cr cw cm cch] [|c2 ch]]]; cbn [vmerge_single_child]; try discriminate.
  destruct (_ && _); [discriminate|]. destruct w; [discriminate|]. intros H; inversion H; subst. repeat eexists.
Qed.

(* ------------------------------------------------------------------------------------------------------------------ *)
(* D. what is played is preserved *)

(* unroll, unroll_children, split: at the current values of the volatile counts *)
Theorem vunroll_preserves : forall p i p', tree_okb (erase p) = true -> vunroll_child p i = Ok p' ->
  pieces (erase p') = pieces (erase p) /\ (duration (erase p') == duration (erase p))%Q.
Proof.
  intros p i p' Hok H. pose proof (vunroll_child_erase p i) as E. rewrite H in E. cbn [rmap] in E.
  exact (unroll_preserves _ _ _ Hok (eq_sym E)).
Qed.

Theorem vunroll_children_preserves : forall t t', tree_okb (erase t) = true -> vunroll_children_op t = Ok t' ->
  (pieces (erase t') = pieces (erase t) /\ (duration (erase t') == duration (erase t))%Q) /\ v_rep t' = Fixed 1.
Proof.
  intros t t' Hok H. pose proof (vunroll_children_erase t) as E. rewrite H in E. cbn [rmap] in E.
  split; [exact (proj1 (unroll_children_preserves _ _ Hok (eq_sym E)))|].
  unfold vunroll_children_op in H. destruct (v_is_leaf t); [discriminate|]. inversion H. destruct t; reflexivity.
Qed.

Theorem vsplit_preserves : forall t idx t', tree_okb (erase t) = true -> vsplit_one_child t idx = Ok t' ->
  pieces (erase t') = pieces (erase t) /\ (duration (erase t') == duration (erase t))%Q.
Proof.
  intros t idx t' Hok H. destruct (vsplit_erase _ _ _ H) as (k & _ & E).
  exact (split_one_child_preserves _ _ _ Hok E).
Qed.

(* encapsulate, merge, cleanup: under every multiplicative valuation, i.e. also after any update of the parameters *)
Theorem vmerge_preserves_all : forall val t t', multiplicative val -> tree_okb (instv val t) = true ->
  vmerge_single_child t = Ok t' ->
  pieces (instv val t') = pieces (instv val t) /\ (duration (instv val t') == duration (instv val t))%Q.
Proof.
  intros val t t' Hv Hok H. exact (merge_single_child_preserves _ _ Hok (vmerge_instv val t t' Hv H)).
Qed.

Theorem vencapsulate_preserves_all : forall val t, multiplicative val -> tree_okb (instv val t) = true ->
  pieces (instv val (vencapsulate t)) = pieces (instv val t) /\
  (duration (instv val (vencapsulate t)) == duration (instv val t))%Q.
Proof.
  intros val t [Hf _] Hok. rewrite (vencapsulate_instv val t (Hf 1)). exact (proj1 (encapsulate_preserves _ Hok)).
Qed.

Definition vcleanup_step (rm mg : bool) (c : vtree) : result (list vtree) :=
  if rm then
    if v_is_leaf c then Ok (if v_has_wf c then [c] else [])
    else bind (vcleanup rm mg c) (fun c' => Ok (if v_has_wf c' || negb (v_is_leaf c') then [c'] else []))
  else bind (vcleanup rm mg c) (fun c' => Ok [c']).

Definition vcleanup_go (rm mg : bool) : list vtree -> result (list vtree) :=
  fix go (l : list vtree) : result (list vtree) :=
    match l with
    | [] => Ok []
    | c :: r => bind (vcleanup_step rm mg c) (fun cs => bind (go r) (fun rs => Ok (cs ++ rs)))
    end.

Lemma vcleanup_go_cons rm mg c r :
  vcleanup_go rm mg (c :: r) = bind (vcleanup_step rm mg c) (fun cs => bind (vcleanup_go rm mg r) (fun rs => Ok (cs ++ rs))).
Proof. reflexivity. Qed.

Lemma vcleanup_eq rm mg r w m ch :
  vcleanup rm mg (VNode r w m ch) =
  bind (vcleanup_go rm mg ch)
       (fun ch' => let t' := VNode r w m ch' in if mg && vmergeable t' then vmerge_single_child t' else Ok t').
Proof. reflexivity. Qed.

Lemma vcleanup_pieces : forall val rm mg t t', multiplicative val -> tree_okb (instv val t) = true ->
  vcleanup rm mg t = Ok t' -> pieces (instv val t') = pieces (instv val t) /\ tree_okb (instv val t') = true.
Proof.
  intros val rm mg t t' Hv. revert t'. induction t as [r w m ch IH] using vtree_ind'. intros t' Hok H.
  rewrite vcleanup_eq in H. rewrite instv_node in Hok.
  destruct (okb_inv _ _ _ _ Hok) as (Hr & Hch & Hw).
  assert (forall ch', vcleanup_go rm mg ch = Ok ch' ->
            flat_map pieces (map (instv val) ch') = flat_map pieces (map (instv val) ch) /\
            forallb tree_okb (map (instv val) ch') = true /\ (ch = [] -> ch' = [])) as Hgo.
  { clear H Hw Hok. induction IH as [|c l Hc _ IHl]; intros ch' H.
    - inversion H. auto.
    - rewrite vcleanup_go_cons in H. cbn [map forallb] in Hch. apply andb_true_iff in Hch. destruct Hch as [Hcok Hlok].
      destruct (vcleanup_step rm mg c) as [cs|] eqn:Hs; [|discriminate]. cbn [bind] in H.
      destruct (vcleanup_go rm mg l) as [rs|] eqn:Hg; [|discriminate]. cbn [bind] in H.
      inversion H; subst ch'; clear H.
      destruct (IHl Hlok rs eq_refl) as (Hp & Ho & _).
      assert (flat_map pieces (map (instv val) cs) = pieces (instv val c) /\ forallb tree_okb (map (instv val) cs) = true)
        as [Hp1 Ho1].
      { unfold vcleanup_step in Hs. destruct rm.
        - destruct (v_is_leaf c) eqn:Hl.
          + inversion Hs; subst cs. destruct (v_has_wf c) eqn:Hh; cbn [map flat_map forallb].
            * rewrite app_nil_r, Hcok. auto.
            * rewrite empty_leaf_pieces; auto; [rewrite is_leaf_instv|rewrite has_wf_instv]; assumption.
          + destruct (vcleanup true mg c) as [c'|] eqn:Hcl; [|discriminate]. cbn [bind] in Hs.
            destruct (Hc c' Hcok eq_refl) as [Hp' Ho']. inversion Hs; subst cs.
            destruct (v_has_wf c' || negb (v_is_leaf c')) eqn:E; cbn [map flat_map forallb].
            * rewrite app_nil_r, Ho'. auto.
            * apply orb_false_iff in E. destruct E as [E1 E2]. apply negb_false_iff in E2.
              rewrite <- Hp', empty_leaf_pieces; auto; [rewrite is_leaf_instv|rewrite has_wf_instv]; assumption.
        - destruct (vcleanup false mg c) as [c'|] eqn:Hcl; [|discriminate]. cbn [bind] in Hs.
          destruct (Hc c' Hcok eq_refl) as [Hp' Ho']. inversion Hs; subst cs. cbn [map flat_map forallb].
          rewrite app_nil_r, Ho'. auto. }
      rewrite !map_app, flat_map_app, forallb_app, Hp1, Ho1, Hp, Ho. cbn [map flat_map]. repeat split; auto. discriminate. }
  destruct (vcleanup_go rm mg ch) as [ch'|] eqn:Hg; [|discriminate]. cbn [bind] in H. cbn zeta in H.
  destruct (Hgo ch' eq_refl) as (Hp & Ho & Hnil).
  assert (pieces (instv val (VNode r w m ch')) = pieces (instv val (VNode r w m ch)) /\
          tree_okb (instv val (VNode r w m ch')) = true) as [Hp2 Ho2].
  { destruct ch as [|c ch].
    - rewrite (Hnil eq_refl). rewrite instv_node. auto.
    - rewrite (Hw ltac:(discriminate)), !instv_node, !pieces_node_none, Hp. split; auto. apply okb_intro_none; auto. }
  destruct (mg && vmergeable (VNode r w m ch')).
  - pose proof (vmerge_instv val _ _ Hv H) as Hm. rewrite <- Hp2.
    split; [eapply merge_single_child_pieces|eapply merge_single_child_ok]; eauto.
  - inversion H; subst t'. auto.
Qed.

Theorem vcleanup_preserves_all : forall val rm mg t t', multiplicative val -> tree_okb (instv val t) = true ->
  vcleanup rm mg t = Ok t' ->
  pieces (instv val t') = pieces (instv val t) /\ (duration (instv val t') == duration (instv val t))%Q.
Proof.
  intros val rm mg t t' Hv Hok H. destruct (vcleanup_pieces val rm mg t t' Hv Hok H) as [Hp Ho].
  exact (preserved_intro _ _ Hok Ho Hp).
Qed.

(* D4: postconditions of cleanup *)
Lemma kept_ok_erase c : kept_ok (erase c) = (v_has_wf c || negb (v_is_leaf c)) && no_empty_below (erase c).
Proof. unfold kept_ok. rewrite has_wf_erase, is_leaf_erase. reflexivity. Qed.

Theorem vcleanup_post : forall mg t t', vcleanup true mg t = Ok t' -> no_empty_below (erase t') = true.
Proof.
  intros mg. induction t as [r w m ch IH] using vtree_ind'. intros t' H.
  rewrite vcleanup_eq in H.
  assert (forall ch', vcleanup_go true mg ch = Ok ch' -> forallb kept_ok (map erase ch') = true) as Hgo.
  { clear H. induction IH as [|c l Hc _ IHl]; intros ch' H.
    - inversion H. reflexivity.
    - rewrite vcleanup_go_cons in H.
      destruct (vcleanup_step true mg c) as [cs|] eqn:Hs; [|discriminate]. cbn [bind] in H.
      destruct (vcleanup_go true mg l) as [rs|] eqn:Hg; [|discriminate]. cbn [bind] in H.
      inversion H; subst ch'; clear H. rewrite map_app, forallb_app, (IHl rs eq_refl), andb_true_r.
      unfold vcleanup_step in Hs. destruct (v_is_leaf c) eqn:Hl.
      + inversion Hs; subst cs. destruct (v_has_wf c) eqn:Hh; [|reflexivity].
        cbn [map forallb]. rewrite kept_ok_erase, Hh, (neb_leaf (erase c)) by (rewrite is_leaf_erase; exact Hl). reflexivity.
      + destruct (vcleanup true mg c) as [c'|] eqn:Hcl; [|discriminate]. cbn [bind] in Hs.
        inversion Hs; subst cs. destruct (v_has_wf c' || negb (v_is_leaf c')) eqn:E; [|reflexivity].
        cbn [map forallb]. rewrite kept_ok_erase, E, (Hc c' eq_refl). reflexivity. }
  destruct (vcleanup_go true mg ch) as [ch'|] eqn:Hg; [|discriminate]. cbn [bind] in H. cbn zeta in H.
  specialize (Hgo ch' eq_refl).
  destruct (mg && vmergeable (VNode r w m ch')).
  - destruct (vmerge_inv _ _ H) as (r0 & m0 & cr & cw & cm & cch & E & ->).
    inversion E; subst. cbn [map forallb] in Hgo. rewrite andb_true_r in Hgo. unfold kept_ok in Hgo.
    apply andb_true_iff in Hgo. destruct Hgo as [_ Hgo]. cbn [erase] in *. rewrite neb_node in *. exact Hgo.
  - inversion H; subst t'. cbn [erase]. rewrite neb_node. exact Hgo.
Qed.

Lemma vmergeable_leaf s : v_is_leaf s = true -> vmergeable s = false.
Proof. unfold v_is_leaf, vmergeable. destruct (v_ch s); [reflexivity|discriminate]. Qed.

Lemma vnm_node r w m ch :
  v_none_mergeable (VNode r w m ch) = negb (vmergeable (VNode r w m ch)) && forallb v_none_mergeable ch.
Proof. reflexivity. Qed.

Lemma vnm_leaf c : v_is_leaf c = true -> v_none_mergeable c = true.
Proof. destruct c as [r w m [|a ch]]; [reflexivity|discriminate]. Qed.

Lemma vnm_root t : v_none_mergeable t = true -> vmergeable t = false.
Proof. destruct t as [r w m ch]. rewrite vnm_node. intros H. apply andb_true_iff in H as [H _]. apply negb_true_iff in H. exact H. Qed.

(* the merged node is not mergeable when the absorbed child was not *)
Lemma vmerge_result_not_mergeable r m cr cw cm cch :
  vmergeable (VNode cr cw cm cch) = false -> vmergeable (VNode r None m [VNode cr cw cm cch]) = true ->
  vmergeable (VNode (rep_mul r cr) cw (cm ++ m) cch) = false.
Proof.
  unfold vmergeable. cbn [v_ch]. intros Hc _. destruct cch as [|cc [|cc2 cch]]; auto.
  unfold v_has_meas in *. cbn [v_meas] in *. apply orb_false_iff in Hc. destruct Hc as [G1 G2].
  rewrite G2, orb_false_r. destruct cm; [discriminate|reflexivity].
Qed.

Theorem vcleanup_none_mergeable : forall rm t t', vcleanup rm true t = Ok t' -> v_none_mergeable t' = true.
Proof.
  intros rm. induction t as [r w m ch IH] using vtree_ind'. intros t' H.
  rewrite vcleanup_eq in H.
  assert (forall ch', vcleanup_go rm true ch = Ok ch' -> forallb v_none_mergeable ch' = true) as Hgo.
  { clear H. induction IH as [|c l Hc _ IHl]; intros ch' H.
    - inversion H. reflexivity.
    - rewrite vcleanup_go_cons in H.
      destruct (vcleanup_step rm true c) as [cs|] eqn:Hs; [|discriminate]. cbn [bind] in H.
      destruct (vcleanup_go rm true l) as [rs|] eqn:Hg; [|discriminate]. cbn [bind] in H.
      inversion H; subst ch'; clear H. rewrite forallb_app, (IHl rs eq_refl), andb_true_r.
      unfold vcleanup_step in Hs. destruct rm.
      + destruct (v_is_leaf c) eqn:Hl.
        * inversion Hs; subst cs. destruct (v_has_wf c); [|reflexivity].
          cbn [forallb]. rewrite (vnm_leaf c Hl). reflexivity.
        * destruct (vcleanup true true c) as [c'|] eqn:Hcl; [|discriminate]. cbn [bind] in Hs.
          inversion Hs; subst cs. destruct (v_has_wf c' || negb (v_is_leaf c')); [|reflexivity].
          cbn [forallb]. rewrite (Hc c' eq_refl). reflexivity.
      + destruct (vcleanup false true c) as [c'|] eqn:Hcl; [|discriminate]. cbn [bind] in Hs.
        inversion Hs; subst cs. cbn [forallb]. rewrite (Hc c' eq_refl). reflexivity. }
  destruct (vcleanup_go rm true ch) as [ch'|] eqn:Hg; [|discriminate]. cbn [bind] in H. cbn zeta in H.
  specialize (Hgo ch' eq_refl). cbn [andb] in H.
  destruct (vmergeable (VNode r w m ch')) eqn:Hm.
  - destruct (vmerge_inv _ _ H) as (r0 & m0 & cr & cw & cm & cch & E & ->).
    inversion E; subst. cbn [forallb] in Hgo. rewrite andb_true_r, vnm_node in Hgo.
    apply andb_true_iff in Hgo. destruct Hgo as [Hroot Hgo]. apply negb_true_iff in Hroot.
    rewrite vnm_node, (vmerge_result_not_mergeable _ _ _ _ _ _ Hroot Hm), Hgo. reflexivity.
  - inversion H; subst t'. rewrite vnm_node, Hm, Hgo. reflexivity.
Qed.

Theorem vcleanup_not_mergeable : forall rm t t', vcleanup rm true t = Ok t' -> vmergeable t' = false.
Proof. intros rm t t' H. apply vnm_root. eapply vcleanup_none_mergeable; eauto. Qed.

(* ------------------------------------------------------------------------------------------------------------------ *)
(* E. flatten_and_balance *)

Lemma vfab_list_S f d todo :
  vfab_list (S f) d todo =
  match todo with
  | [] => Ok []
  | sub :: rest =>
      if vdepth sub <? d - 1 then vfab_list f d (vencapsulate sub :: rest)
      else if negb (vbalanced sub) then
             bind (vfab_list f (d - 1) (v_ch sub)) (fun cs => vfab_list f d (vset_ch sub cs :: rest))
      else if vdepth sub =? d - 1 then bind (vfab_list f d rest) (fun r => Ok (sub :: r))
      else if vmergeable sub then bind (vmerge_single_child sub) (fun s => vfab_list f d (s :: rest))
      else if negb (v_is_leaf sub) then vfab_list f d (vunrolled sub ++ rest)
      else bind (vfab_list f d rest) (fun r => Ok (sub :: r))
  end.
Proof. reflexivity. Qed.

Lemma vbalanced_leaf t : v_is_leaf t = true -> vbalanced t = true.
Proof. intros H. unfold vbalanced. apply balanced_leaf. rewrite is_leaf_erase. exact H. Qed.

Lemma vdepth_leaf t : v_is_leaf t = true -> vdepth t = 0.
Proof. intros H. unfold vdepth. apply depth_leaf. rewrite is_leaf_erase. exact H. Qed.

Lemma vmerge_erase t t' : vmerge_single_child t = Ok t' -> merge_single_child (erase t) = Ok (erase t').
Proof. exact (vmerge_instv rv t t' multiplicative_rv). Qed.

Lemma vfab_list_pieces : forall fuel d todo out, forallb tree_okb (map erase todo) = true -> vfab_list fuel d todo = Ok out ->
  flat_map pieces (map erase out) = flat_map pieces (map erase todo) /\ forallb tree_okb (map erase out) = true.
Proof.
  induction fuel as [|f IH]; intros d todo out Hok H; [discriminate|].
  rewrite vfab_list_S in H. destruct todo as [|sub rest]; [inversion H; auto|].
  cbn [map forallb] in Hok. apply andb_true_iff in Hok. destruct Hok as [Hs Hrest].
  destruct (vdepth sub <? d - 1).
  { apply IH in H.
    - cbn [map flat_map] in *. rewrite vencapsulate_erase, encapsulate_pieces in H. auto.
    - cbn [map forallb]. rewrite vencapsulate_erase, encapsulate_ok, Hrest; auto. }
  destruct (negb (vbalanced sub)) eqn:Hb.
  { destruct (vfab_list f (d - 1) (v_ch sub)) as [cs|] eqn:H1; [|discriminate]. cbn [bind] in H.
    apply IH in H1; [|rewrite <- t_ch_erase; apply okb_children; auto]. destruct H1 as [Hp Ho].
    assert (is_leaf (erase sub) = false) as Hl.
    { rewrite is_leaf_erase. destruct (v_is_leaf sub) eqn:E; auto. rewrite vbalanced_leaf in Hb; auto; discriminate. }
    rewrite <- t_ch_erase in Hp.
    destruct (set_ch_pieces_ok (erase sub) (map erase cs) Hs Hl Hp Ho) as [Hp' Ho'].
    apply IH in H.
    - cbn [map flat_map] in *. rewrite erase_vset_ch, Hp' in H. auto.
    - cbn [map forallb]. rewrite erase_vset_ch, Ho', Hrest. auto. }
  destruct (vdepth sub =? d - 1).
  { destruct (vfab_list f d rest) as [r|] eqn:H1; [|discriminate]. cbn [bind] in H. inversion H; subst out.
    apply IH in H1; auto. destruct H1 as [Hp Ho]. cbn [map flat_map forallb]. rewrite Hp, Ho, Hs. auto. }
  destruct (vmergeable sub).
  { destruct (vmerge_single_child sub) as [s|] eqn:H1; [|discriminate]. cbn [bind] in H.
    apply vmerge_erase in H1. apply IH in H.
    - cbn [map flat_map] in *. rewrite (merge_single_child_pieces _ _ Hs H1) in H. auto.
    - cbn [map forallb]. rewrite (merge_single_child_ok _ _ Hs H1), Hrest. auto. }
  destruct (negb (v_is_leaf sub)) eqn:Hl.
  { apply negb_true_iff in Hl. apply IH in H.
    - rewrite map_app, flat_map_app, <- unrolled_erase, unrolled_pieces in H; [auto|rewrite is_leaf_erase; exact Hl].
    - rewrite map_app, forallb_app, Hrest, <- unrolled_erase. unfold unrolled.
      rewrite Proofs_struct.forallb_rep_list; auto. apply okb_children; auto. }
  destruct (vfab_list f d rest) as [r|] eqn:H1; [|discriminate]. cbn [bind] in H. inversion H; subst out.
  apply IH in H1; auto. destruct H1 as [Hp Ho]. cbn [map flat_map forallb]. rewrite Hp, Ho, Hs. auto.
Qed.

Lemma vfab_list_post : forall fuel d todo out, vfab_list fuel d todo = Ok out ->
  Forall (fun c => (vbalanced c = true /\ vdepth c = (d - 1)%Z) \/ (v_is_leaf c = true /\ (d - 1 < 0)%Z)) out.
Proof.
  induction fuel as [|f IH]; intros d todo out H; [discriminate|].
  rewrite vfab_list_S in H. destruct todo as [|sub rest]; [inversion H; constructor|].
  destruct (vdepth sub <? d - 1) eqn:E1; [eapply IH; eauto|].
  destruct (negb (vbalanced sub)) eqn:Hb.
  { destruct (vfab_list f (d - 1) (v_ch sub)) as [cs|]; [|discriminate]. cbn [bind] in H. eapply IH; eauto. }
  apply negb_false_iff in Hb.
  destruct (vdepth sub =? d - 1) eqn:E2.
  { destruct (vfab_list f d rest) as [r|] eqn:H1; [|discriminate]. cbn [bind] in H. inversion H; subst out.
    constructor; [left; split; auto; lia|eapply IH; eauto]. }
  destruct (vmergeable sub).
  { destruct (vmerge_single_child sub) as [s|]; [|discriminate]. cbn [bind] in H. eapply IH; eauto. }
  destruct (negb (v_is_leaf sub)) eqn:Hl; [eapply IH; eauto|].
  apply negb_false_iff in Hl.
  destruct (vfab_list f d rest) as [r|] eqn:H1; [|discriminate]. cbn [bind] in H. inversion H; subst out.
  constructor; [|eapply IH; eauto]. right. split; auto. pose proof (vdepth_leaf _ Hl). lia.
Qed.

Lemma vflatten_pieces : forall fuel d t t', tree_okb (erase t) = true -> vflatten_and_balance fuel d t = Ok t' ->
  pieces (erase t') = pieces (erase t) /\ tree_okb (erase t') = true.
Proof.
  intros fuel d t t' Hok H. unfold vflatten_and_balance in H.
  destruct (vfab_list fuel d (v_ch t)) as [cs|] eqn:H1; [|discriminate]. cbn [bind] in H. inversion H; subst t'.
  destruct (v_is_leaf t) eqn:Hl.
  - destruct t as [r w m [|c ch]]; [|discriminate]. cbn [v_ch] in *.
    destruct fuel; [discriminate|]. rewrite vfab_list_S in H1. inversion H1; subst cs. auto.
  - apply vfab_list_pieces in H1; [|rewrite <- t_ch_erase; apply okb_children; auto]. destruct H1 as [Hp Ho].
    rewrite erase_vset_ch. apply set_ch_pieces_ok; auto; [rewrite is_leaf_erase; exact Hl|rewrite t_ch_erase; exact Hp].
Qed.

Theorem vflatten_preserves : forall fuel d t t', tree_okb (erase t) = true -> vflatten_and_balance fuel d t = Ok t' ->
  (pieces (erase t') = pieces (erase t) /\ (duration (erase t') == duration (erase t))%Q)
  /\ (1 <= d -> v_ch t' <> [] -> vdepth t' = d /\ vbalanced t' = true)
  /\ (d <= 0 -> forallb v_is_leaf (v_ch t') = true).
Proof.
  intros fuel d t t' Hok H. destruct (vflatten_pieces _ _ _ _ Hok H) as [Hp Ho].
  split; [exact (preserved_intro _ _ Hok Ho Hp)|].
  unfold vflatten_and_balance in H.
  destruct (vfab_list fuel d (v_ch t)) as [cs|] eqn:H1; [|discriminate]. cbn [bind] in H. inversion H; subst t'; clear H.
  rewrite v_ch_vset_ch. apply vfab_list_post in H1. split.
  - intros Hd Hne.
    assert (Forall (fun c => balanced c = true /\ depth c = d - 1) (map erase cs)) as HF.
    { apply Forall_map. eapply Forall_impl; [|exact H1]. cbn beta. intros c [Hc|[_ Hc]]; [exact Hc|lia]. }
    destruct cs as [|c0 cs]; [congruence|]. unfold vdepth, vbalanced. rewrite erase_vset_ch.
    destruct (erase t) as [r w m ch]. cbn [set_ch map] in *.
    destruct (node_balanced_depth r w m (erase c0) (map erase cs) (d - 1) ltac:(lia) HF) as [Hdd Hbb].
    split; [lia|exact Hbb].
  - intros Hd. apply forallb_forall. intros e He.
    rewrite Forall_forall in H1. destruct (H1 e He) as [[_ Hc]|[Hc _]]; auto.
    unfold vdepth in Hc. pose proof (depth_nonneg (erase e)). lia.
Qed.

(* E3: the warning variant computes the same program *)
Theorem vfab_list_w_fst : forall f d todo, rmap fst (vfab_list_w f d todo) = vfab_list f d todo.
Proof.
  induction f as [|f IH]; intros d todo; [reflexivity|].
  rewrite vfab_list_S. cbn [vfab_list_w]. destruct todo as [|sub rest]; [reflexivity|].
  destruct (vdepth sub <? d - 1); [apply IH|].
  destruct (negb (vbalanced sub)).
  { rewrite <- (IH (d - 1) (v_ch sub)). destruct (vfab_list_w f (d - 1) (v_ch sub)) as [[cs w]|e]; cbn [bind rmap fst]; [|reflexivity].
    rewrite <- (IH d (vset_ch sub cs :: rest)).
    destruct (vfab_list_w f d (vset_ch sub cs :: rest)) as [[r w2]|e]; reflexivity. }
  destruct (vdepth sub =? d - 1).
  { rewrite <- (IH d rest). destruct (vfab_list_w f d rest) as [[r w]|e]; reflexivity. }
  destruct (vmergeable sub).
  { destruct (vmerge_single_child sub); cbn [bind]; [apply IH|reflexivity]. }
  destruct (negb (v_is_leaf sub)).
  { rewrite <- (IH d (vunrolled sub ++ rest)). destruct (vfab_list_w f d (vunrolled sub ++ rest)) as [[r w]|e]; reflexivity. }
  rewrite <- (IH d rest). destruct (vfab_list_w f d rest) as [[r w]|e]; reflexivity.
Qed.

Corollary vflatten_w_fst : forall f d t, rmap fst (vflatten_and_balance_w f d t) = vflatten_and_balance f d t.
Proof.
  intros f d t. unfold vflatten_and_balance_w, vflatten_and_balance. rewrite <- vfab_list_w_fst.
  destruct (vfab_list_w f d (v_ch t)) as [[cs w]|e]; reflexivity.
Qed.

(* ------------------------------------------------------------------------------------------------------------------ *)
(* F. examples *)

Definition vleaf (i : N) (r : rep) : vtree := VNode r (Some (WAtom i 1)) [] [].

(* F1: a measured parent does not absorb a child whose count is volatile, even when its current value is 1 *)
Definition ex_vol1 : vtree :=
  VNode (Fixed 2) None [3%N] [VNode (Volatile 1 (VVar 0)) None [] [vleaf 1 (Fixed 1); vleaf 2 (Fixed 1)]].

Example ex_vol1_mergeable : mergeable (erase ex_vol1) = true /\ vmergeable ex_vol1 = false.
Proof. split; reflexivity. Qed.

Definition ex_vol1_root : vtree := VNode (Fixed 1) None [] [ex_vol1].

Example ex_vol1_ok : tree_okb (erase ex_vol1_root) = true.
Proof. reflexivity. Qed.

(* flatten_and_balance to depth 2: the plain loop merges (one child with count 2), the volatile-aware loop unrolls the
   parent (two copies of the volatile child) *)
Example ex_vol1_flatten :
  exists t' t'', vflatten_and_balance 100 2 ex_vol1_root = Ok t' /\ flatten_and_balance 100 2 (erase ex_vol1_root) = Ok t'' /\
                 length (v_ch t') = 2%nat /\ length (t_ch t'') = 1%nat /\ erase t' <> t'' /\
                 Forall (fun c => v_rep c = Volatile 1 (VVar 0)) (v_ch t').
Proof.
  eexists. eexists. split; [vm_compute; reflexivity|]. split; [vm_compute; reflexivity|].
  split; [reflexivity|]. split; [reflexivity|]. split; [discriminate|]. repeat constructor.
Qed.

(* F2: split freezes the current value: after an update of the volatile parameter the split program plays something
   else than the original one (the reason for VolatileModificationWarning).  [vmerge_preserves_all],
   [vcleanup_preserves_all], [vencapsulate_preserves_all] hold for every valuation instead. *)
Definition ex_vol2 : vtree := VNode (Fixed 1) None [] [vleaf 1 (Volatile 3 (VVar 0))].
Definition ex_env3 : N -> Z := fun _ => 3.
Definition ex_env5 : N -> Z := fun _ => 5.

Example ex_vol2_consistent : consistent ex_env3 ex_vol2 = true /\ tree_okb (erase ex_vol2) = true.
Proof. split; reflexivity. Qed.

Example vsplit_not_all_env :
  exists t', vsplit_one_child ex_vol2 None = Ok t' /\ vsplit_warns ex_vol2 None = true /\
             pieces (inst ex_env3 t') = pieces (inst ex_env3 ex_vol2) /\
             pieces (inst ex_env5 t') <> pieces (inst ex_env5 ex_vol2).
Proof.
  eexists. split; [vm_compute; reflexivity|]. split; [reflexivity|]. split; [reflexivity|].
  intros H. vm_compute in H. discriminate.
Qed.

(* F3: the search prefers a fixed child; among volatile ones the rightmost *)
Example vsplit_prefers_fixed :
  vsplit_index (VNode (Fixed 1) None [] [vleaf 1 (Fixed 2); vleaf 2 (Volatile 3 (VVar 0))]) None = Ok 0%nat /\
  vsplit_index (VNode (Fixed 1) None [] [vleaf 1 (Volatile 2 (VVar 0)); vleaf 2 (Volatile 3 (VVar 1))]) None = Ok 1%nat /\
  split_one_child (erase (VNode (Fixed 1) None [] [vleaf 1 (Fixed 2); vleaf 2 (Volatile 3 (VVar 0))])) None
    <> rmap erase (vsplit_one_child (VNode (Fixed 1) None [] [vleaf 1 (Fixed 2); vleaf 2 (Volatile 3 (VVar 0))]) None).
Proof. split; [reflexivity|]. split; [reflexivity|]. vm_compute. discriminate. Qed.

(* the hypotheses of the D theorems are satisfiable with volatile counts present; merge keeps the expression *)
Example ex_vmerge :
  vmerge_single_child (VNode (Volatile 2 (VVar 0)) None [] [VNode (Volatile 3 (VVar 1)) None [] [vleaf 1 (Fixed 1)]])
  = Ok (VNode (Volatile 6 (VProd (VVar 0) (VVar 1))) None [] [vleaf 1 (Fixed 1)]).
Proof. reflexivity. Qed.

Example ex_vflatten_warns :
  exists t', vflatten_and_balance_w 100 1 ex_vol1_root = Ok (t', true).
Proof. eexists. vm_compute. reflexivity. Qed.

(* ------------------------------------------------------------------------------------------------------------------ *)
(* E4: conservative extension — without volatile counts the v-loop IS the plain loop *)

Definition nv (t : vtree) : Prop := any_volatile t = false.

Lemma nv_node r w m ch : is_vol r = false -> Forall nv ch -> nv (VNode r w m ch).
Proof.
  intros Hr HF. unfold nv. cbn [any_volatile]. rewrite Hr. cbn [orb].
  destruct (existsb any_volatile ch) eqn:E; [|reflexivity]. apply existsb_exists in E as (c & Hc & Hv).
  rewrite Forall_forall in HF. rewrite (HF c Hc) in Hv. discriminate.
Qed.

Lemma nv_inv t : nv t -> is_vol (v_rep t) = false /\ Forall nv (v_ch t).
Proof. intros H. destruct (any_volatile_children t H). split; assumption. Qed.

Lemma nv_vencapsulate t : nv t -> nv (vencapsulate t).
Proof. destruct t as [r w m ch]. intros H. apply nv_node; [reflexivity|]. constructor; [exact H|constructor]. Qed.

Lemma nv_vset_ch t cs : nv t -> Forall nv cs -> nv (vset_ch t cs).
Proof. destruct t as [r w m ch]. intros H HF. apply nv_inv in H as [Hr _]. apply nv_node; assumption. Qed.

Lemma Forall_rep_list {A} (P : A -> Prop) n l : Forall P l -> Forall P (rep_list n l).
Proof. intros H. induction n; cbn [rep_list]; [constructor|]. apply Forall_app. split; assumption. Qed.

Lemma nv_vunrolled c : nv c -> Forall nv (vunrolled c).
Proof. intros H. apply Forall_rep_list. apply nv_inv in H. tauto. Qed.

Lemma nv_vmerge t t' : nv t -> vmerge_single_child t = Ok t' -> nv t'.
Proof.
  intros Hn H. destruct (vmerge_inv _ _ H) as (r & m & cr & cw & cm & cch & -> & ->).
  apply nv_inv in Hn as [Hr Hc]. cbn [v_rep v_ch] in *. inversion Hc as [|? ? Hc1 _]; subst.
  apply nv_inv in Hc1 as [Hcr Hcc]. cbn [v_rep v_ch] in *.
  apply nv_node; [|exact Hcc]. destruct r, cr; try discriminate. reflexivity.
Qed.

Lemma vmergeable_nv t : nv t -> vmergeable t = mergeable (erase t).
Proof.
  intros Hn. apply nv_inv in Hn as [_ Hc]. unfold vmergeable, mergeable. rewrite t_ch_erase, has_meas_erase.
  destruct (v_ch t) as [|c [|c2 l]]; cbn [map]; try reflexivity.
  inversion Hc as [|? ? Hc1 _]; subst. apply nv_inv in Hc1 as [Hv _].
  rewrite t_rep_erase. unfold fixed_one. rewrite Hv. cbn [negb]. rewrite andb_true_r. reflexivity.
Qed.

Lemma vmerge_nv t : nv t -> rmap erase (vmerge_single_child t) = merge_single_child (erase t).
Proof.
  intros Hn. destruct (vmerge_single_child t) as [t'|e] eqn:E; cbn [rmap].
  - symmetry. apply vmerge_erase. exact E.
  - destruct t as [r w m [|[cr cw cm cch] [|c2 ch]]]; cbn [vmerge_single_child] in E; cbn [erase map merge_single_child];
      try congruence.
    apply nv_inv in Hn as [_ Hc]. cbn [v_ch] in Hc. inversion Hc as [|? ? Hc1 _]; subst.
    apply nv_inv in Hc1 as [Hv _]. cbn [v_rep] in Hv. destruct cr as [n|n tg]; [|discriminate].
    change (has_meas (Node (rv r) w m [Node (rv (Fixed n)) cw cm (map erase cch)]))
      with (v_has_meas (VNode r w m [VNode (Fixed n) cw cm cch])).
    unfold fixed_one in E. cbn [rv is_vol negb] in *. rewrite andb_true_r in E.
    destruct (v_has_meas (VNode r w m [VNode (Fixed n) cw cm cch]) && negb (n =? 1)); [congruence|].
    destruct w; congruence.
Qed.

Lemma vfab_list_nv : forall f d todo, Forall nv todo ->
  rmap (map erase) (vfab_list f d todo) = fab_list f d (map erase todo) /\
  (forall out, vfab_list f d todo = Ok out -> Forall nv out).
Proof.
  induction f as [|f IH]; intros d todo HF; [split; [reflexivity|discriminate]|].
  rewrite vfab_list_S, fab_list_S. destruct todo as [|sub rest]; [split; [reflexivity|intros out E; inversion E; constructor]|].
  inversion HF as [|? ? Hs Hrest]; subst. cbn [map]. unfold vdepth, vbalanced.
  destruct (depth (erase sub) <? d - 1).
  { rewrite <- vencapsulate_erase. apply (IH d (vencapsulate sub :: rest)). constructor; [apply nv_vencapsulate|]; assumption. }
  destruct (negb (balanced (erase sub))).
  { rewrite t_ch_erase. destruct (IH (d - 1) (v_ch sub) (proj2 (nv_inv _ Hs))) as [E1 N1]. rewrite <- E1.
    destruct (vfab_list f (d - 1) (v_ch sub)) as [cs|e]; cbn [bind rmap]; [|split; [reflexivity|discriminate]].
    rewrite <- erase_vset_ch. apply (IH d (vset_ch sub cs :: rest)). constructor; [apply nv_vset_ch; auto|assumption]. }
  destruct (depth (erase sub) =? d - 1).
  { destruct (IH d rest Hrest) as [E1 N1]. rewrite <- E1.
    destruct (vfab_list f d rest) as [r|e]; cbn [bind rmap map]; split; try reflexivity; try discriminate.
    intros out E. inversion E; subst. constructor; auto. }
  rewrite <- (vmergeable_nv sub Hs). destruct (vmergeable sub).
  { rewrite <- (vmerge_nv sub Hs). destruct (vmerge_single_child sub) as [s|e] eqn:Em; cbn [bind rmap]; [|split; [reflexivity|discriminate]].
    apply (IH d (s :: rest)). constructor; [eapply nv_vmerge; eauto|assumption]. }
  rewrite is_leaf_erase. destruct (negb (v_is_leaf sub)).
  { rewrite unrolled_erase, <- map_app. apply (IH d (vunrolled sub ++ rest)). apply Forall_app. split; [apply nv_vunrolled|]; assumption. }
  destruct (IH d rest Hrest) as [E1 N1]. rewrite <- E1.
  destruct (vfab_list f d rest) as [r|e]; cbn [bind rmap map]; split; try reflexivity; try discriminate.
  intros out E. inversion E; subst. constructor; auto.
Qed.

Theorem vfab_list_conservative : forall f d todo, forallb (fun t => negb (any_volatile t)) todo = true ->
  rmap (map erase) (vfab_list f d todo) = fab_list f d (map erase todo).
Proof.
  intros f d todo H. apply vfab_list_nv. apply Forall_forall. intros t Ht.
  rewrite forallb_forall in H. specialize (H t Ht). apply negb_true_iff in H. exact H.
Qed.

Corollary vflatten_conservative : forall f d t, any_volatile t = false ->
  rmap erase (vflatten_and_balance f d t) = flatten_and_balance f d (erase t).
Proof.
  intros f d t H. unfold vflatten_and_balance, flatten_and_balance. rewrite t_ch_erase.
  destruct (vfab_list_nv f d (v_ch t) (proj2 (nv_inv t H))) as [E _]. rewrite <- E.
  destruct (vfab_list f d (v_ch t)) as [cs|e]; cbn [bind rmap]; [|reflexivity]. rewrite erase_vset_ch. reflexivity.
Qed.
