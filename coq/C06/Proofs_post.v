(* C06 — postconditions of cleanup: no empty loop remains below the root; the root is not mergeable any more. *)
From Coq Require Import ZArith QArith List Bool Lia ZifyBool.
Require Import QV.C06.Model QV.C06.Spec QV.C06.Proofs_base QV.C06.Proofs_struct.
Import ListNotations.
Open Scope Z_scope.

Definition kept_ok (c : tree) : bool := (has_wf c || negb (is_leaf c)) && no_empty_below c.

Lemma neb_node rep w m ch : no_empty_below (Node rep w m ch) = forallb kept_ok ch.
Proof. reflexivity. Qed.

Lemma neb_leaf c : is_leaf c = true -> no_empty_below c = true.
Proof. destruct c as [r w m [|a ch]]; [reflexivity|discriminate]. Qed.

(* ------------------------------------------------------------------------------------------------------------------ *)
(* remove_empty_loops *)

Theorem cleanup_post : forall mg t t', cleanup true mg t = Ok t' -> no_empty_below t' = true.
Proof.
  intros mg. induction t as [rep w m ch IH] using tree_ind'. intros t' H.
  rewrite cleanup_eq in H.
  assert (forall ch', cleanup_go true mg ch = Ok ch' -> forallb kept_ok ch' = true) as Hgo.
  { clear H. induction IH as [|c l Hc _ IHl]; intros ch' H.
    - inversion H. reflexivity.
    - rewrite cleanup_go_cons in H.
      destruct (cleanup_step true mg c) as [cs|] eqn:Hs; [|discriminate]. cbn [bind] in H.
      destruct (cleanup_go true mg l) as [rs|] eqn:Hg; [|discriminate]. cbn [bind] in H.
      inversion H; subst ch'; clear H. rewrite forallb_app, (IHl rs eq_refl), andb_true_r.
      unfold cleanup_step in Hs. destruct (is_leaf c) eqn:Hl.
      + inversion Hs; subst cs. destruct (has_wf c) eqn:Hh; [|reflexivity].
        cbn [forallb]. unfold kept_ok. rewrite Hh, (neb_leaf c Hl). reflexivity.
      + destruct (cleanup true mg c) as [c'|] eqn:Hcl; [|discriminate]. cbn [bind] in Hs.
        inversion Hs; subst cs. destruct (has_wf c' || negb (is_leaf c')) eqn:E; [|reflexivity].
        cbn [forallb]. unfold kept_ok. rewrite E, (Hc c' eq_refl). reflexivity. }
  destruct (cleanup_go true mg ch) as [ch'|] eqn:Hg; [|discriminate]. cbn [bind] in H. cbn zeta in H.
  specialize (Hgo ch' eq_refl).
  destruct (mg && mergeable (Node rep w m ch')).
  - destruct (merge_single_child_inv _ _ H) as (rep0 & m0 & crep & cw & cm & cch & E & ->).
    inversion E; subst. cbn [forallb] in Hgo. rewrite andb_true_r in Hgo. unfold kept_ok in Hgo.
    apply andb_true_iff in Hgo. destruct Hgo as [_ Hgo]. rewrite neb_node in *. exact Hgo.
  - inversion H; subst t'. rewrite neb_node. exact Hgo.
Qed.

(* ------------------------------------------------------------------------------------------------------------------ *)
(* merge_single_child: after cleanup the root (indeed every node) is not mergeable; no well-formedness needed *)

Lemma mergeable_leaf' s : is_leaf s = true -> mergeable s = false.
Proof. unfold is_leaf, mergeable. destruct (t_ch s); [reflexivity|discriminate]. Qed.

Theorem cleanup_not_mergeable : forall rm t t', cleanup rm true t = Ok t' -> mergeable t' = false.
Proof.
  intros rm. induction t as [rep w m ch IH] using tree_ind'. intros t' H.
  rewrite cleanup_eq in H.
  assert (forall ch', cleanup_go rm true ch = Ok ch' -> forallb (fun c => negb (mergeable c)) ch' = true) as Hgo.
  { clear H. induction IH as [|c l Hc _ IHl]; intros ch' H.
    - inversion H. reflexivity.
    - rewrite cleanup_go_cons in H.
      destruct (cleanup_step rm true c) as [cs|] eqn:Hs; [|discriminate]. cbn [bind] in H.
      destruct (cleanup_go rm true l) as [rs|] eqn:Hg; [|discriminate]. cbn [bind] in H.
      inversion H; subst ch'; clear H. rewrite forallb_app, (IHl rs eq_refl), andb_true_r.
      unfold cleanup_step in Hs. destruct rm.
      + destruct (is_leaf c) eqn:Hl.
        * inversion Hs; subst cs. destruct (has_wf c); [|reflexivity].
          cbn [forallb]. rewrite (mergeable_leaf' c Hl). reflexivity.
        * destruct (cleanup true true c) as [c'|] eqn:Hcl; [|discriminate]. cbn [bind] in Hs.
          inversion Hs; subst cs. destruct (has_wf c' || negb (is_leaf c')); [|reflexivity].
          cbn [forallb]. rewrite (Hc c' eq_refl). reflexivity.
      + destruct (cleanup false true c) as [c'|] eqn:Hcl; [|discriminate]. cbn [bind] in Hs.
        inversion Hs; subst cs. cbn [forallb]. rewrite (Hc c' eq_refl). reflexivity. }
  destruct (cleanup_go rm true ch) as [ch'|] eqn:Hg; [|discriminate]. cbn [bind] in H. cbn zeta in H.
  specialize (Hgo ch' eq_refl). cbn [andb] in H.
  destruct (mergeable (Node rep w m ch')) eqn:Hm.
  - destruct (merge_single_child_inv _ _ H) as (rep0 & m0 & crep & cw & cm & cch & E & ->).
    inversion E; subst. cbn [forallb] in Hgo. rewrite andb_true_r in Hgo. apply negb_true_iff in Hgo.
    (* the child was not mergeable: it has not exactly one child, or it has measurements and a grandchild with count <> 1 *)
    unfold mergeable in *. cbn [t_ch] in *. destruct cch as [|cc [|cc2 cch]]; auto.
    unfold has_meas in *. cbn [t_meas] in *. apply orb_false_iff in Hgo. destruct Hgo as [G1 G2].
    rewrite G2, orb_false_r. destruct cm; [discriminate|reflexivity].
  - inversion H; subst t'. exact Hm.
Qed.

Theorem cleanup_merge_post : forall rm t t', tree_okb t = true -> cleanup rm true t = Ok t' ->
  mergeable t' = false \/ (exists c, t_ch t' = [c] /\ has_meas t' = true /\ t_rep c <> 1%Z).
Proof. intros rm t t' _ H. left. eapply cleanup_not_mergeable; eauto. Qed.

(* the right disjunct of [cleanup_merge_post] is a special case of the left one *)
Lemma meas_single_not_mergeable t c : t_ch t = [c] -> has_meas t = true -> t_rep c <> 1 -> mergeable t = false.
Proof. intros E Hm Hr. unfold mergeable. rewrite E, Hm. cbn [negb orb]. lia. Qed.

(* every node of the result is unmergeable, not only the root *)
Fixpoint none_mergeable (t : tree) : bool :=
  match t with Node _ _ _ ch => negb (mergeable t) && forallb none_mergeable ch end.

Lemma nm_node r w m ch : none_mergeable (Node r w m ch) = negb (mergeable (Node r w m ch)) && forallb none_mergeable ch.
Proof. reflexivity. Qed.

Lemma nm_leaf c : is_leaf c = true -> none_mergeable c = true.
Proof. destruct c as [r w m [|a ch]]; [reflexivity|discriminate]. Qed.

Theorem cleanup_none_mergeable : forall rm t t', cleanup rm true t = Ok t' -> none_mergeable t' = true.
Proof.
  intros rm. induction t as [rep w m ch IH] using tree_ind'. intros t' H.
  pose proof (cleanup_not_mergeable rm _ _ H) as Hroot.
  rewrite cleanup_eq in H.
  assert (forall ch', cleanup_go rm true ch = Ok ch' -> forallb none_mergeable ch' = true) as Hgo.
  { clear H Hroot. induction IH as [|c l Hc _ IHl]; intros ch' H.
    - inversion H. reflexivity.
    - rewrite cleanup_go_cons in H.
      destruct (cleanup_step rm true c) as [cs|] eqn:Hs; [|discriminate]. cbn [bind] in H.
      destruct (cleanup_go rm true l) as [rs|] eqn:Hg; [|discriminate]. cbn [bind] in H.
      inversion H; subst ch'; clear H. rewrite forallb_app, (IHl rs eq_refl), andb_true_r.
      unfold cleanup_step in Hs. destruct rm.
      + destruct (is_leaf c) eqn:Hl.
        * inversion Hs; subst cs. destruct (has_wf c); [|reflexivity].
          cbn [forallb]. rewrite (nm_leaf c Hl). reflexivity.
        * destruct (cleanup true true c) as [c'|] eqn:Hcl; [|discriminate]. cbn [bind] in Hs.
          inversion Hs; subst cs. destruct (has_wf c' || negb (is_leaf c')); [|reflexivity].
          cbn [forallb]. rewrite (Hc c' eq_refl). reflexivity.
      + destruct (cleanup false true c) as [c'|] eqn:Hcl; [|discriminate]. cbn [bind] in Hs.
        inversion Hs; subst cs. cbn [forallb]. rewrite (Hc c' eq_refl). reflexivity. }
  destruct (cleanup_go rm true ch) as [ch'|] eqn:Hg; [|discriminate]. cbn [bind] in H. cbn zeta in H.
  specialize (Hgo ch' eq_refl). cbn [andb] in H.
  destruct (mergeable (Node rep w m ch')) eqn:Hm.
  - destruct (merge_single_child_inv _ _ H) as (rep0 & m0 & crep & cw & cm & cch & E & ->).
    inversion E; subst. cbn [forallb] in Hgo. rewrite andb_true_r, nm_node in Hgo.
    apply andb_true_iff in Hgo. destruct Hgo as [_ Hgo]. rewrite nm_node, Hroot, Hgo. reflexivity.
  - inversion H; subst t'. rewrite nm_node, Hm, Hgo. reflexivity.
Qed.
