(* C06 — the rewrites executed on recorded parent indices (Model_idx.v) refine the pure rewrites of Model.v under
   the bookkeeping invariant [idx_ok], and re-establish it. *)
From Coq Require Import ZArith QArith List Bool Lia.
Require Import QV.C06.Model QV.C06.Proofs_props QV.C06.Model_idx.
Import ListNotations.
Open Scope Z_scope.

(* ------------------------------------------------------------------------------------------------------------------ *)
(* induction over itree with the hypothesis for all children *)

Fixpoint itree_ind' (P : itree -> Prop)
    (H : forall p r w m ch, Forall P ch -> P (INode p r w m ch)) (t : itree) : P t :=
  match t with
  | INode p r w m ch =>
      H p r w m ch ((fix go (l : list itree) : Forall P l :=
                       match l with
                       | [] => Forall_nil P
                       | c :: r => Forall_cons c (itree_ind' P H c) (go r)
                       end) ch)
  end.

Fixpoint tree_ind' (P : tree -> Prop)
    (H : forall r w m ch, Forall P ch -> P (Node r w m ch)) (t : tree) : P t :=
  match t with
  | Node r w m ch =>
      H r w m ch ((fix go (l : list tree) : Forall P l :=
                     match l with
                     | [] => Forall_nil P
                     | c :: r => Forall_cons c (tree_ind' P H c) (go r)
                     end) ch)
  end.

Lemma map_ext_F {A B} (f g : A -> B) l : Forall (fun x => f x = g x) l -> map f l = map g l.
Proof. induction 1; simpl; congruence. Qed.

Lemma nth_error_map' {A B} (f : A -> B) l k : nth_error (map f l) k = option_map f (nth_error l k).
Proof. revert k; induction l; intros [|k]; simpl; auto. Qed.

Lemma firstn_map' {A B} (f : A -> B) n l : firstn n (map f l) = map f (firstn n l).
Proof. revert l; induction n; intros [|a l]; simpl; auto. rewrite IHn; reflexivity. Qed.

Lemma skipn_map' {A B} (f : A -> B) n l : skipn n (map f l) = map f (skipn n l).
Proof. revert l; induction n; intros [|a l]; simpl; auto. Qed.

Lemma map_rep_list {A B} (f : A -> B) n l : map f (rep_list n l) = rep_list n (map f l).
Proof. induction n; simpl; auto. rewrite map_app, IHn; reflexivity. Qed.

Lemma map_update_nth {A B} (f : A -> B) l k x : map f (update_nth l k x) = update_nth (map f l) k (f x).
Proof. revert k; induction l; intros [|k]; simpl; auto. rewrite IHl; reflexivity. Qed.

Lemma length_update_nth {A} (l : list A) k x : length (update_nth l k x) = length l.
Proof. revert k; induction l; intros [|k]; simpl; auto. Qed.

(* ------------------------------------------------------------------------------------------------------------------ *)
(* erase and the field updates *)

Lemma erase_iset_pidx c x : erase (iset_pidx c x) = erase c.
Proof. destruct c; reflexivity. Qed.
Lemma erase_iset_rep c r : erase (iset_rep c r) = set_rep (erase c) r.
Proof. destruct c; reflexivity. Qed.
Lemma erase_iset_ch p l : erase (iset_ch p l) = set_ch (erase p) (map erase l).
Proof. destruct p; reflexivity. Qed.
Lemma t_ch_erase p : t_ch (erase p) = map erase (i_ch p).
Proof. destruct p; reflexivity. Qed.
Lemma t_rep_erase p : t_rep (erase p) = i_rep p.
Proof. destruct p; reflexivity. Qed.
Lemma is_leaf_erase c : is_leaf (erase c) = i_is_leaf c.
Proof. destruct c as [p r w m [|a ch]]; reflexivity. Qed.

Lemma map_erase_number l j : map erase (number l j) = map erase l.
Proof. revert j; induction l; intros j; simpl; auto. rewrite erase_iset_pidx, IHl; reflexivity. Qed.

Lemma length_number l j : length (number l j) = length l.
Proof. revert j; induction l; intros j; simpl; auto. Qed.

Lemma erase_copy t : erase (copy t) = erase t.
Proof.
  induction t as [p r w m ch IH] using itree_ind'. simpl. f_equal.
  rewrite map_erase_number, map_map. apply map_ext_F. exact IH.
Qed.

Lemma map_erase_copy l : map erase (map copy l) = map erase l.
Proof. rewrite map_map. apply map_ext_F. apply Forall_forall. intros; apply erase_copy. Qed.

Lemma erase_index_tree t : erase (index_tree t) = t.
Proof.
  induction t as [r w m ch IH] using tree_ind'. simpl. f_equal.
  rewrite map_erase_number, map_map. rewrite <- (map_id ch) at 2. apply map_ext_F. exact IH.
Qed.

(* ------------------------------------------------------------------------------------------------------------------ *)
(* the invariant *)

Lemma idx_ok_unfold p r w m ch : idx_ok (INode p r w m ch) = ch_ok ch 0.
Proof. simpl. generalize 0%nat. induction ch as [|c ch IH]; intros j; simpl; [|rewrite IH]; reflexivity. Qed.

Lemma idx_ok_ch p : idx_ok p = ch_ok (i_ch p) 0.
Proof. destruct p; apply idx_ok_unfold. Qed.

Lemma idx_ok_iset_pidx c x : idx_ok (iset_pidx c x) = idx_ok c.
Proof. destruct c. cbn [iset_pidx]. rewrite !idx_ok_unfold. reflexivity. Qed.
Lemma idx_ok_iset_rep c x : idx_ok (iset_rep c x) = idx_ok c.
Proof. destruct c. cbn [iset_rep]. rewrite !idx_ok_unfold. reflexivity. Qed.
Lemma idx_ok_iset_ch p l : idx_ok (iset_ch p l) = ch_ok l 0.
Proof. destruct p. cbn [iset_ch]. apply idx_ok_unfold. Qed.
Lemma pidx_is_iset_rep c x j : pidx_is (iset_rep c x) j = pidx_is c j.
Proof. destruct c; reflexivity. Qed.
Lemma pidx_is_iset_pidx c j : pidx_is (iset_pidx c (Some (Z.of_nat j))) j = true.
Proof. destruct c. unfold pidx_is. simpl. apply Z.eqb_refl. Qed.

Lemma pidx_is_spec c j : pidx_is c j = true -> i_pidx c = Some (Z.of_nat j).
Proof. unfold pidx_is. destruct (i_pidx c); [|discriminate]. intros H. apply Z.eqb_eq in H. congruence. Qed.

Lemma ch_ok_app l1 l2 j : ch_ok (l1 ++ l2) j = ch_ok l1 j && ch_ok l2 (j + length l1).
Proof.
  revert j; induction l1 as [|a l1 IH]; intros j; simpl.
  - rewrite Nat.add_0_r. reflexivity.
  - rewrite IH, Nat.add_succ_r. simpl. rewrite !andb_assoc. reflexivity.
Qed.

Lemma ch_ok_sub l j : ch_ok l j = true -> sub_ok l = true.
Proof.
  revert j; induction l as [|a l IH]; intros j H; simpl in *; auto.
  apply andb_true_iff in H as [H H2]. apply andb_true_iff in H as [_ H1]. rewrite H1. simpl. eauto.
Qed.

Lemma ch_ok_number l j : sub_ok l = true -> ch_ok (number l j) j = true.
Proof.
  revert j; induction l as [|a l IH]; intros j H; simpl in *; auto.
  apply andb_true_iff in H as [H1 H2]. rewrite pidx_is_iset_pidx, idx_ok_iset_pidx, H1, IH; auto.
Qed.

Lemma ch_ok_nth l j k c : ch_ok l j = true -> nth_error l k = Some c ->
  i_pidx c = Some (Z.of_nat (j + k)) /\ idx_ok c = true.
Proof.
  revert j k; induction l as [|a l IH]; intros j [|k] H Hn; simpl in *; try discriminate.
  - inversion Hn; subst a. apply andb_true_iff in H as [H _]. apply andb_true_iff in H as [H1 H2].
    rewrite Nat.add_0_r. split; auto using pidx_is_spec.
  - apply andb_true_iff in H as [_ H]. rewrite Nat.add_succ_r. apply (IH (S j) k); auto.
Qed.

Lemma ch_ok_firstn l j n : ch_ok l j = true -> ch_ok (firstn n l) j = true.
Proof.
  revert j n; induction l as [|a l IH]; intros j [|n] H; simpl in *; auto.
  apply andb_true_iff in H as [H1 H2]. rewrite H1, IH; auto.
Qed.

Lemma ch_ok_skipn l j n : ch_ok l j = true -> ch_ok (skipn n l) (j + n) = true.
Proof.
  revert j n; induction l as [|a l IH]; intros j [|n] H; simpl in *; auto.
  - rewrite Nat.add_0_r. exact H.
  - apply andb_true_iff in H as [_ H2]. rewrite Nat.add_succ_r. apply (IH (S j) n); auto.
Qed.

Lemma ch_ok_update_nth l j k c x : ch_ok l j = true -> nth_error l k = Some c ->
  ch_ok (update_nth l k (iset_rep c x)) j = true.
Proof.
  revert j k; induction l as [|a l IH]; intros j [|k] H Hn; simpl in *; try discriminate.
  - inversion Hn; subst a. rewrite pidx_is_iset_rep, idx_ok_iset_rep. exact H.
  - apply andb_true_iff in H as [H1 H2]. rewrite H1. simpl. eauto.
Qed.

Lemma sub_ok_app l1 l2 : sub_ok (l1 ++ l2) = sub_ok l1 && sub_ok l2.
Proof. apply forallb_app. Qed.

Lemma idx_ok_copy t : idx_ok (copy t) = true.
Proof.
  induction t as [p r w m ch IH] using itree_ind'. simpl copy. rewrite idx_ok_unfold.
  apply ch_ok_number. unfold sub_ok. induction IH as [|c l Hc _ IHl]; simpl; auto. rewrite Hc, IHl. reflexivity.
Qed.

Lemma sub_ok_map_copy l : sub_ok (map copy l) = true.
Proof. induction l; simpl; auto. rewrite idx_ok_copy. exact IHl. Qed.

Lemma idx_ok_index_tree t : idx_ok (index_tree t) = true.
Proof.
  induction t as [r w m ch IH] using tree_ind'. simpl index_tree. rewrite idx_ok_unfold.
  apply ch_ok_number. unfold sub_ok. induction IH as [|c l Hc _ IHl]; simpl; auto. rewrite Hc, IHl. reflexivity.
Qed.

(* ------------------------------------------------------------------------------------------------------------------ *)
(* renumbering *)

Lemma map_erase_renum l j a b : map erase (renum_from l j a b) = map erase l.
Proof.
  revert j; induction l as [|c l IH]; intros j; simpl; auto. rewrite IH. f_equal.
  destruct ((a <=? j)%nat && (j <? b)%nat); auto using erase_iset_pidx.
Qed.

Lemma length_renum l j a b : length (renum_from l j a b) = length l.
Proof. revert j; induction l; intros j; simpl; auto. Qed.

Lemma renum_app l1 l2 j a b :
  renum_from (l1 ++ l2) j a b = renum_from l1 j a b ++ renum_from l2 (j + length l1) a b.
Proof.
  revert j; induction l1 as [|c l1 IH]; intros j; simpl.
  - rewrite Nat.add_0_r. reflexivity.
  - rewrite IH, Nat.add_succ_r. reflexivity.
Qed.

Lemma renum_all l j a b : (a <= j)%nat -> (j + length l <= b)%nat -> sub_ok l = true ->
  ch_ok (renum_from l j a b) j = true.
Proof.
  revert j; induction l as [|c l IH]; intros j Ha Hb H; simpl in *; auto.
  apply andb_true_iff in H as [H1 H2].
  replace ((a <=? j)%nat) with true by (symmetry; apply Nat.leb_le; lia).
  replace ((j <? b)%nat) with true by (symmetry; apply Nat.ltb_lt; lia). simpl.
  rewrite pidx_is_iset_pidx, idx_ok_iset_pidx, H1. simpl. apply IH; auto; lia.
Qed.

Lemma renum_below l j a b : (j + length l <= a)%nat -> renum_from l j a b = l.
Proof.
  revert j; induction l as [|c l IH]; intros j H; simpl in *; auto.
  replace ((a <=? j)%nat) with false by (symmetry; apply Nat.leb_gt; lia). simpl. rewrite IH; auto; lia.
Qed.

Lemma renum_above l j a b : (b <= j)%nat -> renum_from l j a b = l.
Proof.
  revert j; induction l as [|c l IH]; intros j H; simpl in *; auto.
  replace ((j <? b)%nat) with false by (symmetry; apply Nat.ltb_ge; lia). rewrite andb_false_r, IH; auto; lia.
Qed.

(* ------------------------------------------------------------------------------------------------------------------ *)
(* Node.__setitem__ (slice, step 1): what it does to the erased list, and that it re-establishes the invariant for
   EVERY pair of bounds and EVERY value whose subtrees are fine *)

Lemma norm_bound_range len x : 0 <= len -> 0 <= norm_bound len x <= len.
Proof.
  intros H. unfold norm_bound.
  destruct (x <? 0) eqn:E1; [destruct (x + len <? 0) eqn:E2|destruct (len <? x) eqn:E3]; lia.
Qed.

Lemma norm_bound_in len x : 0 <= x <= len -> norm_bound len x = x.
Proof.
  intros H. unfold norm_bound.
  destruct (x <? 0) eqn:E1; [lia|]. destruct (len <? x) eqn:E3; lia.
Qed.

Lemma erase_setitem_slice p start stop value :
  let len := Z.of_nat (length (i_ch p)) in
  let s := norm_bound len start in
  let e := norm_bound len stop in
  erase (setitem_slice p start stop value) =
  set_ch (erase p) (firstn (Z.to_nat s) (t_ch (erase p)) ++ map erase value
                    ++ skipn (Z.to_nat (Z.max s e)) (t_ch (erase p))).
Proof.
  intros len s e. unfold setitem_slice. fold len. fold s. fold e.
  rewrite erase_iset_ch, t_ch_erase. f_equal.
  rewrite firstn_map', skipn_map', <- !map_app.
  destruct (negb _); [unfold renumber; apply map_erase_renum|].
  destruct (0 <? length value)%nat; [unfold renumber; apply map_erase_renum|reflexivity].
Qed.

Theorem setitem_slice_ok p start stop value :
  idx_ok p = true -> sub_ok value = true -> idx_ok (setitem_slice p start stop value) = true.
Proof.
  intros Hok Hv. rewrite idx_ok_ch in Hok. unfold setitem_slice. rewrite idx_ok_iset_ch.
  set (ch := i_ch p) in *. set (len := Z.of_nat (length ch)).
  pose proof (norm_bound_range len start ltac:(lia)) as Hs.
  pose proof (norm_bound_range len stop ltac:(lia)) as He.
  set (s := norm_bound len start) in *. set (e := norm_bound len stop) in *.
  assert (length (firstn (Z.to_nat s) ch) = Z.to_nat s) as HlA by (apply firstn_length_le; lia).
  assert (ch_ok (firstn (Z.to_nat s) ch) 0 = true) as HA by (apply ch_ok_firstn; auto).
  assert (sub_ok (skipn (Z.to_nat (Z.max s e)) ch) = true) as HsB
      by (apply forallb_skipn; eapply ch_ok_sub; eauto).
  destruct (Nat.eqb (length value) (Z.to_nat (e - s))) eqn:Hlen; cbn [negb].
  - apply Nat.eqb_eq in Hlen.
    destruct (0 <? length value)%nat eqn:Hpos.
    + apply Nat.ltb_lt in Hpos. assert (s < e) as Hse by lia.
      replace (Z.max s e) with e in * by lia.
      unfold renumber. rewrite !renum_app, !ch_ok_app, !length_renum, HlA. cbn [Nat.add].
      rewrite renum_below by lia. rewrite HA. cbn [andb].
      rewrite renum_all by (auto; lia). cbn [andb].
      rewrite renum_above by lia.
      replace (Z.to_nat s + length value)%nat with (0 + Z.to_nat e)%nat by lia.
      apply ch_ok_skipn. exact Hok.
    + apply Nat.ltb_ge in Hpos. assert (length value = 0%nat) as Hl0 by lia.
      destruct value; [|discriminate]. cbn [app].
      replace (Z.max s e) with s by lia. rewrite firstn_skipn. exact Hok.
  - unfold renumber. rewrite renum_app, ch_ok_app, length_renum, HlA. cbn [Nat.add].
    rewrite renum_below by lia. rewrite HA. cbn [andb].
    apply renum_all; [lia|rewrite !app_length; lia|].
    rewrite sub_ok_app, Hv, HsB. reflexivity.
Qed.

(* ------------------------------------------------------------------------------------------------------------------ *)
(* 1. Loop.unroll *)

Lemma nth_error_lt {A} (l : list A) k c : nth_error l k = Some c -> (k < length l)%nat.
Proof. intros H. apply nth_error_Some. congruence. Qed.

Theorem iunroll_refines : forall p k p', idx_ok p = true -> iunroll p k = Ok p' ->
  unroll_child (erase p) k = Ok (erase p') /\ idx_ok p' = true.
Proof.
  intros p k p' Hok H. unfold iunroll in H.
  destruct (nth_error (i_ch p) k) as [c|] eqn:Hn; [|discriminate].
  destruct (i_is_leaf c) eqn:Hl; [discriminate|].
  pose proof Hok as Hok'. rewrite idx_ok_ch in Hok'.
  destruct (ch_ok_nth _ _ _ _ Hok' Hn) as [Hp Hc]. cbn [Nat.add] in Hp.
  rewrite Hp in H. inversion H; subst p'; clear H.
  pose proof (nth_error_lt _ _ _ Hn) as Hk. split.
  - unfold unroll_child. rewrite t_ch_erase, nth_error_map', Hn. cbn [option_map].
    rewrite is_leaf_erase, Hl. f_equal. rewrite erase_setitem_slice, t_ch_erase.
    rewrite !norm_bound_in by lia. f_equal.
    replace (Z.max (Z.of_nat k) (Z.of_nat k + 1)) with (Z.of_nat (S k)) by lia.
    rewrite !Nat2Z.id. unfold unrolled. rewrite t_rep_erase, t_ch_erase, map_rep_list, map_erase_copy.
    reflexivity.
  - apply setitem_slice_ok; auto. apply forallb_rep_list. apply sub_ok_map_copy.
Qed.

Theorem iunroll_refines_err : forall p k e, idx_ok p = true -> iunroll p k = Err e ->
  unroll_child (erase p) k = Err e.
Proof.
  intros p k e Hok H. unfold iunroll in H. unfold unroll_child. rewrite t_ch_erase, nth_error_map'.
  destruct (nth_error (i_ch p) k) as [c|] eqn:Hn; cbn [option_map]; [|congruence].
  rewrite is_leaf_erase. destruct (i_is_leaf c); [congruence|].
  rewrite idx_ok_ch in Hok. destruct (ch_ok_nth _ _ _ _ Hok Hn) as [Hp _]. rewrite Hp in H. discriminate.
Qed.

(* the refinement is total: the two models succeed and fail together *)
Corollary iunroll_total_refinement : forall p k, idx_ok p = true ->
  match iunroll p k with
  | Ok p' => unroll_child (erase p) k = Ok (erase p') /\ idx_ok p' = true
  | Err e => unroll_child (erase p) k = Err e
  end.
Proof.
  intros p k Hok. destruct (iunroll p k) eqn:E; eauto using iunroll_refines, iunroll_refines_err.
Qed.

Corollary iunroll_preserves : forall p k p', tree_okb (erase p) = true -> idx_ok p = true -> iunroll p k = Ok p' ->
  pieces (erase p') = pieces (erase p) /\ (duration (erase p') == duration (erase p))%Q /\ idx_ok p' = true.
Proof.
  intros p k p' Ht Hok H. destruct (iunroll_refines _ _ _ Hok H) as [Hu Hi].
  destruct (unroll_preserves _ _ _ Ht Hu) as [H1 H2]. auto.
Qed.

(* ------------------------------------------------------------------------------------------------------------------ *)
(* 2. Loop.split_one_child *)

Lemma ilast_index_gt1_erase l i acc : ilast_index_gt1 l i acc = last_index_gt1 (map erase l) i acc.
Proof. revert i acc; induction l as [|c l IH]; intros i acc; simpl; auto. rewrite t_rep_erase. apply IH. Qed.

Definition split_at (t : tree) (k : nat) (c : tree) : tree :=
  let ch1 := update_nth (t_ch t) k (set_rep c (t_rep c - 1)) in
  set_ch t (firstn (S k) ch1 ++ [set_rep c 1] ++ skipn (S k) ch1).

Lemma isplit_at_refines p k c p' : idx_ok p = true -> nth_error (i_ch p) k = Some c -> isplit_at p k = Ok p' ->
  erase p' = split_at (erase p) k (erase c) /\ idx_ok p' = true.
Proof.
  intros Hok Hn H. unfold isplit_at in H. rewrite Hn in H. inversion H; subst p'; clear H.
  pose proof (nth_error_lt _ _ _ Hn) as Hk. split.
  - rewrite erase_setitem_slice. unfold split_at.
    assert (i_ch (iset_ch p (update_nth (i_ch p) k (iset_rep c (i_rep c - 1))))
            = update_nth (i_ch p) k (iset_rep c (i_rep c - 1))) as Hch by (destruct p; reflexivity).
    rewrite Hch, length_update_nth. rewrite !norm_bound_in by lia.
    rewrite erase_iset_ch. rewrite Z.max_id.
    replace (Z.to_nat (Z.of_nat k + 1)) with (S k) by lia.
    destruct p as [pp r w m ch]. cbn [erase set_ch t_ch i_ch] in *.
    rewrite map_update_nth, erase_iset_rep, t_rep_erase. cbn [map]. rewrite erase_iset_rep, erase_copy. reflexivity.
  - apply setitem_slice_ok.
    + rewrite idx_ok_iset_ch. rewrite idx_ok_ch in Hok. apply ch_ok_update_nth; auto.
    + unfold sub_ok. cbn [forallb]. rewrite idx_ok_iset_rep, idx_ok_copy. reflexivity.
Qed.

Theorem isplit_refines : forall p idx p', idx_ok p = true -> isplit p idx = Ok p' ->
  split_one_child (erase p) idx = Ok (erase p') /\ idx_ok p' = true.
Proof.
  intros p idx p' Hok H. unfold isplit in H. unfold split_one_child. rewrite t_ch_erase, map_length.
  destruct idx as [i|].
  - destruct (py_index (length (i_ch p)) i) as [k|]; [|discriminate].
    rewrite nth_error_map'. destruct (nth_error (i_ch p) k) as [c|] eqn:Hn; [|discriminate]. cbn [option_map].
    rewrite t_rep_erase. destruct (i_rep c <? 2); [discriminate|].
    destruct (isplit_at_refines _ _ _ _ Hok Hn H) as [He Hi]. split; auto.
    rewrite He. unfold split_at. rewrite t_ch_erase, ?t_rep_erase. reflexivity.
  - rewrite <- ilast_index_gt1_erase.
    destruct (ilast_index_gt1 (i_ch p) 0 None) as [k|]; [|discriminate].
    rewrite nth_error_map'. destruct (nth_error (i_ch p) k) as [c|] eqn:Hn; cbn [option_map].
    + destruct (isplit_at_refines _ _ _ _ Hok Hn H) as [He Hi]. split; auto.
      rewrite He. unfold split_at. rewrite t_ch_erase, ?t_rep_erase. reflexivity.
    + unfold isplit_at in H. rewrite Hn in H. discriminate.
Qed.

Theorem isplit_refines_err : forall p idx e, isplit p idx = Err e -> split_one_child (erase p) idx = Err e.
Proof.
  intros p idx e H. unfold isplit in H. unfold split_one_child. rewrite t_ch_erase, map_length.
  destruct idx as [i|].
  - destruct (py_index (length (i_ch p)) i) as [k|]; [|congruence].
    rewrite nth_error_map'. destruct (nth_error (i_ch p) k) as [c|] eqn:Hn; cbn [option_map]; [|congruence].
    rewrite t_rep_erase. destruct (i_rep c <? 2); [congruence|].
    unfold isplit_at in H. rewrite Hn in H. discriminate.
  - rewrite <- ilast_index_gt1_erase.
    destruct (ilast_index_gt1 (i_ch p) 0 None) as [k|]; [|congruence].
    rewrite nth_error_map'. unfold isplit_at in H.
    destruct (nth_error (i_ch p) k) as [c|] eqn:Hn; cbn [option_map]; [discriminate|congruence].
Qed.

Corollary isplit_preserves : forall p idx p', tree_okb (erase p) = true -> idx_ok p = true -> isplit p idx = Ok p' ->
  pieces (erase p') = pieces (erase p) /\ (duration (erase p') == duration (erase p))%Q /\ idx_ok p' = true.
Proof.
  intros p idx p' Ht Hok H. destruct (isplit_refines _ _ _ Hok H) as [Hu Hi].
  destruct (split_one_child_preserves _ _ _ Ht Hu) as [H1 H2]. auto.
Qed.

(* ------------------------------------------------------------------------------------------------------------------ *)
(* 4. Loop.unroll_children, Loop.encapsulate, Node._reverse_children *)

Theorem iunroll_children_refines : forall t t', idx_ok t = true -> iunroll_children t = Ok t' ->
  unroll_children_op (erase t) = Ok (erase t') /\ idx_ok t' = true.
Proof.
  intros t t' Hok H. unfold iunroll_children in H. unfold unroll_children_op. rewrite is_leaf_erase.
  destruct (i_is_leaf t) eqn:Hl; [discriminate|]. inversion H; subst t'; clear H. split.
  - f_equal. rewrite erase_iset_rep, erase_setitem_slice, t_ch_erase.
    rewrite !norm_bound_in by lia. rewrite map_rep_list, map_erase_copy.
    replace (Z.max 0 (Z.of_nat (length (i_ch t)))) with (Z.of_nat (length (i_ch t))) by lia.
    rewrite Nat2Z.id. change (Z.to_nat 0) with 0%nat. cbn [firstn app].
    rewrite <- (map_length erase (i_ch t)), skipn_all, app_nil_r.
    destruct t as [p r w m ch]. reflexivity.
  - rewrite idx_ok_iset_rep. apply setitem_slice_ok; auto. apply forallb_rep_list. apply sub_ok_map_copy.
Qed.

Theorem iunroll_children_refines_err : forall t e, iunroll_children t = Err e -> unroll_children_op (erase t) = Err e.
Proof.
  intros t e H. unfold iunroll_children in H. unfold unroll_children_op. rewrite is_leaf_erase.
  destruct (i_is_leaf t); [congruence|discriminate].
Qed.

Theorem iencapsulate_refines : forall t, idx_ok t = true ->
  erase (iencapsulate t) = encapsulate (erase t) /\ idx_ok (iencapsulate t) = true.
Proof.
  intros t Hok. unfold iencapsulate.
  assert (idx_ok (node_init (i_rep t) (i_wf t) (i_meas t) (i_ch t)) = true) as Hinner.
  { unfold node_init. rewrite idx_ok_unfold. apply ch_ok_number. rewrite idx_ok_ch in Hok. eapply ch_ok_sub; eauto. }
  pose proof (setitem_slice_ok t 0 (Z.of_nat (length (i_ch t)))
                [node_init (i_rep t) (i_wf t) (i_meas t) (i_ch t)] Hok) as Hs.
  pose proof (erase_setitem_slice t 0 (Z.of_nat (length (i_ch t)))
                [node_init (i_rep t) (i_wf t) (i_meas t) (i_ch t)]) as He. cbv zeta in He.
  set (t1 := setitem_slice t 0 (Z.of_nat (length (i_ch t))) [node_init (i_rep t) (i_wf t) (i_meas t) (i_ch t)]) in *.
  split.
  - rewrite !norm_bound_in in He by lia.
    replace (Z.max 0 (Z.of_nat (length (i_ch t)))) with (Z.of_nat (length (i_ch t))) in He by lia.
    rewrite Nat2Z.id in He. change (Z.to_nat 0) with 0%nat in He. cbn [firstn app map] in He.
    rewrite t_ch_erase in He. rewrite <- (map_length erase (i_ch t)), skipn_all in He.
    destruct t1 as [p1 r1 w1 m1 ch1]. destruct t as [p r w m ch]. cbn [erase set_ch i_pidx i_ch] in *.
    inversion He as [[H0 H1 H2 H3]]. cbn [encapsulate]. rewrite H3, map_erase_number. reflexivity.
  - rewrite idx_ok_unfold. rewrite <- idx_ok_ch. apply Hs. unfold sub_ok. cbn [forallb]. rewrite Hinner. reflexivity.
Qed.

(* Node._reverse_children after the repair a356242 re-establishes the invariant (whatever was recorded before) *)
Theorem reverse_children_ok : forall t, sub_ok (i_ch t) = true -> idx_ok (reverse_children t) = true.
Proof.
  intros t H. unfold reverse_children. rewrite idx_ok_iset_ch. apply ch_ok_number.
  unfold sub_ok in *. rewrite forallb_forall in *. intros x Hx. apply H. apply in_rev. exact Hx.
Qed.

(* ------------------------------------------------------------------------------------------------------------------ *)
(* every pure tree has a well-indexed representation (the refinement relation is onto) *)

Theorem index_tree_ok : forall t, erase (index_tree t) = t /\ idx_ok (index_tree t) = true.
Proof. intros t. split; [apply erase_index_tree|apply idx_ok_index_tree]. Qed.

(* ------------------------------------------------------------------------------------------------------------------ *)
(* 3. the invariant is exactly what the pure model assumes: with a stale recorded index (what _reverse_children left
   behind before a356242: the list reversed, the recorded indices not) Loop.unroll succeeds and changes the pulse *)

Definition ex_ip : itree := index_tree (Node 1 None [] [ex_leaf 3 1; Node 2 None [] [ex_leaf 1 1; ex_leaf 2 1]]).
Definition ex_stale : itree := reverse_children_stale ex_ip.

Example ex_ip_ok : idx_ok ex_ip = true /\ tree_okb (erase ex_ip) = true.
Proof. split; reflexivity. Qed.
Example ex_stale_not_ok : idx_ok ex_stale = false /\ tree_okb (erase ex_stale) = true.
Proof. split; reflexivity. Qed.

Theorem iunroll_stale_refuted : exists p k p',
  tree_okb (erase p) = true /\ idx_ok p = false /\ iunroll p k = Ok p' /\ pieces (erase p') <> pieces (erase p)
  /\ unroll_child (erase p) k <> Ok (erase p').
Proof.
  exists ex_stale, 0%nat. eexists. split; [reflexivity|]. split; [reflexivity|].
  split; [vm_compute; reflexivity|]. split; vm_compute; discriminate.
Qed.

(* the same tree after the repaired _reverse_children: unroll is fine *)
Example ex_reverse_repaired : exists p',
  idx_ok (reverse_children ex_ip) = true /\ iunroll (reverse_children ex_ip) 0 = Ok p'
  /\ pieces (erase p') = pieces (erase (reverse_children ex_ip)) /\ idx_ok p' = true.
Proof. eexists. split; [reflexivity|]. split; [vm_compute; reflexivity|]. split; reflexivity. Qed.

(* non-vacuity of 1 and 2 (and 4) *)
Definition ex_ip2 : itree := index_tree ex_tree.

Example ex_iunroll : exists p', idx_ok ex_ip2 = true /\ tree_okb (erase ex_ip2) = true /\
  iunroll ex_ip2 1 = Ok p' /\ erase p' <> erase ex_ip2 /\ length (i_ch p') = 7%nat.
Proof. eexists. split; [reflexivity|]. split; [reflexivity|]. split; [vm_compute; reflexivity|]. split; [discriminate|reflexivity]. Qed.

Example ex_isplit : exists p', isplit ex_ip2 None = Ok p' /\ erase p' <> erase ex_ip2 /\ length (i_ch p') = 3%nat.
Proof. eexists. split; [vm_compute; reflexivity|]. split; [discriminate|reflexivity]. Qed.

Example ex_isplit_neg : exists p', isplit ex_ip2 (Some (-1)) = Ok p' /\ erase p' <> erase ex_ip2 /\ idx_ok p' = true.
Proof. eexists. split; [vm_compute; reflexivity|]. split; [discriminate|reflexivity]. Qed.

Example ex_iunroll_children : exists p', iunroll_children ex_ip2 = Ok p' /\ length (i_ch p') = 4%nat /\ idx_ok p' = true.
Proof. eexists. split; [vm_compute; reflexivity|]. split; reflexivity. Qed.

Example ex_iunroll_errors :
  iunroll ex_ip2 0 = Err ERuntime /\ iunroll ex_ip2 5 = Err EIndex
  /\ iunroll (iset_ch ex_ip2 (map copy (i_ch ex_ip2))) 1 = Err EDomain.
Proof. repeat split. Qed.
