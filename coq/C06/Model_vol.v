(* C06 — volatile repetition counts (qupulse.program.volatile.VolatileRepetitionCount) in the structural rewrites of
   qupulse/program/loop.py (definitions only).

   [vtree] is the program tree of Model.v whose repetition definition is [Fixed n] (a plain int) or [Volatile n tag]
   (a VolatileRepetitionCount whose current value int(...) is [n]; [tag] names the expression it evaluates: a volatile
   parameter, an expression times an int, a product of two expressions — the three forms _merge_single_child builds).
   [erase] forgets the distinction (what the program plays now); [inst env] re-evaluates every volatile count under new
   values of the volatile parameters (what the program plays after an update of the volatile parameters).

   The rewrites that look at volatility are mirrored from the code:
     _has_single_child_that_can_be_merged / _merge_single_child   (a measured parent absorbs only a FIXED count 1),
     split_one_child                                              (prefers a non-volatile child; the setters freeze both parts),
     unroll / unroll_children / split_one_child                   (VolatileModificationWarning),
     encapsulate (the inner node keeps the definition), cleanup, flatten_and_balance (built from the above).
   make_compatible / roll_constant_waveforms on volatile programs are modelled at the end of this file
   ([vis_compatible_w], [vmake_compatible_rec_w], [vmake_compatible_w] with the VolatileModificationWarning flag,
   [vroll_constant_waveforms]). *)
From Coq Require Import ZArith QArith List Bool.
Require Import QV.C06.Model.
Import ListNotations.
Open Scope Z_scope.

Inductive vtag := VVar (id : N) | VScale (t : vtag) (k : Z) | VProd (a b : vtag).

Inductive rep := Fixed (n : Z) | Volatile (n : Z) (tag : vtag).

Definition rv (r : rep) : Z := match r with Fixed n => n | Volatile n _ => n end.     (* Loop.repetition_count *)
Definition is_vol (r : rep) : bool := match r with Fixed _ => false | Volatile _ _ => true end.   (* bool(volatile_repetition) *)

(* the four cases of _merge_single_child: int * int, child_definition * int, parent_definition * int,
   VolatileRepetitionCount.operation('parent_repetition_count * child_repetition_count') *)
Definition rep_mul (p c : rep) : rep :=
  match p, c with
  | Fixed a, Fixed b => Fixed (a * b)
  | Fixed a, Volatile b t => Volatile (a * b) (VScale t a)
  | Volatile a t, Fixed b => Volatile (a * b) (VScale t b)
  | Volatile a t, Volatile b u => Volatile (a * b) (VProd t u)
  end.

Fixpoint eval_tag (env : N -> Z) (t : vtag) : Z :=
  match t with
  | VVar i => env i
  | VScale u k => eval_tag env u * k
  | VProd a b => eval_tag env a * eval_tag env b
  end.

Definition rv_env (env : N -> Z) (r : rep) : Z := match r with Fixed n => n | Volatile _ t => eval_tag env t end.

Inductive vtree : Type := VNode (r : rep) (w : option wf) (meas : list N) (ch : list vtree).

Definition v_rep (t : vtree) := let 'VNode r _ _ _ := t in r.
Definition v_wf (t : vtree) := let 'VNode _ w _ _ := t in w.
Definition v_meas (t : vtree) := let 'VNode _ _ m _ := t in m.
Definition v_ch (t : vtree) := let 'VNode _ _ _ c := t in c.
Definition vset_ch (t : vtree) (c : list vtree) := let 'VNode r w m _ := t in VNode r w m c.
Definition vset_rep (t : vtree) (r : rep) := let 'VNode _ w m c := t in VNode r w m c.
Definition v_is_leaf (t : vtree) : bool := match v_ch t with [] => true | _ => false end.
Definition v_has_wf (t : vtree) : bool := match v_wf t with Some _ => true | None => false end.
Definition v_has_meas (t : vtree) : bool := match v_meas t with [] => false | _ => true end.

Fixpoint erase (t : vtree) : tree :=
  match t with VNode r w m ch => Node (rv r) w m (map erase ch) end.

Fixpoint inst (env : N -> Z) (t : vtree) : tree :=
  match t with VNode r w m ch => Node (rv_env env r) w m (map (inst env) ch) end.

(* the stored current values are the values of the expressions under [env] *)
Fixpoint consistent (env : N -> Z) (t : vtree) : bool :=
  match t with VNode r _ _ ch => (rv r =? rv_env env r) && forallb (consistent env) ch end.

Fixpoint any_volatile (t : vtree) : bool :=
  match t with VNode r _ _ ch => is_vol r || existsb any_volatile ch end.

(* ------------------------------------------------------------------------------------------------------------------ *)
(* unroll / unroll_children / encapsulate: copies keep their repetition definition (copy_tree_structure passes
   _repetition_definition); `self.repetition_count = 1` stores the int 1 *)
Definition vunrolled (c : vtree) : list vtree := rep_list (Z.to_nat (rv (v_rep c))) (v_ch c).

Definition vunroll_child (p : vtree) (i : nat) : result vtree :=
  match nth_error (v_ch p) i with
  | None => Err EIndex
  | Some c => if v_is_leaf c then Err ERuntime
              else Ok (vset_ch p (firstn i (v_ch p) ++ vunrolled c ++ skipn (S i) (v_ch p)))
  end.

(* "Unrolling a Loop with volatile repetition count" is warned iff the unrolled node is volatile (after the leaf test) *)
Definition vunroll_child_warns (p : vtree) (i : nat) : bool :=
  match nth_error (v_ch p) i with
  | Some c => negb (v_is_leaf c) && is_vol (v_rep c)
  | None => false
  end.

Definition vunroll_children (t : vtree) : vtree :=
  let 'VNode r w m ch := t in VNode (Fixed 1) w m (rep_list (Z.to_nat (rv r)) ch).

Definition vunroll_children_op (t : vtree) : result vtree :=
  if v_is_leaf t then Err ERuntime else Ok (vunroll_children t).

Definition vunroll_children_warns (t : vtree) : bool := negb (v_is_leaf t) && is_vol (v_rep t).

Definition vencapsulate (t : vtree) : vtree :=
  let 'VNode r w m ch := t in VNode (Fixed 1) None [] [VNode r w m ch].

(* ------------------------------------------------------------------------------------------------------------------ *)
(* split_one_child.  Search (child_index = None): walking from the right, the first child with count > 1 that is NOT
   volatile wins; a volatile child with count > 1 is only remembered (the rightmost one) and used when no fixed one
   exists.  [vsplit_search l 0 None None] scans from the left and keeps the last of each kind, which is the same choice. *)
Fixpoint vsplit_search (l : list vtree) (i : nat) (accf accv : option nat) : option nat :=
  match l with
  | [] => match accf with Some k => Some k | None => accv end
  | c :: r =>
      if 1 <? rv (v_rep c)
      then (if is_vol (v_rep c) then vsplit_search r (S i) accf (Some i) else vsplit_search r (S i) (Some i) accv)
      else vsplit_search r (S i) accf accv
  end.

(* the index the split is applied to, or the error the code raises before touching anything *)
Definition vsplit_index (t : vtree) (idx : option Z) : result nat :=
  let ch := v_ch t in
  match idx with
  | Some i =>
      match py_index (length ch) i with
      | None => Err EIndex
      | Some k => match nth_error ch k with
                  | None => Err EIndex
                  | Some c => if rv (v_rep c) <? 2 then Err EValue else Ok k
                  end
      end
  | None => match vsplit_search ch 0 None None with
            | None => Err ERuntime
            | Some k => Ok k
            end
  end.

(* new_child.repetition_count = 1 ; self[child_index].repetition_count -= 1 : both setters store plain ints, a volatile
   definition is dropped (that is what the warning is about) *)
Definition vsplit_at (t : vtree) (k : nat) : result vtree :=
  let ch := v_ch t in
  match nth_error ch k with
  | None => Err EIndex
  | Some c =>
      let ch1 := update_nth ch k (vset_rep c (Fixed (rv (v_rep c) - 1))) in
      Ok (vset_ch t (firstn (S k) ch1 ++ [vset_rep c (Fixed 1)] ++ skipn (S k) ch1))
  end.

Definition vsplit_one_child (t : vtree) (idx : option Z) : result vtree :=
  bind (vsplit_index t idx) (vsplit_at t).

Definition vsplit_warns (t : vtree) (idx : option Z) : bool :=
  match vsplit_index t idx with
  | Ok k => match nth_error (v_ch t) k with Some c => is_vol (v_rep c) | None => false end
  | Err _ => false
  end.

(* ------------------------------------------------------------------------------------------------------------------ *)
(* _has_single_child_that_can_be_merged / _merge_single_child *)
Definition fixed_one (r : rep) : bool := (rv r =? 1) && negb (is_vol r).

Definition vmergeable (t : vtree) : bool :=
  match v_ch t with
  | [c] => negb (v_has_meas t) || fixed_one (v_rep c)
  | _ => false
  end.

Definition vmerge_single_child (t : vtree) : result vtree :=
  match t with
  | VNode r w m [VNode cr cw cm cch] =>
      if v_has_meas t && negb (fixed_one cr) then Err EAssert
      else match w with
           | Some _ => Err EAssert
           | None => Ok (VNode (rep_mul r cr) cw (cm ++ m) cch)
           end
  | _ => Err EAssert
  end.

Fixpoint vcleanup (rm mg : bool) (t : vtree) : result vtree :=
  match t with
  | VNode r w m ch =>
      bind ((fix go (l : list vtree) : result (list vtree) :=
               match l with
               | [] => Ok []
               | c :: rest =>
                   bind (if rm then
                           if v_is_leaf c then Ok (if v_has_wf c then [c] else [])
                           else bind (vcleanup rm mg c)
                                     (fun c' => Ok (if v_has_wf c' || negb (v_is_leaf c') then [c'] else []))
                         else bind (vcleanup rm mg c) (fun c' => Ok [c']))
                        (fun cs => bind (go rest) (fun rs => Ok (cs ++ rs)))
               end) ch)
           (fun ch' => let t' := VNode r w m ch' in
                       if mg && vmergeable t' then vmerge_single_child t' else Ok t')
  end.

(* ------------------------------------------------------------------------------------------------------------------ *)
(* flatten_and_balance (same loop as Model.fab_list; depth/balance do not look at counts) *)
Definition vdepth (t : vtree) : Z := depth (erase t).
Definition vbalanced (t : vtree) : bool := balanced (erase t).

Fixpoint vfab_list (fuel : nat) (d : Z) (todo : list vtree) : result (list vtree) :=
  match fuel with
  | O => Err OutOfFuel
  | S f =>
      match todo with
      | [] => Ok []
      | sub :: rest =>
          if vdepth sub <? d - 1 then vfab_list f d (vencapsulate sub :: rest)
          else if negb (vbalanced sub) then
                 bind (vfab_list f (d - 1) (v_ch sub)) (fun cs => vfab_list f d (vset_ch sub cs :: rest))
          else if vdepth sub =? d - 1 then bind (vfab_list f d rest) (fun r => Ok (sub :: r))
          else if vmergeable sub then bind (vmerge_single_child sub) (fun s => vfab_list f d (s :: rest))
          else if negb (v_is_leaf sub) then vfab_list f d (vunrolled sub ++ rest)
          else bind (vfab_list f d rest) (fun r => Ok (sub :: r))
      end
  end.

Definition vflatten_and_balance (fuel : nat) (d : Z) (t : vtree) : result vtree :=
  bind (vfab_list fuel d (v_ch t)) (fun cs => Ok (vset_ch t cs)).

(* the same loop, also reporting whether some `unroll` step met a volatile count (VolatileModificationWarning);
   [Proofs_vol.vfab_list_w_fst] ties it to [vfab_list] *)
Fixpoint vfab_list_w (fuel : nat) (d : Z) (todo : list vtree) : result (list vtree * bool) :=
  match fuel with
  | O => Err OutOfFuel
  | S f =>
      match todo with
      | [] => Ok ([], false)
      | sub :: rest =>
          if vdepth sub <? d - 1 then vfab_list_w f d (vencapsulate sub :: rest)
          else if negb (vbalanced sub) then
                 bind (vfab_list_w f (d - 1) (v_ch sub))
                      (fun cw => bind (vfab_list_w f d (vset_ch sub (fst cw) :: rest))
                                      (fun rw => Ok (fst rw, snd cw || snd rw)))
          else if vdepth sub =? d - 1 then bind (vfab_list_w f d rest) (fun rw => Ok (sub :: fst rw, snd rw))
          else if vmergeable sub then bind (vmerge_single_child sub) (fun s => vfab_list_w f d (s :: rest))
          else if negb (v_is_leaf sub) then
                 bind (vfab_list_w f d (vunrolled sub ++ rest)) (fun rw => Ok (fst rw, is_vol (v_rep sub) || snd rw))
          else bind (vfab_list_w f d rest) (fun rw => Ok (sub :: fst rw, snd rw))
      end
  end.

Definition vflatten_and_balance_w (fuel : nat) (d : Z) (t : vtree) : result (vtree * bool) :=
  bind (vfab_list_w fuel d (v_ch t)) (fun cw => Ok (vset_ch t (fst cw), snd cw)).

(* postcondition of cleanup('merge_single_child') with volatile counts: nothing below is mergeable in the code's sense *)
Fixpoint v_none_mergeable (t : vtree) : bool :=
  match t with VNode r w m ch => negb (vmergeable (VNode r w m ch)) && forallb v_none_mergeable ch end.

(* ------------------------------------------------------------------------------------------------------------------ *)
(* _is_compatible / _make_compatible / make_compatible / roll_constant_waveforms with volatile counts.
   The second component of the results is "a VolatileModificationWarning was emitted during the call". *)

(* _is_compatible: the level depends on the current values only ([Proofs_vol_mc.vis_compatible_level]); the three early
   returns and the ZeroDivisionError happen before any child is visited; `all(...)` stops at the first child that is
   not compatible *)
Fixpoint vis_compatible_w (min_len quantum : Z) (sr : Q) (t : vtree) : result (comp_level * bool) :=
  let dur_samples := (duration (erase t) * sr)%Q in
  if negb (q_is_int dur_samples) then Ok (IncompFraction, false)
  else if Qle_bool (inject_Z min_len) dur_samples then
    if quantum =? 0 then Err EZeroDiv
    else if 0 <? (q_int dur_samples) mod quantum then Ok (IncompQuantum, false)
    else
      match t with
      | VNode r _ _ [] =>
          let wd := (body_duration (erase t) * sr)%Q in
          if negb (Qle_bool (inject_Z min_len) wd) || negb (q_is_int (wd / inject_Z quantum))
          then Ok (ActionRequired, is_vol r)
          else Ok (Compatible, false)
      | VNode r _ _ ch =>
          (fix go (l : list vtree) : result (comp_level * bool) :=
             match l with
             | [] => Ok (Compatible, false)
             | c :: rest =>
                 bind (vis_compatible_w min_len quantum sr c)
                      (fun lw => if comp_level_eqb (fst lw) Compatible
                                 then bind (go rest) (fun r' => Ok (fst r', snd lw || snd r'))
                                 else Ok (ActionRequired, snd lw || is_vol r))
             end) ch
      end
  else Ok (IncompTooShort, false).

(* comp_levels = [_is_compatible(sub_program, ...) for sub_program in program] *)
Fixpoint vmc_levels (min_len quantum : Z) (sr : Q) (l : list vtree) : result (list (comp_level * bool)) :=
  match l with
  | [] => Ok []
  | c :: rest => bind (vis_compatible_w min_len quantum sr c)
                      (fun lw => bind (vmc_levels min_len quantum sr rest) (fun ls => Ok (lw :: ls)))
  end.

(* _make_compatible.  Leaf: `program.repetition_count = 1` stores an int (volatility dropped).  Merge of all children:
   in the "keep" case the node keeps its repetition DEFINITION (a volatile count stays volatile), otherwise the count
   is unrolled into the waveform and becomes the int 1.
   [rp] selects which _make_compatible is described: [false] = the code up to round 3 (the merge emits no warning of
   its own: only what _is_compatible reported about the children), [true] = the repaired code (round 4): before the
   children are concatenated, `_contains_volatile_repetition(program)` (a volatile count strictly below the merged node)
   emits a VolatileModificationWarning.  [Corr.REPAIRED] says which one /repo has. *)
Fixpoint vmake_compatible_rec_w (rp : bool) (min_len quantum : Z) (sr : Q) (t : vtree) : result (vtree * bool) :=
  match t with
  | VNode r w m [] => bind (to_waveform (erase t)) (fun x => Ok (VNode (Fixed 1) (Some x) m [], false))
  | VNode r w m ch =>
      bind (vmc_levels min_len quantum sr ch)
           (fun lws =>
              let wl := existsb snd lws in
              if existsb (fun lw => is_incompatible (fst lw)) lws then
                if rv r =? 0 then Err EZeroDiv
                else
                  let single_run := (duration (erase t) * sr / inject_Z (rv r))%Q in
                  let keep := q_is_int (single_run / inject_Z quantum) && Qle_bool (inject_Z min_len) single_run in
                  bind (to_waveform (Node (if keep then 1 else rv r) w m (map erase ch)))
                       (fun x => Ok (VNode (if keep then r else Fixed 1) (Some x) m [],
                                     wl || (rp && existsb any_volatile ch)))
              else
                bind ((fix go (l : list vtree) (ls : list (comp_level * bool)) : result (list vtree * bool) :=
                         match l, ls with
                         | c :: rest, lw :: lr =>
                             bind (if comp_level_eqb (fst lw) ActionRequired
                                   then vmake_compatible_rec_w rp min_len quantum sr c else Ok (c, false))
                                  (fun cw => bind (go rest lr) (fun rw => Ok (fst cw :: fst rw, snd cw || snd rw)))
                         | _, _ => Ok ([], false)
                         end) ch lws)
                     (fun cw => Ok (VNode r w m (fst cw), wl || snd cw)))
  end.

Definition vmake_compatible_w (rp : bool) (min_len quantum : Z) (sr : Q) (t : vtree) : result (vtree * bool) :=
  bind (vis_compatible_w min_len quantum sr t)
       (fun lw => match fst lw with
                  | IncompFraction | IncompTooShort | IncompQuantum => Err EValue
                  | ActionRequired => bind (vmake_compatible_rec_w rp min_len quantum sr t)
                                           (fun tw => Ok (fst tw, snd lw || snd tw))
                  | Compatible => Ok (t, snd lw)
                  end).

(* roll_constant_waveforms: decides from the waveform only; `program.repetition_definition * additional_repetition_count`
   (VolatileRepetitionCount.__mul__ keeps the scope and multiplies the expression) *)
Fixpoint vroll_constant_waveforms (min_quanta quantum : Z) (sr : Q) (t : vtree) : result vtree :=
  match t with
  | VNode r (Some x) _ [] =>
      if quantum =? 0 then Err EZeroDiv
      else
        let wqq := (wf_dur x * sr / inject_Z quantum)%Q in
        if negb (q_is_int wqq) then Ok (VNode r (Some x) [] [])
        else
        let wq := q_int wqq in
        if wq <? min_quanta * 2 then Ok (VNode r (Some x) [] [])
        else match cvd x with
             | None => Ok (VNode r (Some x) [] [])
             | Some v =>
                 bind (smallest_factor_ge wq min_quanta)
                      (fun nq => if nq =? wq then Ok (VNode r (Some x) [] [])
                                 else Ok (VNode (match r with
                                                 | Fixed n => Fixed (n * (wq / nq))
                                                 | Volatile n tg => Volatile (n * (wq / nq)) (VScale tg (wq / nq))
                                                 end)
                                                (Some (WConst (Qred (inject_Z quantum * inject_Z nq / sr)) v)) [] []))
             end
  | VNode r w _ ch =>
      bind ((fix go (l : list vtree) : result (list vtree) :=
               match l with
               | [] => Ok []
               | c :: rest => bind (vroll_constant_waveforms min_quanta quantum sr c)
                                   (fun c' => bind (go rest) (fun rs => Ok (c' :: rs)))
               end) ch)
           (fun ch' => Ok (VNode r w [] ch'))
  end.

(* number of nodes whose count is volatile *)
Fixpoint vol_count (t : vtree) : nat :=
  match t with VNode r _ _ ch => ((if is_vol r then 1 else 0) + list_sum (map vol_count ch))%nat end.

(* executable guard of [Proofs_vol_mc.vmake_compatible_faithful]: make_compatible lost a volatile count *)
Definition vmc_loses_count (rp : bool) (min_len quantum : Z) (sr : Q) (t : vtree) : bool :=
  match vmake_compatible_w rp min_len quantum sr t with
  | Ok (t', _) => negb (vol_count t' =? vol_count t)%nat
  | Err _ => false
  end.
