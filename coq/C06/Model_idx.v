(* C06 — refinement layer between the pure tree of Model.v and the bookkeeping of qupulse.utils.tree.Node
   (definitions only, executable).

   Model.v applies [unroll_child p i] "at list position i".  The code (Loop.unroll) does not know a position: it reads
   the RECORDED field [self.parent_index] (Node.__parent_index) and assigns the slice [i:i+1] of the parent's child list.
   The recorded indices are written by Node.__init__, by the renumbering rule of Node.__setitem__ and by
   Node._reverse_children.  [itree] is the pure tree plus exactly this piece of heap state: every node carries its
   recorded index.  Parent pointers, aliasing and the duration cache are not needed here (C09's subject): Loop.unroll
   reads [self.parent_index] and then works only on the child list of [self.parent]; split_one_child, unroll_children
   and encapsulate read no recorded index at all, they only write them through Node.__setitem__ / Node.__init__.

   Every operation is written from the point of view of the node whose child list is modified ([p] = self.parent for
   unroll, = self for the others).  Errors use Model.err: RuntimeError = ERuntime, IndexError = EIndex,
   ValueError = EValue, TypeError (parent_index is None: `None + 1`) = EDomain.

   Restrictions (documented, not silently defaulted):
   * slices have integer bounds and step 1 (all that loop.py uses: [i:i+1], [k+1:k+1], [:] = [0:len]); the bounds are
     normalised exactly as Python's slice.indices / PySlice_AdjustIndices for ALL integers (negative, beyond the end,
     stop < start), so stale recorded indices are executed faithfully;
   * repetition counts are plain integers (no VolatileRepetitionCount: the search of split_one_child is the
     non-volatile branch, as in Model.split_one_child);
   * measurements are the abstract [list N] of Model.v (None and [] identified, as there). *)
From Coq Require Import ZArith QArith List Bool.
Require Import QV.C06.Model.
Import ListNotations.
Open Scope Z_scope.

(* ------------------------------------------------------------------------------------------------------------------ *)
(* trees with recorded parent_index *)

Inductive itree : Type := INode (pidx : option Z) (rep : Z) (w : option wf) (meas : list N) (ch : list itree).

Definition i_pidx (t : itree) := let 'INode p _ _ _ _ := t in p.
Definition i_rep (t : itree) := let 'INode _ r _ _ _ := t in r.
Definition i_wf (t : itree) := let 'INode _ _ w _ _ := t in w.
Definition i_meas (t : itree) := let 'INode _ _ _ m _ := t in m.
Definition i_ch (t : itree) := let 'INode _ _ _ _ c := t in c.
Definition iset_pidx (t : itree) (x : option Z) := let 'INode _ r w m c := t in INode x r w m c.
Definition iset_rep (t : itree) (r : Z) := let 'INode p _ w m c := t in INode p r w m c.
Definition iset_ch (t : itree) (c : list itree) := let 'INode p r w m _ := t in INode p r w m c.
Definition i_is_leaf (t : itree) : bool := match i_ch t with [] => true | _ => false end.

(* forget the recorded indices *)
Fixpoint erase (t : itree) : tree :=
  match t with INode _ r w m ch => Node r w m (map erase ch) end.

(* C09's structural invariant restricted to what the rewrites read: the child at list position j records
   parent_index = j, recursively.  The root's own recorded index is unconstrained (it belongs to ITS parent). *)
Definition pidx_is (t : itree) (j : nat) : bool :=
  match i_pidx t with Some z => z =? Z.of_nat j | None => false end.

Fixpoint idx_ok (t : itree) : bool :=
  match t with
  | INode _ _ _ _ ch =>
      (fix go (l : list itree) (j : nat) : bool :=
         match l with
         | [] => true
         | c :: r => pidx_is c j && idx_ok c && go r (S j)
         end) ch O
  end.

(* the same test for a child list that starts at position j (idx_ok (INode _ _ _ _ ch) = ch_ok ch 0) *)
Fixpoint ch_ok (l : list itree) (j : nat) : bool :=
  match l with
  | [] => true
  | c :: r => pidx_is c j && idx_ok c && ch_ok r (S j)
  end.

(* the subtrees are fine, the nodes' own recorded indices are arbitrary (freshly built / copied / moved nodes) *)
Definition sub_ok (l : list itree) : bool := forallb idx_ok l.

(* ------------------------------------------------------------------------------------------------------------------ *)
(* Node.__init__ / copy_tree_structure *)

(* for i, child in enumerate(self.__children): self.__children[i].__parent_index = i   (list starts at position j) *)
Fixpoint number (l : list itree) (j : nat) : list itree :=
  match l with
  | [] => []
  | c :: r => iset_pidx c (Some (Z.of_nat j)) :: number r (S j)
  end.

(* Node.__init__(children = existing nodes): self.__parent_index = None, the children are numbered 0.. *)
Definition node_init (rep : Z) (w : option wf) (meas : list N) (children : list itree) : itree :=
  INode None rep w meas (number children O).

(* Loop.copy_tree_structure: type(self)(..., children=(child.copy_tree_structure() for child in self)) *)
Fixpoint copy (t : itree) : itree :=
  match t with INode _ r w m ch => INode None r w m (number (map copy ch) O) end.

(* the canonical well-indexed representation of a pure tree (what Loop(children=[...]) builds) *)
Fixpoint index_tree (t : tree) : itree :=
  match t with Node r w m ch => INode None r w m (number (map index_tree ch) O) end.

(* ------------------------------------------------------------------------------------------------------------------ *)
(* Node.__setitem__, slice branch, step 1 *)

(* one bound of slice.indices(len) for step > 0 (PySlice_AdjustIndices) *)
Definition norm_bound (len x : Z) : Z :=
  if x <? 0 then (if x + len <? 0 then 0 else x + len)
  else (if len <? x then len else x).

(* for index in range(a, b): self.__children[index].__parent_index = index      ([l] starts at position j) *)
Fixpoint renum_from (l : list itree) (j a b : nat) : list itree :=
  match l with
  | [] => []
  | c :: r => (if (a <=? j)%nat && (j <? b)%nat then iset_pidx c (Some (Z.of_nat j)) else c) :: renum_from r (S j) a b
  end.
Definition renumber (l : list itree) (a b : nat) : list itree := renum_from l O a b.

(*  value = tuple(self.parse_child(child) for child in value)      (parse_child: re-parent only; parent not modelled)
    indices = range of idx.indices(len(self.__children))           (start, stop normalised by [norm_bound], step 1)
    self.__children.__setitem__(idx, value)                        (list: l[:s] + value + l[max(s,e):])
    if len(value) != len(indices):
        first_invalid = indices.start                              (step > 0)
        for index in range(first_invalid, len(self)): self.__children[index].__parent_index = index
    elif len(value) > 0:
        for index in indices: self.__children[index].__parent_index = index                                        *)
Definition setitem_slice (p : itree) (start stop : Z) (value : list itree) : itree :=
  let ch := i_ch p in
  let len := Z.of_nat (length ch) in
  let s := norm_bound len start in
  let e := norm_bound len stop in
  let n_idx := Z.to_nat (e - s) in                                  (* len(range(s, e)) *)
  let new := firstn (Z.to_nat s) ch ++ value ++ skipn (Z.to_nat (Z.max s e)) ch in
  let new' :=
    if negb (Nat.eqb (length value) n_idx) then renumber new (Z.to_nat s) (length new)
    else if (0 <? length value)%nat then renumber new (Z.to_nat s) (Z.to_nat e)
    else new in
  iset_ch p new'.

(* ------------------------------------------------------------------------------------------------------------------ *)
(* Loop.unroll, executed on the child OBJECT that currently sits at list position k of p = self.parent:
     if self.is_leaf(): raise RuntimeError
     i = self.parent_index                                                  (the RECORDED index)
     self.parent[i:i+1] = (child.copy_tree_structure(new_parent=self.parent)
                           for _ in range(self.repetition_count) for child in self)
   parent_index None: `i+1` raises TypeError (checked against the code) = Err EDomain.
   [nth_error = None]: there is no such child object (IndexError of p[k] in the caller) = Err EIndex. *)
Definition iunroll (p : itree) (k : nat) : result itree :=
  match nth_error (i_ch p) k with
  | None => Err EIndex
  | Some c =>
      if i_is_leaf c then Err ERuntime
      else match i_pidx c with
           | None => Err EDomain
           | Some i => Ok (setitem_slice p i (i + 1) (rep_list (Z.to_nat (i_rep c)) (map copy (i_ch c))))
           end
  end.

(* Loop.unroll_children:
     if self.is_leaf(): raise RuntimeError
     self[:] = (child.copy_tree_structure() for _ in range(self.repetition_count) for child in old_children)
     self.repetition_count = 1 *)
Definition iunroll_children (t : itree) : result itree :=
  if i_is_leaf t then Err ERuntime
  else Ok (iset_rep (setitem_slice t 0 (Z.of_nat (length (i_ch t)))
                                   (rep_list (Z.to_nat (i_rep t)) (map copy (i_ch t)))) 1).

(* Loop.encapsulate:
     self[:] = [Loop(children=self, repetition_count=..., waveform=..., measurements=...)]
                 (Node.__init__ with the EXISTING child objects: they are re-parented and numbered 0..)
     self.repetition_count = 1 ; self._waveform = None ; self._measurements = None *)
Definition iencapsulate (t : itree) : itree :=
  let inner := node_init (i_rep t) (i_wf t) (i_meas t) (i_ch t) in
  let t1 := setitem_slice t 0 (Z.of_nat (length (i_ch t))) [inner] in
  INode (i_pidx t1) 1 None [] (i_ch t1).

(* Loop.split_one_child (plain integer counts).  Reads no recorded index; writes them through __setitem__.
     child_index given: negative -> range(len(self))[child_index] (IndexError); self[child_index] (IndexError);
                        count < 2 -> ValueError
     child_index None : the last child with count > 1, none -> RuntimeError
     new_child = self[child_index].copy_tree_structure(); new_child.repetition_count = 1
     self[child_index].repetition_count -= 1
     self[child_index+1:child_index+1] = (new_child,) *)
Fixpoint ilast_index_gt1 (l : list itree) (i : nat) (acc : option nat) : option nat :=
  match l with
  | [] => acc
  | c :: r => ilast_index_gt1 r (S i) (if 1 <? i_rep c then Some i else acc)
  end.

Definition isplit_at (p : itree) (k : nat) : result itree :=
  match nth_error (i_ch p) k with
  | None => Err EIndex
  | Some c =>
      let new_child := iset_rep (copy c) 1 in
      let p1 := iset_ch p (update_nth (i_ch p) k (iset_rep c (i_rep c - 1))) in
      Ok (setitem_slice p1 (Z.of_nat k + 1) (Z.of_nat k + 1) [new_child])
  end.

Definition isplit (p : itree) (idx : option Z) : result itree :=
  let ch := i_ch p in
  match idx with
  | Some i =>
      match py_index (length ch) i with
      | None => Err EIndex
      | Some k =>
          match nth_error ch k with
          | None => Err EIndex
          | Some c => if i_rep c <? 2 then Err EValue else isplit_at p k
          end
      end
  | None =>
      match ilast_index_gt1 ch 0 None with
      | None => Err ERuntime
      | Some k => isplit_at p k
      end
  end.

(* Node._reverse_children before the repair a356242 (the list is reversed, the recorded indices stay) and after it
   (renumbered 0..); used for the refutation witness and its repaired counterpart *)
Definition reverse_children_stale (t : itree) : itree := iset_ch t (rev (i_ch t)).
Definition reverse_children (t : itree) : itree := iset_ch t (number (rev (i_ch t)) O).
