(* C06 — termination of the volatile-aware flatten_and_balance ([Model_vol.vfab_list]): for every level and every work
   list some fuel suffices.  Port of Proofs_term.v: the loop differs from [fab_list] only in [vmergeable] /
   [vmerge_single_child]; depth and balance are those of the erased tree. *)
From Coq Require Import ZArith QArith List Bool Lia ZifyBool.
Require Import QV.C06.Model QV.C06.Spec QV.C06.Model_vol QV.C06.Proofs_base QV.C06.Proofs_struct QV.C06.Proofs_post
               QV.C06.Proofs_props QV.C06.Proofs_term QV.C06.Proofs_vol.
Import ListNotations.
Open Scope Z_scope.

Lemma vfab_list_fuel_mono' : forall n d todo, vfab_list n d todo <> Err OutOfFuel ->
  forall k, vfab_list (n + k) d todo = vfab_list n d todo.
Proof.
  induction n as [|f IH]; intros d todo H k; [exfalso; apply H; reflexivity|].
  change (S f + k)%nat with (S (f + k)). rewrite vfab_list_S in H. rewrite !vfab_list_S.
  destruct todo as [|sub rest]; [reflexivity|].
  destruct (vdepth sub <? d - 1); [apply IH; auto|].
  destruct (negb (vbalanced sub)).
  { destruct (vfab_list f (d - 1) (v_ch sub)) as [cs|e] eqn:H1.
    - rewrite (IH (d - 1) (v_ch sub)), H1 by (rewrite H1; discriminate). cbn [bind] in *. apply IH; auto.
    - rewrite (IH (d - 1) (v_ch sub)), H1 by (rewrite H1; exact H). reflexivity. }
  destruct (vdepth sub =? d - 1).
  { destruct (vfab_list f d rest) as [r|e] eqn:H1.
    - rewrite (IH d rest), H1 by (rewrite H1; discriminate). reflexivity.
    - rewrite (IH d rest), H1 by (rewrite H1; exact H). reflexivity. }
  destruct (vmergeable sub).
  { destruct (vmerge_single_child sub) as [s|e]; cbn [bind] in *; [apply IH; auto|reflexivity]. }
  destruct (negb (v_is_leaf sub)); [apply IH; auto|].
  destruct (vfab_list f d rest) as [r|e] eqn:H1.
  - rewrite (IH d rest), H1 by (rewrite H1; discriminate). reflexivity.
  - rewrite (IH d rest), H1 by (rewrite H1; exact H). reflexivity.
Qed.

Lemma vfab_list_fuel_mono : forall n d todo r, vfab_list n d todo = r -> r <> Err OutOfFuel ->
  forall k, vfab_list (n + k) d todo = r.
Proof. intros n d todo r <- H k. apply vfab_list_fuel_mono'; auto. Qed.


(* ------------------------------------------------------------------------------------------------------------------ *)
(* fuel-free view: [VRuns d l r] — the loop on [l] at level [d] finishes with the (non-fuel) result [r] *)

Definition VRuns (d : Z) (l : list vtree) (r : result (list vtree)) : Prop :=
  r <> Err OutOfFuel /\ exists n, vfab_list n d l = r.

Definition VTerm (d : Z) (l : list vtree) : Prop := exists r, VRuns d l r.

Definition vkeep (sub : vtree) (r : result (list vtree)) : result (list vtree) := bind r (fun x => Ok (sub :: x)).

Lemma vkeep_noof sub r : r <> Err OutOfFuel -> vkeep sub r <> Err OutOfFuel.
Proof. destruct r; cbn; auto. discriminate. Qed.


Lemma vruns_nil d : VRuns d [] (Ok []).
Proof. split; [discriminate|]. exists 1%nat. reflexivity. Qed.

Lemma vruns_enc d sub rest r : (vdepth sub <? d - 1) = true ->
  VRuns d (vencapsulate sub :: rest) r -> VRuns d (sub :: rest) r.
Proof. intros C1 [Hr [n H]]. split; auto. exists (S n). rewrite vfab_list_S, C1. exact H. Qed.

Lemma vruns_unbal_ok d sub rest cs r : (vdepth sub <? d - 1) = false -> vbalanced sub = false ->
  VRuns (d - 1) (v_ch sub) (Ok cs) -> VRuns d (vset_ch sub cs :: rest) r -> VRuns d (sub :: rest) r.
Proof.
  intros C1 C2 [Hr1 [n1 H1]] [Hr [n2 H2]]. split; auto. exists (S (n1 + n2)).
  rewrite vfab_list_S, C1, C2. cbn [negb].
  rewrite (vfab_list_fuel_mono _ _ _ _ H1 Hr1 n2). cbn [bind].
  rewrite Nat.add_comm. apply vfab_list_fuel_mono; auto.
Qed.

Lemma vruns_unbal_err d sub rest e : (vdepth sub <? d - 1) = false -> vbalanced sub = false ->
  VRuns (d - 1) (v_ch sub) (Err e) -> VRuns d (sub :: rest) (Err e).
Proof.
  intros C1 C2 [Hr1 [n1 H1]]. split; auto. exists (S n1).
  rewrite vfab_list_S, C1, C2. cbn [negb]. rewrite H1. reflexivity.
Qed.

Lemma vruns_keep d sub rest r : (vdepth sub <? d - 1) = false -> vbalanced sub = true ->
  ((vdepth sub =? d - 1) = true \/ (vmergeable sub = false /\ v_is_leaf sub = true)) ->
  VRuns d rest r -> VRuns d (sub :: rest) (vkeep sub r).
Proof.
  intros C1 C2 C [Hr [n H]]. split; [apply vkeep_noof; auto|]. exists (S n).
  rewrite vfab_list_S, C1, C2. cbn [negb]. destruct C as [C3|[C4 C5]].
  - rewrite C3, H. reflexivity.
  - destruct (vdepth sub =? d - 1); [|rewrite C4, C5; cbn [negb]]; rewrite H; reflexivity.
Qed.

Lemma vruns_merge_ok d sub rest s r : (vdepth sub <? d - 1) = false -> vbalanced sub = true ->
  (vdepth sub =? d - 1) = false -> vmergeable sub = true -> vmerge_single_child sub = Ok s ->
  VRuns d (s :: rest) r -> VRuns d (sub :: rest) r.
Proof.
  intros C1 C2 C3 C4 Hm [Hr [n H]]. split; auto. exists (S n).
  rewrite vfab_list_S, C1, C2, C3, C4, Hm. cbn [negb bind]. exact H.
Qed.

Lemma vruns_merge_err d sub rest e : (vdepth sub <? d - 1) = false -> vbalanced sub = true ->
  (vdepth sub =? d - 1) = false -> vmergeable sub = true -> vmerge_single_child sub = Err e ->
  VRuns d (sub :: rest) (Err e).
Proof.
  intros C1 C2 C3 C4 Hm. split; [rewrite (vmerge_err _ _ Hm); discriminate|]. exists 1%nat.
  rewrite vfab_list_S, C1, C2, C3, C4, Hm. reflexivity.
Qed.

Lemma vruns_unroll d sub rest r : (vdepth sub <? d - 1) = false -> vbalanced sub = true ->
  (vdepth sub =? d - 1) = false -> vmergeable sub = false -> v_is_leaf sub = false ->
  VRuns d (vunrolled sub ++ rest) r -> VRuns d (sub :: rest) r.
Proof.
  intros C1 C2 C3 C4 C5 [Hr [n H]]. split; auto. exists (S n).
  rewrite vfab_list_S, C1, C2, C3, C4, C5. cbn [negb]. exact H.
Qed.

(* ------------------------------------------------------------------------------------------------------------------ *)
(* left-to-right compositionality *)

Definition vcomb (ra rb : result (list vtree)) : result (list vtree) :=
  match ra with Ok oa => bind rb (fun x => Ok (oa ++ x)) | Err e => Err e end.

Lemma vruns_app_fuel : forall n d a ra, vfab_list n d a = ra -> ra <> Err OutOfFuel ->
  forall b rb, VRuns d b rb -> VRuns d (a ++ b) (vcomb ra rb).
Proof.
  induction n as [|f IH]; intros d a ra H Hra b rb Hb; [cbn in H; congruence|].
  rewrite vfab_list_S in H. destruct a as [|sub a'].
  - subst ra. replace (vcomb (Ok []) rb) with rb by (destruct rb; reflexivity). exact Hb.
  - cbn [app].
    assert (forall ra', vfab_list f d a' = ra' -> vkeep sub ra' = ra -> VRuns d (sub :: a' ++ b) (vkeep sub (vcomb ra' rb)) ->
                        VRuns d (sub :: a' ++ b) (vcomb ra rb)) as Hkeep.
    { intros ra' _ E HR. rewrite <- E. destruct ra', rb; exact HR. }
    assert (forall ra', vkeep sub ra' = ra -> ra' <> Err OutOfFuel) as Hnoof.
    { intros ra' E1 E2. apply Hra. rewrite <- E1, E2. reflexivity. }
    destruct (vdepth sub <? d - 1) eqn:C1.
    { apply vruns_enc; auto. exact (IH d (vencapsulate sub :: a') ra H Hra b rb Hb). }
    destruct (vbalanced sub) eqn:C2; cbn [negb] in H.
    2:{ destruct (vfab_list f (d - 1) (v_ch sub)) as [cs|e] eqn:H1; cbn [bind] in H.
        - eapply vruns_unbal_ok; eauto.
          + split; [discriminate|eauto].
          + exact (IH d (vset_ch sub cs :: a') ra H Hra b rb Hb).
        - subst ra. cbn [vcomb]. apply vruns_unbal_err; auto. split; eauto. }
    destruct (vdepth sub =? d - 1) eqn:C3.
    { apply (Hkeep _ eq_refl H). apply vruns_keep; [auto|auto|auto|]. exact (IH d a' _ eq_refl (Hnoof _ H) b rb Hb). }
    destruct (vmergeable sub) eqn:C4.
    { destruct (vmerge_single_child sub) as [s|e] eqn:Hm; cbn [bind] in H.
      - eapply vruns_merge_ok; eauto. exact (IH d (s :: a') ra H Hra b rb Hb).
      - subst ra. cbn [vcomb]. eapply vruns_merge_err; eauto. }
    destruct (v_is_leaf sub) eqn:C5; cbn [negb] in H.
    { apply (Hkeep _ eq_refl H). apply vruns_keep; [auto|auto|auto|]. exact (IH d a' _ eq_refl (Hnoof _ H) b rb Hb). }
    apply vruns_unroll; auto. rewrite app_assoc. eapply IH; eauto.
Qed.

Lemma VTerm_nil d : VTerm d [].
Proof. exists (Ok []). apply vruns_nil. Qed.

Lemma VTerm_app d a b : VTerm d a -> VTerm d b -> VTerm d (a ++ b).
Proof. intros [ra [Hra [n H]]] [rb Hb]. exists (vcomb ra rb). eapply vruns_app_fuel; eauto. Qed.

Lemma VTerm_Forall d l : Forall (fun t => VTerm d [t]) l -> VTerm d l.
Proof.
  induction 1 as [|x l Hx _ IH]; [apply VTerm_nil|]. change (x :: l) with ([x] ++ l). apply VTerm_app; auto.
Qed.

(* ------------------------------------------------------------------------------------------------------------------ *)
(* vbalanced trees *)

Lemma vdepth_encapsulate s : vdepth (vencapsulate s) = 1 + vdepth s.
Proof. unfold vdepth. rewrite vencapsulate_erase. apply depth_encapsulate. Qed.

Lemma vbalanced_encapsulate s : vbalanced (vencapsulate s) = vbalanced s.
Proof. unfold vbalanced. rewrite vencapsulate_erase. apply balanced_encapsulate. Qed.

Lemma vdepth_nonneg t : 0 <= vdepth t.
Proof. exact (depth_nonneg (erase t)). Qed.

Lemma v_ch_vencapsulate s : v_ch (vencapsulate s) = [s].
Proof. destruct s; reflexivity. Qed.


(* a vbalanced vtree that is not too deep is wrapped until it has vdepth d-1 and emitted *)
Lemma vterm_balanced_low : forall k s d, vbalanced s = true -> d - 1 - vdepth s = Z.of_nat k -> VTerm d [s].
Proof.
  induction k as [|k IH]; intros s d Hb Hk.
  - exists (vkeep s (Ok [])). apply vruns_keep; [lia|auto|left; lia|apply vruns_nil].
  - destruct (IH (vencapsulate s) d) as [r Hr].
    + rewrite vbalanced_encapsulate; auto.
    + rewrite vdepth_encapsulate. lia.
    + exists r. apply vruns_enc; [lia|auto].
Qed.

Lemma vterm_leaf s d : v_is_leaf s = true -> VTerm d [s].
Proof.
  intros Hl. pose proof (vbalanced_leaf _ Hl) as Hb. pose proof (vdepth_leaf _ Hl) as Hd.
  destruct (Z_le_gt_dec 0 (d - 1)).
  - apply (vterm_balanced_low (Z.to_nat (d - 1)) s d); auto. lia.
  - exists (vkeep s (Ok [])). apply vruns_keep; [lia|auto| |apply vruns_nil].
    right. split; auto. apply vmergeable_leaf; auto.
Qed.

Lemma vterm_balanced_gen t d : vbalanced t = true ->
  (forall s, vmerge_single_child t = Ok s -> VTerm d [s]) ->
  (forall c, In c (v_ch t) -> VTerm d [c]) -> VTerm d [t].
Proof.
  intros Hb Hm Hc. destruct (Z_le_gt_dec (vdepth t) (d - 1)).
  - apply (vterm_balanced_low (Z.to_nat (d - 1 - vdepth t)) t d); auto. lia.
  - destruct (vmergeable t) eqn:C4.
    + destruct (vmerge_single_child t) as [s|e] eqn:Hms.
      * destruct (Hm s eq_refl) as [r Hr]. exists r. eapply vruns_merge_ok; eauto; lia.
      * exists (Err e). eapply vruns_merge_err; eauto; lia.
    + destruct (v_is_leaf t) eqn:C5.
      * exists (vkeep t (Ok [])). apply vruns_keep; [lia|auto|auto|apply vruns_nil].
      * assert (VTerm d (vunrolled t ++ [])) as [r Hr].
        { rewrite app_nil_r. apply VTerm_Forall. unfold vunrolled. apply Forall_forall. intros c Hin.
          apply Hc. eapply In_rep_list; eauto. }
        exists r. apply vruns_unroll; auto; lia.
Qed.

Lemma vnode_balanced_depth r w m c0 cs x : 0 <= x ->
  Forall (fun c => vbalanced c = true /\ vdepth c = x) (c0 :: cs) ->
  vdepth (VNode r w m (c0 :: cs)) = 1 + x /\ vbalanced (VNode r w m (c0 :: cs)) = true.
Proof.
  intros Hx HF. unfold vdepth, vbalanced. cbn [erase map].
  apply node_balanced_depth; [exact Hx|]. exact (proj2 (Forall_map erase _ (c0 :: cs)) HF).
Qed.

(* a node over leaves *)
Lemma vterm_over_leaves s d : forallb v_is_leaf (v_ch s) = true -> VTerm d [s].
Proof.
  intros Hl. rewrite forallb_forall in Hl.
  assert (vbalanced s = true) as Hb.
  { destruct s as [r w m [|c0 cs]]; [reflexivity|]. cbn [v_ch] in Hl.
    apply (vnode_balanced_depth r w m c0 cs 0); [lia|]. apply Forall_forall. intros c Hc.
    split; [apply vbalanced_leaf|apply vdepth_leaf]; auto. }
  apply vterm_balanced_gen; auto.
  - intros s2 Hm. destruct (vmerge_inv _ _ Hm) as (rep & m & crep & cw & cm & cch & -> & ->).
    cbn [v_ch] in Hl. specialize (Hl _ (or_introl eq_refl)). apply vterm_leaf.
    unfold v_is_leaf in *. cbn [v_ch] in *. exact Hl.
  - intros c Hc. apply vterm_leaf; auto.
Qed.

(* the node rebuilt over the result of the inner call *)
Lemma vterm_set_ch_post d s cs :
  Forall (fun c => (vbalanced c = true /\ vdepth c = d - 1 - 1) \/ (v_is_leaf c = true /\ d - 1 - 1 < 0)) cs ->
  VTerm d [vset_ch s cs].
Proof.
  intros HF. destruct (Z_lt_ge_dec (d - 1 - 1) 0).
  - apply vterm_over_leaves. rewrite v_ch_vset_ch. apply forallb_forall. intros c Hc.
    rewrite Forall_forall in HF. destruct (HF c Hc) as [[_ H]|[H _]]; auto.
    pose proof (vdepth_nonneg c). lia.
  - destruct cs as [|c0 cs].
    + apply vterm_leaf. destruct s; reflexivity.
    + assert (Forall (fun c => vbalanced c = true /\ vdepth c = d - 1 - 1) (c0 :: cs)) as HF'.
      { eapply Forall_impl; [|exact HF]. cbn beta. intros c [H|[_ H]]; [auto|lia]. }
      destruct s as [r w m ch]. cbn [vset_ch].
      destruct (vnode_balanced_depth r w m c0 cs (d - 1 - 1) ltac:(lia) HF') as [Hd Hb].
      apply (vterm_balanced_low 0 _ d); auto. lia.
Qed.

(* ------------------------------------------------------------------------------------------------------------------ *)
(* unbalanced trees *)

Lemma vunbal_step W d : vbalanced W = false -> vdepth W >= d - 1 -> VTerm (d - 1) (v_ch W) -> VTerm d [W].
Proof.
  intros Hb Hd [r [Hr [n Hn]]]. destruct r as [cs|e].
  - pose proof (vfab_list_post _ _ _ _ Hn) as Hpost.
    destruct (vterm_set_ch_post d W cs Hpost) as [r' Hr']. exists r'.
    eapply vruns_unbal_ok; eauto; [lia|]. split; eauto.
  - exists (Err e). apply vruns_unbal_err; auto; [lia|]. split; eauto.
Qed.

Fixpoint vwrap (j : nat) (t : vtree) : vtree :=
  match j with O => t | S j' => vencapsulate (vwrap j' t) end.

Lemma vbalanced_wrap j t : vbalanced (vwrap j t) = vbalanced t.
Proof. induction j; cbn [vwrap]; auto. rewrite vbalanced_encapsulate. auto. Qed.

Lemma vwrap_deep t : vbalanced t = false -> (forall d, VTerm d (v_ch t)) ->
  forall j d, vdepth (vwrap j t) >= d - 1 -> VTerm d [vwrap j t].
Proof.
  intros Hb Hch. induction j as [|j IH]; intros d Hd.
  - cbn [vwrap] in *. apply vunbal_step; auto.
  - apply vunbal_step; auto.
    + rewrite vbalanced_wrap. auto.
    + cbn [vwrap] in *. rewrite v_ch_vencapsulate. apply IH. rewrite vdepth_encapsulate in Hd. lia.
Qed.

Lemma vwrap_any t : vbalanced t = false -> (forall d, VTerm d (v_ch t)) ->
  forall k j d, d - 1 - vdepth (vwrap j t) <= Z.of_nat k -> VTerm d [vwrap j t].
Proof.
  intros Hb Hch. induction k as [|k IH]; intros j d H.
  - apply vwrap_deep; auto; lia.
  - destruct (Z_lt_ge_dec (vdepth (vwrap j t)) (d - 1)).
    + destruct (IH (S j) d) as [r Hr].
      { cbn [vwrap]. rewrite vdepth_encapsulate. lia. }
      exists r. apply vruns_enc; [lia|exact Hr].
    + apply vwrap_deep; auto; lia.
Qed.

Lemma vterm_unbalanced t : vbalanced t = false -> (forall d, VTerm d (v_ch t)) -> forall d, VTerm d [t].
Proof. intros Hb Hch d. apply (vwrap_any t Hb Hch (Z.to_nat (d - 1 - vdepth t)) 0%nat d). cbn [vwrap]. lia. Qed.

(* ------------------------------------------------------------------------------------------------------------------ *)
(* the induction on the number of nodes *)

Fixpoint vtsize (t : vtree) : nat :=
  match t with VNode _ _ _ ch => S (list_sum (map vtsize ch)) end.

Lemma vtsize_node r w m ch : vtsize (VNode r w m ch) = S (list_sum (map vtsize ch)).
Proof. reflexivity. Qed.

Lemma vtsize_child c ch : In c ch -> (vtsize c <= list_sum (map vtsize ch))%nat.
Proof.
  induction ch as [|a ch IH]; intros H; [destruct H|]. cbn [map list_sum fold_right]. destruct H as [->|H].
  - lia.
  - specialize (IH H). unfold list_sum in IH. lia.
Qed.

Lemma vterm_single : forall n t, (vtsize t <= n)%nat -> forall d, VTerm d [t].
Proof.
  induction n as [|n IH]; intros t Hn d.
  - destruct t. rewrite vtsize_node in Hn. lia.
  - assert (forall c, In c (v_ch t) -> forall d', VTerm d' [c]) as Hc.
    { intros c Hin d'. apply IH. destruct t as [r w m ch]. cbn [v_ch] in Hin. rewrite vtsize_node in Hn.
      pose proof (vtsize_child c ch Hin). lia. }
    destruct (vbalanced t) eqn:Hb.
    + apply vterm_balanced_gen; auto.
      intros s Hm. apply IH.
      destruct (vmerge_inv _ _ Hm) as (rep & m & crep & cw & cm & cch & -> & ->).
      rewrite !vtsize_node in *. cbn [map list_sum fold_right] in Hn. rewrite vtsize_node in Hn. lia.
    + apply vterm_unbalanced; auto. intros d'. apply VTerm_Forall. apply Forall_forall. intros c Hin. apply Hc; auto.
Qed.

Lemma VTerm_all d todo : VTerm d todo.
Proof. apply VTerm_Forall. apply Forall_forall. intros t _. apply (vterm_single (vtsize t)). lia. Qed.

Theorem vfab_list_terminates : forall d todo, exists n, forall k, vfab_list (n + k) d todo <> Err OutOfFuel.
Proof.
  intros d todo. destruct (VTerm_all d todo) as [r [Hr [n Hn]]]. exists n. intros k.
  rewrite (vfab_list_fuel_mono _ _ _ _ Hn Hr k). exact Hr.
Qed.

Corollary vflatten_terminates : forall d t, exists n, forall k,
  vflatten_and_balance (n + k) d t <> Err OutOfFuel.
Proof.
  intros d t. destruct (vfab_list_terminates d (v_ch t)) as [n Hn]. exists n. intros k.
  unfold vflatten_and_balance. specialize (Hn k). destruct (vfab_list (n + k) d (v_ch t)) as [cs|e]; cbn [bind].
  - discriminate.
  - intros E. apply Hn. inversion E. reflexivity.
Qed.

(* the only errors of the loop are the fuel marker and the AssertionError of _merge_single_child (a node with a
   waveform AND a single child) *)
Lemma vfab_list_err : forall f dd todo e0, vfab_list f dd todo = Err e0 -> e0 = OutOfFuel \/ e0 = EAssert.
Proof.
  induction f as [|f IH]; intros dd todo e0 He; [inversion He; auto|].
  rewrite vfab_list_S in He. destruct todo as [|sub rest]; [discriminate|].
  destruct (vdepth sub <? dd - 1); [eauto|].
  destruct (negb (vbalanced sub)).
  { destruct (vfab_list f (dd - 1) (v_ch sub)) eqn:E1; cbn [bind] in He; eauto. inversion He; subst; eauto. }
  destruct (vdepth sub =? dd - 1).
  { destruct (vfab_list f dd rest) eqn:E1; cbn [bind] in He; [discriminate|]. inversion He; subst; eauto. }
  destruct (vmergeable sub).
  { destruct (vmerge_single_child sub) eqn:E1; cbn [bind] in He; eauto.
    inversion He; subst. right. eapply vmerge_err; eauto. }
  destruct (negb (v_is_leaf sub)); [eauto|].
  destruct (vfab_list f dd rest) eqn:E1; cbn [bind] in He; [discriminate|]. inversion He; subst; eauto.
Qed.

Theorem vflatten_total : forall d t, exists n, forall k,
  (exists t', vflatten_and_balance (n + k) d t = Ok t') \/ vflatten_and_balance (n + k) d t = Err EAssert.
Proof.
  intros d t. destruct (vflatten_terminates d t) as [n Hn]. exists n. intros k.
  specialize (Hn k). destruct (vflatten_and_balance (n + k) d t) as [t'|e] eqn:E; [left; eauto|right].
  unfold vflatten_and_balance in E. destruct (vfab_list (n + k) d (v_ch t)) as [cs|e'] eqn:E'; cbn [bind] in E; [discriminate|].
  inversion E; subst e'. f_equal. destruct (vfab_list_err _ _ _ _ E') as [He0|He0]; subst; [congruence|reflexivity].
Qed.
