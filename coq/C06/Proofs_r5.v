(* C06 — round 5 (audit): flatten_and_balance on a valid program cannot fail at all (the [Err EAssert] alternative of
   [flatten_total] is never taken), and non-vacuity examples for the rewrites that had none. *)
From Coq Require Import ZArith QArith List Bool Lia ZifyBool.
Require Import QV.C06.Model QV.C06.Spec QV.C06.Proofs_base QV.C06.Proofs_struct QV.C06.Proofs_term QV.C06.Proofs_props.
Import ListNotations.
Open Scope Z_scope.

(* the assertion of _merge_single_child holds wherever flatten_and_balance calls it: the node passed
   _has_single_child_that_can_be_merged and, being an inner node of a valid program, carries no waveform *)
Lemma mergeable_merge_ok sub : tree_okb sub = true -> mergeable sub = true -> exists s, merge_single_child sub = Ok s.
Proof.
  destruct sub as [rep w m [|[crep cw cm cch] [|c2 ch]]]; unfold mergeable; cbn [t_ch]; try discriminate.
  intros Hok Hm. destruct (okb_inv _ _ _ _ Hok) as (_ & _ & Hw).
  assert (w = None) as -> by (apply Hw; discriminate).
  cbn [merge_single_child]. cbn [t_rep] in Hm.
  destruct (has_meas (Node rep None m [Node crep cw cm cch])); cbn [negb orb andb] in *.
  - rewrite Hm. cbn [negb]. eauto.
  - eauto.
Qed.

Lemma fab_list_err_fuel : forall f d todo e, forallb tree_okb todo = true -> fab_list f d todo = Err e -> e = OutOfFuel.
Proof.
  induction f as [|f IH]; intros d todo e Hok He; [inversion He; auto|].
  rewrite fab_list_S in He. destruct todo as [|sub rest]; [discriminate|].
  cbn [forallb] in Hok. apply andb_true_iff in Hok. destruct Hok as [Hs Hrest].
  destruct (depth sub <? d - 1).
  { eapply IH; [|exact He]. cbn [forallb]. rewrite encapsulate_ok, Hrest; auto. }
  destruct (negb (balanced sub)) eqn:Hb.
  { destruct (fab_list f (d - 1) (t_ch sub)) as [cs|e1] eqn:H1; cbn [bind] in He.
    - destruct (fab_list_pieces _ _ _ _ (okb_children _ Hs) H1) as [Hp Ho].
      assert (is_leaf sub = false) as Hl.
      { destruct (is_leaf sub) eqn:E; auto. rewrite balanced_leaf in Hb; auto; discriminate. }
      destruct (set_ch_pieces_ok sub cs Hs Hl Hp Ho) as [_ Ho'].
      eapply IH; [|exact He]. cbn [forallb]. rewrite Ho', Hrest. auto.
    - inversion He; subst e1. eapply IH; [|exact H1]. apply okb_children; auto. }
  destruct (depth sub =? d - 1).
  { destruct (fab_list f d rest) as [r|e1] eqn:H1; cbn [bind] in He; [discriminate|].
    inversion He; subst e1. eapply IH; eauto. }
  destruct (mergeable sub) eqn:Hm.
  { destruct (mergeable_merge_ok sub Hs Hm) as [s Hms]. rewrite Hms in He. cbn [bind] in He.
    eapply IH; [|exact He]. cbn [forallb]. rewrite (merge_single_child_ok _ _ Hs Hms), Hrest. auto. }
  destruct (negb (is_leaf sub)) eqn:Hl.
  { eapply IH; [|exact He]. rewrite forallb_app, Hrest. unfold unrolled.
    rewrite Proofs_struct.forallb_rep_list; auto. apply okb_children; auto. }
  destruct (fab_list f d rest) as [r|e1] eqn:H1; cbn [bind] in He; [discriminate|].
  inversion He; subst e1. eapply IH; eauto.
Qed.

(* total correctness on valid programs: enough fuel exists and with it (and with any larger fuel) there IS a result *)
Theorem flatten_total_ok : forall d t, tree_okb t = true ->
  exists n, forall k, exists t', flatten_and_balance (n + k) d t = Ok t'.
Proof.
  intros d t Hok. destruct (flatten_and_balance_terminates d t) as [n Hn]. exists n. intros k.
  specialize (Hn k). destruct (flatten_and_balance (n + k) d t) as [t'|e] eqn:E; [eauto|exfalso].
  unfold flatten_and_balance in E. destruct (fab_list (n + k) d (t_ch t)) as [cs|e'] eqn:E'; cbn [bind] in E; [discriminate|].
  inversion E; subst e'. apply Hn. f_equal. eapply fab_list_err_fuel; [|exact E']. apply okb_children; auto.
Qed.

(* ------------------------------------------------------------------------------------------------------------------ *)
(* non-vacuity of the rewrites that had no example: the hypotheses hold of a program with several nodes and the rewrite
   returns a different tree *)
Example ex_unroll_children : exists t', tree_okb ex_tree = true /\ unroll_children_op ex_tree = Ok t' /\ t' <> ex_tree
  /\ length (t_ch t') = 4%nat.
Proof. eexists. split; [reflexivity|]. split; [vm_compute; reflexivity|]. split; [discriminate|reflexivity]. Qed.

Example ex_encapsulate : tree_okb ex_tree = true /\ encapsulate ex_tree <> ex_tree /\ depth (encapsulate ex_tree) = 4.
Proof. split; [reflexivity|]. split; [discriminate|reflexivity]. Qed.

Definition ex_chain : tree := Node 2 None [] [Node 3 None [7%N] [ex_leaf 1 1; Node 1 None [] []; ex_leaf 2 2]].

Example ex_merge : exists t', tree_okb ex_chain = true /\ merge_single_child ex_chain = Ok t' /\ t_rep t' = 6
  /\ length (t_ch t') = 3%nat.
Proof. eexists. split; [reflexivity|]. split; [vm_compute; reflexivity|]. split; reflexivity. Qed.

Example ex_cleanup : exists t', cleanup true true ex_chain = Ok t' /\ t' <> ex_chain /\ t_rep t' = 6
  /\ length (t_ch t') = 2%nat /\ no_empty_below t' = true /\ mergeable t' = false.
Proof. eexists. split; [vm_compute; reflexivity|]. split; [discriminate|]. repeat split; reflexivity. Qed.

(* the error alternative of the statement is inhabited as well: a rewrite that fails returns no tree at all *)
Example ex_errors : unroll_child ex_tree 0 = Err ERuntime /\ unroll_children_op (ex_leaf 1 3) = Err ERuntime
  /\ split_one_child ex_tree (Some 0) = Err EValue /\ merge_single_child ex_tree = Err EAssert
  /\ make_compatible 4 4 1 (Node 1 None [] [ex_leaf 1 3]) = Err EValue.
Proof. repeat split; vm_compute; reflexivity. Qed.
