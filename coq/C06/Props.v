(* C06 — property theorems (statements only; proofs live in Proofs_*.v).
   [pieces t]: the leaves a program plays, in order, repetitions unrolled (Model.v); [duration]: Loop.duration.
   [tree_okb]: counts >= 0 and inner nodes carry no waveform. *)
From Coq Require Import ZArith QArith Bool List.
Require Import QV.C06.Model QV.C06.Spec QV.C06.Proofs_props QV.C06.Gen_sfg QV.C06.Proofs_sfg
  QV.C06.Model_vol QV.C06.Proofs_vol QV.C06.Proofs_vol_term QV.C06.Proofs_vol_mc QV.C06.Model_idx QV.C06.Proofs_idx
  QV.C06.Proofs_r5 QV.C06.Proofs_r5_mc QV.C06.Proofs_r5_vol QV.C06.Model_cv QV.C06.Proofs_cv.
(* [erase] unqualified is Model_idx.erase (forget the recorded index); Model_vol.erase forgets which counts are volatile *)
Import ListNotations.
Open Scope Z_scope.

Theorem C06_unroll_preserves : forall p i p', tree_okb p = true -> unroll_child p i = Ok p' ->
  pieces p' = pieces p /\ (duration p' == duration p)%Q.
Proof. exact unroll_preserves. Qed.
Print Assumptions C06_unroll_preserves.

Theorem C06_unroll_children_preserves : forall t t', tree_okb t = true -> unroll_children_op t = Ok t' ->
  (pieces t' = pieces t /\ (duration t' == duration t)%Q) /\ t_rep t' = 1.
Proof. exact unroll_children_preserves. Qed.
Print Assumptions C06_unroll_children_preserves.

Theorem C06_encapsulate_preserves : forall t, tree_okb t = true ->
  (pieces (encapsulate t) = pieces t /\ (duration (encapsulate t) == duration t)%Q) /\ depth (encapsulate t) = depth t + 1.
Proof. exact encapsulate_preserves. Qed.
Print Assumptions C06_encapsulate_preserves.

Theorem C06_split_one_child_preserves : forall t idx t', tree_okb t = true -> split_one_child t idx = Ok t' ->
  pieces t' = pieces t /\ (duration t' == duration t)%Q.
Proof. exact split_one_child_preserves. Qed.
Print Assumptions C06_split_one_child_preserves.

Theorem C06_merge_single_child_preserves : forall t t', tree_okb t = true -> merge_single_child t = Ok t' ->
  pieces t' = pieces t /\ (duration t' == duration t)%Q.
Proof. exact merge_single_child_preserves. Qed.
Print Assumptions C06_merge_single_child_preserves.

Theorem C06_cleanup_preserves : forall rm mg t t', tree_okb t = true -> cleanup rm mg t = Ok t' ->
  pieces t' = pieces t /\ (duration t' == duration t)%Q.
Proof. exact cleanup_preserves. Qed.
Print Assumptions C06_cleanup_preserves.

Theorem C06_cleanup_post : forall rm mg t t', cleanup rm mg t = Ok t' ->
  (rm = true -> no_empty_below t' = true) /\ (mg = true -> mergeable t' = false).
Proof. exact cleanup_postcondition. Qed.
Print Assumptions C06_cleanup_post.

(* for every fuel: a returned result plays the same pulse and has the requested depth and balance *)
Theorem C06_flatten_preserves_post : forall fuel d t t', tree_okb t = true -> flatten_and_balance fuel d t = Ok t' ->
  (pieces t' = pieces t /\ (duration t' == duration t)%Q)
  /\ (1 <= d -> t_ch t' <> [] -> depth t' = d /\ balanced t' = true)
  /\ (d <= 0 -> forallb is_leaf (t_ch t') = true).
Proof. exact flatten_preserves. Qed.
Print Assumptions C06_flatten_preserves_post.

(* termination: for every tree and target depth some fuel suffices, and so does every larger one *)
Theorem C06_flatten_terminates : forall d t, exists n, forall k, flatten_and_balance (n + k) d t <> Err OutOfFuel.
Proof. exact flatten_terminates. Qed.
Print Assumptions C06_flatten_terminates.

Theorem C06_flatten_total : forall d t, tree_okb t = true ->
  exists n, forall k, (exists t', flatten_and_balance (n + k) d t = Ok t') \/ flatten_and_balance (n + k) d t = Err EAssert.
Proof. exact flatten_total. Qed.
Print Assumptions C06_flatten_total.

(* ---- waveform-merging rewrites.  [same_play a b] (Spec.v): equal total duration and at every time t >= 0 the same atom
   at the same local time / the same constant values.  [tree_ok1b]: counts >= 1, every leaf has a waveform of positive
   duration, inner nodes carry none. *)

Theorem C06_spec_oracle_sound : forall a b, Forall (fun p => (0 <= pdur p)%Q) a -> Forall (fun p => (0 <= pdur p)%Q) b ->
  pieces_equivb a b = true -> same_play a b.
Proof. exact oracle_sound. Qed.
Print Assumptions C06_spec_oracle_sound.

Theorem C06_to_waveform_preserves : forall t x, tree_ok1b t = true -> to_waveform t = Ok x ->
  same_play (wf_pieces x) (pieces t) /\ (wf_dur x == duration t)%Q.
Proof. exact to_waveform_preserves. Qed.
Print Assumptions C06_to_waveform_preserves.

Theorem C06_make_compatible_preserves_post : forall min_len quantum sr t t', tree_ok1b t = true ->
  make_compatible min_len quantum sr t = Ok t' ->
  same_play (pieces t') (pieces t) /\ (duration t' == duration t)%Q
  /\ ((0 < quantum)%Z -> (0 < sr)%Q -> leaves_ok min_len quantum sr t' = true).
Proof. exact make_compatible_preserves. Qed.
Print Assumptions C06_make_compatible_preserves_post.

Theorem C06_roll_constant_waveforms_preserves : forall mq q sr t t', (0 < q)%Z -> (0 < sr)%Q -> tree_ok1b t = true ->
  roll_constant_waveforms mq q sr t = Ok t' -> same_play (pieces t') (pieces t) /\ (duration t' == duration t)%Q.
Proof. exact roll_preserves. Qed.
Print Assumptions C06_roll_constant_waveforms_preserves.

(* ---- smallest_factor_ge.  [smallest_factor_ge_src] (Gen_sfg.v) is generated on every run from
   qupulse/utils/numeric.py by translate/py2gallina_c06.py: the assert, the probe range
   range(min_factor, min(min_factor + brute_force, n)), the test n % factor == 0 and the returned variable come from the
   source text; the sympy fall-back of the for-else clause is the parameter [fb], constrained by [fallback_spec]
   (= it returns the smallest factor >= m; compared with brute force by the correspondence cases CSfg). *)

Theorem C06_sfg_src_eq_model : forall (fb : Z -> Z -> Z), fallback_spec fb ->
  forall n m bf, 1 <= m -> smallest_factor_ge_src fb n m bf = smallest_factor_ge n m.
Proof. exact sfg_src_eq_model. Qed.
Print Assumptions C06_sfg_src_eq_model.

(* the probe loop by itself: what it returns is the smallest factor >= m in the probed range, and if it finds nothing no
   number of the probed range divides n (no contract on the fall-back needed) *)
Theorem C06_sfg_probe_correct : forall (fb : Z -> Z -> Z) n m bf, 1 <= m -> m <= n ->
  (exists k, smallest_factor_ge_src fb n m bf = Ok k /\
             m <= k < Z.min (m + bf) n /\ n mod k = 0 /\ (forall j, m <= j < k -> n mod j <> 0))
  \/ (smallest_factor_ge_src fb n m bf = Ok (fb n m) /\
      forall j, m <= j < Z.min (m + bf) n -> n mod j <> 0).
Proof. exact sfg_probe_correct. Qed.
Print Assumptions C06_sfg_probe_correct.

Theorem C06_sfg_model_correct : forall n m k, smallest_factor_ge n m = Ok k -> 1 <= m ->
  m <= k <= n /\ n mod k = 0 /\ forall j, m <= j < k -> n mod j <> 0.
Proof. exact sfg_model_correct. Qed.
Print Assumptions C06_sfg_model_correct.

(* ---- recorded parent_index (qupulse/utils/tree.py).  The pure model applies [unroll] at a list position; the code reads
   the recorded field [parent_index] of the node.  [itree] (Model_idx.v) is the tree whose nodes carry the recorded index,
   [idx_ok] is C09's bookkeeping invariant restricted to it (every child at position j records j), [setitem_slice] is
   Node.__setitem__ for slices incl. its renumbering rule, [iunroll]/[isplit]/[iunroll_children]/[iencapsulate] are the
   rewrites executed with recorded indices.  Under the invariant they refine the pure rewrites and re-establish it;
   without it (stale index, what _reverse_children left before a356242) unroll changes the pulse. *)

Theorem C06_idx_setitem_slice_ok : forall p start stop value,
  idx_ok p = true -> sub_ok value = true -> idx_ok (setitem_slice p start stop value) = true.
Proof. exact setitem_slice_ok. Qed.
Print Assumptions C06_idx_setitem_slice_ok.

Theorem C06_idx_unroll_refines : forall p k p', idx_ok p = true -> iunroll p k = Ok p' ->
  unroll_child (erase p) k = Ok (erase p') /\ idx_ok p' = true.
Proof. exact iunroll_refines. Qed.
Print Assumptions C06_idx_unroll_refines.

Theorem C06_idx_unroll_refines_err : forall p k e, idx_ok p = true -> iunroll p k = Err e ->
  unroll_child (erase p) k = Err e.
Proof. exact iunroll_refines_err. Qed.
Print Assumptions C06_idx_unroll_refines_err.

Theorem C06_idx_unroll_preserves : forall p k p', tree_okb (erase p) = true -> idx_ok p = true -> iunroll p k = Ok p' ->
  pieces (erase p') = pieces (erase p) /\ (duration (erase p') == duration (erase p))%Q /\ idx_ok p' = true.
Proof. exact iunroll_preserves. Qed.
Print Assumptions C06_idx_unroll_preserves.

Theorem C06_idx_unroll_stale_refuted : exists p k p',
  tree_okb (erase p) = true /\ idx_ok p = false /\ iunroll p k = Ok p' /\ pieces (erase p') <> pieces (erase p)
  /\ unroll_child (erase p) k <> Ok (erase p').
Proof. exact iunroll_stale_refuted. Qed.
Print Assumptions C06_idx_unroll_stale_refuted.

Theorem C06_idx_split_refines : forall p idx p', idx_ok p = true -> isplit p idx = Ok p' ->
  split_one_child (erase p) idx = Ok (erase p') /\ idx_ok p' = true.
Proof. exact isplit_refines. Qed.
Print Assumptions C06_idx_split_refines.

Theorem C06_idx_split_refines_err : forall p idx e, isplit p idx = Err e -> split_one_child (erase p) idx = Err e.
Proof. exact isplit_refines_err. Qed.
Print Assumptions C06_idx_split_refines_err.

Theorem C06_idx_split_preserves : forall p idx p', tree_okb (erase p) = true -> idx_ok p = true -> isplit p idx = Ok p' ->
  pieces (erase p') = pieces (erase p) /\ (duration (erase p') == duration (erase p))%Q /\ idx_ok p' = true.
Proof. exact isplit_preserves. Qed.
Print Assumptions C06_idx_split_preserves.

Theorem C06_idx_unroll_children_refines : forall t t', idx_ok t = true -> iunroll_children t = Ok t' ->
  unroll_children_op (erase t) = Ok (erase t') /\ idx_ok t' = true.
Proof. exact iunroll_children_refines. Qed.
Print Assumptions C06_idx_unroll_children_refines.

Theorem C06_idx_encapsulate_refines : forall t, idx_ok t = true ->
  erase (iencapsulate t) = encapsulate (erase t) /\ idx_ok (iencapsulate t) = true.
Proof. exact iencapsulate_refines. Qed.
Print Assumptions C06_idx_encapsulate_refines.

Theorem C06_idx_reverse_children_ok : forall t, sub_ok (i_ch t) = true -> idx_ok (reverse_children t) = true.
Proof. exact reverse_children_ok. Qed.
Print Assumptions C06_idx_reverse_children_ok.

Theorem C06_idx_representation : forall t, erase (index_tree t) = t /\ idx_ok (index_tree t) = true.
Proof. exact index_tree_ok. Qed.
Print Assumptions C06_idx_representation.

(* ---- volatile repetition counts (Model_vol.v).  [vtree]: the count of a node is [Fixed n] or [Volatile n tag]
   (VolatileRepetitionCount with current value n).  [Model_vol.erase]: what the program plays now; [instv val]: what it
   plays when every count is read through [val] — [multiplicative val] holds for the current values ([rv]) and for
   every re-evaluation of the volatile parameters ([rv_env env]).  unroll / unroll_children / split_one_child /
   flatten_and_balance freeze the current value (VolatileModificationWarning): they preserve the pulse at the current
   values; encapsulate / _merge_single_child / cleanup preserve it under every valuation. *)

Theorem C06_vol_unroll_preserves : forall p i p', tree_okb (Model_vol.erase p) = true -> vunroll_child p i = Ok p' ->
  pieces (Model_vol.erase p') = pieces (Model_vol.erase p) /\ (duration (Model_vol.erase p') == duration (Model_vol.erase p))%Q.
Proof. exact vunroll_preserves. Qed.
Print Assumptions C06_vol_unroll_preserves.

Theorem C06_vol_unroll_children_preserves : forall t t', tree_okb (Model_vol.erase t) = true -> vunroll_children_op t = Ok t' ->
  (pieces (Model_vol.erase t') = pieces (Model_vol.erase t) /\ (duration (Model_vol.erase t') == duration (Model_vol.erase t))%Q)
  /\ v_rep t' = Fixed 1.
Proof. exact vunroll_children_preserves. Qed.
Print Assumptions C06_vol_unroll_children_preserves.

Theorem C06_vol_split_preserves : forall t idx t', tree_okb (Model_vol.erase t) = true -> vsplit_one_child t idx = Ok t' ->
  pieces (Model_vol.erase t') = pieces (Model_vol.erase t) /\ (duration (Model_vol.erase t') == duration (Model_vol.erase t))%Q.
Proof. exact vsplit_preserves. Qed.
Print Assumptions C06_vol_split_preserves.

(* the search of split_one_child: the rightmost fixed child with count > 1 if there is one, else the rightmost volatile one *)
Theorem C06_vol_split_search : forall t k, vsplit_index t None = Ok k ->
  exists c, nth_error (v_ch t) k = Some c /\ 1 < rv (v_rep c) /\
    (is_vol (v_rep c) = false -> forall j c', (k < j)%nat -> nth_error (v_ch t) j = Some c' -> 1 < rv (v_rep c') ->
                                   is_vol (v_rep c') = true) /\
    (is_vol (v_rep c) = true -> (forall c', In c' (v_ch t) -> 1 < rv (v_rep c') -> is_vol (v_rep c') = true) /\
                                (forall j c', (k < j)%nat -> nth_error (v_ch t) j = Some c' -> rv (v_rep c') <= 1)).
Proof. exact vsplit_search_spec. Qed.
Print Assumptions C06_vol_split_search.

Theorem C06_vol_split_freezes : forall t idx k t', vsplit_index t idx = Ok k -> vsplit_one_child t idx = Ok t' ->
  exists a b, nth_error (v_ch t') k = Some a /\ nth_error (v_ch t') (S k) = Some b /\
              is_vol (v_rep a) = false /\ is_vol (v_rep b) = false.
Proof. exact vsplit_freezes. Qed.
Print Assumptions C06_vol_split_freezes.

(* ... and that is why it warns: the split program follows the volatile parameter no longer *)
Theorem C06_vol_split_not_all_env : exists t', vsplit_one_child ex_vol2 None = Ok t' /\ vsplit_warns ex_vol2 None = true /\
  pieces (inst ex_env3 t') = pieces (inst ex_env3 ex_vol2) /\ pieces (inst ex_env5 t') <> pieces (inst ex_env5 ex_vol2).
Proof. exact vsplit_not_all_env. Qed.
Print Assumptions C06_vol_split_not_all_env.

Theorem C06_vol_mergeable_sound : forall val t, multiplicative val -> vmergeable t = true -> mergeable (instv val t) = true.
Proof. exact vmergeable_instv. Qed.
Print Assumptions C06_vol_mergeable_sound.

Theorem C06_vol_merge_preserves_all : forall val t t', multiplicative val -> tree_okb (instv val t) = true ->
  vmerge_single_child t = Ok t' ->
  pieces (instv val t') = pieces (instv val t) /\ (duration (instv val t') == duration (instv val t))%Q.
Proof. exact vmerge_preserves_all. Qed.
Print Assumptions C06_vol_merge_preserves_all.

Theorem C06_vol_encapsulate_preserves_all : forall val t, multiplicative val -> tree_okb (instv val t) = true ->
  pieces (instv val (vencapsulate t)) = pieces (instv val t) /\ (duration (instv val (vencapsulate t)) == duration (instv val t))%Q.
Proof. exact vencapsulate_preserves_all. Qed.
Print Assumptions C06_vol_encapsulate_preserves_all.

Theorem C06_vol_cleanup_preserves_all : forall val rm mg t t', multiplicative val -> tree_okb (instv val t) = true ->
  vcleanup rm mg t = Ok t' ->
  pieces (instv val t') = pieces (instv val t) /\ (duration (instv val t') == duration (instv val t))%Q.
Proof. exact vcleanup_preserves_all. Qed.
Print Assumptions C06_vol_cleanup_preserves_all.

Theorem C06_vol_valuations : multiplicative rv /\ (forall env, multiplicative (rv_env env)) /\
  (forall t, Model_vol.erase t = instv rv t) /\ (forall env t, inst env t = instv (rv_env env) t).
Proof. exact (conj multiplicative_rv (conj multiplicative_rv_env (conj erase_instv inst_instv))). Qed.
Print Assumptions C06_vol_valuations.

Theorem C06_vol_cleanup_post : forall rm mg t t', vcleanup rm mg t = Ok t' ->
  (rm = true -> no_empty_below (Model_vol.erase t') = true) /\ (mg = true -> v_none_mergeable t' = true).
Proof. intros rm mg t t' H; split; intros ->; [exact (vcleanup_post _ _ _ H) | exact (vcleanup_none_mergeable _ _ _ H)]. Qed.
Print Assumptions C06_vol_cleanup_post.

Theorem C06_vol_flatten_preserves_post : forall fuel d t t', tree_okb (Model_vol.erase t) = true ->
  vflatten_and_balance fuel d t = Ok t' ->
  (pieces (Model_vol.erase t') = pieces (Model_vol.erase t) /\ (duration (Model_vol.erase t') == duration (Model_vol.erase t))%Q)
  /\ (1 <= d -> v_ch t' <> [] -> vdepth t' = d /\ vbalanced t' = true)
  /\ (d <= 0 -> forallb v_is_leaf (v_ch t') = true).
Proof. exact vflatten_preserves. Qed.
Print Assumptions C06_vol_flatten_preserves_post.

Theorem C06_vol_flatten_terminates : forall d t, exists n, forall k, vflatten_and_balance (n + k) d t <> Err OutOfFuel.
Proof. exact vflatten_terminates. Qed.
Print Assumptions C06_vol_flatten_terminates.

Theorem C06_vol_flatten_total : forall d t, exists n, forall k,
  (exists t', vflatten_and_balance (n + k) d t = Ok t') \/ vflatten_and_balance (n + k) d t = Err EAssert.
Proof. exact vflatten_total. Qed.
Print Assumptions C06_vol_flatten_total.

(* the loop that also reports the warning (used by the correspondence) is the same loop *)
Theorem C06_vol_flatten_w_fst : forall f d t, rmap fst (vflatten_and_balance_w f d t) = vflatten_and_balance f d t.
Proof. exact vflatten_w_fst. Qed.
Print Assumptions C06_vol_flatten_w_fst.

(* without volatile counts the volatile-aware rewrites are the plain ones *)
Theorem C06_vol_conservative : forall f d t idx, any_volatile t = false ->
  rmap Model_vol.erase (vflatten_and_balance f d t) = flatten_and_balance f d (Model_vol.erase t)
  /\ rmap Model_vol.erase (vsplit_one_child t idx) = split_one_child (Model_vol.erase t) idx.
Proof. intros f d t idx H; split; [exact (vflatten_conservative f d t H) | exact (vsplit_conservative t idx H)]. Qed.
Print Assumptions C06_vol_conservative.

(* ------------------------------------------------------------------------------------------------------------------ *)
(* make_compatible / roll_constant_waveforms on programs with volatile repetition counts (Model_vol.v, last section).
   The second component of [vis_compatible_w] / [vmake_compatible_w] is "a VolatileModificationWarning was emitted". *)

(* the compatibility level is decided from the current values only *)
Theorem C06_vol_is_compatible_level : forall ml q sr t,
  rmap fst (vis_compatible_w ml q sr t) = is_compatible ml q sr (Model_vol.erase t).
Proof. exact vis_compatible_level. Qed.
Print Assumptions C06_vol_is_compatible_level.

Theorem C06_vol_make_compatible_refines : forall rp ml q sr t,
  rmap (fun p => Model_vol.erase (fst p)) (vmake_compatible_w rp ml q sr t) = make_compatible ml q sr (Model_vol.erase t).
Proof. exact vmake_compatible_refines. Qed.
Print Assumptions C06_vol_make_compatible_refines.

Theorem C06_vol_make_compatible_preserves_post : forall rp ml q sr t t' w, tree_ok1b (Model_vol.erase t) = true ->
  vmake_compatible_w rp ml q sr t = Ok (t', w) ->
  same_play (pieces (Model_vol.erase t')) (pieces (Model_vol.erase t)) /\
  (duration (Model_vol.erase t') == duration (Model_vol.erase t))%Q /\
  ((0 < q)%Z -> (0 < sr)%Q -> leaves_ok ml q sr (Model_vol.erase t') = true).
Proof. exact vmake_compatible_preserves_post. Qed.
Print Assumptions C06_vol_make_compatible_preserves_post.

(* make_compatible never creates a volatile count *)
Theorem C06_vol_make_compatible_count_le : forall rp ml q sr t t' w, vmake_compatible_w rp ml q sr t = Ok (t', w) ->
  (vol_count t' <= vol_count t)%nat.
Proof. exact vmake_compatible_count_le. Qed.
Print Assumptions C06_vol_make_compatible_count_le.

(* when it loses no volatile count, the rewritten program follows the volatile parameters exactly *)
Theorem C06_vol_make_compatible_faithful : forall rp ml q sr t t' w env, vmake_compatible_w rp ml q sr t = Ok (t', w) ->
  vol_count t' = vol_count t -> tree_ok1b (inst env t) = true ->
  same_play (pieces (inst env t')) (pieces (inst env t)) /\ (duration (inst env t') == duration (inst env t))%Q.
Proof. exact vmake_compatible_faithful. Qed.
Print Assumptions C06_vol_make_compatible_faithful.

(* [rp = false]: _make_compatible as it was up to round 3.  "no VolatileModificationWarning => the program still follows
   its volatile parameters" does NOT hold of it: a volatile child that is too short is merged away by the early return of
   _is_compatible, silently (finding C06-make-compatible-silent-volatile-freeze, repaired in round 4) *)
Theorem C06_vol_make_compatible_silent_freeze_refuted : exists t t' env,
  vmake_compatible_w false 16 4 1%Q t = Ok (t', false) /\ any_volatile t = true /\ any_volatile t' = false /\
  consistent (fun _ => 2) t = true /\ tree_ok1b (inst env t) = true /\
  ~ (duration (inst env t') == duration (inst env t))%Q.
Proof. exact vmake_compatible_silent_freeze_refuted. Qed.
Print Assumptions C06_vol_make_compatible_silent_freeze_refuted.

(* [rp = true]: the repaired _make_compatible (warns before it concatenates a sub-program that holds a volatile count).
   The repair changes nothing but the warning flag, and never takes a warning away ... *)
Theorem C06_vol_make_compatible_repair_only_warns : forall ml q sr t,
  match vmake_compatible_w true ml q sr t, vmake_compatible_w false ml q sr t with
  | Ok (t1, w1), Ok (t0, w0) => t1 = t0 /\ (w0 = true -> w1 = true)
  | Err e1, Err e0 => e1 = e0
  | _, _ => False
  end.
Proof. exact vmake_compatible_repair_only_warns. Qed.
Print Assumptions C06_vol_make_compatible_repair_only_warns.

(* ... no VolatileModificationWarning => no volatile count is lost (the statement that is refuted above for rp = false) ... *)
Theorem C06_vol_make_compatible_repaired_keeps_counts : forall ml q sr t t',
  vmake_compatible_w true ml q sr t = Ok (t', false) -> vol_count t' = vol_count t.
Proof. exact vmake_compatible_repaired_keeps_counts. Qed.
Print Assumptions C06_vol_make_compatible_repaired_keeps_counts.

(* ... and so the rewritten program follows the volatile parameters: same pulse under EVERY re-evaluation of the counts *)
Theorem C06_vol_make_compatible_repaired_follows : forall ml q sr t t' env,
  vmake_compatible_w true ml q sr t = Ok (t', false) -> tree_ok1b (inst env t) = true ->
  same_play (pieces (inst env t')) (pieces (inst env t)) /\ (duration (inst env t') == duration (inst env t))%Q.
Proof. exact vmake_compatible_repaired_follows. Qed.
Print Assumptions C06_vol_make_compatible_repaired_follows.

(* roll_constant_waveforms decides from the waveform only and multiplies the repetition DEFINITION *)
Theorem C06_vol_roll_refines_all : forall val mq q sr t, multiplicative val ->
  rmap (instv val) (vroll_constant_waveforms mq q sr t) = roll_constant_waveforms mq q sr (instv val t).
Proof. exact vroll_refines_all. Qed.
Print Assumptions C06_vol_roll_refines_all.

Theorem C06_vol_roll_preserves_all : forall val mq q sr t t', multiplicative val -> (0 < q)%Z -> (0 < sr)%Q ->
  tree_ok1b (instv val t) = true -> vroll_constant_waveforms mq q sr t = Ok t' ->
  same_play (pieces (instv val t')) (pieces (instv val t)) /\ (duration (instv val t') == duration (instv val t))%Q.
Proof. exact vroll_preserves_all. Qed.
Print Assumptions C06_vol_roll_preserves_all.

(* ------------------------------------------------------------------------------------------------------------------ *)
(* Round 5 (audit): the clause "terminates ... or the rewrite fails with an error" as totality statements.  On a valid
   program flatten_and_balance ALWAYS returns (the [Err EAssert] alternative of [C06_flatten_total] is never taken);
   to_waveform and roll_constant_waveforms always return; make_compatible returns unless the program's own length is
   incompatible, and then the error is the ValueError.  [root_incompatible] (Proofs_r5_mc.v) is a plain predicate on the
   program's duration: duration * sample_rate not whole, or < min_len, or not a multiple of the quantum. *)

Theorem C06_flatten_total_ok : forall d t, tree_okb t = true ->
  exists n, forall k, exists t', flatten_and_balance (n + k) d t = Ok t'.
Proof. exact flatten_total_ok. Qed.
Print Assumptions C06_flatten_total_ok.

Theorem C06_vol_flatten_total_ok : forall d t, tree_okb (Model_vol.erase t) = true ->
  exists n, forall k, exists t', vflatten_and_balance (n + k) d t = Ok t'.
Proof. exact vflatten_total_ok. Qed.
Print Assumptions C06_vol_flatten_total_ok.

Theorem C06_to_waveform_total : forall t, tree_ok1b t = true -> exists x, to_waveform t = Ok x.
Proof. exact to_waveform_total. Qed.
Print Assumptions C06_to_waveform_total.

Theorem C06_make_compatible_total : forall ml q sr t, tree_ok1b t = true -> 0 < q ->
  (exists t', make_compatible ml q sr t = Ok t' /\ root_incompatible ml q sr t = false) \/
  (make_compatible ml q sr t = Err EValue /\ root_incompatible ml q sr t = true).
Proof. exact make_compatible_total. Qed.
Print Assumptions C06_make_compatible_total.

Theorem C06_roll_total : forall mq q sr t, tree_ok1b t = true -> 0 < q -> 1 <= mq ->
  exists t', roll_constant_waveforms mq q sr t = Ok t'.
Proof. exact roll_total. Qed.
Print Assumptions C06_roll_total.

Theorem C06_vol_make_compatible_total : forall rp ml q sr t, tree_ok1b (Model_vol.erase t) = true -> 0 < q ->
  (exists t' w, vmake_compatible_w rp ml q sr t = Ok (t', w) /\ root_incompatible ml q sr (Model_vol.erase t) = false) \/
  (vmake_compatible_w rp ml q sr t = Err EValue /\ root_incompatible ml q sr (Model_vol.erase t) = true).
Proof. exact vmake_compatible_total. Qed.
Print Assumptions C06_vol_make_compatible_total.

Theorem C06_vol_roll_total : forall mq q sr t, tree_ok1b (Model_vol.erase t) = true -> 0 < q -> 1 <= mq ->
  exists t', vroll_constant_waveforms mq q sr t = Ok t'.
Proof. exact vroll_total. Qed.
Print Assumptions C06_vol_roll_total.

(* ---- round 6: Waveform.constant_value(channel) and the short cut of Waveform.get_sampled (Model_cv.v).  The drivers
   sample the leaves of the prepared program through get_sampled; for the composite leaves that to_waveform /
   make_compatible build, the answer of constant_value is a computation over the parts.  [acv]: what the opaque atoms
   answer per channel (oracle); [avolt]: their voltage functions. *)

(* an answer is a promise about everything the waveform plays *)
Theorem C06_constant_value_sound : forall acv w c x,
  constant_value acv w c = Some x -> Forall (const_on acv c x) (wf_pieces w).
Proof. exact constant_value_sound. Qed.
Print Assumptions C06_constant_value_sound.

(* executable form, what [Corr.check_spec] evaluates on the answers of the real objects *)
Theorem C06_constant_value_admissible : forall acv w c, cv_admissible acv w c (constant_value acv w c) = true.
Proof. exact constant_value_admissible. Qed.
Print Assumptions C06_constant_value_admissible.

Theorem C06_shortcut_plays : forall acv w c x t, wf_ok1b w = true ->
  constant_value acv w c = Some x -> (0 <= t)%Q -> (t < wf_dur w)%Q ->
  exists s y, play_at (wf_pieces w) t = Some s /\ sample_cv acv s c = Some y /\ (y == x)%Q.
Proof. exact shortcut_plays. Qed.
Print Assumptions C06_shortcut_plays.

(* get_sampled = unsafe_sample at every time of the waveform, provided the atoms keep the promise of their own answers:
   the pieces-preservation theorems above therefore also speak about what the drivers upload *)
Theorem C06_get_sampled_eq_unsafe_sample : forall acv avolt w c t, acv_sound acv avolt -> wf_ok1b w = true ->
  (0 <= t)%Q -> (t < wf_dur w)%Q ->
  optQ_eq (get_sampled_at acv avolt w c t) (unsafe_at avolt w c t).
Proof. exact get_sampled_eq_unsafe_sample. Qed.
Print Assumptions C06_get_sampled_eq_unsafe_sample.

(* the decision is complete (the short cut is taken whenever every piece is constant at one value) on waveforms without
   an empty sequence inside; without that guard it is not ([WSeq [c; WSeq []]] answers None) *)
Theorem C06_constant_value_complete : forall acv w c x, wf_ok1b w = true -> no_empty_seq w = true ->
  Forall (const_on acv c x) (wf_pieces w) -> exists y, constant_value acv w c = Some y /\ (y == x)%Q.
Proof. exact constant_value_complete_ne. Qed.
Print Assumptions C06_constant_value_complete.

Theorem C06_constant_value_complete_unguarded_refuted : exists acv w c x, wf_ok1b w = true /\ wf_pieces w <> [] /\
  Forall (const_on acv c x) (wf_pieces w) /\ constant_value acv w c = None.
Proof. exact constant_value_complete_refuted. Qed.
Print Assumptions C06_constant_value_complete_unguarded_refuted.

(* the loop with `not v` in place of `v is None` (seed C06-9): 0 V then 1 V is answered "constant at 1 V", which is not
   admissible for the pieces; the loop of /repo answers None *)
Theorem C06_constant_value_falsy_loop_refuted :
  seq_cv_loop_falsy None [Some 0%Q; Some 1%Q] = Some 1%Q /\ seq_cv_loop None [Some 0%Q; Some 1%Q] = None
  /\ cv_admissible (fun _ _ => None) (WSeq [WConst 4 [(0%N, 0%Q)]; WConst 12 [(0%N, 1%Q)]]) 0%N (Some 1%Q) = false.
Proof. exact falsy_loop_refuted. Qed.
Print Assumptions C06_constant_value_falsy_loop_refuted.
