(* C06 — round 5 (audit): the volatile-aware flatten_and_balance on a valid program cannot fail either. *)
From Coq Require Import ZArith QArith List Bool Lia ZifyBool.
Require Import QV.C06.Model QV.C06.Spec QV.C06.Model_vol QV.C06.Proofs_base QV.C06.Proofs_struct QV.C06.Proofs_post
               QV.C06.Proofs_props QV.C06.Proofs_term QV.C06.Proofs_vol QV.C06.Proofs_vol_term.
Import ListNotations.
Open Scope Z_scope.

Lemma v_wf_none_inner sub : tree_okb (erase sub) = true -> v_is_leaf sub = false -> v_wf sub = None.
Proof.
  intros Hok Hl. pose proof (has_wf_erase sub) as Hw. rewrite <- is_leaf_erase in Hl.
  destruct (erase sub) as [r w m ch] eqn:E. destruct (okb_inv _ _ _ _ Hok) as (_ & _ & Hn).
  unfold is_leaf in Hl. cbn [t_ch] in Hl. assert (w = None) as -> by (apply Hn; destruct ch; congruence).
  unfold has_wf in Hw. cbn [t_wf] in Hw. unfold v_has_wf in Hw. destruct (v_wf sub); [discriminate|reflexivity].
Qed.

Lemma vfab_list_err_fuel : forall f d todo e, forallb tree_okb (map erase todo) = true -> vfab_list f d todo = Err e ->
  e = OutOfFuel.
Proof.
  induction f as [|f IH]; intros d todo e Hok He; [inversion He; auto|].
  rewrite vfab_list_S in He. destruct todo as [|sub rest]; [discriminate|].
  cbn [map forallb] in Hok. apply andb_true_iff in Hok. destruct Hok as [Hs Hrest].
  destruct (vdepth sub <? d - 1).
  { eapply IH; [|exact He]. cbn [map forallb]. rewrite vencapsulate_erase, encapsulate_ok, Hrest; auto. }
  destruct (negb (vbalanced sub)) eqn:Hb.
  { destruct (vfab_list f (d - 1) (v_ch sub)) as [cs|e1] eqn:H1; cbn [bind] in He.
    - assert (forallb tree_okb (map erase (v_ch sub)) = true) as Hc
        by (rewrite <- t_ch_erase; apply okb_children; auto).
      destruct (vfab_list_pieces _ _ _ _ Hc H1) as [Hp Ho].
      assert (is_leaf (erase sub) = false) as Hl.
      { rewrite is_leaf_erase. destruct (v_is_leaf sub) eqn:E; auto. rewrite vbalanced_leaf in Hb; auto; discriminate. }
      rewrite <- t_ch_erase in Hp.
      destruct (set_ch_pieces_ok (erase sub) (map erase cs) Hs Hl Hp Ho) as [_ Ho'].
      eapply IH; [|exact He]. cbn [map forallb]. rewrite erase_vset_ch, Ho', Hrest. auto.
    - inversion He; subst e1. eapply IH; [|exact H1]. rewrite <- t_ch_erase. apply okb_children; auto. }
  destruct (vdepth sub =? d - 1).
  { destruct (vfab_list f d rest) as [r|e1] eqn:H1; cbn [bind] in He; [discriminate|].
    inversion He; subst e1. eapply IH; eauto. }
  destruct (vmergeable sub) eqn:Hm.
  { assert (v_is_leaf sub = false) as Hl.
    { destruct (v_is_leaf sub) eqn:E; auto. rewrite vmergeable_leaf in Hm; auto; discriminate. }
    destruct (vmerge_defined sub Hm (v_wf_none_inner sub Hs Hl)) as [s Hms]. rewrite Hms in He. cbn [bind] in He.
    pose proof (vmerge_erase _ _ Hms) as Hme.
    eapply IH; [|exact He]. cbn [map forallb]. rewrite (merge_single_child_ok _ _ Hs Hme), Hrest. auto. }
  destruct (negb (v_is_leaf sub)) eqn:Hl.
  { eapply IH; [|exact He]. rewrite map_app, forallb_app, Hrest, <- unrolled_erase. unfold unrolled.
    rewrite Proofs_struct.forallb_rep_list; auto. apply okb_children; auto. }
  destruct (vfab_list f d rest) as [r|e1] eqn:H1; cbn [bind] in He; [discriminate|].
  inversion He; subst e1. eapply IH; eauto.
Qed.

Theorem vflatten_total_ok : forall d t, tree_okb (erase t) = true ->
  exists n, forall k, exists t', vflatten_and_balance (n + k) d t = Ok t'.
Proof.
  intros d t Hok. destruct (vflatten_terminates d t) as [n Hn]. exists n. intros k.
  specialize (Hn k). destruct (vflatten_and_balance (n + k) d t) as [t'|e] eqn:E; [eauto|exfalso].
  unfold vflatten_and_balance in E. destruct (vfab_list (n + k) d (v_ch t)) as [cs|e'] eqn:E'; cbn [bind] in E; [discriminate|].
  inversion E; subst e'. apply Hn. f_equal. eapply vfab_list_err_fuel; [|exact E'].
  rewrite <- t_ch_erase. apply okb_children; auto.
Qed.

(* make_compatible / roll_constant_waveforms on volatile programs: total on valid programs, the only error is the
   ValueError for a program whose own length is incompatible (through the refinement to the plain model) *)
Require Import QV.C06.Proofs_vol_mc QV.C06.Proofs_r5_mc.

Theorem vmake_compatible_total : forall rp ml q sr t, tree_ok1b (erase t) = true -> 0 < q ->
  (exists t' w, vmake_compatible_w rp ml q sr t = Ok (t', w) /\ root_incompatible ml q sr (erase t) = false) \/
  (vmake_compatible_w rp ml q sr t = Err EValue /\ root_incompatible ml q sr (erase t) = true).
Proof.
  intros rp ml q sr t Hok Hq. pose proof (vmake_compatible_refines rp ml q sr t) as Href.
  destruct (make_compatible_total ml q sr (erase t) Hok Hq) as [(t'' & H1 & H2)|(H1 & H2)]; rewrite H1 in Href.
  - left. destruct (vmake_compatible_w rp ml q sr t) as [[t' w]|e]; cbn in Href; [|discriminate]. eauto.
  - right. destruct (vmake_compatible_w rp ml q sr t) as [[t' w]|e]; cbn in Href; [discriminate|].
    inversion Href; subst. auto.
Qed.

Theorem vroll_total : forall mq q sr t, tree_ok1b (erase t) = true -> 0 < q -> 1 <= mq ->
  exists t', vroll_constant_waveforms mq q sr t = Ok t'.
Proof.
  intros mq q sr t Hok Hq Hm. pose proof (vroll_refines_all rv mq q sr t multiplicative_rv) as Href.
  rewrite <- erase_instv in Href. destruct (roll_total mq q sr (erase t) Hok Hq Hm) as [t'' H1]. rewrite H1 in Href.
  destruct (vroll_constant_waveforms mq q sr t) as [t'|e]; cbn in Href; [eauto|discriminate].
Qed.
