(* C06 — qupulse.utils.numeric.smallest_factor_ge: the definition that the fail-closed translator
   (/verif/translate/py2gallina_c06.py) produces from the CURRENT source (Gen_sfg.v, regenerated on every run) is equal
   to the hand-written model [Model.smallest_factor_ge], for every fall-back function that meets the fall-back's
   contract; the probe loop is correct by itself; the model computes the smallest factor >= min_factor.

   The sympy fall-back of the code (`min(filter(partial(le, min_factor), sympy.ntheory.divisors(n, generator=True)))`) is
   not translated: it is the parameter [fb] of the generated definition and enters only through [fallback_spec].
   If the Python source changes, either the translator refuses or this file stops compiling. *)
From Coq Require Import ZArith Bool Lia.
Require Import QV.C06.Model QV.C06.Gen_sfg.
Open Scope Z_scope.

(* k is the smallest factor of n that is >= m *)
Definition is_smallest_factor_ge (n m k : Z) : Prop :=
  m <= k <= n /\ n mod k = 0 /\ forall j, m <= j < k -> n mod j <> 0.

(* contract of the untranslated fall-back expression (on the arguments with which the code can reach it) *)
Definition fallback_spec (fb : Z -> Z -> Z) : Prop :=
  forall n m, 1 <= m <= n -> is_smallest_factor_ge n m (fb n m).

Lemma is_smallest_factor_ge_unique n m k1 k2 :
  is_smallest_factor_ge n m k1 -> is_smallest_factor_ge n m k2 -> k1 = k2.
Proof.
  intros (B1 & D1 & L1) (B2 & D2 & L2).
  destruct (Z.lt_trichotomy k1 k2) as [H|[H|H]]; [|exact H|].
  - exfalso. apply (L2 k1); [lia|exact D1].
  - exfalso. apply (L1 k2); [lia|exact D2].
Qed.

(* ------------------------------------------------------------------------------------------------------------------ *)
(* the hand-written model *)

Lemma sfg_loop_smallest : forall fuel n k,
  1 <= k <= n -> Z.of_nat fuel = n - k + 1 -> is_smallest_factor_ge n k (sfg_loop fuel n k).
Proof.
  induction fuel as [|f IH]; intros n k Hk Hf; [lia|].
  cbn [sfg_loop]. destruct (n mod k =? 0) eqn:E.
  - apply Z.eqb_eq in E. split; [lia|split; [exact E|intros j Hj; lia]].
  - apply Z.eqb_neq in E.
    assert (k <> n) as Hne by (intros ->; apply E, Z.mod_same; lia).
    destruct (IH n (k + 1)) as (B & D & L); [lia|lia|].
    split; [lia|split; [exact D|]].
    intros j Hj. destruct (Z.eq_dec j k) as [->|Hjk]; [exact E|apply L; lia].
Qed.

Theorem sfg_model_correct : forall n m k,
  smallest_factor_ge n m = Ok k -> 1 <= m ->
  m <= k <= n /\ n mod k = 0 /\ forall j, m <= j < k -> n mod j <> 0.
Proof.
  intros n m k H Hm. unfold smallest_factor_ge in H.
  destruct (m <=? 0) eqn:E1; [discriminate|]. destruct (n <? m) eqn:E2; [discriminate|].
  apply Z.ltb_ge in E2. inversion H; subst k.
  apply sfg_loop_smallest; [lia|]. rewrite Z2Nat.id; lia.
Qed.

(* the model is total on its domain: Ok exactly when 1 <= m <= n *)
Lemma sfg_model_defined n m : 1 <= m <= n -> exists k, smallest_factor_ge n m = Ok k.
Proof.
  intros H. unfold smallest_factor_ge.
  replace (m <=? 0) with false by (symmetry; apply Z.leb_gt; lia).
  replace (n <? m) with false by (symmetry; apply Z.ltb_ge; lia).
  eexists; reflexivity.
Qed.

(* ------------------------------------------------------------------------------------------------------------------ *)
(* the translated probe loop: `for factor in range(f, f + cnt): if n % factor == 0: return factor` *)

Lemma sfg_probe_spec : forall cnt n m bf f, 1 <= f ->
  match smallest_factor_ge_src_probe n m bf cnt f with
  | Some r => exists k, r = Ok k /\ f <= k < f + Z.of_nat cnt /\ n mod k = 0 /\ forall j, f <= j < k -> n mod j <> 0
  | None => forall j, f <= j < f + Z.of_nat cnt -> n mod j <> 0
  end.
Proof.
  induction cnt as [|c IH]; intros n m bf f Hf.
  - cbn. intros j Hj; lia.
  - cbn [smallest_factor_ge_src_probe].
    replace (f =? 0) with false by (symmetry; apply Z.eqb_neq; lia).
    destruct (n mod f =? 0) eqn:E.
    + apply Z.eqb_eq in E. exists f. split; [reflexivity|split; [lia|split; [exact E|intros j Hj; lia]]].
    + apply Z.eqb_neq in E. specialize (IH n m bf (f + 1) ltac:(lia)).
      destruct (smallest_factor_ge_src_probe n m bf c (f + 1)) as [r|].
      * destruct IH as (k & Hr & Hk & Hd & Hl). exists k. split; [exact Hr|split; [lia|split; [exact Hd|]]].
        intros j Hj. destruct (Z.eq_dec j f) as [->|Hjf]; [exact E|apply Hl; lia].
      * intros j Hj. destruct (Z.eq_dec j f) as [->|Hjf]; [exact E|apply IH; lia].
Qed.

(* how the translated function uses the loop: assert, range bounds, for-else (by computation: breaks when the source's
   assert or range changes) *)
Lemma sfg_src_unfold fb n m bf :
  smallest_factor_ge_src fb n m bf =
  if m <=? n then
    match smallest_factor_ge_src_probe n m bf (Z.to_nat (Z.min (m + bf) n - m)) m with
    | Some r => r
    | None => Ok (fb n m)
    end
  else Err EAssert.
Proof. reflexivity. Qed.

(* (b) the probe loop by itself, for an ARBITRARY fall-back: either the function returns from the probe -- then the
   result lies in the probed range [min_factor, min(min_factor + brute_force, n)), divides n and nothing between
   min_factor and it does -- or nothing in the probed range divides n and the result is the fall-back's value *)
Theorem sfg_probe_correct : forall (fb : Z -> Z -> Z) n m bf, 1 <= m -> m <= n ->
  (exists k, smallest_factor_ge_src fb n m bf = Ok k /\
             m <= k < Z.min (m + bf) n /\ n mod k = 0 /\ (forall j, m <= j < k -> n mod j <> 0))
  \/ (smallest_factor_ge_src fb n m bf = Ok (fb n m) /\
      forall j, m <= j < Z.min (m + bf) n -> n mod j <> 0).
Proof.
  intros fb n m bf Hm Hn. rewrite sfg_src_unfold.
  replace (m <=? n) with true by (symmetry; apply Z.leb_le; lia).
  pose proof (sfg_probe_spec (Z.to_nat (Z.min (m + bf) n - m)) n m bf m Hm) as P.
  destruct (smallest_factor_ge_src_probe n m bf (Z.to_nat (Z.min (m + bf) n - m)) m) as [r|].
  - left. destruct P as (k & -> & Hk & Hd & Hl). exists k. split; [reflexivity|split; [lia|split; [exact Hd|exact Hl]]].
  - right. split; [reflexivity|]. intros j Hj. apply P. lia.
Qed.

(* (a) translated source = model, for every brute_force (a negative one gives an empty range) *)
Theorem sfg_src_eq_model : forall (fb : Z -> Z -> Z), fallback_spec fb ->
  forall n m bf, 1 <= m -> smallest_factor_ge_src fb n m bf = smallest_factor_ge n m.
Proof.
  intros fb Hfb n m bf Hm.
  destruct (Z_lt_le_dec n m) as [Hlt|Hle].
  - rewrite sfg_src_unfold. unfold smallest_factor_ge.
    replace (m <=? n) with false by (symmetry; apply Z.leb_gt; lia).
    replace (m <=? 0) with false by (symmetry; apply Z.leb_gt; lia).
    replace (n <? m) with true by (symmetry; apply Z.ltb_lt; lia). reflexivity.
  - destruct (sfg_model_defined n m ltac:(lia)) as (k0 & Hk0). rewrite Hk0.
    pose proof (sfg_model_correct n m k0 Hk0 Hm) as S0.
    destruct (sfg_probe_correct fb n m bf Hm Hle) as [(k & -> & Hk & Hd & Hl)|(-> & Hnone)]; f_equal.
    + apply (is_smallest_factor_ge_unique n m); [|exact S0]. split; [lia|split; [exact Hd|exact Hl]].
    + apply (is_smallest_factor_ge_unique n m); [|exact S0]. apply Hfb. lia.
Qed.

(* the call as the code makes it (roll_constant_waveforms passes no brute_force: default from the source) *)
Theorem sfg_src_dflt_eq_model : forall (fb : Z -> Z -> Z), fallback_spec fb ->
  forall n m, 1 <= m -> smallest_factor_ge_src_dflt fb n m = smallest_factor_ge n m.
Proof. intros fb Hfb n m Hm. unfold smallest_factor_ge_src_dflt. apply sfg_src_eq_model; assumption. Qed.

(* the translated source computes the smallest factor >= min_factor *)
Theorem sfg_src_correct : forall (fb : Z -> Z -> Z), fallback_spec fb ->
  forall n m bf, 1 <= m <= n -> exists k, smallest_factor_ge_src fb n m bf = Ok k /\ is_smallest_factor_ge n m k.
Proof.
  intros fb Hfb n m bf H. destruct (sfg_model_defined n m H) as (k & Hk). exists k.
  rewrite sfg_src_eq_model by (assumption || lia). split; [exact Hk|].
  apply (sfg_model_correct n m k Hk). lia.
Qed.

(* ------------------------------------------------------------------------------------------------------------------ *)
(* non-vacuity *)

(* a function that meets the fall-back's contract exists (exhaustive upward search) *)
Definition fb_search (n m : Z) : Z := sfg_loop (Z.to_nat (n - m + 1)) n m.

Example fallback_spec_inhabited : fallback_spec fb_search.
Proof. intros n m H. unfold fb_search. apply sfg_loop_smallest; [lia|]. rewrite Z2Nat.id; lia. Qed.

(* found by the probe: range(3, 8) probes 3, 4, 5; the fall-back is never consulted *)
Example sfg_src_35_3 : forall fb, smallest_factor_ge_src fb 35 3 5 = Ok 5.
Proof. reflexivity. Qed.

(* through the fall-back: range(8, 13) holds no factor of 49 *)
Example sfg_src_49_8 : smallest_factor_ge_src fb_search 49 8 5 = Ok 49.
Proof. vm_compute. reflexivity. Qed.

Example sfg_src_49_8_model : smallest_factor_ge 49 8 = Ok 49.
Proof. vm_compute. reflexivity. Qed.

(* the probed range ends before n: n itself is left to the fall-back *)
Example sfg_src_7_5 : forall fb, smallest_factor_ge_src fb 7 5 5 = Ok (fb 7 5).
Proof. reflexivity. Qed.

(* failing assert *)
Example sfg_src_assert : forall fb, smallest_factor_ge_src fb 3 5 5 = Err EAssert.
Proof. reflexivity. Qed.

(* outside the theorems' domain (min_factor <= 0) a probed 0 is an explicit error, as python's ZeroDivisionError *)
Example sfg_src_zero : forall fb, smallest_factor_ge_src fb 7 0 5 = Err EZeroDiv.
Proof. reflexivity. Qed.
