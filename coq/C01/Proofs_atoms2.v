(* C01 — the atomic obligation for ALL atom kinds (incl. AtomicMultiChannelPT, ArithmeticAtomicPT), by induction on the
   atom with a structural invariant of the built waveform (`wshape`: atomic, not reversed, duplicate-free non-empty
   channel list) from which the coherence of constant_value_dict follows (`wcvd_coherent`). *)
From Coq Require Import ZArith QArith Qround List Bool Lia Lqa Setoid.
Require Import QV.common.Util QV.C01.Model QV.C01.Spec QV.C01.Proofs QV.C01.ProofsDefs QV.C01.Proofs_trafo
        QV.C01.Proofs_table QV.C01.Proofs_comp QV.C01.Proofs_atoms QV.C01.Proofs_main QV.C01.Proofs_sampling
        QV.C01.Proofs_leaves.
Import ListNotations.
Open Scope Q_scope.
Arguments Qred : simpl never.  Arguments Qplus : simpl never.  Arguments Qminus : simpl never.
Arguments Qmult : simpl never. Arguments Qdiv : simpl never.   Arguments Qopp : simpl never.
Arguments Qinv : simpl never.  Arguments Qle_bool : simpl never. Arguments Qeq_bool : simpl never.
Arguments Qfloor : simpl never. Arguments inject_Z : simpl never. Arguments Z.to_nat : simpl never.

(* ---------------------------------------------------------------------------------------------------------- *)
(* S1. duplicate-free channel lists *)
Lemma nodupb_app a : forall b, nodupb (a ++ b) = true <->
  nodupb a = true /\ nodupb b = true /\ forall c, cmem c b = true -> cmem c a = false.
Proof.
  induction a as [|x a IH]; intros b; simpl.
  - split; [intro H; repeat split; auto|tauto].
  - rewrite andb_true_iff, negb_true_iff, cmem_app, IH. split.
    + intros (H1 & H2 & H3 & H4). apply orb_false_elim in H1 as (H1a & H1b).
      rewrite H1a. repeat split; auto. intros c Hc.
      destruct (chan_eqb c x) eqn:E; simpl; auto. apply chan_eqb_eq in E. subst. congruence.
    + intros (H1 & H2 & H3). apply andb_prop in H1 as (H1a & H1b). apply negb_true_iff in H1a.
      repeat split; auto.
      * rewrite H1a. simpl. destruct (cmem x b) eqn:E; auto. specialize (H3 x E). rewrite chan_eqb_refl in H3. discriminate.
      * intros c Hc. specialize (H3 c Hc). apply orb_false_elim in H3. tauto.
Qed.

Lemma wchans_multi : forall l, wchans (WMulti l) = flat_map wchans l.
Proof. induction l as [|x r IH]; [reflexivity|]. rewrite wchans_multi_cons, IH. reflexivity. Qed.

Lemma no_seq_rep_multi : forall l, no_seq_rep (WMulti l) = forallb no_seq_rep l.
Proof. induction l as [|x r IH]; [reflexivity|]. rewrite no_seq_rep_multi_cons, IH. reflexivity. Qed.

Lemma disjoint_chans_nodup : forall ws seen, disjoint_chans ws seen = true ->
  Forall (fun w => nodupb (wchans w) = true) ws ->
  nodupb (flat_map wchans ws) = true /\ forall c, cmem c (flat_map wchans ws) = true -> cmem c seen = false.
Proof.
  induction ws as [|x r IH]; intros seen H HF; simpl in *.
  - split; auto. intros; discriminate.
  - apply andb_prop in H as (H1 & H2). apply negb_true_iff in H1. inversion HF; subst.
    destruct (IH _ H2 H4) as (N & D).
    assert (Hx : forall c, cmem c (wchans x) = true -> cmem c seen = false).
    { intros c Hc. destruct (cmem c seen) eqn:E; auto.
      assert (X : existsb (fun c0 => cmem c0 seen) (wchans x) = true).
      { apply existsb_exists. unfold cmem in Hc. apply existsb_exists in Hc as (y & Hin & Hy).
        apply chan_eqb_eq in Hy. subst. eauto. }
      congruence. }
    split.
    + apply nodupb_app. repeat split; auto. intros c Hc. specialize (D c Hc). rewrite cmem_app in D.
      apply orb_false_elim in D. tauto.
    + intros c Hc. rewrite cmem_app in Hc. apply orb_prop in Hc. destruct Hc as [Hc|Hc]; [apply Hx; exact Hc|].
      specialize (D c Hc). rewrite cmem_app in D. apply orb_false_elim in D. tauto.
Qed.

(* ---------------------------------------------------------------------------------------------------------- *)
(* S2. constant_value_dict of an atomic waveform with duplicate-free channels is coherent *)
Lemma wcvd_coherent : forall w, no_seq_rep w = true -> nodupb (wchans w) = true -> forall d, wcvd w = Some d ->
  map fst d = wchans w /\ forall c v t, cassoc c d = Some v -> wsample w c t = Some v.
Proof.
  induction w using wf_ind2; intros Hn Hd dd Hw; try (simpl in Hw; discriminate); try (simpl in Hn; discriminate).
  - simpl in Hw. inversion Hw; subst dd. split; [reflexivity|]. intros ch u t Hc. simpl in *.
    destruct (chan_eqb ch c); [exact Hc|discriminate].
  - revert dd Hn Hd Hw. induction H as [|x r Hx _ IH]; intros dd Hn Hd Hw.
    + simpl in Hw. inversion Hw; subst. split; auto; intros; discriminate.
    + rewrite no_seq_rep_multi_cons in Hn. apply andb_prop in Hn as (N1 & N2).
      rewrite wchans_multi_cons in Hd. apply nodupb_app in Hd. destruct Hd as (D1 & D2 & D3).
      rewrite wcvd_multi_cons in Hw. destruct (wcvd x) as [a|] eqn:Ea; [|discriminate].
      destruct (wcvd (WMulti r)) as [b|] eqn:Eb; [|discriminate]. inversion Hw; subst dd. clear Hw.
      destruct (Hx N1 D1 a eq_refl) as (Ka & Sa). destruct (IH b N2 D2 eq_refl) as (Kb & Sb).
      rewrite fold_cupdate_fresh.
      * split; [rewrite map_app, Ka, Kb, wchans_multi_cons; reflexivity|].
        intros ch u t Hc. rewrite cassoc_app in Hc. rewrite wsample_multi_cons.
        destruct (cassoc ch a) as [u'|] eqn:Eca.
        -- inversion Hc; subst u'. rewrite <- Ka. rewrite (cassoc_keys_some ch a u Eca). apply Sa. exact Eca.
        -- assert (Hb : cmem ch (map fst b) = true) by (eapply cassoc_keys_some; eauto).
           rewrite Kb in Hb. rewrite (D3 ch Hb). apply Sb. exact Hc.
      * rewrite Kb. exact D2.
      * intros ch Hc. rewrite Kb in Hc. rewrite Ka. apply D3. exact Hc.
Qed.

Definition wshape (w : wf) : Prop :=
  no_seq_rep w = true /\ not_rev w /\ nodupb (wchans w) = true /\ wchans w <> [].

Lemma wshape_wmatch w p : wshape w -> leaf_matches w p -> wmatch w p.
Proof.
  intros (Hn & _ & Hd & Hne) HL. split; [exact HL|].
  destruct (wcvd w) as [d|] eqn:Ed; [|exact I].
  destruct (wcvd_coherent w Hn Hd d Ed) as (K & S). repeat split.
  - intro E. rewrite E in K. simpl in K. congruence.
  - rewrite K. exact Hd.
  - intro c. rewrite K. reflexivity.
  - exact S.
Qed.

Definition omatch2 (ow : option wf) (op : option piece) : Prop :=
  match ow, op with
  | Some w, Some p => leaf_matches w p /\ wshape w
  | None, None => True
  | _, _ => False
  end.

Definition atom_sem2 (a : atom) : Prop :=
  forall s cm ow, atom_guard a s cm = true -> build_waveform a s cm = Ok ow ->
  exists op, denote_atom a (lookup s) cm = Ok op /\ omatch2 ow op.

Lemma atom_sem2_sem a : atom_sem2 a -> atom_sem a.
Proof.
  intros H s cm ow Hg Hb. destruct (H s cm ow Hg Hb) as (op & Hd & Hm). exists op. split; auto.
  destruct ow, op; simpl in *; auto. destruct Hm. apply wshape_wmatch; auto.
Qed.

(* ---------------------------------------------------------------------------------------------------------- *)
(* S3. shapes of the simple atoms *)
Lemma from_table_chans c tbl w : from_table c tbl = Ok w -> wchans w = [c].
Proof.
  unfold from_table. destruct (validate_input tbl) as [[d v|l]|]; simpl; intro H; inversion H; reflexivity.
Qed.

Lemma rmap_from_table_chans : forall kept ws,
  rmap (fun ce : chan * list tentry => from_table (fst ce) (snd ce)) kept = Ok ws ->
  flat_map wchans ws = map fst kept /\ Forall (fun w => nodupb (wchans w) = true) ws.
Proof.
  induction kept as [|[m tbl] kept IH]; intros ws H; simpl in H.
  - inversion H. split; [reflexivity|constructor].
  - destruct (from_table m tbl) as [w|e] eqn:E; simpl in H; [|discriminate].
    match type of H with (bind ?X _) = _ => destruct X as [ws'|e] eqn:E' end; simpl in H; [|discriminate].
    inversion H; subst. destruct (IH ws' eq_refl) as (A & B). apply from_table_chans in E.
    split; [simpl; rewrite E, A; reflexivity|]. constructor; auto. rewrite E. reflexivity.
Qed.

Lemma parallel_tables_shape kept ws w :
  rmap (fun ce : chan * list tentry => from_table (fst ce) (snd ce)) kept = Ok ws -> kept <> [] ->
  from_parallel ws = Ok w -> nodupb (wchans w) = true /\ wchans w <> [].
Proof.
  intros Hr Hne Hp. pose proof (rmap_from_table_shape _ _ Hr) as Hs.
  destruct (rmap_from_table_chans _ _ Hr) as (Hc & Hn).
  destruct ws as [|w1 [|w2 r]].
  - simpl in Hp. discriminate.
  - simpl in Hp. inversion Hp; subst w. inversion Hn; subst. split; auto.
    simpl in Hc. rewrite app_nil_r in Hc. rewrite Hc. destruct kept; [congruence|discriminate].
  - unfold from_parallel in Hp. rewrite flat_multi_id in Hp by exact Hs. unfold mk_multi in Hp.
    destruct (disjoint_chans (w1 :: w2 :: r) []) eqn:Ed; simpl in Hp; [|discriminate].
    match type of Hp with (if ?X then _ else _) = _ => destruct X end; [|discriminate]. inversion Hp; subst w.
    destruct (disjoint_chans_nodup _ _ Ed Hn) as (N & _). rewrite wchans_multi. split; auto.
    rewrite Hc. destruct kept; [congruence|discriminate].
Qed.

Lemma simple_atom_nodup a s cm w : simple_atom a = true -> build_waveform a s cm = Ok (Some w) ->
  nodupb (wchans w) = true /\ wchans w <> [].
Proof.
  destruct a; simpl simple_atom; intro Hs; try discriminate; intro Hb.
  - change (build_const s cm d amps = Ok (Some w)) in Hb. unfold build_const in Hb.
    destruct (evals s d) as [dv|e]; [|discriminate]. unfold bind in Hb at 1.
    destruct (Qltb' 0 dv); [|discriminate].
    match type of Hb with (bind ?X _) = _ => destruct X as [vals|e] eqn:Eg end; [|discriminate]. unfold bind in Hb.
    apply const_go_spec in Eg. destruct Eg as (vals' & _ & Hv).
    destruct vals as [|kv vals]; [discriminate|].
    assert (E : w = from_mapping dv (kv :: vals)) by (inversion Hb; reflexivity). subst w.
    rewrite from_mapping_chans. split; [|discriminate]. rewrite Hv. apply fold_upd_nodup. reflexivity.
  - change (build_table s cm chs = Ok (Some w)) in Hb. rewrite build_table_unfold in Hb.
    destruct (tbl_inst s chs) as [inst|e]; [|discriminate]. unfold bind in Hb at 1.
    destruct (Qeq_bool (tbl_dur inst) 0); [discriminate|].
    destruct (keptm cm (tbl_dur inst) inst) as [|k0 kr] eqn:Ek; [discriminate|]. rewrite <- Ek in Hb.
    destruct (rmap (fun ce : chan * list tentry => from_table (fst ce) (snd ce)) (keptm cm (tbl_dur inst) inst)) as [ws|e] eqn:Er;
      [|discriminate].
    unfold bind in Hb at 1. destruct (from_parallel ws) as [w'|e] eqn:Ep; [|discriminate]. inversion Hb; subst w'.
    apply (parallel_tables_shape _ ws w Er); auto. rewrite Ek. discriminate.
  - change (build_point s cm entries chs = Ok (Some w)) in Hb. rewrite build_point_unfold in Hb.
    destruct (all_dropped cm chs); [discriminate|].
    destruct (pt_dur s entries) as [dur|e]; [|discriminate]. unfold bind in Hb at 1.
    destruct (Qeq_bool dur 0); [discriminate|].
    destruct (pt_rows s entries) as [inst|e]; [|discriminate]. unfold bind in Hb at 1.
    destruct (rmap (fun ce : chan * list tentry => from_table (fst ce) (snd ce)) (pt_keptm cm chs inst)) as [ws|e] eqn:Er;
      [|discriminate].
    unfold bind in Hb at 1. destruct (from_parallel ws) as [w'|e] eqn:Ep; [|discriminate]. inversion Hb; subst w'.
    apply (parallel_tables_shape _ ws w Er); auto.
    intro E. rewrite E in Er. simpl in Er. inversion Er; subst ws. simpl in Ep. discriminate.
Qed.

Lemma atom_sem2_simple a : simple_atom a = true -> atom_sem2 a.
Proof.
  intros Hs s cm ow Hg Hb. destruct (atom_sem_simple a Hs s cm ow Hg Hb) as (op & Hd & Hm).
  exists op. split; auto. destruct ow as [w|], op as [p|]; simpl in *; auto.
  destruct Hm as (HL & _). split; auto.
  destruct (simple_atom_shape a s cm w Hs Hb) as (A & B). destruct (simple_atom_nodup a s cm w Hs Hb) as (C & D).
  repeat split; auto.
Qed.

(* ---------------------------------------------------------------------------------------------------------- *)
(* S5. AtomicMultiChannelPT *)
Definition unmulti (w : wf) : list wf := match w with WMulti l => l | _ => [w] end.
Definition R2 (w : wf) (p : piece) : Prop := leaf_matches w p /\ wshape w.
Definition multi_val (ps : list piece) (c : chan) (t : Q) : option Q :=
  match find (fun p => cmem c (pchans p)) ps with Some p => pval p c t | None => None end.

Definition am_model (s : scope) (cm : chanmap) : list atom -> result (list wf) :=
  fix go (l : list atom) : result (list wf) :=
    match l with
    | [] => Ok []
    | x :: r => w <- build_waveform x s cm ;; ws <- go r ;; Ok (match w with Some w => w :: ws | None => ws end)
    end.
Definition am_spec (rho : env) (cm : chanmap) : list atom -> result (list piece * bool) :=
  fix go (l : list atom) : result (list piece * bool) :=
    match l with
    | [] => Ok ([], false)
    | x :: r => o <- denote_atom x rho cm ;; pg <- go r ;;
                Ok (match o with
                    | Some p => (p :: fst pg, snd pg)
                    | None => (fst pg, kept_any cm (atom_chans x) || snd pg)
                    end)
    end.
Definition am_ghost (s : scope) (cm : chanmap) (l : list atom) : bool :=
  existsb (fun x => kept_any cm (atom_chans x) && builds_none s cm x) l.
Definition am_guard (s : scope) (cm : chanmap) : list atom -> bool :=
  fix go (l : list atom) : bool := match l with [] => true | x :: r => atom_guard x s cm && go r end.

Lemma build_multi_unfold l s cm :
  build_waveform (AMulti l) s cm =
  (subs <- am_model s cm l ;;
   match subs with [] => Ok None | [w] => Ok (Some w) | _ => w <- from_parallel subs ;; Ok (Some w) end).
Proof. reflexivity. Qed.

Lemma denote_multi_unfold l rho cm :
  denote_atom (AMulti l) rho cm =
  (sg <- am_spec rho cm l ;;
   match fst sg with
   | [] => Ok None
   | p0 :: r => if negb (snd sg) && forallb (fun p => Qeq_bool (pdur p) (pdur p0)) r && disjointb (map pchans (fst sg))
                then Ok (Some (mkPiece (pdur p0) (flat_map pchans (fst sg)) (multi_val (fst sg))))
                else Err EValue
   end).
Proof. reflexivity. Qed.

Lemma am_go : forall l s cm ws, Forall atom_sem2 l -> am_guard s cm l = true -> am_model s cm l = Ok ws ->
  exists ps, am_spec (lookup s) cm l = Ok (ps, am_ghost s cm l) /\ Forall2 R2 ws ps.
Proof.
  induction l as [|x r IH]; intros s cm ws HF Hg Hm; simpl in Hm.
  - inversion Hm; subst. exists []. split; [reflexivity|constructor].
  - inversion HF as [|? ? Hx HF']; subst. simpl in Hg. apply andb_prop in Hg as (G1 & G2).
    destruct (build_waveform x s cm) as [ow|e] eqn:E; simpl in Hm; [|discriminate].
    destruct (am_model s cm r) as [ws'|e] eqn:E'; simpl in Hm; [|discriminate]. inversion Hm; subst ws.
    destruct (Hx s cm ow G1 E) as (op & Hd & Ho). destruct (IH s cm ws' HF' G2 E') as (ps & Hs & HR).
    simpl. rewrite Hd. simpl. rewrite Hs. simpl. unfold am_ghost. simpl existsb.
    assert (Hbn : builds_none s cm x = match ow with None => true | Some _ => false end)
      by (unfold builds_none; rewrite E; destruct ow; reflexivity).
    rewrite Hbn.
    destruct ow as [w|], op as [p|]; simpl in Ho; try contradiction.
    + eexists. split; [rewrite andb_false_r; reflexivity|]. constructor; auto.
    + eexists. split; [rewrite andb_true_r; reflexivity|]. exact HR.
Qed.

(* a part that builds a waveform is among the results *)
Lemma am_model_some : forall l s cm ws, am_model s cm l = Ok ws -> ws <> [] -> existsb (builds_some s cm) l = true.
Proof.
  induction l as [|x r IH]; intros s cm ws Hm Hne; simpl in Hm.
  - inversion Hm; subst. congruence.
  - destruct (build_waveform x s cm) as [ow|e] eqn:E; simpl in Hm; [|discriminate].
    destruct (am_model s cm r) as [ws'|e] eqn:E'; simpl in Hm; [|discriminate]. inversion Hm; subst ws.
    simpl. assert (Hbs : builds_some s cm x = match ow with None => false | Some _ => true end)
      by (unfold builds_some; rewrite E; destruct ow; reflexivity).
    rewrite Hbs. destruct ow as [w|]; [reflexivity|]. simpl. eapply IH; eauto.
Qed.

Lemma unmulti_chans w : flat_map wchans (unmulti w) = wchans w.
Proof. destruct w; try (cbn [unmulti flat_map]; rewrite app_nil_r; reflexivity). simpl unmulti. symmetry. apply wchans_multi. Qed.

Lemma flat_chans : forall ws, flat_map wchans (flat_map unmulti ws) = flat_map wchans ws.
Proof. induction ws as [|w ws IH]; simpl; auto. rewrite flat_map_app, unmulti_chans, IH. reflexivity. Qed.

Lemma multi_app_sample c t rest : forall l,
  wsample (WMulti (l ++ rest)) c t = if cmem c (wchans (WMulti l)) then wsample (WMulti l) c t else wsample (WMulti rest) c t.
Proof.
  induction l as [|x l IH]; [reflexivity|].
  change ((x :: l) ++ rest) with (x :: (l ++ rest)). rewrite !wsample_multi_cons, wchans_multi_cons, cmem_app, IH.
  destruct (cmem c (wchans x)); reflexivity.
Qed.

Lemma multi_flat_sample w rest c t :
  wsample (WMulti (unmulti w ++ rest)) c t = if cmem c (wchans w) then wsample w c t else wsample (WMulti rest) c t.
Proof.
  destruct w; try (simpl unmulti; change ([?x] ++ rest) with (x :: rest); apply wsample_multi_cons).
  simpl unmulti. apply multi_app_sample.
Qed.

Lemma cmem_flat_map {A} c (f g : A -> list chan) : forall l, (forall x, In x l -> cmem c (f x) = cmem c (g x)) ->
  cmem c (flat_map f l) = cmem c (flat_map g l).
Proof.
  induction l as [|x l IH]; intro H; simpl; auto. rewrite !cmem_app, IH, (H x); auto.
  - left. reflexivity.
  - intros y Hy. apply H. right. exact Hy.
Qed.

Lemma multi_samples D c t : 0 <= t -> t <= D -> forall ws ps, Forall2 R2 ws ps -> Forall (fun p => pdur p == D) ps ->
  cmem c (flat_map pchans ps) = true ->
  oeq (wsample (WMulti (flat_map unmulti ws)) c t) (multi_val ps c t).
Proof.
  intros H0 H1. induction 1 as [|w p ws ps ((Ld & Lp & Lc & Ls) & _) _ IH]; intros HD Hin; [discriminate|].
  inversion HD as [|? ? Dp HD']; subst. cbn [flat_map] in *. rewrite multi_flat_sample. unfold multi_val. simpl find.
  rewrite (Lc c). rewrite cmem_app in Hin.
  destruct (cmem c (pchans p)) eqn:E.
  - apply Ls; auto. rewrite Dp. exact H1.
  - simpl in Hin. apply IH; auto.
Qed.

Lemma unmulti_head w : wchans w <> [] -> exists y, In y (unmulti w) /\ wdur w = wdur y.
Proof.
  intro H. destruct w; try (exists w; split; [left; reflexivity|reflexivity]); simpl unmulti in *.
  - eexists. split; [left; reflexivity|reflexivity].
  - eexists. split; [left; reflexivity|reflexivity].
  - eexists. split; [left; reflexivity|reflexivity].
  - destruct l as [|y l]; [simpl in H; congruence|]. exists y. split; [left; reflexivity|reflexivity].
  - eexists. split; [left; reflexivity|reflexivity].
  - eexists. split; [left; reflexivity|reflexivity].
  - eexists. split; [left; reflexivity|reflexivity].
  - eexists. split; [left; reflexivity|reflexivity].
  - eexists. split; [left; reflexivity|reflexivity].
Qed.

Lemma disjointb_of_nodup : forall (Ws Ps : list (list chan)), Forall2 chans_same Ws Ps ->
  nodupb (concat Ws) = true -> disjointb Ps = true.
Proof.
  induction 1 as [|W P Ws Ps HWP HF IH]; intro Hn; [reflexivity|].
  simpl in Hn. apply nodupb_app in Hn. destruct Hn as (N1 & N2 & N3). simpl. rewrite (IH N2), andb_true_r.
  apply forallb_forall. intros y Hy. apply negb_true_iff. destruct (existsb (fun c => cmem c y) P) eqn:E; auto.
  apply existsb_exists in E. destruct E as (c & HcP & Hcy). exfalso.
  assert (HcW : cmem c W = true).
  { rewrite (HWP c). unfold cmem. apply existsb_exists. exists c. split; auto. apply chan_eqb_refl. }
  assert (Hc : cmem c (concat Ws) = true).
  { clear - HF Hy Hcy. induction HF as [|W' P' Ws Ps HWP' _ IH']; [destruct Hy|]. simpl. rewrite cmem_app.
    destruct Hy as [<-|Hy]; [rewrite (HWP' c), Hcy; reflexivity|]. rewrite (IH' Hy). apply orb_true_r. }
  rewrite (N3 c Hc) in HcW. discriminate.
Qed.

Lemma nodup_flat_elem {A} (f : A -> list chan) : forall l y, nodupb (flat_map f l) = true -> In y l -> nodupb (f y) = true.
Proof.
  induction l as [|x l IH]; intros y Hn Hin; [destruct Hin|]. simpl in Hn. apply nodupb_app in Hn.
  destruct Hn as (A1 & A2 & _). destruct Hin as [<-|Hin]; auto.
Qed.

Lemma unmulti_comp_facts w y : wshape w -> In y (unmulti w) -> nodupb (wchans y) = true /\ no_seq_rep y = true.
Proof.
  intros (Hn & _ & Hd & _) Hin. destruct w; try (destruct Hin as [<-|[]]; split; assumption).
  simpl unmulti in Hin. rewrite wchans_multi in Hd. rewrite no_seq_rep_multi in Hn. split.
  - eapply nodup_flat_elem; eauto.
  - rewrite forallb_forall in Hn. apply Hn. exact Hin.
Qed.

Lemma Forall2_chans_flat c : forall ws ps, Forall2 R2 ws ps ->
  cmem c (flat_map wchans ws) = cmem c (flat_map pchans ps).
Proof.
  induction 1 as [|w p ws ps ((_ & _ & Lc & _) & _) _ IH]; [reflexivity|]. simpl. rewrite !cmem_app, IH, (Lc c). reflexivity.
Qed.

Lemma Forall2_in_r {A B} (R : A -> B -> Prop) : forall l l' b, Forall2 R l l' -> In b l' -> exists a, In a l /\ R a b.
Proof.
  induction 1 as [|x y l l' Hxy _ IH]; intro Hin; [destruct Hin|]. destruct Hin as [<-|Hin].
  - exists x. split; [left; reflexivity|exact Hxy].
  - destruct (IH Hin) as (a & Ha & Hr). exists a. split; [right; exact Ha|exact Hr].
Qed.

Lemma atom_sem2_multi l : Forall atom_sem2 l -> atom_sem2 (AMulti l).
Proof.
  intros HF s cm ow Hg Hb. change (am_guard s cm l && negb (multi_ghost s cm l) = true) in Hg.
  apply andb_prop in Hg as (Hg & Hgh). apply negb_true_iff in Hgh.
  rewrite build_multi_unfold in Hb. rewrite denote_multi_unfold.
  destruct (am_model s cm l) as [ws|e] eqn:Em; [|discriminate]. unfold bind in Hb at 1.
  destruct (am_go l s cm ws HF Hg Em) as (ps & Hs & HR). rewrite Hs. unfold bind at 1. cbn [fst snd].
  assert (Hng : ws <> [] -> am_ghost s cm l = false).
  { intro Hne. unfold multi_ghost in Hgh. fold (am_ghost s cm l) in Hgh.
    rewrite (am_model_some l s cm ws Em Hne), andb_true_r in Hgh. exact Hgh. }
  destruct HR as [|w1 p1 ws ps R1 HR].
  - inversion Hb. exists None. split; [reflexivity|exact I].
  - destruct HR as [|w2 p2 ws ps R2' HR].
    + (* a single sub-waveform *)
      rewrite Hng by discriminate.
      inversion Hb; subst ow. eexists. split; [reflexivity|]. destruct R1 as (L & S). split; [|exact S].
      apply (leaf_matches_equiv w1 p1); [|exact L]. split; [reflexivity|]. split.
      * intro c. simpl. rewrite app_nil_r. reflexivity.
      * intros c t Hin. unfold multi_val. simpl. rewrite Hin. apply oeq_refl.
    + (* several: from_parallel flattens and checks *)
      rewrite Hng by discriminate. clear Hng. cbn [negb andb].
      assert (HR' : Forall2 R2 (w1 :: w2 :: ws) (p1 :: p2 :: ps)) by (constructor; [exact R1|constructor; [exact R2'|exact HR]]).
      remember (w1 :: w2 :: ws) as WS. remember (p1 :: p2 :: ps) as PS.
      assert (Hb' : w <- mk_multi (flat_map unmulti WS) ;; Ok (Some w) = Ok ow) by (subst WS; exact Hb).
      clear Hb. unfold mk_multi in Hb'.
      destruct (flat_map unmulti WS) as [|x0 fr] eqn:Efl; [discriminate|].
      destruct (disjoint_chans (x0 :: fr) []) eqn:Edis; simpl in Hb'; [|discriminate].
      destruct (forallb (fun y => Qeq_bool (wdur y) (wdur x0)) fr) eqn:Edur; simpl in Hb'; [|discriminate].
      inversion Hb'; subst ow. clear Hb'.
      assert (Hsh : Forall wshape WS).
      { clear - HR'. induction HR' as [|w p ws' ps' (_ & S) _ IH]; constructor; auto. }
      assert (Hcomp : Forall (fun y => nodupb (wchans y) = true /\ no_seq_rep y = true) (x0 :: fr)).
      { rewrite <- Efl. apply Forall_forall. intros y Hy. apply in_flat_map in Hy. destruct Hy as (w & Hw & Hy).
        rewrite Forall_forall in Hsh. eapply unmulti_comp_facts; eauto. }
      assert (Hnd : nodupb (flat_map wchans WS) = true).
      { rewrite <- flat_chans, Efl. apply (disjoint_chans_nodup _ [] Edis).
        eapply Forall_impl; [|exact Hcomp]. intros y (A & _). exact A. }
      assert (Hwd : forall w, In w WS -> wdur w == wdur x0).
      { intros w Hw. rewrite Forall_forall in Hsh. destruct (Hsh w Hw) as (_ & _ & _ & Hne).
        destruct (unmulti_head w Hne) as (y & Hy & Ey). rewrite Ey.
        assert (Hin : In y (x0 :: fr)) by (rewrite <- Efl; apply in_flat_map; exists w; auto).
        destruct Hin as [<-|Hin]; [reflexivity|]. rewrite forallb_forall in Edur. apply Qeq_bool_iff. apply Edur. exact Hin. }
      assert (Hw1 : wdur w1 == wdur x0) by (apply Hwd; subst WS; left; reflexivity).
      assert (Hpd : Forall (fun p => pdur p == pdur p1) PS).
      { apply Forall_forall. intros p Hp. destruct (Forall2_in_r R2 WS PS p HR' Hp) as (w & Hw & ((Ld & _) & _)).
        destruct R1 as ((Ld1 & _) & _). rewrite <- Ld, <- Ld1, (Hwd w Hw), Hw1. reflexivity. }
      assert (Hdj : disjointb (map pchans PS) = true).
      { apply (disjointb_of_nodup (map wchans WS) (map pchans PS)).
        - clear - HR'. induction HR' as [|w p ws' ps' ((_ & _ & Lc & _) & _) _ IH]; simpl; constructor; auto.
        - rewrite <- flat_map_concat_map. exact Hnd. }
      assert (Hfa : forallb (fun p => Qeq_bool (pdur p) (pdur p1)) (p2 :: ps) = true).
      { apply forallb_forall. intros p Hp. apply Qeq_bool_iff. rewrite Forall_forall in Hpd. apply Hpd. subst PS. right. exact Hp. }
      subst PS. rewrite Hfa, Hdj. simpl andb. cbv iota.
      eexists. split; [reflexivity|]. destruct R1 as ((Ld1 & Lp1 & _) & _).
      split.
      * repeat split.
        -- simpl. rewrite <- Hw1. exact Ld1.
        -- exact Lp1.
        -- intro c. cbn [pchans]. rewrite wchans_multi, <- Efl, flat_chans. apply Forall2_chans_flat. exact HR'.
        -- intros c t Hin H0 H1. cbn [pchans] in Hin. cbn [pdur] in H1. cbn [pval]. rewrite <- Efl.
           apply (multi_samples (pdur p1) c t H0 H1 _ _ HR' Hpd Hin).
      * split; [|split; [exact I|split]].
        -- rewrite no_seq_rep_multi. apply forallb_forall. intros y Hy. rewrite Forall_forall in Hcomp. apply Hcomp. exact Hy.
        -- rewrite wchans_multi, <- Efl, flat_chans. exact Hnd.
        -- rewrite wchans_multi, <- Efl, flat_chans. rewrite Forall_forall in Hsh.
           destruct (Hsh w1) as (_ & _ & _ & Hne1); [rewrite HeqWS; left; reflexivity|].
           rewrite HeqWS. simpl. intro E. apply app_eq_nil in E. destruct E as (E & _). contradiction.
Qed.

(* ---------------------------------------------------------------------------------------------------------- *)
(* S6. ArithmeticAtomicPT *)
Lemma from_mapping_wshape dur d : d <> [] -> nodupb (map fst d) = true -> wshape (from_mapping dur d).
Proof.
  intros Hne Hn. split; [|split; [apply from_mapping_not_rev|]].
  - destruct d as [|[k v] [|kv r]]; try reflexivity. unfold from_mapping. apply no_seq_rep_multi_const.
  - rewrite from_mapping_chans. split; auto. destruct d; [congruence|discriminate].
Qed.

Lemma cassoc_none_keys {A} c (d : list (chan * A)) : cassoc c d = None -> cmem c (map fst d) = false.
Proof.
  intro H. destruct (cmem c (map fst d)) eqn:E; auto. destruct (cassoc_in_keys c d E) as (v & Ev). congruence.
Qed.

Lemma cassoc_map_val c (f : Q -> Q) : forall d : cdict,
  cassoc c (map (fun kv => (fst kv, f (snd kv))) d) = match cassoc c d with Some v => Some (f v) | None => None end.
Proof. induction d as [|[k v] d IH]; simpl; auto. destruct (chan_eqb c k); auto. Qed.

Lemma nodupb_cunion : forall b a, nodupb a = true -> nodupb (cunion a b) = true.
Proof.
  unfold cunion. induction b as [|x b IH]; intros a H; simpl; auto.
  destruct (cmem x a) eqn:E; apply IH; auto. apply nodupb_snoc; auto.
Qed.

Definition neg_piece (p : piece) : piece :=
  mkPiece (pdur p) (pchans p) (fun c t => match pval p c t with Some x => Some (- x) | None => None end).

Lemma wneg_R2 w p : R2 w p -> R2 (wneg w) (neg_piece p).
Proof.
  intros ((Ld & Lp & Lc & Ls) & (Hn & Hr & Hd & Hne)). unfold wneg. destruct (wcvd w) as [d|] eqn:Ed.
  - destruct (wcvd_coherent w Hn Hd d Ed) as (K & S).
    set (d' := map (fun kv : chan * Q => (fst kv, Qred (- snd kv))) d).
    assert (K' : map fst d' = map fst d) by (unfold d'; rewrite map_map; reflexivity).
    assert (Hne' : d' <> []).
    { intro E. rewrite E in K'. rewrite K in K'. simpl in K'. congruence. }
    split.
    + apply from_mapping_matches; auto.
      * intro c. rewrite K', K. apply Lc.
      * intros c v t Hcv H0 H1. unfold d' in Hcv. rewrite (cassoc_map_val c (fun x => Qred (- x))) in Hcv.
        destruct (cassoc c d) as [u|] eqn:Eu; [|discriminate]. inversion Hcv; subst v.
        assert (Hin : cmem c (pchans p) = true) by (rewrite <- (Lc c), <- K; eapply cassoc_keys_some; eauto).
        pose proof (Ls c t Hin H0 H1) as Hs. rewrite (S c u t Eu) in Hs. simpl.
        destruct (pval p c t) as [x|]; [|contradiction]. simpl in *. rewrite Qred_correct, Hs. reflexivity.
    + apply from_mapping_wshape; auto. rewrite K', K. exact Hd.
  - split.
    + repeat split; auto. intros c t Hin H0 H1. simpl in *. pose proof (Ls c t Hin H0 H1) as Hs.
      destruct (wsample w c t) as [a|], (pval p c t) as [x|]; simpl in *; try contradiction; auto.
      rewrite Qred_correct, Hs. reflexivity.
    + repeat split; auto.
Qed.

Definition mval (op : aop) (o : option Q) (y : Q) : Q :=
  match o with
  | Some x => Qred (match op with OpAdd => x + y | OpSub => x - y end)
  | None => match op with OpAdd => y | OpSub => Qred (- y) end
  end.
Definition mergef (op : aop) (acc : cdict) (kv : chan * Q) : cdict :=
  cupdate (fst kv) (mval op (cassoc (fst kv) acc) (snd kv)) acc.

Lemma from_operator_fold op a b :
  fold_left (fun acc kv =>
               match cassoc (fst kv) acc with
               | Some x => cupdate (fst kv) (Qred (match op with OpAdd => x + snd kv | OpSub => x - snd kv end)) acc
               | None => cupdate (fst kv) (match op with OpAdd => snd kv | OpSub => Qred (- snd kv) end) acc
               end) b a = fold_left (mergef op) b a.
Proof.
  revert a. induction b as [|kv b IH]; intros a; simpl; auto. rewrite IH. f_equal.
  unfold mergef, mval. destruct (cassoc (fst kv) a); reflexivity.
Qed.

Lemma mergef_cassoc op c a k y :
  cassoc c (mergef op a (k, y)) = if chan_eqb c k then Some (mval op (cassoc k a) y) else cassoc c a.
Proof. unfold mergef. simpl. apply cassoc_cupdate. Qed.

Lemma merge_cassoc op c : forall b a, nodupb (map fst b) = true ->
  cassoc c (fold_left (mergef op) b a) =
  match cassoc c b with None => cassoc c a | Some y => Some (mval op (cassoc c a) y) end.
Proof.
  induction b as [|[k y] b IH]; intros a Hn; simpl; auto.
  simpl in Hn. apply andb_prop in Hn as (Hk & Hn). apply negb_true_iff in Hk.
  rewrite IH by exact Hn. rewrite !mergef_cassoc.
  destruct (chan_eqb c k) eqn:E.
  - apply chan_eqb_eq in E. subst k. rewrite (cassoc_notin_keys c b Hk). reflexivity.
  - destruct (cassoc c b); reflexivity.
Qed.

Lemma merge_keys op c : forall b a, cmem c (map fst (fold_left (mergef op) b a)) = cmem c (map fst a) || cmem c (map fst b).
Proof.
  induction b as [|[k y] b IH]; intros a; simpl.
  - rewrite orb_false_r. reflexivity.
  - rewrite IH. unfold mergef. simpl fst. rewrite keys_cupdate. destruct (cmem k (map fst a)) eqn:E.
    + destruct (chan_eqb c k) eqn:E'; simpl; auto. apply chan_eqb_eq in E'. subst. rewrite E. reflexivity.
    + rewrite cmem_app. simpl. rewrite orb_false_r, orb_assoc. reflexivity.
Qed.

Lemma merge_nodup op : forall b a, nodupb (map fst a) = true -> nodupb (map fst (fold_left (mergef op) b a)) = true.
Proof. induction b as [|kv b IH]; intros a H; simpl; auto. apply IH. apply nodup_cupdate. exact H. Qed.

Definition sgn (op : aop) (x : Q) : Q := match op with OpAdd => x | OpSub => - x end.
Definition arith_piece (op : aop) (l r : piece) : piece :=
  mkPiece (pdur l) (cunion (pchans l) (pchans r))
          (fun c t =>
             if cmem c (pchans l) && cmem c (pchans r) then
               match pval l c t, pval r c t with
               | Some x, Some y => Some (x + sgn op y)
               | _, _ => None
               end
             else if cmem c (pchans l) then pval l c t
             else match pval r c t with Some y => Some (sgn op y) | None => None end).

Lemma from_operator_R2 op l r pl pr : R2 l pl -> R2 r pr -> wdur l == wdur r ->
  R2 (from_operator l op r) (arith_piece op pl pr).
Proof.
  intros ((Ld & Lp & Lc & Ls) & (Hn & Hr & Hd & Hne)) ((Rd & Rp & Rc & Rs) & (Hn' & Hr' & Hd' & Hne')) Hdur.
  assert (Hpd : pdur pl == pdur pr) by (rewrite <- Ld, <- Rd; exact Hdur).
  assert (Hch : forall c, cmem c (cunion (wchans l) (wchans r)) = cmem c (cunion (pchans pl) (pchans pr))).
  { intro c. rewrite !cmem_cunion, (Lc c), (Rc c). reflexivity. }
  assert (Hgen : wcvd l = None \/ wcvd r = None -> R2 (WArith l op r) (arith_piece op pl pr)).
  { intros _. split.
    - split; [exact Ld|]. split; [exact Lp|]. split; [exact Hch|].
      intros c t Hin H0 H1. cbn [pchans arith_piece] in Hin. cbn [pdur arith_piece] in H1. cbn [pval arith_piece].
      rewrite cmem_cunion in Hin. simpl wsample. rewrite (Lc c), (Rc c).
      destruct (cmem c (pchans pl)) eqn:El, (cmem c (pchans pr)) eqn:Er; simpl in Hin; try discriminate; simpl andb; cbv iota.
      + pose proof (Ls c t El H0 H1) as S1. assert (H1' : t <= pdur pr) by (rewrite <- Hpd; exact H1).
        pose proof (Rs c t Er H0 H1') as S2.
        destruct (wsample l c t) as [a|], (pval pl c t) as [x|]; simpl in S1; try contradiction;
          destruct (wsample r c t) as [b|], (pval pr c t) as [y|]; simpl in S2; try contradiction; simpl; auto.
        rewrite Qred_correct. destruct op; simpl; rewrite S1, S2; ring.
      + apply Ls; auto.
      + assert (H1' : t <= pdur pr) by (rewrite <- Hpd; exact H1). pose proof (Rs c t Er H0 H1') as S2.
        destruct (wsample r c t) as [b|], (pval pr c t) as [y|]; simpl in S2; try contradiction; simpl; auto.
        destruct op; simpl; [exact S2|rewrite Qred_correct, S2; reflexivity].
    - split; [simpl; rewrite Hn, Hn'; reflexivity|]. split; [exact I|]. simpl wchans. split; [apply nodupb_cunion; exact Hd|].
      intro E. destruct (wchans l) as [|c0 cl] eqn:El; [congruence|].
      assert (X : cmem c0 (cunion (c0 :: cl) (wchans r)) = true) by (rewrite cmem_cunion; simpl; rewrite chan_eqb_refl; reflexivity).
      rewrite E in X. discriminate. }
  unfold from_operator. destruct (wcvd l) as [a|] eqn:Ea; [|apply Hgen; left; reflexivity].
  destruct (wcvd r) as [b|] eqn:Eb; [|apply Hgen; right; reflexivity]. clear Hgen.
  destruct (wcvd_coherent l Hn Hd a Ea) as (Ka & Sa). destruct (wcvd_coherent r Hn' Hd' b Eb) as (Kb & Sb).
  rewrite from_operator_fold. set (m := fold_left (mergef op) b a).
  assert (Hnb : nodupb (map fst b) = true) by (rewrite Kb; exact Hd').
  assert (Hkm : forall c, cmem c (map fst m) = cmem c (wchans l) || cmem c (wchans r)).
  { intro c. unfold m. rewrite merge_keys, Ka, Kb. reflexivity. }
  assert (Hnm : nodupb (map fst m) = true) by (apply merge_nodup; rewrite Ka; exact Hd).
  assert (Hm : m <> []).
  { intro E. destruct (wchans l) as [|c0 cl] eqn:El; [congruence|]. pose proof (Hkm c0) as X. rewrite E in X.
    simpl in X. rewrite chan_eqb_refl in X. discriminate. }
  split; [|apply from_mapping_wshape; auto].
  apply from_mapping_matches; auto.
  - intro c. cbn [pchans arith_piece]. rewrite Hkm, cmem_cunion, (Lc c), (Rc c). reflexivity.
  - intros c v t Hcv H0 H1. cbn [pdur arith_piece] in H1. cbn [pval arith_piece].
    assert (H1' : t <= pdur pr) by (rewrite <- Hpd; exact H1).
    unfold m in Hcv. rewrite merge_cassoc in Hcv by exact Hnb.
    destruct (cassoc c b) as [y|] eqn:Ecb.
    + assert (Er : cmem c (pchans pr) = true) by (rewrite <- (Rc c), <- Kb; eapply cassoc_keys_some; eauto).
      pose proof (Rs c t Er H0 H1') as S2. rewrite (Sb c y t Ecb) in S2. rewrite Er.
      destruct (pval pr c t) as [y'|]; [|contradiction]. simpl in S2.
      inversion Hcv; subst v. destruct (cassoc c a) as [x|] eqn:Eca.
      * assert (El : cmem c (pchans pl) = true) by (rewrite <- (Lc c), <- Ka; eapply cassoc_keys_some; eauto).
        pose proof (Ls c t El H0 H1) as S1. rewrite (Sa c x t Eca) in S1. rewrite El. simpl andb. cbv iota.
        destruct (pval pl c t) as [x'|]; [|contradiction]. simpl in *.
        rewrite Qred_correct. destruct op; simpl; rewrite S1, S2; ring.
      * assert (El : cmem c (pchans pl) = false) by (rewrite <- (Lc c), <- Ka; apply cassoc_none_keys; exact Eca).
        rewrite El. simpl andb. cbv iota. simpl. destruct op; simpl; [exact S2|rewrite Qred_correct, S2; reflexivity].
    + assert (Er : cmem c (pchans pr) = false) by (rewrite <- (Rc c), <- Kb; apply cassoc_none_keys; exact Ecb).
      assert (El : cmem c (pchans pl) = true) by (rewrite <- (Lc c), <- Ka; eapply cassoc_keys_some; eauto).
      rewrite El, Er. simpl andb. cbv iota. rewrite <- (Sa c v t Hcv). apply Ls; auto.
Qed.

Lemma build_arith_unfold l op r s cm :
  build_waveform (AArith l op r) s cm =
  (lw <- build_waveform l s cm ;; rw <- build_waveform r s cm ;;
   match lw, rw with
   | _, None => Ok lw
   | None, Some r => Ok (Some (match op with OpAdd => r | OpSub => wneg r end))
   | Some l, Some r => if Qeq_bool (wdur l) (wdur r) then Ok (Some (from_operator l op r)) else Err EValue
   end).
Proof. reflexivity. Qed.

Lemma denote_arith_unfold l op r rho cm :
  denote_atom (AArith l op r) rho cm =
  (lp <- denote_atom l rho cm ;; rp <- denote_atom r rho cm ;;
   match lp, rp with
   | _, None => Ok lp
   | None, Some r => Ok (Some (mkPiece (pdur r) (pchans r)
                                       (fun c t => match pval r c t with Some x => Some (sgn op x) | None => None end)))
   | Some l, Some r => if Qeq_bool (pdur l) (pdur r) then Ok (Some (arith_piece op l r)) else Err EValue
   end).
Proof. reflexivity. Qed.

Lemma atom_sem2_arith l op r : atom_sem2 l -> atom_sem2 r -> atom_sem2 (AArith l op r).
Proof.
  intros Hl Hr s cm ow Hg Hb. simpl in Hg. apply andb_prop in Hg as (G1 & G2).
  rewrite build_arith_unfold in Hb. rewrite denote_arith_unfold.
  destruct (build_waveform l s cm) as [lw|e] eqn:El; [|discriminate]. unfold bind in Hb at 1.
  destruct (build_waveform r s cm) as [rw|e] eqn:Er; [|discriminate]. unfold bind in Hb at 1.
  destruct (Hl s cm lw G1 El) as (lp & Dl & Ml). destruct (Hr s cm rw G2 Er) as (rp & Dr & Mr).
  rewrite Dl, Dr. unfold bind.
  destruct rw as [rwf|], rp as [rpp|]; simpl in Mr; try contradiction.
  - destruct lw as [lwf|], lp as [lpp|]; simpl in Ml; try contradiction.
    + destruct Ml as (L1 & S1). destruct Mr as (L2 & S2).
      assert (Hq : Qeq_bool (wdur lwf) (wdur rwf) = Qeq_bool (pdur lpp) (pdur rpp)).
      { destruct L1 as (A & _), L2 as (B & _). apply Qeq_bool_compat; auto. }
      rewrite <- Hq. destruct (Qeq_bool (wdur lwf) (wdur rwf)) eqn:E; [|discriminate].
      inversion Hb; subst ow. eexists. split; [reflexivity|].
      apply (from_operator_R2 op lwf rwf lpp rpp); [split; auto|split; auto|apply Qeq_bool_iff; exact E].
    + inversion Hb; subst ow. eexists. split; [reflexivity|]. destruct op.
      * (* + : the right operand itself *)
        destruct Mr as (L2 & S2). split; [|exact S2]. apply (leaf_matches_equiv rwf rpp); [|exact L2].
        split; [reflexivity|]. split; [intro c; reflexivity|]. intros c t _. simpl. destruct (pval rpp c t); simpl; reflexivity.
      * exact (wneg_R2 rwf rpp Mr).
  - assert (E : ow = lw) by (destruct lw; inversion Hb; reflexivity). subst ow.
    exists lp. split; [destruct lp; reflexivity|]. exact Ml.
Qed.

(* ---- FunctionPT (affine expression), represented by the two-entry linear table ---- *)
Lemma value_err_ok {A} (r : result A) x : value_err r = Ok x -> r = Ok x.
Proof. destruct r as [y|[]]; simpl; intro H; try discriminate; exact H. Qed.

Lemma atom_sem2_func d c a b : atom_sem2 (AFunc d c a b).
Proof.
  intros s cm ow Hg Hb. change (build_func s cm d c a b = Ok ow) in Hb. unfold build_func in Hb.
  simpl in Hg. simpl denote_atom.
  destruct (cm c) as [m|]; [|inversion Hb; subst; exists None; split; [reflexivity|exact I]].
  destruct (scope_force s) as [[]|e]; [|discriminate]. unfold bind in Hb at 1.
  unfold evals in *. destruct (eval (lookup s) d) as [dv|e]; [|discriminate]. unfold bind in Hb at 1. unfold bind at 1.
  destruct (value_err (eval (lookup s) a)) as [av|e] eqn:Ea; [|discriminate]. apply value_err_ok in Ea. rewrite Ea.
  unfold bind in Hb at 1. unfold bind at 1.
  destruct (value_err (eval (lookup s) b)) as [bv|e] eqn:Eb; [|discriminate]. apply value_err_ok in Eb. rewrite Eb.
  unfold bind in Hb. unfold bind. rewrite Hg. apply Qltb'_true in Hg.
  destruct (Qeq_bool bv 0) eqn:E0; inversion Hb; subst ow; eexists; (split; [reflexivity|]).
  - (* no t left: a constant waveform *)
    apply Qeq_bool_iff in E0. split.
    + repeat split; simpl; auto; try reflexivity. intros ch t _ _ _. rewrite E0. ring.
    + repeat split; simpl; auto. discriminate.
  - apply Qeq_bool_false in E0. split.
    + split; [reflexivity|]. split; [exact Hg|]. split; [intro ch; reflexivity|].
      intros ch t Hin H0 H1. cbn [pdur] in H1. cbn [pval]. simpl wsample. unfold et, ev, ei. simpl.
      assert (C1 : Qle_bool 0 t = true) by (apply Qle_bool_iff; exact H0).
      assert (C2 : Qle_bool t dv = true) by (apply Qle_bool_iff; exact H1). rewrite C1, C2. simpl.
      assert (C3 : Qeq_bool dv 0 = false) by (apply Qeq_bool_false; intro X; rewrite X in Hg; apply (Qlt_irrefl 0); exact Hg).
      rewrite C3. simpl. rewrite !Qred_correct. field. intro X. rewrite X in Hg. apply (Qlt_irrefl 0). exact Hg.
    + repeat split; simpl; auto. discriminate.
Qed.

(* ---- all atoms ---- *)
Section atom_ind2.
  Variable P : atom -> Prop.
  Hypothesis Hc : forall d amps, P (AConst d amps).
  Hypothesis Ht : forall chs, P (ATable chs).
  Hypothesis Hp : forall es chs, P (APoint es chs).
  Hypothesis Hm : forall l, Forall P l -> P (AMulti l).
  Hypothesis Ha : forall l op r, P l -> P r -> P (AArith l op r).
  Hypothesis Hf : forall d c a b, P (AFunc d c a b).
  Fixpoint atom_ind2 (a : atom) : P a :=
    match a with
    | AConst d amps => Hc d amps
    | ATable chs => Ht chs
    | APoint es chs => Hp es chs
    | AMulti l => Hm l ((fix go (l : list atom) : Forall P l :=
                           match l with [] => Forall_nil _ | x :: r => Forall_cons _ (atom_ind2 x) (go r) end) l)
    | AArith l op r => Ha l op r (atom_ind2 l) (atom_ind2 r)
    | AFunc d c a b => Hf d c a b
    end.
End atom_ind2.

Theorem atom_sem2_all : forall a, atom_sem2 a.
Proof.
  induction a using atom_ind2.
  - apply atom_sem2_simple. reflexivity.
  - apply atom_sem2_simple. reflexivity.
  - apply atom_sem2_simple. reflexivity.
  - apply atom_sem2_multi. exact H.
  - apply atom_sem2_arith; assumption.
  - apply atom_sem2_func.
Qed.

Theorem atom_sem_all : forall a, atom_sem a.
Proof. intro a. apply atom_sem2_sem. apply atom_sem2_all. Qed.

Lemma atoms_sem_all : forall p, atoms_sem p.
Proof.
  induction p using pt_ind2; simpl; auto.
  - apply atom_sem_all.
  - induction H as [|x r Hx _ IH]; simpl; auto.
Qed.

(* the full denotation theorem: only the two findings' guards *)
Theorem create_program_denote_all p env cm :
  guard_C01_par_order false p = true -> guard_C01_tables p (SDict env) (cm_of cm) = true ->
  forall r, create_program p env cm None = Ok r ->
  exists pcs, denote_top p env cm = Ok pcs /\
              match r with
              | None => pcs = []
              | Some prog => plays prog pcs
              end.
Proof. intros Hg Ht. apply create_program_denote2; auto. apply atoms_sem_all. Qed.

(* ---- the structure of the program trees, all atom kinds ---- *)
Lemma cp_struct_all : forall p s cm gt cs,
  guard_C01_tables p s cm = true -> cp p s cm gt = Ok cs -> Forall lstruct cs.
Proof.
  induction p using pt_ind2; intros s cm gt cs Ht Hcp.
  - (* atom *)
    simpl in *. destruct (build_waveform a s cm) as [ow|e] eqn:E; simpl in Hcp; [|discriminate].
    inversion Hcp; subst cs. destruct ow as [w|]; [|constructor].
    destruct (atom_sem2_all a s cm (Some w) Ht E) as (op & _ & Hm).
    destruct op as [p|]; [|contradiction]. simpl in Hm. destruct Hm as (HL & HS).
    pose proof (wshape_wmatch w p HS HL) as Hm. destruct HS as (Hn & Hr & _).
    destruct (emit_leaf w p gt Hm Hn Hr) as (x & Ex & Lx). rewrite Ex. constructor; [|constructor]. split; auto.
  - (* sequence *)
    revert cs Ht Hcp. induction H as [|x r Hx _ IH]; intros cs Ht Hcp.
    + simpl in Hcp. inversion Hcp. constructor.
    + simpl in Ht, Hcp. apply andb_prop in Ht as (T1 & T2).
      destruct (cp x s cm gt) as [a|e] eqn:E1; simpl in Hcp; [|discriminate].
      match type of Hcp with (bind ?X _) = _ => destruct X as [b|e] eqn:E2 end; simpl in Hcp; [|discriminate].
      inversion Hcp; subst. apply Forall_app. split; [eapply Hx; eauto|apply IH; auto].
  - (* repetition *)
    simpl in *. destruct (evals s n) as [v|e]; simpl in *; [|discriminate].
    destruct (to_int ENotInt v) as [k|e]; simpl in *; [|discriminate].
    destruct (k <=? 0)%Z eqn:Ek; [inversion Hcp; constructor|].
    destruct (cp p s cm gt) as [cs'|e] eqn:E; simpl in Hcp; [|discriminate].
    pose proof (IHp s cm gt cs' Ht E) as HF.
    destruct cs' as [|c0 cr]; inversion Hcp; subst; constructor; [|constructor].
    apply lstruct_nest. split; [apply Z.leb_gt in Ek; lia|]. split; [discriminate|exact HF].
  - (* for loop *)
    simpl in *. unfold evals in *.
    destruct (eval (lookup s) a) as [va|e]; simpl in *; [|discriminate].
    destruct (to_int EValue va) as [ka|e]; simpl in *; [|discriminate].
    destruct (eval (lookup s) b) as [vb|e]; simpl in *; [|discriminate].
    destruct (to_int EValue vb) as [kb|e]; simpl in *; [|discriminate].
    destruct (eval (lookup s) c) as [vc|e]; simpl in *; [|discriminate].
    destruct (to_int EValue vc) as [kc|e]; simpl in *; [|discriminate].
    destruct (kc =? 0)%Z; [discriminate|].
    revert cs Hcp Ht. generalize (zrange ka kb kc) as rng. induction rng as [|j r IH]; intros cs Hcp Ht.
    + inversion Hcp. constructor.
    + simpl in Ht. apply andb_prop in Ht as (T1 & T2).
      destruct (cp p (SRange s i j) cm gt) as [x|e] eqn:E1; simpl in Hcp; [|discriminate].
      match type of Hcp with (bind ?X _) = _ => destruct X as [y|e] eqn:E2 end; simpl in Hcp; [|discriminate].
      inversion Hcp; subst. apply Forall_app. split; [eapply IHp; eauto|apply IH; auto].
  - (* mapping *) simpl in *. eapply IHp; eauto.
  - (* time reversal *)
    simpl in *. destruct (cp p s cm gt) as [cs'|e] eqn:E; simpl in Hcp; [|discriminate].
    pose proof (IHp s cm gt cs' Ht E) as HF.
    destruct cs' as [|c0 cr]; inversion Hcp; subst; constructor; [|constructor].
    apply (lstruct_reverse (Nest 1 (c0 :: cr))). apply lstruct_nest. split; [lia|]. split; [discriminate|exact HF].
  - (* parallel channel *)
    simpl in *. destruct (par_values (lookup s) cm ow []) as [vals|e]; simpl in *; [|discriminate].
    eapply IHp; eauto.
  - (* scalar arithmetic *)
    simpl in *.
    match type of Hcp with (bind ?X _) = _ => destruct X as [[]|e] end; simpl in Hcp; [|discriminate].
    destruct (arith_trafo (lookup s) cm l op sc (pt_chans p)) as [tr|e]; simpl in *; [|discriminate].
    eapply IHp; eauto.
Qed.


Theorem sampling_create_program_all p env cm prog w C :
  guard_C01_tables p (SDict env) (cm_of cm) = true ->
  create_program p env cm None = Ok (Some prog) -> to_waveform prog = Ok w ->
  Forall (fun x => chans_same (wchans x) C) (flatten prog) ->
  forall c t, cmem c C = true -> 0 <= t -> t < loop_dur prog -> oeq (sampled prog c t) (play prog c t).
Proof.
  intros Ht Hcp Hw Hch c t Hc H0 H1. unfold sampled. rewrite Hw.
  apply (sampling_sound C prog w); auto.
  apply lstruct_lgood; auto.
  unfold create_program in Hcp. destruct (cp p (SDict env) (cm_of cm) None) as [cs|e] eqn:E; simpl in Hcp; [|discriminate].
  pose proof (cp_struct_all p _ _ _ _ Ht E) as HF.
  destruct cs as [|c0 cr]; inversion Hcp; subst. apply lstruct_nest. split; [lia|]. split; [discriminate|exact HF].
Qed.
