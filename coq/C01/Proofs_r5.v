(* C01 round 5 — the duration of to_waveform(program) for the programs built by create_program *)
From Coq Require Import ZArith QArith Qround List Bool Lia Lqa Setoid.
Require Import QV.common.Util QV.C01.Model QV.C01.Spec QV.C01.Proofs QV.C01.ProofsDefs QV.C01.Proofs_sampling
        QV.C01.Proofs_leaves QV.C01.Proofs_atoms2 QV.C01.Proofs_chans.
Import ListNotations.
Open Scope Q_scope.

Lemma sampling_dur p env cm prog w :
  guard_C01_tables p (SDict env) (cm_of cm) = true ->
  create_program p env cm None = Ok (Some prog) -> to_waveform prog = Ok w -> wdur w == loop_dur prog.
Proof.
  intros Ht Hcp Hw.
  assert (Hls : lstruct prog).
  { unfold create_program in Hcp. destruct (cp p (SDict env) (cm_of cm) None) as [cs|e] eqn:E; simpl in Hcp; [|discriminate].
    pose proof (cp_struct_all p _ _ _ _ Ht E) as HF.
    destruct cs as [|c0 cr]; inversion Hcp; subst. apply lstruct_nest. split; [lia|]. split; [discriminate|exact HF]. }
  destruct (to_waveform_Cinv prog Hls w Hw) as (HF & _ & _).
  assert (Hg : lgood (wchans w) prog) by (apply lstruct_lgood; auto).
  destruct (to_waveform_inv (wchans w) prog Hg w Hw) as ((Ha & _) & _ & _). exact Ha.
Qed.
