(* C01 — when to_waveform succeeds, all leaves of the program define the channels of the resulting waveform
   (SequenceWaveform's channel check / the dictionary comparison of the constant folding); this removes the
   channel-set hypothesis from the sampling theorem. *)
From Coq Require Import ZArith QArith Qround List Bool Lia Lqa Setoid.
Require Import QV.common.Util QV.C01.Model QV.C01.Spec QV.C01.Proofs QV.C01.ProofsDefs QV.C01.Proofs_trafo
        QV.C01.Proofs_table QV.C01.Proofs_comp QV.C01.Proofs_atoms QV.C01.Proofs_main QV.C01.Proofs_sampling
        QV.C01.Proofs_leaves QV.C01.Proofs_atoms2.
Import ListNotations.
Open Scope Q_scope.
Arguments Qred : simpl never.  Arguments Qplus : simpl never.  Arguments Qminus : simpl never.
Arguments Qmult : simpl never. Arguments Qdiv : simpl never.   Arguments Qopp : simpl never.
Arguments Qinv : simpl never.  Arguments Qle_bool : simpl never. Arguments Qeq_bool : simpl never.
Arguments Qfloor : simpl never. Arguments inject_Z : simpl never. Arguments Z.to_nat : simpl never.

Definition Kinv (w : wf) : Prop :=
  forall d, wcvd w = Some d -> d <> [] /\ forall c, cmem c (map fst d) = cmem c (wchans w).
Definition Ninv (w : wf) : Prop := match w with WSeq l => l <> [] | _ => True end.
Definition Cinv (w : wf) (L : list wf) : Prop :=
  Forall (fun x => chans_same (wchans x) (wchans w)) L /\ Kinv w /\ Ninv w.

Lemma cset_eqb_same a b : cset_eqb a b = true -> chans_same a b.
Proof.
  unfold cset_eqb. intros H c. apply andb_prop in H as (H1 & H2). rewrite forallb_forall in H1, H2.
  destruct (cmem c a) eqn:Ea, (cmem c b) eqn:Eb; auto.
  - unfold cmem in Ea. apply existsb_exists in Ea as (x & Hin & Hx). apply chan_eqb_eq in Hx. subst x.
    rewrite (H1 c Hin) in Eb. discriminate.
  - unfold cmem in Eb. apply existsb_exists in Eb as (x & Hin & Hx). apply chan_eqb_eq in Hx. subst x.
    rewrite (H2 c Hin) in Ea. discriminate.
Qed.

Lemma wcvd_multi_const_keys dur : forall (d d' : cdict),
  wcvd (WMulti (map (fun kv => WConst dur (fst kv) (snd kv)) d)) = Some d' ->
  forall c, cmem c (map fst d') = cmem c (map fst d).
Proof.
  induction d as [|[k v] d IH]; intros d' H c.
  - simpl in H. inversion H. reflexivity.
  - cbn [map] in H. rewrite wcvd_multi_cons in H. simpl wcvd at 1 in H.
    destruct (wcvd (WMulti (map (fun kv => WConst dur (fst kv) (snd kv)) d))) as [b|] eqn:Eb; [|discriminate].
    inversion H; subst d'. change (fun acc kv => cupdate (fst kv) (snd kv) acc) with upd.
    rewrite fold_upd_keys, (IH b eq_refl c). simpl. rewrite orb_false_r. reflexivity.
Qed.

Lemma from_mapping_Kinv dur d : d <> [] -> Kinv (from_mapping dur d).
Proof.
  intros Hne d' H. rewrite from_mapping_chans.
  destruct d as [|[k v] [|kv r]]; [congruence| |].
  - simpl in H. inversion H; subst. split; [discriminate|reflexivity].
  - unfold from_mapping in H. pose proof (wcvd_multi_const_keys dur _ _ H) as K. split; [|exact K].
    intro E. subst d'. specialize (K k). simpl in K. rewrite chan_eqb_refl in K. discriminate.
Qed.

Lemma from_mapping_Ninv dur d : Ninv (from_mapping dur d).
Proof. pose proof (from_mapping_not_seq dur d) as N. unfold Ninv. destruct (from_mapping dur d); auto. Qed.

Lemma leafL_Cinv x : leafL x -> Kinv x /\ Ninv x.
Proof.
  intro H. apply leafL_lbase in H. destruct H as (Hn & _ & Hd). split.
  - intros d Ed. destruct (Hd d Ed) as (A & _ & K & _). split; auto.
  - destruct x; simpl; auto. simpl in Hn. discriminate.
Qed.

Lemma chans_same_trans a b c : chans_same a b -> chans_same b c -> chans_same a c.
Proof. intros H1 H2 x. rewrite (H1 x). apply H2. Qed.
Lemma chans_same_sym a b : chans_same a b -> chans_same b a.
Proof. intros H x. symmetry. apply H. Qed.

Lemma Forall_chans_weaken L a b : chans_same a b -> Forall (fun x => chans_same (wchans x) a) L ->
  Forall (fun x => chans_same (wchans x) b) L.
Proof. intros H HF. eapply Forall_impl; [|exact HF]. intros x Hx. exact (chans_same_trans _ _ _ Hx H). Qed.

Lemma from_sequence_Cinv : forall ws Ls sw, Forall2 Cinv ws Ls -> from_sequence ws = Ok sw -> Cinv sw (concat Ls).
Proof.
  intros ws Ls sw HF Hs.
  destruct HF as [|w0 L0 ws Ls S0 HF]; [discriminate|].
  destruct HF as [|w1 L1 ws Ls S1 HF].
  - simpl in Hs. inversion Hs; subst sw. cbn [concat]. rewrite app_nil_r. exact S0.
  - assert (HF' : Forall2 Cinv (w0 :: w1 :: ws) (L0 :: L1 :: Ls)) by (constructor; [exact S0|constructor; [exact S1|exact HF]]).
    remember (w0 :: w1 :: ws) as WS. remember (L0 :: L1 :: Ls) as LS.
    assert (Hs' : match fold_left cvF WS (wcvd w0) with
                  | None => mk_seq (flat_map unseq WS)
                  | Some d => Ok (from_mapping (leaves_dur (flat_map unseq WS)) d)
                  end = Ok sw) by (subst WS; exact Hs).
    clear Hs. destruct (fold_left cvF WS (wcvd w0)) as [d|] eqn:Ecv.
    + inversion Hs'; subst sw. clear Hs'. apply fold_cv_some in Ecv. destruct Ecv as (E0 & Eall).
      destruct S0 as (_ & K0 & _). destruct (K0 d E0) as (Dne & Dk).
      assert (Hnd : nonempty_dict (Some d) = true) by (destruct d; [congruence|reflexivity]). specialize (Eall Hnd).
      split; [|split; [apply from_mapping_Kinv; exact Dne|apply from_mapping_Ninv]].
      rewrite from_mapping_chans.
      clear - HF' Eall. revert Eall. induction HF' as [|w L ws' Ls' (HL & Kw & _) _ IH]; intro Eall; [constructor|].
      inversion Eall as [|? ? Ew Eall']; subst. cbn [concat]. apply Forall_app. split; [|apply IH; exact Eall'].
      destruct (wcvd w) as [dw|] eqn:Edw; [|discriminate]. simpl in Ew. unfold cdict_eqb in Ew.
      apply andb_prop in Ew as (Ew & _). apply cset_eqb_same in Ew. destruct (Kw dw Edw) as (_ & Kd).
      apply (Forall_chans_weaken L (wchans w)); auto. intro c. rewrite <- Kd. symmetry. apply Ew.
    + unfold mk_seq in Hs'. destruct (flat_map unseq WS) as [|x0 fr] eqn:Efl; [discriminate|].
      destruct (forallb (fun y => cset_eqb (wchans y) (wchans x0)) fr) eqn:Ech; [|discriminate].
      inversion Hs'; subst sw. clear Hs'.
      split; [|split; [intros d' Hd'; discriminate|discriminate]].
      assert (Hel : forall y, In y (x0 :: fr) -> chans_same (wchans y) (wchans x0)).
      { intros y [<-|Hy]; [intro c; reflexivity|]. rewrite forallb_forall in Ech. apply cset_eqb_same. apply Ech. exact Hy. }
      rewrite <- Efl in Hel. clear Efl Ech.
      change (wchans (WSeq (x0 :: fr))) with (wchans x0).
      clear - HF' Hel. induction HF' as [|w L ws' Ls' (HL & _ & Nw) _ IH]; [constructor|].
      cbn [concat]. apply Forall_app. split.
      * apply (Forall_chans_weaken L (wchans w)); auto.
        destruct w; try (apply Hel; cbn [flat_map unseq]; left; reflexivity).
        simpl in Nw. destruct l as [|y l]; [congruence|]. change (wchans (WSeq (y :: l))) with (wchans y).
        apply Hel. cbn [flat_map unseq]. left. reflexivity.
      * apply IH. intros y Hy. apply Hel. cbn [flat_map]. apply in_or_app. right. exact Hy.
Qed.

Lemma from_rep_Cinv sw L n w : Cinv sw L -> from_repetition_count sw n = Ok w -> Cinv w (repeat_app (Z.to_nat n) L).
Proof.
  intros (HL & Ks & Ns) Hr. unfold from_repetition_count in Hr. destruct (wcvd sw) as [d|] eqn:Ed.
  - inversion Hr; subst w. destruct (Ks d Ed) as (Dne & Dk).
    split; [|split; [apply from_mapping_Kinv; exact Dne|apply from_mapping_Ninv]].
    apply Forall_repeat_app. rewrite from_mapping_chans.
    apply (Forall_chans_weaken L (wchans sw)); auto. intro c. symmetry. apply Dk.
  - destruct (n <? 1)%Z; [discriminate|]. inversion Hr; subst w.
    split; [apply Forall_repeat_app; exact HL|]. split; [intros d' Hd'; simpl in Hd'; congruence|exact I].
Qed.

Definition TCinv (l : loop) : Prop := lstruct l -> forall w, to_waveform l = Ok w -> Cinv w (flatten l).

Lemma tw_list_Cinv : forall cs, Forall TCinv cs -> Forall lstruct cs -> forall ws, tw_list cs = Ok ws ->
  Forall2 Cinv ws (map flatten cs).
Proof.
  induction 1 as [|x r Hx _ IH]; intros Hg ws Hw; simpl in Hw.
  - inversion Hw; subst. constructor.
  - inversion Hg; subst. destruct (to_waveform x) as [w|e] eqn:E; simpl in Hw; [|discriminate].
    destruct (tw_list r) as [ws'|e] eqn:E'; simpl in Hw; [|discriminate]. inversion Hw; subst ws.
    simpl. constructor; auto.
Qed.

Lemma to_waveform_Cinv : forall l, TCinv l.
Proof.
  induction l using loop_ind2; intros Hg w0 Hw.
  - destruct Hg as (-> & HL). simpl in Hw. inversion Hw; subst w0.
    change (flatten (Leaf 1 w)) with (repeat_app (Z.to_nat 1) [w]). change (Z.to_nat 1) with 1%nat. cbn [repeat_app app].
    destruct (leafL_Cinv w HL) as (K & N). split; [|split; auto]. constructor; [intro c; reflexivity|constructor].
  - apply lstruct_nest in Hg. destruct Hg as (Hn & Hne & Hall). rewrite to_waveform_nest in Hw. rewrite flatten_nest'.
    set (X := concat (map flatten cs)).
    assert (Hsw : forall sw, match cs with [x] => to_waveform x | _ => ws <- tw_list cs ;; from_sequence ws end = Ok sw ->
                             Cinv sw X).
    { intros sw Hs.
      assert (Hgen : forall ws, tw_list cs = Ok ws -> from_sequence ws = Ok sw -> Cinv sw X).
      { intros ws Hws Hfs. apply (from_sequence_Cinv ws (map flatten cs) sw); auto. apply tw_list_Cinv; auto. }
      destruct cs as [|x [|y r]]; [congruence| |].
      - apply (Hgen [sw]); [simpl; rewrite Hs; reflexivity|reflexivity].
      - destruct (tw_list (x :: y :: r)) as [ws|e] eqn:E; simpl in Hs; [|discriminate]. apply (Hgen ws); auto. }
    match type of Hw with (bind ?S _) = _ => destruct S as [sw|e] eqn:Es end; simpl in Hw; [|discriminate].
    pose proof (Hsw sw eq_refl) as A.
    destruct (1 <? n)%Z eqn:En.
    + apply (from_rep_Cinv sw X n w0); auto.
    + inversion Hw; subst w0. assert (n = 1%Z) by (apply Z.ltb_ge in En; lia). subst n.
      change (Z.to_nat 1) with 1%nat. cbn [repeat_app]. rewrite app_nil_r. exact A.
Qed.

(* the sampling theorem for create_program outputs without a channel hypothesis *)
Theorem sampling_create_program_chans p env cm prog w :
  guard_C01_tables p (SDict env) (cm_of cm) = true ->
  create_program p env cm None = Ok (Some prog) -> to_waveform prog = Ok w ->
  forall c t, cmem c (wchans w) = true -> 0 <= t -> t < loop_dur prog -> oeq (get_sampled w c t) (play prog c t).
Proof.
  intros Ht Hcp Hw c t Hc H0 H1.
  assert (Hls : lstruct prog).
  { unfold create_program in Hcp. destruct (cp p (SDict env) (cm_of cm) None) as [cs|e] eqn:E; simpl in Hcp; [|discriminate].
    pose proof (cp_struct_all p _ _ _ _ Ht E) as HF.
    destruct cs as [|c0 cr]; inversion Hcp; subst. apply lstruct_nest. split; [lia|]. split; [discriminate|exact HF]. }
  destruct (to_waveform_Cinv prog Hls w Hw) as (HF & _ & _).
  apply (sampling_sound (wchans w) prog w); auto. apply lstruct_lgood; auto.
Qed.
