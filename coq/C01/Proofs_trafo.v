(* C01 — transformations read pointwise, the piece_trafo composition lemma, the emission lemma for atoms *)
From Coq Require Import ZArith QArith Qround List Bool Lia Lqa Setoid.
Require Import QV.common.Util QV.C01.Model QV.C01.Spec QV.C01.Proofs QV.C01.ProofsDefs.
Import ListNotations.
Open Scope Q_scope.
Arguments Qred : simpl never.  Arguments Qplus : simpl never.  Arguments Qminus : simpl never.
Arguments Qmult : simpl never. Arguments Qdiv : simpl never.   Arguments Qopp : simpl never.
Arguments Qinv : simpl never.  Arguments Qle_bool : simpl never. Arguments Qeq_bool : simpl never.
Arguments Qfloor : simpl never. Arguments inject_Z : simpl never. Arguments Z.to_nat : simpl never.

(* ---------------------------------------------------------------------------------------------------------- *)
(* channels *)
Lemma chan_eqb_eq a b : chan_eqb a b = true -> a = b.
Proof.
  destruct a, b; simpl; intro H; try discriminate.
  - apply N.eqb_eq in H. congruence.
  - apply Z.eqb_eq in H. congruence.
Qed.
Lemma chan_eqb_refl a : chan_eqb a a = true.
Proof. destruct a; simpl; [apply N.eqb_refl|apply Z.eqb_refl]. Qed.
Lemma chan_eqb_sym a b : chan_eqb a b = chan_eqb b a.
Proof.
  destruct (chan_eqb a b) eqn:E.
  - apply chan_eqb_eq in E. subst. symmetry. apply chan_eqb_refl.
  - destruct (chan_eqb b a) eqn:E'; auto. apply chan_eqb_eq in E'. subst. rewrite chan_eqb_refl in E. discriminate.
Qed.

Lemma cmem_cons c k l : cmem c (k :: l) = chan_eqb c k || cmem c l.
Proof. reflexivity. Qed.
Lemma cmem_app c a b : cmem c (a ++ b) = cmem c a || cmem c b.
Proof. unfold cmem. apply existsb_app. Qed.

Lemma cmem_cunion c : forall b a, cmem c (cunion a b) = cmem c a || cmem c b.
Proof.
  unfold cunion. induction b as [|x b IH]; intros a; simpl.
  - rewrite orb_false_r. reflexivity.
  - rewrite IH. destruct (cmem x a) eqn:E.
    + destruct (chan_eqb c x) eqn:E'; simpl; auto.
      apply chan_eqb_eq in E'. subst. rewrite E. reflexivity.
    + rewrite cmem_app. simpl. rewrite orb_false_r. rewrite orb_assoc. reflexivity.
Qed.

Lemma cmem_cminus c a b : cmem c (cminus a b) = cmem c a && negb (cmem c b).
Proof.
  unfold cminus. induction a as [|x a IH]; simpl; auto.
  destruct (cmem x b) eqn:E; simpl.
  - rewrite IH. destruct (chan_eqb c x) eqn:E'; simpl; auto.
    apply chan_eqb_eq in E'. subst. rewrite E. simpl. rewrite andb_false_r. reflexivity.
  - rewrite IH. destruct (chan_eqb c x) eqn:E'; simpl; auto.
    apply chan_eqb_eq in E'. subst. rewrite E. reflexivity.
Qed.

(* ---------------------------------------------------------------------------------------------------------- *)
(* a transformation chain acts on every channel independently *)
Fixpoint over_get (c : chan) (m : list (chan * Q)) (x : option Q) : option Q :=
  match m with
  | [] => x
  | kv :: r => over_get c r (if chan_eqb c (fst kv) then Some (snd kv) else x)
  end.

Definition sf (st : tstep) (c : chan) (x : option Q) : option Q :=
  match st with
  | TScale m => match cassoc c m with Some f => omap2 Qmult x f | None => x end
  | TOffset m => match cassoc c m with Some o => omap2 Qplus x o | None => x end
  | TOver m => over_get c m x
  end.

Definition tf (tr : trafo) (c : chan) (x : option Q) : option Q := fold_left (fun acc st => sf st c acc) tr x.

Definition step_over (c : chan) (st : tstep) : bool :=
  match st with TOver m => cmem c (map fst m) | _ => false end.
Definition in_over (c : chan) (tr : trafo) : bool := existsb (step_over c) tr.

Lemma dg_nil c : data_get c [] = None.
Proof. reflexivity. Qed.
Lemma dg_cons c k v l : data_get c ((k, v) :: l) = if chan_eqb c k then v else data_get c l.
Proof. unfold data_get. simpl. destruct (chan_eqb c k); reflexivity. Qed.

Lemma dg_cupdate c k v : forall l, data_get c (cupdate k v l) = if chan_eqb c k then v else data_get c l.
Proof.
  induction l as [|[k' w] l IH]; simpl.
  - rewrite dg_cons, dg_nil. reflexivity.
  - destruct (chan_eqb k k') eqn:E.
    + apply chan_eqb_eq in E. subst k'. rewrite !dg_cons. destruct (chan_eqb c k); reflexivity.
    + rewrite !dg_cons, IH. destruct (chan_eqb c k') eqn:E'; auto.
      apply chan_eqb_eq in E'. subst k'. rewrite (chan_eqb_sym c k), E. reflexivity.
Qed.

Lemma dg_map_op (f : Q -> Q -> Q) c m : forall d,
  data_get c (map (fun kv : chan * option Q =>
                     match cassoc (fst kv) m with Some a => (fst kv, omap2 f (snd kv) a) | None => kv end) d)
  = match cassoc c m with Some a => omap2 f (data_get c d) a | None => data_get c d end.
Proof.
  induction d as [|[k v] d IH]; simpl.
  - rewrite dg_nil. destruct (cassoc c m); reflexivity.
  - destruct (cassoc k m) as [a|] eqn:Ek; simpl; rewrite !dg_cons, IH;
      destruct (chan_eqb c k) eqn:E; auto; apply chan_eqb_eq in E; subst k; rewrite Ek; reflexivity.
Qed.

Lemma dg_over c : forall m d,
  data_get c (fold_left (fun acc kv => cupdate (fst kv) (Some (snd kv)) acc) m d) = over_get c m (data_get c d).
Proof.
  induction m as [|kv m IH]; intros d; simpl; auto.
  rewrite IH, dg_cupdate. reflexivity.
Qed.

Lemma dg_step c st D : data_get c (step_apply st D) = sf st c (data_get c D).
Proof.
  destruct st as [m|m|m]; simpl.
  - apply (dg_map_op Qmult).
  - apply (dg_map_op Qplus).
  - apply dg_over.
Qed.

Lemma dg_trafo c : forall tr D, data_get c (trafo_apply tr D) = tf tr c (data_get c D).
Proof.
  unfold trafo_apply, tf. induction tr as [|st tr IH]; intros D; simpl; auto.
  rewrite IH, dg_step. reflexivity.
Qed.

Lemma dg_map_mk c (g : chan -> option Q) : forall L,
  data_get c (map (fun ic => (ic, g ic)) L) = if cmem c L then g c else None.
Proof.
  induction L as [|k L IH]; simpl; [reflexivity|].
  rewrite dg_cons, IH. destruct (chan_eqb c k) eqn:E; simpl; auto.
  apply chan_eqb_eq in E. subst. reflexivity.
Qed.

Lemma tf_app a b c x : tf (a ++ b) c x = tf b c (tf a c x).
Proof. unfold tf. apply fold_left_app. Qed.

Lemma over_get_in c : forall m x, cmem c (map fst m) = true -> over_get c m x = over_get c m None.
Proof.
  induction m as [|kv m IH]; intros x H; simpl in *; [discriminate|].
  destruct (chan_eqb c (fst kv)) eqn:E; auto.
Qed.
Lemma over_get_notin c : forall m x, cmem c (map fst m) = false -> over_get c m x = x.
Proof.
  induction m as [|kv m IH]; intros x H; simpl in *; auto.
  apply orb_false_elim in H as (H1 & H2). rewrite H1. apply IH. exact H2.
Qed.

Lemma tf_over_const c : forall tr x, in_over c tr = true -> tf tr c x = tf tr c None.
Proof.
  unfold tf, in_over. induction tr as [|st tr IH]; intros x H; simpl in *; [discriminate|].
  destruct (step_over c st) eqn:E.
  - destruct st; simpl in E; try discriminate. simpl. rewrite (over_get_in c m x E). reflexivity.
  - simpl in H. rewrite (IH _ H). symmetry. apply IH. exact H.
Qed.

Lemma sf_none c st : step_over c st = false -> sf st c None = None.
Proof.
  destruct st as [m|m|m]; simpl; intro H.
  - destruct (cassoc c m); reflexivity.
  - destruct (cassoc c m); reflexivity.
  - apply over_get_notin. exact H.
Qed.

Lemma tf_none c : forall tr, in_over c tr = false -> tf tr c None = None.
Proof.
  unfold tf, in_over. induction tr as [|st tr IH]; intros H; simpl in *; auto.
  apply orb_false_elim in H as (H1 & H2). rewrite (sf_none c st H1). apply IH. exact H2.
Qed.

Lemma over_get_oeq c : forall m x y, oeq x y -> oeq (over_get c m x) (over_get c m y).
Proof.
  induction m as [|kv m IH]; intros x y H; simpl; auto.
  apply IH. destruct (chan_eqb c (fst kv)); auto. apply oeq_refl.
Qed.

Lemma omap2_mult_oeq x y a : oeq x y -> oeq (omap2 Qmult x a) (omap2 Qmult y a).
Proof. destruct x, y; simpl; auto. intro H. rewrite !Qred_correct, H. reflexivity. Qed.
Lemma omap2_plus_oeq x y a : oeq x y -> oeq (omap2 Qplus x a) (omap2 Qplus y a).
Proof. destruct x, y; simpl; auto. intro H. rewrite !Qred_correct, H. reflexivity. Qed.

Lemma sf_oeq st c x y : oeq x y -> oeq (sf st c x) (sf st c y).
Proof.
  destruct st as [m|m|m]; simpl; intro H.
  - destruct (cassoc c m); auto. apply omap2_mult_oeq; auto.
  - destruct (cassoc c m); auto. apply omap2_plus_oeq; auto.
  - apply over_get_oeq; auto.
Qed.

Lemma tf_oeq c : forall tr x y, oeq x y -> oeq (tf tr c x) (tf tr c y).
Proof.
  unfold tf. induction tr as [|st tr IH]; intros x y H; simpl; auto.
  apply IH. apply sf_oeq. exact H.
Qed.

(* ---- channel sets of a chain ---- *)
Lemma cmem_step_outputs c st ins : cmem c (step_outputs st ins) = cmem c ins || step_over c st.
Proof.
  destruct st; simpl; try (rewrite orb_false_r; reflexivity). apply cmem_cunion.
Qed.

Lemma cmem_trafo_outputs c : forall tr ins, cmem c (trafo_outputs tr ins) = cmem c ins || in_over c tr.
Proof.
  unfold trafo_outputs, in_over. induction tr as [|st tr IH]; intros ins; simpl.
  - rewrite orb_false_r. reflexivity.
  - rewrite IH, cmem_step_outputs, orb_assoc. reflexivity.
Qed.

Lemma trafo_outputs_app a b ins : trafo_outputs (a ++ b) ins = trafo_outputs b (trafo_outputs a ins).
Proof. unfold trafo_outputs. apply fold_left_app. Qed.

Lemma trafo_inputs_single c : forall tr, trafo_inputs tr [c] = if in_over c tr then [] else [c].
Proof.
  unfold trafo_inputs, in_over. induction tr as [|st tr IH]; simpl; auto.
  rewrite IH. destruct st as [m|m|m]; simpl; auto.
  destruct (existsb (step_over c) tr); simpl.
  - rewrite orb_true_r. reflexivity.
  - rewrite orb_false_r. destruct (cmem c (map fst m)); reflexivity.
Qed.

Lemma chans_same_outputs tr a b : chans_same a b -> chans_same (trafo_outputs tr a) (trafo_outputs tr b).
Proof. intros H c. rewrite !cmem_trafo_outputs, (H c). reflexivity. Qed.

(* ---- the sample of a transformed waveform / the value of a transformed piece, pointwise ---- *)
Lemma wsample_trans w tr c t : wsample (WTrans w tr) c t = tf tr c (wsample w c t).
Proof.
  simpl. rewrite dg_trafo, dg_map_mk, trafo_inputs_single.
  destruct (in_over c tr) eqn:E; simpl.
  - symmetry. apply tf_over_const. exact E.
  - rewrite chan_eqb_refl. reflexivity.
Qed.

Lemma pval_trafo tr p c t :
  pval (piece_trafo tr p) c t = tf tr c (if cmem c (pchans p) then pval p c t else None).
Proof. simpl. rewrite dg_trafo, dg_map_mk. reflexivity. Qed.

(* ---------------------------------------------------------------------------------------------------------- *)
(* composition *)
Lemma piece_trafo_app_val a b p c t :
  pval (piece_trafo (a ++ b) p) c t = pval (piece_trafo b (piece_trafo a p)) c t.
Proof.
  rewrite (pval_trafo (a ++ b)), (pval_trafo b), tf_app. f_equal.
  change (pchans (piece_trafo a p)) with (trafo_outputs a (pchans p)).
  rewrite cmem_trafo_outputs, (pval_trafo a).
  destruct (cmem c (pchans p)) eqn:E; simpl; auto.
  destruct (in_over c a) eqn:E'; auto.
  apply tf_none. exact E'.
Qed.

Lemma piece_equiv_refl p : piece_equiv p p.
Proof. repeat split; try reflexivity. intros; apply oeq_refl. Qed.

Lemma piece_trafo_app a b p : piece_equiv (piece_trafo (a ++ b) p) (piece_trafo b (piece_trafo a p)).
Proof.
  split; [reflexivity|]. split.
  - intro c. simpl. rewrite trafo_outputs_app. reflexivity.
  - intros c t _. rewrite piece_trafo_app_val. apply oeq_refl.
Qed.

Lemma leaf_matches_equiv w p q : piece_equiv p q -> leaf_matches w p -> leaf_matches w q.
Proof.
  intros (Hd & Hc & Hv) (Ld & Lp & Lc & Ls). repeat split.
  - rewrite Ld. exact Hd.
  - rewrite <- Hd. exact Lp.
  - intro c. rewrite (Lc c). apply Hc.
  - intros c t Hin H0 H1. rewrite <- (Hc c) in Hin. rewrite <- Hd in H1.
    eapply oeq_trans; [apply Ls; auto|]. apply Hv. exact Hin.
Qed.

Lemma ptr_chain tr gt p w :
  leaf_matches w (ptr (Some (chain tr gt)) p) -> leaf_matches w (ptr gt (piece_trafo tr p)).
Proof.
  destruct gt as [g|]; simpl; auto.
  apply leaf_matches_equiv. apply piece_trafo_app.
Qed.

Lemma Forall2_ptr_chain tr gt : forall pcs L,
  Forall2 leaf_matches L (map (ptr (Some (chain tr gt))) pcs) ->
  Forall2 leaf_matches L (map (ptr gt) (map (piece_trafo tr) pcs)).
Proof.
  induction pcs as [|p r IH]; intros L H; simpl in *; inversion H; subst; constructor.
  - apply ptr_chain. assumption.
  - apply IH. assumption.
Qed.

(* ---------------------------------------------------------------------------------------------------------- *)
(* constant dictionaries and from_mapping *)
Lemma cassoc_in_keys {A} c : forall (d : list (chan * A)), cmem c (map fst d) = true -> exists v, cassoc c d = Some v.
Proof.
  induction d as [|[k v] d IH]; simpl; intro H; [discriminate|].
  destruct (chan_eqb c k); [eauto|]. apply IH. exact H.
Qed.
Lemma cassoc_notin_keys {A} c : forall (d : list (chan * A)), cmem c (map fst d) = false -> cassoc c d = None.
Proof.
  induction d as [|[k v] d IH]; simpl; intro H; auto.
  apply orb_false_elim in H as (H1 & H2). rewrite H1. apply IH. exact H2.
Qed.

Lemma from_mapping_dur dur d : d <> [] -> wdur (from_mapping dur d) = dur.
Proof. destruct d as [|[c v] [|kv r]]; simpl; congruence. Qed.

Lemma wchans_multi_const dur : forall d : cdict,
  wchans (WMulti (map (fun kv => WConst dur (fst kv) (snd kv)) d)) = map fst d.
Proof. induction d as [|kv d IH]; simpl in *; congruence. Qed.

Lemma from_mapping_chans dur d : wchans (from_mapping dur d) = map fst d.
Proof.
  destruct d as [|[c v] [|kv r]]; try reflexivity.
  unfold from_mapping. apply wchans_multi_const.
Qed.

Lemma wsample_multi_const dur c t : forall d : cdict, cmem c (map fst d) = true ->
  wsample (WMulti (map (fun kv => WConst dur (fst kv) (snd kv)) d)) c t = cassoc c d.
Proof.
  induction d as [|[k v] d IH]; simpl; intro H; [discriminate|].
  rewrite orb_false_r. destruct (chan_eqb c k); auto.
Qed.

Lemma from_mapping_sample dur d c t : cmem c (map fst d) = true -> wsample (from_mapping dur d) c t = cassoc c d.
Proof.
  destruct d as [|[k v] [|kv r]]; intro H.
  - discriminate.
  - simpl in *. rewrite orb_false_r in H. rewrite H. reflexivity.
  - unfold from_mapping. apply wsample_multi_const. exact H.
Qed.

Lemma cupdate_fresh {A} k (v : A) : forall l, cmem k (map fst l) = false -> cupdate k v l = l ++ [(k, v)].
Proof.
  induction l as [|[k' w] l IH]; simpl; intro H; auto.
  apply orb_false_elim in H as (H1 & H2). rewrite H1, IH; auto.
Qed.

Lemma fold_cupdate_fresh : forall (b a : cdict),
  nodupb (map fst b) = true -> (forall c, cmem c (map fst b) = true -> cmem c (map fst a) = false) ->
  fold_left (fun acc kv => cupdate (fst kv) (snd kv) acc) b a = a ++ b.
Proof.
  induction b as [|[k v] b IH]; intros a Hn Hd; simpl.
  - rewrite app_nil_r. reflexivity.
  - simpl in Hn. apply andb_prop in Hn as (Hk & Hn).
    rewrite cupdate_fresh.
    + rewrite IH; auto.
      * rewrite <- app_assoc. reflexivity.
      * intros c Hc. rewrite map_app, cmem_app. simpl. rewrite orb_false_r.
        rewrite Hd by (simpl; rewrite Hc; apply orb_true_r). simpl.
        destruct (chan_eqb c k) eqn:E; auto. apply chan_eqb_eq in E. subst.
        rewrite Hc in Hk. discriminate.
    + apply Hd. simpl. rewrite chan_eqb_refl. reflexivity.
Qed.

Lemma wcvd_multi_const dur : forall d : cdict, nodupb (map fst d) = true ->
  wcvd (WMulti (map (fun kv => WConst dur (fst kv) (snd kv)) d)) = Some d.
Proof.
  induction d as [|[k v] d IH]; intro Hn; [reflexivity|].
  simpl in Hn. apply andb_prop in Hn as (Hk & Hn). specialize (IH Hn).
  simpl in *. rewrite IH. f_equal.
  rewrite fold_cupdate_fresh; auto.
  intros c Hc. simpl. rewrite orb_false_r.
  destruct (chan_eqb c k) eqn:E; auto. apply chan_eqb_eq in E. subst. rewrite Hc in Hk. discriminate.
Qed.

Lemma from_mapping_wcvd dur d : d <> [] -> nodupb (map fst d) = true -> wcvd (from_mapping dur d) = Some d.
Proof.
  intros Hne Hn. destruct d as [|[k v] [|kv r]]; try congruence; try reflexivity.
  unfold from_mapping. apply wcvd_multi_const. exact Hn.
Qed.

(* a constant leaf rebuilt from a coherent dictionary plays what the dictionary says *)
Lemma from_mapping_matches dur d (q : piece) :
  d <> [] -> dur == pdur q -> 0 < pdur q -> chans_same (map fst d) (pchans q) ->
  (forall c v t, cassoc c d = Some v -> 0 <= t -> t <= pdur q -> oeq (Some v) (pval q c t)) ->
  leaf_matches (from_mapping dur d) q.
Proof.
  intros Hne Hd Hp Hc Hv. repeat split; auto.
  - rewrite from_mapping_dur; auto.
  - rewrite from_mapping_chans. exact Hc.
  - intros c t Hin H0 H1. rewrite <- (Hc c) in Hin. rewrite from_mapping_sample by exact Hin.
    destruct (cassoc_in_keys c d Hin) as (v & Ev). rewrite Ev. apply (Hv c v t); auto.
Qed.

(* ---- data records whose values are all defined ---- *)
Lemma forallb_map {A B} (f : A -> B) (g : B -> bool) l : forallb g (map f l) = forallb (fun x => g (f x)) l.
Proof. induction l; simpl; congruence. Qed.
Definition all_some (X : data) : bool := forallb (fun kv => is_some (snd kv)) X.

Lemma keys_cupdate {A} k (v : A) : forall l,
  map fst (cupdate k v l) = if cmem k (map fst l) then map fst l else map fst l ++ [k].
Proof.
  induction l as [|[k' w] l IH]; simpl; auto.
  destruct (chan_eqb k k') eqn:E; simpl.
  - apply chan_eqb_eq in E. subst. reflexivity.
  - rewrite IH. destruct (cmem k (map fst l)); reflexivity.
Qed.

Lemma nodupb_snoc k : forall l, nodupb l = true -> cmem k l = false -> nodupb (l ++ [k]) = true.
Proof.
  induction l as [|x l IH]; simpl; intros Hn Hk; auto.
  apply andb_prop in Hn as (Hx & Hn). apply orb_false_elim in Hk as (H1 & H2).
  rewrite cmem_app, IH; auto. simpl. rewrite orb_false_r.
  apply negb_true_iff in Hx. rewrite Hx. simpl. rewrite chan_eqb_sym, H1. reflexivity.
Qed.

Lemma nodup_cupdate {A} k (v : A) l : nodupb (map fst l) = true -> nodupb (map fst (cupdate k v l)) = true.
Proof.
  intro H. rewrite keys_cupdate. destruct (cmem k (map fst l)) eqn:E; auto. apply nodupb_snoc; auto.
Qed.

Lemma all_some_cupdate k v : forall X, all_some X = true -> all_some (cupdate k (Some v) X) = true.
Proof.
  induction X as [|[k' w] X IH]; simpl; intro H; auto.
  apply andb_prop in H as (H1 & H2). destruct (chan_eqb k k'); simpl; [exact H2|].
  rewrite H1. apply IH. exact H2.
Qed.

Lemma step_keep st X : all_some X = true -> nodupb (map fst X) = true ->
  all_some (step_apply st X) = true /\ nodupb (map fst (step_apply st X)) = true.
Proof.
  intros Ha Hn. destruct st as [m|m|m]; simpl.
  - split.
    + unfold all_some in *. rewrite forallb_map. rewrite forallb_forall in *. intros [k v] Hin.
      specialize (Ha _ Hin). simpl in *. destruct (cassoc k m); simpl; auto. destruct v; auto.
    + rewrite map_map. erewrite map_ext; [exact Hn|]. intros [k v]. simpl. destruct (cassoc k m); reflexivity.
  - split.
    + unfold all_some in *. rewrite forallb_map. rewrite forallb_forall in *. intros [k v] Hin.
      specialize (Ha _ Hin). simpl in *. destruct (cassoc k m); simpl; auto. destruct v; auto.
    + rewrite map_map. erewrite map_ext; [exact Hn|]. intros [k v]. simpl. destruct (cassoc k m); reflexivity.
  - revert X Ha Hn. induction m as [|kv m IH]; intros X Ha Hn; simpl; auto.
    apply IH; [apply all_some_cupdate; auto|apply nodup_cupdate; auto].
Qed.

Lemma trafo_keep : forall tr X, all_some X = true -> nodupb (map fst X) = true ->
  all_some (trafo_apply tr X) = true /\ nodupb (map fst (trafo_apply tr X)) = true.
Proof.
  unfold trafo_apply. induction tr as [|st tr IH]; intros X Ha Hn; simpl; auto.
  destruct (step_keep st X Ha Hn) as (A & B). apply IH; auto.
Qed.

Lemma keys_step c st X : cmem c (map fst (step_apply st X)) = cmem c (map fst X) || step_over c st.
Proof.
  destruct st as [m|m|m]; simpl.
  - rewrite orb_false_r, map_map. f_equal. apply map_ext. intros [k v]. simpl. destruct (cassoc k m); reflexivity.
  - rewrite orb_false_r, map_map. f_equal. apply map_ext. intros [k v]. simpl. destruct (cassoc k m); reflexivity.
  - revert X. induction m as [|kv m IH]; intros X; simpl.
    + rewrite orb_false_r. reflexivity.
    + rewrite IH, keys_cupdate. destruct (cmem (fst kv) (map fst X)) eqn:E.
      * destruct (chan_eqb c (fst kv)) eqn:E'; simpl; auto. apply chan_eqb_eq in E'. subst. rewrite E. reflexivity.
      * rewrite cmem_app. simpl. rewrite orb_false_r, orb_assoc. reflexivity.
Qed.

Lemma keys_trafo c : forall tr X, cmem c (map fst (trafo_apply tr X)) = cmem c (map fst X) || in_over c tr.
Proof.
  unfold trafo_apply, in_over. induction tr as [|st tr IH]; intros X; simpl.
  - rewrite orb_false_r. reflexivity.
  - rewrite IH, keys_step, orb_assoc. reflexivity.
Qed.

Lemma data_cdict_keys : forall X, all_some X = true -> map fst (data_cdict X) = map fst X.
Proof.
  induction X as [|[k [v|]] X IH]; simpl; intro H; auto; [|discriminate].
  rewrite IH; auto.
Qed.

Lemma data_cdict_get c : forall X, all_some X = true -> cassoc c (data_cdict X) = data_get c X.
Proof.
  induction X as [|[k [v|]] X IH]; simpl; intro H; auto; [|discriminate].
  rewrite dg_cons. destruct (chan_eqb c k); auto.
Qed.

Lemma cdict_data_all_some d : all_some (cdict_data d) = true.
Proof. unfold all_some, cdict_data. rewrite forallb_map. apply forallb_forall. intros; reflexivity. Qed.
Lemma cdict_data_keys d : map fst (cdict_data d) = map fst d.
Proof. unfold cdict_data. rewrite map_map. reflexivity. Qed.
Lemma cdict_data_get c d : data_get c (cdict_data d) = cassoc c d.
Proof.
  induction d as [|[k v] d IH]; simpl; auto. rewrite dg_cons, IH. destruct (chan_eqb c k); reflexivity.
Qed.

(* ---------------------------------------------------------------------------------------------------------- *)
(* the emission lemma: AtomicPulseTemplate._internal_create_program after build_waveform *)
Lemma flatten_list_leaf1 w : flatten_list [Leaf 1 w] = [w].
Proof. unfold flatten_list. simpl. change (Z.to_nat 1) with 1%nat. reflexivity. Qed.

Lemma emit_ok w p gt : wmatch w p -> Forall2 leaf_matches (flatten_list (atomic_emit (Some w) gt)) [ptr gt p].
Proof.
  intros (HL & HC). pose proof HL as (Ld & Lp & Lc & Ls).
  unfold atomic_emit. destruct gt as [tr|].
  - (* enclosing transformation *)
    unfold from_transformation. destruct (wcvd w) as [d|] eqn:Ed.
    + destruct HC as (Hne & Hn & Hk & Hv).
      set (X := trafo_apply tr (cdict_data d)).
      destruct (trafo_keep tr (cdict_data d) (cdict_data_all_some d)) as (XA & XN).
      { rewrite cdict_data_keys. exact Hn. }
      fold X in XA, XN.
      assert (Hkeys : forall c, cmem c (map fst (data_cdict X)) = cmem c (pchans p) || in_over c tr).
      { intro c. rewrite data_cdict_keys by exact XA. unfold X. rewrite keys_trafo, cdict_data_keys, Hk, (Lc c). reflexivity. }
      assert (Hne' : data_cdict X <> []).
      { destruct d as [|[k v] d]; [congruence|]. intro E.
        pose proof (Hkeys k) as Hk'. rewrite E in Hk'. simpl in Hk'.
        rewrite <- (Lc k), <- Hk in Hk'. simpl in Hk'. rewrite chan_eqb_refl in Hk'. discriminate. }
      assert (Hn' : nodupb (map fst (data_cdict X)) = true) by (rewrite data_cdict_keys; auto).
      rewrite from_mapping_wcvd by assumption. rewrite from_mapping_dur by assumption. cbv iota.
      rewrite flatten_list_leaf1. constructor; [|constructor].
      simpl. apply from_mapping_matches; auto.
      * intro c. simpl. rewrite Hkeys, cmem_trafo_outputs. reflexivity.
      * intros c v t Hcv H0 H1. rewrite pval_trafo.
        rewrite data_cdict_get in Hcv by exact XA. unfold X in Hcv. rewrite dg_trafo, cdict_data_get in Hcv.
        rewrite <- Hcv.
        destruct (cmem c (pchans p)) eqn:Ein.
        -- assert (Ek : cmem c (map fst d) = true) by (rewrite Hk, (Lc c); exact Ein).
           destruct (cassoc_in_keys c d Ek) as (u & Eu). rewrite Eu.
           apply tf_oeq. rewrite <- (Hv c u t Eu). apply Ls; auto.
        -- assert (Ek : cmem c (map fst d) = false) by (rewrite Hk, (Lc c); exact Ein).
           rewrite (cassoc_notin_keys c d Ek). apply oeq_refl.
    + cbv iota. change (wcvd (WTrans w tr)) with (@None cdict). cbv iota. rewrite flatten_list_leaf1. constructor; [|constructor].
      simpl. repeat split; auto.
      * apply chans_same_outputs. exact Lc.
      * intros c t Hin H0 H1. rewrite wsample_trans, pval_trafo.
        change (pchans (piece_trafo tr p)) with (trafo_outputs tr (pchans p)) in Hin.
        change (pdur (piece_trafo tr p)) with (pdur p) in H1.
        rewrite cmem_trafo_outputs in Hin.
        destruct (cmem c (pchans p)) eqn:Ein.
        -- apply tf_oeq. apply Ls; auto.
        -- simpl in Hin. rewrite (tf_over_const c tr (wsample w c t) Hin). apply oeq_refl.
  - (* no enclosing transformation *)
    destruct (wcvd w) as [d|] eqn:Ed.
    + destruct HC as (Hne & Hn & Hk & Hv).
      rewrite flatten_list_leaf1. constructor; [|constructor]. simpl.
      apply from_mapping_matches; auto.
      * intro c. rewrite Hk. apply Lc.
      * intros c v t Hcv H0 H1. rewrite <- (Hv c v t Hcv). apply Ls; auto.
        rewrite <- (Lc c), <- Hk. destruct (cmem c (map fst d)) eqn:E; auto.
        rewrite (cassoc_notin_keys c d E) in Hcv. discriminate.
    + rewrite flatten_list_leaf1. constructor; [|constructor]. exact HL.
Qed.
