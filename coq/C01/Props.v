(* C01 — property theorems (statements only; proofs live in Proofs.v).
   plays prog pcs  :=  the unrolled leaves of the program match the pieces one to one (same duration, same channels,
                       same samples on the closed piece interval), the durations agree, and for every channel of the
                       pulse and every t in [0, total) the program plays  at_ pcs c t  (half-open junctions). *)
From Coq Require Import ZArith QArith List Bool.
Require Import QV.C01.Model QV.C01.Spec QV.C01.Proofs.
Import ListNotations.
Open Scope Q_scope.

(* ---- the full property (kept as definitions: what is still open is visible and type-checked) ---- *)
Definition C01_denotes_statement : Prop :=
  forall p env cm r, guard_C01_par_order false p = true ->   (* guard of known finding (ii) only *)
    create_program p env cm None = Ok r ->
    exists pcs, denote_top p env cm = Ok pcs /\
                match r with None => pcs = [] | Some prog => plays prog pcs end.
Definition C01_sampling_statement : Prop :=
  forall p env cm prog c t, create_program p env cm None = Ok (Some prog) ->
    0 <= t -> t < loop_dur prog -> cmem c (loop_chans prog) = true ->
    oeq (sampled prog c t) (play prog c t).
Definition C01_errors_statement : Prop :=
  forall p env cm e, create_program p env cm None = Err e -> exists e', denote_top p env cm = Err e'.

(* ---- proved: the core fragment, no hypothesis about the model left ---- *)
(* single-channel constants composed by sequence, repetition, for-loop (any range), parameter/channel mapping
   (incl. dropped channels) and time reversal, any nesting, any parameters *)
Theorem C01_denotes_core : forall p env cm r, core p = true ->
  create_program p env cm None = Ok r ->
  exists pcs, denote_top p env cm = Ok pcs /\
              match r with None => pcs = [] | Some prog => plays prog pcs end.
Proof.
  intros p env cm r Hc. destruct (core_ok p Hc) as (A & B & C).
  apply (create_program_denote (fun gt => gt = None)); auto.
Qed.
Print Assumptions C01_denotes_core.

Example C01_core_nonvacuous :
  let p := PFor 1%N (EC 0) (EV 2%N) (EC 1)
             (PSeq [PMap [(3%N, EMul (EV 1%N) (EC (1 # 2)))] [(ChS 2, Some (ChS 1))]
                      (PRev (PRep (EC 2) (PAtom (AConst (EC (3 # 2)) [(ChS 2, EAdd (EV 3%N) (EC 1))]))));
                    PAtom (AConst (EV 1%N) [(ChS 1, EV 1%N)])]) in
  core p = true /\
  exists prog, create_program p [(2%N, 3 # 1)] [(ChS 1, Some (ChI 0))] None = Ok (Some prog) /\
               Qeq_bool (loop_dur prog) 12 = true.
Proof. split; [reflexivity|]. eexists. split; vm_compute; reflexivity. Qed.

(* ---- proved: all composite node kinds, relative to the atomic obligation ---- *)
(* `atoms_ok` = for every atom of the tree, build_waveform followed by the atomic emission (global transformation,
   constant short-cut) plays the atom's piece; the guard allows at most one transformation-creating node (parallel
   channel / scalar arithmetic) on a path from the root (this excludes the known finding (ii) and, for now, nested
   arithmetic whose composition lemma is not proved) *)
Theorem C01_denotes_partial : forall p env cm r,
  atoms_ok (fun _ => True) p -> guard_single_trafo false p = true ->
  create_program p env cm None = Ok r ->
  exists pcs, denote_top p env cm = Ok pcs /\
              match r with None => pcs = [] | Some prog => plays prog pcs end.
Proof.
  intros p env cm r Hok Hg. apply (create_program_denote (fun _ => True)); auto.
Qed.
Print Assumptions C01_denotes_partial.

Example C01_partial_hypothesis_satisfiable :
  atoms_ok (fun _ => True) (PRev (PSeq [PAtom (AConst (EC 0) [(ChS 1, EC 1)])])).
Proof. simpl. split; [apply atom_ok_zero_const|exact I]. Qed.

(* the induction behind both theorems, for any builder position and any enclosing transformation *)
Theorem C01_compositional : forall (G : option trafo -> Prop) p, atoms_ok G p ->
  ((forall tr, G (Some tr)) \/ no_trafo p = true) -> forall s cm gt cs, G gt ->
  guard_single_trafo (is_some gt) p = true -> cp p s cm gt = Ok cs ->
  exists pcs, denote p (lookup s) cm = Ok pcs /\ Forall2 leaf_matches (flatten_list cs) (map (ptr gt) pcs).
Proof. exact cp_denote. Qed.
Print Assumptions C01_compositional.

(* time reversal of a leaf waveform plays the mirrored piece (closed interval) *)
Theorem C01_leaf_reversal : forall w q, leaf_matches w q -> leaf_matches (wreversed w) (mirror q).
Proof. exact leaf_rev. Qed.
Print Assumptions C01_leaf_reversal.

(* half-open junctions: matching leaves play what the pieces denote *)
Theorem C01_junctions : forall ws pcs, Forall2 leaf_matches ws pcs ->
  forall c t, Forall (fun p => cmem c (pchans p) = true) pcs ->
  0 <= t -> t < total pcs -> oeq (play_leaves ws c t) (at_ pcs c t).
Proof. exact play_at. Qed.
Print Assumptions C01_junctions.

(* ---- refuted on the unchanged code: known finding (ii), witness (ConstantPT(1,{A:1/2}) || B=1) * 2 ---- *)
Theorem C01_denotes_refuted :
  exists p env cm prog pcs c t,
    create_program p env cm None = Ok (Some prog) /\ denote_top p env cm = Ok pcs /\
    0 <= t /\ t < total pcs /\ ~ oeq (play prog c t) (at_ pcs c t) /\ guard_single_trafo false p = false.
Proof.
  destruct par_order_refuted as (prog & pcs & H1 & H2 & H3 & H4 & H5 & H6).
  exists witness_par_order, [], [], prog, pcs, (ChS 2), 0.
  repeat split; auto.
  - apply Qle_refl.
  - apply Qeq_bool_iff in H3. rewrite H3. reflexivity.
  - rewrite H4, H5. simpl. intro E. discriminate E.
Qed.
Print Assumptions C01_denotes_refuted.

Example C01_guard_nonvacuous :
  guard_single_trafo false
    (PSeq [PArith false SSub (inl (EC 2)) (PRev (PAtom (AConst (EC 1) [(ChI 0, EC (5 # 4)); (ChS 1, EV 1%N)])));
           PPar (PRep (EC 2) (PAtom (ATable [(ChI 0, [(EC 0, EC 1, Hold); (EC 1, EC 2, Linear)])])))
                [(ChS 1, EC 3)]]) = true.
Proof. reflexivity. Qed.
