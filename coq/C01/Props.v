(* C01 — property theorems (statements only; proofs live in Proofs*.v).
   Main results: C01_denotes (full, under the two known findings' executable guards), C01_sampling_loops /
   C01_sampling_partial (to_waveform + get_sampled = program meaning), C01_from_table, C01_atoms; refutations:
   C01_denotes_refuted (parallel channel under a transformation), C01_table_final_refuted (triple final time point).
   plays prog pcs  :=  the unrolled leaves of the program match the pieces one to one (same duration, same channels,
                       same samples on the closed piece interval), the durations agree, and for every channel of the
                       pulse and every t in [0, total) the program plays  at_ pcs c t  (half-open junctions). *)
From Coq Require Import ZArith QArith List Bool.
Require Import QV.C01.Model QV.C01.Spec QV.C01.Proofs QV.C01.ProofsDefs QV.C01.Proofs_trafo QV.C01.Proofs_table
        QV.C01.Proofs_comp QV.C01.Proofs_atoms QV.C01.Proofs_main QV.C01.Proofs_sampling QV.C01.Proofs_leaves QV.C01.Proofs_atoms2 QV.C01.Proofs_chans QV.C01.Proofs_builder QV.C01.Proofs_dec QV.C01.Proofs_arith QV.C01.Proofs_r5 QV.C01.Proofs_r6.
Import ListNotations.
Open Scope Q_scope.

(* ---- the full property.  C01_denotes_statement is PROVED below (C01_denotes); the other two are kept as definitions:
        what is still open is visible and type-checked ---- *)
Definition C01_denotes_statement : Prop :=
  forall p env cm r, guard_C01_par_order false p = true ->   (* guard of known finding (ii) *)
    guard_C01_tables p (SDict env) (cm_of cm) = true ->      (* guard of the refuted atom classes (table with a triple final
                                                                time point; AtomicMultiChannelPT part of duration 0 next to a
                                                                part of positive duration), zero-length linear entries,
                                                                non-positive FunctionPT duration *)
    create_program p env cm None = Ok r ->
    exists pcs, denote_top p env cm = Ok pcs /\
                match r with None => pcs = [] | Some prog => plays prog pcs end.
Definition C01_sampling_statement : Prop :=
  forall p env cm prog c t, create_program p env cm None = Ok (Some prog) ->
    0 <= t -> t < loop_dur prog -> cmem c (loop_chans prog) = true ->
    oeq (sampled prog c t) (play prog c t).
Definition C01_errors_statement : Prop :=
  forall p env cm e, create_program p env cm None = Err e -> exists e', denote_top p env cm = Err e'.

(* ---- proved: the core fragment, no hypothesis about the model left ---- *)
(* single-channel constants composed by sequence, repetition, for-loop (any range), parameter/channel mapping
   (incl. dropped channels) and time reversal, any nesting, any parameters *)
Theorem C01_denotes_core : forall p env cm r, core p = true ->
  create_program p env cm None = Ok r ->
  exists pcs, denote_top p env cm = Ok pcs /\
              match r with None => pcs = [] | Some prog => plays prog pcs end.
Proof.
  intros p env cm r Hc. destruct (core_ok p Hc) as (A & B & C).
  apply (create_program_denote (fun gt => gt = None)); auto.
Qed.
Print Assumptions C01_denotes_core.

Example C01_core_nonvacuous :
  let p := PFor 1%N (EC 0) (EV 2%N) (EC 1)
             (PSeq [PMap [(3%N, EMul (EV 1%N) (EC (1 # 2)))] [(ChS 2, Some (ChS 1))]
                      (PRev (PRep (EC 2) (PAtom (AConst (EC (3 # 2)) [(ChS 2, EAdd (EV 3%N) (EC 1))]))));
                    PAtom (AConst (EV 1%N) [(ChS 1, EV 1%N)])]) in
  core p = true /\
  exists prog, create_program p [(2%N, 3 # 1)] [(ChS 1, Some (ChI 0))] None = Ok (Some prog) /\
               Qeq_bool (loop_dur prog) 12 = true.
Proof. split; [reflexivity|]. eexists. split; vm_compute; reflexivity. Qed.

(* ---- round 1 form: all composite node kinds, relative to the atomic obligation `atoms_ok`, one transformation per path
        (superseded by C01_denotes_partial below, kept because it allows ANY atom that satisfies the obligation) ---- *)
(* `atoms_ok` = for every atom of the tree, build_waveform followed by the atomic emission (global transformation,
   constant short-cut) plays the atom's piece; the guard allows at most one transformation-creating node (parallel
   channel / scalar arithmetic) on a path from the root (this excludes the known finding (ii) and, for now, nested
   arithmetic whose composition lemma is not proved) *)
(* round 5: re-labelled `_partial` - `atoms_ok` is a hypothesis about the MODEL (what build_waveform does for the atoms of the
   tree), not an executable guard; C01_atoms + C01_denotes below discharge it *)
Theorem C01_denotes_relative_partial : forall p env cm r,
  atoms_ok (fun _ => True) p -> guard_single_trafo false p = true ->
  create_program p env cm None = Ok r ->
  exists pcs, denote_top p env cm = Ok pcs /\
              match r with None => pcs = [] | Some prog => plays prog pcs end.
Proof.
  intros p env cm r Hok Hg. apply (create_program_denote (fun _ => True)); auto.
Qed.
Print Assumptions C01_denotes_relative_partial.

Example C01_relative_hypothesis_satisfiable :
  atoms_ok (fun _ => True) (PRev (PSeq [PAtom (AConst (EC 0) [(ChS 1, EC 1)])])).
Proof. simpl. split; [apply atom_ok_zero_const|exact I]. Qed.

(* the induction behind both theorems, for any builder position and any enclosing transformation *)
Theorem C01_compositional : forall (G : option trafo -> Prop) p, atoms_ok G p ->
  ((forall tr, G (Some tr)) \/ no_trafo p = true) -> forall s cm gt cs, G gt ->
  guard_single_trafo (is_some gt) p = true -> cp p s cm gt = Ok cs ->
  exists pcs, denote p (lookup s) cm = Ok pcs /\ Forall2 leaf_matches (flatten_list cs) (map (ptr gt) pcs).
Proof. exact cp_denote. Qed.
Print Assumptions C01_compositional.

(* time reversal of a leaf waveform plays the mirrored piece (closed interval) *)
Theorem C01_leaf_reversal : forall w q, leaf_matches w q -> leaf_matches (wreversed w) (mirror q).
Proof. exact leaf_rev. Qed.
Print Assumptions C01_leaf_reversal.

(* half-open junctions: matching leaves play what the pieces denote *)
Theorem C01_junctions : forall ws pcs, Forall2 leaf_matches ws pcs ->
  forall c t, Forall (fun p => cmem c (pchans p) = true) pcs ->
  0 <= t -> t < total pcs -> oeq (play_leaves ws c t) (at_ pcs c t).
Proof. exact play_at. Qed.
Print Assumptions C01_junctions.

(* ---- refuted on the unchanged code: known finding (ii), witness (ConstantPT(1,{A:1/2}) || B=1) * 2 ---- *)
Theorem C01_denotes_refuted :
  exists p env cm prog pcs c t,
    create_program p env cm None = Ok (Some prog) /\ denote_top p env cm = Ok pcs /\
    0 <= t /\ t < total pcs /\ ~ oeq (play prog c t) (at_ pcs c t) /\ guard_single_trafo false p = false.
Proof.
  destruct par_order_refuted as (prog & pcs & H1 & H2 & H3 & H4 & H5 & H6).
  exists witness_par_order, [], [], prog, pcs, (ChS 2), 0.
  repeat split; auto.
  - apply Qle_refl.
  - apply Qeq_bool_iff in H3. rewrite H3. reflexivity.
  - rewrite H4, H5. simpl. intro E. discriminate E.
Qed.
Print Assumptions C01_denotes_refuted.

Example C01_guard_nonvacuous :
  guard_single_trafo false
    (PSeq [PArith false SSub (inl (EC 2)) (PRev (PAtom (AConst (EC 1) [(ChI 0, EC (5 # 4)); (ChS 1, EV 1%N)])));
           PPar (PRep (EC 2) (PAtom (ATable [(ChI 0, [(EC 0, EC 1, Hold); (EC 1, EC 2, Linear)])])))
                [(ChS 1, EC 3)]]) = true.
Proof. reflexivity. Qed.

(* ================================================================================================================ *)
(* round 2 *)

(* ---- proved IN FULL: every node kind and every atom kind (ConstantPT, TablePT, PointPT, AtomicMultiChannelPT,
        ArithmeticAtomicPT), any nesting; hypotheses = the executable guards of the two known findings only:
        `guard_C01_par_order` (no parallel-channel node inside a transformation-creating node) and `guard_C01_tables`
        (no table with >= 3 entries at its final time = the refuted class; no linear entry at its predecessor's time =
        undefined value), evaluated along the run (scopes of loops / mappings) ---- *)
Theorem C01_denotes : C01_denotes_statement.
Proof. intros p env cm r Hg Ht. apply create_program_denote_all; auto. Qed.
Print Assumptions C01_denotes.

Example C01_denotes_nonvacuous :
  let p := PFor 1%N (EC 0) (EC 2) (EC 1)
             (PArith false SSub (inl (EC 2))
                (PArith true SMul (inr [(ChS 1, EC (1 # 2))])
                   (PSeq [PRev (PAtom (ATable [(ChS 1, [(EC 0, EV 1%N, Hold); (EC 1, EC 1, Linear); (EC 1, EC 2, Jump)]);
                                                (ChI 0, [(EC (1 # 2), EC 1, Hold)])]));
                          PAtom (APoint [(EC 0, [EC 1; EC 0], Hold); (EC (3 # 2), [EV 1%N; EC 1], Linear)] [ChS 1; ChI 0]);
                          PAtom (AMulti [AArith (AConst (EC 1) [(ChS 1, EC 1)]) OpSub
                                                (ATable [(ChS 1, [(EC 0, EC 0, Hold); (EC 1, EC 1, Linear)])]);
                                         AConst (EC 1) [(ChI 0, EV 1%N)]])]))) in
  guard_C01_par_order false p = true /\ guard_C01_tables p (SDict []) (cm_of []) = true /\
  exists prog, create_program p [] [] None = Ok (Some prog) /\ Qeq_bool (loop_dur prog) (7 # 1) = true.
Proof. repeat split; try reflexivity. eexists. split; vm_compute; reflexivity. Qed.

(* the induction behind it: any builder position, any enclosing transformation chain *)
Theorem C01_compositional2 : forall p, atoms_sem p -> forall s cm gt cs,
  guard_C01_tables p s cm = true -> guard_C01_par_order (is_some gt) p = true -> cp p s cm gt = Ok cs ->
  exists pcs, denote p (lookup s) cm = Ok pcs /\ Forall2 leaf_matches (flatten_list cs) (map (ptr gt) pcs).
Proof. exact cp_denote2. Qed.
Print Assumptions C01_compositional2.

(* transformations compose: applying a chain a ++ b to a piece = applying a, then b *)
Theorem C01_piece_trafo_composition : forall a b p,
  piece_equiv (piece_trafo (a ++ b) p) (piece_trafo b (piece_trafo a p)).
Proof. exact piece_trafo_app. Qed.
Print Assumptions C01_piece_trafo_composition.

(* the atomic emission (global transformation, constant short-cut) for ANY waveform that matches a piece coherently *)
Theorem C01_emission : forall w p gt, wmatch w p ->
  Forall2 leaf_matches (flatten_list (atomic_emit (Some w) gt)) [ptr gt p].
Proof. exact emit_ok. Qed.
Print Assumptions C01_emission.

(* TableWaveform.from_table (entry de-duplication + constant detection + pairwise sampler) against the table's meaning *)
Theorem C01_from_table : forall c tbl w, tbl_guard tbl = true -> from_table c tbl = Ok w ->
  table_ok tbl = true /\ 0 < last_t tbl /\ wdur w == last_t tbl /\ wchans w = [c] /\
  (forall t, 0 <= t -> t <= last_t tbl -> oeq (wsample w c t) (table_fun tbl t)) /\
  match wcvd w with
  | None => True
  | Some d => exists v, d = [(c, v)] /\ forall t, wsample w c t = Some v
  end.
Proof. exact from_table_core. Qed.
Print Assumptions C01_from_table.

(* the atomic obligation, discharged for every atom kind: what build_waveform returns plays the atom's piece on the
   closed interval and is an atomic, non-reversed waveform over a duplicate-free non-empty channel list *)
Theorem C01_atoms : forall a s cm ow,
  atom_guard a s cm = true -> build_waveform a s cm = Ok ow ->
  exists op, denote_atom a (lookup s) cm = Ok op /\ omatch2 ow op.
Proof. exact atom_sem2_all. Qed.
Print Assumptions C01_atoms.

(* ---- refuted on the unchanged code: three table entries at the final time, played reversed ---- *)
Theorem C01_table_final_refuted :
  exists p env cm prog pcs c t,
    create_program p env cm None = Ok (Some prog) /\ denote_top p env cm = Ok pcs /\
    0 <= t /\ t < total pcs /\ ~ oeq (play prog c t) (at_ pcs c t) /\
    guard_C01_par_order false p = true /\ guard_C01_tables p (SDict env) (cm_of cm) = false.
Proof.
  destruct final_triple_play_refuted as (prog & pcs & H1 & H2 & H3 & H4 & H5 & H6 & H7).
  exists witness_final_triple, [], [], prog, pcs, (ChS 1), 0.
  repeat split; auto.
  - apply Qle_refl.
  - apply Qeq_bool_iff in H3. rewrite H3. reflexivity.
  - rewrite H4, H5. simpl. intro E. discriminate E.
Qed.
Print Assumptions C01_table_final_refuted.

(* ---- to_waveform(program).get_sampled = the program meaning ---- *)
(* any program tree whose leaves are atomic waveforms with coherent constant values (`lgood`: repetition counts >= 1,
   no empty loop, leaves of positive duration over one channel set C): flattening of nested sequences, constant
   folding in from_sequence / from_repetition_count, RepetitionWaveform's floor, the constant short-cut of get_sampled *)
Theorem C01_sampling_loops : forall C prog w, lgood C prog -> to_waveform prog = Ok w ->
  forall c t, cmem c C = true -> 0 <= t -> t < loop_dur prog -> oeq (get_sampled w c t) (play prog c t).
Proof. exact sampling_sound. Qed.
Print Assumptions C01_sampling_loops.

(* the programs built by create_program (every atom and node kind, incl. nested transformations and parallel channels):
   whenever to_waveform succeeds, get_sampled on every channel of the resulting waveform equals the program meaning.
   `_partial` because to_waveform's success is a hypothesis (the model accepts sequences of templates with different
   channels, which qupulse rejects at construction) and the table guard is inherited from the atom lemma *)
Theorem C01_sampling_partial : forall p env cm prog w,
  guard_C01_tables p (SDict env) (cm_of cm) = true ->
  create_program p env cm None = Ok (Some prog) -> to_waveform prog = Ok w ->
  forall c t, cmem c (wchans w) = true -> 0 <= t -> t < loop_dur prog -> oeq (get_sampled w c t) (play prog c t).
Proof. exact sampling_create_program_chans. Qed.
Print Assumptions C01_sampling_partial.

(* why C01_sampling_statement needs a well-formedness hypothesis in this model: a sequence of two templates over
   different channels (rejected by SequencePT's constructor in qupulse) instantiates, to_waveform fails *)
Example C01_sampling_needs_wellformed :
  let p := PSeq [PAtom (AConst (EC 1) [(ChS 1, EC 1)]); PAtom (AConst (EC 1) [(ChS 2, EC 1)])] in
  exists prog, create_program p [] [] None = Ok (Some prog) /\ sampled prog (ChS 1) 0 = None /\
               play prog (ChS 1) 0 = Some 1.
Proof. eexists. repeat split; vm_compute; reflexivity. Qed.

(* ---- why C01_errors_statement is false as stated (two classes; both are outside the property's preconditions) ---- *)
(* (1) ArithmeticPT evaluates its scalar with the WHOLE scope: a mapped parameter that the tree never uses but whose
       defining expression needs a missing parameter makes create_program reject, the denotation is defined *)
Example C01_errors_eager_scope :
  let p := PMap [(1%N, EV 2%N)] [] (PArith true SAdd (inl (EC 1)) (PAtom (AConst (EC 1) [(ChS 1, EC 1)]))) in
  create_program p [] [] None = Err EMissing /\ exists pcs, denote_top p [] [] = Ok pcs.
Proof. split; [reflexivity|]. eexists. vm_compute. reflexivity. Qed.

(* (2) a channel mapping that is not injective: from_parallel rejects the two tables on one channel, the table denotation
       has no such check *)
Example C01_errors_channel_clash :
  let p := PAtom (ATable [(ChS 1, [(EC 0, EC 0, Hold); (EC 1, EC 1, Hold)]); (ChS 2, [(EC 0, EC 1, Hold); (EC 1, EC 1, Hold)])]) in
  create_program p [] [(ChS 2, Some (ChS 1))] None = Err EValue /\
  exists pcs, denote_top p [] [(ChS 2, Some (ChS 1))] = Ok pcs.
Proof. split; [vm_compute; reflexivity|]. eexists. vm_compute. reflexivity. Qed.

(* ---- round 3 ---- *)
(* the LoopBuilder's frame stack (StackFrame.iterating, pushed by with_sequence / with_repetition / with_iteration, read by
   inner_scope) is modelled by `cpb` / `create_program_b` (what the correspondence check runs); it never influences the
   program: the builder form equals the functional form all theorems above are about.  (A repetition frame that inherits
   the enclosing iteration - seeded change C01-4 - falsifies exactly this equation.) *)
Theorem C01_builder_frames : forall p s cm gt st, cpb p s cm gt st = cp p s cm gt.
Proof. exact cpb_cp. Qed.
Print Assumptions C01_builder_frames.

Theorem C01_builder_stack_irrelevant : forall p env cm gt, create_program_b p env cm gt = create_program p env cm gt.
Proof. exact create_program_b_eq. Qed.
Print Assumptions C01_builder_stack_irrelevant.

Example C01_builder_rebinding :
  exists prog, create_program_b witness_rebind [] [] None = Ok (Some prog) /\
    play prog (ChS 1) 0 = Some (10 # 1) /\ play prog (ChS 1) (2 # 1) = Some (7 # 1).
Proof. destruct rebind_witness as (prog & A & B & C & _). exists prog. auto. Qed.

(* ---- refuted on the unchanged code (known finding `multi-zero-duration-part`): AtomicMultiChannelPT(ConstantPT(d, {A: 1}),
        ConstantPT(1, {B: 2})) with d = 0 is accepted; the part on A (kept channel, duration 0) is silently dropped and the
        program plays B alone, although the parts have unequal durations and the template denotes nothing ---- *)
Theorem C01_multi_zero_refuted :
  exists p env cm prog,
    create_program p env cm None = Ok (Some prog) /\ denote_top p env cm = Err EValue /\
    loop_chans prog <> pt_chans p /\
    guard_C01_par_order false p = true /\ guard_C01_tables p (SDict env) (cm_of cm) = false.
Proof.
  destruct multi_zero_refuted as (prog & H1 & H2 & H3 & H4 & H5 & H6).
  exists witness_multi_zero, [(1%N, 0)], [], prog. repeat split; auto. rewrite H3, H4. discriminate.
Qed.
Print Assumptions C01_multi_zero_refuted.

(* ... and with the duration following a loop index the program cannot be sampled at all *)
Theorem C01_multi_zero_unplayable :
  exists p env cm prog,
    create_program p env cm None = Ok (Some prog) /\ to_waveform prog = Err EValue /\
    guard_C01_tables p (SDict env) (cm_of cm) = false.
Proof.
  destruct multi_zero_unplayable as (prog & H1 & H2 & H3). exists witness_multi_zero_loop, [], [], prog. auto.
Qed.
Print Assumptions C01_multi_zero_unplayable.

(* the new conjunct of the guard excludes exactly that class: equal durations, parts whose channels are all dropped and
   templates whose parts all have duration 0 pass *)
Example C01_multi_guard_nonvacuous :
  let a := AMulti [AConst (EV 1%N) [(ChS 1, EC 1)]; AConst (EC 1) [(ChS 2, EC (2 # 1))]] in
  atom_guard a (SDict [(1%N, 1)]) (cm_of []) = true /\
  atom_guard a (SDict [(1%N, 0)]) (cm_of [(ChS 1, None)]) = true /\
  atom_guard (AMulti [AConst (EV 1%N) [(ChS 1, EC 1)]; AConst (EC 0) [(ChS 2, EC 1)]]) (SDict [(1%N, 0)]) (cm_of []) = true /\
  atom_guard a (SDict [(1%N, 0)]) (cm_of []) = false.
Proof. exact multi_guard_nonvacuous. Qed.

(* ---- round 4: exact repetition boundaries for EVERY rational duration (the decimal stream's reference) ---- *)
(* the k-th pass of a repeated waveform starts exactly at k * duration and plays the body from local time s; no drift,
   whatever the duration (1/10, 1/3, 5/12 ...).  The decimal correspondence stream (Corr.CDec) checks the code against
   this; accumulating the boundaries in binary64 (seeded change C01-5) violates it at k = 3, duration 1/10 *)
Theorem C01_repetition_restarts : forall b n c k s, 0 < wdur b -> (0 <= k < n)%Z -> 0 <= s -> s < wdur b ->
  wsample (WRep b n) c (inject_Z k * wdur b + s) = wsample b c (Qred s).
Proof. exact rep_restarts. Qed.
Print Assumptions C01_repetition_restarts.

Theorem C01_repetition_boundary : forall b n c k, 0 < wdur b -> (0 <= k < n)%Z ->
  wsample (WRep b n) c (inject_Z k * wdur b) = wsample b c 0.
Proof. exact rep_boundary. Qed.
Print Assumptions C01_repetition_boundary.

(* the same for sequences: a member of a SequenceWaveform starts exactly at the (exact) duration of the members before it *)
Theorem C01_sequence_restarts : forall pre x post c s,
  Forall (fun y => 0 <= wdur y) pre -> 0 <= s -> s < wdur x ->
  wsample (WSeq (pre ++ x :: post)) c (wdur (WSeq pre) + s) = wsample x c (Qred s).
Proof. exact seq_restarts. Qed.
Print Assumptions C01_sequence_restarts.

(* the seed's input: a ramp 0 -> 1 of duration 1/10 repeated four times, instantiated from the template and sampled
   through to_waveform on the repetition starts k/10: every sample is the START value 0 (the changed code answers the
   end value at 3/10); between them the ramp (1/2 at 7/20) *)
Example C01_repetition_boundary_decimal :
  let ramp := PAtom (ATable [(ChS 1, [(EC 0, EC 0, Hold); (EV 1, EC 1, Linear)])]) in
  exists prog, create_program (PRep (EC 4) ramp) [(1%N, 1 # 10)] [] None = Ok (Some prog) /\
    map (sampled prog (ChS 1)) [0; 1 # 10; 2 # 10; 3 # 10; 7 # 20] = [Some 0; Some 0; Some 0; Some 0; Some (1 # 2)] /\
    map (play prog (ChS 1)) [0; 1 # 10; 2 # 10; 3 # 10; 7 # 20] = [Some 0; Some 0; Some 0; Some 0; Some (1 # 2)].
Proof. eexists. repeat split; vm_compute; reflexivity. Qed.


(* ---- round 5: the functions Spec.denote shares with the model (arith_trafo / par_values, Model.v) mean plain arithmetic ---- *)
(* `pulse op s` / `s op pulse` with the scalar given as one expression of value v: on every kept channel of the body the
   denoted piece has the value  x + v, x - v, v - x, x * v, x / v  where the body has x (scalar_meaning); a division is only
   instantiated as pulse / s with s <> 0 *)
Theorem C01_arith_meaning : forall look cm lhs op e chans tr v c m (p : piece) t x,
  eval look e = Ok v -> arith_trafo look cm lhs op (inl e) chans = Ok tr ->
  In c chans -> cm c = Some m -> cmem m (pchans p) = true -> pval p m t = Some x ->
  oeq (pval (piece_trafo tr p) m t) (Some (scalar_meaning lhs op x v)) /\ (op = SDiv -> lhs = true /\ ~ v == 0).
Proof.
  intros. split.
  - eapply arith_piece_meaning; eauto.
  - eapply (arith_meaning look cm lhs op e chans tr v c m x); eauto.
Qed.
Print Assumptions C01_arith_meaning.

Theorem C01_arith_scalar_div_rejected : forall look cm sc chans v,
  scalar_values look cm sc chans = Ok v -> arith_trafo look cm false SDiv sc chans = Err EValue.
Proof. exact arith_scalar_div_rejected. Qed.
Print Assumptions C01_arith_scalar_div_rejected.

(* the values of a parallel-channel node: a channel gets the value of the LAST entry mapped to it *)
Theorem C01_par_values_last : forall look cm m c e v pre post acc d,
  par_values look cm (pre ++ (c, e) :: post) acc = Ok d -> cm c = Some m -> eval look e = Ok v ->
  (forall c' e', In (c', e') post -> cm c' <> Some m) -> cassoc m d = Some v.
Proof. intros. eapply par_values_last; eauto. Qed.
Print Assumptions C01_par_values_last.

Example C01_arith_meaning_nonvacuous :
  exists tr, arith_trafo (fun _ => Err EMissing) (cm_of [(ChS 1, Some (ChS 2))]) false SSub (inl (EC (3 # 1))) [ChS 1; ChS 3] = Ok tr /\
             pval (piece_trafo tr (mkPiece 1 [ChS 2; ChS 3] (fun _ t => Some t))) (ChS 2) (1 # 4) = Some (11 # 4).
Proof. eexists. split; vm_compute; reflexivity. Qed.

(* ---- round 5 (audit): explicit non-vacuity of the sampling theorems and of C01_from_table ---- *)
(* the hypotheses of C01_sampling_partial (and through it `lgood` of C01_sampling_loops) hold for the program of the tree of
   C01_denotes_nonvacuous: three node kinds above five atom kinds, two channels, to_waveform succeeds *)
Example C01_sampling_nonvacuous :
  let p := PFor 1%N (EC 0) (EC 2) (EC 1)
             (PArith false SSub (inl (EC 2))
                (PArith true SMul (inr [(ChS 1, EC (1 # 2))])
                   (PSeq [PRev (PAtom (ATable [(ChS 1, [(EC 0, EV 1%N, Hold); (EC 1, EC 1, Linear); (EC 1, EC 2, Jump)]);
                                                (ChI 0, [(EC (1 # 2), EC 1, Hold)])]));
                          PAtom (APoint [(EC 0, [EC 1; EC 0], Hold); (EC (3 # 2), [EV 1%N; EC 1], Linear)] [ChS 1; ChI 0]);
                          PAtom (AMulti [AArith (AConst (EC 1) [(ChS 1, EC 1)]) OpSub
                                                (ATable [(ChS 1, [(EC 0, EC 0, Hold); (EC 1, EC 1, Linear)])]);
                                         AConst (EC 1) [(ChI 0, EV 1%N)]])]))) in
  guard_C01_tables p (SDict []) (cm_of []) = true /\
  exists prog w, create_program p [] [] None = Ok (Some prog) /\ to_waveform prog = Ok w /\
                 cmem (ChS 1) (wchans w) = true /\ cmem (ChI 0) (wchans w) = true /\
                 get_sampled w (ChS 1) (5 # 4) = play prog (ChS 1) (5 # 4) /\ play prog (ChS 1) (5 # 4) <> None.
Proof. split; [reflexivity|]. eexists. eexists. repeat split; try (vm_compute; reflexivity). vm_compute. discriminate. Qed.

Example C01_from_table_nonvacuous :
  let tbl := [(0, 1, Hold); (1, 1, Hold); (1, 3, Jump); (2, 0 # 1, Linear)] in
  tbl_guard tbl = true /\ exists w, from_table (ChS 1) tbl = Ok w /\ wsample w (ChS 1) (3 # 2) = Some (3 # 2).
Proof. split; [reflexivity|]. eexists. split; vm_compute; reflexivity. Qed.

(* ---- round 5: the two halves composed.  What the harness observes - to_waveform(program).get_sampled(channel, t) - equals the
        DENOTATION of the template, for every tree / assignment / channel mapping / rational time in [0, duration).  `_partial`:
        to_waveform's success and the membership of the channel in the pulse's channel sets are hypotheses; the guards are
        those of C01_denotes ---- *)
Theorem C01_sampled_denotes_partial : forall p env cm prog w,
  guard_C01_par_order false p = true -> guard_C01_tables p (SDict env) (cm_of cm) = true ->
  create_program p env cm None = Ok (Some prog) -> to_waveform prog = Ok w ->
  exists pcs, denote_top p env cm = Ok pcs /\ wdur w == total pcs /\
    forall c t, cmem c (wchans w) = true -> Forall (fun pc => cmem c (pchans pc) = true) pcs ->
                0 <= t -> t < total pcs -> oeq (get_sampled w c t) (at_ pcs c t).
Proof.
  intros p env cm prog w Hg Ht Hcp Hw.
  destruct (C01_denotes p env cm (Some prog) Hg Ht Hcp) as (pcs & Hd & HF & Hdur & Hplay).
  exists pcs. split; [exact Hd|]. split.
  - rewrite <- Hdur. apply (sampling_dur p env cm prog w Ht Hcp Hw).
  - intros c t Hc Hall H0 H1. eapply oeq_trans.
    + apply (C01_sampling_partial p env cm prog w Ht Hcp Hw c t Hc H0). rewrite Hdur. exact H1.
    + apply Hplay; auto.
Qed.
Print Assumptions C01_sampled_denotes_partial.

(* ---- round 6: "no sample is NaN".  The DENOTATION is defined at every time of [0, total) on every channel all its pieces
        carry (Spec level; induction on the tree, every node and atom kind), and with C01_denotes the program built by the
        model plays a number there.  C01_denotation_total has NO guard; C01_no_nan has the guards of C01_denotes (through which
        the program is tied to the denotation) and, like C01_denotes, speaks about channels that every piece carries ---- *)
Theorem C01_denotation_total : forall p rho cm pcs c t,
  denote p rho cm = Ok pcs -> Forall (fun q => cmem c (pchans q) = true) pcs ->
  0 <= t -> t < total pcs -> exists v, at_ pcs c t = Some v.
Proof. exact denotation_total. Qed.
Print Assumptions C01_denotation_total.

Theorem C01_no_nan : forall p env cm prog,
  guard_C01_par_order false p = true -> guard_C01_tables p (SDict env) (cm_of cm) = true ->
  create_program p env cm None = Ok (Some prog) ->
  exists pcs, denote_top p env cm = Ok pcs /\
    forall c t, Forall (fun q => cmem c (pchans q) = true) pcs -> 0 <= t -> t < loop_dur prog ->
                exists v, play prog c t = Some v /\ oeq (Some v) (at_ pcs c t).
Proof. exact no_nan. Qed.
Print Assumptions C01_no_nan.

Example C01_no_nan_nonvacuous :
  let p := PFor 1%N (EC 0) (EC 2) (EC 1)
             (PArith false SSub (inl (EC 2))
                (PArith true SMul (inr [(ChS 1, EC (1 # 2))])
                   (PSeq [PRev (PAtom (ATable [(ChS 1, [(EC 0, EV 1%N, Hold); (EC 1, EC 1, Linear); (EC 1, EC 2, Jump)]);
                                                (ChI 0, [(EC (1 # 2), EC 1, Hold)])]));
                          PAtom (APoint [(EC 0, [EC 1; EC 0], Hold); (EC (3 # 2), [EV 1%N; EC 1], Linear)] [ChS 1; ChI 0]);
                          PAtom (AMulti [AArith (AConst (EC 1) [(ChS 1, EC 1)]) OpSub
                                                (ATable [(ChS 1, [(EC 0, EC 0, Hold); (EC 1, EC 1, Linear)])]);
                                         AConst (EC 1) [(ChI 0, EV 1%N)]])]))) in
  guard_C01_par_order false p = true /\ guard_C01_tables p (SDict []) (cm_of []) = true /\
  (exists prog, create_program p [] [] None = Ok (Some prog) /\ 0 < loop_dur prog) /\
  match denote_top p [] [] with
  | Ok pcs => forallb (fun q => cmem (ChS 1) (pchans q)) pcs = true /\ (length pcs = 6)%nat
  | Err _ => False
  end.
Proof.
  repeat split; try (vm_compute; reflexivity).
  eexists. split; vm_compute; reflexivity.
Qed.

(* a zero-length linear entry never decides alone: the time-reversed table that ends in one denotes the value of the segment
   before it at t = 0 (the code computes 0/0 there; that input is excluded by guard_C01_tables, not by the denotation) *)
Example C01_denotation_total_zero_linear :
  let p := PRev (PAtom (ATable [(ChS 1, [(EC 0, EC 0, Hold); (EC 1, EC 1, Hold); (EC 1, EC 2, Linear)])])) in
  guard_C01_tables p (SDict []) (cm_of []) = false /\
  match denote_top p [] [] with Ok pcs => at_ pcs (ChS 1) 0 = Some 0 /\ 0 < total pcs | Err _ => False end.
Proof. split; [reflexivity|]. vm_compute. split; reflexivity. Qed.
