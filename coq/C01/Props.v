(* C01 — property theorems (statements only; proofs live in Proofs.v). *)
From Coq Require Import ZArith QArith List Bool.
Require Import QV.C01.Model QV.C01.Spec QV.C01.Proofs.
Import ListNotations.

Theorem C01_placeholder : forall c t, at_ [] c t = None.
Proof. exact at_nil. Qed.
Print Assumptions C01_placeholder.
