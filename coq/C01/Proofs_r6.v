(* C01 round 6 — "no sample is NaN": the denotation of a template is DEFINED at every time of [0, total) on every channel
   its pieces carry (Spec level, independent of the model, NO guard: a zero-length linear entry never decides alone, a
   neighbouring segment of positive length contains the same time), hence — with C01_denotes — the program built by the
   model plays a number there. *)
From Coq Require Import ZArith QArith Qround List Bool Lia Lqa Setoid.
Require Import QV.common.Util QV.C01.Model QV.C01.Spec QV.C01.Proofs QV.C01.ProofsDefs QV.C01.Proofs_table
        QV.C01.Proofs_trafo QV.C01.Proofs_arith QV.C01.Proofs_atoms QV.C01.Proofs_atoms2.
Import ListNotations.
Open Scope Q_scope.
Arguments Qred : simpl never.  Arguments Qplus : simpl never.  Arguments Qminus : simpl never.
Arguments Qmult : simpl never. Arguments Qdiv : simpl never.   Arguments Qopp : simpl never.
Arguments Qinv : simpl never.  Arguments Qle_bool : simpl never. Arguments Qeq_bool : simpl never.

(* a piece is defined on its whole closed interval, on each of its channels *)
Definition pdef (p : piece) : Prop :=
  forall c t, cmem c (pchans p) = true -> 0 <= t -> t <= pdur p -> exists v, pval p c t = Some v.

(* ---- tables ---- *)
Lemma nondecreasing_compat : forall l a a', a == a' -> nondecreasing a l = nondecreasing a' l.
Proof.
  destruct l as [|e r]; intros a a' H; simpl; auto.
  rewrite (Qle_bool_compat a a' (et e) (et e)); auto. reflexivity.
Qed.

Lemma table_at_def : forall l prev t,
  nondecreasing (et prev) l = true -> et prev <= t -> t <= last_t (prev :: l) -> et prev < last_t (prev :: l) ->
  exists v, table_at prev l t = Some v.
Proof.
  induction l as [|e r IH]; intros prev t Hs H0 H1 Hlt.
  - rewrite last_t_single in Hlt. lra.
  - simpl in Hs. apply andb_prop in Hs as (Hs1 & Hs2).
    rewrite last_t_cons in H1, Hlt by discriminate.
    simpl. destruct (table_at e r t) as [v|] eqn:E; [eauto|]. qb.
    assert (Ht : t <= et e).
    { destruct (Qlt_le_dec (et e) t) as [L|L]; auto.
      destruct (IH e t Hs2) as (v & Hv); try lra. congruence. }
    assert (A : Qle_bool (et prev) t = true) by (apply Qle_bool_iff; exact H0).
    assert (B : Qle_bool t (et e) = true) by (apply Qle_bool_iff; exact Ht).
    rewrite A, B. simpl. apply seg_some. intros _ Heq.
    destruct (IH e t Hs2) as (v & Hv); try lra. congruence.
Qed.

Lemma table_fun_def tbl t :
  table_ok tbl = true -> 0 <= t -> t <= last_t tbl -> 0 < last_t tbl -> exists v, table_fun tbl t = Some v.
Proof.
  destruct tbl as [|e r]; simpl; intros Hok H0 H1 Hp; [discriminate|].
  apply andb_prop in Hok as (He & Hs). qb.
  apply table_at_def; auto; try lra.
  rewrite (nondecreasing_compat r (et e) 0); auto.
Qed.

Lemma tables_piece_def d kept p :
  tables_piece d kept = Ok (Some p) -> ~ d == 0 ->
  (forall ce, In ce kept -> snd ce <> [] -> d <= last_t (snd ce)) -> pdef p.
Proof.
  unfold tables_piece. destruct kept as [|k0 kr] eqn:EK; [discriminate|]. rewrite <- EK. clear EK k0 kr.
  destruct (forallb (fun ce => table_ok (snd ce)) kept) eqn:Eok; [|discriminate].
  intros H Hd Hreach. inversion H; subst p; clear H. intros c t Hc H0 H1. simpl in *.
  destruct (cassoc_in_keys c kept Hc) as (tbl & Htbl). rewrite Htbl.
  pose proof (cassoc_In c tbl kept Htbl) as Hin.
  rewrite forallb_forall in Eok. specialize (Eok _ Hin). simpl in Eok.
  assert (Hr : d <= last_t tbl). { apply (Hreach _ Hin). simpl. intro X. subst tbl. discriminate Eok. }
  apply table_fun_def; auto; lra.
Qed.

Lemma trail_reach d tbl : trail d tbl <> [] -> d <= last_t (trail d tbl).
Proof.
  unfold trail. destruct (rev tbl) as [|e r] eqn:E.
  - intro H. exfalso. apply H. apply (f_equal (@rev _)) in E. rewrite rev_involutive in E. exact E.
  - intros _. destruct (Qltb' (et e) d) eqn:El.
    + rewrite last_t_snoc. apply Qle_refl.
    + qb. unfold last_t. rewrite E. exact El.
Qed.

Lemma kept_tables_in cm tabs ce : In ce (kept_tables cm tabs) -> exists x, In x tabs /\ snd ce = snd x.
Proof.
  unfold kept_tables. intro H. apply in_flat_map in H as (x & Hx & H). exists x. split; auto.
  destruct (cm (fst x)); simpl in H; [|contradiction]. destruct H as [<-|[]]. reflexivity.
Qed.

Lemma rows_last (rho : env) es d rows k :
  (match rev es with e :: _ => eval rho (fst (fst e)) | [] => Err EValue end) = Ok d ->
  rmap (fun e : expr * list expr * interp => t <- eval rho (fst (fst e)) ;; vs <- rmap (eval rho) (snd (fst e)) ;; Ok (t, vs, snd e)) es = Ok rows ->
  last_t (pt_col rows k) = d /\ pt_col rows k <> [].
Proof.
  intros Hd Hr. destruct (rev es) as [|e r] eqn:E; [discriminate|].
  assert (Een : es = rev r ++ [e]).
  { apply (f_equal (@rev _)) in E. rewrite rev_involutive in E. simpl in E. exact E. }
  rewrite Een in Hr. apply rmap_app in Hr. destruct Hr as (r1 & r2 & H1 & H2 & H3). subst rows.
  simpl in H2. rewrite Hd in H2. simpl in H2.
  destruct (rmap (eval rho) (snd (fst e))) as [vs|er]; simpl in H2; [|discriminate]. inversion H2; subst r2.
  rewrite pt_col_app. simpl. split; [apply last_t_snoc|]. intro X. apply app_eq_nil in X. destruct X; discriminate.
Qed.

(* ---- atoms ---- *)
Lemma cmem_rev c : forall l, cmem c (rev l) = cmem c l.
Proof.
  induction l as [|x l IH]; simpl; auto.
  rewrite cmem_app, IH. simpl. rewrite orb_false_r. apply orb_comm.
Qed.

Lemma bind_ok {A B} (r : result A) (f : A -> result B) y : (x <- r ;; f x) = Ok y -> exists x, r = Ok x /\ f x = Ok y.
Proof. destruct r; simpl; intro H; [eauto|discriminate]. Qed.

Lemma find_cmem c : forall ps : list piece, cmem c (flat_map pchans ps) = true ->
  exists p, find (fun p => cmem c (pchans p)) ps = Some p /\ In p ps /\ cmem c (pchans p) = true.
Proof.
  induction ps as [|p ps IH]; simpl; intro H; [discriminate|].
  rewrite cmem_app in H. destruct (cmem c (pchans p)) eqn:E.
  - exists p. auto.
  - simpl in H. destruct (IH H) as (q & Hq & Hin & Hc). exists q. auto.
Qed.

Lemma am_spec_def rho cm : forall l, Forall (fun a => forall p, denote_atom a rho cm = Ok (Some p) -> pdef p) l ->
  forall sg, am_spec rho cm l = Ok sg -> Forall (fun p => pdef p) (fst sg).
Proof.
  induction l as [|x r IH]; intros HF sg H.
  - simpl in H. inversion H; subst. constructor.
  - inversion HF as [|? ? Hx Hr]; subst.
    change (am_spec rho cm (x :: r)) with
      (o <- denote_atom x rho cm ;; pg <- am_spec rho cm r ;;
       Ok (match o with Some p => (p :: fst pg, snd pg) | None => (fst pg, kept_any cm (atom_chans x) || snd pg) end)) in H.
    apply bind_ok in H as (o & Ho & H). apply bind_ok in H as (pg & Hpg & H). inversion H; subst; clear H.
    specialize (IH Hr pg Hpg). destruct o as [p|]; simpl; auto.
Qed.

Lemma denote_atom_def : forall a rho cm p, denote_atom a rho cm = Ok (Some p) -> pdef p.
Proof.
  induction a using atom_ind2; intros rho cm p Hd.
  - (* AConst *)
    simpl in Hd. apply bind_ok in Hd as (dv & Hdv & Hd).
    destruct (Qltb' 0 dv) eqn:Ed; [|discriminate]. apply bind_ok in Hd as (vals & Hvals & Hd).
    destruct vals as [|v0 vr] eqn:EV; [discriminate|]. rewrite <- EV in *. clear EV v0 vr.
    inversion Hd; subst p; clear Hd.
    intros c t Hc _ _. simpl in *. apply cassoc_in_keys. rewrite map_rev, cmem_rev. exact Hc.
  - (* ATable *)
    simpl in Hd. apply bind_ok in Hd as (tabs & Htabs & Hd).
    destruct (Qeq_bool (qmax_list (map (fun ce => end_t (snd ce)) tabs)) 0) eqn:E0; [discriminate|].
    qb. eapply tables_piece_def; eauto.
    intros ce Hin Hne. apply kept_tables_in in Hin as (x & Hx & Hs). rewrite Hs in *.
    apply in_map_iff in Hx as (y & <- & _). simpl in *. apply trail_reach. exact Hne.
  - (* APoint *)
    simpl in Hd.
    destruct (forallb (fun c => match cm c with None => true | Some _ => false end) chs); [discriminate|].
    apply bind_ok in Hd as (d & Hdd & Hd).
    destruct (Qeq_bool d 0) eqn:E0; [discriminate|].
    apply bind_ok in Hd as (rows & Hrows & Hd).
    qb. eapply tables_piece_def; eauto.
    intros ce Hin _. apply kept_tables_in in Hin as (x & Hx & Hs). rewrite Hs.
    apply in_map_iff in Hx as (k & <- & _).
    destruct (rows_last rho es d rows k Hdd Hrows) as (Hl & Hn).
    change (d <= last_t (pt_front (pt_col rows k))).
    rewrite pt_front_last by exact Hn. rewrite Hl. lra.
  - (* AMulti *)
    rewrite denote_multi_unfold in Hd. apply bind_ok in Hd as (sg & Hsg & Hd).
    assert (HF : Forall pdef (fst sg)).
    { apply (am_spec_def rho cm l); auto. eapply Forall_impl; [|exact H]. intros a Ha q Hq. eapply Ha; eauto. }
    destruct (fst sg) as [|p0 r] eqn:Esg; [discriminate|].
    destruct (negb (snd sg) && forallb (fun q => Qeq_bool (pdur q) (pdur p0)) r && disjointb (map pchans (p0 :: r))) eqn:Ec;
      [|discriminate].
    inversion Hd; subst p; clear Hd.
    apply andb_prop in Ec as (Ec & _). apply andb_prop in Ec as (_ & Eq).
    intros c t Hc H0 H1. simpl in Hc, H1. unfold pval at 1. unfold multi_val.
    destruct (find_cmem c (p0 :: r) Hc) as (q & Hfind & Hin & Hcq). rewrite Hfind.
    rewrite Forall_forall in HF. apply (HF q Hin c t Hcq H0).
    destruct Hin as [->|Hin]; [exact H1|].
    rewrite forallb_forall in Eq. specialize (Eq q Hin). qb. rewrite Eq. exact H1.
  - (* AArith *)
    rewrite denote_arith_unfold in Hd.
    apply bind_ok in Hd as (lp & Hlp & Hd). apply bind_ok in Hd as (rp & Hrp & Hd).
    destruct lp as [l|], rp as [r|].
    + destruct (Qeq_bool (pdur l) (pdur r)) eqn:Eq; [|discriminate]. inversion Hd; subst p; clear Hd. qb.
      pose proof (IHa1 _ _ _ Hlp) as Dl. pose proof (IHa2 _ _ _ Hrp) as Dr.
      intros c t Hc H0 H1. simpl in *. rewrite cmem_cunion in Hc.
      destruct (cmem c (pchans l)) eqn:El; simpl.
      * destruct (Dl c t El H0 H1) as (x & Hx). rewrite Hx.
        destruct (cmem c (pchans r)) eqn:Er; [|eauto].
        destruct (Dr c t Er H0) as (y & Hy); [rewrite <- Eq; exact H1|]. rewrite Hy. eauto.
      * simpl in Hc. destruct (Dr c t Hc H0) as (y & Hy); [rewrite <- Eq; exact H1|]. rewrite Hy. eauto.
    + inversion Hd; subst. eapply IHa1; eauto.
    + inversion Hd; subst p; clear Hd. pose proof (IHa2 _ _ _ Hrp) as Dr.
      intros c t Hc H0 H1. simpl in *. destruct (Dr c t Hc H0 H1) as (y & Hy). rewrite Hy. eauto.
    + discriminate Hd.
  - (* AFunc *)
    simpl in Hd. destruct (cm c) as [m|]; [|discriminate].
    apply bind_ok in Hd as (dv & _ & Hd). apply bind_ok in Hd as (av & _ & Hd). apply bind_ok in Hd as (bv & _ & Hd).
    destruct (Qltb' 0 dv); [|discriminate]. inversion Hd; subst p. intros c' t _ _ _. simpl. eauto.
Qed.

(* ---- composition ---- *)
Lemma tf_some c : forall tr x, exists y, tf tr c (Some x) = Some y.
Proof.
  unfold tf. induction tr as [|st tr IH]; intros x; simpl; [eauto|].
  assert (exists y, sf st c (Some x) = Some y) as (y & Hy).
  { destruct st as [m|m|m]; simpl.
    - destruct (cassoc c m); simpl; eauto.
    - destruct (cassoc c m); simpl; eauto.
    - revert x. induction m as [|kv m IHm]; intro x; simpl; [eauto|]. destruct (chan_eqb c (fst kv)); apply IHm. }
  rewrite Hy. apply IH.
Qed.

Lemma sf_over_some c st x : step_over c st = true -> exists y, sf st c x = Some y.
Proof.
  destruct st as [m|m|m]; simpl; try discriminate. revert x.
  induction m as [|kv m IHm]; intros x H; simpl in *; [discriminate|].
  destruct (chan_eqb c (fst kv)) eqn:E; simpl in H.
  - clear IHm H. generalize (snd kv). induction m as [|kv' m IH']; intro q; simpl; [eauto|].
    destruct (chan_eqb c (fst kv')); apply IH'.
  - apply IHm. exact H.
Qed.

Lemma tf_over_some c : forall tr x, in_over c tr = true -> exists y, tf tr c x = Some y.
Proof.
  unfold tf. induction tr as [|st tr IH]; intros x H; simpl in *; [discriminate|].
  destruct (step_over c st) eqn:E.
  - destruct (sf_over_some c st x E) as (y & Hy). rewrite Hy. apply (tf_some c tr y).
  - simpl in H. apply IH. exact H.
Qed.

Lemma piece_trafo_def tr p : pdef p -> pdef (piece_trafo tr p).
Proof.
  intros D c t Hc H0 H1. rewrite pval_trafo. simpl in Hc, H1. rewrite cmem_trafo_outputs in Hc.
  destruct (cmem c (pchans p)) eqn:E.
  - destruct (D c t E H0 H1) as (x & Hx). rewrite Hx. apply tf_some.
  - simpl in Hc. apply tf_over_some. exact Hc.
Qed.

Lemma mirror_def p : pdef p -> pdef (mirror p).
Proof.
  intros D c t Hc H0 H1. simpl in *. apply D; auto.
  - rewrite Qred_correct. lra.
  - rewrite Qred_correct. lra.
Qed.

Lemma Forall_repeat_app {A} (P : A -> Prop) l : Forall P l -> forall n, Forall P (repeat_app n l).
Proof. intros H n. induction n; simpl; [constructor|]. apply Forall_app. auto. Qed.

Lemma denote_def : forall p rho cm pcs, denote p rho cm = Ok pcs -> Forall pdef pcs.
Proof.
  induction p using pt_ind2; intros rho cm pcs Hd.
  - simpl in Hd. apply bind_ok in Hd as (o & Ho & Hd). inversion Hd; subst; clear Hd.
    destruct o as [pc|]; constructor; [|constructor]. eapply denote_atom_def; eauto.
  - revert pcs Hd. induction H as [|x r Hx _ IH]; intros pcs Hd.
    + simpl in Hd. inversion Hd. constructor.
    + change (denote (PSeq (x :: r)) rho cm) with (a <- denote x rho cm ;; b <- denote (PSeq r) rho cm ;; Ok (a ++ b)) in Hd.
      apply bind_ok in Hd as (a & Ha & Hd). apply bind_ok in Hd as (b & Hb & Hd). inversion Hd; subst.
      apply Forall_app. split; [eapply Hx; eauto|apply IH; auto].
  - simpl in Hd. apply bind_ok in Hd as (v & _ & Hd). apply bind_ok in Hd as (k & _ & Hd).
    destruct (k <=? 0)%Z; [inversion Hd; constructor|].
    apply bind_ok in Hd as (b & Hb & Hd). inversion Hd; subst. apply Forall_repeat_app. eapply IHp; eauto.
  - simpl in Hd.
    apply bind_ok in Hd as (a' & Ha & Hd). apply bind_ok in Hd as (b' & Hb & Hd). apply bind_ok in Hd as (c' & Hc & Hd).
    destruct (c' =? 0)%Z; [discriminate|].
    revert pcs Hd. induction (zrange a' b' c') as [|j r IH]; intros pcs Hd.
    + inversion Hd. constructor.
    + apply bind_ok in Hd as (x & Hx & Hd). apply bind_ok in Hd as (y & Hy & Hd). inversion Hd; subst.
      apply Forall_app. split; [eapply IHp; eauto|apply IH; auto].
  - simpl in Hd. eapply IHp; eauto.
  - simpl in Hd. apply bind_ok in Hd as (b & Hb & Hd). inversion Hd; subst.
    apply Forall_rev. rewrite Forall_map. eapply Forall_impl; [|eapply IHp; eauto]. intros q. apply mirror_def.
  - simpl in Hd. apply bind_ok in Hd as (vals & _ & Hd). apply bind_ok in Hd as (b & Hb & Hd). inversion Hd; subst.
    rewrite Forall_map. eapply Forall_impl; [|eapply IHp; eauto]. intros q. apply piece_trafo_def.
  - simpl in Hd. apply bind_ok in Hd as (tr & _ & Hd). apply bind_ok in Hd as (b & Hb & Hd). inversion Hd; subst.
    rewrite Forall_map. eapply Forall_impl; [|eapply IHp; eauto]. intros q. apply piece_trafo_def.
Qed.

Lemma at_def : forall pcs c t, Forall pdef pcs -> Forall (fun p => cmem c (pchans p) = true) pcs ->
  0 <= t -> t < total pcs -> exists v, at_ pcs c t = Some v.
Proof.
  induction pcs as [|p r IH]; intros c t HD HC H0 H1.
  - unfold total in H1. simpl in H1. lra.
  - inversion HD as [|? ? Dp Dr]; subst. inversion HC as [|? ? Cp Cr]; subst. rewrite total_cons in H1. simpl.
    destruct (Qltb' t (pdur p)) eqn:E; qb.
    + apply Dp; auto. lra.
    + apply IH; auto; rewrite Qred_correct; lra.
Qed.

Theorem denotation_total p rho cm pcs c t :
  denote p rho cm = Ok pcs -> Forall (fun q => cmem c (pchans q) = true) pcs ->
  0 <= t -> t < total pcs -> exists v, at_ pcs c t = Some v.
Proof. intros Hd HC H0 H1. eapply at_def; eauto. eapply denote_def; eauto. Qed.

(* ---- with C01_denotes: the program plays a NUMBER at every time of [0, duration) ---- *)
Theorem no_nan p env cm prog :
  guard_C01_par_order false p = true -> guard_C01_tables p (SDict env) (cm_of cm) = true ->
  create_program p env cm None = Ok (Some prog) ->
  exists pcs, denote_top p env cm = Ok pcs /\
    forall c t, Forall (fun q => cmem c (pchans q) = true) pcs -> 0 <= t -> t < loop_dur prog ->
                exists v, play prog c t = Some v /\ oeq (Some v) (at_ pcs c t).
Proof.
  intros Hg Ht Hcp.
  destruct (create_program_denote_all p env cm Hg Ht (Some prog) Hcp) as (pcs & Hd & HF & Hdur & Hplay).
  exists pcs. split; [exact Hd|]. intros c t HC H0 H1. rewrite Hdur in H1.
  destruct (denotation_total p (env_of env) (cm_of cm) pcs c t Hd HC H0 H1) as (v' & Hv').
  specialize (Hplay c t HC H0 H1). rewrite Hv' in *.
  destruct (play prog c t) as [v|]; simpl in Hplay; [|contradiction].
  exists v. split; [reflexivity|exact Hplay].
Qed.
